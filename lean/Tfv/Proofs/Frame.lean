import Tfv.Spec.History
import Tfv.Proofs.InferUnify
import Tfv.Proofs.InferApply
/-!
# Frame lemmas for the inference engine (C16), part 1

A set `S` of variables is *closed* in a store when the bindings of its members only
mention members. The constraint-free engine, run on terms over a closed set `S`,
reads and writes variables of `S` only: `Fr S σ σ'`.
No well-formedness of the store is needed.
-/
namespace Tfv.C16P
open Tfv Tfv.C03P

/-! ## 1. terms over a set of variables -/

def TermIn (S : Nat → Prop) (t : Term) : Prop := ∀ v, VarIn v t → S v

def TermsIn (S : Nat → Prop) (ts : List Term) : Prop := ∀ t, t ∈ ts → TermIn S t

def Closed (σ : Store) (S : Nat → Prop) : Prop :=
  ∀ w b, S w → (getVar σ w).bound = some b → TermIn S b

theorem termIn_var {S : Nat → Prop} {v : Nat} : TermIn S (.var v) ↔ S v := by
  constructor
  · intro h; exact h v VarIn.var
  · intro h w hw; cases hw; exact h

theorem termIn_app {S : Nat → Prop} {o : Nat} {args : List Term} :
    TermIn S (.app o args) ↔ TermsIn S args := by
  constructor
  · intro h t ht v hv; exact h v (VarIn.app ht hv)
  · intro h v hv
    cases hv with
    | app ht hv => exact h _ ht v hv

theorem termsIn_nil {S : Nat → Prop} : TermsIn S [] := by
  intro t ht; cases ht

theorem termsIn_cons {S : Nat → Prop} {t : Term} {ts : List Term} :
    TermsIn S (t :: ts) ↔ (TermIn S t ∧ TermsIn S ts) := by
  constructor
  · intro h; exact ⟨h t (List.mem_cons_self), fun u hu => h u (List.mem_cons_of_mem _ hu)⟩
  · intro h u hu
    rcases List.mem_cons.mp hu with e | e
    · subst e; exact h.1
    · exact h.2 u e

theorem termIn_mono {S S' : Nat → Prop} (h : ∀ v, S v → S' v) {t : Term} (ht : TermIn S t) :
    TermIn S' t := fun v hv => h v (ht v hv)

/-! ## 2. `follow` -/

theorem follow_zero (σ : Store) (t : Term) : follow σ 0 t = t := by unfold follow; rfl

theorem follow_app (σ : Store) (n : Nat) (o : Nat) (args : List Term) :
    follow σ n (.app o args) = .app o args := by
  cases n <;> (unfold follow; rfl)

theorem follow_succ_var (σ : Store) (n v : Nat) :
    follow σ (n+1) (.var v) = match (getVar σ v).bound with
      | some t => follow σ n t
      | none => .var v := by
  rw [follow]; rfl

theorem followT_app (σ : Store) (o : Nat) (args : List Term) : followT σ (.app o args) = .app o args :=
  follow_app σ _ o args

theorem followT_unbound {σ : Store} {w : Nat} (hw : (getVar σ w).bound = none) :
    followT σ (.var w) = .var w := by
  unfold followT; rw [follow_succ_var]; simp only [hw]

theorem follow_in {σ : Store} {S : Nat → Prop} (hc : Closed σ S) :
    ∀ (n : Nat) (t : Term), TermIn S t → TermIn S (follow σ n t)
  | 0, t, ht => by rw [follow_zero]; exact ht
  | n+1, .app o args, ht => by rw [follow_app]; exact ht
  | n+1, .var v, ht => by
    rw [follow_succ_var]
    cases hb : (getVar σ v).bound with
    | none => exact ht
    | some t => exact follow_in hc n t (hc v t (termIn_var.mp ht) hb)

theorem followT_in {σ : Store} {S : Nat → Prop} (hc : Closed σ S) {t : Term} (ht : TermIn S t) :
    TermIn S (followT σ t) := follow_in hc _ t ht

/-! ## 3. the frame relation -/

/-- `σ'` differs from `σ` only on `S`, which is still closed; nothing was allocated -/
structure Fr (S : Nat → Prop) (σ σ' : Store) : Prop where
  len : σ'.vars.length = σ.vars.length
  nc : NoConstraints σ'
  frame : ∀ v, ¬ S v → getVar σ' v = getVar σ v
  closed : Closed σ' S

theorem Fr.refl {S : Nat → Prop} {σ : Store} (nc : NoConstraints σ) (hc : Closed σ S) : Fr S σ σ :=
  ⟨rfl, nc, fun _ _ => rfl, hc⟩

theorem Fr.trans {S : Nat → Prop} {a b c : Store} (h1 : Fr S a b) (h2 : Fr S b c) : Fr S a c :=
  ⟨h2.len.trans h1.len, h2.nc, fun v hv => (h2.frame v hv).trans (h1.frame v hv), h2.closed⟩

theorem fr_setVar {S : Nat → Prop} {σ : Store} (nc : NoConstraints σ) (hc : Closed σ S) {v : Nat}
    (hv : S v) (i : VarInfo) (hi : ∀ b, i.bound = some b → TermIn S b) : Fr S σ (setVar σ v i) := by
  refine ⟨length_setVar _ _ _, nc_setVar nc _ _, fun w hw => ?_, fun w b hw hb => ?_⟩
  · apply getVar_setVar_ne
    intro e; subst e; exact hw hv
  · rw [getVar_setVar] at hb
    split at hb
    · exact hi b hb
    · exact hc w b hw hb

theorem fr_setCset_nil {S : Nat → Prop} {σ : Store} (nc : NoConstraints σ) (hc : Closed σ S) (k : Nat) :
    Fr S σ (setCset σ k []) :=
  ⟨rfl, nc_setCset_nil nc k, fun _ _ => rfl, hc⟩

/-- updating fields other than `bound` -/
theorem fr_setVar_same {S : Nat → Prop} {σ : Store} (nc : NoConstraints σ) (hc : Closed σ S) {v : Nat}
    (hv : S v) (i : VarInfo) (hi : i.bound = (getVar σ v).bound) : Fr S σ (setVar σ v i) :=
  fr_setVar nc hc hv i (fun b hb => hc v b hv (hi ▸ hb))

theorem Fr.put {S : Nat → Prop} {σ σ1 : Store} (f : Fr S σ σ1) {v : Nat} (hv : S v) {i : VarInfo}
    (hi : ∀ b, i.bound = some b → TermIn S b) : Fr S σ (setVar σ1 v i) :=
  f.trans (fr_setVar f.nc f.closed hv i hi)

theorem Fr.put_same {S : Nat → Prop} {σ σ1 : Store} (f : Fr S σ σ1) {v : Nat} (hv : S v) {i : VarInfo}
    (hi : i.bound = (getVar σ1 v).bound) : Fr S σ (setVar σ1 v i) :=
  f.trans (fr_setVar_same f.nc f.closed hv i hi)

theorem Fr.cs_nil {S : Nat → Prop} {σ σ1 : Store} (f : Fr S σ σ1) {k : Nat} {cs : List Nat}
    (hcs : NoConstraints σ1 → cs = []) : Fr S σ (setCset σ1 k cs) := by
  rw [hcs f.nc]
  exact f.trans (fr_setCset_nil f.nc f.closed k)

theorem Fr.fold_cs {S : Nat → Prop} {σ : Store} (k : Nat) : ∀ (vars : List Nat) (σ1 : Store),
    Fr S σ σ1 → (∀ x, x ∈ vars → S x) →
    Fr S σ (vars.foldl (fun σ w => setVar σ w { (getVar σ w) with cset := k }) σ1)
  | [], σ1, f, _ => f
  | w :: ws, σ1, f, h => by
    simp only [List.foldl_cons]
    exact Fr.fold_cs k ws _ (f.put_same (h w List.mem_cons_self) rfl)
      (fun x hx => h x (List.mem_cons_of_mem _ hx))

/-! ## 4. `directVars` stays inside the closed set -/

theorem directVars_in {σ : Store} {S : Nat → Prop} (hc : Closed σ S) :
    ∀ (n : Nat) (t : Term) (acc : List Nat), TermIn S t → (∀ x, x ∈ acc → S x) →
      ∀ x, x ∈ directVars σ n t acc → S x
  | 0, t, acc, _, hacc => by unfold directVars; exact hacc
  | n+1, t, acc, ht, hacc => by
    have ht' := followT_in hc ht
    unfold directVars
    split
    · next v e =>
      rw [e] at ht'
      split
      · exact hacc
      · intro x hx
        rcases List.mem_append.mp hx with hx | hx
        · exact hacc x hx
        · rw [List.mem_singleton] at hx; subst hx; exact termIn_var.mp ht'
    · next o args e =>
      rw [e] at ht'
      have hargs := termIn_app.mp ht'
      have key : ∀ (l : List Term) (acc : List Nat), TermsIn S l → (∀ x, x ∈ acc → S x) →
          ∀ x, x ∈ l.foldl (fun acc t => directVars σ n t acc) acc → S x := by
        intro l
        induction l with
        | nil => intro acc _ hacc; exact hacc
        | cons u us ih =>
          intro acc hl hacc
          simp only [List.foldl_cons]
          exact ih _ (termsIn_cons.mp hl).2 (directVars_in hc n u acc (termsIn_cons.mp hl).1 hacc)
      exact key args acc hargs hacc

/-! ## 5. the stores `bind` builds -/

theorem fr_bindBaseStore {S : Nat → Prop} {σ : Store} (nc : NoConstraints σ) (hc : Closed σ S) {v : Nat}
    (hv : S v) {t : Term} (ht : TermIn S t) : Fr S σ (bindBaseStore σ v t) := by
  unfold bindBaseStore
  simp only []
  refine Fr.put ?_ hv (fun b hb => ?_)
  · exact (Fr.refl nc hc).put_same hv rfl
  · injection hb with hb; subst hb; exact ht

theorem fr_bindAppStore {S : Nat → Prop} {σ : Store} (nc : NoConstraints σ) (hc : Closed σ S) {v : Nat}
    (hv : S v) {t : Term} (ht : TermIn S t) : Fr S σ (bindAppStore σ v t) := by
  have f0 := fr_bindBaseStore nc hc hv ht
  unfold bindAppStore
  simp only []
  refine Fr.fold_cs _ _ _ ?_ ?_
  · exact f0.cs_nil (fun nc' => merged_nil nc' _ _)
  · exact directVars_in f0.closed _ _ _ ht (fun x hx => by cases hx)

theorem fr_bindVarStore {S : Nat → Prop} {σ : Store} (nc : NoConstraints σ) (hc : Closed σ S) {v tv : Nat}
    (hv : S v) (htv : S tv) : Fr S σ (bindVarStore σ v tv) := by
  have f0 := fr_bindBaseStore nc hc hv (termIn_var.mpr htv)
  unfold bindBaseStore at f0
  simp only [] at f0
  unfold bindVarStore
  simp only []
  refine Fr.put_same ?_ htv rfl
  refine Fr.put_same ?_ hv rfl
  exact f0.cs_nil (fun nc' => by rw [nc', nc']; rfl)

/-! ## 6. the statements proved by induction on the fuel -/

def UnifyF (L : Lang) (n : Nat) : Prop :=
  ∀ (S : Nat → Prop) σ a b σ', NoConstraints σ → Closed σ S → TermIn S a → TermIn S b →
    unify L n σ a b true false false = .ok σ' → Fr S σ σ'

def UnifyListF (L : Lang) (n : Nat) : Prop :=
  ∀ (S : Nat → Prop) σ vs xs ys σ', NoConstraints σ → Closed σ S → TermsIn S xs → TermsIn S ys →
    unifyList L n σ vs xs ys true false false = .ok σ' → Fr S σ σ'

def BindF (L : Lang) (n : Nat) : Prop :=
  ∀ (S : Nat → Prop) σ v t σ', NoConstraints σ → Closed σ S → S v → TermIn S t →
    bind L n σ v t = .ok σ' → Fr S σ σ'

def AboveF (L : Lang) (n : Nat) : Prop :=
  ∀ (S : Nat → Prop) σ v new σ', NoConstraints σ → Closed σ S → S v →
    above L n σ v new = .ok σ' → Fr S σ σ'

def BelowF (L : Lang) (n : Nat) : Prop :=
  ∀ (S : Nat → Prop) σ v new σ', NoConstraints σ → Closed σ S → S v →
    below L n σ v new = .ok σ' → Fr S σ σ'

def FixF (L : Lang) (n : Nat) : Prop :=
  ∀ (S : Nat → Prop) σ t pl σ' t', NoConstraints σ → Closed σ S → TermIn S t →
    fix L n σ t pl = .ok (σ', t') → Fr S σ σ' ∧ TermIn S t'

def FixListF (L : Lang) (n : Nat) : Prop :=
  ∀ (S : Nat → Prop) σ vs ps pl σ', NoConstraints σ → Closed σ S → TermsIn S ps →
    fixList L n σ vs ps pl = .ok σ' → Fr S σ σ'

theorem termIn_base {S : Nat → Prop} (o : Nat) : TermIn S (.app o []) :=
  termIn_app.mpr termsIn_nil

/-! ## 7. `above`, `below` -/

theorem above_stepF {L : Lang} {n : Nat} (hbind : BindF L n) : AboveF L (n+1) := by
  intro S σ v new σ' nc hc hv h
  unfold above at h
  split at h
  · exact hbind S σ v _ σ' nc hc hv (termIn_base _) h
  · simp only [] at h
    split at h
    · cases h
    · split at h
      · cases h
      · next σr hr =>
        have f1 : Fr S σ (setVar σ v { (getVar σ v) with wildcard := false }) :=
          (Fr.refl nc hc).put_same hv rfl
        have key : Fr S σ σr := by
          split at hr
          · cases hr
          · split at hr
            · cases hr
            · split at hr
              · injection hr with hr; subst hr; exact f1
              · split at hr
                · have f2 : Fr S σ (setVar (setVar σ v { (getVar σ v) with wildcard := false }) v
                      { bound := (getVar σ v).bound, lower := some new, upper := (getVar σ v).upper,
                        cset := (getVar σ v).cset }) :=
                    f1.put hv (fun b hb => hc v b hv hb)
                  have e := checkConstraints_nc f2.nc _ hr
                  subst e; exact f2
                · cases hr
        split at h
        · split at h
          · exact key.trans (hbind S σr v _ σ' key.nc key.closed hv (termIn_base _) h)
          · injection h with h; subst h; exact key
        · injection h with h; subst h; exact key

theorem below_stepF {L : Lang} {n : Nat} (hbind : BindF L n) : BelowF L (n+1) := by
  intro S σ v new σ' nc hc hv h
  unfold below at h
  split at h
  · exact hbind S σ v _ σ' nc hc hv (termIn_base _) h
  · simp only [] at h
    split at h
    · cases h
    · split at h
      · cases h
      · next σr hr =>
        have f1 : Fr S σ (setVar σ v { (getVar σ v) with wildcard := false }) :=
          (Fr.refl nc hc).put_same hv rfl
        have key : Fr S σ σr := by
          split at hr
          · cases hr
          · split at hr
            · cases hr
            · split at hr
              · injection hr with hr; subst hr; exact f1
              · split at hr
                · have f2 : Fr S σ (setVar (setVar σ v { (getVar σ v) with wildcard := false }) v
                      { bound := (getVar σ v).bound, lower := (getVar σ v).lower, upper := some new,
                        cset := (getVar σ v).cset }) :=
                    f1.put hv (fun b hb => hc v b hv hb)
                  have e := checkConstraints_nc f2.nc _ hr
                  subst e; exact f2
                · cases hr
        split at h
        · split at h
          · exact key.trans (hbind S σr v _ σ' key.nc key.closed hv (termIn_base _) h)
          · injection h with h; subst h; exact key
        · injection h with h; subst h; exact key

/-! ## 8. `bind` -/

theorem bind_stepF {L : Lang} {n : Nat} (hunify : UnifyF L n) : BindF L (n+1) := by
  intro S σ v t σ' nc hc hv ht h
  cases t with
  | var tv =>
    have htv := termIn_var.mp ht
    rw [bind_var_eq] at h
    split at h
    · cases h
    · split at h
      · injection h with h; subst h
        exact (Fr.refl nc hc).put_same hv rfl
      · have fB := fr_bindVarStore nc hc hv htv
        split at h
        · cases h
        · next σ1 h1 =>
          have k1 : Fr S σ σ1 := by
            split at h1
            · exact fB.trans (hunify S _ _ _ σ1 fB.nc fB.closed (termIn_base _) ht h1)
            · injection h1 with h1; subst h1; exact fB
          split at h
          · cases h
          · next σ2 h2 =>
            have k2 : Fr S σ σ2 := by
              split at h2
              · exact k1.trans (hunify S _ _ _ σ2 k1.nc k1.closed ht (termIn_base _) h2)
              · injection h2 with h2; subst h2; exact k1
            have e := checkConstraints_nc k2.nc _ h
            subst e; exact k2
  | app o args =>
    rw [bind_app_eq] at h
    split at h
    · cases h
    · split at h
      · split at h
        · cases h
        · split at h
          · cases h
          · have f := fr_bindBaseStore nc hc hv ht
            have e := checkConstraints_nc f.nc _ h
            subst e; exact f
      · split at h
        · cases h
        · have f := fr_bindAppStore nc hc hv ht
          have e := checkConstraints_nc f.nc _ h
          subst e; exact f

/-! ## 9. `unify`, `unifyList` -/

theorem unify_stepF {L : Lang} {n : Nat} (hlist : UnifyListF L n) (hbind : BindF L n)
    (habove : AboveF L n) (hbelow : BelowF L n) : UnifyF L (n+1) := by
  intro S σ a b σ' nc hc ha hb h
  have ha' := followT_in hc ha
  have hb' := followT_in hc hb
  unfold unify at h
  split at h
  · next av bv e1 e2 =>
    simp only [Bool.not_false, Bool.true_or, if_true] at h
    rw [e1] at ha'; rw [e2] at hb'
    exact hbind S σ av _ σ' nc hc (termIn_var.mp ha') hb' h
  · next ao as bo bs e1 e2 =>
    simp only [Bool.true_and, Bool.false_eq_true, if_false, Bool.not_true, Bool.false_and] at h
    rw [e1] at ha'; rw [e2] at hb'
    split at h
    · injection h with h; subst h; exact Fr.refl nc hc
    · split at h
      · split at h
        · cases h
        · injection h with h; subst h; exact Fr.refl nc hc
      · split at h
        · exact hlist S σ _ as bs σ' nc hc (termIn_app.mp ha') (termIn_app.mp hb') h
        · cases h
  · next av bo bs e1 e2 =>
    simp only [Bool.false_or, Bool.false_and, Bool.false_eq_true, if_false, if_true] at h
    rw [e1] at ha'; rw [e2] at hb'
    split at h
    · injection h with h; subst h; exact Fr.refl nc hc
    · split at h
      · cases h
      · split at h
        · exact hbelow S σ av bo σ' nc hc (termIn_var.mp ha') h
        · exact hbind S σ av _ σ' nc hc (termIn_var.mp ha') hb' h
  · next ao as bv e1 e2 =>
    simp only [Bool.false_or, Bool.false_and, Bool.false_eq_true, if_false, if_true] at h
    rw [e1] at ha'; rw [e2] at hb'
    split at h
    · injection h with h; subst h; exact Fr.refl nc hc
    · split at h
      · cases h
      · split at h
        · exact habove S σ bv ao σ' nc hc (termIn_var.mp hb') h
        · exact hbind S σ bv _ σ' nc hc (termIn_var.mp hb') ha' h

theorem unifyList_cases (L : Lang) (n : Nat) (σ : Store) (vs : List Bool) (xs ys : List Term)
    (st sb sw : Bool) :
    (∃ v vs' x xs' y ys', vs = v :: vs' ∧ xs = x :: xs' ∧ ys = y :: ys') ∨
      unifyList L (n+1) σ vs xs ys st sb sw = .ok σ := by
  cases vs with
  | nil => right; rw [unifyList]; intro _ _ _ _ _ _ h; cases h
  | cons v vs' =>
    cases xs with
    | nil => right; rw [unifyList]; intro _ _ _ _ _ _ _ h; cases h
    | cons x xs' =>
      cases ys with
      | nil => right; rw [unifyList]; intro _ _ _ _ _ _ _ _ h; cases h
      | cons y ys' => left; exact ⟨v, vs', x, xs', y, ys', rfl, rfl, rfl⟩

theorem unifyList_stepF {L : Lang} {n : Nat} (hunify : UnifyF L n) (hlist : UnifyListF L n) :
    UnifyListF L (n+1) := by
  intro S σ vs xs ys σ' nc hc hxs hys h
  rcases unifyList_cases L n σ vs xs ys true false false with ⟨v, vs, x, xs, y, ys, rfl, rfl, rfl⟩ | e
  · rw [unifyList_cons] at h
    obtain ⟨hx, hxs'⟩ := termsIn_cons.mp hxs
    obtain ⟨hy, hys'⟩ := termsIn_cons.mp hys
    split at h
    · cases h
    · next σ1 h1 =>
      have f1 : Fr S σ σ1 := by
        cases v with
        | true => exact hunify S σ x y σ1 nc hc hx hy (by simpa using h1)
        | false => exact hunify S σ y x σ1 nc hc hy hx (by simpa using h1)
      exact f1.trans (hlist S σ1 vs xs ys σ' f1.nc f1.closed hxs' hys' h)
  · rw [e] at h
    injection h with h; subst h; exact Fr.refl nc hc

/-! ## 10. `fix`, `fixList` -/

theorem fix_stepF {L : Lang} {n : Nat} (hbind : BindF L n) (hlist : FixListF L n) : FixF L (n+1) := by
  intro S σ t pl σ' t' nc hc ht h
  have ht' := followT_in hc ht
  unfold fix at h
  split at h
  · next o args e1 =>
    rw [e1] at ht'
    split at h
    · cases h
    · next σ1 h1 =>
      injection h with h
      injection h with h2 h3
      subst h2; subst h3
      exact ⟨hlist S σ _ args pl σ1 nc hc (termIn_app.mp ht') h1, ht'⟩
  · next v e1 =>
    rw [e1] at ht'
    have hv := termIn_var.mp ht'
    simp only [] at h
    split at h
    · cases h
    · next σ1 h1 =>
      injection h with h
      injection h with h2 h3
      subst h2; subst h3
      have f : Fr S σ σ1 := by
        split at h1
        · split at h1
          · exact hbind S σ v _ σ1 nc hc hv (termIn_base _) h1
          · injection h1 with h1; subst h1; exact Fr.refl nc hc
        · split at h1
          · split at h1
            · exact hbind S σ v _ σ1 nc hc hv (termIn_base _) h1
            · injection h1 with h1; subst h1; exact Fr.refl nc hc
          · injection h1 with h1; subst h1; exact Fr.refl nc hc
      exact ⟨f, followT_in f.closed ht'⟩

theorem fixList_stepF {L : Lang} {n : Nat} (hfix : FixF L n) (hlist : FixListF L n) :
    FixListF L (n+1) := by
  intro S σ vs ps pl σ' nc hc hps h
  match vs, ps with
  | [], ps =>
    rw [fixList_nil_left] at h
    injection h with h; subst h; exact Fr.refl nc hc
  | vs, [] =>
    rw [fixList_nil_right] at h
    injection h with h; subst h; exact Fr.refl nc hc
  | v :: vs, p :: ps =>
    rw [fixList_cons] at h
    obtain ⟨hp, hps'⟩ := termsIn_cons.mp hps
    split at h
    · cases h
    · next σ1 t1 h1 =>
      obtain ⟨f1, _⟩ := hfix S σ p _ σ1 t1 nc hc hp h1
      exact f1.trans (hlist S σ1 vs ps pl σ' f1.nc f1.closed hps' h)

/-! ## 11. the induction on the fuel -/

theorem all_frame (L : Lang) : ∀ n,
    UnifyF L n ∧ UnifyListF L n ∧ BindF L n ∧ AboveF L n ∧ BelowF L n ∧ FixF L n ∧ FixListF L n
  | 0 => by
    refine ⟨?_, ?_, ?_, ?_, ?_, ?_, ?_⟩
    · intro S σ a b σ' _ _ _ _ h; unfold unify at h; cases h
    · intro S σ vs xs ys σ' _ _ _ _ h; unfold unifyList at h; cases h
    · intro S σ v t σ' _ _ _ _ h; unfold bind at h; cases h
    · intro S σ v new σ' _ _ _ h; unfold above at h; cases h
    · intro S σ v new σ' _ _ _ h; unfold below at h; cases h
    · intro S σ t pl σ' t' _ _ _ h; unfold fix at h; cases h
    · intro S σ vs ps pl σ' _ _ _ h; unfold fixList at h; cases h
  | n+1 => by
    obtain ⟨h1, h2, h3, h4, h5, h6, h7⟩ := all_frame L n
    exact ⟨unify_stepF h2 h3 h4 h5, unifyList_stepF h1 h2, bind_stepF h1,
      above_stepF h3, below_stepF h3, fix_stepF h3 h7, fixList_stepF h6 h7⟩

end Tfv.C16P
