import re
src = open('/tmp/pf/b14/lean/Tfv/Model/Infer.lean').read().split('\n')
# lines (1-based) 181..457 : mutual block ; 488-514 addConstraint(s); 521-527 spineFollow ; 529-565 instantiate, applyT
block = '\n'.join(src[180:457])
tail1 = '\n'.join(src[487:514])
tail2 = '\n'.join(src[520:565])
def sub(txt):
    names = ['unifyList','unify','bind','above','below','checkConstraints','checkList','fulfill','minimize','minLoop','fixList','fix']
    # function names with (L : Lang) definitions and calls "name L"
    for nm in names:
        txt = re.sub(r'\bdef %s \(L : Lang\)' % nm, 'def %sE (L : Lang) (kv : Nat)' % nm, txt)
        txt = re.sub(r'\b%s L ' % nm, '%sE L kv ' % nm, txt)
    txt = re.sub(r'\bfollowT ', 'followTE kv ', txt)
    txt = re.sub(r'\bmatchFuel ', 'matchFuelE kv ', txt)
    txt = re.sub(r'\btermFuel ', 'termFuelE kv ', txt)
    txt = re.sub(r'\bmatch3 L ', 'match3E L kv ', txt)
    txt = re.sub(r'\boccurs L ', 'occursE L kv ', txt)
    txt = re.sub(r'\bdirectVars ', 'directVarsE kv ', txt)
    txt = re.sub(r'\bvarsOfTerms ', 'varsOfTermsE kv kc ', txt)
    return txt
b = sub(block)
t1 = sub(tail1)
t1 = t1.replace('def addConstraint (L : Lang)', 'def addConstraintE (L : Lang) (kv kc : Nat)')
t1 = t1.replace('def addConstraints (L : Lang)', 'def addConstraintsE (L : Lang) (kv kc : Nat)')
t1 = re.sub(r'\baddConstraint L ', 'addConstraintE L kv kc ', t1)
t1 = re.sub(r'\baddConstraints L ', 'addConstraintsE L kv kc ', t1)
t2 = sub(tail2)
t2 = t2.replace('def spineFollow (σ : Store)', 'def spineFollowE (kv : Nat) (σ : Store)')
t2 = re.sub(r'\bspineFollow ', 'spineFollowE kv ', t2)
t2 = t2.replace('def instantiate (L : Lang)', 'def instantiateE (L : Lang) (kv kc : Nat)')
t2 = t2.replace('def applyT (L : Lang)', 'def applyTE (L : Lang) (kv : Nat)')
t2 = re.sub(r'\baddConstraints L ', 'addConstraintsE L kv kc ', t2)
open('block.txt','w').write(b)
open('tail1.txt','w').write(t1)
open('tail2.txt','w').write(t2)
