"""C17 - type checking and parsing fail only with their declared errors, and terminate."""
from __future__ import annotations
import time
import langgen as G
import parsegen as PG
import infer as I
from props import C03

RULE = ("(a) strings over the token alphabet (names, ASCII and non-ASCII digits, - ( ) , : ; * _ # ~ newline, blanks): token soup, "
        "well-formed expressions/types and 1-3 character mutations of them, through tokenize, parse_type and parse_expr on the "
        "implementation and the model; (b) schemas with subtype/elimination constraints (self-referential and mutually dependent included) "
        "applied to argument sequences as in C03; oracle: the exception class is in the declared families and each case finishes within 5 s; "
        "non-trivial = the string has >= 3 tokens / the chain reached an application; distinct by input")
ASSUMPTIONS = ["str.isdecimal/int on the generator's digit alphabet (ASCII, Arabic-Indic, fullwidth) as tabulated in the model",
               "the interpreter recursion limit is outside the model (known finding D11 for >= 250-deep types)"]
INVARIANTS = True   # runner.run_invariants: hypotheses of the engine theorems evaluated on the model's runs of this check's infer lines
TRUSTED = ["harness/parsegen.py, harness/infer.py"]

DECLARED_PARSE = ("ParseError", "BracketMismatch", "EmptyParse", "UndefinedTokenError", "MissingInputError",
    "TypeParameterError", "TypeAnnotationError", "ApplicationError", "TypeMismatch", "SubtypeMismatch",
    "FunctionApplicationError", "RecursiveTypeError", "ConstraintViolation", "UnexpectedVariableError", "ConstrainFreeVariableError")


def declared(ex):
    from transforge.lang import ParseError
    from transforge.type import TypingError
    from transforge.expr import ApplicationError
    return isinstance(ex, (ParseError, TypingError, ApplicationError))


def run(ctx):
    rng = ctx.rng
    nlang = 3 if ctx.tier == "quick" else 12
    nstr = 700 if ctx.tier == "quick" else 4000
    for li in range(nlang):
        spec = G.gen_lang(rng, max_base=4, max_ops=2, max_arity=2)
        ops = spec.build()
        lang, aliases = PG.plain_language(spec, ops)
        for l in PG.setup_lines(spec, aliases):
            ctx.setup(l, "ok")
        for k in range(nstr):
            r = rng.random()
            ninputs = rng.randint(0, 2)
            if r < 0.3:
                text = PG.gen_soup(rng, rng.randint(1, 9))
                kind = "soup"
            elif r < 0.65:
                tree = PG.gen_tree(rng, rng.randint(1, 3), ninputs)
                text = PG.mutate(rng, PG.render_spine(rng, tree, spec))
                kind = "mutated-expr"
            elif r < 0.85:
                text = PG.mutate(rng, PG.gen_type_text(rng, spec, 2))
                kind = "mutated-type"
            else:
                text = PG.gen_type_text(rng, spec, 3)
                kind = "type"
            ctx.count("kind_" + kind)
            ntok = len(text.split())
            # tokenizer
            for mode in ("expr", "type"):
                ctx.case(f"(tokenize {mode} {G.str_sexp(text)})", PG.obs_tokenize(text, mode),
                    {"op": "tokenize", "mode": mode, "text": text}, nontrivial=ntok >= 3, key=("tok", mode, text))
            # type parser
            t0 = time.time()
            obs, ex = bounded(lambda: PG.obs_parse_type(lang, text, ops))
            check(ctx, "parse_type", text, obs, ex, time.time() - t0, spec)
            ctx.case(f"(ptype {G.str_sexp(text)})", obs, {"lang": spec.to_json(), "op": "parse_type", "text": text},
                nontrivial=ntok >= 3, key=("ptype", li, text))
            # expression parser (structure)
            t0 = time.time()
            obs, ex = bounded(lambda: PG.obs_parse_expr(lang, text, ninputs, ops))
            check(ctx, "parse_expr", text, obs, ex, time.time() - t0, spec, ninputs)
            if obs != "E:TypeAnnotationError":
                ctx.case(f"(pexpr {ninputs} {G.str_sexp(text)})", obs, {"lang": spec.to_json(), "op": "parse_expr", "text": text, "inputs": ninputs},
                    nontrivial=ntok >= 3, key=("pexpr", li, ninputs, text))
            # typed parse (implementation only)
            t0 = time.time()
            obs, ex = bounded(lambda: PG.obs_parse_expr(lang, text, ninputs, ops, unify=True))
            check(ctx, "parse", text, obs, ex, time.time() - t0, spec, ninputs)
    # (b) the engine: constraint-heavy schemas
    C03.run(ctx, p_constraints=0.9, nlang=3 if ctx.tier == "quick" else 25, ncase=120 if ctx.tier == "quick" else 800)
    engine_errors(ctx)
    deep_nesting(ctx)


class _Timeout(Exception):
    pass


def bounded(fn, seconds=5):
    """run fn() under a wall-clock bound: a parser that does not come back is a failure of the property, not of the check"""
    import signal

    def handler(signum, frame):
        raise _Timeout()
    old = signal.signal(signal.SIGALRM, handler)
    signal.setitimer(signal.ITIMER_REAL, seconds)
    try:
        return fn()
    except _Timeout as ex:
        return "E:Timeout", ex
    finally:
        signal.setitimer(signal.ITIMER_REAL, 0)
        signal.signal(signal.SIGALRM, old)


def check(ctx, what, text, obs, ex, dt, spec, ninputs=0):
    ctx.count(f"{what}_" + (obs.split(" ")[0] if obs.startswith("ok") else obs))
    if dt > 5 or isinstance(ex, _Timeout):
        if isinstance(ex, _Timeout):
            ex = None
        ctx.fail(f"{what}({text!r}) took {dt:.1f}s", {"check": "timeout", "what": what}, {"lang": spec.to_json(), "what": what, "text": text, "inputs": ninputs})
    if ex is not None and not declared(ex):
        ctx.fail(f"{what}({text!r}) raised {type(ex).__name__}: {ex}", {"check": "undeclared-error", "what": what, "exception": type(ex).__name__},
            {"lang": spec.to_json(), "what": what, "text": text, "inputs": ninputs})


def engine_errors(ctx):
    """every failure of the C03-style chains of this run must be a typing error"""
    for kind, exp, cj in [e[:3] for e in ctx.expect]:
        if kind != "case" or not isinstance(exp, str) or "E@" not in exp:
            continue
        last = exp.split(" | ")[-1]
        if last.startswith("E@") and ("Internal(" in last or ":X:" in last):
            ctx.fail(f"inference failed with {last} on {cj.get('schema')} applied to {cj.get('args')}",
                {"check": "undeclared-error", "what": "engine", "exception": last.split(":", 1)[1]}, cj)


def deep_nesting(ctx):
    """known finding D11: the interpreter recursion limit on very deep types; probe once per run"""
    from transforge.type import TypeOperator
    from transforge.expr import Operator
    from transforge.lang import Language
    A = TypeOperator("A"); F = TypeOperator("F", params=1); f = Operator(type=lambda x: x ** x, name="f")
    lang = Language(scope={"A": A, "F": F, "f": f})
    for depth in (60, 400):
        text = "f (- : " + "F(" * depth + "A" + ")" * depth + ")"
        try:
            lang.parse(text)
            ctx.count(f"deep_{depth}_ok")
        except Exception as ex:  # noqa
            if not declared(ex):
                ctx.fail(f"parse of a {depth}-deep type raised {type(ex).__name__}",
                    {"check": "undeclared-error", "what": "parse", "exception": type(ex).__name__, "nesting": depth},
                    {"what": "deep", "depth": depth})
        ctx.evaluations += 1


def replay(ctx, payload):
    inp = payload["input"]
    if inp.get("what") == "deep":
        c = type("C", (), {"failures": [], "stats": {}, "evaluations": 0, "count": lambda s, n, k=1: None,
            "fail": lambda s, d, f, r: s.failures.append(d)})()
        deep_nesting(c)
        print(c.failures or "holds")
        return not c.failures
    if "text" in inp:
        spec = G.LangSpec([(n, v, p) for n, v, p in inp["lang"]])
        ops = spec.build()
        lang, aliases = PG.plain_language(spec, ops)
        what = inp["what"]
        if what == "parse_type":
            obs, ex = PG.obs_parse_type(lang, inp["text"], ops)
        else:
            obs, ex = PG.obs_parse_expr(lang, inp["text"], inp.get("inputs", 0), ops, unify=(what == "parse"))
        print(what, repr(inp["text"]), "->", obs, type(ex).__name__ if ex else "")
        return ex is None or declared(ex)
    return C03.replay(ctx, payload)
