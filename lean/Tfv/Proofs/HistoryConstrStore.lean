import Tfv.Proofs.HistoryConstrEq
/-!
# History independence in the shift form WITH constraints (C16), part 4: outcomes and the stores `bind` builds
-/
namespace Tfv.C16H
open Tfv Tfv.C03P Tfv.C16P Tfv.C03C Tfv.C16C Tfv.C18P

/-! ## 1. outcomes seen from behind a history -/

/-- the same error, or the store placed behind the history -/
def shR (σ₀ : Store) : Except Err Store → Except Err Store
  | .error e => .error e
  | .ok σ => .ok (σ₀.appendC σ)

/-- … with a flag -/
def shB (σ₀ : Store) : Except Err (Store × Bool) → Except Err (Store × Bool)
  | .error e => .error e
  | .ok (σ, b) => .ok (σ₀.appendC σ, b)

/-- … with a list of terms -/
def shL (σ₀ : Store) : Except Err (Store × List Term) → Except Err (Store × List Term)
  | .error e => .error e
  | .ok (σ, ts) => .ok (σ₀.appendC σ, Term.shiftL σ₀.vars.length ts)

@[simp] theorem shR_error (σ₀ : Store) (e : Err) : shR σ₀ (.error e) = .error e := rfl
@[simp] theorem shR_ok (σ₀ σ : Store) : shR σ₀ (.ok σ) = .ok (σ₀.appendC σ) := rfl
@[simp] theorem shB_error (σ₀ : Store) (e : Err) : shB σ₀ (.error e) = .error e := rfl
@[simp] theorem shB_ok (σ₀ σ : Store) (b : Bool) : shB σ₀ (.ok (σ, b)) = .ok (σ₀.appendC σ, b) := rfl
@[simp] theorem shL_error (σ₀ : Store) (e : Err) : shL σ₀ (.error e) = .error e := rfl
@[simp] theorem shL_ok (σ₀ σ : Store) (ts : List Term) :
    shL σ₀ (.ok (σ, ts)) = .ok (σ₀.appendC σ, Term.shiftL σ₀.vars.length ts) := rfl
@[simp] theorem shP_error (σ₀ : Store) (e : Err) : afterHistoryC σ₀ (.error e) = .error e := rfl
@[simp] theorem shP_ok (σ₀ σ : Store) (t : Term) :
    afterHistoryC σ₀ (.ok (σ, t)) = .ok (σ₀.appendC σ, t.shift σ₀.vars.length) := rfl

/-! ## 2. what a frame step behind the history gives -/

theorem termScoped_mono {σ σ' : Store} (h : σ.vars.length ≤ σ'.vars.length) {t : Term} (ht : TermScoped σ t) :
    TermScoped σ' t := fun v hv => Nat.lt_of_lt_of_le (ht v hv) h

theorem termScoped_var {σ : Store} {v : Nat} : TermScoped σ (.var v) ↔ v < σ.vars.length := by
  constructor
  · intro h; exact h v VarIn.var
  · intro h w hw; cases hw; exact h

theorem termScoped_app {σ : Store} {o : Nat} {args : List Term} :
    TermScoped σ (.app o args) ↔ ∀ t, t ∈ args → TermScoped σ t := by
  constructor
  · intro h t ht v hv; exact h v (VarIn.app ht hv)
  · intro h v hv
    cases hv with
    | app hm hv => exact h _ hm v hv

theorem termScoped_base {σ : Store} (o : Nat) : TermScoped σ (.app o []) :=
  termScoped_app.mpr (fun _ h => nomatch h)

structure Grow (σ σ1 : Store) : Prop where
  vlen : σ.vars.length ≤ σ1.vars.length
  klen : σ.csets.length ≤ σ1.csets.length
  clen : σ.constrs.length ≤ σ1.constrs.length

theorem Grow.refl (σ : Store) : Grow σ σ := ⟨Nat.le_refl _, Nat.le_refl _, Nat.le_refl _⟩
theorem Grow.trans {a b c : Store} (h1 : Grow a b) (h2 : Grow b c) : Grow a c :=
  ⟨Nat.le_trans h1.vlen h2.vlen, Nat.le_trans h1.klen h2.klen, Nat.le_trans h1.clen h2.clen⟩
theorem Grow.ts {σ σ1 : Store} (g : Grow σ σ1) {t : Term} (h : TermScoped σ t) : TermScoped σ1 t :=
  termScoped_mono g.vlen h
theorem Grow.tss {σ σ1 : Store} (g : Grow σ σ1) {ts : List Term} (h : ∀ t, t ∈ ts → TermScoped σ t) :
    ∀ t, t ∈ ts → TermScoped σ1 t := fun t ht => termScoped_mono g.vlen (h t ht)

/-- a frame step behind the history: the part behind the history is closed again and has grown -/
theorem behind_of_frC {σ₀ σ σ1 : Store} (f : FrC (beyond σ₀) (σ₀.appendC σ) (σ₀.appendC σ1)) :
    Behind σ₀ σ1 ∧ Grow σ σ1 := by
  refine ⟨f.closed, ?_, ?_, ?_⟩
  · have := f.len; rw [vlen_appendC, vlen_appendC] at this; omega
  · have := f.klen; rw [klen_appendC, klen_appendC] at this; omega
  · have := f.clen; rw [clen_appendC, clen_appendC] at this; omega

theorem Behind.tin {σ₀ σ : Store} (_ : Behind σ₀ σ) {t : Term} (ht : TermScoped σ t) :
    TermInR (σ₀.appendC σ) (beyond σ₀).S (t.shift σ₀.vars.length) := termInB_iff.mpr ht

theorem Behind.ins {σ₀ σ : Store} (_ : Behind σ₀ σ) {v : Nat} (hv : v < σ.vars.length) :
    InStore (σ₀.appendC σ) (beyond σ₀).S (v + σ₀.vars.length) := inB_iff.mpr hv

/-- bindings behind the history mention allocated variables only -/
theorem Behind.bnd_scoped {σ₀ σ : Store} (hc : Behind σ₀ σ) {v : Nat} (hv : v < σ.vars.length) {b : Term}
    (hb : (getVar σ v).bound = some b) : TermScoped σ b := by
  have h1 := hc.bnd (v + σ₀.vars.length) (b.shift σ₀.vars.length) (hc.ins hv).1 (by
    rw [(getVar_appendC_core σ₀ σ v).1, hb]; rfl)
  exact termInB_iff.mp h1

/-- constraint records behind the history mention allocated variables only -/
theorem Behind.ctm_scoped {σ₀ σ : Store} (hc : Behind σ₀ σ) {c : Nat} (hlt : c < σ.constrs.length) :
    ∀ u, u ∈ constrTerms (getConstr σ c) → TermScoped σ u := by
  have h1 : TermsInR (σ₀.appendC σ) (beyond σ₀).S
      (Term.shiftL σ₀.vars.length (constrTerms (getConstr σ c))) := by
    intro u hu
    refine hc.ctm (c + σ₀.constrs.length) u (by rw [clen_appendC]; omega) (Nat.le_add_left _ _) ?_
    rw [getConstr_appendC hlt, constrTerms_shift]
    exact hu
  exact termsInB_iff.mp h1

theorem Behind.cin {σ₀ σ : Store} (_ : Behind σ₀ σ) {c : Nat} (hlt : c < σ.constrs.length) :
    (beyond σ₀).C (c + σ₀.constrs.length) ∧ c + σ₀.constrs.length < (σ₀.appendC σ).constrs.length :=
  ⟨Nat.le_add_left _ _, by rw [clen_appendC]; omega⟩

/-! ## 3. the stores `bind` builds -/

theorem clearW_appendC {σ₀ σ : Store} {v : Nat} (hv : v < σ.vars.length) :
    clearW (σ₀.appendC σ) (v + σ₀.vars.length) = (clearW σ v).shift σ₀.vars.length σ₀.csets.length := by
  unfold clearW
  rw [getVar_appendC_ge hv]
  rfl

theorem setClearW_appendC {σ₀ σ : Store} {v : Nat} (hv : v < σ.vars.length) :
    setVar (σ₀.appendC σ) (v + σ₀.vars.length) (clearW (σ₀.appendC σ) (v + σ₀.vars.length)) =
      σ₀.appendC (setVar σ v (clearW σ v)) := by
  rw [clearW_appendC hv, setVar_appendC]

theorem bindBaseStore_appendC {σ₀ σ : Store} {v : Nat} (hv : v < σ.vars.length) (t : Term) :
    bindBaseStore (σ₀.appendC σ) (v + σ₀.vars.length) (t.shift σ₀.vars.length) =
      σ₀.appendC (bindBaseStore σ v t) := by
  unfold bindBaseStore
  simp only []
  rw [clearW_appendC hv, setVar_appendC]
  have e : ({ (clearW σ v).shift σ₀.vars.length σ₀.csets.length with bound := some (t.shift σ₀.vars.length) } : VarInfo) =
      ({ (clearW σ v) with bound := some t } : VarInfo).shift σ₀.vars.length σ₀.csets.length := rfl
  rw [e, setVar_appendC]

theorem length_bindBaseStore (σ : Store) (v : Nat) (t : Term) :
    (bindBaseStore σ v t).vars.length = σ.vars.length := by
  unfold bindBaseStore; simp only [length_setVar]

theorem bindVarStore_appendC {σ₀ σ : Store} {v tv : Nat} (hv : v < σ.vars.length) (htv : tv < σ.vars.length) :
    bindVarStore (σ₀.appendC σ) (v + σ₀.vars.length) (tv + σ₀.vars.length) =
      σ₀.appendC (bindVarStore σ v tv) := by
  have hB := bindBaseStore_appendC (σ₀ := σ₀) hv (.var tv)
  rw [shift_var] at hB
  rw [bindVarStore_eq, bindVarStore_eq, hB, clearW_appendC hv]
  have hl := length_bindBaseStore σ v (.var tv)
  generalize bindBaseStore σ v (.var tv) = σb at hl
  have hvb : v < σb.vars.length := by omega
  have htb : tv < σb.vars.length := by omega
  unfold bindVarRest
  simp only []
  rw [getVar_appendC_ge htb, shiftI_cset, shiftI_cset, getCset_appendC, getCset_appendC, unionSorted_shift,
    setCset_appendC]
  generalize hσc : setCset σb (getVar σb tv).cset _ = σc
  have hvc : v < σc.vars.length := by rw [← hσc, length_setCset]; exact hvb
  have htc : tv < σc.vars.length := by rw [← hσc, length_setCset]; exact htb
  rw [getVar_appendC_ge hvc]
  have e : ({ (getVar σc v).shift σ₀.vars.length σ₀.csets.length with
      cset := (getVar σb tv).cset + σ₀.csets.length } : VarInfo) =
      ({ (getVar σc v) with cset := (getVar σb tv).cset } : VarInfo).shift σ₀.vars.length σ₀.csets.length := rfl
  rw [e, setVar_appendC]
  generalize hσd : setVar σc v _ = σd
  have htd : tv < σd.vars.length := by rw [← hσd, length_setVar]; exact htc
  rw [getVar_appendC_ge htd]
  have e2 : ({ (getVar σd tv).shift σ₀.vars.length σ₀.csets.length with wildcard := false } : VarInfo) =
      ({ (getVar σd tv) with wildcard := false } : VarInfo).shift σ₀.vars.length σ₀.csets.length := rfl
  rw [e2, setVar_appendC]

theorem directVars_appendC_nil (σ₀ σ : Store) (n : Nat) (t : Term) :
    directVars (σ₀.appendC σ) n (t.shift σ₀.vars.length) [] =
      shiftIds σ₀.vars.length (directVarsE σ₀.vars.length σ n t []) :=
  directVars_appendC σ₀ σ n t []

theorem merged_appendC {σ₀ σ : Store} : ∀ (vars : List Nat), (∀ w, w ∈ vars → w < σ.vars.length) →
    ∀ (init : List Nat),
    (shiftIds σ₀.vars.length vars).foldl
        (fun acc w => unionSorted acc (getCset (σ₀.appendC σ) (getVar (σ₀.appendC σ) w).cset))
        (shiftIds σ₀.constrs.length init) =
      shiftIds σ₀.constrs.length (vars.foldl (fun acc w => unionSorted acc (getCset σ (getVar σ w).cset)) init)
  | [], _, _ => rfl
  | w :: ws, h, init => by
    rw [shiftIds_cons, List.foldl_cons, List.foldl_cons, getCsetOf_appendC (h w List.mem_cons_self),
      unionSorted_shift]
    exact merged_appendC ws (fun x hx => h x (List.mem_cons_of_mem _ hx)) _

theorem foldCs_appendC {σ₀ : Store} (c : Nat) : ∀ (vars : List Nat) (σ : Store), (∀ w, w ∈ vars → w < σ.vars.length) →
    (shiftIds σ₀.vars.length vars).foldl
        (fun σ w => setVar σ w { (getVar σ w) with cset := c + σ₀.csets.length }) (σ₀.appendC σ) =
      σ₀.appendC (vars.foldl (fun σ w => setVar σ w { (getVar σ w) with cset := c }) σ)
  | [], _, _ => rfl
  | w :: ws, σ, h => by
    rw [shiftIds_cons, List.foldl_cons, List.foldl_cons, getVar_appendC_ge (h w List.mem_cons_self)]
    have e : ({ (getVar σ w).shift σ₀.vars.length σ₀.csets.length with cset := c + σ₀.csets.length } : VarInfo) =
        ({ (getVar σ w) with cset := c } : VarInfo).shift σ₀.vars.length σ₀.csets.length := rfl
    rw [e, setVar_appendC]
    exact foldCs_appendC c ws _ (fun x hx => by rw [length_setVar]; exact h x (List.mem_cons_of_mem _ hx))

theorem bindAppStore_appendC {σ₀ σ : Store} (hc : Behind σ₀ σ) {v : Nat} (hv : v < σ.vars.length) {t : Term}
    (ht : TermScoped σ t) :
    bindAppStore (σ₀.appendC σ) (v + σ₀.vars.length) (t.shift σ₀.vars.length) =
      σ₀.appendC (bindAppStoreE σ₀.vars.length σ v t) := by
  have f0 := frC_bindBaseStore hc (hc.ins hv) (hc.tin ht)
  rw [bindBaseStore_appendC hv] at f0
  obtain ⟨hcb, gb⟩ := behind_of_frC f0
  have hvars : ∀ x, x ∈ directVarsE σ₀.vars.length (bindBaseStore σ v t)
      (termFuelE σ₀.vars.length (bindBaseStore σ v t)) t [] → x < (bindBaseStore σ v t).vars.length := by
    intro x hx
    have h1 := directVars_in hcb.closed (termFuel (σ₀.appendC (bindBaseStore σ v t)))
      (t.shift σ₀.vars.length) [] (hcb.tin (gb.ts ht)) (fun y hy => nomatch hy) (x + σ₀.vars.length) (by
        rw [termFuel_appendC, directVars_appendC_nil]
        exact mem_shiftIds.mpr ⟨x, hx, rfl⟩)
    exact inB_iff.mp h1
  unfold bindAppStore bindAppStoreE
  simp only []
  rw [bindBaseStore_appendC hv, termFuel_appendC, directVars_appendC_nil, clearW_appendC hv, shiftI_cset,
    getCset_appendC, merged_appendC _ hvars, setCset_appendC]
  exact foldCs_appendC _ _ _ hvars

end Tfv.C16H
