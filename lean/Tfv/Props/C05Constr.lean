import Tfv.Model
import Tfv.Spec.Sub
import Tfv.Spec.Sat
import Tfv.Proofs.BoundsConstr
import Tfv.Proofs.BoundsConstrExamples
/-!
# C05 with a pending subtype constraint — least result on comparable arguments

`Tfv/Props/C05.lean` proves the closed form, order independence and leastness of the bound-tightening machine on
constraint-free stores. Here the end-to-end statements are proved for a polymorphic identity-like signature that
carries a subtype constraint, `(x ** x ** … ** x)[x ≤ U]`, applied to base types of one chain:

* while `x` is unbound and its lower bound stays below `U`, re-checking the pending constraint decides nothing and
  changes nothing (`C05c_check_pending`), so the supplies run exactly as without the constraint
  (`C05c_supply_chain_sub`);
* the chain of applications succeeds and returns the LEAST upper bound of the arguments (the greatest argument),
  whatever their order; `x` is bound to it, the constraint is marked fulfilled and leaves the constraint set
  (`C05c_apply_identity_chain_sub`, `C05c_apply_identity_sub_perm`, `C05c_fix_fulfils`);
* a first argument that is not below `U` is rejected with `constraintViolation`
  (`C05c_apply_identity_sub_rejects`): the constraint is live.

Vocabulary: `Pend L σ v c U s` (Proofs/BoundsConstr.lean): the constraint set of the variable `v` holds exactly the
constraint `c`, which is the not yet fulfilled subtype constraint `v ≤ U` (strictness flag `s`) with `U` a base type
other than `Top` — what instantiating `x ** … ** x [x ≤ U]` leaves in the store. `FreshI`, `ChainOn`, `Anc`,
`applyArgs`, `funN`, `runSupply`, `coOps` as in C05. `fulfilStore σ v c U m s`: `σ` with `v := m` recorded, the
constraint `c` marked fulfilled and the constraint set of `v` emptied.
Scope: subtype constraints only (one per variable), covariant supplies; all statements full (no `_partial`).
Statements only; proofs in `Tfv/Proofs/BoundsConstr.lean` (namespace `Tfv.C05C`).
-/
namespace Tfv.C05
open Tfv Tfv.C05P Tfv.C05C Tfv.C05Ex

/-- Re-checking the pending constraint `v ≤ U` while `v` is unbound and its lower bound (if any) is below `U` decides
nothing: the store is unchanged. -/
theorem C05c_check_pending (L : Lang) (σ : Store) (v c U : Nat) (s : Bool) (p : Pend L σ v c U s)
    (hb : (getVar σ v).bound = none) (hlow : ∀ l, (getVar σ v).lower = some l → opSub L l U = true) (n : Nat) :
    checkConstraints L (n+4) σ v = .ok σ := check_pending p hb hlow n

example : Pend exL exSP 0 0 5 false ∧ (getVar exSP 0).bound = none ∧
    (∀ l, (getVar exSP 0).lower = some l → opSub exL l 5 = true) :=
  ⟨exSP_pend, rfl, fun l h => by cases h⟩

/-- The run of covariant supplies with a pending constraint: for a fresh variable `v` carrying `v ≤ U` and a non-empty
list `as` of base types on one chain with `U`, all below `U`, supplying them (through `unify`, in the order given)
succeeds; afterwards the lower bound of `v` is the greatest element `m` of `as`, `v` is still unbound, the constraint
still pending — exactly the result on a constraint-free store. -/
theorem C05c_supply_chain_sub (L : Lang) (wf : WF L) (σ : Store) (v c U : Nat) (s : Bool) (p : Pend L σ v c U s)
    (n : Nat) (hv : v < σ.vars.length) (hf : FreshI (getVar σ v)) (as : List Nat) (hne : as ≠ [])
    (ch : ChainOn L (fun x => x = U ∨ x ∈ as)) (hU : ∀ a ∈ as, Anc L a U) :
    ∃ m, m ∈ as ∧ (∀ a ∈ as, Anc L a m) ∧
      runSupply L (n+7) σ v (coOps as) =
        .ok (setVar σ v { getVar σ v with wildcard := false, lower := some m }) :=
  runSupply_pending_chain L wf p n hv hf as hne ch hU

example : ∃ m, m ∈ [6, 7] ∧ (∀ a ∈ [6, 7], Anc exL a m) ∧
    runSupply exL 7 exSP 0 (coOps [6, 7]) =
      .ok (setVar exSP 0 { getVar exSP 0 with wildcard := false, lower := some m }) :=
  C05c_supply_chain_sub exL exWF exSP 0 0 5 false exSP_pend 0 (by decide) exSP_fresh [6, 7] (by simp) exChainU exBelowU

/-- `fix` on the variable with lower bound `m ≤ U` binds it to `m`; the re-check now finds the constraint fulfilled,
marks it and removes it from the constraint set; the returned type is `m`. -/
theorem C05c_fix_fulfils (L : Lang) (σ : Store) (v c U : Nat) (s : Bool) (p : Pend L σ v c U s)
    (hv : v < σ.vars.length) (hb : (getVar σ v).bound = none) (hu : (getVar σ v).upper = none) (m : Nat)
    (hl : (getVar σ v).lower = some m) (hm0 : arityOf L m = 0) (hmU : opSub L m U = true)
    (hself : opSub L m m true = false) (n : Nat) :
    fix L (n+7) σ (.var v) true = .ok (fulfilStore σ v c U m s, .app m []) :=
  fix_pending_fulfil L p hv hb hu hl hm0 hmU hself n

example : Pend exL exSP1 0 0 5 false ∧ (getVar exSP1 0).lower = some 6 ∧ opSub exL 6 5 = true ∧
    opSub exL 6 6 true = false ∧ getConstr (fulfilStore exSP1 0 0 5 6 false) 0 = .sub (.var 0) (.app 5 []) false true ∧
    getCset (fulfilStore exSP1 0 0 5 6 false) 0 = [] :=
  ⟨exSP_pend.setVar (by decide) _ rfl, rfl, by decide, by decide, rfl, rfl⟩

/-- **MAIN, end to end.** `(x ** x ** … ** x)[x ≤ U].apply(a₁)…apply(aₖ)` with `U` and the `aᵢ` on one chain and
every `aᵢ` below `U` succeeds and returns the least upper bound of the arguments (the greatest `aᵢ`) — the least
type the signature admits for these arguments, and the same as without the constraint; `x` is bound to it, the
constraint is marked fulfilled and leaves the constraint set. -/
theorem C05c_apply_identity_chain_sub (L : Lang) (wf : WF L) (σ : Store) (v c U : Nat) (s : Bool)
    (p : Pend L σ v c U s) (n : Nat) (hv : v < σ.vars.length) (hf : FreshI (getVar σ v)) (as : List Nat)
    (hne : as ≠ []) (ch : ChainOn L (fun x => x = U ∨ x ∈ as)) (hU : ∀ a ∈ as, Anc L a U) :
    ∃ m, m ∈ as ∧ (∀ a ∈ as, Anc L a m) ∧
      applyArgs L (n+7) σ (funN v as.length (.var v)) as =
        .ok (fulfilStore (setVar σ v { getVar σ v with wildcard := false, lower := some m }) v c U m s,
             .app m []) :=
  apply_identity_chain_sub L wf p n hv hf as hne ch hU

/-- non-vacuity: `(x ** x ** x)[x ≤ A]` applied to `B`, then `C`: the result is `B` -/
example : ∃ m, m ∈ [6, 7] ∧ (∀ a ∈ [6, 7], Anc exL a m) ∧
    applyArgs exL 7 exSP (funN 0 2 (.var 0)) [6, 7] =
      .ok (fulfilStore (setVar exSP 0 { getVar exSP 0 with wildcard := false, lower := some m }) 0 0 5 m false,
           .app m []) :=
  C05c_apply_identity_chain_sub exL exWF exSP 0 0 5 false exSP_pend 0 (by decide) exSP_fresh [6, 7] (by simp)
    exChainU exBelowU

/-- **Order independence**: a permutation of the arguments gives the very same store and type. -/
theorem C05c_apply_identity_sub_perm (L : Lang) (wf : WF L) (σ : Store) (v c U : Nat) (s : Bool)
    (p : Pend L σ v c U s) (n : Nat) (hv : v < σ.vars.length) (hf : FreshI (getVar σ v)) (as as' : List Nat)
    (hne : as ≠ []) (ch : ChainOn L (fun x => x = U ∨ x ∈ as)) (hU : ∀ a ∈ as, Anc L a U) (hp : as.Perm as') :
    applyArgs L (n+7) σ (funN v as'.length (.var v)) as' = applyArgs L (n+7) σ (funN v as.length (.var v)) as :=
  apply_identity_sub_perm L wf p n hv hf as as' hne ch hU hp

example : applyArgs exL 7 exSP (funN 0 [7, 6].length (.var 0)) [7, 6] =
    applyArgs exL 7 exSP (funN 0 [6, 7].length (.var 0)) [6, 7] :=
  C05c_apply_identity_sub_perm exL exWF exSP 0 0 5 false exSP_pend 0 (by decide) exSP_fresh [6, 7] [7, 6] (by simp)
    exChainU exBelowU (by decide)

/-- **The constraint is live**: a first argument that is a proper base type not below `U` is rejected with
`constraintViolation` (without the constraint the application would succeed, `C05_apply_identity_chain`). -/
theorem C05c_apply_identity_sub_rejects (L : Lang) (σ : Store) (v c U : Nat) (s : Bool) (p : Pend L σ v c U s)
    (hv : v < σ.vars.length) (hf : FreshI (getVar σ v)) (n a : Nat) (rest : List Nat) (h0 : arityOf L a = 0)
    (hb : a ≠ BOT) (ht : a ≠ TOP) (hno : opSub L a U = false) :
    applyArgs L (n+7) σ (funN v (a :: rest).length (.var v)) (a :: rest) = .error .constraintViolation :=
  apply_identity_sub_rejects L p hv hf n a rest h0 hb ht hno

/-- non-vacuity: `(x ** x)[x ≤ B]` applied to `A` -/
example : Pend exL exSPB 0 0 6 false ∧ FreshI (getVar exSPB 0) ∧ opSub exL 5 6 = false ∧
    applyArgs exL 7 exSPB (funN 0 [5].length (.var 0)) [5] = .error .constraintViolation :=
  ⟨exSPB_pend, exSPB_fresh, exNotBelow,
   C05c_apply_identity_sub_rejects exL exSPB 0 0 6 false exSPB_pend (by decide) exSPB_fresh 0 5 [] (by decide)
     (by decide) (by decide) exNotBelow⟩

end Tfv.C05
