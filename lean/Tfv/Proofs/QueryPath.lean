import Tfv.Spec.Matches
/-!
# Paths: `pathHolds` in terms of triples, `pathPairs` enumerates exactly the pairs that hold
-/
namespace Tfv

theorem mem_pairsOf (g : List Triple) (p : String) (a b : Node) :
    (a, b) ∈ pairsOf g p ↔ (a, Node.tf p, b) ∈ g := by
  unfold pairsOf
  simp only [List.mem_map, List.mem_filter, beq_iff_eq, Prod.mk.injEq]
  constructor
  · rintro ⟨⟨x, y, z⟩, ⟨hm, hy⟩, rfl, rfl⟩
    simp only at hy
    subst hy
    exact hm
  · intro h
    exact ⟨(a, Node.tf p, b), ⟨h, rfl⟩, rfl, rfl⟩

theorem pathHolds_pred (g : List Triple) (n : String) (a b : Node) :
    pathHolds g (.pred n) a b = true ↔ (a, Node.tf n, b) ∈ g := by
  simp only [pathHolds, List.contains_iff_mem, mem_pairsOf]

theorem pathHolds_opt (g : List Triple) (n : String) (a b : Node) :
    pathHolds g (.opt n) a b = true ↔ (a = b ∨ (a, Node.tf n, b) ∈ g) := by
  simp only [pathHolds, Bool.or_eq_true, beq_iff_eq, List.contains_iff_mem, mem_pairsOf]

theorem pathHolds_outputFrom (g : List Triple) (a b : Node) :
    pathHolds g .outputFrom a b = true ↔
      ∃ m, (a, Node.tf "output", m) ∈ g ∧ (m = b ∨ (m, Node.tf "from", b) ∈ g) := by
  simp only [pathHolds, List.any_eq_true, Bool.and_eq_true, beq_iff_eq, Bool.or_eq_true,
    List.contains_iff_mem, mem_pairsOf]
  constructor
  · rintro ⟨⟨x, m⟩, hq, hx, h⟩
    simp only at hx h
    subst hx
    exact ⟨m, (mem_pairsOf g _ _ _).1 hq, h⟩
  · rintro ⟨m, h1, h2⟩
    exact ⟨(a, m), (mem_pairsOf g _ _ _).2 h1, rfl, h2⟩

theorem pathHolds_inputFromInv (g : List Triple) (a b : Node) :
    pathHolds g .inputFromInv a b = true ↔
      ∃ m, (a, Node.tf "input", m) ∈ g ∧ (m = b ∨ (b, Node.tf "from", m) ∈ g) := by
  simp only [pathHolds, List.any_eq_true, Bool.and_eq_true, beq_iff_eq, Bool.or_eq_true,
    List.contains_iff_mem, mem_pairsOf]
  constructor
  · rintro ⟨⟨x, m⟩, hq, hx, h⟩
    simp only at hx h
    subst hx
    exact ⟨m, (mem_pairsOf g _ _ _).1 hq, h⟩
  · rintro ⟨m, h1, h2⟩
    exact ⟨(a, m), (mem_pairsOf g _ _ _).2 h1, rfl, h2⟩

/-- the ends agree with what is already known -/
def endOk (k : Option Node) (x : Node) : Prop := k = none ∨ k = some x

theorem optAll_iff (k : Option Node) (x : Node) : (k.all (· == x)) = true ↔ endOk k x := by
  cases k with
  | none => simp [endOk]
  | some y => simp [endOk]

/-- `pathPairs` returns only pairs that satisfy the path and agree with the known ends -/
theorem pathPairs_sound (g : List Triple) (univ : List Node) (p : QPath) (sa ob : Option Node) (a b : Node)
    (h : (a, b) ∈ pathPairs g univ p sa ob) :
    pathHolds g p a b = true ∧ endOk sa a ∧ endOk ob b := by
  cases p with
  | pred n =>
    simp only [pathPairs, List.mem_filter, Bool.and_eq_true, optAll_iff] at h
    exact ⟨(pathHolds_pred g n a b).2 ((mem_pairsOf g n a b).1 h.1), h.2.1, h.2.2⟩
  | opt n =>
    simp only [pathPairs, List.mem_filter, Bool.and_eq_true, optAll_iff, List.mem_append] at h
    refine ⟨(pathHolds_opt g n a b).2 ?_, h.2.1, h.2.2⟩
    rcases h.1 with h1 | h1
    · left
      cases sa with
      | some x => simp at h1; rw [h1.1, h1.2]
      | none =>
        cases ob with
        | some y => simp at h1; rw [h1.1, h1.2]
        | none =>
          simp only [List.mem_map, Prod.mk.injEq] at h1
          obtain ⟨x, _, rfl, rfl⟩ := h1
          rfl
    · right
      exact (mem_pairsOf g n a b).1 h1
  | outputFrom =>
    simp only [pathPairs, List.mem_filter, Bool.and_eq_true, optAll_iff, List.mem_flatMap,
      List.mem_cons, List.mem_map, Prod.mk.injEq, beq_iff_eq] at h
    refine ⟨(pathHolds_outputFrom g a b).2 ?_, h.2.1, h.2.2⟩
    obtain ⟨⟨x, m⟩, hq, h1⟩ := h.1
    rcases h1 with ⟨rfl, rfl⟩ | ⟨⟨r1, r2⟩, ⟨hr, hr1⟩, rfl, rfl⟩
    · exact ⟨_, (mem_pairsOf g _ _ _).1 hq, Or.inl rfl⟩
    · simp only at hr1
      subst hr1
      exact ⟨r1, (mem_pairsOf g _ _ _).1 hq, Or.inr ((mem_pairsOf g _ _ _).1 hr)⟩
  | inputFromInv =>
    simp only [pathPairs, List.mem_filter, Bool.and_eq_true, optAll_iff, List.mem_flatMap,
      List.mem_cons, List.mem_map, Prod.mk.injEq, beq_iff_eq] at h
    refine ⟨(pathHolds_inputFromInv g a b).2 ?_, h.2.1, h.2.2⟩
    obtain ⟨⟨x, m⟩, hq, h1⟩ := h.1
    rcases h1 with ⟨rfl, rfl⟩ | ⟨⟨r1, r2⟩, ⟨hr, hr1⟩, rfl, rfl⟩
    · exact ⟨_, (mem_pairsOf g _ _ _).1 hq, Or.inl rfl⟩
    · simp only at hr1
      subst hr1
      exact ⟨r2, (mem_pairsOf g _ _ _).1 hq, Or.inr ((mem_pairsOf g _ _ _).1 hr)⟩

/-- `pathPairs` returns every pair that satisfies the path and agrees with the known ends;
for the reflexive part of `p?` with both ends unknown the value has to be in `univ` -/
theorem pathPairs_complete (g : List Triple) (univ : List Node) (p : QPath) (sa ob : Option Node) (a b : Node)
    (hp : pathHolds g p a b = true) (hs : endOk sa a) (ho : endOk ob b)
    (hu : ∀ n, p = .opt n → sa = none → ob = none → a = b → a ∈ univ) :
    (a, b) ∈ pathPairs g univ p sa ob := by
  cases p with
  | pred n =>
    simp only [pathPairs, List.mem_filter, Bool.and_eq_true, optAll_iff]
    exact ⟨(mem_pairsOf g n a b).2 ((pathHolds_pred g n a b).1 hp), hs, ho⟩
  | opt n =>
    simp only [pathPairs, List.mem_filter, Bool.and_eq_true, optAll_iff, List.mem_append]
    refine ⟨?_, hs, ho⟩
    rcases (pathHolds_opt g n a b).1 hp with h1 | h1
    · subst h1
      left
      rcases hs with rfl | rfl
      · rcases ho with rfl | rfl
        · simp only [List.mem_map, Prod.mk.injEq]
          exact ⟨a, hu n rfl rfl rfl rfl, rfl, rfl⟩
        · simp
      · simp
    · right
      exact (mem_pairsOf g n a b).2 h1
  | outputFrom =>
    simp only [pathPairs, List.mem_filter, Bool.and_eq_true, optAll_iff, List.mem_flatMap,
      List.mem_cons, List.mem_map, Prod.mk.injEq, beq_iff_eq]
    refine ⟨?_, hs, ho⟩
    obtain ⟨m, h1, h2⟩ := (pathHolds_outputFrom g a b).1 hp
    refine ⟨(a, m), (mem_pairsOf g _ _ _).2 h1, ?_⟩
    rcases h2 with rfl | h2
    · exact Or.inl ⟨rfl, rfl⟩
    · exact Or.inr ⟨(m, b), ⟨(mem_pairsOf g _ _ _).2 h2, rfl⟩, rfl, rfl⟩
  | inputFromInv =>
    simp only [pathPairs, List.mem_filter, Bool.and_eq_true, optAll_iff, List.mem_flatMap,
      List.mem_cons, List.mem_map, Prod.mk.injEq, beq_iff_eq]
    refine ⟨?_, hs, ho⟩
    obtain ⟨m, h1, h2⟩ := (pathHolds_inputFromInv g a b).1 hp
    refine ⟨(a, m), (mem_pairsOf g _ _ _).2 h1, ?_⟩
    rcases h2 with rfl | h2
    · exact Or.inl ⟨rfl, rfl⟩
    · exact Or.inr ⟨(b, m), ⟨(mem_pairsOf g _ _ _).2 h2, rfl⟩, rfl, rfl⟩

theorem mem_graphNodes (g : List Triple) (x : Node) :
    x ∈ graphNodes g ↔ ∃ t ∈ g, x = t.1 ∨ x = t.2.2 := by
  simp [graphNodes, List.mem_eraseDups, List.mem_flatMap]

theorem subj_mem_graphNodes {g : List Triple} {a p b : Node} (h : (a, p, b) ∈ g) : a ∈ graphNodes g :=
  (mem_graphNodes g a).2 ⟨_, h, Or.inl rfl⟩

theorem obj_mem_graphNodes {g : List Triple} {a p b : Node} (h : (a, p, b) ∈ g) : b ∈ graphNodes g :=
  (mem_graphNodes g b).2 ⟨_, h, Or.inr rfl⟩

end Tfv
