import Tfv.Spec.MatchesUnfold
import Tfv.Proofs.QueryTotal
/-!
# `assignVars` with `unfold_tree`: one variable per path from an output, a link per `from_` edge of the tree
-/
namespace Tfv

/-! ## chains and paths -/

/-- `q` is a chain of steps that starts with `k`, follows `from_` links and ends in `j` -/
inductive Chain (t : QTask) : Nat → List Nat → Nat → Prop
  | refl (k : Nat) : Chain t k [k] k
  | step {k b j : Nat} {q : List Nat} : b ∈ (t.step k).from_ → Chain t b q j → Chain t k (k :: q) j

theorem chain_iff (t : QTask) (k : Nat) (q : List Nat) (j : Nat) :
    Chain t k q j ↔ ((q = [k] ∧ j = k) ∨ ∃ b ∈ (t.step k).from_, ∃ q', Chain t b q' j ∧ q = k :: q') := by
  constructor
  · intro h
    cases h with
    | refl => exact Or.inl ⟨rfl, rfl⟩
    | step hb hc => exact Or.inr ⟨_, hb, _, hc, rfl⟩
  · rintro (⟨rfl, rfl⟩ | ⟨b, hb, q', hc, rfl⟩)
    · exact .refl _
    · exact .step hb hc

theorem Chain.getLast {t : QTask} {k j : Nat} {q : List Nat} (h : Chain t k q j) : q.getLast? = some j := by
  induction h with
  | refl k => rfl
  | step _ hc ih =>
    cases hc with
    | refl => simp
    | step _ _ => simpa using ih

theorem Chain.tail {t : QTask} {k c b : Nat} {q : List Nat} (h : Chain t k q c) (hb : b ∈ (t.step c).from_) :
    Chain t k (q ++ [b]) b := by
  induction h with
  | refl k => exact .step hb (.refl b)
  | step h1 _ ih => exact .step h1 (ih hb)

theorem Chain.reach {t : QTask} {k j : Nat} {q : List Nat} (h : Chain t k q j) : ReachFrom t k j := by
  induction h with
  | refl k => exact .refl k
  | step h1 _ ih => exact .step h1 ih

theorem reachFrom_chain {t : QTask} {k j : Nat} (h : ReachFrom t k j) : ∃ q, Chain t k q j := by
  induction h with
  | refl k => exact ⟨_, .refl k⟩
  | step h1 _ ih =>
    obtain ⟨q, hq⟩ := ih
    exact ⟨_, .step h1 hq⟩

theorem Chain.pathTo {t : QTask} {k j : Nat} {q : List Nat} (h : Chain t k q j) :
    ∀ pre, PathTo t (pre ++ [k]) k → PathTo t (pre ++ q) j := by
  induction h with
  | refl k => exact fun _ h => h
  | step h1 _ ih =>
    intro pre hp
    have := ih (pre ++ [_]) (.step hp h1)
    simpa using this

theorem pathTo_iff_chain (t : QTask) (p : List Nat) (k : Nat) :
    PathTo t p k ↔ ∃ o ∈ t.outputs, Chain t o p k := by
  constructor
  · intro h
    induction h with
    | out ho => exact ⟨_, ho, .refl _⟩
    | step _ hb ih =>
      obtain ⟨o, ho, hc⟩ := ih
      exact ⟨o, ho, hc.tail hb⟩
  · rintro ⟨o, ho, hc⟩
    exact hc.pathTo [] (.out ho)

theorem PathTo.getLast {t : QTask} {p : List Nat} {k : Nat} (h : PathTo t p k) : p.getLast? = some k := by
  cases h with
  | out _ => rfl
  | step _ _ => simp

theorem PathTo.reach {t : QTask} {p : List Nat} {k : Nat} (h : PathTo t p k) : StepReach t k := by
  induction h with
  | out ho => exact .out ho
  | step _ hb ih => exact .step ih hb

theorem reach_pathTo {t : QTask} {k : Nat} (h : StepReach t k) : ∃ p, PathTo t p k := by
  induction h with
  | out ho => exact ⟨_, .out ho⟩
  | step _ hb ih =>
    obtain ⟨p, hp⟩ := ih
    exact ⟨_, .step hp hb⟩

theorem PathTo.ne_nil {t : QTask} {p : List Nat} {k : Nat} (h : PathTo t p k) : p ≠ [] := by
  cases h <;> simp

/-! ## the bookkeeping of one visit, for an arbitrary variable -/

def ShapeU (a : QAssign) : Prop := ∀ p ∈ a.vars, p.1.getLast? = some p.2

/-- `a'` is `a` plus the variables `S`, the links `L`, and the output/input marks of `S` -/
structure ExtU (t : QTask) (S : QVar → Nat → Prop) (L : QVar → QVar → Prop) (a a' : QAssign) : Prop where
  vars : ∀ p, p ∈ a'.vars ↔ (p ∈ a.vars ∨ S p.1 p.2)
  links : ∀ l, l ∈ a'.links ↔ (l ∈ a.links ∨ L l.1 l.2)
  outs : ∀ v, v ∈ a'.outs ↔ (v ∈ a.outs ∨ ∃ k, S v k ∧ k ∈ t.outputs)
  ins : ∀ v, v ∈ a'.ins ↔ (v ∈ a.ins ∨ ∃ k, S v k ∧ k ∈ t.inputs)
  nodup : ShapeU a → (a.vars.map (·.1)).Nodup → (a'.vars.map (·.1)).Nodup
  shape : ShapeU a → ShapeU a'

theorem ExtU.refl (t : QTask) (a : QAssign) : ExtU t (fun _ _ => False) (fun _ _ => False) a a :=
  ⟨by simp, by simp, by simp, by simp, fun _ h => h, fun h => h⟩

theorem ExtU.congr {t : QTask} {S S' : QVar → Nat → Prop} {L L' : QVar → QVar → Prop} {a a' : QAssign}
    (h : ExtU t S L a a') (hS : ∀ v k, S v k ↔ S' v k) (hL : ∀ c b, L c b ↔ L' c b) : ExtU t S' L' a a' := by
  have e1 : S = S' := funext fun v => funext fun k => propext (hS v k)
  have e2 : L = L' := funext fun c => funext fun b => propext (hL c b)
  rw [← e1, ← e2]
  exact h

theorem ExtU.trans {t : QTask} {S1 S2 : QVar → Nat → Prop} {L1 L2 : QVar → QVar → Prop} {a a1 a2 : QAssign}
    (h1 : ExtU t S1 L1 a a1) (h2 : ExtU t S2 L2 a1 a2) :
    ExtU t (fun v k => S1 v k ∨ S2 v k) (fun c b => L1 c b ∨ L2 c b) a a2 := by
  refine ⟨?_, ?_, ?_, ?_, ?_, ?_⟩
  · intro p
    rw [h2.vars, h1.vars, or_assoc]
  · intro l
    rw [h2.links, h1.links, or_assoc]
  · intro v
    rw [h2.outs, h1.outs, or_assoc]
    apply or_congr Iff.rfl
    constructor
    · rintro (⟨k, hk, ho⟩ | ⟨k, hk, ho⟩)
      · exact ⟨k, Or.inl hk, ho⟩
      · exact ⟨k, Or.inr hk, ho⟩
    · rintro ⟨k, hk | hk, ho⟩
      · exact Or.inl ⟨k, hk, ho⟩
      · exact Or.inr ⟨k, hk, ho⟩
  · intro v
    rw [h2.ins, h1.ins, or_assoc]
    apply or_congr Iff.rfl
    constructor
    · rintro (⟨k, hk, ho⟩ | ⟨k, hk, ho⟩)
      · exact ⟨k, Or.inl hk, ho⟩
      · exact ⟨k, Or.inr hk, ho⟩
    · rintro ⟨k, hk | hk, ho⟩
      · exact Or.inl ⟨k, hk, ho⟩
      · exact Or.inr ⟨k, hk, ho⟩
  · intro hs hn
    exact h2.nodup (h1.shape hs) (h1.nodup hs hn)
  · intro hs
    exact h2.shape (h1.shape hs)

/-- the bookkeeping of one visit: variable `v` for step `k`, output mark, input mark -/
def visitV (t : QTask) (a : QAssign) (v : QVar) (k : Nat) : QAssign :=
  let a := if a.vars.any (fun p => p.1 == v) then a else { a with vars := a.vars ++ [(v, k)] }
  let a := if t.outputs.contains k && !a.outs.contains v then { a with outs := a.outs ++ [v] } else a
  if t.inputs.contains k && !a.ins.contains v then { a with ins := a.ins ++ [v] } else a

/-- the body of the fold over the predecessors of the step of `v` -/
def linkStepV (t : QTask) (f : QFlags) (n : Nat) (v : QVar) (path' : List Nat) (a : QAssign) (b : Nat) :
    Except QErr QAssign :=
  match assignVars t f n a b path' with
  | .error e => Except.error e
  | .ok (a', bv) => .ok { a' with links := a'.links ++ [(v, bv)] }

theorem assignVars_succU (t : QTask) (f : QFlags) (hf : f.unfoldTree = true) (n : Nat) (a : QAssign) (k : Nat)
    (path : List Nat) :
    assignVars t f (n + 1) a k path =
      if path.contains k then .error .cyclic else
      match (t.step k).from_.foldlM (linkStepV t f n (path ++ [k]) (path ++ [k])) (visitV t a (path ++ [k]) k) with
      | .error e => .error e
      | .ok a' => .ok (a', path ++ [k]) := by
  rw [assignVars]
  simp only [hf, if_true]
  rfl

theorem visitV_vars (t : QTask) (a : QAssign) (v : QVar) (k : Nat) :
    (visitV t a v k).vars = if a.vars.any (fun p => p.1 == v) then a.vars else a.vars ++ [(v, k)] := by
  unfold visitV
  simp only
  split <;> split <;> split <;> rfl

theorem visitV_links (t : QTask) (a : QAssign) (v : QVar) (k : Nat) : (visitV t a v k).links = a.links := by
  unfold visitV
  simp only
  split <;> split <;> split <;> rfl

theorem visitV_outs (t : QTask) (a : QAssign) (v : QVar) (k : Nat) :
    (visitV t a v k).outs = if t.outputs.contains k && !a.outs.contains v then a.outs ++ [v] else a.outs := by
  unfold visitV
  simp only
  split <;> split <;> split <;> simp_all

theorem visitV_ins (t : QTask) (a : QAssign) (v : QVar) (k : Nat) :
    (visitV t a v k).ins = if t.inputs.contains k && !a.ins.contains v then a.ins ++ [v] else a.ins := by
  unfold visitV
  simp only
  split <;> split <;> split <;> simp_all

theorem visitV_ext (t : QTask) (a : QAssign) (v : QVar) (k : Nat) (hv : v.getLast? = some k) (hs : ShapeU a) :
    ExtU t (fun w j => w = v ∧ j = k) (fun _ _ => False) a (visitV t a v k) := by
  have hany : (a.vars.any (fun p => p.1 == v)) = true ↔ (v, k) ∈ a.vars := by
    simp only [List.any_eq_true, beq_iff_eq]
    constructor
    · rintro ⟨⟨w, j⟩, hp, hw⟩
      have h1 := hs _ hp
      simp only at hw h1
      subst hw
      rw [hv] at h1
      simp only [Option.some.injEq] at h1
      subst h1
      exact hp
    · intro h
      exact ⟨_, h, rfl⟩
  refine ⟨?_, ?_, ?_, ?_, ?_, ?_⟩
  · rintro ⟨w, j⟩
    rw [visitV_vars]
    split
    · rename_i h1
      rw [hany] at h1
      constructor
      · exact Or.inl
      · rintro (h | ⟨rfl, rfl⟩)
        · exact h
        · exact h1
    · simp only [List.mem_append, List.mem_singleton, Prod.mk.injEq]
  · intro l
    rw [visitV_links]
    simp
  · intro w
    rw [visitV_outs]
    split
    · rename_i h2
      simp only [Bool.and_eq_true, Bool.not_eq_true', List.contains_eq_mem,
        decide_eq_true_eq, decide_eq_false_iff_not] at h2
      simp only [List.mem_append, List.mem_singleton]
      constructor
      · rintro (h | rfl)
        · exact Or.inl h
        · exact Or.inr ⟨k, ⟨rfl, rfl⟩, h2.1⟩
      · rintro (h | ⟨j, ⟨rfl, rfl⟩, _⟩)
        · exact Or.inl h
        · exact Or.inr rfl
    · rename_i h2
      simp only [Bool.and_eq_true, Bool.not_eq_true', List.contains_eq_mem,
        decide_eq_true_eq, decide_eq_false_iff_not, not_and, Classical.not_not] at h2
      constructor
      · exact Or.inl
      · rintro (h | ⟨j, ⟨rfl, rfl⟩, ho⟩)
        · exact h
        · exact h2 ho
  · intro w
    rw [visitV_ins]
    split
    · rename_i h2
      simp only [Bool.and_eq_true, Bool.not_eq_true', List.contains_eq_mem,
        decide_eq_true_eq, decide_eq_false_iff_not] at h2
      simp only [List.mem_append, List.mem_singleton]
      constructor
      · rintro (h | rfl)
        · exact Or.inl h
        · exact Or.inr ⟨k, ⟨rfl, rfl⟩, h2.1⟩
      · rintro (h | ⟨j, ⟨rfl, rfl⟩, _⟩)
        · exact Or.inl h
        · exact Or.inr rfl
    · rename_i h2
      simp only [Bool.and_eq_true, Bool.not_eq_true', List.contains_eq_mem,
        decide_eq_true_eq, decide_eq_false_iff_not, not_and, Classical.not_not] at h2
      constructor
      · exact Or.inl
      · rintro (h | ⟨j, ⟨rfl, rfl⟩, ho⟩)
        · exact h
        · exact h2 ho
  · intro _ hn
    rw [visitV_vars]
    split
    · exact hn
    · rename_i h1
      simp only [List.map_append, List.map_cons, List.map_nil]
      rw [List.nodup_append]
      refine ⟨hn, by simp, ?_⟩
      intro x hx y hy
      simp only [List.mem_singleton] at hy
      subst hy
      rintro rfl
      apply h1
      simp only [List.mem_map] at hx
      obtain ⟨p, hp, hpx⟩ := hx
      simp only [List.any_eq_true, beq_iff_eq]
      exact ⟨p, hp, hpx⟩
  · intro hs' p hp
    rw [visitV_vars] at hp
    split at hp
    · exact hs' p hp
    · rcases List.mem_append.1 hp with hp | hp
      · exact hs' p hp
      · simp only [List.mem_singleton] at hp
        subst hp
        exact hv

theorem addLinkV_ext (t : QTask) (a : QAssign) (v w : QVar) :
    ExtU t (fun _ _ => False) (fun c b => c = v ∧ b = w) a { a with links := a.links ++ [(v, w)] } := by
  refine ⟨by simp, ?_, by simp, by simp, fun _ h => h, fun h => h⟩
  rintro ⟨c, b⟩
  simp only [List.mem_append, List.mem_singleton, Prod.mk.injEq]

/-! ## the specification of one call -/

def AssignSpecUAt (t : QTask) (f : QFlags) (n : Nat) : Prop :=
  ∀ a k path a' v, ShapeU a → assignVars t f n a k path = .ok (a', v) →
    v = path ++ [k] ∧
    ExtU t (fun w j => ∃ q, Chain t k q j ∧ w = path ++ q)
      (fun c d => ∃ q j b, Chain t k q j ∧ b ∈ (t.step j).from_ ∧ c = path ++ q ∧ d = path ++ q ++ [b]) a a'

theorem linkFold_specU (t : QTask) (f : QFlags) (n : Nat) (ih : AssignSpecUAt t f n) (path' : List Nat) :
    ∀ (bs : List Nat) (a a'' : QAssign), ShapeU a → bs.foldlM (linkStepV t f n path' path') a = .ok a'' →
      ExtU t (fun w j => ∃ b ∈ bs, ∃ q, Chain t b q j ∧ w = path' ++ q)
        (fun c d => (∃ b ∈ bs, ∃ q j b', Chain t b q j ∧ b' ∈ (t.step j).from_ ∧ c = path' ++ q ∧ d = path' ++ q ++ [b']) ∨
          (c = path' ∧ ∃ b ∈ bs, d = path' ++ [b])) a a'' := by
  intro bs
  induction bs with
  | nil =>
    intro a a'' _ h
    simp only [List.foldlM_nil, pure, Except.pure, Except.ok.injEq] at h
    subst h
    exact (ExtU.refl t a).congr (by simp) (by simp)
  | cons b bs ihb =>
    intro a a'' hs h
    simp only [List.foldlM_cons] at h
    cases hx : linkStepV t f n path' path' a b with
    | error e => rw [hx] at h; cases h
    | ok a1 =>
      rw [hx] at h
      unfold linkStepV at hx
      cases hy : assignVars t f n a b path' with
      | error e => rw [hy] at hx; cases hx
      | ok r =>
        obtain ⟨a0, bv⟩ := r
        rw [hy] at hx
        simp only [Except.ok.injEq] at hx
        obtain ⟨hbv, e0⟩ := ih a b _ a0 bv hs hy
        subst hbv
        have e1 := addLinkV_ext t a0 path' (path' ++ [b])
        rw [hx] at e1
        have hs1 : ShapeU a1 := e1.shape (e0.shape hs)
        have e2 := ihb a1 a'' hs1 h
        refine ((e0.trans e1).trans e2).congr ?_ ?_
        · intro w j
          simp only [List.mem_cons, or_false]
          constructor
          · rintro (h1 | ⟨b', hb', hr⟩)
            · exact ⟨b, Or.inl rfl, h1⟩
            · exact ⟨b', Or.inr hb', hr⟩
          · rintro ⟨b', rfl | hb', hr⟩
            · exact Or.inl hr
            · exact Or.inr ⟨b', hb', hr⟩
        · intro c d
          simp only [List.mem_cons]
          constructor
          · rintro ((h1 | ⟨rfl, rfl⟩) | (⟨b2, hb2, hr⟩ | ⟨rfl, b2, hb2, rfl⟩))
            · exact Or.inl ⟨b, Or.inl rfl, h1⟩
            · exact Or.inr ⟨rfl, b, Or.inl rfl, rfl⟩
            · exact Or.inl ⟨b2, Or.inr hb2, hr⟩
            · exact Or.inr ⟨rfl, b2, Or.inr hb2, rfl⟩
          · rintro (⟨b2, rfl | hb2, hr⟩ | ⟨rfl, b2, rfl | hb2, rfl⟩)
            · exact Or.inl (Or.inl hr)
            · exact Or.inr (Or.inl ⟨b2, hb2, hr⟩)
            · exact Or.inl (Or.inr ⟨rfl, rfl⟩)
            · exact Or.inr (Or.inr ⟨rfl, b2, hb2, rfl⟩)

theorem assignVars_specU (t : QTask) (f : QFlags) (hf : f.unfoldTree = true) : ∀ n, AssignSpecUAt t f n := by
  intro n
  induction n with
  | zero =>
    intro a k path a' v _ h
    rw [assignVars] at h
    cases h
  | succ n ih =>
    intro a k path a' v hs h
    rw [assignVars_succU t f hf] at h
    split at h
    · cases h
    · cases hx : (t.step k).from_.foldlM (linkStepV t f n (path ++ [k]) (path ++ [k])) (visitV t a (path ++ [k]) k) with
      | error e => rw [hx] at h; cases h
      | ok a2 =>
        rw [hx] at h
        simp only [Except.ok.injEq, Prod.mk.injEq] at h
        obtain ⟨rfl, rfl⟩ := h
        refine ⟨rfl, ?_⟩
        have e0 := visitV_ext t a (path ++ [k]) k (by simp) hs
        have e1 := linkFold_specU t f n ih (path ++ [k]) _ _ _ (e0.shape hs) hx
        refine (e0.trans e1).congr ?_ ?_
        · intro w j
          constructor
          · rintro (⟨rfl, rfl⟩ | ⟨b, hb, q, hc, rfl⟩)
            · exact ⟨[j], .refl j, rfl⟩
            · exact ⟨k :: q, .step hb hc, by simp⟩
          · rintro ⟨q, hc, rfl⟩
            rcases (chain_iff t k q j).1 hc with ⟨rfl, rfl⟩ | ⟨b, hb, q', hc', rfl⟩
            · exact Or.inl ⟨rfl, rfl⟩
            · exact Or.inr ⟨b, hb, q', hc', by simp⟩
        · intro c d
          simp only [false_or]
          constructor
          · rintro (⟨b, hb, q, j, b', hc, hb', rfl, rfl⟩ | ⟨rfl, b, hb, rfl⟩)
            · exact ⟨k :: q, j, b', .step hb hc, hb', by simp, by simp⟩
            · exact ⟨[k], k, b, .refl k, hb, rfl, rfl⟩
          · rintro ⟨q, j, b', hc, hb', rfl, rfl⟩
            rcases (chain_iff t k q j).1 hc with ⟨rfl, rfl⟩ | ⟨b, hb, q', hc', rfl⟩
            · exact Or.inr ⟨rfl, b', hb', rfl⟩
            · exact Or.inl ⟨b, hb, q', j, b', hc', hb', by simp, by simp⟩

theorem outFold_specU (t : QTask) (f : QFlags) (hf : f.unfoldTree = true) (n : Nat) :
    ∀ (os : List Nat) (a a' : QAssign), ShapeU a →
      os.foldlM (fun (a : QAssign) o =>
        match assignVars t f n a o [] with
        | .error e => Except.error e
        | .ok (a', _) => .ok a') a = .ok a' →
      ExtU t (fun w j => ∃ o ∈ os, Chain t o w j)
        (fun c d => ∃ o ∈ os, ∃ j b, Chain t o c j ∧ b ∈ (t.step j).from_ ∧ d = c ++ [b]) a a' := by
  intro os
  induction os with
  | nil =>
    intro a a' _ h
    simp only [List.foldlM_nil, pure, Except.pure, Except.ok.injEq] at h
    subst h
    exact (ExtU.refl t a).congr (by simp) (by simp)
  | cons o os ih =>
    intro a a' hs h
    simp only [List.foldlM_cons] at h
    cases hy : assignVars t f n a o [] with
    | error e => rw [hy] at h; cases h
    | ok r =>
      obtain ⟨a0, bv⟩ := r
      rw [hy] at h
      obtain ⟨_, e0⟩ := assignVars_specU t f hf n a o [] a0 bv hs hy
      have e1 := ih a0 a' (e0.shape hs) h
      refine (e0.trans e1).congr ?_ ?_
      · intro w j
        simp only [List.mem_cons, List.nil_append]
        constructor
        · rintro (⟨q, hc, rfl⟩ | ⟨o', ho', hr⟩)
          · exact ⟨o, Or.inl rfl, hc⟩
          · exact ⟨o', Or.inr ho', hr⟩
        · rintro ⟨o', rfl | ho', hr⟩
          · exact Or.inl ⟨w, hr, rfl⟩
          · exact Or.inr ⟨o', ho', hr⟩
      · intro c d
        simp only [List.mem_cons, List.nil_append]
        constructor
        · rintro (⟨q, j, b, hc, hb, rfl, rfl⟩ | ⟨o', ho', hr⟩)
          · exact ⟨o, Or.inl rfl, j, b, hc, hb, rfl⟩
          · exact ⟨o', Or.inr ho', hr⟩
        · rintro ⟨o', rfl | ho', j, b, hc, hb, rfl⟩
          · exact Or.inl ⟨c, j, b, hc, hb, rfl, rfl⟩
          · exact Or.inr ⟨o', ho', j, b, hc, hb, rfl⟩

/-- what `genQuery` knows about the variables when it unfolds the task into a tree -/
structure AssignOkU (t : QTask) (a : QAssign) : Prop where
  /-- one variable per path from an output; it stands for the last step of the path -/
  vars : ∀ p k, (p, k) ∈ a.vars ↔ PathTo t p k
  /-- each once -/
  nodup : (a.vars.map (·.1)).Nodup
  /-- a link from a path to each of its extensions by one predecessor -/
  links : ∀ l, l ∈ a.links ↔ ∃ p c b, PathTo t p c ∧ b ∈ (t.step c).from_ ∧ l = (p, p ++ [b])
  /-- the paths that end in an output step -/
  outs : ∀ v, v ∈ a.outs ↔ ∃ o, PathTo t v o ∧ o ∈ t.outputs
  /-- the paths that end in an input step -/
  ins : ∀ v, v ∈ a.ins ↔ ∃ i, PathTo t v i ∧ i ∈ t.inputs

theorem assignAll_okU (t : QTask) (f : QFlags) (hf : f.unfoldTree = true) (a : QAssign)
    (h : assignAll t f = .ok a) : AssignOkU t a := by
  have hs0 : ShapeU ({} : QAssign) := by intro p hp; cases hp
  have e := outFold_specU t f hf _ t.outputs {} a hs0 h
  refine ⟨?_, e.nodup hs0 (by simp), ?_, ?_, ?_⟩
  · intro p k
    rw [e.vars, pathTo_iff_chain]
    constructor
    · rintro (h1 | h1)
      · cases h1
      · exact h1
    · exact Or.inr
  · rintro ⟨c, d⟩
    rw [e.links]
    constructor
    · rintro (h1 | ⟨o, ho, j, b, hc, hb, hd⟩)
      · cases h1
      · simp only at hc hd
        subst hd
        exact ⟨c, j, b, (pathTo_iff_chain t c j).2 ⟨o, ho, hc⟩, hb, rfl⟩
    · rintro ⟨p, j, b, hp, hb, heq⟩
      simp only [Prod.mk.injEq] at heq
      obtain ⟨rfl, rfl⟩ := heq
      obtain ⟨o, ho, hc⟩ := (pathTo_iff_chain t c j).1 hp
      exact Or.inr ⟨o, ho, j, b, hc, hb, rfl⟩
  · intro v
    rw [e.outs]
    constructor
    · rintro (h1 | ⟨k, hk, ho⟩)
      · cases h1
      · exact ⟨k, (pathTo_iff_chain t v k).2 hk, ho⟩
    · rintro ⟨k, hk, ho⟩
      exact Or.inr ⟨k, (pathTo_iff_chain t v k).1 hk, ho⟩
  · intro v
    rw [e.ins]
    constructor
    · rintro (h1 | ⟨k, hk, ho⟩)
      · cases h1
      · exact ⟨k, (pathTo_iff_chain t v k).2 hk, ho⟩
    · rintro ⟨k, hk, ho⟩
      exact Or.inr ⟨k, (pathTo_iff_chain t v k).1 hk, ho⟩

theorem AssignOkU.shape {t : QTask} {a : QAssign} (h : AssignOkU t a) : ∀ p ∈ a.vars, p.1.getLast? = some p.2 := by
  rintro ⟨p, k⟩ hp
  exact ((h.vars p k).1 hp).getLast

theorem AssignOkU.stepOf {t : QTask} {a : QAssign} (h : AssignOkU t a) {p : List Nat} {k : Nat} (hk : PathTo t p k) :
    stepOf a p = k := by
  unfold Tfv.stepOf
  cases hx : a.vars.find? (fun x => x.1 == p) with
  | none =>
    have := List.find?_eq_none.1 hx _ ((h.vars p k).2 hk)
    simp at this
  | some x =>
    have hm := List.mem_of_find?_eq_some hx
    have hp := List.find?_some hx
    simp only [beq_iff_eq] at hp
    have h1 := h.shape x hm
    rw [hp, hk.getLast] at h1
    simp only [Option.some.injEq] at h1
    simp [h1]

end Tfv
