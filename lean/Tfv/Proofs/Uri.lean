import Tfv.Model.Uri
/-!
# Helper lemmas for C14: the URI token list of a type and its decoder

* `opIds` — the prefix listing of operator indices of a type;
  `uriToks L t = (opIds t).map (nameOf L)`.
* `resolveName` is sound (the index it returns carries the name) and, when names
  are distinct, complete (`resolveName L (nameOf L o) = some o`).
* `decodeStep` folded from the right over the operator list of a forest rebuilds
  the forest (`foldlM_decodeStep_opIdsL`), and conversely whatever the fold
  returns lists the consumed operators (`foldlM_decodeStep_sound`).
-/
namespace Tfv

/-! ## 1. prefix operator lists -/

mutual
def opIds : Ty → List Nat
  | .app o args => o :: opIdsL args
def opIdsL : List Ty → List Nat
  | [] => []
  | t :: ts => opIds t ++ opIdsL ts
end

theorem opIdsL_append (as bs : List Ty) : opIdsL (as ++ bs) = opIdsL as ++ opIdsL bs := by
  induction as with
  | nil => simp [opIdsL]
  | cons a as ih => simp [opIdsL, ih]

mutual
theorem uriToks_eq_map (L : Lang) : ∀ t : Ty, uriToks L t = (opIds t).map (nameOf L)
  | .app o args => by
    simp only [uriToks, opIds, List.map_cons, uriToksL_eq_map L args]
theorem uriToksL_eq_map (L : Lang) : ∀ ts : List Ty, uriToksL L ts = (opIdsL ts).map (nameOf L)
  | [] => by simp [uriToksL, opIdsL]
  | t :: ts => by
    simp only [uriToksL, opIdsL, List.map_append, uriToks_eq_map L t, uriToksL_eq_map L ts]
end

-- the operators of a well-formed type are declared
mutual
theorem opIds_lt (L : Lang) : ∀ t : Ty, wfTy L t = true → ∀ o ∈ opIds t, o < L.length
  | .app o args, h, o', ho' => by
    simp only [wfTy, Bool.and_eq_true, decide_eq_true_eq] at h
    simp only [opIds, List.mem_cons] at ho'
    rcases ho' with rfl | ho'
    · exact h.1.1
    · exact opIdsL_lt L args h.2 o' ho'
theorem opIdsL_lt (L : Lang) : ∀ ts : List Ty, wfTyL L ts = true → ∀ o ∈ opIdsL ts, o < L.length
  | [], _, o', ho' => by simp [opIdsL] at ho'
  | t :: ts, h, o', ho' => by
    simp only [wfTyL, Bool.and_eq_true] at h
    simp only [opIdsL, List.mem_append] at ho'
    rcases ho' with ho' | ho'
    · exact opIds_lt L t h.1 o' ho'
    · exact opIdsL_lt L ts h.2 o' ho'
end

/-! ## 2. name resolution -/

theorem nameOf_eq_of_getElem? {L : Lang} {i : Nat} {d : OpDecl} (h : L[i]? = some d) :
    nameOf L i = d.name := by
  simp [nameOf, h]

/-- soundness: the index returned by `resolveName` carries the requested name -/
theorem resolveName_sound (L : Lang) (x : String) (i : Nat) (h : resolveName L x = some i) :
    nameOf L i = x := by
  unfold resolveName at h
  split at h
  · next j hj =>
    cases h
    obtain ⟨hlt, hp, _⟩ := List.findIdx?_eq_some_iff_getElem.mp hj
    have hget : L[i]? = some ((L.take 5)[i]) := by
      rw [← List.getElem?_eq_getElem hlt, List.getElem?_take]
      have : i < 5 := by
        have := hlt; simp only [List.length_take] at this; omega
      simp [this]
    rw [nameOf_eq_of_getElem? hget]
    simpa using hp
  · next hnone =>
    cases hj : (L.drop 5).findIdx? (fun d => d.name == x) with
    | none => rw [hj] at h; cases h
    | some j =>
      rw [hj] at h
      simp only [Option.map_some, Option.some.injEq] at h
      subst h
      obtain ⟨hlt, hp, _⟩ := List.findIdx?_eq_some_iff_getElem.mp hj
      have hget : L[j + 5]? = some ((L.drop 5)[j]) := by
        rw [← List.getElem?_eq_getElem hlt, List.getElem?_drop, Nat.add_comm]
      rw [nameOf_eq_of_getElem? hget]
      simpa using hp

/-- completeness under distinct names -/
theorem resolveName_nameOf (L : Lang)
    (hn : ∀ i j, i < L.length → j < L.length → nameOf L i = nameOf L j → i = j)
    (h5 : 5 ≤ L.length) (o : Nat) (ho : o < L.length) :
    resolveName L (nameOf L o) = some o := by
  cases hr : resolveName L (nameOf L o) with
  | some i =>
    -- the returned index is declared and carries the same name
    have hname := resolveName_sound L _ i hr
    have hi : i < L.length := by
      unfold resolveName at hr
      split at hr
      · next j hj =>
        cases hr
        obtain ⟨hlt, _, _⟩ := List.findIdx?_eq_some_iff_getElem.mp hj
        simp only [List.length_take] at hlt; omega
      · next hnone =>
        cases hj : (L.drop 5).findIdx? (fun d => d.name == nameOf L o) with
        | none => rw [hj] at hr; cases hr
        | some j =>
          rw [hj] at hr
          simp only [Option.map_some, Option.some.injEq] at hr
          subst hr
          obtain ⟨hlt, _, _⟩ := List.findIdx?_eq_some_iff_getElem.mp hj
          simp only [List.length_drop] at hlt; omega
    rw [hn i o hi ho hname]
  | none =>
    exfalso
    unfold resolveName at hr
    split at hr
    · cases hr
    · next hnone =>
      have hd : (L.drop 5).findIdx? (fun d => d.name == nameOf L o) = none := by
        cases hj : (L.drop 5).findIdx? (fun d => d.name == nameOf L o) with
        | none => rfl
        | some j => rw [hj] at hr; cases hr
      rw [List.findIdx?_eq_none_iff] at hnone hd
      have hname : nameOf L o = (L[o]).name := by
        apply nameOf_eq_of_getElem?; exact List.getElem?_eq_getElem ho
      by_cases h : o < 5
      · have hmem : L[o] ∈ L.take 5 := by
          rw [List.mem_take_iff_getElem]
          exact ⟨o, by omega, rfl⟩
        have := hnone _ hmem
        simp [hname] at this
      · have hmem : L[o] ∈ L.drop 5 := by
          rw [List.mem_drop_iff_getElem]
          exact ⟨o - 5, by omega, by congr 1; omega⟩
        have := hd _ hmem
        simp [hname] at this

theorem mapM_resolveName_map_nameOf (L : Lang)
    (hn : ∀ i j, i < L.length → j < L.length → nameOf L i = nameOf L j → i = j)
    (h5 : 5 ≤ L.length) (ops : List Nat) (hops : ∀ o ∈ ops, o < L.length) :
    (ops.map (nameOf L)).mapM (resolveName L) = some ops := by
  induction ops with
  | nil => simp
  | cons o ops ih =>
    have h1 := resolveName_nameOf L hn h5 o (hops o (by simp))
    have h2 := ih (fun o' ho' => hops o' (by simp [ho']))
    simp [List.mapM_cons, h1, h2]

theorem map_nameOf_of_mapM_resolveName (L : Lang) (toks : List String) (ops : List Nat)
    (h : toks.mapM (resolveName L) = some ops) : ops.map (nameOf L) = toks := by
  induction toks generalizing ops with
  | nil => simp at h; subst h; rfl
  | cons x toks ih =>
    rw [List.mapM_cons] at h
    cases hx : resolveName L x with
    | none => simp [hx] at h
    | some i =>
      cases hr : toks.mapM (resolveName L) with
      | none => simp [hx, hr] at h
      | some r =>
        simp [hx, hr] at h
        subst h
        simp [resolveName_sound L x i hx, ih r hr]

/-! ## 3. the decoder rebuilds a forest from its operator list -/

theorem decodeStep_append (L : Lang) (w : List Ty) (o : Nat) (args : List Ty)
    (h : args.length = arityOf L o) :
    decodeStep L (w ++ args.reverse) o = .ok (w ++ [Ty.app o args]) := by
  unfold decodeStep
  have hlen : (w ++ args.reverse).length - arityOf L o = w.length := by
    simp [← h]
  have hnot : ¬ (w ++ args.reverse).length < arityOf L o := by
    simp [← h]
  simp only [hnot, if_false, hlen, List.take_left', List.drop_left', List.reverse_reverse]

mutual
theorem foldlM_decodeStep_opIds (L : Lang) : ∀ t : Ty, wfTy L t = true → ∀ w : List Ty,
    (opIds t).reverse.foldlM (decodeStep L) w = .ok (w ++ [t])
  | .app o args, h, w => by
    simp only [wfTy, Bool.and_eq_true, decide_eq_true_eq, beq_iff_eq] at h
    have ih := foldlM_decodeStep_opIdsL L args h.2 w
    simp only [opIds, List.reverse_cons, List.foldlM_append, ih]
    simp only [bind, Except.bind, List.foldlM_cons, List.foldlM_nil]
    rw [decodeStep_append L w o args h.1.2]
    rfl
theorem foldlM_decodeStep_opIdsL (L : Lang) : ∀ ts : List Ty, wfTyL L ts = true → ∀ w : List Ty,
    (opIdsL ts).reverse.foldlM (decodeStep L) w = .ok (w ++ ts.reverse)
  | [], _, w => by simp [opIdsL]; rfl
  | t :: ts, h, w => by
    simp only [wfTyL, Bool.and_eq_true] at h
    have ih1 := foldlM_decodeStep_opIds L t h.1
    have ih2 := foldlM_decodeStep_opIdsL L ts h.2 w
    simp only [opIdsL, List.reverse_append, List.foldlM_append, ih2]
    simp only [bind, Except.bind]
    rw [ih1]
    simp
end

theorem decodeOps_opIds (L : Lang) (t : Ty) (h : wfTy L t = true) :
    decodeOps L (opIds t) = .ok t := by
  unfold decodeOps
  rw [foldlM_decodeStep_opIds L t h []]
  rfl

/-! ## 4. whatever the decoder returns lists the operators it consumed -/

theorem decodeStep_sound (L : Lang) (w w' : List Ty) (o : Nat)
    (h : decodeStep L w o = .ok w') : opIdsL w'.reverse = o :: opIdsL w.reverse := by
  unfold decodeStep at h
  dsimp only at h
  split at h
  · cases h
  · simp only [Except.ok.injEq] at h
    subst h
    simp only [List.reverse_append, List.reverse_cons, List.reverse_nil, List.nil_append,
      opIdsL, opIds, List.cons_append, List.cons.injEq, true_and]
    rw [← opIdsL_append, ← List.reverse_append, List.take_append_drop]

theorem foldlM_decodeStep_sound (L : Lang) (ops : List Nat) : ∀ (w w' : List Ty),
    ops.foldlM (decodeStep L) w = .ok w' → opIdsL w'.reverse = ops.reverse ++ opIdsL w.reverse := by
  induction ops with
  | nil =>
    intro w w' h
    simp only [List.foldlM_nil, pure, Except.pure, Except.ok.injEq] at h
    subst h; simp
  | cons o ops ih =>
    intro w w' h
    rw [List.foldlM_cons] at h
    cases hs : decodeStep L w o with
    | error e => rw [hs] at h; cases h
    | ok w1 =>
      rw [hs] at h
      have h' : ops.foldlM (decodeStep L) w1 = .ok w' := h
      rw [ih w1 w' h', decodeStep_sound L w w1 o hs]
      simp

theorem decodeOps_sound (L : Lang) (ops : List Nat) (t : Ty)
    (h : decodeOps L ops = .ok t) : opIds t = ops := by
  unfold decodeOps at h
  split at h
  · cases h
  · next t' hf =>
    cases h
    have := foldlM_decodeStep_sound L ops.reverse [] [t] hf
    simpa [opIdsL] using this
  · cases h

/-! ## 5. token level -/

theorem decodeToks_uriToks (L : Lang)
    (hn : ∀ i j, i < L.length → j < L.length → nameOf L i = nameOf L j → i = j)
    (h5 : 5 ≤ L.length) (t : Ty) (ht : wfTy L t = true) :
    decodeToks L (uriToks L t) = .ok t := by
  unfold decodeToks
  rw [uriToks_eq_map, mapM_resolveName_map_nameOf L hn h5 _ (opIds_lt L t ht)]
  exact decodeOps_opIds L t ht

theorem uriToks_of_decodeToks (L : Lang) (toks : List String) (t : Ty)
    (h : decodeToks L toks = .ok t) : uriToks L t = toks := by
  unfold decodeToks at h
  split at h
  · cases h
  · next ops hm =>
    rw [uriToks_eq_map, decodeOps_sound L ops t h]
    exact map_nameOf_of_mapM_resolveName L toks ops hm

theorem uriToks_injective (L : Lang)
    (hn : ∀ i j, i < L.length → j < L.length → nameOf L i = nameOf L j → i = j)
    (h5 : 5 ≤ L.length) (s t : Ty) (hs : wfTy L s = true) (ht : wfTy L t = true)
    (h : uriToks L s = uriToks L t) : s = t := by
  have h1 := decodeToks_uriToks L hn h5 s hs
  have h2 := decodeToks_uriToks L hn h5 t ht
  rw [h, h2] at h1
  exact (Except.ok.inj h1).symm

end Tfv
