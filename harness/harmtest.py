"""False-alarm validation: harmtest.py <harmless dir> [property ids...]

The counterpart of seedtest.py for changes that PRESERVE the property (seeded/H*/: a refactoring of the anchored code that may
alter incidental behaviour - wording of messages, names of fresh variables, blank-node identifiers, order of triples). The patch is
applied to a scratch worktree outside /repo and /verif, the pinned suite and equiv.py are run there, then the quick checks are run
with VERIF_REPO pointing at the scratch tree. Expected: every check exits 0. Prints quiet / ALARM per check.
Default checks: the target (meta.json "preserves_property") plus every check whose anchors live in a file the patch touches."""
import json, os, re, shutil, sys, tempfile
from seedtest import sh, BASE_CMD, VERIF

BY_FILE = {   # files the properties' anchors name (properties.jsonl)
    "type.py": ["C01", "C02", "C03", "C04", "C05", "C06", "C10", "C14", "C16", "C17", "C18", "C19"],
    "expr.py": ["C04", "C08", "C12", "C13", "C15", "C16", "C17"],
    "lang.py": ["C04", "C07", "C10", "C11", "C12", "C13", "C14", "C16", "C17", "C19"],
    "graph.py": ["C07", "C08", "C09", "C10", "C11", "C12", "C19"],
    "query.py": ["C07", "C11", "C14", "C20"],
    "workflow.py": ["C12", "C19"],
    "bag.py": ["C20"],
    "namespace.py": ["C09", "C10", "C19"],
    "label.py": ["C13", "C14"],
}


def main():
    d = os.path.abspath(sys.argv[1])
    props = sys.argv[2:]
    meta = json.load(open(os.path.join(d, "meta.json"))) if os.path.exists(os.path.join(d, "meta.json")) else {}
    patch = open(os.path.join(d, "patch.diff")).read()
    if not props:
        props = [meta["preserves_property"]] if meta.get("preserves_property") else []
        for f in re.findall(r"^\+\+\+ b/transforge/(\S+)", patch, re.M):
            for p in BY_FILE.get(f, []):
                if p not in props:
                    props.append(p)
    tmp = tempfile.mkdtemp(prefix="harmtest_", dir="/tmp")
    wt = os.path.join(tmp, "wt")
    try:
        rc, out = sh(["git", "-C", "/repo", "worktree", "add", "-f", wt, "HEAD"])
        assert rc == 0, out
        rc, out = sh(["git", "apply", os.path.join(d, "patch.diff")], cwd=wt)
        if rc != 0:
            print("patch does not apply:", out)
            return 2
        env = dict(os.environ)
        env.pop("TRANSFORGE_VERIF", None)
        rc, out = sh(BASE_CMD, cwd=wt, env=env)
        m = re.search(r"(\d+) failed, (\d+) passed", out)
        print("test suite with the change:", out.strip().splitlines()[-1])
        suite_ok = bool(m) and m.group(1) == "2" and m.group(2) == "113"
        eq_rc = None
        if os.path.exists(os.path.join(d, "equiv.py")):
            shutil.copy(os.path.join(d, "equiv.py"), os.path.join(wt, "equiv.py"))
            eq_rc, eout = sh(["/venv/bin/python", "equiv.py"], cwd=wt, env=env)
            print("equiv.py with the change: exit", eq_rc)
        results = {}
        for p in props:
            env2 = dict(os.environ)
            env2["VERIF_REPO"] = wt
            rc, out = sh([os.path.join(VERIF, "vcheck"), p, "--tier", "quick"], cwd=VERIF, env=env2)
            viol = [l for l in out.splitlines() if l.startswith("VIOLATION")]
            status = "quiet" if rc == 0 and not viol else ("ALARM" if rc == 1 else f"error(rc={rc})")
            nf = any("no-failing-input-found" in l for l in viol)
            results[p] = status + (" (no-failing-input-found)" if nf else "")
            print(f"  {p}: {results[p]}   {out.strip().splitlines()[-1][:200]}")
            if viol:
                rp = viol[0].split("replay=")[1].split()[0]
                try:
                    r = json.load(open(rp))
                    print("     ", (r.get("description") or str(r.get("broken")))[:600])
                    for df in (r.get("diffs") or [])[:2]:
                        print("      diff:", json.dumps(df, default=str)[:900])
                except Exception:
                    pass
        print(json.dumps({"change": os.path.basename(d), "suite_unchanged": suite_ok, "equiv_exit": eq_rc, "checks": results}))
        if os.environ.get("HARM_RECORD") and meta:
            meta.setdefault("results", {}).update(results)
            meta["suite_unchanged"] = suite_ok
            meta["equiv_exit"] = eq_rc
            json.dump(meta, open(os.path.join(d, "meta.json"), "w"), indent=1)
    finally:
        sh(["git", "-C", "/repo", "worktree", "remove", "--force", wt])
        shutil.rmtree(tmp, ignore_errors=True)
        sh(["/venv/bin/python", os.path.join(VERIF, "harness", "gen_constants.py")], cwd=VERIF)
    return 0


if __name__ == "__main__":
    sys.exit(main())
