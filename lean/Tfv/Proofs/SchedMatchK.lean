import Tfv.Model.InferSched
/-!
# C18 — a kernel-evaluable form of `match3` and `occurs`

`match3` (with its local `loop`) is compiled by well-founded recursion, which neither `rfl` nor
`decide +kernel` evaluates. `match3K` is the same function by structural recursion on the fuel.
-/
namespace Tfv.C18P

/-- the argument loop of `match3`, over an arbitrary comparison of the arguments -/
def loopK (f : Term → Term → Option Bool) : List Bool → List Term → List Term → Option Bool → Option Bool
  | v :: vs, s :: ss, t :: ts, acc =>
    match (if v then f s t else f t s) with
    | some false => some false
    | none => loopK f vs ss ts none
    | some true => loopK f vs ss ts acc
  | _, _, _, acc => acc

/-- `match3` by structural recursion on the fuel -/
def match3K (L : Lang) (σ : Store) : Nat → Bool → Bool → Term → Term → Option Bool
  | 0, _, _, _, _ => none
  | n+1, st, aw, a, b =>
    match followT σ a, followT σ b with
    | .app ao as, .app bo bs =>
      if st && (ao == BOT || bo == TOP) then some true
      else if arityOf L ao == 0 then some (ao == bo || (st && opSub L ao bo))
      else if ao != bo then some false
      else loopK (fun s t => match3K L σ n st aw s t) (varianceOf L ao) as bs (some true)
    | .app ao _, .var bv =>
      let bi := getVar σ bv
      if st && ao == BOT then some true
      else if (bi.upper.isSome || bi.lower.isSome) && arityOf L ao != 0 then some false
      else if bi.upper.any (fun u => !opSub L ao u) then some false
      else if !st && bi.lower.any (fun l => !opSub L l ao) then some false
      else if aw && bi.wildcard then some true
      else none
    | .var av, .app bo _ =>
      let ai := getVar σ av
      if st && bo == TOP then some true
      else if (ai.upper.isSome || ai.lower.isSome) && arityOf L bo != 0 then some false
      else if ai.lower.any (fun l => !opSub L l bo) then some false
      else if !st && ai.upper.any (fun u => !opSub L u bo) then some false
      else if aw && ai.wildcard then some true
      else none
    | .var av, .var bv =>
      let ai := getVar σ av
      let bi := getVar σ bv
      if av == bv || (ai.wildcard && bi.wildcard) then some true
      else if aw && (ai.wildcard || bi.wildcard) then some true
      else match ai.lower, bi.upper with
        | some l, some u => if opSub L u l true then some false else none
        | _, _ => none

theorem loop_eq (L : Lang) (σ : Store) (n : Nat) (st aw : Bool) (f : Term → Term → Option Bool)
    (hf : ∀ a b, f a b = match3 L σ n st aw a b) :
    ∀ (vs : List Bool) (ss ts : List Term) (acc : Option Bool),
      loopK f vs ss ts acc = match3.loop L σ n st aw vs ss ts acc
  | [], _, _, _ => by rw [loopK, match3.loop] <;> (intros; simp_all)
  | _ :: _, [], _, _ => by rw [loopK, match3.loop] <;> (intros; simp_all)
  | _ :: _, _ :: _, [], _ => by rw [loopK, match3.loop] <;> (intros; simp_all)
  | v :: vs, s :: ss, t :: ts, acc => by
    rw [loopK, match3.loop]
    simp only [hf, loop_eq L σ n st aw f hf vs ss ts]
    rfl

theorem match3K_eq (L : Lang) (σ : Store) : ∀ (n : Nat) (st aw : Bool) (a b : Term),
    match3K L σ n st aw a b = match3 L σ n st aw a b
  | 0, _, _, _, _ => by rw [match3K, match3]
  | n+1, st, aw, a, b => by
    rw [match3K, match3]
    simp only [loop_eq L σ n st aw _ (match3K_eq L σ n st aw)]
    rfl

theorem match3K_funext (L : Lang) : match3 L = match3K L := by
  funext σ n st aw a b; exact (match3K_eq L σ n st aw a b).symm

/-- `occurs` over `match3K` -/
def occursK (L : Lang) (σ : Store) : Nat → Term → Term → Bool
  | 0, _, _ => false
  | n+1, a, b =>
    let a' := followT σ a
    let b' := followT σ b
    match a', b' with
    | .var av, .var bv => av == bv
    | _, _ =>
      match3K L σ (matchFuel σ) false false a' b' == some true ||
        (match a' with
         | .app _ args => args.any (fun t => occursK L σ n t b')
         | .var _ => false)

theorem occursK_eq (L : Lang) (σ : Store) : ∀ (n : Nat) (a b : Term), occursK L σ n a b = occurs L σ n a b
  | 0, _, _ => by rw [occursK, occurs]
  | n+1, a, b => by
    rw [occursK, occurs]
    simp only [match3K_eq, occursK_eq L σ n]
    rfl

theorem occursK_funext (L : Lang) : occurs L = occursK L := by
  funext σ n a b; exact (occursK_eq L σ n a b).symm

end Tfv.C18P
