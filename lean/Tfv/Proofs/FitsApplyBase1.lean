import Tfv.Proofs.FitsApply4
import Tfv.Proofs.BoundsChain
/-!
# C06 end to end, nullary argument, part 1: the strict declared order and the filter of `fulfill` on a lower bound

* irreflexivity / antisymmetry of the strict declared order on base types under `WF L`, comparability of the ancestors of
  one base type;
* `sub` of a base type against a concrete type is `opSub` of the heads;
* the filter of `fulfill` when the reference is a variable with a lower bound: it keeps exactly the alternatives above the bound.
-/
namespace Tfv.C06B
open Tfv Tfv.C03P Tfv.C03C Tfv.C16P Tfv.C17E Tfv.C03R Tfv.C06A Tfv.C05P

/-! ## the strict declared order on base types -/

/-- the strict declared order is irreflexive (except on `Top`, `Bottom`, where `opSub` is `true` by its first clauses) -/
theorem opSub_strict_irrefl {L : Lang} (wf : WF L) {a : Nat} (hb : a ≠ BOT) (ht : a ≠ TOP) :
    opSub L a a true = false := by
  cases h : opSub L a a true with
  | false => rfl
  | true =>
    rcases (opSub_strict_iff wf a a).mp h with h | h | ⟨_, h⟩
    · exact absurd h hb
    · exact absurd h ht
    · exact absurd rfl h

/-- antisymmetry: `a ≤ b` excludes `b < a` (`a` not `Bottom`, `b` not `Top`) -/
theorem opSub_strict_antisymm {L : Lang} (wf : WF L) {a b : Nat} (h : opSub L a b = true) (ha : a ≠ BOT) (hb : b ≠ TOP) :
    opSub L b a true = false := by
  have hanc := anc_of_opSub wf h ha hb
  cases h' : opSub L b a true with
  | false => rfl
  | true =>
    rcases (opSub_strict_iff wf b a).mp h' with e | e | ⟨e, hne⟩
    · exact absurd (anc_bot_right wf hanc e) ha
    · rw [e] at hanc; exact absurd (anc_top_left wf hanc) hb
    · exact absurd (anc_antisymm wf e hanc) hne

/-- what is above a base type is a base type (or `Top`) -/
theorem nullary_of_opSub {L : Lang} (wf : WF L) {a b : Nat} (h : opSub L a b = true) (ha : a ≠ BOT) (hb : b ≠ TOP)
    (h0 : arityOf L a = 0) : arityOf L b = 0 := by
  rcases anc_nullary wf (anc_of_opSub wf h ha hb) with e | ⟨_, e⟩
  · rw [← e]; exact h0
  · exact e

theorem not_opSub_bot {L : Lang} (wf : WF L) {a : Nat} (ha : a ≠ BOT) : opSub L a BOT = false := by
  cases h : opSub L a BOT with
  | false => rfl
  | true =>
    rcases (opSub_iff wf a BOT).mp h with e | e | e
    · exact absurd e ha
    · cases e
    · exact absurd (anc_bot_right wf e rfl) ha

/-- the ancestors of one base type form a chain -/
theorem anc_comparable {L : Lang} {a b c : Nat} (h1 : Anc L a b) (h2 : Anc L a c) : Anc L b c ∨ Anc L c b := by
  induction h1 with
  | refl _ => exact Or.inl h2
  | @step x p y hp h' ih =>
    cases h2 with
    | refl _ => exact Or.inr (Anc.step hp h')
    | @step _ q _ hq h'' =>
      rw [hp] at hq
      cases hq
      exact ih h''

/-- two base types above the same base type (not `Bottom`) are comparable -/
theorem opSub_comparable {L : Lang} (wf : WF L) {a b c : Nat} (ha : a ≠ BOT) (h1 : opSub L a b = true)
    (h2 : opSub L a c = true) : opSub L b c = true ∨ opSub L c b = true := by
  by_cases hb : b = TOP
  · exact Or.inr ((opSub_iff wf c b).mpr (Or.inr (Or.inl hb)))
  by_cases hc : c = TOP
  · exact Or.inl ((opSub_iff wf b c).mpr (Or.inr (Or.inl hc)))
  rcases anc_comparable (anc_of_opSub wf h1 ha hb) (anc_of_opSub wf h2 ha hc) with h | h
  · exact Or.inl ((opSub_iff wf b c).mpr (Or.inr (Or.inr h)))
  · exact Or.inr ((opSub_iff wf c b).mpr (Or.inr (Or.inr h)))

/-! ## `sub` of a base type against a concrete type -/

/-- the head operator of a concrete type -/
def hd : Ty → Nat
  | .app o _ => o

theorem sub_base_eq (L : Lang) (ao : Nat) (h0 : arityOf L ao = 0) (t : Ty) :
    sub L (.app ao []) t = opSub L ao (hd t) := by
  cases t with
  | app bo bs =>
    unfold sub
    rw [matchC]
    simp only [hd, if_true, Bool.true_and, h0, beq_self_eq_true]
    unfold opSub
    cases h1 : (ao == BOT) <;> cases h2 : (bo == TOP) <;> cases h3 : (ao == bo) <;> simp

/-- the test the filter of `fulfill` makes on an alternative when the reference has the lower bound `ao` -/
def aboveB (L : Lang) (ao : Nat) (t : Ty) : Bool :=
  hd t == TOP || (arityOf L (hd t) == 0 && opSub L ao (hd t))

theorem aboveB_eq_sub {L : Lang} (wf : WF L) {ao : Nat} (h0 : arityOf L ao = 0) (hb : ao ≠ BOT) (t : Ty) :
    aboveB L ao t = sub L (.app ao []) t := by
  rw [sub_base_eq L ao h0, aboveB]
  cases h1 : (hd t == TOP)
  · have hne : hd t ≠ TOP := by simpa using h1
    cases h2 : opSub L ao (hd t)
    · simp
    · simp [nullary_of_opSub wf h2 hb hne h0]
  · have e : hd t = TOP := by simpa using h1
    rw [e]
    simp [opSub]

/-! ## the filter on a variable with a lower bound -/

theorem match3_var_lower (L : Lang) (σ : Store) (n v ao bo : Nat) (bs : List Term)
    (hbd : (getVar σ v).bound = none) (hl : (getVar σ v).lower = some ao) (hu : (getVar σ v).upper = none)
    (hw : (getVar σ v).wildcard = false) :
    (match3 L σ (n+1) true true (.var v) (.app bo bs) != some false) =
      (bo == TOP || (arityOf L bo == 0 && opSub L ao bo)) := by
  rw [match3]
  simp only [Tfv.followT_app, C16P.followT_unbound hbd, hl, hu, hw]
  cases h1 : (bo == TOP) <;> cases h2 : (arityOf L bo == 0) <;> cases h3 : opSub L ao bo <;> simp_all

theorem filter_var_lower (L : Lang) (σ : Store) (n v ao : Nat)
    (hbd : (getVar σ v).bound = none) (hl : (getVar σ v).lower = some ao) (hu : (getVar σ v).upper = none)
    (hw : (getVar σ v).wildcard = false) : ∀ ts : List Ty,
    (Ty.toTermL ts).filter (fun t => match3 L σ (n+1) true true (.var v) t != some false) =
      Ty.toTermL (ts.filter (aboveB L ao))
  | [] => by rw [Ty.toTermL]; rfl
  | .app bo bs :: ts => by
    rw [Tfv.toTermL_cons, List.filter_cons, List.filter_cons, filter_var_lower L σ n v ao hbd hl hu hw ts,
      Tfv.toTerm_app, match3_var_lower L σ n v ao bo _ hbd hl hu hw]
    have e : aboveB L ao (.app bo bs) = (bo == TOP || (arityOf L bo == 0 && opSub L ao bo)) := rfl
    rw [e]
    cases (bo == TOP || (arityOf L bo == 0 && opSub L ao bo))
    · rfl
    · simp only [if_true]; rw [Tfv.toTermL_cons, Tfv.toTerm_app]

end Tfv.C06B
