"""Writes MANIFEST.json from the table below (kept valid at all times)."""
import json, os
HERE = os.path.dirname(os.path.dirname(os.path.abspath(__file__)))

NOTE = ("Trusted base: Lean 4.33 kernel; axioms per theorem audited on every run with #print axioms (subset of propext, "
        "Classical.choice, Quot.sound; no native_decide/bv_decide/sorry); gen_constants.py translator; correspondence harness "
        "(generators, adapters, canonicalisation) tying the hand-written model to /repo's current source; independent Python oracle per property.")

CLAIMED = {
 "C01": dict(text="Full: Lean theorems C01_decides/refl/trans/antisymm/strict/opSub prove for every well-formed language and all concrete types "
        "(no bound) that the model of is_subtype is exactly the declared order; the model is tied to type.py by differential testing on generated "
        "languages and related type pairs, plus an independent oracle of the declared order and order axioms on the implementation.",
        technique="Lean 4 proof (mutual structural induction over the nested type) + model/implementation correspondence check",
        ref="6/C01"),
}

NOT_YET = {
}

ALL = [f"C{i:02d}" for i in range(1, 21)]


def main():
    checks = []
    for pid in ALL:
        if pid not in CLAIMED:
            continue
        c = CLAIMED[pid]
        checks.append({
            "property_id": pid,
            "quick_cmd": f"./vcheck {pid} --tier quick",
            "thorough_cmd": f"./vcheck {pid} --tier thorough",
            "evidence_file": f"evidence/{pid}.json",
            "replay_cmd_template": f"./vcheck {pid} --replay {{path}}",
            "engine": "tfv",
            "level_claimed": {"category": "proof", "text": c["text"], "design_ref": "DESIGN.md section " + c["ref"]},
            "level_note": c.get("note", NOTE),
            "technique": c["technique"],
        })
    na = [{"property_id": pid, "reason": NOT_YET.get(pid, "check not built yet in this snapshot; the technique applies (see DESIGN.md section 6) and the property will be claimed once its model, theorems and correspondence are registered")}
          for pid in ALL if pid not in CLAIMED]
    m = {
        "version": 1,
        "setup_cmd": "./setup.sh",
        "hooks": {
            "guard": "TRANSFORGE_VERIF",
            "enable": "environment variable TRANSFORGE_VERIF=1 (set by ./vcheck); pure Python, no build step",
            "baseline_off_cmd": "cd /repo && env -u TRANSFORGE_VERIF /venv/bin/python -m pytest -ra -q -p no:cacheprovider --timeout=900 --continue-on-collection-errors",
            "source_commits": HOOK_COMMITS,
            "add_only": True,
        },
        "engines": [{"name": "tfv", "path": "lean/ + harness/", "serves_properties": sorted(CLAIMED),
            "kind_free_text": "Lean 4 model + theorems (lean/Tfv), compiled line-protocol driver (tfv-driver), Python correspondence harness and oracles (harness/)"}],
        "checks": checks,
        "not_applicable": na,
        "notes": "All checks: ./vcheck <id> --tier quick|thorough; honours VERIF_SEED, VERIF_TIER, VERIF_REPO. known_findings.json lists fixed/known defects.",
    }
    with open(os.path.join(HERE, "MANIFEST.json"), "w") as f:
        json.dump(m, f, indent=1)


HOOK_COMMITS: list = []

if __name__ == "__main__":
    main()
