import Tfv.Proofs.FitsApplyBase2
/-!
# C06 end to end, nullary argument, part 3: `fix` on the one-variable store with bounds, as a pure function

After the application `x` has the lower bound `ao` (the argument) and possibly the upper bound `bo` (the alternative).
`fix` walks the result type; the FIRST occurrence of `x` it meets decides: in a covariant position `x := ao`, in a
contravariant position `x := bo` (nothing happens there if there is no upper bound). `fixS` computes that.
-/
namespace Tfv.C06B
open Tfv Tfv.C03P Tfv.C03C Tfv.C16P Tfv.C17E Tfv.C03R Tfv.C06A Tfv.C05P

/-- the record of `x`: lower bound `ao`, upper bound `up`, bound to the base type `s` (if any) -/
def recS (ao : Nat) (up : Option Nat) (s : Option Nat) : VarInfo :=
  { bound := s.map (fun b => Term.app b []), lower := some ao, upper := up, cset := 0 }

/-- what one visit of `fix` does to the state of `x` -/
def stepV (ao : Nat) (up : Option Nat) (pl : Bool) : Option Nat → Option Nat
  | some b => some b
  | none => if pl then some ao else up

mutual
/-- `fix` on the state of `x` (`none`: unbound, `some b`: bound to the base type `b`) -/
def fixS (L : Lang) (ao : Nat) (up : Option Nat) : Bool → Term → Option Nat → Option Nat
  | pl, .var v, s => if v == 0 then stepV ao up pl s else s
  | pl, .app o args, s => fixSL L ao up pl (varianceOf L o) args s
def fixSL (L : Lang) (ao : Nat) (up : Option Nat) : Bool → List Bool → List Term → Option Nat → Option Nat
  | pl, v :: vs, t :: ts, s => fixSL L ao up pl vs ts (fixS L ao up (if v then pl else !pl) t s)
  | _, _, _, s => s
end

/-- the side conditions under which `bind` to a bound succeeds -/
structure OKB (L : Lang) (ao : Nat) (up : Option Nat) : Prop where
  a0 : arityOf L ao = 0
  irr : opSub L ao ao true = false
  up0 : ∀ bo, up = some bo → arityOf L bo = 0
  upA : ∀ bo, up = some bo → opSub L bo ao true = false
  upI : ∀ bo, up = some bo → opSub L bo bo true = false

@[simp] theorem getVar_σX_succ (i : VarInfo) (cs : List Nat) (c : Constr) (v : Nat) : getVar (σX i cs c) (v+1) = {} := rfl

theorem followT_recS_some (ao : Nat) (up : Option Nat) (b : Nat) (cs : List Nat) (c : Constr) :
    followT (σX (recS ao up (some b)) cs c) (.var 0) = .app b [] := by
  have h : (getVar (σX (recS ao up (some b)) cs c) 0).bound = some (Ty.app b []).toTerm := by
    rw [Tfv.toTerm_app, Ty.toTermL]; rfl
  rw [followT_bound_toTerm h, Tfv.toTerm_app, Ty.toTermL]

theorem bind_recS (L : Lang) (m ao b : Nat) (up : Option Nat) (c : Constr) (h0 : arityOf L b = 0)
    (h1 : opSub L b ao true = false) (h2 : ∀ bo, up = some bo → opSub L bo b true = false) :
    bind L (m+3) (σX (recS ao up none) [] c) 0 (.app b []) = .ok (σX (recS ao up (some b)) [] c) := by
  rw [bind]
  simp only [getVar_σX, recS, Option.map_none, Option.isSome_none, Bool.false_eq_true, if_false, setVar_σX, h0,
    beq_self_eq_true, if_true, Option.any_some, h1]
  have e : Option.any (fun u => opSub L u b true) up = false := by
    cases up with
    | none => rfl
    | some bo => exact h2 bo rfl
  refine Eq.trans (if_neg (by rw [e]; decide)) ?_
  exact checkConstraints_empty L m _ rfl c

theorem fix_var0 (L : Lang) (m ao : Nat) (up : Option Nat) (c : Constr) (ok : OKB L ao up) (pl : Bool) (s : Option Nat) :
    fix L (m+5) (σX (recS ao up s) [] c) (.var 0) pl =
      .ok (σX (recS ao up (stepV ao up pl s)) [] c, followT (σX (recS ao up (stepV ao up pl s)) [] c) (.var 0)) := by
  cases s with
  | some b =>
    rw [fix, followT_recS_some]
    simp only []
    rw [fixList_nil_right]
    simp only [stepV, followT_recS_some]
  | none =>
    rw [fix, C16P.followT_unbound rfl]
    simp only [getVar_σX]
    cases pl with
    | true =>
      have e : (recS ao up none).lower = some ao := rfl
      simp only [e, Option.isSome_some, Bool.and_self, if_true, stepV]
      rw [bind_recS L (m+1) ao ao up c ok.a0 ok.irr ok.upA]
    | false =>
      have e : (recS ao up none).upper = up := rfl
      simp only [Bool.false_and, Bool.false_eq_true, if_false, Bool.not_false, Bool.true_and, e, stepV]
      cases up with
      | none => rfl
      | some bo =>
        simp only [Option.isSome_some, if_true]
        rw [bind_recS L (m+1) ao bo (some bo) c (ok.up0 bo rfl) (ok.upA bo rfl)
          (fun b' e' => by cases e'; exact ok.upI bo rfl)]

theorem fix_var_succ (L : Lang) (m : Nat) (i : VarInfo) (c : Constr) (v : Nat) (pl : Bool) :
    fix L (m+1) (σX i [] c) (.var (v+1)) pl = .ok (σX i [] c, .var (v+1)) := by
  rw [fix, C16P.followT_unbound rfl]
  simp only [getVar_σX_succ]
  have e : followT (σX i [] c) (Term.var (v + 1)) = Term.var (v + 1) := C16P.followT_unbound rfl
  simp [e]

theorem fix_fixList_S (L : Lang) (ao : Nat) (up : Option Nat) (c : Constr) (ok : OKB L ao up) : ∀ (n : Nat),
    (∀ (t : Term) pl s, 2 * tsz t + 3 ≤ n →
      fix L n (σX (recS ao up s) [] c) t pl =
        .ok (σX (recS ao up (fixS L ao up pl t s)) [] c, resTerm (σX (recS ao up (fixS L ao up pl t s)) [] c) t)) ∧
    (∀ vs (ts : List Term) pl s, 2 * tszL ts + 4 ≤ n →
      fixList L n (σX (recS ao up s) [] c) vs ts pl = .ok (σX (recS ao up (fixSL L ao up pl vs ts s)) [] c))
  | 0 => ⟨fun _ _ _ h => by omega, fun _ _ _ _ h => by omega⟩
  | n+1 => by
    obtain ⟨ih1, ih2⟩ := fix_fixList_S L ao up c ok n
    refine ⟨?_, ?_⟩
    · intro t pl s h
      cases t with
      | var v =>
        rw [tsz] at h
        obtain ⟨m, rfl⟩ : ∃ m, n = m + 4 := ⟨n - 4, by omega⟩
        cases v with
        | zero =>
          rw [fix_var0 L m ao up c ok pl s, fixS]
          rfl
        | succ v =>
          rw [fix_var_succ, fixS]
          have e : (v + 1 == 0) = false := rfl
          simp only [e, Bool.false_eq_true, if_false, resTerm]
          rw [C16P.followT_unbound rfl]
      | app o args =>
        rw [tsz] at h
        rw [fix, Tfv.followT_app]
        simp only []
        rw [ih2 _ args pl s (by omega), fixS]
        rfl
    · intro vs ts pl s h
      match vs, ts with
      | [], ts => rw [fixList_nil_left, fixSL]; intro _ _ _ _ h; cases h
      | _ :: _, [] => rw [fixList_nil_right, fixSL]; intro _ _ _ _ _ h; cases h
      | v :: vs, t :: ts =>
        rw [tszL] at h
        have := tsz_pos t
        rw [fixList_cons, ih1 t _ s (by omega)]
        simp only []
        rw [ih2 vs ts pl _ (by omega), fixSL]

theorem fix_S {L : Lang} {ao : Nat} {up : Option Nat} (ok : OKB L ao up) (c : Constr) (n : Nat) (t : Term) (pl : Bool)
    (s : Option Nat) (h : 2 * tsz t + 3 ≤ n) :
    fix L n (σX (recS ao up s) [] c) t pl =
      .ok (σX (recS ao up (fixS L ao up pl t s)) [] c, resTerm (σX (recS ao up (fixS L ao up pl t s)) [] c) t) :=
  (fix_fixList_S L ao up c ok n).1 t pl s h

end Tfv.C06B
