import Tfv.Proofs.LambdaTyped
/-!
# strong normalisation of typed terms, part 1: reducibility candidates

`SN t`: every beta reduction sequence from `t` is finite (accessibility for the converse of `Red`).
`SType`: the arrow skeleton of a type (`Bottom`, arrow, anything else is an atom — `Top` included).
`RedS`: Tait's reducibility predicate by recursion on the skeleton. At `Bottom` (which is below every
function type, so a term of type `Bottom` may be applied to anything) the predicate is "strongly normalising
and never reduces to an anonymous function"; such terms stay so under application to SN arguments.
-/
namespace Tfv.C15P
open Tfv Tfv.LamSpec Tfv.LamTyped

/-- strongly normalising: accessible for the converse of one-step beta reduction -/
def SN (t : LTerm) : Prop := Acc (fun a b => Red b a) t

theorem SN.intro {t : LTerm} (h : ∀ t', Red t t' → SN t') : SN t := Acc.intro t h

theorem SN.red {t t' : LTerm} (h : SN t) (hr : Red t t') : SN t' := Acc.inv h hr

theorem SN.star {t t' : LTerm} (hr : RedStar t t') : SN t → SN t' := by
  induction hr with
  | refl => exact id
  | step h _ ih => exact fun hs => ih (hs.red h)

/-- if `f` maps steps to steps then `SN (f t)` gives `SN t` -/
theorem SN.of_map (f : LTerm → LTerm) (hf : ∀ a b, Red a b → Red (f a) (f b)) :
    ∀ {s : LTerm}, SN s → ∀ t, s = f t → SN t := by
  intro s hs
  induction hs with
  | intro s _ ih =>
    intro t e; subst e
    exact SN.intro (fun t' hr => ih (f t') (hf _ _ hr) t' rfl)

theorem SN.appL {f x : LTerm} (h : SN (.app f x)) : SN f :=
  SN.of_map (fun f => .app f x) (fun _ _ hr => Red.appL x hr) h f rfl

theorem SN.lam_body {b : LTerm} (h : SN (.lam b)) : SN b :=
  SN.of_map LTerm.lam (fun _ _ hr => Red.lam hr) h b rfl

theorem SN.lam {b : LTerm} (h : SN b) : SN (.lam b) := by
  induction h with
  | intro b _ ih =>
    refine SN.intro ?_
    intro t' hr
    cases hr with
    | lam hb => exact ih _ hb

/-! ## skeletons -/

inductive SType where
  | atom
  | bot
  | arrow (a b : SType)

def SType.mk : Nat → List SType → SType
  | o, [] => if o = BOT then .bot else .atom
  | o, [a, b] => if o = FUN then .arrow a b else .atom
  | _, _ => .atom

mutual
def sk : Ty → SType
  | .app o as => SType.mk o (skL as)
def skL : List Ty → List SType
  | [] => []
  | t :: ts => sk t :: skL ts
end

def SType.size : SType → Nat
  | .arrow a b => a.size + b.size + 1
  | _ => 0

theorem sk_fn (A B : Ty) : sk (fn A B) = .arrow (sk A) (sk B) := by
  simp [fn, sk, skL, SType.mk]

theorem sk_bot : sk (.app BOT []) = .bot := by
  simp [sk, skL, SType.mk]

theorem sk_nil (o : Nat) : sk (.app o []) = if o = BOT then .bot else .atom := by
  simp [sk, skL, SType.mk]

theorem skL_length (as : List Ty) : (skL as).length = as.length := by
  induction as with
  | nil => simp [skL]
  | cons a as ih => simp [skL, ih]

/-! ## reducibility -/

/-- strongly normalising and no reduct is an anonymous function -/
def HN (t : LTerm) : Prop := SN t ∧ ∀ t', RedStar t t' → t'.isLam = false

def RedS : SType → LTerm → Prop
  | .atom, t => SN t
  | .bot, t => HN t
  | .arrow a b, t => ∀ u, RedS a u → RedS b (.app t u)

theorem HN.red {t t' : LTerm} (h : HN t) (hr : Red t t') : HN t' :=
  ⟨h.1.red hr, fun t'' hs => h.2 t'' (.step hr hs)⟩

theorem HN.of_neutral {t : LTerm} (hn : t.isLam = false) (h : ∀ t', Red t t' → HN t') : HN t := by
  refine ⟨SN.intro (fun t' hr => (h t' hr).1), ?_⟩
  intro t' hs
  cases hs with
  | refl => exact hn
  | step hr hs => exact (h _ hr).2 _ hs

/-- an application whose head never becomes an anonymous function, with an SN argument, is again such a term -/
theorem HN.app {t : LTerm} (ht : HN t) : ∀ {u : LTerm}, SN u → HN (.app t u) := by
  obtain ⟨hsn, hl⟩ := ht
  induction hsn with
  | intro t _ iht =>
    intro u hu
    induction hu with
    | intro u hu' ihu =>
      refine HN.of_neutral rfl ?_
      intro r hr
      cases hr with
      | beta b x => have := hl _ (.refl _); simp [LTerm.isLam] at this
      | appL x hf => exact iht _ hf (fun t'' hs => hl t'' (.step hf hs)) (Acc.intro u hu')
      | appR f hx => exact ihu _ hx

/-- CR1, CR2, CR3 together, by induction on the skeleton -/
theorem cr_all : ∀ (s : SType),
    (∀ t, RedS s t → SN t) ∧
    (∀ t t', RedS s t → Red t t' → RedS s t') ∧
    (∀ t, t.isLam = false → (∀ t', Red t t' → RedS s t') → RedS s t)
  | .atom => ⟨fun _ h => h, fun _ _ h hr => h.red hr, fun _ _ h => SN.intro h⟩
  | .bot => ⟨fun _ h => h.1, fun _ _ h hr => h.red hr, fun _ hn h => HN.of_neutral hn h⟩
  | .arrow a b => by
    obtain ⟨a1, a2, a3⟩ := cr_all a
    obtain ⟨b1, b2, b3⟩ := cr_all b
    refine ⟨?_, ?_, ?_⟩
    · intro t h
      have hv : RedS a (.var 0) := a3 _ rfl (fun t' hr => by cases hr)
      exact (b1 _ (h _ hv)).appL
    · intro t t' h hr u hu
      exact b2 _ _ (h u hu) (Red.appL u hr)
    · intro t hn h u hu
      have hsu := a1 u hu
      induction hsu with
      | intro u _ ihu =>
        refine b3 _ rfl ?_
        intro r hr
        cases hr with
        | beta b x => simp [LTerm.isLam] at hn
        | appL x hf => exact h _ hf u hu
        | appR f hx => exact ihu _ hx (a2 _ _ hu hx)

theorem cr1 {s : SType} {t : LTerm} (h : RedS s t) : SN t := (cr_all s).1 t h
theorem cr2 {s : SType} {t t' : LTerm} (h : RedS s t) (hr : Red t t') : RedS s t' := (cr_all s).2.1 t t' h hr
theorem cr3 {s : SType} {t : LTerm} (hn : t.isLam = false) (h : ∀ t', Red t t' → RedS s t') : RedS s t :=
  (cr_all s).2.2 t hn h

theorem redS_var (s : SType) (i : Nat) : RedS s (.var i) := cr3 rfl (fun t' hr => by cases hr)
theorem redS_op (s : SType) (n : String) : RedS s (.op n) := cr3 rfl (fun t' hr => by cases hr)
theorem redS_src (s : SType) (k : Nat) : RedS s (.src k) := cr3 rfl (fun t' hr => by cases hr)

/-- `Bottom` is below every type: its candidate is contained in every candidate -/
theorem hn_redS : ∀ (s : SType) {t : LTerm}, HN t → RedS s t
  | .atom, _, h => h.1
  | .bot, _, h => h
  | .arrow _ b, _, h => fun _ hu => hn_redS b (h.app (cr1 hu))

end Tfv.C15P
