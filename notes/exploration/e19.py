import sys, re, warnings
warnings.filterwarnings('ignore')
sys.path.insert(0,'/root/scratch/rc')
from transforge.type import *
from transforge.type import _
from transforge.expr import *
A=TypeOperator('A'); F=TypeOperator('F',params=1); G=TypeOperator('G',params=2)
k=Operator(type=lambda x,y: x**y**G(x,y) [x << [A, F(_)], y <= A],name='k')
print(str(k.type))
