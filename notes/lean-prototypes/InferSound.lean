import Proto.Infer
namespace P

/-- facts about the base order that come from C01 (assumed here, proved there) -/
structure OrderFacts (L : Lang) : Prop where
  trans : ∀ a b c, sub L true a b = true → sub L true b c = true → sub L true a c = true
  opSub_sub : ∀ a b, opSub L a b = true → sub L true (base a) (base b) = true
  strict_sub : ∀ a b, opSub L a b true = true → sub L true (base a) (base b) = true
  top : ∀ t, sub L true t (base TOP) = true

theorem Sat.of_setVar_lower {L ρ σ v i new} (hv : v < σ.vars.length)
    (hi : i = getVar σ v) (h : Sat L ρ (setVar σ v { i with lower := some new })) 
    (hold : ∀ l, i.lower = some l → sub L true (base l) (ρ v) = true) : Sat L ρ σ := by
  constructor
  · intro w t hw
    by_cases hwv : w = v
    · subst hwv
      apply h.bound w t
      rw [getVar_setVar_eq hv]; simpa [hi] using hw
    · apply h.bound w t; rwa [getVar_setVar_ne hwv]
  · intro w l hw
    by_cases hwv : w = v
    · subst hwv; exact hold l (by simpa [hi] using hw)
    · apply h.lower w l; rwa [getVar_setVar_ne hwv]
  · intro w u hw
    by_cases hwv : w = v
    · subst hwv
      apply h.upper w u
      rw [getVar_setVar_eq hv]; simpa [hi] using hw
    · apply h.upper w u; rwa [getVar_setVar_ne hwv]

theorem Sat.of_bind {L ρ σ v i t} (hv : v < σ.vars.length)
    (hi : i = getVar σ v) (h : Sat L ρ (setVar σ v { i with bound := some t })) (hb : i.bound = none) :
    Sat L ρ σ ∧ ρ v = den ρ t := by
  refine ⟨⟨?_, ?_, ?_⟩, ?_⟩
  · intro w t' hw
    by_cases hwv : w = v
    · subst hwv; rw [← hi, hb] at hw; cases hw
    · apply h.bound w t'; rwa [getVar_setVar_ne hwv]
  · intro w l hw
    by_cases hwv : w = v
    · subst hwv; apply h.lower w l; rw [getVar_setVar_eq hv]; simpa [hi] using hw
    · apply h.lower w l; rwa [getVar_setVar_ne hwv]
  · intro w u hw
    by_cases hwv : w = v
    · subst hwv; apply h.upper w u; rw [getVar_setVar_eq hv]; simpa [hi] using hw
    · apply h.upper w u; rwa [getVar_setVar_ne hwv]
  · apply h.bound v t; rw [getVar_setVar_eq hv]

theorem bindOp_sound {L σ σ' v o args} (hv : v < σ.vars.length)
    (h : bindOp L σ v o args = .ok σ') : ∀ ρ, Sat L ρ σ' → Sat L ρ σ ∧ ρ v = den ρ (.app o args) := by
  intro ρ hs
  unfold bindOp at h
  simp only at h
  split at h
  · cases h
  · next hb =>
    have hb' : (getVar σ v).bound = none := by simpa using hb
    split at h
    · split at h
      · cases h
      · split at h
        · cases h
        · cases h; exact Sat.of_bind hv rfl hs hb'
    · split at h
      · cases h
      · cases h; exact Sat.of_bind hv rfl hs hb'

#print axioms bindOp_sound
end P
