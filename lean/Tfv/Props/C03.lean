import Tfv.Model
import Tfv.Spec.Sat
import Tfv.Spec.SatChain
import Tfv.Spec.SatWitness
import Tfv.Proofs.InferMain
import Tfv.Proofs.InferCounter
import Tfv.Proofs.InferExamples
import Tfv.Proofs.InferInstantiate
import Tfv.Proofs.InferLink
import Tfv.Proofs.InferPlain
import Tfv.Spec.SatPlain
/-!
# C03 — applying a schematic function type is sound

Whenever applying a schematic function type to arguments succeeds, its variables
can be replaced by concrete types — each resolved variable by the type it was
resolved to, each unresolved one by any type within the bounds it reports — so
that every argument is a subtype of the corresponding parameter and the returned
type is the instantiated result; a variable bounded by a base type is never
resolved to a compound type.

Scope: the constraint-free engine (`NoConstraints σ`, `skip_basic = skip_wildcard = False`),
which is what `Type.apply` runs. Statements only; the proofs are in `Tfv/Proofs/`
(files `Infer*.lean`, namespace `Tfv.C03P`).
`Sat L ρ σ` (Spec/Sat.lean) says the valuation `ρ` is a solution of the store `σ`.
-/
namespace Tfv.C03
open Tfv Tfv.C03P

/-- Subtype unification is sound: the resulting store is well formed and still
constraint free, no variable is lost, every solution of the resulting store is a
solution of the original one ("solutions only shrink") and makes `a` a subtype of `b`.
PARTIAL: needs `st = true` (`subtype=True`, the only mode `Type.apply` uses);
for `st = false` the statement is false of the model, see `C03_unify_plain_unsound_*`. -/
theorem C03_unify_sound_partial (L : Lang) (wf : WF L) (n : Nat) (σ σ' : Store) (a b : Term) (st : Bool)
    (hst : st = true) (ok : OkStore L σ) (nc : NoConstraints σ)
    (ha : okTerm L σ a = true) (hb : okTerm L σ b = true)
    (h : unify L n σ a b st false false = .ok σ') :
    OkStore L σ' ∧ NoConstraints σ' ∧ σ.vars.length ≤ σ'.vars.length ∧
    (∀ t, okTerm L σ t = true → okTerm L σ' t = true) ∧
    ∀ ρ, Sat L ρ σ' → Sat L ρ σ ∧ (if st then Sub L (den ρ a) (den ρ b) else den ρ a = den ρ b) :=
  unify_sound_partial wf hst ok nc ha hb h

example : OkStore exL σU ∧ NoConstraints σU ∧ okTerm exL σU (.var 0) = true ∧ okTerm exL σU (.var 1) = true ∧
    unify exL 10 σU (.var 0) (.var 1) true false false = .ok σU' ∧
    Sat exL (valOf [.app 6 [], .app 6 []]) σU' :=
  ⟨σU_ok, σU_nc, by decide, by decide, exU_run, satB_sound exL_wf (okStoreB_sound (by decide)) (by decide)⟩

/-- Finding: plain unification (`subtype=False`) accepts a variable with lower bound `A`
against the unrelated base type `C`; the resulting store has a solution that is not a
solution of the original store, so the soundness statement fails for `st = false`. -/
theorem C03_unify_plain_unsound_bound :
    ¬ (∀ (L : Lang) (n : Nat) (σ σ' : Store) (a b : Term), WF L → OkStore L σ → NoConstraints σ →
        okTerm L σ a = true → okTerm L σ b = true →
        unify L n σ a b false false false = .ok σ' →
        ∀ ρ, Sat L ρ σ' → Sat L ρ σ ∧ den ρ a = den ρ b) := unify_sound_fails_without_subtype

/-- Finding: plain unification (`subtype=False`) of `Bottom` with a base type `A` succeeds
although the two types differ (the `Bottom`/`Top` shortcut ignores the `subtype` flag). -/
theorem C03_unify_plain_unsound_bottom :
    ¬ (∀ (L : Lang) (n : Nat) (σ σ' : Store) (a b : Term), WF L → OkStore L σ → NoConstraints σ →
        okTerm L σ a = true → okTerm L σ b = true →
        unify L n σ a b false false false = .ok σ' →
        ∀ ρ, Sat L ρ σ' → den ρ a = den ρ b) := unify_eq_fails_on_bottom

/-- Plain unification (`subtype=False`) IS sound on the fragment without base-type bounds and
without `Bottom`/`Top` (`PlainStore σ`, `noBT a`, `noBT b`): the fragment is preserved, solutions
only shrink, and the two terms mean the same under every remaining solution.
PARTIAL: the two extra hypotheses exclude exactly the two findings above. -/
theorem C03_unify_plain_sound_partial (L : Lang) (wf : WF L) (n : Nat) (σ σ' : Store) (a b : Term)
    (ok : OkStore L σ) (nc : NoConstraints σ) (P : PlainStore σ)
    (ha : okTerm L σ a = true) (hb : okTerm L σ b = true) (hna : noBT a = true) (hnb : noBT b = true)
    (h : unify L n σ a b false false false = .ok σ') :
    OkStore L σ' ∧ NoConstraints σ' ∧ PlainStore σ' ∧ σ.vars.length ≤ σ'.vars.length ∧
    ∀ ρ, Sat L ρ σ' → Sat L ρ σ ∧ den ρ a = den ρ b :=
  unify_plain_sound_partial wf ok nc P ha hb hna hnb h

example : OkStore exL σP ∧ NoConstraints σP ∧ PlainStore σP ∧
    unify exL 10 σP (.app 7 [.var 0]) (.app 7 [.var 1]) false false false = .ok σP' ∧
    Sat exL (valOf [.app 5 [], .app 5 []]) σP' :=
  ⟨okStoreB_sound (by decide), noConstraintsB_sound (by decide), plainStoreB_sound (by decide),
   by with_unfolding_all rfl, satB_sound exL_wf (okStoreB_sound (by decide)) (by decide)⟩

/-- the two concrete runs behind the findings -/
example : unify cexL 5 cexσ (.var 0) (.app 6 []) false false false = .ok cexσ' ∧
    Sat cexL (valOf [.app 6 []]) cexσ' ∧ ¬ Sat cexL (valOf [.app 6 []]) cexσ :=
  ⟨cex_bound_run, cex_bound_sat, cex_bound_unsat⟩
example : unify cexL 5 {} (.app BOT []) (.app 5 []) false false false = .ok {} := cex_bot_run

/-- `fix` (resolve every unresolved variable of a term to its preferred bound) is sound:
solutions only shrink and the returned term means the same as the given one. -/
theorem C03_fix_sound (L : Lang) (wf : WF L) (n : Nat) (σ σ' : Store) (t t' : Term) (pl : Bool)
    (ok : OkStore L σ) (nc : NoConstraints σ) (ht : okTerm L σ t = true)
    (h : fix L n σ t pl = .ok (σ', t')) :
    OkStore L σ' ∧ NoConstraints σ' ∧ σ.vars.length ≤ σ'.vars.length ∧
    (∀ t, okTerm L σ t = true → okTerm L σ' t = true) ∧ okTerm L σ' t' = true ∧
    ∀ ρ, Sat L ρ σ' → Sat L ρ σ ∧ den ρ t' = den ρ t := fix_sound wf ok nc ht h

example : fix exL 10 σS2 (.var 0) true = .ok (σS3, .app 5 []) := by with_unfolding_all rfl

/-- Instantiating a schema without constraints (`TypeSchema.instance()`: fresh variables, then
`fix`) is sound: the store only grows by the schema's variables, solutions only shrink, and the
returned term means the same as the body over the fresh variables. -/
theorem C03_instantiate_sound (L : Lang) (wf : WF L) (n : Nat) (σ σ' : Store) (s : Schema) (f : Term)
    (ok : OkStore L σ) (nc : NoConstraints σ) (hc : s.constraints = [])
    (hbody : okTermN L (s.nvars + s.nwild) s.body = true)
    (h : instantiate L n σ s = .ok (σ', f)) :
    OkStore L σ' ∧ NoConstraints σ' ∧ σ.vars.length + s.nvars + s.nwild ≤ σ'.vars.length ∧
    (∀ t, okTerm L σ t = true → okTerm L σ' t = true) ∧ okTerm L σ' f = true ∧
    ∀ ρ, Sat L ρ σ' → Sat L ρ σ ∧ den ρ f = den ρ (s.body.shift σ.vars.length) :=
  instantiate_sound wf ok nc hc hbody h

example : OkStore exL {} ∧ NoConstraints {} ∧ exS.constraints = [] ∧
    okTermN exL (exS.nvars + exS.nwild) exS.body = true ∧ instantiate exL 10 {} exS = .ok (σS, exF) :=
  ⟨empty_ok exL, empty_nc, rfl, by decide, exS_run⟩

/-- `Type.apply` is sound: under every solution of the resulting store the function
type is `p ** r'` with the argument a subtype of `p` and `r'` the meaning of the returned
term (or the function type is `Top` and so is the result). -/
theorem C03_apply_sound (L : Lang) (wf : WF L) (n : Nat) (σ σ' : Store) (f x r : Term) (fixFlag : Bool)
    (ok : OkStore L σ) (nc : NoConstraints σ) (hf : okTerm L σ f = true) (hx : okTerm L σ x = true)
    (h : applyT L n σ f x fixFlag = .ok (σ', r)) :
    OkStore L σ' ∧ NoConstraints σ' ∧ σ.vars.length ≤ σ'.vars.length ∧
    (∀ t, okTerm L σ t = true → okTerm L σ' t = true) ∧ okTerm L σ' r = true ∧
    ∀ ρ, Sat L ρ σ' → Sat L ρ σ ∧
      ((∃ p, den ρ f = .app FUN [p, den ρ r] ∧ Sub L (den ρ x) p) ∨
       (den ρ f = .app TOP [] ∧ r = .app TOP [])) := apply_sound wf ok nc hf hx h

example : OkStore exL σS ∧ NoConstraints σS ∧ okTerm exL σS exF = true ∧
    applyT exL 10 σS exF (.app 7 [.app 6 []]) true = .ok (σS1, .app FUN [.var 0, .var 0]) ∧
    Sat exL (valOf [.app 5 []]) σS1 :=
  ⟨σS_ok, σS_nc, by decide, exB_step1, satB_sound exL_wf (okStoreB_sound (by decide)) (by decide)⟩

/-- A chain of applications `f.apply(x₁).apply(x₂)…` is sound: under every solution of the
final store, `f` means `p₁ ** p₂ ** … ** r'` with every argument a subtype of the
corresponding parameter and `r'` the meaning of the returned term. -/
theorem C03_apply_chain (L : Lang) (wf : WF L) (n : Nat) (fixFlag : Bool) (σ σ' : Store) (f r : Term)
    (xs : List Term) (ok : OkStore L σ) (nc : NoConstraints σ)
    (hf : okTerm L σ f = true) (hxs : okTermL L σ xs = true)
    (h : applyAll L n fixFlag σ f xs = .ok (σ', r)) :
    OkStore L σ' ∧ NoConstraints σ' ∧ σ.vars.length ≤ σ'.vars.length ∧
    (∀ t, okTerm L σ t = true → okTerm L σ' t = true) ∧ okTerm L σ' r = true ∧
    ∀ ρ, Sat L ρ σ' → Sat L ρ σ ∧ Accepts L (den ρ f) (denL ρ xs) (den ρ r) :=
  apply_chain wf ok nc hf hxs h

/-- `(F(x0) ** x0 ** x0).apply(F(B)).apply(A)` returns `A`, with `x0 := A` -/
example : okTerm exL σS exF = true ∧ okTermL exL σS [.app 7 [.app 6 []], .app 5 []] = true ∧
    applyAll exL 10 true σS exF [.app 7 [.app 6 []], .app 5 []] = .ok (σS3, .app 5 []) ∧
    Sat exL (valOf [.app 5 []]) σS3 :=
  ⟨by decide, by decide, exB_run, satB_sound exL_wf (okStoreB_sound (by decide)) (by decide)⟩

/-- In every store reached by a successful chain of applications, a variable that carries a
lower or an upper base-type bound is never bound to a compound type. -/
theorem C03_base_bound_never_compound (L : Lang) (wf : WF L) (n : Nat) (fixFlag : Bool) (σ σ' : Store)
    (f r : Term) (xs : List Term) (ok : OkStore L σ) (nc : NoConstraints σ)
    (hf : okTerm L σ f = true) (hxs : okTermL L σ xs = true)
    (h : applyAll L n fixFlag σ f xs = .ok (σ', r)) :
    ∀ v o args, (getVar σ' v).bound = some (.app o args) →
      ((getVar σ' v).lower.isSome = true ∨ (getVar σ' v).upper.isSome = true) → arityOf L o = 0 :=
  base_bound_never_compound wf ok nc hf hxs h

/-- … and the same after a successful subtype unification. -/
theorem C03_base_bound_never_compound_unify (L : Lang) (wf : WF L) (n : Nat) (σ σ' : Store) (a b : Term)
    (ok : OkStore L σ) (nc : NoConstraints σ) (ha : okTerm L σ a = true) (hb : okTerm L σ b = true)
    (h : unify L n σ a b true false false = .ok σ') :
    ∀ v o args, (getVar σ' v).bound = some (.app o args) →
      ((getVar σ' v).lower.isSome = true ∨ (getVar σ' v).upper.isSome = true) → arityOf L o = 0 :=
  base_bound_never_compound_unify wf ok nc ha hb h

/-- in the final store of the example `x0` has the lower bound `A` and is bound to the base type `A` -/
example : (getVar σS3 0).bound = some (.app 5 []) ∧ (getVar σS3 0).lower = some 5 ∧ arityOf exL 5 = 0 :=
  ⟨rfl, rfl, rfl⟩

/-- The solutions quantified over above exist: a well-formed store whose bindings are acyclic
has a solution extending any admissible choice `θ` for its unresolved variables (well-formed
types within the reported bounds). -/
theorem C03_witness_exists (L : Lang) (σ : Store) (ok : OkStore L σ) (hac : Acyclic σ)
    (θ : Val) (hθ : Choice L θ σ) :
    ∃ ρ, Sat L ρ σ ∧ ∀ v, (getVar σ v).bound = none → ρ v = θ v := witness_exists ok hac θ hθ

/-- An admissible choice always exists: the lower bound, else the upper bound, else `Unit`. -/
theorem C03_choice_exists (L : Lang) (wf : WF L) (σ : Store) (ok : OkStore L σ) :
    Choice L (defaultChoice σ) σ := choice_exists wf ok

/-- The executable test `acyclicB` (every variable expands through the bindings in finitely
many steps) implies acyclicity; the harness evaluates it on final stores. -/
theorem C03_acyclicB_sound (σ : Store) (h : acyclicB σ = true) : Acyclic σ := acyclicB_sound h

/-- the executable form of the store invariant implies the invariant -/
theorem C03_okStoreB_sound (L : Lang) (σ : Store) (h : okStoreB L σ = true) : OkStore L σ :=
  okStoreB_sound h

/-- the executable form of "no deferred constraints" -/
theorem C03_noConstraintsB_sound (σ : Store) (h : noConstraintsB σ = true) : NoConstraints σ :=
  noConstraintsB_sound h

example : acyclicB σS3 = true ∧ acyclicB σA' = true ∧ acyclicB σU' = true := ⟨by decide, by decide, by decide⟩
/-- a store with a bounded variable and a variable bound to `F(x0)`, with a solution -/
example : let σ : Store := { vars := [{ lower := some 6, upper := some 5 }, { bound := some (.app 7 [.var 0]) }] }
    okStoreB exL σ = true ∧ acyclicB σ = true ∧ satB exL [.app 6 [], .app 7 [.app 6 []]] σ = true :=
  ⟨by decide, by decide, by decide⟩
/-- a cyclic store is rejected by the test (and has no solution) -/
example : acyclicB { vars := [{ bound := some (.app 7 [.var 0]) }] } = false := by decide

/-- The property in one statement: after a successful chain of applications whose final store
is acyclic, every admissible choice for the unresolved variables extends to an instantiation
of all variables — resolved ones by what they were resolved to — under which every argument
is a subtype of the corresponding parameter and the result is the returned type. -/
theorem C03_apply_chain_instantiation (L : Lang) (wf : WF L) (n : Nat) (fixFlag : Bool) (σ σ' : Store)
    (f r : Term) (xs : List Term) (ok : OkStore L σ) (nc : NoConstraints σ)
    (hf : okTerm L σ f = true) (hxs : okTermL L σ xs = true)
    (h : applyAll L n fixFlag σ f xs = .ok (σ', r)) (hac : Acyclic σ')
    (θ : Val) (hθ : Choice L θ σ') :
    ∃ ρ, Sat L ρ σ' ∧ (∀ v, (getVar σ' v).bound = none → ρ v = θ v) ∧ Sat L ρ σ ∧
      Accepts L (den ρ f) (denL ρ xs) (den ρ r) :=
  apply_chain_instantiation wf ok nc hf hxs h hac θ hθ

example : ∃ ρ, Sat exL ρ σS3 ∧ Sat exL ρ σS ∧
    Accepts exL (den ρ exF) (denL ρ [.app 7 [.app 6 []], .app 5 []]) (den ρ (.app 5 [])) := by
  obtain ⟨ρ, h1, _, h2, h3⟩ := C03_apply_chain_instantiation exL exL_wf 10 true σS σS3 exF (.app 5 [])
    [.app 7 [.app 6 []], .app 5 []] σS_ok σS_nc (by decide) (by decide) exB_run
    (acyclicB_sound (by decide)) _ (choice_exists exL_wf (okStoreB_sound (by decide)))
  exact ⟨ρ, h1, h2, h3⟩

/-- Link to the concrete model (C02): on variable-free terms and with enough fuel (`Ty.need`, at most
twice the size of the type), `Type.apply` of the engine returns exactly what `applyC` returns — the
same result type or the same kind of error — and leaves the store untouched. -/
theorem C03_concrete_link (L : Lang) (σ : Store) (f x : Ty) (n : Nat) (fixFlag : Bool)
    (hx : Ty.need x ≤ n) (hf : Ty.need f ≤ n) :
    applyT L n σ f.toTerm x.toTerm fixFlag = liftA σ (applyC L f x) :=
  concrete_link L σ f x n fixFlag hx hf

/-- … in particular the engine succeeds on variable-free terms exactly when the concrete model does -/
theorem C03_concrete_link_iff (L : Lang) (σ : Store) (f x : Ty) (n : Nat) (fixFlag : Bool)
    (hx : Ty.need x ≤ n) (hf : Ty.need f ≤ n) :
    (∃ σ' r, applyT L n σ f.toTerm x.toTerm fixFlag = .ok (σ', r)) ↔ (∃ b, applyC L f x = .ok b) :=
  concrete_link_iff L σ f x n fixFlag hx hf

/-- the fuel bound in terms of the size of the type -/
theorem C03_need_le_size (t : Ty) : Ty.need t ≤ 2 * Ty.size t := need_le_size t

example : Ty.need (.app FUN [.app 7 [.app 5 []], .app 5 []]) = 6 ∧ Ty.need (.app 7 [.app 6 []]) = 4 ∧
    applyC exL (.app FUN [.app 7 [.app 5 []], .app 5 []]) (.app 7 [.app 6 []]) = .ok (.app 5 []) :=
  ⟨by decide, by decide, by rfl⟩

end Tfv.C03
