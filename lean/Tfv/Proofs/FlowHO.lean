import Tfv.Proofs.FlowWire
/-!
# C08 proofs, part 7: operations passed as arguments, one level
-/
namespace Tfv.C08P
open Tfv

theorem getElem_snoc_lt {α : Type} (l : List α) (b : α) (i : Nat) (h : i < l.length) (h' : i < (l ++ [b]).length) :
    (l ++ [b])[i]'h' = l[i] := List.getElem_append_left h

theorem getElem_snoc_eq {α : Type} (l : List α) (b : α) (h' : l.length < (l ++ [b]).length) :
    (l ++ [b])[l.length]'h' = b := by simp

/-- the whole-spine description, one argument at a time -/
theorem hofEdges_snoc (n : Nat) (args : List ArgInfo) (b : ArgInfo) (p : Nat × Nat) :
    hofEdges n (args ++ [b]) p ↔
      hofEdges n args p ∨ p = (n, b.node) ∨ (∃ l, b.lam = some l ∧ p = (b.node, l)) ∨
      (∃ a ∈ args, ∃ l, a.lam = some l ∧ p = (l, b.node)) ∨
      (∃ l, b.lam = some l ∧ ∃ a ∈ args, p = (l, a.node)) := by
  unfold hofEdges
  constructor
  · rintro (⟨a, ha, h⟩ | ⟨a, ha, l, hl, h⟩ | ⟨i, j, hi, hj, hij, l, hl, h⟩)
    · rw [List.mem_append, List.mem_singleton] at ha
      rcases ha with ha | rfl
      · exact Or.inl (Or.inl ⟨a, ha, h⟩)
      · exact Or.inr (Or.inl h)
    · rw [List.mem_append, List.mem_singleton] at ha
      rcases ha with ha | rfl
      · exact Or.inl (Or.inr (Or.inl ⟨a, ha, l, hl, h⟩))
      · exact Or.inr (Or.inr (Or.inl ⟨l, hl, h⟩))
    · have hlen : (args ++ [b]).length = args.length + 1 := by simp
      by_cases hi' : i < args.length
      · rw [getElem_snoc_lt args b i hi'] at hl
        by_cases hj' : j < args.length
        · rw [getElem_snoc_lt args b j hj'] at h
          exact Or.inl (Or.inr (Or.inr ⟨i, j, hi', hj', hij, l, hl, h⟩))
        · have : j = args.length := by omega
          subst this
          rw [getElem_snoc_eq] at h
          exact Or.inr (Or.inr (Or.inr (Or.inl ⟨args[i], List.getElem_mem hi', l, hl, h⟩)))
      · have : i = args.length := by omega
        subst this
        rw [getElem_snoc_eq] at hl
        have hj' : j < args.length := by omega
        rw [getElem_snoc_lt args b j hj'] at h
        exact Or.inr (Or.inr (Or.inr (Or.inr ⟨l, hl, args[j], List.getElem_mem hj', h⟩)))
  · have hlen : (args ++ [b]).length = args.length + 1 := by simp
    rintro ((⟨a, ha, h⟩ | ⟨a, ha, l, hl, h⟩ | ⟨i, j, hi, hj, hij, l, hl, h⟩) | h | ⟨l, hl, h⟩ | ⟨a, ha, l, hl, h⟩ |
      ⟨l, hl, a, ha, h⟩)
    · exact Or.inl ⟨a, List.mem_append_left _ ha, h⟩
    · exact Or.inr (Or.inl ⟨a, List.mem_append_left _ ha, l, hl, h⟩)
    · refine Or.inr (Or.inr ⟨i, j, by omega, by omega, hij, l, ?_, ?_⟩)
      · rw [getElem_snoc_lt args b i hi]; exact hl
      · rw [getElem_snoc_lt args b j hj]; exact h
    · exact Or.inl ⟨b, by simp, h⟩
    · exact Or.inr (Or.inl ⟨b, by simp, l, hl, h⟩)
    · obtain ⟨i, hi, rfl⟩ := List.getElem_of_mem ha
      refine Or.inr (Or.inr ⟨i, args.length, by omega, by omega, by omega, l, ?_, ?_⟩)
      · rw [getElem_snoc_lt args b i hi]; exact hl
      · rw [getElem_snoc_eq]; exact h
    · obtain ⟨j, hj, rfl⟩ := List.getElem_of_mem ha
      refine Or.inr (Or.inr ⟨args.length, j, by omega, by omega, by omega, l, ?_, ?_⟩)
      · rw [getElem_snoc_eq]; exact hl
      · rw [getElem_snoc_lt args b j hj]; exact h

theorem lamsOf_snoc (n : Nat) (args : List ArgInfo) (b : ArgInfo) :
    lamsOf n (args ++ [b]) = lamsOf n args ++ (match b.lam with | some l => [(n, l)] | none => []) := by
  unfold lamsOf
  rw [List.filterMap_append]
  cases hb : b.lam <;> simp [hb]

theorem mem_lamsOf (n : Nat) (args : List ArgInfo) (q : Nat × Nat) :
    q ∈ lamsOf n args ↔ q.1 = n ∧ ∃ a ∈ args, a.lam = some q.2 := by
  unfold lamsOf
  simp only [List.mem_filterMap, Option.map_eq_some_iff]
  constructor
  · rintro ⟨a, ha, l, hl, rfl⟩
    exact ⟨rfl, a, ha, hl⟩
  · rintro ⟨h1, a, ha, hl⟩
    exact ⟨a, ha, q.2, hl, by rw [← h1]⟩

/-! ## the fold over the arguments -/

/-- what is assumed of the state in which the spine with node `n` starts (`lo` = counter after `n`) -/
structure HoCtx (n lo : Nat) (k0 : Core) : Prop where
  n_lt : n < lo
  ints0 : ∀ p ∈ k0.ints, p.1 < lo ∧ p.1 ≠ n
  frm0 : ∀ p ∈ k0.frm, p.1 ≠ n
  src0 : ∀ p ∈ k0.src, p.2 < lo ∧ p.2 ≠ n

structure HoInv (n lo : Nat) (k0 : Core) (l : List TExpr) (k : Core) (st : HofRes) : Prop where
  next_eq : k.nextB = st.next
  src_eq : k.src = st.memo
  shared_eq : k.shared = k0.shared
  ints_eq : k.ints = k0.ints ++ lamsOf n st.args
  frm_iff : ∀ p, p ∈ k.frm ↔ p ∈ k0.frm ∨ p ∈ st.inner ∨ hofEdges n st.args p
  node_eq : st.node = n
  le : lo ≤ st.next
  memo_lt : ∀ p ∈ st.memo, p.2 < st.next ∧ p.2 ≠ n
  memo_old : ∀ p ∈ st.memo, p ∈ k0.src ∨ lo ≤ p.2
  inner_src : ∀ p ∈ st.inner, lo ≤ p.1
  inner_lt : ∀ p ∈ st.inner, p.1 < st.next ∧ p.2 < st.next
  lam_rng : ∀ a ∈ st.args, ∀ i, a.lam = some i → lo ≤ i ∧ i < st.next
  node_lt : ∀ a ∈ st.args, a.node < st.next ∧ a.node ≠ n
  shape : st.args.map (fun info => info.lam.isSome) = l.map (fun a => a.ty.isFunction)
  lams_nodup : (st.args.filterMap (fun a => a.lam)).Nodup

theorem hoInv_init {n lo : Nat} {k0 : Core} (hctx : HoCtx n lo k0) :
    HoInv n lo k0 [] { k0 with nextB := lo } { node := n, next := lo, memo := k0.src, args := [], inner := [] } := by
  refine ⟨rfl, rfl, rfl, by simp [lamsOf], ?_, rfl, Nat.le_refl _, hctx.src0, fun p hp => Or.inl hp, by simp, by simp,
    by simp, by simp, rfl, by simp⟩
  intro p
  simp [hofEdges]

/-- facts about the layout of one argument that the step needs -/
theorem arg_layout_facts {next : Nat} {memo : List (Nat × Nat)} {a : TExpr} {x n : Nat} (hfo : FirstOrder a)
    (hpre : FlowPre next memo (some x)) (hx : x < next) (hn : n < x) (hm : ∀ p ∈ memo, p.2 < x ∧ p.2 ≠ n) :
    ∀ r, r = flowFO next memo a (some x) →
    next ≤ r.next ∧ (∀ p ∈ r.memo, p.2 < r.next ∧ p.2 ≠ n) ∧ (∀ p ∈ r.edges, x ≤ p.1) ∧
    (r.node < r.next ∧ r.node ≠ n) ∧ (∀ name ty, headOf a = .op name ty → r.node = x) ∧
    (∀ p ∈ r.edges, p.1 < r.next ∧ p.2 < r.next) ∧
    (∀ p ∈ r.memo, p ∈ memo ∨ x ≤ p.2) ∧ (x ≤ r.node ∨ ∃ s ∈ memo, s.2 = r.node) := by
  intro r hr
  have good := flowFO_good hfo next memo (some x) hpre
  rw [← hr] at good
  obtain ⟨new, hnew, hn1, _, _⟩ := good.memo_ext
  have rng : ∀ m, NewNode next (some x) r.next m → x ≤ m ∧ m < r.next := by
    intro m hm'
    rcases hm' with ⟨h1 | h1, h2⟩
    · cases h1; exact ⟨Nat.le_refl _, h2⟩
    · exact ⟨by omega, h2⟩
  have hmemo : ∀ p ∈ r.memo, p.2 < r.next ∧ p.2 ≠ n := by
    intro p hp
    rw [hnew, List.mem_append] at hp
    rcases hp with hp | hp
    · have h1 := hm p hp
      have h2 := good.le
      exact ⟨by omega, h1.2⟩
    · have := rng _ (hn1 p hp).1
      exact ⟨this.2, by omega⟩
  have hmemo' : ∀ p ∈ r.memo, p ∈ memo ∨ x ≤ p.2 := by
    intro p hp
    rw [hnew, List.mem_append] at hp
    rcases hp with hp | hp
    · exact Or.inl hp
    · exact Or.inr (rng _ (hn1 p hp).1).1
  refine ⟨good.le, hmemo, ?_, ?_, ?_, ?_, hmemo', ?_⟩
  rotate_right
  · rcases good.node_is with ⟨q, hq, hq2⟩ | ⟨s, hs, hs2⟩
    · rw [← hq2]; exact Or.inl (rng _ (good.ops_new q hq)).1
    · rcases hmemo' s hs with h' | h'
      · exact Or.inr ⟨s, h', hs2⟩
      · rw [← hs2]; exact Or.inl h'
  · intro p hp
    obtain ⟨⟨q, hq, hq2⟩, _⟩ := good.edges_ends p hp
    rw [← hq2]
    exact (rng _ (good.ops_new q hq)).1
  · rcases good.node_is with ⟨q, hq, hq2⟩ | ⟨s, hs, hs2⟩
    · have := rng _ (good.ops_new q hq)
      rw [← hq2]; exact ⟨this.2, by omega⟩
    · rw [← hs2]; exact hmemo s hs
  · intro name ty hh
    exact (good.node_spine name ty hh).2
  · intro p hp
    obtain ⟨⟨q, hq, hq2⟩, h2⟩ := good.edges_ends p hp
    refine ⟨by rw [← hq2]; exact (rng _ (good.ops_new q hq)).2, ?_⟩
    rcases h2 with ⟨q', hq', hq2'⟩ | ⟨s, hs, hs2⟩
    · rw [← hq2']; exact (rng _ (good.ops_new q' hq')).2
    · rw [← hs2]; exact (hmemo s hs).1

theorem hoInv_ints {n lo : Nat} {k0 k : Core} {l : List TExpr} {st : HofRes} (hctx : HoCtx n lo k0)
    (inv : HoInv n lo k0 l k st) : ∀ p ∈ k.ints, p.1 < lo ∧ (p.1 = n → ∃ a ∈ st.args, a.lam = some p.2) := by
  intro p hp
  rw [inv.ints_eq, List.mem_append] at hp
  rcases hp with hp | hp
  · exact ⟨(hctx.ints0 p hp).1, fun h => absurd h (hctx.ints0 p hp).2⟩
  · have := (mem_lamsOf n st.args p).1 hp
    exact ⟨by rw [this.1]; exact hctx.n_lt, fun _ => this.2⟩

theorem hoInv_pre {n lo : Nat} {k0 k : Core} {l : List TExpr} {st : HofRes}
    (inv : HoInv n lo k0 l k st) (d : Nat) : FlowPre (st.next + 1 + d) st.memo (some st.next) :=
  ⟨fun p hp => by have := (inv.memo_lt p hp).1; omega, fun c hc => by cases hc; omega,
    fun c hc p hp => by cases hc; have := (inv.memo_lt p hp).1; omega⟩

theorem hoInv_step_data {n lo : Nat} {k0 k : Core} {l : List TExpr} {st : HofRes} (hctx : HoCtx n lo k0)
    (inv : HoInv n lo k0 l k st) (b : TExpr) (hb : FirstOrder b) (hfun : b.ty.isFunction = false) :
    HoInv n lo k0 (l ++ [b]) (argStepC n k b) (hofStep st b) := by
  have hnlo := hctx.n_lt
  have hle := inv.le
  have hints := hoInv_ints hctx inv
  have hok : IntsOK k.fresh.1 (some k.nextB) := by
    intro p hp
    have h1 := (hints p hp).1
    have h2 := inv.next_eq
    refine ⟨?_, ?_⟩
    · show p.1 < k.nextB + 1
      omega
    · intro m hm; cases hm; omega
  obtain ⟨ha, _⟩ := addExprC_flowFO hb k.fresh.1 (some k.nextB) hok
  have e1 : k.fresh.1.nextB = st.next + 1 := by show k.nextB + 1 = _; rw [inv.next_eq]
  have e2 : k.fresh.1.src = st.memo := inv.src_eq
  have e3 : k.fresh.2 = st.next := inv.next_eq
  rw [e1, e2, inv.next_eq] at ha
  unfold argStepC hofStep
  simp only [hfun, mkInternal, Bool.false_eq_true, if_false]
  rw [e3, ha]
  simp only []
  have facts := arg_layout_facts (n := n) hb (hoInv_pre inv 0) (by omega) (by omega)
    (fun p hp => inv.memo_lt p hp) _ rfl
  generalize flowFO (st.next + 1) st.memo b (some st.next) = r at facts ⊢
  obtain ⟨f1, f2, f3, f4, _, f6, f7, _⟩ := facts
  obtain ⟨w1, w2, w3, w4⟩ := wire_frame (coreRes k.fresh.1 r) n r.node none
  have hold : ∀ p ∈ r.memo, p ∈ k0.src ∨ lo ≤ p.2 := by
    intro p hp
    rcases f7 p hp with h' | h'
    · exact inv.memo_old p h'
    · exact Or.inr (by omega)
  refine ⟨w1, w2, by rw [w3]; exact inv.shared_eq, ?_, ?_, inv.node_eq, by show lo ≤ r.next; omega, f2, hold, ?_, ?_, ?_,
    ?_, ?_, ?_⟩
  · rw [w4, lamsOf_snoc]
    show k.ints = _
    rw [inv.ints_eq]; simp
  · intro p
    rw [wire_none_mem, hofEdges_snoc]
    show (p ∈ r.edges ++ k.frm ∨ p = (n, r.node) ∨ ∃ j, (n, j) ∈ k.ints ∧ p = (j, r.node)) ↔
      (p ∈ k0.frm ∨ p ∈ r.edges ++ st.inner ∨ _)
    rw [List.mem_append, List.mem_append, inv.frm_iff]
    constructor
    · rintro ((h | h | h | h) | h | ⟨j, hj, h⟩)
      · exact Or.inr (Or.inl (Or.inl h))
      · exact Or.inl h
      · exact Or.inr (Or.inl (Or.inr h))
      · exact Or.inr (Or.inr (Or.inl h))
      · exact Or.inr (Or.inr (Or.inr (Or.inl h)))
      · obtain ⟨a, ha', hl⟩ := (hints (n, j) hj).2 rfl
        exact Or.inr (Or.inr (Or.inr (Or.inr (Or.inr (Or.inl ⟨a, ha', j, hl, h⟩)))))
    · rintro (h | (h | h) | h | h | ⟨i, hi, _⟩ | ⟨a, ha', i, hl, h⟩ | ⟨i, hi, _⟩)
      · exact Or.inl (Or.inr (Or.inl h))
      · exact Or.inl (Or.inl h)
      · exact Or.inl (Or.inr (Or.inr (Or.inl h)))
      · exact Or.inl (Or.inr (Or.inr (Or.inr h)))
      · exact Or.inr (Or.inl h)
      · cases hi
      · refine Or.inr (Or.inr ⟨i, ?_, h⟩)
        rw [inv.ints_eq]
        exact List.mem_append_right _ ((mem_lamsOf n st.args (n, i)).2 ⟨rfl, a, ha', hl⟩)
      · cases hi
  · intro p hp
    show lo ≤ p.1
    have hp' : p ∈ r.edges ++ st.inner := hp
    rw [List.mem_append] at hp'
    rcases hp' with hp' | hp'
    · have := f3 p hp'; omega
    · exact inv.inner_src p hp'
  · intro p hp
    show p.1 < r.next ∧ p.2 < r.next
    have hp' : p ∈ r.edges ++ st.inner := hp
    rw [List.mem_append] at hp'
    rcases hp' with hp' | hp'
    · exact f6 p hp'
    · have := inv.inner_lt p hp'
      exact ⟨by omega, by omega⟩
  · intro a ha' i hi
    show lo ≤ i ∧ i < r.next
    have ha'' : a ∈ st.args ++ [{ node := r.node, lam := none }] := ha'
    rw [List.mem_append, List.mem_singleton] at ha''
    rcases ha'' with ha'' | rfl
    · have := inv.lam_rng a ha'' i hi
      exact ⟨this.1, by omega⟩
    · cases hi
  · intro a ha'
    show a.node < r.next ∧ a.node ≠ n
    have ha'' : a ∈ st.args ++ [{ node := r.node, lam := none }] := ha'
    rw [List.mem_append, List.mem_singleton] at ha''
    rcases ha'' with ha'' | rfl
    · have := inv.node_lt a ha''
      exact ⟨by omega, this.2⟩
    · exact f4
  · show (st.args ++ [({ node := r.node, lam := none } : ArgInfo)]).map (fun info => info.lam.isSome) = _
    rw [List.map_append, List.map_append, inv.shape]
    simp [hfun]
  · show ((st.args ++ [({ node := r.node, lam := none } : ArgInfo)]).filterMap (fun a => a.lam)).Nodup
    rw [List.filterMap_append]
    simpa using inv.lams_nodup

/-- the core after reserving the node and the internal node of a passed operation -/
def funCore (k : Core) (st : HofRes) (n : Nat) : Core :=
  { nextB := st.next + 2, src := st.memo, shared := k.shared, ints := k.ints ++ [(n, st.next + 1)], frm := k.frm }

theorem hoInv_step_fun {n lo : Nat} {k0 k : Core} {l : List TExpr} {st : HofRes} (hctx : HoCtx n lo k0)
    (inv : HoInv n lo k0 l k st) (b : TExpr) (hb : FirstOrder b) (hfun : b.ty.isFunction = true)
    (hsafe : (∃ name ty, headOf b = .op name ty) ∨ (∀ p ∈ k0.ints, ∀ s ∈ k0.src, p.1 ≠ s.2)) :
    HoInv n lo k0 (l ++ [b]) (argStepC n k b) (hofStep st b) := by
  have hnlo := hctx.n_lt
  have hle := inv.le
  have hints := hoInv_ints hctx inv
  have hki : mkInternal k.fresh.1 n true = (funCore k st n, some (st.next + 1)) := by
    simp only [mkInternal, Core.fresh, if_true, inv.next_eq, inv.src_eq, funCore]
  have e3 : k.fresh.2 = st.next := inv.next_eq
  generalize hK1 : funCore k st n = K1 at hki
  have K1n : K1.nextB = st.next + 2 := by rw [← hK1]; rfl
  have K1s : K1.src = st.memo := by rw [← hK1]; rfl
  have K1i : K1.ints = k.ints ++ [(n, st.next + 1)] := by rw [← hK1]; rfl
  have K1f : K1.frm = k.frm := by rw [← hK1]; rfl
  have K1h : K1.shared = k.shared := by rw [← hK1]; rfl
  have hok : IntsOK K1 (some st.next) := by
    intro p hp
    rw [K1i, List.mem_append, List.mem_singleton] at hp
    rw [K1n]
    rcases hp with hp | rfl
    · have h1 := (hints p hp).1
      exact ⟨by omega, fun m hm => by cases hm; omega⟩
    · exact ⟨by show n < _; omega, fun m hm => by cases hm; show n ≠ _; omega⟩
  obtain ⟨ha, _⟩ := addExprC_flowFO hb K1 (some st.next) hok
  rw [K1n, K1s] at ha
  unfold argStepC hofStep
  simp only [hfun, if_true]
  rw [hki, e3]
  simp only []
  rw [ha]
  simp only []
  have facts := arg_layout_facts (n := n) hb (hoInv_pre inv 1) (by omega) (by omega)
    (fun p hp => inv.memo_lt p hp) _ rfl
  generalize flowFO (st.next + 1 + 1) st.memo b (some st.next) = r at facts ⊢
  obtain ⟨f1, f2, f3, f4, f5, f6, f7, f8⟩ := facts
  have hold : ∀ p ∈ r.memo, p ∈ k0.src ∨ lo ≤ p.2 := by
    intro p hp
    rcases f7 p hp with h' | h'
    · exact inv.memo_old p h'
    · exact Or.inr (by omega)
  have hci : (coreRes K1 r).ints = k.ints ++ [(n, st.next + 1)] := K1i
  obtain ⟨w1, w2, w3, w4⟩ := wire_frame (coreRes K1 r) n r.node (some (st.next + 1))
  -- the side conditions of `wire_some_mem`: the argument's node carries no internal node. It is the
  -- reserved node (operator at the head), a new source node, or the node of a source that has one
  -- already, and no internal node is attached to a source node
  have c1 : ∀ j, (r.node, j) ∉ (coreRes K1 r).ints := by
    intro j hj
    rw [hci, List.mem_append, List.mem_singleton] at hj
    rcases hj with hj | hj
    · have hlt : r.node < lo := (hints _ hj).1
      rcases hsafe with ⟨name, ty, hh⟩ | hsafe
      · have : r.node = st.next := f5 name ty hh
        omega
      · rcases f8 with h' | ⟨s, hs, hs2⟩
        · omega
        · rcases inv.memo_old s hs with h' | h'
          · rw [inv.ints_eq, List.mem_append] at hj
            rcases hj with hj | hj
            · exact hsafe _ hj s h' hs2.symm
            · exact f4.2 ((mem_lamsOf n st.args _).1 hj).1
          · omega
    · exact f4.2 (Prod.mk.inj hj).1
  have c2 : n ≠ r.node := fun h' => f4.2 h'.symm
  have c3 : (n, n) ∉ (coreRes K1 r).ints := by
    intro hj
    rw [hci, List.mem_append, List.mem_singleton] at hj
    rcases hj with hj | hj
    · obtain ⟨a, ha', hl⟩ := (hints _ hj).2 rfl
      have := (inv.lam_rng a ha' n hl).1
      omega
    · have := (Prod.mk.inj hj).2; omega
  -- the two derived edge families
  have hA : ∀ p : Nat × Nat, (∃ j, (n, j) ∈ (coreRes K1 r).ints ∧ j ≠ st.next + 1 ∧ p = (j, r.node)) ↔
      (∃ a ∈ st.args, ∃ i, a.lam = some i ∧ p = (i, r.node)) := by
    intro p
    constructor
    · rintro ⟨j, hj, hji, h⟩
      rw [hci, List.mem_append, List.mem_singleton] at hj
      rcases hj with hj | hj
      · obtain ⟨a, ha', hl⟩ := (hints _ hj).2 rfl
        exact ⟨a, ha', j, hl, h⟩
      · exact absurd (Prod.mk.inj hj).2 hji
    · rintro ⟨a, ha', i, hl, h⟩
      refine ⟨i, ?_, ?_, h⟩
      · rw [hci, inv.ints_eq]
        exact List.mem_append_left _ (List.mem_append_right _ ((mem_lamsOf n st.args (n, i)).2 ⟨rfl, a, ha', hl⟩))
      · have := (inv.lam_rng a ha' i hl).2
        omega
  have hB : ∀ p : Nat × Nat, (∃ fin, (n, fin) ∈ (coreRes K1 r).frm ∧ p = (st.next + 1, fin)) ↔
      (∃ a ∈ st.args, p = (st.next + 1, a.node)) := by
    intro p
    have hfrm : (coreRes K1 r).frm = r.edges ++ k.frm := by simp only [coreRes, K1f]
    constructor
    · rintro ⟨fin, hfin, h⟩
      rw [hfrm, List.mem_append, inv.frm_iff] at hfin
      rcases hfin with hfin | hfin | hfin | hfin
      · have := f3 _ hfin
        have : st.next ≤ n := this
        omega
      · exact absurd rfl (hctx.frm0 _ hfin)
      · have := inv.inner_src _ hfin
        have : lo ≤ n := this
        omega
      · rcases hfin with ⟨a, ha', h'⟩ | ⟨a, ha', i, _, h'⟩ | ⟨i', j', hi', hj', _, i, hl, h'⟩
        · exact ⟨a, ha', by rw [h, (Prod.mk.inj h').2]⟩
        · exact absurd (Prod.mk.inj h').1.symm (inv.node_lt a ha').2
        · have := (inv.lam_rng _ (List.getElem_mem hi') i hl).1
          have h2 := (Prod.mk.inj h').1
          omega
    · rintro ⟨a, ha', h⟩
      refine ⟨a.node, ?_, h⟩
      rw [hfrm, List.mem_append, inv.frm_iff]
      exact Or.inr (Or.inr (Or.inr (Or.inl ⟨a, ha', rfl⟩)))
  refine ⟨w1, w2, by rw [w3]; exact inv.shared_eq.symm ▸ K1h ▸ rfl, ?_, ?_, inv.node_eq, by show lo ≤ r.next; omega, f2,
    hold, ?_, ?_, ?_, ?_, ?_, ?_⟩
  · rw [w4, lamsOf_snoc, hci, inv.ints_eq]
    simp
  · intro p
    rw [wire_some_mem _ _ _ _ _ c1 c2 c3, hofEdges_snoc, hA, hB]
    have hfrm : (coreRes K1 r).frm = r.edges ++ k.frm := by simp only [coreRes, K1f]
    rw [hfrm]
    show _ ↔ (p ∈ k0.frm ∨ p ∈ r.edges ++ st.inner ∨ _)
    rw [List.mem_append, List.mem_append, inv.frm_iff]
    constructor
    · rintro ((h | h | h | h) | h | h | h | h)
      · exact Or.inr (Or.inl (Or.inl h))
      · exact Or.inl h
      · exact Or.inr (Or.inl (Or.inr h))
      · exact Or.inr (Or.inr (Or.inl h))
      · exact Or.inr (Or.inr (Or.inr (Or.inr (Or.inl ⟨_, rfl, h⟩))))
      · exact Or.inr (Or.inr (Or.inr (Or.inl h)))
      · exact Or.inr (Or.inr (Or.inr (Or.inr (Or.inr (Or.inl h)))))
      · exact Or.inr (Or.inr (Or.inr (Or.inr (Or.inr (Or.inr ⟨_, rfl, h⟩)))))
    · rintro (h | (h | h) | h | h | ⟨i, hi, h⟩ | h | ⟨i, hi, h⟩)
      · exact Or.inl (Or.inr (Or.inl h))
      · exact Or.inl (Or.inl h)
      · exact Or.inl (Or.inr (Or.inr (Or.inl h)))
      · exact Or.inl (Or.inr (Or.inr (Or.inr h)))
      · exact Or.inr (Or.inr (Or.inl h))
      · cases hi; exact Or.inr (Or.inl h)
      · exact Or.inr (Or.inr (Or.inr (Or.inl h)))
      · cases hi; exact Or.inr (Or.inr (Or.inr (Or.inr h)))
  · intro p hp
    show lo ≤ p.1
    have hp' : p ∈ r.edges ++ st.inner := hp
    rw [List.mem_append] at hp'
    rcases hp' with hp' | hp'
    · have := f3 p hp'; omega
    · exact inv.inner_src p hp'
  · intro p hp
    show p.1 < r.next ∧ p.2 < r.next
    have hp' : p ∈ r.edges ++ st.inner := hp
    rw [List.mem_append] at hp'
    rcases hp' with hp' | hp'
    · exact f6 p hp'
    · have := inv.inner_lt p hp'
      exact ⟨by omega, by omega⟩
  · intro a ha' i hi
    show lo ≤ i ∧ i < r.next
    have ha'' : a ∈ st.args ++ [({ node := r.node, lam := some (st.next + 1) } : ArgInfo)] := ha'
    rw [List.mem_append, List.mem_singleton] at ha''
    rcases ha'' with ha'' | rfl
    · have := inv.lam_rng a ha'' i hi
      exact ⟨this.1, by omega⟩
    · cases hi; exact ⟨by omega, by omega⟩
  · intro a ha'
    show a.node < r.next ∧ a.node ≠ n
    have ha'' : a ∈ st.args ++ [({ node := r.node, lam := some (st.next + 1) } : ArgInfo)] := ha'
    rw [List.mem_append, List.mem_singleton] at ha''
    rcases ha'' with ha'' | rfl
    · have := inv.node_lt a ha''
      exact ⟨by omega, this.2⟩
    · exact f4
  · show (st.args ++ [({ node := r.node, lam := some (st.next + 1) } : ArgInfo)]).map (fun info => info.lam.isSome) = _
    rw [List.map_append, List.map_append, inv.shape]
    simp [hfun]
  · show ((st.args ++ [({ node := r.node, lam := some (st.next + 1) } : ArgInfo)]).filterMap (fun a => a.lam)).Nodup
    rw [List.filterMap_append, List.nodup_append]
    refine ⟨inv.lams_nodup, by simp, ?_⟩
    intro x hx' y hy hxy
    simp only [List.filterMap_cons, List.filterMap_nil, List.mem_singleton] at hy
    subst hy
    subst hxy
    obtain ⟨a, ha', hl⟩ := List.mem_filterMap.1 hx'
    have := (inv.lam_rng a ha' _ hl).2
    omega

/-- what is asked of an argument of the one-level spine: first-order, and when it is passed as an
operation either its head is an operator (then its node is the reserved, unused one) or no internal
node is attached to a source node in the starting state (then a source may be passed, even twice) -/
def ArgOK (k0 : Core) (b : TExpr) : Prop :=
  FirstOrder b ∧ (b.ty.isFunction = true →
    (∃ name ty, headOf b = .op name ty) ∨ (∀ p ∈ k0.ints, ∀ s ∈ k0.src, p.1 ≠ s.2))

theorem hoInv_step {n lo : Nat} {k0 k : Core} {l : List TExpr} {st : HofRes} (hctx : HoCtx n lo k0)
    (inv : HoInv n lo k0 l k st) (b : TExpr) (hb : ArgOK k0 b) :
    HoInv n lo k0 (l ++ [b]) (argStepC n k b) (hofStep st b) := by
  cases hfun : b.ty.isFunction with
  | false => exact hoInv_step_data hctx inv b hb.1 hfun
  | true => exact hoInv_step_fun hctx inv b hb.1 hfun (hb.2 hfun)

theorem hoInv_all {n lo : Nat} {k0 : Core} (hctx : HoCtx n lo k0) :
    ∀ (l : List TExpr), (∀ a ∈ l, ArgOK k0 a) →
      HoInv n lo k0 l (l.foldl (argStepC n) { k0 with nextB := lo })
        (l.foldl hofStep { node := n, next := lo, memo := k0.src, args := [], inner := [] }) := by
  intro l
  induction l using snoc_induction with
  | nil => intro _; exact hoInv_init hctx
  | snoc l a ih =>
    intro h
    have inv := ih (fun b hb => h b (List.mem_append_left _ hb))
    rw [List.foldl_append, List.foldl_append]
    simp only [List.foldl_cons, List.foldl_nil]
    exact hoInv_step hctx inv a (h a (by simp))

theorem hoCtx_of_fresh {g : GState} {cur : Option Nat} (hg : GFresh g) (hcur : ∀ m, cur = some m → CurFree g m) :
    HoCtx (allocNode g.nextB cur).1 (allocNode g.nextB cur).2 (coreOf g) := by
  obtain ⟨hpre, _⟩ := pre_of_fresh hg hcur
  obtain ⟨f1, _, _, f4⟩ := alloc_facts hpre
  refine ⟨f1, ?_, ?_, f4⟩
  · intro p hp
    have h1 := (hg.int_lt p hp).1
    cases cur with
    | none => simp only [allocNode]; omega
    | some m => simp only [allocNode]; exact ⟨h1, ((hcur m rfl).no_int p hp).1⟩
  · intro p hp
    have h1 := (hg.frm_lt p hp).1
    cases cur with
    | none => simp only [allocNode]; omega
    | some m => simp only [allocNode]; exact (hcur m rfl).no_frm p hp

/-- the invariant at the end of the spine, on the graph -/
theorem addExpr_hof_inv {G : GLang} {c : GCfg} {root : Node} {origin : Option Node} (hc : c.withTypes = false)
    {g g' : GState} {e : TExpr} {cur : Option Nat} {im : Bool} {n : Nat} {name : String} {ty : Term}
    (hh : headOf e = .op name ty) (hargs : ∀ a ∈ argsOf e, ArgOK (coreOf g) a)
    (hg : GFresh g) (hcur : ∀ m, cur = some m → CurFree g m)
    (h : addExpr G c root origin g e cur im = .ok (g', n)) :
    n = (allocNode g.nextB cur).1 ∧
    HoInv (allocNode g.nextB cur).1 (allocNode g.nextB cur).2 (coreOf g) (argsOf e) (coreOf g')
      (flowHO1 g.nextB g.srcNodes e cur) := by
  obtain ⟨g1, h1, h2⟩ := addExpr_core (G := G) (root := root) (origin := origin) hc e g cur im
  rw [h1] at h
  cases h
  rw [addExprC_spine e name ty (coreOf g) cur hh] at h2 ⊢
  obtain ⟨c1, c2⟩ := cur_alloc (coreOf g) cur
  have hctx := hoCtx_of_fresh hg hcur
  have inv := hoInv_all hctx (argsOf e) hargs
  have hn : ((coreOf g).cur cur).2 = (allocNode g.nextB cur).1 := c1
  have hk : ((coreOf g).cur cur).1 = { coreOf g with nextB := (allocNode g.nextB cur).2 } := c2
  simp only [] at h2 ⊢
  rw [hn, hk] at h2
  rw [hn, h2]
  exact ⟨rfl, inv⟩

/-- the one-level higher-order theorem on the graph, for both kinds of argument (`ArgOK`) -/
theorem addExpr_hof_one_level_gen {G : GLang} {c : GCfg} {root : Node} {origin : Option Node} (hc : c.withTypes = false)
    {g g' : GState} {e : TExpr} {cur : Option Nat} {im : Bool} {n : Nat} {name : String} {ty : Term}
    (hh : headOf e = .op name ty) (hargs : ∀ a ∈ argsOf e, ArgOK (coreOf g) a)
    (hg : GFresh g) (hcur : ∀ m, cur = some m → CurFree g m)
    (h : addExpr G c root origin g e cur im = .ok (g', n)) :
    n = (allocNode g.nextB cur).1 ∧
    g'.nextB = (flowHO1 g.nextB g.srcNodes e cur).next ∧
    g'.srcNodes = (flowHO1 g.nextB g.srcNodes e cur).memo ∧
    g'.sharedNodes = g.sharedNodes ∧
    g'.internals = g.internals ++ lamsOf n (flowHO1 g.nextB g.srcNodes e cur).args ∧
    (∀ p, p ∈ g'.fd.frm ↔ p ∈ g.fd.frm ∨ p ∈ (flowHO1 g.nextB g.srcNodes e cur).inner ∨
      hofEdges n (flowHO1 g.nextB g.srcNodes e cur).args p) ∧
    (flowHO1 g.nextB g.srcNodes e cur).args.map (fun info => info.lam.isSome) =
      (argsOf e).map (fun a => a.ty.isFunction) ∧
    ((flowHO1 g.nextB g.srcNodes e cur).args.filterMap (fun a => a.lam)).Nodup ∧
    (∀ a ∈ (flowHO1 g.nextB g.srcNodes e cur).args, ∀ i, a.lam = some i → g.nextB ≤ i ∧ i < g'.nextB) := by
  obtain ⟨hn, inv⟩ := addExpr_hof_inv hc hh hargs hg hcur h
  have hpre := (pre_of_fresh hg hcur).1
  have hlo := (alloc_facts hpre).2.1
  subst hn
  refine ⟨rfl, inv.next_eq, inv.src_eq, inv.shared_eq, inv.ints_eq, inv.frm_iff, inv.shape, inv.lams_nodup, ?_⟩
  intro a ha i hi
  have := inv.lam_rng a ha i hi
  have h3 : g'.nextB = (flowHO1 g.nextB g.srcNodes e cur).next := inv.next_eq
  rw [h3]
  exact ⟨by omega, this.2⟩

/-- a one-level higher-order spine keeps the state consistent -/
theorem addExpr_hof_one_level_fresh_gen {G : GLang} {c : GCfg} {root : Node} {origin : Option Node}
    (hc : c.withTypes = false)
    {g g' : GState} {e : TExpr} {cur : Option Nat} {im : Bool} {n : Nat} {name : String} {ty : Term}
    (hh : headOf e = .op name ty) (hargs : ∀ a ∈ argsOf e, ArgOK (coreOf g) a)
    (hg : GFresh g) (hcur : ∀ m, cur = some m → CurFree g m)
    (h : addExpr G c root origin g e cur im = .ok (g', n)) : GFresh g' := by
  obtain ⟨hn, inv⟩ := addExpr_hof_inv hc hh hargs hg hcur h
  have hpre := (pre_of_fresh hg hcur).1
  obtain ⟨f1, f2, _, _⟩ := alloc_facts hpre
  have hle := inv.le
  generalize flowHO1 g.nextB g.srcNodes e cur = st at inv hle
  have hnext : g'.nextB = st.next := inv.next_eq
  have hnlt : (allocNode g.nextB cur).1 < g'.nextB := by omega
  refine ⟨?_, ?_, ?_⟩
  · intro p hp
    have hs : g'.srcNodes = st.memo := inv.src_eq
    rw [hs] at hp
    rw [hnext]
    exact (inv.memo_lt p hp).1
  · intro p hp
    have hi : g'.internals = g.internals ++ lamsOf _ st.args := inv.ints_eq
    rw [hi, List.mem_append] at hp
    rcases hp with hp | hp
    · have := hg.int_lt p hp
      omega
    · obtain ⟨h1, a, ha, hl⟩ := (mem_lamsOf _ _ _).1 hp
      have := (inv.lam_rng a ha _ hl).2
      rw [h1]
      exact ⟨hnlt, by omega⟩
  · intro p hp
    have hf := (inv.frm_iff p).1 hp
    rcases hf with hf | hf | hf
    · have := hg.frm_lt p hf
      omega
    · have := inv.inner_lt p hf
      omega
    · rcases hf with ⟨a, ha, h'⟩ | ⟨a, ha, i, hl, h'⟩ | ⟨i', j', hi', hj', _, i, hl, h'⟩
      · rw [h']
        have := (inv.node_lt a ha).1
        exact ⟨hnlt, by show a.node < _; omega⟩
      · rw [h']
        have h1 := (inv.node_lt a ha).1
        have h2 := (inv.lam_rng a ha i hl).2
        exact ⟨by show a.node < _; omega, by show i < _; omega⟩
      · rw [h']
        have h1 := (inv.node_lt _ (List.getElem_mem hj')).1
        have h2 := (inv.lam_rng _ (List.getElem_mem hi') i hl).2
        exact ⟨by show i < _; omega, by show st.args[j'].node < _; omega⟩


theorem argOK_of_hofArg {k0 : Core} {a : TExpr} (h : HofArg a) : ArgOK k0 a :=
  ⟨h.fo, fun hfun => Or.inl (h.head_op hfun)⟩

theorem argOK_of_srcNoInt {g : GState} {a : TExpr} (hs : SrcNoInt g) (h : FirstOrder a) : ArgOK (coreOf g) a :=
  ⟨h, fun _ => Or.inr hs⟩

/-- the one-level higher-order theorem on the graph: passed operations have an operator at the head -/
theorem addExpr_hof_one_level {G : GLang} {c : GCfg} {root : Node} {origin : Option Node} (hc : c.withTypes = false)
    {g g' : GState} {e : TExpr} {cur : Option Nat} {im : Bool} {n : Nat} {name : String} {ty : Term}
    (hh : headOf e = .op name ty) (hargs : ∀ a ∈ argsOf e, HofArg a)
    (hg : GFresh g) (hcur : ∀ m, cur = some m → CurFree g m)
    (h : addExpr G c root origin g e cur im = .ok (g', n)) :
    n = (allocNode g.nextB cur).1 ∧
    g'.nextB = (flowHO1 g.nextB g.srcNodes e cur).next ∧
    g'.srcNodes = (flowHO1 g.nextB g.srcNodes e cur).memo ∧
    g'.sharedNodes = g.sharedNodes ∧
    g'.internals = g.internals ++ lamsOf n (flowHO1 g.nextB g.srcNodes e cur).args ∧
    (∀ p, p ∈ g'.fd.frm ↔ p ∈ g.fd.frm ∨ p ∈ (flowHO1 g.nextB g.srcNodes e cur).inner ∨
      hofEdges n (flowHO1 g.nextB g.srcNodes e cur).args p) ∧
    (flowHO1 g.nextB g.srcNodes e cur).args.map (fun info => info.lam.isSome) =
      (argsOf e).map (fun a => a.ty.isFunction) ∧
    ((flowHO1 g.nextB g.srcNodes e cur).args.filterMap (fun a => a.lam)).Nodup ∧
    (∀ a ∈ (flowHO1 g.nextB g.srcNodes e cur).args, ∀ i, a.lam = some i → g.nextB ≤ i ∧ i < g'.nextB) :=
  addExpr_hof_one_level_gen hc hh (fun a ha => argOK_of_hofArg (hargs a ha)) hg hcur h

/-- a one-level higher-order spine keeps the state consistent -/
theorem addExpr_hof_one_level_fresh {G : GLang} {c : GCfg} {root : Node} {origin : Option Node}
    (hc : c.withTypes = false)
    {g g' : GState} {e : TExpr} {cur : Option Nat} {im : Bool} {n : Nat} {name : String} {ty : Term}
    (hh : headOf e = .op name ty) (hargs : ∀ a ∈ argsOf e, HofArg a)
    (hg : GFresh g) (hcur : ∀ m, cur = some m → CurFree g m)
    (h : addExpr G c root origin g e cur im = .ok (g', n)) : GFresh g' :=
  addExpr_hof_one_level_fresh_gen hc hh (fun a ha => argOK_of_hofArg (hargs a ha)) hg hcur h

/-- The one-level theorem when sources of function type may be passed as operations, the same one
several times included: the arguments are first-order, nothing else is asked of them; the state has
no internal node attached to a source node. The description is the same: the internal node of
argument `i` receives the node of every other argument `j ≠ i` — also when that is the very node of
argument `i` (the same source passed twice). -/
theorem addExpr_hof_one_level_src {G : GLang} {c : GCfg} {root : Node} {origin : Option Node} (hc : c.withTypes = false)
    {g g' : GState} {e : TExpr} {cur : Option Nat} {im : Bool} {n : Nat} {name : String} {ty : Term}
    (hh : headOf e = .op name ty) (hargs : ∀ a ∈ argsOf e, FirstOrder a)
    (hg : GFresh g) (hs : SrcNoInt g) (hcur : ∀ m, cur = some m → CurFree g m)
    (h : addExpr G c root origin g e cur im = .ok (g', n)) :
    n = (allocNode g.nextB cur).1 ∧
    g'.nextB = (flowHO1 g.nextB g.srcNodes e cur).next ∧
    g'.srcNodes = (flowHO1 g.nextB g.srcNodes e cur).memo ∧
    g'.sharedNodes = g.sharedNodes ∧
    g'.internals = g.internals ++ lamsOf n (flowHO1 g.nextB g.srcNodes e cur).args ∧
    (∀ p, p ∈ g'.fd.frm ↔ p ∈ g.fd.frm ∨ p ∈ (flowHO1 g.nextB g.srcNodes e cur).inner ∨
      hofEdges n (flowHO1 g.nextB g.srcNodes e cur).args p) ∧
    (flowHO1 g.nextB g.srcNodes e cur).args.map (fun info => info.lam.isSome) =
      (argsOf e).map (fun a => a.ty.isFunction) ∧
    ((flowHO1 g.nextB g.srcNodes e cur).args.filterMap (fun a => a.lam)).Nodup ∧
    (∀ a ∈ (flowHO1 g.nextB g.srcNodes e cur).args, ∀ i, a.lam = some i → g.nextB ≤ i ∧ i < g'.nextB) :=
  addExpr_hof_one_level_gen hc hh (fun a ha => argOK_of_srcNoInt hs (hargs a ha)) hg hcur h

/-- … and it keeps the state consistent, with no internal node attached to a source node -/
theorem addExpr_hof_one_level_src_fresh {G : GLang} {c : GCfg} {root : Node} {origin : Option Node}
    (hc : c.withTypes = false)
    {g g' : GState} {e : TExpr} {cur : Option Nat} {im : Bool} {n : Nat} {name : String} {ty : Term}
    (hh : headOf e = .op name ty) (hargs : ∀ a ∈ argsOf e, FirstOrder a)
    (hg : GFresh g) (hs : SrcNoInt g) (hcur : ∀ m, cur = some m → CurFree g m)
    (h : addExpr G c root origin g e cur im = .ok (g', n)) : GFresh g' ∧ SrcNoInt g' := by
  have hok : ∀ a ∈ argsOf e, ArgOK (coreOf g) a := fun a ha => argOK_of_srcNoInt hs (hargs a ha)
  refine ⟨addExpr_hof_one_level_fresh_gen hc hh hok hg hcur h, ?_⟩
  obtain ⟨hn, inv⟩ := addExpr_hof_inv hc hh hok hg hcur h
  have hpre := (pre_of_fresh hg hcur).1
  have hlo := (alloc_facts hpre).2.1
  intro p hp s hs'
  have hi : g'.internals = g.internals ++ lamsOf _ (flowHO1 g.nextB g.srcNodes e cur).args := inv.ints_eq
  have hm : g'.srcNodes = (flowHO1 g.nextB g.srcNodes e cur).memo := inv.src_eq
  rw [hm] at hs'
  rw [hi, List.mem_append] at hp
  rcases hp with hp | hp
  · rcases inv.memo_old s hs' with h' | h'
    · exact hs p hp s h'
    · have := (hg.int_lt p hp).1
      omega
  · have h1 := ((mem_lamsOf _ _ _).1 hp).1
    have h2 := (inv.memo_lt s hs').2
    rw [h1]; exact fun h' => h2 h'.symm

end Tfv.C08P
