import Tfv.Proofs.GraphMemberExpr
/-!
# Reading a log: which event stands for a triple with a given predicate
-/
namespace Tfv

theorem evTriple_cO {G : GLang} {c : GCfg} {root : Node} {M : List (Term × Node)} {ev : Ev} {a o : Node} :
    EvTriple G c root M ev (a, Node.tf "containsOperation", o) ↔
      ∃ cur name, ev = .op cur name ∧ c.withOperators = true ∧ c.withMembership = true ∧ a = root ∧ o = .ns name := by
  cases ev with
  | ann cur ty can => simp [EvTriple, AnnTripleW]
  | op cur name =>
    simp only [EvTriple, Prod.mk.injEq, Ev.op.injEq]
    constructor
    · rintro ⟨h1, h | ⟨h2, h3, _, h4⟩⟩
      · simp at h
      · exact ⟨cur, name, ⟨rfl, rfl⟩, h1, h2, h3, h4⟩
    · rintro ⟨cur', name', ⟨rfl, rfl⟩, h1, h2, h3, h4⟩
      exact ⟨h1, .inr ⟨h2, h3, trivial, h4⟩⟩

theorem evTriple_via {G : GLang} {c : GCfg} {root : Node} {M : List (Term × Node)} {ev : Ev} {a o : Node} :
    EvTriple G c root M ev (a, Node.tf "via", o) ↔
      ∃ cur name, ev = .op cur name ∧ c.withOperators = true ∧ a = .b cur ∧ o = .ns name := by
  cases ev with
  | ann cur ty can => simp [EvTriple, AnnTripleW]
  | op cur name =>
    simp only [EvTriple, Prod.mk.injEq, Ev.op.injEq]
    constructor
    · rintro ⟨h1, ⟨h3, _, h4⟩ | ⟨_, _, h, _⟩⟩
      · exact ⟨cur, name, ⟨rfl, rfl⟩, h1, h3, h4⟩
      · simp at h
    · rintro ⟨cur', name', ⟨rfl, rfl⟩, h1, h3, h4⟩
      exact ⟨h1, .inl ⟨h3, trivial, h4⟩⟩

theorem evTriple_type {G : GLang} {c : GCfg} {root : Node} {M : List (Term × Node)} {ev : Ev} {a tn : Node} :
    EvTriple G c root M ev (a, Node.tf "type", tn) ↔
      ∃ cur ty can, ev = .ann cur ty can ∧ a = .b cur ∧ lookupType M ty = some tn := by
  cases ev with
  | op cur name => simp [EvTriple]
  | ann cur ty can =>
    simp only [EvTriple, AnnTripleW, Prod.mk.injEq, Ev.ann.injEq]
    constructor
    · rintro (⟨tn', hl, ⟨h1, _, h2⟩ | ⟨_, _, h, _⟩ | ⟨_, _, h, _⟩⟩ | ⟨_, _, s, _, sn, _, ⟨_, _, h, _⟩ | ⟨_, _, h, _⟩⟩)
      · subst h2; exact ⟨cur, ty, can, ⟨rfl, rfl, rfl⟩, h1, hl⟩
      all_goals simp at h
    · rintro ⟨cur', ty', can', ⟨rfl, rfl, rfl⟩, h1, hl⟩
      exact .inl ⟨tn, hl, .inl ⟨h1, trivial, rfl⟩⟩

/-- what an annotation event says about the membership triple of the node `tn` -/
def AnnCT (G : GLang) (c : GCfg) (M : List (Term × Node)) (ty : Term) (can : Bool) (tn : Node) : Prop :=
  (c.withMembership = true ∧ lookupType M ty = some tn) ∨
    (c.withMembershipSupertypes = true ∧ can = true ∧ ty.isApp = true ∧
      ∃ s ∈ supsOf G ty, lookupType M s.toTerm = some tn)

/-- what an annotation event says about the `subtypeOf` triple to the node `tn` -/
def AnnSub (G : GLang) (c : GCfg) (M : List (Term × Node)) (ty : Term) (can : Bool) (tn : Node) : Prop :=
  c.withSupertypes = true ∧ can = true ∧
    (lookupType M ty = some tn ∨ (ty.isApp = true ∧ ∃ s ∈ supsOf G ty, lookupType M s.toTerm = some tn))

theorem evTriple_cT {G : GLang} {c : GCfg} {root : Node} {M : List (Term × Node)} {ev : Ev} {a tn : Node} :
    EvTriple G c root M ev (a, Node.tf "containsType", tn) ↔
      ∃ cur ty can, ev = .ann cur ty can ∧ a = root ∧ AnnCT G c M ty can tn := by
  cases ev with
  | op cur name => simp [EvTriple]
  | ann cur ty can =>
    simp only [EvTriple, AnnTripleW, AnnCT, Prod.mk.injEq, Ev.ann.injEq]
    constructor
    · rintro (⟨tn', hl, ⟨_, h, _⟩ | ⟨_, _, h, _⟩ | ⟨hm, h1, _, h2⟩⟩ | ⟨hc, ha, s, hs, sn, hl, ⟨hm, h1, _, h2⟩ | ⟨_, _, h, _⟩⟩)
      · simp at h
      · simp at h
      · subst h2; exact ⟨cur, ty, can, ⟨rfl, rfl, rfl⟩, h1, .inl ⟨hm, hl⟩⟩
      · subst h2; exact ⟨cur, ty, can, ⟨rfl, rfl, rfl⟩, h1, .inr ⟨hm, hc, ha, s, hs, hl⟩⟩
      · simp at h
    · rintro ⟨cur', ty', can', ⟨rfl, rfl, rfl⟩, h1, ⟨hm, hl⟩ | ⟨hm, hc, ha, s, hs, hl⟩⟩
      · exact .inl ⟨tn, hl, .inr (.inr ⟨hm, h1, trivial, rfl⟩)⟩
      · exact .inr ⟨hc, ha, s, hs, tn, hl, .inl ⟨hm, h1, trivial, rfl⟩⟩

theorem evTriple_subtypeOf {G : GLang} {c : GCfg} {root : Node} {M : List (Term × Node)} {ev : Ev} {a tn : Node} :
    EvTriple G c root M ev (a, Node.tf "subtypeOf", tn) ↔
      ∃ cur ty can, ev = .ann cur ty can ∧ a = .b cur ∧ AnnSub G c M ty can tn := by
  cases ev with
  | op cur name => simp [EvTriple]
  | ann cur ty can =>
    simp only [EvTriple, AnnTripleW, AnnSub, Prod.mk.injEq, Ev.ann.injEq, Bool.and_eq_true]
    constructor
    · rintro (⟨tn', hl, ⟨_, h, _⟩ | ⟨⟨hs, hc⟩, h1, _, h2⟩ | ⟨_, _, h, _⟩⟩ | ⟨hc, ha, s, hs, sn, hl, ⟨_, _, h, _⟩ | ⟨hw, h1, _, h2⟩⟩)
      · simp at h
      · subst h2; exact ⟨cur, ty, can, ⟨rfl, rfl, rfl⟩, h1, hs, hc, .inl hl⟩
      · simp at h
      · simp at h
      · subst h2; exact ⟨cur, ty, can, ⟨rfl, rfl, rfl⟩, h1, hw, hc, .inr ⟨ha, s, hs, hl⟩⟩
    · rintro ⟨cur', ty', can', ⟨rfl, rfl, rfl⟩, h1, hw, hc, hl | ⟨ha, s, hs, hl⟩⟩
      · exact .inl ⟨tn, hl, .inr (.inl ⟨⟨hw, hc⟩, h1, trivial, rfl⟩)⟩
      · exact .inr ⟨hc, ha, s, hs, tn, hl, .inr ⟨hw, h1, trivial, rfl⟩⟩

/-! ## events and leaves -/

theorem mem_forget_op {evs : List Ev} {name : String} :
    EvF.op name ∈ evs.map Ev.forget ↔ ∃ cur, Ev.op cur name ∈ evs := by
  rw [List.mem_map]
  constructor
  · rintro ⟨ev, hev, h⟩
    cases ev with
    | ann cur ty can => cases h
    | op cur nm => simp only [Ev.forget, EvF.op.injEq] at h; subst h; exact ⟨cur, hev⟩
  · rintro ⟨cur, h⟩
    exact ⟨_, h, rfl⟩

theorem mem_forget_ann {evs : List Ev} {ty : Term} {can : Bool} :
    EvF.ann ty can ∈ evs.map Ev.forget ↔ ∃ cur, Ev.ann cur ty can ∈ evs := by
  rw [List.mem_map]
  constructor
  · rintro ⟨ev, hev, h⟩
    cases ev with
    | op cur nm => cases h
    | ann cur ty' can' =>
      simp only [Ev.forget, EvF.ann.injEq] at h
      obtain ⟨rfl, rfl⟩ := h
      exact ⟨cur, hev⟩
  · rintro ⟨cur, h⟩
    exact ⟨_, h, rfl⟩

/-- the type a visited leaf is annotated with: the stored type (of an operator: its output type) read through the
graph's store -/
def leafType (G : GLang) : VLeaf → Term
  | .src _ ty => normT G.store ty
  | .op _ ty _ => normT G.store (outputType 1000 ty)

/-- is the visited leaf annotated with its type? -/
def leafGate (G : GLang) (c : GCfg) : VLeaf → Bool
  | .src _ ty => srcGate G c ty
  | .op _ ty inter => opGate G c ty inter

theorem mem_leafEvs_op {G : GLang} {c : GCfg} {lf : VLeaf} {name : String} :
    EvF.op name ∈ leafEvs G c lf ↔ ∃ ty i, lf = .op name ty i := by
  cases lf with
  | src id ty =>
    simp only [leafEvs]
    split <;> simp
  | op nm ty i =>
    simp only [leafEvs]
    split <;> simp [eq_comm]

theorem mem_leafEvs_ann {G : GLang} {c : GCfg} {lf : VLeaf} {ty : Term} {can : Bool} :
    EvF.ann ty can ∈ leafEvs G c lf ↔ (leafGate G c lf = true ∧ ty = leafType G lf ∧ can = inCanon G ty) := by
  cases lf with
  | src id sty =>
    simp only [leafEvs, leafGate, leafType]
    split
    · rename_i hg
      simp only [List.mem_singleton, EvF.ann.injEq, hg, true_and]
      constructor
      · rintro ⟨rfl, rfl⟩; exact ⟨rfl, rfl⟩
      · rintro ⟨rfl, rfl⟩; exact ⟨rfl, rfl⟩
    · rename_i hg
      simp [hg]
  | op nm oty i =>
    simp only [leafEvs, leafGate, leafType]
    split
    · rename_i hg
      simp only [List.mem_cons, EvF.ann.injEq, hg, true_and, List.not_mem_nil, or_false,
        reduceCtorEq, false_or]
      constructor
      · rintro ⟨rfl, rfl⟩; exact ⟨rfl, rfl⟩
      · rintro ⟨rfl, rfl⟩; exact ⟨rfl, rfl⟩
    · rename_i hg
      simp [hg]

end Tfv
