import Tfv.Proofs.GraphAbsDeepCore
/-!
# C08 on expanded composite operators at any depth: context, postcondition, invariant

The structure of Proofs/FlowGenS.lean (`GCtx`, `SPost`, `SInv`) with the parameter table next to the source map: the
node of an argument is the reserved one, the node of a source, or the node of a parameter (`TabNode`); no internal
node hangs off any of the latter (`NoInt`).
-/
namespace Tfv.C08P
open Tfv

/-- `t` is the node of a source or of a parameter -/
def TabNode (memo params : List (Nat × Nat)) (t : Nat) : Prop :=
  (∃ s ∈ memo, s.2 = t) ∨ (∃ s ∈ params, s.2 = t)

/-- no internal node is attached to the node of a source or of a parameter -/
def NoInt (k : Core) (ps : Params) : Prop := ∀ p ∈ k.ints, ∀ t, TabNode k.src ps t → p.1 ≠ t

/-- the state in which an expression with the reserved node `x` is added -/
structure GCtxA (x : Nat) (k : Core) (ps : Params) : Prop where
  x_lt : x < k.nextB
  ints : ∀ p ∈ k.ints, p.1 < k.nextB ∧ p.1 ≠ x
  frm : ∀ p ∈ k.frm, p.1 < k.nextB ∧ p.1 ≠ x
  tab : ∀ t, TabNode k.src ps t → t < k.nextB ∧ t ≠ x

structure SPostA (x : Nat) (k : Core) (ps : Params) (r : HaRes) (k' : Core) (ps' : Params) (m : Nat) : Prop where
  node_eq : m = r.node
  next_eq : k'.nextB = r.next
  src_eq : k'.src = r.memo
  par_eq : ps' = r.params
  shared_eq : k'.shared = k.shared
  ints_eq : k'.ints = k.ints ++ r.ints
  frm_iff : ∀ p, p ∈ k'.frm ↔ p ∈ k.frm ∨ p ∈ r.edges
  le : k.nextB ≤ r.next
  tab_mono : ∀ t, TabNode k.src ps t → TabNode r.memo r.params t
  tab_rng : ∀ t, TabNode r.memo r.params t → TabNode k.src ps t ∨ t = x ∨ (k.nextB ≤ t ∧ t < r.next)
  node_rng : r.node = x ∨ TabNode k.src ps r.node
  edges_rng : ∀ p ∈ r.edges, (x ≤ p.1 ∨ TabNode r.memo r.params p.1) ∧ p.1 < r.next ∧ p.2 < r.next
  ints_rng : ∀ q ∈ r.ints, x ≤ q.1 ∧ q.1 < r.next ∧ k.nextB ≤ q.2 ∧ q.2 < r.next
  ints_nodup : (r.ints.map Prod.snd).Nodup
  noint : NoInt k' ps'

structure SInvA (n : Nat) (k0 : Core) (ps0 : Params) (k : Core) (ps : Params) (st : HaArgs) : Prop where
  next_eq : k.nextB = st.next
  src_eq : k.src = st.memo
  par_eq : ps = st.params
  shared_eq : k.shared = k0.shared
  ints_eq : k.ints = k0.ints ++ spineIntsA n st.rs
  frm_iff : ∀ p, p ∈ k.frm ↔ p ∈ k0.frm ∨ SpineEdgesA n st.rs p
  le : k0.nextB ≤ st.next
  tab_mono : ∀ t, TabNode k0.src ps0 t → TabNode st.memo st.params t
  tab_rng : ∀ t, TabNode st.memo st.params t → TabNode k0.src ps0 t ∨ (k0.nextB ≤ t ∧ t < st.next)
  edges_rng : ∀ q ∈ st.rs, ∀ p ∈ q.edges,
    (k0.nextB ≤ p.1 ∨ TabNode st.memo st.params p.1) ∧ p.1 < st.next ∧ p.2 < st.next
  ints_rng : ∀ q ∈ st.rs, ∀ i ∈ q.ints, k0.nextB ≤ i.1 ∧ i.1 < st.next ∧ k0.nextB ≤ i.2 ∧ i.2 < st.next
  lam_rng : ∀ q ∈ st.rs, ∀ i, q.lam = some i → k0.nextB ≤ i ∧ i < st.next
  node_rng : ∀ q ∈ st.rs, k0.nextB ≤ q.node ∨ TabNode st.memo st.params q.node
  node_lt : ∀ q ∈ st.rs, q.node < st.next ∧ q.node ≠ n
  lams_nodup : (st.rs.filterMap (fun q => q.lam)).Nodup
  ints_nodup : ((spineIntsA n st.rs).map Prod.snd).Nodup
  noint : NoInt k ps

/-! ## one argument more: the spine description -/

theorem spineIntsA_snoc (n : Nat) (rs : List HaArg) (q : HaArg) :
    spineIntsA n (rs ++ [q]) = spineIntsA n rs ++ (lamPair n q.lam ++ q.ints) := by
  simp [spineIntsA]

theorem mem_spineIntsA (n : Nat) (rs : List HaArg) (p : Nat × Nat) :
    p ∈ spineIntsA n rs ↔ (∃ q ∈ rs, q.lam = some p.2 ∧ p.1 = n) ∨ (∃ q ∈ rs, p ∈ q.ints) := by
  unfold spineIntsA
  simp only [List.mem_flatMap, List.mem_append]
  constructor
  · rintro ⟨q, hq, h | h⟩
    · left
      refine ⟨q, hq, ?_⟩
      cases hl : q.lam with
      | none => rw [hl] at h; cases h
      | some l =>
        rw [hl] at h
        simp only [lamPair, List.mem_singleton] at h
        rw [h]; exact ⟨rfl, rfl⟩
    · exact Or.inr ⟨q, hq, h⟩
  · rintro (⟨q, hq, h1, h2⟩ | ⟨q, hq, h⟩)
    · refine ⟨q, hq, Or.inl ?_⟩
      rw [h1]
      simp only [lamPair, List.mem_singleton]
      rw [← h2]
    · exact ⟨q, hq, Or.inr h⟩

theorem spineEdgesA_nil (n : Nat) (p : Nat × Nat) : ¬ SpineEdgesA n [] p := by
  simp [SpineEdgesA]

/-- one argument more; the internal node of the new argument (if any) is not the internal node of an earlier one -/
theorem spineEdgesA_snoc (n : Nat) (rs : List HaArg) (q : HaArg) (p : Nat × Nat)
    (hfresh : ∀ a ∈ rs, ∀ l, a.lam = some l → q.lam ≠ some l) :
    SpineEdgesA n (rs ++ [q]) p ↔
      SpineEdgesA n rs p ∨ p ∈ q.edges ∨ p = (n, q.node) ∨ (∃ l, q.lam = some l ∧ q.fed = true ∧ p = (q.node, l)) ∨
      (∃ a ∈ rs, ∃ l, a.lam = some l ∧ p = (l, q.node)) ∨
      (∃ l, q.lam = some l ∧ ∃ a ∈ rs, p = (l, a.node)) ∨
      (∃ l μ, q.lam = some l ∧ (q.node, μ) ∈ q.ints ∧ p = (μ, l)) := by
  unfold SpineEdgesA
  simp only [List.mem_append, List.mem_singleton]
  constructor
  · rintro (⟨a, ha | rfl, h⟩ | ⟨a, ha | rfl, h⟩ | ⟨a, ha | rfl, l, hl, hf, h⟩ | ⟨a, ha | rfl, b, hb | rfl, l, hl, hbl, h⟩ |
      ⟨a, ha | rfl, l, μ, hl, hm, h⟩)
    · exact Or.inl (Or.inl ⟨a, ha, h⟩)
    · exact Or.inr (Or.inl h)
    · exact Or.inl (Or.inr (Or.inl ⟨a, ha, h⟩))
    · exact Or.inr (Or.inr (Or.inl h))
    · exact Or.inl (Or.inr (Or.inr (Or.inl ⟨a, ha, l, hl, hf, h⟩)))
    · exact Or.inr (Or.inr (Or.inr (Or.inl ⟨l, hl, hf, h⟩)))
    · exact Or.inl (Or.inr (Or.inr (Or.inr (Or.inl ⟨a, ha, b, hb, l, hl, hbl, h⟩))))
    · exact Or.inr (Or.inr (Or.inr (Or.inr (Or.inl ⟨a, ha, l, hl, h⟩))))
    · exact Or.inr (Or.inr (Or.inr (Or.inr (Or.inr (Or.inl ⟨l, hl, b, hb, h⟩)))))
    · exact absurd hl hbl
    · exact Or.inl (Or.inr (Or.inr (Or.inr (Or.inr ⟨a, ha, l, μ, hl, hm, h⟩))))
    · exact Or.inr (Or.inr (Or.inr (Or.inr (Or.inr (Or.inr ⟨l, μ, hl, hm, h⟩)))))
  · rintro ((⟨a, ha, h⟩ | ⟨a, ha, h⟩ | ⟨a, ha, l, hl, hf, h⟩ | ⟨a, ha, b, hb, l, hl, hbl, h⟩ | ⟨a, ha, l, μ, hl, hm, h⟩) |
      h | h | ⟨l, hl, hf, h⟩ | ⟨a, ha, l, hl, h⟩ | ⟨l, hl, a, ha, h⟩ | ⟨l, μ, hl, hm, h⟩)
    · exact Or.inl ⟨a, Or.inl ha, h⟩
    · exact Or.inr (Or.inl ⟨a, Or.inl ha, h⟩)
    · exact Or.inr (Or.inr (Or.inl ⟨a, Or.inl ha, l, hl, hf, h⟩))
    · exact Or.inr (Or.inr (Or.inr (Or.inl ⟨a, Or.inl ha, b, Or.inl hb, l, hl, hbl, h⟩)))
    · exact Or.inr (Or.inr (Or.inr (Or.inr ⟨a, Or.inl ha, l, μ, hl, hm, h⟩)))
    · exact Or.inl ⟨q, Or.inr rfl, h⟩
    · exact Or.inr (Or.inl ⟨q, Or.inr rfl, h⟩)
    · exact Or.inr (Or.inr (Or.inl ⟨q, Or.inr rfl, l, hl, hf, h⟩))
    · exact Or.inr (Or.inr (Or.inr (Or.inl ⟨a, Or.inl ha, q, Or.inr rfl, l, hl, hfresh a ha l hl, h⟩)))
    · refine Or.inr (Or.inr (Or.inr (Or.inl ⟨q, Or.inr rfl, a, Or.inl ha, l, hl, ?_, h⟩)))
      intro hal
      exact hfresh a ha l hal hl
    · exact Or.inr (Or.inr (Or.inr (Or.inr ⟨q, Or.inr rfl, l, μ, hl, hm, h⟩)))

/-! ## the wiring of an argument with an internal node -/

theorem wireFed_frame (fed : Bool) (k : Core) (n x i : Nat) :
    (wireFed fed k n x i).nextB = k.nextB ∧ (wireFed fed k n x i).src = k.src ∧
    (wireFed fed k n x i).shared = k.shared ∧ (wireFed fed k n x i).ints = k.ints := by
  cases fed
  · exact wireP_frame k n x i
  · exact wire_frame k n x (some i)

theorem wireFed_mem (fed : Bool) (k : Core) (n x i : Nat) (p : Nat × Nat)
    (hnx : n ≠ x) (hnn : (n, n) ∉ k.ints) (hxn : (x, n) ∉ k.ints) :
    p ∈ (wireFed fed k n x i).frm ↔
      p ∈ k.frm ∨ (fed = true ∧ p = (x, i)) ∨ p = (n, x) ∨ (∃ j, (x, j) ∈ k.ints ∧ p = (j, i)) ∨
      (∃ j, (n, j) ∈ k.ints ∧ j ≠ i ∧ p = (j, x)) ∨
      (∃ fin, (n, fin) ∈ k.frm ∧ p = (i, fin)) := by
  cases fed
  · show p ∈ (wireP k n x (some i)).frm ↔ _
    rw [wireP_some_mem_all k n x i p hnx hnn hxn]
    simp
  · show p ∈ (wire k n x (some i)).frm ↔ _
    rw [wire_some_mem_gen k n x i p hnx hnn hxn]
    simp

/-! ## consequences of the invariant -/

theorem sInvA_init {n : Nat} {k0 : Core} {ps0 : Params} (hs : NoInt k0 ps0) :
    SInvA n k0 ps0 k0 ps0 { next := k0.nextB, memo := k0.src, params := ps0, rs := [] } := by
  refine ⟨rfl, rfl, rfl, rfl, by simp [spineIntsA], ?_, Nat.le_refl _, fun t ht => ht, fun t ht => Or.inl ht, by simp,
    by simp, by simp, by simp, by simp, by simp, by simp [spineIntsA], hs⟩
  intro p
  simp [spineEdgesA_nil]

theorem sInvA_facts {n : Nat} {k0 k : Core} {ps0 ps : Params} {st : HaArgs} (hctx : GCtxA n k0 ps0)
    (inv : SInvA n k0 ps0 k ps st) :
    (∀ p ∈ k.ints, p.1 < st.next ∧ (p.1 = n → ∃ q ∈ st.rs, q.lam = some p.2)) ∧
    (∀ p ∈ k.frm, p.1 < st.next) ∧
    (∀ t, TabNode st.memo st.params t → t < st.next ∧ t ≠ n) := by
  have hn := hctx.x_lt
  have hle := inv.le
  refine ⟨?_, ?_, ?_⟩
  · intro p hp
    rw [inv.ints_eq, List.mem_append] at hp
    rcases hp with hp | hp
    · have := hctx.ints p hp
      exact ⟨by omega, fun h => absurd h this.2⟩
    · rcases (mem_spineIntsA n st.rs p).1 hp with ⟨q, hq, h1, h2⟩ | ⟨q, hq, h⟩
      · exact ⟨by omega, fun _ => ⟨q, hq, h1⟩⟩
      · have := inv.ints_rng q hq p h
        exact ⟨this.2.1, fun h' => by omega⟩
  · intro p hp
    rcases (inv.frm_iff p).1 hp with h | ⟨q, hq, h⟩ | ⟨a, ha, h⟩ | ⟨a, ha, l, hl, _, h⟩ | ⟨a, ha, b, hb, l, hl, _, h⟩ |
      ⟨q, hq, l, μ, _, hm, h⟩
    · have := (hctx.frm p h).1; omega
    · exact (inv.edges_rng q hq p h).2.1
    · rw [h]; show n < _; omega
    · rw [h]; exact (inv.node_lt a ha).1
    · rw [h]; exact (inv.lam_rng a ha l hl).2
    · rw [h]; exact (inv.ints_rng q hq _ hm).2.2.2
  · intro t ht
    rcases inv.tab_rng t ht with h | h
    · have := hctx.tab t h
      exact ⟨by omega, this.2⟩
    · exact ⟨h.2, by omega⟩

theorem sInvA_ints_lt {n : Nat} {k0 k : Core} {ps0 ps : Params} {st : HaArgs} (inv : SInvA n k0 ps0 k ps st) :
    ∀ p ∈ spineIntsA n st.rs, p.2 < st.next := by
  intro p hp
  rcases (mem_spineIntsA n st.rs p).1 hp with ⟨q, hq, h1, _⟩ | ⟨q, hq, h⟩
  · exact (inv.lam_rng q hq _ h1).2
  · exact (inv.ints_rng q hq p h).2.2.2

/-- the context for a data argument: its node `st.next` has been reserved -/
theorem sInvA_ctx_data {n : Nat} {k0 k : Core} {ps0 ps : Params} {st : HaArgs} (hctx : GCtxA n k0 ps0)
    (inv : SInvA n k0 ps0 k ps st) : GCtxA st.next k.fresh.1 ps ∧ NoInt k.fresh.1 ps := by
  obtain ⟨hI, hF, hM⟩ := sInvA_facts hctx inv
  have hn := hctx.x_lt
  have hle := inv.le
  refine ⟨⟨?_, ?_, ?_, ?_⟩, inv.noint⟩
  · show st.next < k.nextB + 1
    rw [inv.next_eq]; omega
  · intro p hp
    have := (hI p hp).1
    refine ⟨?_, by omega⟩
    show p.1 < k.nextB + 1
    rw [inv.next_eq]; omega
  · intro p hp
    have := hF p hp
    refine ⟨?_, by omega⟩
    show p.1 < k.nextB + 1
    rw [inv.next_eq]; omega
  · intro t ht
    have ht' : TabNode st.memo st.params t := by
      rw [← inv.src_eq, ← inv.par_eq]; exact ht
    have := (hM t ht').1
    refine ⟨?_, by omega⟩
    show t < k.nextB + 1
    rw [inv.next_eq]; omega

/-- the context for an argument with an internal node: the node `st.next` and the internal node `st.next + 1` have been
reserved; `ps1` is the parameter table for the argument (the table so far, or extended by the parameters of an
abstraction, which denote the internal node) -/
theorem sInvA_ctx_fun {n : Nat} {k0 k : Core} {ps0 ps : Params} {st : HaArgs} (hctx : GCtxA n k0 ps0)
    (inv : SInvA n k0 ps0 k ps st) (ps1 : Params)
    (hps1 : ∀ t, TabNode k.src ps1 t → TabNode k.src ps t ∨ t = st.next + 1) :
    GCtxA st.next (funCore2 k n) ps1 ∧ NoInt (funCore2 k n) ps1 := by
  obtain ⟨hI, hF, hM⟩ := sInvA_facts hctx inv
  have hn := hctx.x_lt
  have hle := inv.le
  have hkn : k.nextB = st.next := inv.next_eq
  have K1n : (funCore2 k n).nextB = st.next + 2 := by show k.nextB + 2 = _; rw [hkn]
  have K1i : (funCore2 k n).ints = k.ints ++ [(n, st.next + 1)] := by
    show k.ints ++ [(n, k.nextB + 1)] = _; rw [hkn]
  have hT : ∀ t, TabNode (funCore2 k n).src ps1 t → (t < st.next ∧ t ≠ n) ∨ t = st.next + 1 := by
    intro t ht
    rcases hps1 t ht with h | h
    · left
      exact hM t (by rw [← inv.src_eq, ← inv.par_eq]; exact h)
    · exact Or.inr h
  refine ⟨⟨by rw [K1n]; omega, ?_, ?_, ?_⟩, ?_⟩
  · intro p hp
    rw [K1i, List.mem_append, List.mem_singleton] at hp
    rw [K1n]
    rcases hp with hp | rfl
    · have := (hI p hp).1
      exact ⟨by omega, by omega⟩
    · exact ⟨by show n < _; omega, by show n ≠ _; omega⟩
  · intro p hp
    have := hF p hp
    rw [K1n]
    exact ⟨by omega, by omega⟩
  · intro t ht
    rw [K1n]
    rcases hT t ht with h | h
    · exact ⟨by omega, by omega⟩
    · exact ⟨by omega, by omega⟩
  · intro p hp t ht
    rw [K1i, List.mem_append, List.mem_singleton] at hp
    rcases hp with hp | rfl
    · rcases hps1 t ht with h | h
      · exact inv.noint p hp t h
      · have := (hI p hp).1
        omega
    · show n ≠ t
      rcases hT t ht with h | h
      · exact fun h' => h.2 h'.symm
      · omega

end Tfv.C08P
