import sys
sys.path.insert(0,'/repo')
from transforge.type import *
from transforge.expr import *
from transforge.lang import *
A=TypeOperator('A'); F=TypeOperator('F',params=1)
f=Operator(type=lambda x: x**x, name='f')
lang=Language(dict(A=A,F=F,f=f))
for n in (100,300,330,400,500,1000,3000):
    s='f (- : '+'F('*n+'A'+')'*n+')'
    try:
        e=lang.parse(s); r='ok'
    except BaseException as ex: r=type(ex).__name__
    s2='('*n+'f'+')'*n+' (-: A)'
    try:
        e=lang.parse(s2); r2='ok'
    except BaseException as ex: r2=type(ex).__name__
    s3='f ('*n+'- : A'+')'*n
    try:
        e=lang.parse(s3); r3='ok'; 
        try: e.fix(); r3+=' fix-ok'
        except BaseException as ex: r3+=' fix-'+type(ex).__name__
    except BaseException as ex: r3=type(ex).__name__
    print(n, r, r2, r3)
