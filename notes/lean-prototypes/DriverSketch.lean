import Proto.Sub
open P
partial def loop (h : IO.FS.Stream) (n : Nat) : IO Unit := do
  let line ← h.getLine
  if line.isEmpty then return ()
  let ws := line.trimAscii.toString.splitOn " "
  match ws with
  | ["anc", a, b] => IO.println (toString (isAnc [⟨"Unit",[],none⟩,⟨"Top",[],none⟩,⟨"Bottom",[],none⟩,⟨"A",[],none⟩,⟨"B",[],some 3⟩] 10 a.toNat! b.toNat!))
  | _ => IO.println "bad"
  loop h (n+1)
def main : IO Unit := do loop (← IO.getStdin) 0
