import Tfv.Model
import Tfv.Spec.Lambda
import Tfv.Proofs.LambdaMain
/-!
# C15 — expansion of composite operators

"`primitive()` returns the expression obtained by replacing every composite operator by its definition and
reducing all applications of anonymous functions: the result contains no composite operator and no reducible
application, equals the independently computed normal form, has the same or a more specific type than the
unexpanded expression, and expanding it again changes nothing."

The statements are about the model `Tfv/Model/Lambda.lean` (M5b): de Bruijn terms, `unfoldDefs` (replace
every defined operator by `λ…λ. body`), `nf` (fuelled leftmost-outermost beta normalisation) and
`primitiveL defs fuel t = nf fuel (unfoldDefs defs (defs.length + 1) t)`. The reference notions
(`Red`, `RedStar`, `Delta`, `DeltaStar`, `noRedex`, `noDefined`, `depOrdered`, `height`) are in
`Tfv/Spec/Lambda.lean`; the proofs in `Tfv/Proofs/Lambda*.lean` (namespace `Tfv.C15P`).

What is proved:

1. **No composite operator, no reducible application** (`C15_unfold_complete`, `C15_no_redex`,
   `C15_normal_partial`, `C15_normal_acyclic`, `C15_normal_of_unfolded`): for a definition list in dependency
   order — more generally any list without recursion (`Stratified`) — the unfolding fuel `defs.length + 1`
   that `primitiveL` uses is enough, and every successful result satisfies `normalB`. Without that hypothesis
   the statement is false of the model: `C15_normal_fails_recursive` (`a := a`).
2. **Expanding again changes nothing** (`C15_idempotent_nf`, `C15_unfold_identity`, `C15_idempotent`).
3. **The result is obtained by unfolding definitions and beta steps only** (`C15_sound`, `C15_whnf_sound`,
   `C15_unfold_is_delta`, `C15_primitive_is_reduction`).
4. **The fuel is an artefact** (`C15_fuel_monotone`, `C15_whnf_fuel_monotone`, `C15_deterministic`,
   `C15_primitive_deterministic`): more fuel never changes an answer.
5. **The result equals the independently computed normal form** (`C15_confluent`, `C15_normal_form_unique`,
   `C15_equals_normal_form`, `C15_standard_agrees`): beta reduction on these terms is confluent
   (Church–Rosser, proved via parallel reduction and complete developments after showing that the model's
   integer-shift `LTerm.beta` is ordinary capture-free substitution, `C15_beta_is_substitution`), so a term has
   at most one normal form and `nf` returns it, whichever strategy an independent evaluator uses; in particular
   `nf` agrees with the applicative-order evaluator `nfInner` whenever both terminate.
6. **The normaliser is complete** (`C15_complete`, `C15_none_iff_no_normal_form`, `C15_primitive_complete`):
   leftmost-outermost reduction is normalising (standardisation theorem), so if the unfolded expression has a
   normal form at all, `nf`/`primitiveL` return it for every sufficiently large fuel; `none` for every fuel
   means there is no normal form.

Outside this model, covered by the differential test and the oracle instead: **type preservation** ("the same
or a more specific type") — the terms here are untyped — and the **in-place mutation** of `Variable` objects by
the real implementation: it used to coincide with capture-free substitution only when no definition used a
parameter twice (defect D8); since the repair (every occurrence of a parameter gets a copy of the argument) the
differential test compares `primitive()` with `primitiveL` on all expressions. Termination is not claimed: untyped terms such as `exOmega` have no
normal form and `nf` returns `none` on them for every fuel (shown below).
-/
namespace Tfv.C15
open Tfv Tfv.LamSpec Tfv.C15P

/-! ## 1. the result is normal -/

/-- If the definitions are in dependency order (the body of each definition mentions only operators that
are undefined or defined strictly earlier in the list), unfolding with any fuel `n ≥ defs.length` — `primitiveL`
uses `defs.length + 1` — leaves no operator that has a definition. Distinctness of the names is not needed:
a later definition with a name already used is never looked at (`List.find?` returns the first). -/
theorem C15_unfold_complete (defs : List LDef) (hd : depOrdered defs = true) (n : Nat)
    (hn : defs.length ≤ n) (t : LTerm) : noDefined defs (unfoldDefs defs n t) = true :=
  unfold_complete hd n hn t

example : depOrdered exDefs = true ∧ wfDefs exDefs = true ∧ exDefs.length ≤ exDefs.length + 1 ∧
    unfoldDefs exDefs (exDefs.length + 1) exTerm2 = exUnfolded2 ∧ noDefined exDefs exTerm2 = false :=
  ⟨exDefs_dep, exDefs_wf, Nat.le_succ _, exUnfold2, by decide⟩

/-- The same for any definition list without recursion, in whatever order it is written: it is enough that
some level function `ρ` bounded by the number of definitions strictly decreases from a defined name to
every defined operator in its body (`Stratified`). The fuel counts nesting depth of definitions, not
position in the list. -/
theorem C15_unfold_complete_acyclic (defs : List LDef) (ρ : String → Nat) (hd : Stratified defs ρ)
    (n : Nat) (hn : defs.length ≤ n) (t : LTerm) : noDefined defs (unfoldDefs defs n t) = true :=
  unfold_complete_strat hd n hn t

example : Stratified exRev (fun n => if n = "a" then 1 else 0) ∧ depOrdered exRev = false ∧
    unfoldDefs exRev (exRev.length + 1) (.op "a") = .op "u" :=
  ⟨exRev_stratified, exRev_not_dep, exRev_unfold⟩

/-- A dependency-ordered list is stratified by position. -/
theorem C15_depOrdered_stratified (defs : List LDef) (hd : depOrdered defs = true) :
    Stratified defs (rank defs) :=
  depOrdered_stratified hd

/-- Every successful run of the normaliser returns a term without reducible application: no
`.app f x` anywhere in it has an anonymous function as `f`. No hypothesis on the input. -/
theorem C15_no_redex (n : Nat) (t r : LTerm) (h : nf n t = some r) : noRedex r = true :=
  nf_noRedex n t r h

example : nf 6 exUnfolded = some exResult ∧ noRedex exUnfolded = false := ⟨exNf, by decide⟩

/-- `normalB` (the check the driver reports) is exactly "no reducible application and no defined operator". -/
theorem C15_normalB_iff (defs : List LDef) (t : LTerm) :
    normalB defs t = (noRedex t && noDefined defs t) :=
  normalB_iff defs t

/-- C15, first clause, in its weakest form: whenever the unfolding step left no defined operator, a
successful `primitiveL` returns a term with no composite operator and no reducible application. -/
theorem C15_normal_of_unfolded (defs : List LDef) (fuel : Nat) (t r : LTerm)
    (hu : noDefined defs (unfoldDefs defs (defs.length + 1) t) = true)
    (h : primitiveL defs fuel t = some r) : normalB defs r = true :=
  primitive_normal_of_unfolded hu h

/-- C15, first clause, for definitions in dependency order: a successful `primitiveL` returns a term with no
composite operator and no reducible application. Named `_partial` because the hypothesis on `defs` cannot
be dropped (`C15_normal_fails_recursive`). -/
theorem C15_normal_partial (defs : List LDef) (hd : depOrdered defs = true) (fuel : Nat) (t r : LTerm)
    (h : primitiveL defs fuel t = some r) : normalB defs r = true :=
  primitive_normal hd h

example : depOrdered exDefs = true ∧ primitiveL exDefs 6 exTerm = some exResult ∧
    normalB exDefs exResult = true ∧ normalB exDefs exTerm = false :=
  ⟨exDefs_dep, exPrim, exResult_normal, by decide⟩

example : primitiveL exDefs 16 exTerm2 = some exResult2 ∧ normalB exDefs exResult2 = true :=
  ⟨exPrim2, exResult2_normal⟩

/-- The same for any definition list without recursion (`Stratified`), in any order. -/
theorem C15_normal_acyclic (defs : List LDef) (ρ : String → Nat) (hd : Stratified defs ρ) (fuel : Nat)
    (t r : LTerm) (h : primitiveL defs fuel t = some r) : normalB defs r = true :=
  primitive_normal_strat hd h

/-- Counterexample to the unconditional statement: with the recursive definition `a := a` the model's
`primitiveL` succeeds on `a` and returns `a` itself, which still is a composite operator. -/
theorem C15_normal_fails_recursive :
    primitiveL exRec 5 (.op "a") = some (.op "a") ∧ normalB exRec (.op "a") = false ∧
    depOrdered exRec = false :=
  ⟨exRec_prim, exRec_not_normal, exRec_not_dep⟩

/-! ## 2. expanding again changes nothing -/

/-- A term without reducible application normalises to itself, for every fuel above its height. -/
theorem C15_idempotent_nf (r : LTerm) (hr : noRedex r = true) (m : Nat) (hm : height r < m) :
    nf m r = some r :=
  nf_fix m r hr hm

/-- Normalising the result of a normalisation again returns it unchanged. -/
theorem C15_nf_nf (n : Nat) (t r : LTerm) (h : nf n t = some r) (m : Nat) (hm : height r < m) :
    nf m r = some r :=
  nf_fix m r (nf_noRedex n t r h) hm

example : nf 6 exUnfolded = some exResult ∧ height exResult < 4 ∧ nf 4 exResult = some exResult :=
  ⟨exNf, by decide, by decide⟩

/-- Unfolding is the identity on a term without defined operators, for every fuel. -/
theorem C15_unfold_identity (defs : List LDef) (n : Nat) (t : LTerm) (h : noDefined defs t = true) :
    unfoldDefs defs n t = t :=
  unfold_id n t h

/-- "Expanding it again changes nothing": a term that passes `normalB` is returned unchanged by
`primitiveL`, for every fuel above its height. -/
theorem C15_primitive_fixed_point (defs : List LDef) (r : LTerm) (h : normalB defs r = true) (m : Nat)
    (hm : height r < m) : primitiveL defs m r = some r :=
  primitive_fix h m hm

/-- C15, last clause: for definitions in dependency order, expanding the result of an expansion returns
it unchanged (with any fuel above the height of the result; by `C15_fuel_monotone` no fuel gives a
different answer). -/
theorem C15_idempotent (defs : List LDef) (hd : depOrdered defs = true) (fuel : Nat) (t r : LTerm)
    (h : primitiveL defs fuel t = some r) (m : Nat) (hm : height r < m) :
    primitiveL defs m r = some r :=
  primitive_fix (primitive_normal hd h) m hm

example : depOrdered exDefs = true ∧ primitiveL exDefs 6 exTerm = some exResult ∧
    height exResult < 4 ∧ primitiveL exDefs 4 exResult = some exResult :=
  ⟨exDefs_dep, exPrim, by decide, primitive_fix exResult_normal 4 (by decide)⟩

/-! ## 3. only unfolding and beta steps -/

/-- The result of `nf` is reached from the input by beta steps (`Red`: contract one `(λ. b) x` anywhere). -/
theorem C15_sound (n : Nat) (t r : LTerm) (h : nf n t = some r) : RedStar t r :=
  nf_sound n t r h

/-- The same for weak head normalisation. -/
theorem C15_whnf_sound (n : Nat) (t r : LTerm) (h : whnf n t = some r) : RedStar t r :=
  whnf_sound n t r h

example : whnf 5 exUnfolded = some (.app (.op "u1") (.app (.op "u1") (.app (.op "u2") (.src 0)))) := by
  decide

/-- `unfoldDefs` performs delta steps only (`Delta`: replace one defined operator by `λ…λ. body` of its
first definition), for every fuel and every definition list. -/
theorem C15_unfold_is_delta (defs : List LDef) (n : Nat) (t : LTerm) :
    DeltaStar defs t (unfoldDefs defs n t) :=
  unfold_delta defs n t

/-- `primitiveL` is delta unfolding followed by beta reduction. -/
theorem C15_primitive_is_reduction (defs : List LDef) (fuel : Nat) (t r : LTerm)
    (h : primitiveL defs fuel t = some r) : ∃ u, DeltaStar defs t u ∧ RedStar u r :=
  primitive_is_reduction h

example : DeltaStar exDefs exTerm exUnfolded ∧ RedStar exUnfolded exResult :=
  ⟨exUnfold ▸ unfold_delta exDefs _ exTerm, nf_sound 6 _ _ exNf⟩

/-! ## 4. the fuel is an artefact -/

/-- More fuel never changes an answer of `nf`. -/
theorem C15_fuel_monotone (n m : Nat) (t r : LTerm) (h : nf n t = some r) (hnm : n ≤ m) :
    nf m t = some r :=
  nf_mono h hnm

/-- More fuel never changes an answer of `whnf`. -/
theorem C15_whnf_fuel_monotone (n m : Nat) (t r : LTerm) (h : whnf n t = some r) (hnm : n ≤ m) :
    whnf m t = some r :=
  whnf_mono h hnm

/-- Two successful runs of `nf` with different fuels return the same term. -/
theorem C15_deterministic (n m : Nat) (t r₁ r₂ : LTerm) (h₁ : nf n t = some r₁) (h₂ : nf m t = some r₂) :
    r₁ = r₂ :=
  nf_deterministic h₁ h₂

/-- More fuel never changes an answer of `primitiveL`. -/
theorem C15_primitive_fuel_monotone (defs : List LDef) (n m : Nat) (t r : LTerm)
    (h : primitiveL defs n t = some r) (hnm : n ≤ m) : primitiveL defs m t = some r :=
  primitive_mono h hnm

/-- Two successful runs of `primitiveL` with different fuels return the same term. -/
theorem C15_primitive_deterministic (defs : List LDef) (n m : Nat) (t r₁ r₂ : LTerm)
    (h₁ : primitiveL defs n t = some r₁) (h₂ : primitiveL defs m t = some r₂) : r₁ = r₂ :=
  primitive_deterministic h₁ h₂

example : primitiveL exDefs 5 exTerm = none ∧ primitiveL exDefs 6 exTerm = some exResult ∧
    primitiveL exDefs 100 exTerm = some exResult :=
  ⟨exPrim_short, exPrim, primitive_mono exPrim (by decide)⟩

/-! ## 5. the independently computed normal form -/

/-- The model's beta step, written with integer shifts like the Python code
(`shift (-1) 0 (subst 0 (shift 1 0 x) b)`), is the ordinary capture-free substitution of `x` for index 0
in `b` (`lsub`, one pass, natural-number `llift`). -/
theorem C15_beta_is_substitution (b x : LTerm) : LTerm.beta b x = lsub b x 0 :=
  beta_eq b x

/-- Church–Rosser: two beta reduction sequences from the same term can always be joined. -/
theorem C15_confluent (a b c : LTerm) (hab : RedStar a b) (hac : RedStar a c) :
    ∃ d, RedStar b d ∧ RedStar c d :=
  red_confluent hab hac

example : RedStar exUnfolded exResult ∧ RedStar exUnfolded exUnfolded := ⟨nf_sound 6 _ _ exNf, .refl _⟩

/-- `noRedex` is exactly "no beta step is possible". -/
theorem C15_noRedex_iff_normal (t : LTerm) : noRedex t = true ↔ Normal t :=
  ⟨noRedex_normal, normal_noRedex⟩

/-- A term has at most one normal form, whatever the order of reduction. -/
theorem C15_normal_form_unique (t r₁ r₂ : LTerm) (h₁ : RedStar t r₁) (h₂ : RedStar t r₂)
    (n₁ : noRedex r₁ = true) (n₂ : noRedex r₂ = true) : r₁ = r₂ :=
  normal_form_unique h₁ h₂ n₁ n₂

/-- C15, "equals the independently computed normal form": if `nf` succeeds, its result is THE normal form
of the input — any term without reducible application that somebody reaches from the input by beta steps,
in any order, is that result. -/
theorem C15_equals_normal_form (n : Nat) (t r r' : LTerm) (h : nf n t = some r) (hr : RedStar t r')
    (hn : noRedex r' = true) : r = r' :=
  nf_eq_normal_form h hr hn

/-- The applicative-order evaluator `nfInner` (normalise function and argument first, then contract) also
performs beta steps only and returns terms without reducible application. -/
theorem C15_inner_spec (n : Nat) (t r : LTerm) (h : nfInner n t = some r) :
    RedStar t r ∧ noRedex r = true :=
  nfInner_spec n t r h

/-- Leftmost-outermost `nf` (the model) and innermost `nfInner` (an independent strategy) return the same
term whenever both terminate. -/
theorem C15_standard_agrees (n m : Nat) (t r₁ r₂ : LTerm) (h₁ : nf n t = some r₁)
    (h₂ : nfInner m t = some r₂) : r₁ = r₂ :=
  nf_agrees_inner h₁ h₂

example : nf 6 exUnfolded = some exResult ∧ nfInner 10 exUnfolded = some exResult := ⟨exNf, exInner⟩
example : nf 16 exUnfolded2 = some exResult2 ∧ nfInner 13 exUnfolded2 = some exResult2 :=
  ⟨exNf2, exInner2⟩
/-- the two strategies do differ in termination: `(λx. s0) Ω` -/
example : nf 2 exK = some (.src 0) ∧ nfInner 50 exK = none := ⟨exK_nf, exK_inner⟩

/-! ## 6. the normaliser finds the normal form whenever there is one -/

/-- Normalisation theorem (leftmost-outermost reduction is normalising): if the input can be brought to a
term `r` without reducible application by beta steps in ANY order, then `nf` returns exactly `r` for every
sufficiently large fuel. Together with `C15_sound`/`C15_no_redex`: `nf` is a complete and correct
computation of the normal form; the fuel only decides how long one is willing to wait. -/
theorem C15_complete (t r : LTerm) (h : RedStar t r) (hn : noRedex r = true) :
    ∃ n, ∀ m, n ≤ m → nf m t = some r :=
  (nf_complete h hn).elim fun n hnf => ⟨n, fun _ hm => nf_mono hnf hm⟩

example : RedStar exK (.src 0) ∧ noRedex (.src 0) = true ∧ nfInner 50 exK = none :=
  ⟨nf_sound 2 _ _ exK_nf, rfl, exK_inner⟩

/-- `nf` returns `none` for every fuel exactly when the input has no normal form at all. -/
theorem C15_none_iff_no_normal_form (t : LTerm) :
    (∀ n, nf n t = none) ↔ ¬ ∃ r, RedStar t r ∧ noRedex r = true :=
  nf_none_iff t

/-- `(λx. x x) (λx. x x)` has no normal form: the model's normaliser fails on it for every fuel. -/
example : ∀ n, nf n exOmega = none := exOmega_diverges

/-- If the unfolded expression has a normal form, `primitiveL` returns it for every sufficiently large fuel. -/
theorem C15_primitive_complete (defs : List LDef) (t r : LTerm)
    (h : RedStar (unfoldDefs defs (defs.length + 1) t) r) (hn : noRedex r = true) :
    ∃ n, ∀ m, n ≤ m → primitiveL defs m t = some r :=
  primitive_complete h hn

example : RedStar (unfoldDefs exDefs (exDefs.length + 1) exTerm) exResult ∧ noRedex exResult = true :=
  ⟨exUnfold ▸ nf_sound 6 _ _ exNf, by decide⟩

end Tfv.C15
