import Tfv.Model
import Tfv.Spec.Sub
import Tfv.Spec.Taxonomy
import Tfv.Proofs.SubOrder
import Tfv.Proofs.Canon
import Tfv.Proofs.CanonComplete
import Tfv.Proofs.CanonClosed
import Tfv.Proofs.CanonLinks
/-!
# Helper lemmas for C10: direct sub- and supertype links mirror each other between
`Top`/`Bottom`-free members of a closed canon
-/
namespace Tfv.Tax
open Tfv

/-! ## 1. shape of `Top`/`Bottom`-free base successors -/

theorem tbFree_top_false : tbFree (.app TOP []) = false := by
  cases h : tbFree (.app TOP []) with
  | false => rfl
  | true => exact absurd rfl (tbFree_app.mp h).1

theorem tbFree_bot_false : tbFree (.app BOT []) = false := by
  cases h : tbFree (.app BOT []) with
  | false => rfl
  | true => exact absurd rfl (tbFree_app.mp h).2.1

theorem baseSucc_down_tbfree {L : Lang} {o : SOpts} {op : Nat} {s : Ty} (hT : op ≠ TOP)
    (hs : s ∈ baseSucc L o false op) (hf : tbFree s = true) :
    ∃ c, s = .app c [] ∧ parentOf L c = some op := by
  have hTb : (op == TOP) = false := by simpa using hT
  unfold baseSucc at hs
  simp only [Bool.not_false, if_true, hTb, Bool.false_eq_true, if_false] at hs
  by_cases hc : (o.custom && !(childrenOf L op).isEmpty) = true
  · simp only [hc, if_true, List.mem_map] at hs
    obtain ⟨c, hc1, rfl⟩ := hs
    exact ⟨c, rfl, mem_childrenOf.mp hc1⟩
  · simp only [hc, Bool.false_eq_true, if_false] at hs
    by_cases hb : (o.bottom && op != BOT) = true
    · simp only [hb, if_true, List.mem_singleton] at hs
      subst hs
      rw [tbFree_bot_false] at hf
      cases hf
    · simp [hb] at hs

theorem baseSucc_up_tbfree {L : Lang} {o : SOpts} {op : Nat} {s : Ty} (hB : op ≠ BOT)
    (hs : s ∈ baseSucc L o true op) (hf : tbFree s = true) :
    ∃ p, s = .app p [] ∧ parentOf L op = some p := by
  have hBb : (op == BOT) = false := by simpa using hB
  unfold baseSucc at hs
  simp only [Bool.not_true, Bool.false_eq_true, if_false, hBb] at hs
  have htop : s ∈ (if (o.top && op != TOP) = true then [Ty.app TOP []] else []) → False := by
    intro h
    by_cases hb : (o.top && op != TOP) = true
    · simp only [hb, if_true, List.mem_singleton] at h
      subst h
      rw [tbFree_top_false] at hf
      cases hf
    · simp [hb] at h
  cases hp : parentOf L op with
  | some p =>
    by_cases hc : o.custom = true
    · simp only [hc, hp, Option.isSome_some, Bool.and_self, if_true, List.mem_singleton] at hs
      exact ⟨p, hs, rfl⟩
    · simp only [hc, Bool.false_and, Bool.false_eq_true, if_false] at hs
      exact (htop hs).elim
  | none =>
    simp only [hp, Option.isSome_none, Bool.and_false, Bool.false_eq_true, if_false] at hs
    exact (htop hs).elim

/-! ## 2. successors mirror each other on `Top`/`Bottom`-free types -/

mutual
theorem succT_mirror {L : Lang} (wf : WF L) {o : SOpts} (hc : o.custom = true) : ∀ (up : Bool) (t s : Ty),
    wfTy L t = true → tbFree t = true → tbFree s = true → s ∈ succT L o up t → t ∈ succT L o (!up) s
  | up, .app b bs, s, hw, ht, hs, h => by
    obtain ⟨hb1, hb2, hb3⟩ := tbFree_app.mp ht
    by_cases h0 : arityOf L b = 0
    · have hnil := wfTy_nullary hw h0
      subst hnil
      rw [succT_base h0] at h
      cases up
      · obtain ⟨c, rfl, hp⟩ := baseSucc_down_tbfree hb1 h hs
        have h5 := wf.builtin_orphan _ _ hp
        rw [Bool.not_false, succT_base (wf.child_nullary _ _ hp)]
        exact baseSucc_parent hc hp (by unfold BOT; omega)
      · obtain ⟨p, rfl, hp⟩ := baseSucc_up_tbfree hb2 h hs
        rw [Bool.not_true, succT_base (wf.parent_nullary _ _ hp)]
        exact baseSucc_child hc hp (wf.parent_not_top _ _ hp)
    · have hb : (arityOf L b == 0) = false := by simpa using h0
      simp only [succT, hb, Bool.false_eq_true, if_false] at h
      by_cases he : (succArgs L o up (varianceOf L b) bs).isEmpty = true
      · simp only [he, if_true] at h
        exfalso
        by_cases hbot : (o.bottom && !up) = true
        · simp only [hbot, if_true, List.mem_singleton] at h
          subst h; rw [tbFree_bot_false] at hs; cases hs
        · simp only [hbot, Bool.false_eq_true, if_false] at h
          by_cases htop : (o.top && up) = true
          · simp only [htop, if_true, List.mem_singleton] at h
            subst h; rw [tbFree_top_false] at hs; cases hs
          · simp [htop] at h
      · simp only [he, Bool.false_eq_true, if_false, List.mem_map] at h
        obtain ⟨as, has, rfl⟩ := h
        exact succT_app_mem h0
          (succArgs_mirror wf hc up (varianceOf L b) bs as (wfTy_app hw).2 hb3 (tbFree_app.mp hs).2.2 has)
theorem succArgs_mirror {L : Lang} (wf : WF L) {o : SOpts} (hc : o.custom = true) : ∀ (up : Bool)
    (vs : List Bool) (ts ss : List Ty), wfTyL L ts = true → tbFreeL ts = true → tbFreeL ss = true →
    ss ∈ succArgs L o up vs ts → ts ∈ succArgs L o (!up) vs ss
  | _, [], _, _, _, _, _, h => by simp [succArgs] at h
  | _, _ :: _, [], _, _, _, _, h => by simp [succArgs] at h
  | up, v :: vs, p :: ps, ss, hw, ht, hs, h => by
    simp only [succArgs, List.mem_append, List.mem_map] at h
    obtain ⟨t1, t2⟩ := tbFreeL_cons.mp ht
    rcases h with ⟨q, hq, rfl⟩ | ⟨qs, hqs, rfl⟩
    · obtain ⟨s1, _⟩ := tbFreeL_cons.mp hs
      have := succT_mirror wf hc (up == v) p q (wfTyL_cons hw).1 t1 s1 hq
      apply succArgs_head
      have e : ((!up) == v) = !(up == v) := by cases up <;> cases v <;> rfl
      rw [e]; exact this
    · obtain ⟨_, s2⟩ := tbFreeL_cons.mp hs
      exact succArgs_tail (succArgs_mirror wf hc up vs ps qs (wfTyL_cons hw).2 t2 s2 hqs)
end

theorem succT_mirror_iff {L : Lang} (wf : WF L) {o : SOpts} (hc : o.custom = true) {t s : Ty}
    (hwt : wfTy L t = true) (hws : wfTy L s = true) (ht : tbFree t = true) (hs : tbFree s = true) :
    s ∈ succT L o false t ↔ t ∈ succT L o true s :=
  ⟨succT_mirror wf hc false t s hwt ht hs, succT_mirror wf hc true s t hws hs ht⟩

/-! ## 3. a type between two `Top`/`Bottom`-free types is `Top`/`Bottom`-free -/

mutual
theorem between_tbFree {L : Lang} (wf : WF L) : ∀ (m s t : Ty), tbFree s = true → tbFree t = true →
    Sub L s m → Sub L m t → tbFree m = true
  | .app c cs, .app a as, .app b bs, hs, ht, h1, h2 => by
    obtain ⟨ha1, ha2, ha3⟩ := tbFree_app.mp hs
    obtain ⟨hb1, hb2, hb3⟩ := tbFree_app.mp ht
    have hcT : c ≠ TOP := by
      intro e; subst e
      exact hb1 (sub_top_left wf h2).1
    have hcB : c ≠ BOT := by
      intro e; subst e
      exact ha2 (sub_bot_right wf h1).1
    refine tbFree_app.mpr ⟨hcT, hcB, ?_⟩
    rcases sub_inv h1 with ⟨e, _⟩ | ⟨e, _⟩ | ⟨_, e2, _, _, _⟩ | ⟨e1, n1, r1⟩
    · exact absurd e ha2
    · exact absurd e hcT
    · rw [e2]; exact tbFreeL_nil
    · rcases sub_inv h2 with ⟨e, _⟩ | ⟨e, _⟩ | ⟨f1, _, _, _, _⟩ | ⟨f1, m1, r2⟩
      · exact absurd e hcB
      · exact absurd e hb1
      · rw [f1]; exact tbFreeL_nil
      · subst e1
        exact betweenArgs_tbFree wf cs (varianceOf L a) as bs ha3 hb3 r1 r2
theorem betweenArgs_tbFree {L : Lang} (wf : WF L) : ∀ (ms : List Ty) (vs : List Bool) (ss ts : List Ty),
    tbFreeL ss = true → tbFreeL ts = true → SubArgs L vs ss ms → SubArgs L vs ms ts → tbFreeL ms = true
  | [], _, _, _, _, _, _, _ => tbFreeL_nil
  | m :: ms, vs, ss, ts, hs, ht, h1, h2 => by
    obtain ⟨v, vs', s, ss', e1, e2, p1, q1⟩ := subArgs_cons_right h1
    obtain ⟨v2, vs2, u, us', f1, f2, p2, q2⟩ := subArgs_cons_left h2
    rw [e1] at f1
    injection f1 with f1a f1b
    rw [← f1a] at p2; rw [← f1b] at q2
    subst e2; subst f2
    obtain ⟨s1, s2⟩ := tbFreeL_cons.mp hs
    obtain ⟨t1, t2⟩ := tbFreeL_cons.mp ht
    refine tbFreeL_cons.mpr ⟨?_, betweenArgs_tbFree wf ms vs' ss' us' s2 t2 q1 q2⟩
    cases v with
    | true => exact between_tbFree wf m s u s1 t1 (by simpa using p1) (by simpa using p2)
    | false => exact between_tbFree wf m u s t1 s1 (by simpa using p2) (by simpa using p1)
end

/-! ## 4. links of a closed canon between `Top`/`Bottom`-free members -/

theorem link_inv {L : Lang} {c : CanonCfg} {canon : List Ty} {n : Nat} {up : Bool} {t s : Ty}
    (h : Link L c canon (n+1) up t s) :
    (s ∈ succT L (langOpts L c) up t ∧ s ∈ canon) ∨
    (∃ m, m ∈ succT L (langOpts L c) up t ∧ m ∉ canon ∧ s ∈ succT L (langOpts L c) up m ∧ s ∈ canon) := by
  unfold Link at h
  simp only [langSucc, List.mem_flatMap] at h
  obtain ⟨m, hm, h⟩ := h
  by_cases hmem : memTy m canon = true
  · simp only [hmem, if_true, Bool.false_eq_true, if_false, List.mem_singleton] at h
    subst h
    exact Or.inl ⟨hm, (memTy_iff _ _).mp hmem⟩
  · simp only [hmem, Bool.false_eq_true, if_false, List.mem_flatMap] at h
    obtain ⟨u, hu, h⟩ := h
    by_cases hmem2 : memTy u canon = true
    · simp only [hmem2, if_true, List.mem_singleton] at h
      subst h
      exact Or.inr ⟨m, hm, fun hc => hmem ((memTy_iff _ _).mpr hc), hu, (memTy_iff _ _).mp hmem2⟩
    · simp [hmem2] at h

theorem link_down_iff {L : Lang} {c : CanonCfg} {R : List Ty} (h : Closed L c R) (n : Nat) {t s : Ty}
    (ht : t ∈ R) (htb : tbFree t = true) :
    Link L c R (n+1) false t s ↔ s ∈ succT L (canonOpts c true) false t := by
  constructor
  · intro hl
    rcases link_inv hl with ⟨h1, _⟩ | ⟨m, h1, h2, _, _⟩
    · rw [succT_langOpts c false htb] at h1; exact h1
    · rw [succT_langOpts c false htb] at h1
      exact absurd (closed_down h ht h1) h2
  · intro hs
    refine link_of_succ n ?_ (closed_down h ht hs)
    rw [succT_langOpts c false htb]; exact hs

theorem link_up_iff {L : Lang} (wf : WF L) {c : CanonCfg} {R : List Ty} (h : Closed L c R) (n : Nat)
    {s t : Ty} (ht : t ∈ R) (hws : wfTy L s = true) (hsb : tbFree s = true) (htb : tbFree t = true) :
    Link L c R (n+1) true s t ↔ t ∈ succT L (canonOpts c true) true s := by
  constructor
  · intro hl
    rcases link_inv hl with ⟨h1, _⟩ | ⟨m, h1, h2, h3, _⟩
    · rw [succT_langOpts c true hsb] at h1; exact h1
    · exfalso
      obtain ⟨a1, _, a3⟩ := succT_sound wf (univOK_langOpts L c) true s m hws h1
      obtain ⟨b1, _, _⟩ := succT_sound wf (univOK_langOpts L c) true m t a3 h3
      have hmb : tbFree m = true := between_tbFree wf m s t hsb htb (le_up.mp a1) (le_up.mp b1)
      rw [succT_langOpts c true hmb] at h3
      have := succT_mirror wf (o := canonOpts c true) rfl true m t a3 hmb htb h3
      exact h2 (closed_down h ht this)
  · intro hs
    refine link_of_succ n ?_ ht
    rw [succT_langOpts c true hsb]; exact hs

/-- direct subtype and supertype links mirror each other between `Top`/`Bottom`-free canonical types -/
theorem link_mirror {L : Lang} (wf : WF L) {c : CanonCfg} {R : List Ty} (h : Closed L c R) (n k : Nat)
    {s t : Ty} (ht : t ∈ R) (hwt : wfTy L t = true) (hws : wfTy L s = true)
    (htb : tbFree t = true) (hsb : tbFree s = true) :
    Link L c R (n+1) false t s ↔ Link L c R (k+1) true s t := by
  rw [link_down_iff h n ht htb, link_up_iff wf h k ht hws hsb htb]
  exact succT_mirror_iff wf rfl hwt hws htb hsb

end Tfv.Tax
