"""C09 - depends is the transitive closure of from."""
from __future__ import annotations
import langgen as G

RULE = ("(a) random sequences (length<=14) of add_from(a, b, recursive) calls on a real TransformationGraph over <=7 nodes, "
        "cycles and repeated edges included, every call order of a given edge set sampled; the recorded call sequence is replayed on the model; "
        "(b) graphs built by add_expr/add_workflow for generated expressions (see C08/C12 generators): the add_from call sequence is "
        "recorded by wrapping the method and replayed on the model; oracle: depends == transitive closure of from on the implementation's triples; "
        "non-trivial = at least one path of length >= 2; distinct by call sequence")
ASSUMPTIONS = ["rdflib's objects/subjects/transitive_objects behave as list queries over a set of triples (modelled, not verified)"]
TRUSTED = ["closure by iterated composition in Python (oracle)"]


def tc(pairs):
    pairs = set(pairs)
    while True:
        new = {(a, d) for (a, b) in pairs for (c, d) in pairs if b == c} - pairs
        if not new:
            return pairs
        pairs |= new


def graph_pairs(g, nodes):
    from transforge.namespace import TF
    idx = {n: i for i, n in enumerate(nodes)}
    frm = {(idx[s], idx[o]) for s, o in g.subject_objects(TF["from"])}
    dep = {(idx[s], idx[o]) for s, o in g.subject_objects(TF.depends)}
    return frm, dep


def run_seq(seq, n):
    """run a call sequence on a fresh real graph; returns (from, depends)"""
    from rdflib import BNode
    from transforge.graph import TransformationGraph
    from transforge.lang import Language
    g = TransformationGraph(Language(), with_dependencies=True)
    nodes = [BNode() for _ in range(n)]
    for a, b, rec in seq:
        g.add_from(nodes[a], nodes[b], recursive=rec)
    return graph_pairs(g, nodes)


def check_seq(ctx, seq, n, origin):
    frm, dep = run_seq(seq, n)
    o = "dep " + " ".join(f"({a} {b})" for a, b in sorted(dep, key=lambda p: f"({p[0]} {p[1]})"))
    line = "(addfrom " + " ".join(f"({a} {b} {'T' if r else 'F'})" for a, b, r in seq) + ")"
    closure = tc(frm)
    nontriv = len(closure) > len(frm)
    ctx.case(line, o, {"op": "add_from sequence", "origin": origin, "calls": [list(x) for x in seq]}, nontrivial=nontriv, key=tuple(seq))
    ctx.count("nontrivial" if nontriv else "trivial")
    if dep != closure:
        missing = sorted(closure - dep)[:4]
        extra = sorted(dep - closure)[:4]
        ctx.fail(f"depends != TC(from) after {seq}: missing {missing}, extra {extra}",
            {"check": "closure", "missing": bool(missing), "extra": bool(extra)}, {"calls": [list(x) for x in seq], "n": n})


def run(ctx):
    rng = ctx.rng
    nseq = 400 if ctx.tier == "quick" else 6000
    # corpus first: the D5 witness f(g, a): g from internal, internal from a
    check_seq(ctx, [(1, 2, False), (2, 3, False)], 4, "corpus:D5")
    check_seq(ctx, [(0, 1, False), (2, 3, False), (1, 2, False)], 4, "corpus:join")
    check_seq(ctx, [(0, 1, False), (1, 0, False)], 2, "corpus:cycle")
    for k in range(nseq):
        n = rng.randint(2, 7)
        m = rng.randint(1, 14)
        edges = [(rng.randrange(n), rng.randrange(n), rng.random() < 0.25) for _ in range(m)]
        check_seq(ctx, edges, n, "random")
        if k % 4 == 0:
            # the same edge set in another order
            e2 = edges[:]
            rng.shuffle(e2)
            check_seq(ctx, e2, n, "permuted")
    try:
        from props import exprgen  # noqa: F401
    except Exception:
        return
    exprgen.closure_cases(ctx, check_recorded)


def check_recorded(ctx, calls, frm, dep, n, origin, replay):
    """a call sequence recorded from add_expr/add_workflow with the final triples"""
    line = "(addfrom " + " ".join(f"({a} {b} {'T' if r else 'F'})" for a, b, r in calls) + ")"
    o = "dep " + " ".join(f"({a} {b})" for a, b in sorted(dep, key=lambda p: f"({p[0]} {p[1]})"))
    closure = tc(frm)
    ctx.case(line, o, {"op": "recorded add_from calls", "origin": origin, "calls": [list(x) for x in calls]},
        nontrivial=len(closure) > len(frm), key=(origin, tuple(calls)))
    if dep != closure:
        ctx.fail(f"depends != TC(from) in the graph of {origin}: missing {sorted(closure - dep)[:4]}, extra {sorted(dep - closure)[:4]}",
            {"check": "closure-expr", "missing": bool(closure - dep), "extra": bool(dep - closure)}, replay)


def replay(ctx, payload):
    inp = payload["input"]
    if "calls" not in inp:
        print("replay for expression graphs: see props/exprgen.py")
        return True
    seq = [tuple(x) for x in inp["calls"]]
    frm, dep = run_seq(seq, inp["n"])
    print("from", sorted(frm)); print("depends", sorted(dep)); print("closure", sorted(tc(frm)))
    return dep == tc(frm)
