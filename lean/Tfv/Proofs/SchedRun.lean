import Tfv.Proofs.SchedFragments
import Tfv.Proofs.SchedCounter
/-!
# C18 — whole runs (instantiate a schema, apply the instance to arguments in turn)

The order-independent fragments at the level of the run that the differential harness performs.
-/
namespace Tfv.C18P

/-- the run of `runS` with the unscheduled model -/
def run (L : Lang) (fuel : Nat) (s : Schema) (args : List Term) : Except Err (Store × Term) :=
  runG (instantiate L fuel) (fun σ f x => applyT L fuel σ f x) s args

/-- THE TIE at run level: the identity schedule is the model -/
theorem runS_id {L : Lang} {ord : List Nat → List Nat} (hord : ∀ cs, ord cs = cs) (fuel : Nat) (s : Schema)
    (args : List Term) : runS L ord fuel s args = run L fuel s args := by
  unfold runS run
  congr 1
  · funext σ s; exact instantiateS_id hord fuel σ s
  · funext σ f x; exact applyTS_id hord fuel σ f x true

variable {Q : List Nat → Prop}

theorem applyArgsG_agree {app₁ app₂ : Store → Term → Term → Except Err (Store × Term)}
    (happ : ∀ σ f x, CsInv Q σ → GoodP Q (app₁ σ f x) (app₂ σ f x)) :
    ∀ (args : List Term) (σ : Store) (f : Term), CsInv Q σ →
      GoodP Q (applyArgsG app₁ σ f args) (applyArgsG app₂ σ f args)
  | [], σ, f, hinv => by simp only [applyArgsG]; exact goodP_ok hinv _
  | a :: as, σ, f, hinv => by
    simp only [applyArgsG]
    exact goodP_seqP_term (happ σ f a hinv) (fun σ1 r h1 => applyArgsG_agree happ as σ1 r h1)

theorem runG_agree {inst₁ inst₂ : Store → Schema → Except Err (Store × Term)}
    {app₁ app₂ : Store → Term → Term → Except Err (Store × Term)} (s : Schema)
    (hinst : GoodP Q (inst₁ {} s) (inst₂ {} s))
    (happ : ∀ σ f x, CsInv Q σ → GoodP Q (app₁ σ f x) (app₂ σ f x)) (args : List Term) :
    GoodP Q (runG inst₁ app₁ s args) (runG inst₂ app₂ s args) := by
  simp only [runG]
  exact goodP_seqP_term hinst (fun σ1 f h1 => applyArgsG_agree happ args σ1 f h1)

/-- two schedules that agree on every `Q`-list give the same run, for `Q` closed under the engine's set
operations and under registering a constraint -/
theorem runS_agree {L : Lang} {ord₁ ord₂ : List Nat → List Nat} (hQ : CsClosed Q) (hI : CsInsert Q)
    (hord : ∀ cs, Q cs → ord₁ cs = ord₂ cs) (fuel : Nat) (s : Schema) (args : List Term) :
    runS L ord₁ fuel s args = runS L ord₂ fuel s args :=
  (runG_agree s (instantiateS_agree hQ hI hord fuel {} s (csInv_empty hQ))
    (fun σ f x hinv => applyTS_agree hQ hord fuel σ f x true hinv) args).1

/-- without priorities the scheduled engine is the model: `priorityOrd []` re-checks in creation order, which
is the order the model's constraint sets are kept in -/
theorem runS_priority_nil (L : Lang) (fuel : Nat) (s : Schema) (args : List Term) :
    runS L (priorityOrd []) fuel s args = run L fuel s args :=
  (runS_agree (ord₂ := fun cs => cs) closed_asc insert_asc priorityOrd_nil_asc fuel s args).trans
    (runS_id (fun _ => rfl) fuel s args)

theorem allocVars_constrs (σ : Store) (nv nw : Nat) : (allocVars σ nv nw).constrs = σ.constrs := by
  have aux : ∀ (wc : Bool) (l : List Nat) (σ : Store),
      (l.foldl (fun σ _ => (newVar σ wc).1) σ).constrs = σ.constrs := by
    intro wc l
    induction l with
    | nil => intro σ; rfl
    | cons x xs ih => intro σ; exact (ih _).trans rfl
  unfold allocVars
  exact (aux true _ _).trans (aux false _ _)

/-- instantiating a schema with at most one constraint in a store without constraints -/
theorem instantiateS_agree_short {L : Lang} {ord₁ ord₂ : List Nat → List Nat} (hQ : CsClosed Q)
    (hI0 : ∀ a, Q a → Q (insertSorted 0 a)) (hord : ∀ cs, Q cs → ord₁ cs = ord₂ cs) (fuel : Nat) (s : Schema)
    (hs : s.constraints.length ≤ 1) {σ : Store} (hσ : σ.constrs = []) (hinv : CsInv Q σ) :
    GoodP Q (instantiateS L ord₁ fuel σ s) (instantiateS L ord₂ fuel σ s) := by
  simp only [instantiateS]
  refine goodP_seqR ?_ (fun σ1 h1 => (blockAgree hQ hord fuel).fix _ _ _ h1)
  have hinv0 := csInv_allocVars hinv s.nvars s.nwild
  have hc0 : (allocVars σ s.nvars s.nwild).constrs.length = 0 := by rw [allocVars_constrs, hσ]; rfl
  match hcs : s.constraints, hs with
  | [], _ => simp only [addConstraintsS]; exact goodR_ok hinv0
  | [c], _ =>
    simp only [addConstraintsS]
    refine goodR_seqR (addConstraintS_agree hQ hord fuel _ _ ?_ hinv0) (fun σ1 h1 => goodR_ok h1)
    rw [hc0]; exact hI0

theorem insert0_atMost : ∀ a, AtMost 0 a → AtMost 0 (insertSorted 0 a) := by
  intro a ha
  rcases ha with rfl | rfl
  · exact Or.inr rfl
  · right; simp [insertSorted]

/-- a schema with at most one constraint: every schedule that leaves `[]` and `[0]` alone gives the model's run -/
theorem runS_single_constraint {L : Lang} {ord : List Nat → List Nat} (h0 : ord [] = []) (h1 : ord [0] = [0])
    (fuel : Nat) (s : Schema) (hs : s.constraints.length ≤ 1) (args : List Term) :
    runS L ord fuel s args = run L fuel s args := by
  have hord : ∀ cs, AtMost 0 cs → ord cs = cs := by
    intro cs h; rcases h with rfl | rfl
    · exact h0
    · exact h1
  refine Eq.trans ?_ (runS_id (ord := fun cs => cs) (fun _ => rfl) fuel s args)
  exact (runG_agree s
    (instantiateS_agree_short (closed_atMost 0) insert0_atMost hord fuel s hs rfl (csInv_empty (closed_atMost 0)))
    (fun σ f x hinv => applyTS_agree (closed_atMost 0) hord fuel σ f x true hinv) args).1

/-- a schema without constraints: the schedule is never consulted on a non-empty list -/
theorem runS_no_constraints {L : Lang} {ord : List Nat → List Nat} (h0 : ord [] = [])
    (fuel : Nat) (s : Schema) (hs : s.constraints = []) (args : List Term) :
    runS L ord fuel s args = run L fuel s args := by
  have hord : ∀ cs, cs = [] → ord cs = cs := by intro cs h; subst h; exact h0
  refine Eq.trans ?_ (runS_id (ord := fun cs => cs) (fun _ => rfl) fuel s args)
  refine (runG_agree (Q := fun cs => cs = []) s ?_
    (fun σ f x hinv => applyTS_agree closed_nil hord fuel σ f x true hinv) args).1
  simp only [instantiateS, hs, addConstraintsS]
  exact (blockAgree closed_nil hord fuel).fix _ _ _ (csInv_allocVars (csInv_empty closed_nil) _ _)

end Tfv.C18P
