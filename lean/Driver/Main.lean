import Tfv.Model
/-!
Line-protocol driver: one s-expression per line in, one canonical line out.
It evaluates the same definitions the theorems in `Tfv/Props` are about.
-/
open Tfv

structure DState where
  lang : Lang := builtinDecls
  deriving Inhabited

def parseLangDecl : Sexp → Option OpDecl
  | .list [.atom name, .list vs, p] => do
      let vs ← vs.mapM (fun v => match v with
        | .atom "+" => some true | .atom "-" => some false | _ => none)
      let parent ← match p with
        | .atom "-" => some none
        | .atom n => n.toNat?.map some
        | _ => none
      pure ⟨name, vs, parent⟩
  | _ => none

def boolOf : Sexp → Option Bool
  | .atom "T" => some true
  | .atom "F" => some false
  | _ => none

def step (st : DState) (e : Sexp) : DState × String :=
  let L := st.lang
  match e with
  | .list (.atom "lang" :: ds) =>
    match ds.mapM parseLangDecl with
    | some L' => ({ st with lang := L' }, s!"ok {showBool (wfLangB L')}")
    | none => (st, "bad-op")
  | .list [.atom "sub", s, t] =>
    match Sexp.ty? s, Sexp.ty? t with
    | some s, some t => (st, showBool (sub L s t))
    | _, _ => (st, "bad-op")
  | .list [.atom "eq", s, t] =>
    match Sexp.ty? s, Sexp.ty? t with
    | some s, some t => (st, showBool (eqM L s t))
    | _, _ => (st, "bad-op")
  | .list [.atom "issub", s, t, b] =>
    match Sexp.ty? s, Sexp.ty? t, boolOf b with
    | some s, some t, some b => (st, showBool (isSubtype L s t b))
    | _, _, _ => (st, "bad-op")
  | .list [.atom "opsub", a, b, c] =>
    match Sexp.nat? a, Sexp.nat? b, boolOf c with
    | some a, some b, some c => (st, showBool (opSub L a b c))
    | _, _, _ => (st, "bad-op")
  | .list [.atom "wfty", t] =>
    match Sexp.ty? t with
    | some t => (st, showBool (wfTy L t))
    | _ => (st, "bad-op")
  | _ => (st, "bad-op")

partial def loop (h : IO.FS.Stream) (out : IO.FS.Stream) (st : DState) : IO Unit := do
  let line ← h.getLine
  if line.isEmpty then return ()
  match Sexp.parse line with
  | some [e] =>
    let (st', o) := step st e
    out.putStrLn o
    loop h out st'
  | _ =>
    out.putStrLn "bad-line"
    loop h out st

def main : IO Unit := do
  let out ← IO.getStdout
  loop (← IO.getStdin) out {}
  out.flush
