"""Workflows as data: sources, tool applications (expression text + input resources), rendering to
WorkflowDict / WorkflowGraph with a controllable listing order, and generation by trial."""
from __future__ import annotations
import exprgen as X
import langgen as G

NS = "https://example.com/wf#"


class OrderedSet(set):
    """a set that iterates in a given order (to impose the listing order of tool applications)"""
    def __init__(self, items):
        super().__init__(items)
        self._order = list(items)

    def __iter__(self):
        return iter(self._order)

    def __sub__(self, other):
        return set(x for x in self._order if x not in other)


def res(name):
    from rdflib import URIRef
    return URIRef(NS + name)


def make_dict(wf, order=None):
    """wf = {"sources": [names], "apps": [(out, text, [input names])]} -> WorkflowDict with the given listing order"""
    from transforge.workflow import WorkflowDict
    apps = wf["apps"]
    order = list(range(len(apps))) if order is None else order
    tool_apps = {}
    for i in order:
        out, text, ins = apps[i]
        tool_apps[res(out)] = (text, [res(x) for x in ins])
    w = WorkflowDict(res("workflow"), tool_apps, OrderedSet([res(s) for s in wf["sources"]]))
    w._tool_outputs = OrderedSet([res(apps[i][0]) for i in order])
    return w


def make_rdf(wf, lang, order=None):
    """the same workflow in the Workflow vocabulary, as a WorkflowGraph"""
    from rdflib import Graph, Literal, BNode, RDF
    from transforge.namespace import WF
    from transforge.workflow import WorkflowGraph
    g = Graph()
    root = res("workflow")
    g.add((root, RDF.type, WF.Workflow))
    for s in wf["sources"]:
        g.add((root, WF.source, res(s)))
    apps = wf["apps"]
    order = list(range(len(apps))) if order is None else order
    for i in order:
        out, text, ins = apps[i]
        app = res("app_" + out)
        tool = res("tool_" + out)
        g.add((root, WF.edge, app))
        g.add((app, WF.output, res(out)))
        g.add((app, WF.applicationOf, tool))
        for k, x in enumerate(ins, start=1):
            g.add((app, WF[f"input{k}"], res(x)))
        g.add((tool, lang.namespace.expression, Literal(text)))
    return WorkflowGraph(lang, workflow=g)


def gen_workflow(rng, lang, spec, opdecls, max_apps=5, p_ann=0.25):
    """acyclic workflow with shared sources / shared intermediate results whose composition type-checks (by trial)"""
    from transforge import expr as E
    nsrc = rng.randint(1, 3)
    sources = [f"s{i}" for i in range(nsrc)]
    apps = []
    produced = []          # (name, expr) of tool outputs so far
    unused = []
    napps = min(max_apps, rng.choice([1, 2, 2, 3, 3, 3, 4, 4, 5]))
    exprs = {}
    built = []
    for s in sources:
        exprs[s] = None
    leaves_ops = [n for n, _ in opdecls]
    for i in range(napps):
        out = f"t{i}"
        ok = None
        for attempt in range(25):
            k = rng.randint(1, 3)
            pool = sources + [p for p, _ in produced]
            ins = []
            # consume something not yet consumed so that a single final application remains
            if unused and rng.random() < 0.8:
                ins.append(rng.choice(unused))
            while len(ins) < k:
                ins.append(rng.choice(pool))
            rng.shuffle(ins)
            text = gen_tool_text(rng, spec, leaves_ops, len(ins), p_ann)
            try:
                input_exprs = [exprs[x] if exprs[x] is not None else E.Source() for x in ins]
                e = lang.parse_expr(text, *input_exprs)
            except Exception:  # noqa
                continue
            ok = (out, text, ins, e)
            break
        if ok is None:
            break
        out, text, ins, e = ok
        built.append(ok)
        apps.append((out, text, ins))
        exprs[out] = e
        produced.append((out, e))
        unused = [u for u in unused if u not in ins] + [out]
    # make the last application consume every unconsumed output
    if not apps:
        return None
    consumed = {x for _, _, ins in apps for x in ins}
    finals = [o for o, _, _ in apps if o not in consumed]
    if len(finals) != 1:
        return None
    sources = [s for s in sources if s in consumed]       # a declared but unused source is not part of any tool's flow
    if not sources:
        return None
    # a workflow source whose type is, or contains, or is later given, a function type (a polymorphic operator over-applied through it) is outside
    # what is generated: the type object of such a source is shared by the tools that use it and normalised in place
    from transforge import type as T
    for _, _, _, e in built:
        for leaf in e.leaves():
            if isinstance(leaf, E.Source):
                if any(isinstance(u, T.TypeOperation) and u.operator == T.Function for u in leaf.type.follow()):
                    return None
    return {"sources": sources, "apps": apps}


def gen_tool_text(rng, spec, opnames, ninputs, p_ann=0.25):
    """a small expression over the numbered inputs, some annotated"""
    def leaf(k):
        s = str(k)
        if rng.random() < p_ann:
            t = G.gen_ty(rng, spec, rng.randint(0, 1), p_special=0.0, allow_fun=False)
            s = f"({k} : {G.ty_text(t, spec)})"
        return s
    args = [leaf(k + 1) for k in range(ninputs)]
    rng.shuffle(args)
    r = rng.random()
    f = rng.choice(opnames)
    if r < 0.5 or len(args) == 1:
        return f + " " + " ".join(args)
    g = rng.choice(opnames)
    j = rng.randint(1, len(args) - 1)
    return f + " (" + g + " " + " ".join(args[:j]) + ") " + " ".join(args[j:])
