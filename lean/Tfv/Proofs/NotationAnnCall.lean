import Tfv.Model.Expr
import Tfv.Proofs.NotationAnnTree
/-!
# The typed half of C13: parsing a rendering versus programmatic construction

`CTree` / `callTree` transcribe `CTree` / `buildCTree` of `Driver/Main.lean` (the differential-tested model of building
an expression by Python calls `head(arg, …)`; there it is a `partial def`, here a structural one):
Python evaluates the callee expression first, then the arguments from left to right, and only then
`Expr.__call__` makes one `Application` per argument; a callee that is an `Operator` is instantiated by `__call__`,
i.e. *after* the arguments.

The parser builds `f x y` in another order: `f`, `x`, `Application(f, x)`, `y`, `Application(f x, y)`.

* `callTree_curry`: in curried form with explicitly instantiated operator heads — `f()(x)(y)` — programmatic
  construction is literally the parser's fold `evalA` at the typed builder (same expression, same store, same error).
* `callTree_flat`: the n-ary call `h(i₁, …, iₙ)` whose arguments are supplied inputs agrees as well.
* In general the two differ (variable numbering, order of unifications, which error comes first): see
  `NotationAnnExamples.lean`.
-/
namespace Tfv.NotationAnn
open Tfv Tfv.Notation

/-- expression trees for programmatic construction: operator, input, fresh source, `head(arg, …)` -/
inductive CTree where
  | op (name : String)
  | input (k : Nat)
  | src
  | call (head : CTree) (args : List CTree)

def CTree.isOp : CTree → Bool
  | .op _ => true
  | _ => false

mutual
/-- Python's evaluation order of `head(arg, …)` with `Expr.__call__` = `callT` -/
def callTree (L : Lang) (ops : List OperatorDecl) (inputs : List TExpr) : XState → CTree → Except PErr (XState × TExpr)
  | s, .op n => mkOpT L ops s n
  | s, .input k =>
    match lookupInput inputs k with
    | some e => .ok (s, e)
    | none => .error (.missingInput k)
  | s, .src => .ok (mkSourceT s)
  | s, .call (.op n) args =>
    -- an `Operator` callee is only instantiated by `__call__`, after the arguments
    match callArgs L ops inputs s args with
    | .error e => .error e
    | .ok (s1, es) =>
      match mkOpT L ops s1 n with
      | .error e => .error e
      | .ok (s2, f) => callT L s2 f es
  | s, .call h args =>
    -- any other callee expression is evaluated first
    match callTree L ops inputs s h with
    | .error e => .error e
    | .ok (s1, f) =>
      match callArgs L ops inputs s1 args with
      | .error e => .error e
      | .ok (s2, es) => callT L s2 f es
/-- the arguments from left to right -/
def callArgs (L : Lang) (ops : List OperatorDecl) (inputs : List TExpr) : XState → List CTree → Except PErr (XState × List TExpr)
  | s, [] => .ok (s, [])
  | s, a :: as =>
    match callTree L ops inputs s a with
    | .error e => .error e
    | .ok (s1, e) =>
      match callArgs L ops inputs s1 as with
      | .error e => .error e
      | .ok (s2, es) => .ok (s2, e :: es)
end

section call
variable (L : Lang) (ops : List OperatorDecl) (inputs : List TExpr)

theorem callTree_call_op (s : XState) (n : String) (args : List CTree) :
    callTree L ops inputs s (.call (.op n) args) =
      match callArgs L ops inputs s args with
      | .error e => .error e
      | .ok (s1, es) =>
        match mkOpT L ops s1 n with
        | .error e => .error e
        | .ok (s2, f) => callT L s2 f es := by
  simp only [callTree]

theorem callTree_call_nonop (s : XState) (h : CTree) (args : List CTree) (hh : h.isOp = false) :
    callTree L ops inputs s (.call h args) =
      match callTree L ops inputs s h with
      | .error e => .error e
      | .ok (s1, f) =>
        match callArgs L ops inputs s1 args with
        | .error e => .error e
        | .ok (s2, es) => callT L s2 f es := by
  cases h with
  | op n => cases hh
  | input k => simp only [callTree]
  | src => simp only [callTree]
  | call h' args' => simp only [callTree]

theorem callT_nil (s : XState) (f : TExpr) : callT L s f [] = .ok (s, f) := by
  simp only [callT]

theorem callT_single (s : XState) (f x : TExpr) : callT L s f [x] = mkAppT L true s f x := by
  simp only [callT]
  cases mkAppT L true s f x with
  | error e => rfl
  | ok r => rfl

theorem callArgs_single (s : XState) (a : CTree) :
    callArgs L ops inputs s [a] =
      match callTree L ops inputs s a with
      | .error e => .error e
      | .ok (s1, e) => .ok (s1, [e]) := by
  simp only [callArgs]

/-- `f()` instantiates the operator -/
theorem callTree_inst (s : XState) (n : String) :
    callTree L ops inputs s (.call (.op n) []) = mkOpT L ops s n := by
  simp only [callTree_call_op, callArgs, callT_nil]
  cases mkOpT L ops s n with
  | error e => rfl
  | ok r => rfl

/-! ## curried construction is the parser's fold -/

/-- the callee of a curried call: an operator is instantiated explicitly, `f()` -/
def headC (f : ATree) (c : CTree) : CTree :=
  match f with
  | .op n => .call (.op n) []
  | _ => c

/-- `f x y` as `f()(x)(y)`: one call per application, operator heads instantiated first (annotation nodes are dropped) -/
def curry : ATree → CTree
  | .op n => .op n
  | .src => .src
  | .input k => .input k
  | .app f x => .call (headC f (curry f)) [curry x]
  | .ann e _ => curry e

theorem headC_nonop (f : ATree) (hf : f.noAnn = true) : (headC f (curry f)).isOp = false := by
  cases f with
  | op n => rfl
  | src => rfl
  | input k => rfl
  | app g y => rfl
  | ann e T => cases hf

theorem callTree_headC (fl : ATree → Bool) (f : ATree) (s : XState)
    (ih : callTree L ops inputs s (curry f) = evalA (typedBuilder L ops true) inputs fl s f) :
    callTree L ops inputs s (headC f (curry f)) = evalA (typedBuilder L ops true) inputs fl s f := by
  cases f with
  | op n => simp only [headC, callTree_inst, evalA, typedBuilder]
  | src => exact ih
  | input k => exact ih
  | app g y => exact ih
  | ann e T => exact ih

theorem callTree_curry (fl : ATree → Bool) (t : ATree) (ht : t.noAnn = true) :
    ∀ s, callTree L ops inputs s (curry t) = evalA (typedBuilder L ops true) inputs fl s t := by
  induction t with
  | op n => intro s; simp only [curry, callTree, evalA, typedBuilder]
  | src => intro s; simp only [curry, callTree, evalA, typedBuilder]
  | input k =>
    intro s
    simp only [curry, callTree, evalA]
    cases lookupInput inputs k <;> rfl
  | app f x ihf ihx =>
    intro s
    simp only [ATree.noAnn, Bool.and_eq_true] at ht
    simp only [curry, callTree_call_nonop L ops inputs s _ _ (headC_nonop f ht.1),
      callTree_headC L ops inputs fl f s (ihf ht.1 s), evalA, callArgs_single]
    cases evalA (typedBuilder L ops true) inputs fl s f with
    | error e => rfl
    | ok r =>
      obtain ⟨s1, ef⟩ := r
      simp only [ihx ht.2 s1]
      cases evalA (typedBuilder L ops true) inputs fl s1 x with
      | error e => rfl
      | ok r2 =>
        obtain ⟨s2, ex⟩ := r2
        simp only [callT_single]
        rfl
  | ann e T _ => cases ht

/-! ## n-ary calls whose arguments are supplied inputs -/

/-- `.input k` with `k` supplied -/
def pureA (t : ATree) : Bool :=
  match t with
  | .input k => (lookupInput inputs k).isSome
  | _ => false

/-- a leaf applied to supplied inputs only: `h i₁ … iₙ` -/
def flatOk : ATree → Bool
  | .app f x => flatOk f && pureA inputs x
  | .ann _ _ => false
  | _ => true

/-- a head with its argument list, if any -/
def headCall (h : CTree) : List CTree → CTree
  | [] => h
  | a :: as => .call h (a :: as)

/-- the n-ary call `h(x₁, …, xₙ)` for the tree `h x₁ … xₙ` (arguments converted recursively) -/
def callC : ATree → List CTree → CTree
  | .op n, args => headCall (.op n) args
  | .src, args => headCall .src args
  | .input k, args => headCall (.input k) args
  | .app f x, args => callC f (callC x [] :: args)
  | .ann e _, args => callC e args

theorem callArgs_inputs (s : XState) (ks : List Nat) (es : List TExpr)
    (h : ks.map (lookupInput inputs) = es.map some) :
    callArgs L ops inputs s (ks.map .input) = .ok (s, es) := by
  induction ks generalizing es with
  | nil =>
    cases es with
    | nil => simp only [List.map_nil, callArgs]
    | cons e es => simp at h
  | cons k ks ih =>
    cases es with
    | nil => simp at h
    | cons e es =>
      simp only [List.map_cons, List.cons.injEq] at h
      simp only [List.map_cons, callArgs, callTree, h.1, ih es h.2]

theorem callTree_headCall_op (s : XState) (n : String) (ks : List Nat) (es : List TExpr)
    (h : ks.map (lookupInput inputs) = es.map some) :
    callTree L ops inputs s (headCall (.op n) (ks.map .input)) =
      match mkOpT L ops s n with
      | .error e => .error e
      | .ok (s1, f) => callT L s1 f es := by
  cases ks with
  | nil =>
    cases es with
    | nil =>
      simp only [List.map_nil, headCall, callTree, callT_nil]
      cases mkOpT L ops s n with
      | error e => rfl
      | ok r => rfl
    | cons e es => simp at h
  | cons k ks =>
    simp only [List.map_cons, headCall, callTree_call_op]
    rw [← List.map_cons (f := CTree.input), callArgs_inputs L ops inputs s (k :: ks) es h]

theorem callTree_headCall_nonop (s : XState) (hd : CTree) (hh : hd.isOp = false) (ks : List Nat) (es : List TExpr)
    (h : ks.map (lookupInput inputs) = es.map some) :
    callTree L ops inputs s (headCall hd (ks.map .input)) =
      match callTree L ops inputs s hd with
      | .error e => .error e
      | .ok (s1, f) => callT L s1 f es := by
  cases ks with
  | nil =>
    cases es with
    | nil =>
      simp only [List.map_nil, headCall, callT_nil]
      cases callTree L ops inputs s hd with
      | error e => rfl
      | ok r => rfl
    | cons e es => simp at h
  | cons k ks =>
    simp only [List.map_cons, headCall, callTree_call_nonop L ops inputs s hd _ hh]
    cases callTree L ops inputs s hd with
    | error e => rfl
    | ok r =>
      obtain ⟨s1, f⟩ := r
      simp only []
      rw [← List.map_cons (f := CTree.input), callArgs_inputs L ops inputs s1 (k :: ks) es h]

theorem callTree_flat_aux (fl : ATree → Bool) (t : ATree) (ht : flatOk inputs t = true) :
    ∀ (s : XState) (ks : List Nat) (es : List TExpr), ks.map (lookupInput inputs) = es.map some →
    callTree L ops inputs s (callC t (ks.map .input)) =
      match evalA (typedBuilder L ops true) inputs fl s t with
      | .error e => .error e
      | .ok (s1, f) => callT L s1 f es := by
  induction t with
  | op n =>
    intro s ks es h
    simp only [callC, callTree_headCall_op L ops inputs s n ks es h, evalA, typedBuilder]
  | src =>
    intro s ks es h
    simp only [callC, callTree_headCall_nonop L ops inputs s .src rfl ks es h, callTree, evalA, typedBuilder]
  | input k =>
    intro s ks es h
    simp only [callC, callTree_headCall_nonop L ops inputs s (.input k) rfl ks es h, callTree, evalA]
    cases lookupInput inputs k <;> rfl
  | app f x ihf _ =>
    intro s ks es h
    simp only [flatOk, Bool.and_eq_true] at ht
    cases x with
    | input k =>
      simp only [pureA, Option.isSome_iff_exists] at ht
      obtain ⟨e, he⟩ := ht.2
      have h' : (k :: ks).map (lookupInput inputs) = (e :: es).map some := by
        simp only [List.map_cons, he, h]
      have := ihf ht.1 s (k :: ks) (e :: es) h'
      simp only [List.map_cons] at this
      simp only [callC, headCall, this, evalA, he]
      cases evalA (typedBuilder L ops true) inputs fl s f with
      | error err => rfl
      | ok r =>
        obtain ⟨s1, ef⟩ := r
        simp only [callT]
        rfl
    | op n => simp [pureA] at ht
    | src => simp [pureA] at ht
    | app g y => simp [pureA] at ht
    | ann e T => simp [pureA] at ht
  | ann e T _ => simp [flatOk] at ht

/-- `h(i₁, …, iₙ)` with supplied inputs as arguments is the parser's fold over `h i₁ … iₙ` -/
theorem callTree_flat (fl : ATree → Bool) (t : ATree) (ht : flatOk inputs t = true) (s : XState) :
    callTree L ops inputs s (callC t []) = evalA (typedBuilder L ops true) inputs fl s t := by
  have := callTree_flat_aux L ops inputs fl t ht s [] [] rfl
  simp only [List.map_nil] at this
  rw [this]
  cases evalA (typedBuilder L ops true) inputs fl s t with
  | error e => rfl
  | ok r => simp only [callT_nil]

theorem noAnn_of_flatOk (t : ATree) (ht : flatOk inputs t = true) : t.noAnn = true := by
  induction t with
  | op n => rfl
  | src => rfl
  | input k => rfl
  | app f x ihf _ =>
    simp only [flatOk, Bool.and_eq_true] at ht
    cases x with
    | input k => simp only [ATree.noAnn, ihf ht.1, Bool.and_self]
    | op n => simp [pureA] at ht
    | src => simp [pureA] at ht
    | app g y => simp [pureA] at ht
    | ann e T => simp [pureA] at ht
  | ann e T _ => simp [flatOk] at ht

end call

/-! ## annotation-free trees under the `noTy` discipline -/

theorem aOkT_noTy_noAnn (t : ATree) (h : aOkT noTy t = true) : t.noAnn = true := by
  induction t with
  | op n => rfl
  | src => rfl
  | input k => rfl
  | app f x ihf ihx =>
    simp only [aOkT, Bool.and_eq_true] at h
    simp only [ATree.noAnn, ihf h.1, ihx h.2, Bool.and_self]
  | ann e T _ => simp [aOkT, noTy] at h

theorem noTy_inline (P : PLang) : ∀ T, noTy T = true → InlineOk P T := fun _ h => by cases h

end Tfv.NotationAnn
