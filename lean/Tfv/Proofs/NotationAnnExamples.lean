import Tfv.Proofs.NotationAnnCall
import Tfv.Proofs.NotationTrivia
import Tfv.Proofs.ExprExamples
/-!
# The typed half of C13: a concrete difference between parsing `g(f -)` and the call `g(f(-))`

The language and operators of `ExprExamples.lean` (`A`, `B ≤ A`, `f : A ** B`, `g : x ** x`).
The parser instantiates `g` first (its variable `x` is variable 0, the source's wildcard variable is variable 1);
Python evaluates the argument `f(-)` first and instantiates `g` in `Expr.__call__` (the source's variable is
variable 0, `x` is variable 1). The two results are equal up to this renaming of variables, not equal.
-/
namespace Tfv.NotationAnn
open Tfv Tfv.Notation Tfv.C03P Tfv.C04P

/-- `g(f(-))` as Python calls -/
def pyGFS : CTree := .call (.op "g") [.call (.op "f") [.src]]

/-- after `-` -/
def q1 : XState := { store := { vars := [{ wildcard := true, cset := 0 }], csets := [[]] }, nsrc := 1 }
def eS0 : TExpr := .src 0 none (.var 0)
/-- after `f(-)`: the source is bounded by `A` -/
def q2 : XState := { store := { vars := [{ upper := some 5, cset := 0 }], csets := [[]] }, nsrc := 1 }
def eFS0 : TExpr := .app eF eS0 (.app 6 [])
/-- after instantiating `g`: its variable `x` is variable 1 -/
def q3 : XState := { store := { vars := [{ upper := some 5, cset := 0 }, { cset := 1 }], csets := [[], []] }, nsrc := 1 }
def eG1 : TExpr := .op "g" (.app FUN [.var 1, .var 1])
/-- after `g(f(-))`: `x := B` -/
def q4 : XState :=
  { store := { vars := [{ upper := some 5, cset := 0 }, { bound := some (.app 6 []), lower := some 6, cset := 1 }],
               csets := [[], []] }, nsrc := 1 }
def ePy : TExpr := .app eG1 eFS0 (.app 6 [])

theorem py_s : mkSourceT {} = (q1, eS0) := rfl
theorem py_f : mkOpT c4L c4ops q1 "f" = .ok (q1, eF) := by with_unfolding_all rfl
theorem py_g : mkOpT c4L c4ops q2 "g" = .ok (q3, eG1) := by with_unfolding_all rfl

theorem py_app1 : mkAppT c4L true q1 eF eS0 = .ok (q2, eFS0) := by
  unfold mkAppT eF eS0
  simp only [TExpr.ty]
  rw [applyT_fun]
  have hw : (getVar q1.store 0).bound = none := rfl
  have e1 : followT q1.store (.var 0) = .var 0 := followT_unbound hw
  have e2 : exprFuel = 3999 + 1 := rfl
  rw [e1, e2, unify_unbound_base hw]
  with_unfolding_all rfl

theorem py_app2 : mkAppT c4L true q3 eG1 eFS0 = .ok (q4, ePy) := by
  unfold mkAppT eG1 eFS0
  simp only [TExpr.ty]
  rw [applyT_fun]
  have hw : (getVar q3.store 1).bound = none := rfl
  have e1 : followT q3.store (.app 6 []) = .app 6 [] := followT_app _ _ _
  have e2 : exprFuel = 3999 + 1 := rfl
  rw [e1, e2, unify_base_unbound hw]
  with_unfolding_all rfl

/-- programmatic construction in Python's order -/
theorem py_call : callTree c4L c4ops [] {} pyGFS = .ok (q4, ePy) := by
  simp only [pyGFS, callTree_call_op, callArgs, callTree, py_s, py_f, py_g, callT_single, py_app1, py_app2]

/-- the tree `g (f -)` -/
def tGFS : ATree := .app (.op "g") (.app (.op "f") .src)

theorem tGFS_toks : atoks c4P.types (renderA .call tGFS) = ["g", "(", "f", "(", "-", ")", ")"] := by decide
theorem tGFS_toks_juxta : atoks c4P.types (renderA .juxta tGFS) = ["g", "(", "f", "-", ")"] := by decide
theorem tGFS_callC : callC tGFS [] = pyGFS := rfl
theorem tGFS_curry : curry tGFS = .call (.call (.op "g") []) [.call (.call (.op "f") []) [.src]] := rfl

/-- the results differ: the parser's `g` has type `x0 ** x0` and its source the variable 1; the call's `g` has type
`x1 ** x1` and its source the variable 0 -/
theorem parse_ne_call :
    parseExprToks c4P (typedBuilder c4L c4ops true) [] {} (atoks c4P.types (renderA .juxta tGFS))
      ≠ callTree c4L c4ops [] {} (callC tGFS []) := by
  rw [tGFS_toks_juxta, ex_parse, tGFS_callC, py_call]
  intro h
  injection h with h
  injection h with _ h
  simp only [eGFS, ePy, eG, eG1, TExpr.app.injEq, TExpr.op.injEq, Term.app.injEq] at h
  have := h.1.2.2
  simp at this

/-! ## `- : A` versus `(-) : A` with the typed builder -/

def tyA : Ty := .app 5 []

theorem c4L_textNames : TypeText.TextNames c4L := ⟨by decide, by decide, by decide⟩

/-- flag set and a source: the source's type becomes `A`, its wildcard variable stays untouched -/
theorem ann_bare : annotateT c4L q1 eS0 (.app 5 []) 0 true = .ok (q1, .src 0 none (.app 5 [])) := by
  with_unfolding_all rfl

/-- flag not set: the source keeps its variable, which gets the upper bound `A` -/
theorem ann_paren : annotateT c4L q1 eS0 (.app 5 []) 0 false = .ok (q2, eS0) := by
  unfold annotateT eS0
  have ha : allocVars q1.store 0 0 = q1.store := rfl
  have hw : (getVar q1.store 0).bound = none := rfl
  have e2 : exprFuel = 3999 + 1 := rfl
  simp only [Bool.false_and, Bool.false_eq_true, if_false, TExpr.ty, ha]
  rw [e2, unify_unbound_base hw]
  with_unfolding_all rfl

theorem typed_dash_bare :
    parseExprToks c4P (typedBuilder c4L c4ops true) [] {} ["-", ":", "A"] = .ok (q1, .src 0 none (.app 5 [])) := by
  have h := parse_render_tree c4P (typedBuilder c4L c4ops true) [] (printable c4L)
    (fun T hT => inlineOk_printable c4P c4L_textNames T hT) .juxta (.ann .src tyA) (by decide) {}
  have ht : atoks c4P.types (renderA .juxta (.ann .src tyA)) = ["-", ":", "A"] := by decide
  rw [ht] at h
  rw [h]
  simp only [evalA, typedBuilder, py_s, styleFlag, dashJ]
  exact ann_bare

theorem typed_dash_paren :
    parseExprToks c4P (typedBuilder c4L c4ops true) [] {} ["(", "-", ")", ":", "A"] = .ok (q2, eS0) := by
  have h := parse_render_tree c4P (typedBuilder c4L c4ops true) [] (printable c4L)
    (fun T hT => inlineOk_printable c4P c4L_textNames T hT) .paren (.ann .src tyA) (by decide) {}
  have ht : atoks c4P.types (renderA .paren (.ann .src tyA)) = ["(", "-", ")", ":", "A"] := by decide
  rw [ht] at h
  rw [h]
  simp only [evalA, typedBuilder, py_s, styleFlag]
  exact ann_paren

/-! ## a line break or a comment between `-` and `:` changes nothing (defect D31 repaired) -/

/-- layout and comment tokens are not "the previous token": `-⏎: A` is `- : A` -/
theorem typed_dash_newline :
    parseExprToks c4P (typedBuilder c4L c4ops true) [] {} ["-", "\n", ":", "A"] = .ok (q1, .src 0 none (.app 5 [])) := by
  rw [parseExprToks_strip_all c4P (typedBuilder c4L c4ops true) [] {} ["-", "\n", ":", "A"]]
  have h : stripTrivia false ["-", "\n", ":", "A"] = ["-", ":", "A"] := by decide
  rw [h]
  exact typed_dash_bare

/-- … and so is `- # c ⏎ : A` -/
theorem typed_dash_comment :
    parseExprToks c4P (typedBuilder c4L c4ops true) [] {} ["-", "#", "c", "\n", ":", "A"]
      = .ok (q1, .src 0 none (.app 5 [])) := by
  rw [parseExprToks_strip_all c4P (typedBuilder c4L c4ops true) [] {} ["-", "#", "c", "\n", ":", "A"]]
  have h : stripTrivia false ["-", "#", "c", "\n", ":", "A"] = ["-", ":", "A"] := by decide
  rw [h]
  exact typed_dash_bare

end Tfv.NotationAnn
