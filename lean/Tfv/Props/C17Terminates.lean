import Tfv.Model
import Tfv.Proofs.EngineTermMonoMain
import Tfv.Proofs.EngineTermLoop
import Tfv.Proofs.EngineTermLoopUse
import Tfv.Proofs.EngineTermLoopWf
import Tfv.Proofs.EngineTermNc
import Tfv.Proofs.EngineTermGround
import Tfv.Proofs.BoundsExamples
import Tfv.Proofs.InferConstrExamples2
import Tfv.Proofs.ExprConstrExamples
/-!
# C17 (termination part) — the fuel of the inference engine

The engine of `Tfv/Model/Infer.lean` recurses on a fuel argument and answers `Err.outOfFuel` when it is used up;
`type.py` recurses without a bound. The theorems of this file:

* **fuel monotonicity** (`C17t_*_fuel_mono`), for each of the twelve functions of the mutual block and for
  `addConstraint`, `addConstraints`, `instantiate`, `applyT`, for EVERY store, language and arguments (no invariant is
  needed): a run that does not end with `outOfFuel` is not changed by more fuel. So every result of the driver other
  than `outOfFuel` is the result of the unbounded recursion of the Python code.
* `C17t_*_stable`: one fuel with a result other than `outOfFuel` gives an `N` such that every fuel `≥ N` gives that same
  result — "terminates" and "has a sufficient fuel" are the same thing; `C17t_*_oof_downward`: `outOfFuel` with some
  fuel means `outOfFuel` with every smaller fuel (a looping input is out of fuel for ALL fuels or for an initial
  segment of them).

* **unconditional termination is FALSE of the model** (`C17t_unify_loops`): `occurs` runs on the fuel
  `termFuel σ = σ.vars.length + 64`; on a term nested deeper the occurs check of `unify` misses the variable, binds it
  to a term containing it, and the next visit recurses for ever — `outOfFuel` for every fuel, on a store with one fresh
  variable and no constraint. This is a bound of the MODEL (the Python `__contains__` is unbounded and raises
  `RecursiveTypeError`), so `∃ N, ∀ fuel ≥ N, … ≠ outOfFuel` needs a hypothesis on the nesting depth; it is not proved here.
* `C17t_*_terminates_partial`: on a store without constraints `check_constraints`, `bind` to a basic type, `above` and
  `below` end within constant fuel (2, 3, 4, 4).

* `C17t_*_ground_terminates_partial`: on variable-free types `unify`, `fix` and `applyT` never touch the store; the fuel
  `tsize a + tsize b` (number of nodes) suffices in EVERY store, constrained or not, with every flag.

Statements only; proofs in `Tfv/Proofs/EngineTerm*.lean`, namespace `Tfv.C17T`.
-/
namespace Tfv.C17
open Tfv Tfv.C03P Tfv.C03C Tfv.C17T

/-! ## fuel monotonicity of the mutual block -/

/-- `unify`: a run with fuel `n` that does not run out of fuel is the run with any fuel `m ≥ n`. -/
theorem C17t_unify_fuel_mono (L : Lang) {n m : Nat} (h : n ≤ m) (σ : Store) (a b : Term) (st sb sw : Bool)
    (hne : unify L n σ a b st sb sw ≠ .error .outOfFuel) : unify L m σ a b st sb sw = unify L n σ a b st sb sw :=
  unify_fuel_mono L h σ a b st sb sw hne

/-- `unifyList` (the loop of `unify` over the components): a run with fuel `n` that does not run out of fuel is the run with any fuel `m ≥ n`. -/
theorem C17t_unifyList_fuel_mono (L : Lang) {n m : Nat} (h : n ≤ m) (σ : Store) (vs : List Bool) (xs ys : List Term) (st sb sw : Bool)
    (hne : unifyList L n σ vs xs ys st sb sw ≠ .error .outOfFuel) : unifyList L m σ vs xs ys st sb sw = unifyList L n σ vs xs ys st sb sw :=
  unifyList_fuel_mono L h σ vs xs ys st sb sw hne

/-- `bind`: a run with fuel `n` that does not run out of fuel is the run with any fuel `m ≥ n`. -/
theorem C17t_bind_fuel_mono (L : Lang) {n m : Nat} (h : n ≤ m) (σ : Store) (v : Nat) (t : Term)
    (hne : bind L n σ v t ≠ .error .outOfFuel) : bind L m σ v t = bind L n σ v t :=
  bind_fuel_mono L h σ v t hne

/-- `above`: a run with fuel `n` that does not run out of fuel is the run with any fuel `m ≥ n`. -/
theorem C17t_above_fuel_mono (L : Lang) {n m : Nat} (h : n ≤ m) (σ : Store) (v new : Nat)
    (hne : above L n σ v new ≠ .error .outOfFuel) : above L m σ v new = above L n σ v new :=
  above_fuel_mono L h σ v new hne

/-- `below`: a run with fuel `n` that does not run out of fuel is the run with any fuel `m ≥ n`. -/
theorem C17t_below_fuel_mono (L : Lang) {n m : Nat} (h : n ≤ m) (σ : Store) (v new : Nat)
    (hne : below L n σ v new ≠ .error .outOfFuel) : below L m σ v new = below L n σ v new :=
  below_fuel_mono L h σ v new hne

/-- `check_constraints`: a run with fuel `n` that does not run out of fuel is the run with any fuel `m ≥ n`. -/
theorem C17t_checkConstraints_fuel_mono (L : Lang) {n m : Nat} (h : n ≤ m) (σ : Store) (v : Nat)
    (hne : checkConstraints L n σ v ≠ .error .outOfFuel) : checkConstraints L m σ v = checkConstraints L n σ v :=
  checkConstraints_fuel_mono L h σ v hne

/-- the loop of `check_constraints`: a run with fuel `n` that does not run out of fuel is the run with any fuel `m ≥ n`. -/
theorem C17t_checkList_fuel_mono (L : Lang) {n m : Nat} (h : n ≤ m) (σ : Store) (v : Nat) (cs : List Nat)
    (hne : checkList L n σ v cs ≠ .error .outOfFuel) : checkList L m σ v cs = checkList L n σ v cs :=
  checkList_fuel_mono L h σ v cs hne

/-- `fulfill`: a run with fuel `n` that does not run out of fuel is the run with any fuel `m ≥ n`. -/
theorem C17t_fulfill_fuel_mono (L : Lang) {n m : Nat} (h : n ≤ m) (σ : Store) (c : Nat)
    (hne : fulfill L n σ c ≠ .error .outOfFuel) : fulfill L m σ c = fulfill L n σ c :=
  fulfill_fuel_mono L h σ c hne

/-- `minimize`: a run with fuel `n` that does not run out of fuel is the run with any fuel `m ≥ n`. -/
theorem C17t_minimize_fuel_mono (L : Lang) {n m : Nat} (h : n ≤ m) (σ : Store) (c : Nat)
    (hne : minimize L n σ c ≠ .error .outOfFuel) : minimize L m σ c = minimize L n σ c :=
  minimize_fuel_mono L h σ c hne

/-- the loop of `minimize`: a run with fuel `n` that does not run out of fuel is the run with any fuel `m ≥ n`. -/
theorem C17t_minLoop_fuel_mono (L : Lang) {n m : Nat} (h : n ≤ m) (σ : Store) (alts mi : List Term)
    (hne : minLoop L n σ alts mi ≠ .error .outOfFuel) : minLoop L m σ alts mi = minLoop L n σ alts mi :=
  minLoop_fuel_mono L h σ alts mi hne

/-- `fix`: a run with fuel `n` that does not run out of fuel is the run with any fuel `m ≥ n`. -/
theorem C17t_fix_fuel_mono (L : Lang) {n m : Nat} (h : n ≤ m) (σ : Store) (t : Term) (pl : Bool)
    (hne : fix L n σ t pl ≠ .error .outOfFuel) : fix L m σ t pl = fix L n σ t pl :=
  fix_fuel_mono L h σ t pl hne

/-- the loop of `fix`: a run with fuel `n` that does not run out of fuel is the run with any fuel `m ≥ n`. -/
theorem C17t_fixList_fuel_mono (L : Lang) {n m : Nat} (h : n ≤ m) (σ : Store) (vs : List Bool) (ps : List Term) (pl : Bool)
    (hne : fixList L n σ vs ps pl ≠ .error .outOfFuel) : fixList L m σ vs ps pl = fixList L n σ vs ps pl :=
  fixList_fuel_mono L h σ vs ps pl hne

/-- non-vacuity (`unify`, a store with a pending subtype constraint): fuel 11 suffices, hence so does `engineFuel` -/
example : unify exL engineFuel σC (.app 6 []) (.var 0) true false false = .ok σC1 := by
  rw [C17t_unify_fuel_mono exL (by decide : 11 ≤ engineFuel) σC _ _ true false false (by rw [exC_unify]; simp), exC_unify]

/-- non-vacuity (`fulfill`, a pending elimination constraint that gets resolved) -/
example : fulfill exL engineFuel σE 0 = .ok (σE', true) := by
  rw [C17t_fulfill_fuel_mono exL (by decide : 10 ≤ engineFuel) σE 0 (by rw [exE_fulfill]; simp), exE_fulfill]

/-- non-vacuity (`bind`, `fix`, `above` with a constraint re-check) -/
example : bind exL engineFuel σC1 0 (.app 6 []) = .ok σC2 ∧ fix exL engineFuel σC1 (.var 0) true = .ok (σC2, .app 6 [])
    ∧ above exL engineFuel σC 0 6 = .ok σC1 :=
  ⟨by rw [C17t_bind_fuel_mono exL (by decide : 10 ≤ engineFuel) σC1 0 _ (by rw [exC_bind]; simp), exC_bind],
   by rw [C17t_fix_fuel_mono exL (by decide : 11 ≤ engineFuel) σC1 _ true (by rw [exC_fix]; simp), exC_fix],
   by rw [C17t_above_fuel_mono exL (by decide : 10 ≤ engineFuel) σC 0 6 (by rw [exC_above]; simp), exC_above]⟩

/-! ## the uses of the block -/

/-- `Constraint.__init__` (register, inform, first `fulfill`) is monotone in the fuel. -/
theorem C17t_addConstraint_fuel_mono (L : Lang) {n m : Nat} (h : n ≤ m) (σ : Store) (c : Constr)
    (hne : addConstraint L n σ c ≠ .error .outOfFuel) : addConstraint L m σ c = addConstraint L n σ c :=
  addConstraint_fuel_mono L h σ c hne

/-- the constraints of a schema, in source order -/
theorem C17t_addConstraints_fuel_mono (L : Lang) {n m : Nat} (h : n ≤ m) (base : Nat) (σ : Store) (cs : List CAst)
    (hne : addConstraints L n base σ cs ≠ .error .outOfFuel) :
    addConstraints L m base σ cs = addConstraints L n base σ cs :=
  addConstraints_fuel_mono L h base σ cs hne

/-- `TypeSchema.instance()`: an instantiation that does not run out of fuel is the instantiation with any larger fuel. -/
theorem C17t_instantiate_fuel_mono (L : Lang) {n m : Nat} (h : n ≤ m) (σ : Store) (s : Schema)
    (hne : instantiate L n σ s ≠ .error .outOfFuel) : instantiate L m σ s = instantiate L n σ s :=
  instantiate_fuel_mono L h σ s hne

/-- `Type.apply`: an application that does not run out of fuel is the application with any larger fuel. -/
theorem C17t_applyT_fuel_mono (L : Lang) {n m : Nat} (h : n ≤ m) (σ : Store) (f x : Term) (fixFlag : Bool)
    (hne : applyT L n σ f x fixFlag ≠ .error .outOfFuel) : applyT L m σ f x fixFlag = applyT L n σ f x fixFlag :=
  applyT_fuel_mono L h σ f x fixFlag hne

/-- non-vacuity: the schema `x ** x [x ≤ A]` instantiated and applied to `B`, with the fuel of the driver -/
example : instantiate exL engineFuel {} exSC = .ok (σC, .app FUN [.var 0, .var 0]) ∧
    applyT exL engineFuel σC (.app FUN [.var 0, .var 0]) (.app 6 []) true = .ok (σC2, .app 6 []) :=
  ⟨by rw [C17t_instantiate_fuel_mono exL (by decide : 11 ≤ engineFuel) {} exSC (by rw [exC_inst]; simp), exC_inst],
   by rw [C17t_applyT_fuel_mono exL (by decide : 11 ≤ engineFuel) σC _ _ true (by rw [exC_apply]; simp), exC_apply]⟩

/-! ## one sufficient fuel is termination -/

/-- If `unify` has a result other than `outOfFuel` with SOME fuel, there is an `N` from which on every fuel gives that
result (in particular never `outOfFuel`). -/
theorem C17t_unify_stable (L : Lang) (σ : Store) (a b : Term) (st sb sw : Bool) {n : Nat}
    (hne : unify L n σ a b st sb sw ≠ .error .outOfFuel) :
    ∃ N, ∀ fuel, N ≤ fuel → unify L fuel σ a b st sb sw = unify L N σ a b st sb sw ∧
      unify L fuel σ a b st sb sw ≠ .error .outOfFuel :=
  stable_of_run (fun k => unify L k σ a b st sb sw) (fun k => (monoAt L k).unify _ _ _ _ _ _) hne

/-- the same for `instantiate` -/
theorem C17t_instantiate_stable (L : Lang) (σ : Store) (s : Schema) {n : Nat}
    (hne : instantiate L n σ s ≠ .error .outOfFuel) :
    ∃ N, ∀ fuel, N ≤ fuel → instantiate L fuel σ s = instantiate L N σ s ∧ instantiate L fuel σ s ≠ .error .outOfFuel :=
  stable_of_run (fun k => instantiate L k σ s) (fun k => instantiate_le L k σ s) hne

/-- the same for `applyT` -/
theorem C17t_applyT_stable (L : Lang) (σ : Store) (f x : Term) (fixFlag : Bool) {n : Nat}
    (hne : applyT L n σ f x fixFlag ≠ .error .outOfFuel) :
    ∃ N, ∀ fuel, N ≤ fuel → applyT L fuel σ f x fixFlag = applyT L N σ f x fixFlag ∧
      applyT L fuel σ f x fixFlag ≠ .error .outOfFuel :=
  stable_of_run (fun k => applyT L k σ f x fixFlag) (fun k => applyT_le L k σ f x fixFlag) hne

/-- The fuel behaviour of `unify` on given arguments is a threshold: either it is out of fuel for EVERY fuel (the call
does not terminate), or there are an `N` and a result `r ≠ outOfFuel` such that the run is out of fuel exactly for the
fuels below `N` and is `r` for every fuel from `N` on. -/
theorem C17t_unify_threshold (L : Lang) (σ : Store) (a b : Term) (st sb sw : Bool) :
    (∀ n, unify L n σ a b st sb sw = .error .outOfFuel) ∨
    ∃ N r, r ≠ .error .outOfFuel ∧ ∀ fuel, (fuel < N → unify L fuel σ a b st sb sw = .error .outOfFuel) ∧
      (N ≤ fuel → unify L fuel σ a b st sb sw = r) :=
  threshold (fun k => unify L k σ a b st sb sw) (fun k => (monoAt L k).unify _ _ _ _ _ _)

/-- the same for `instantiate` -/
theorem C17t_instantiate_threshold (L : Lang) (σ : Store) (s : Schema) :
    (∀ n, instantiate L n σ s = .error .outOfFuel) ∨
    ∃ N r, r ≠ .error .outOfFuel ∧ ∀ fuel, (fuel < N → instantiate L fuel σ s = .error .outOfFuel) ∧
      (N ≤ fuel → instantiate L fuel σ s = r) :=
  threshold (fun k => instantiate L k σ s) (fun k => instantiate_le L k σ s)

/-- the same for `applyT` -/
theorem C17t_applyT_threshold (L : Lang) (σ : Store) (f x : Term) (fixFlag : Bool) :
    (∀ n, applyT L n σ f x fixFlag = .error .outOfFuel) ∨
    ∃ N r, r ≠ .error .outOfFuel ∧ ∀ fuel, (fuel < N → applyT L fuel σ f x fixFlag = .error .outOfFuel) ∧
      (N ≤ fuel → applyT L fuel σ f x fixFlag = r) :=
  threshold (fun k => applyT L k σ f x fixFlag) (fun k => applyT_le L k σ f x fixFlag)

/-- non-vacuity: both sides of the alternative occur — the looping application (`C17t_applyT_loops` below) is on the
left, the run of the schema `x ** x [x ≤ A]` on the right -/
example : (∀ n, applyT loopL n useS useF useX true = .error .outOfFuel) ∧
    ∃ N r, r ≠ .error .outOfFuel ∧ ∀ fuel, N ≤ fuel → applyT exL fuel σC (.app FUN [.var 0, .var 0]) (.app 6 []) true = r :=
  ⟨use_apply_loops, 11, _, by rw [exC_apply]; simp, fun fuel hf =>
    C17t_applyT_fuel_mono exL hf σC _ _ true (by rw [exC_apply]; simp)⟩

/-- `outOfFuel` is downward closed: out of fuel with `m` means out of fuel with every `n ≤ m`. -/
theorem C17t_unify_oof_downward (L : Lang) (σ : Store) (a b : Term) (st sb sw : Bool) {n m : Nat} (h : n ≤ m)
    (ho : unify L m σ a b st sb sw = .error .outOfFuel) : unify L n σ a b st sb sw = .error .outOfFuel :=
  oof_of_le (fun k => unify L k σ a b st sb sw) (fun k => (monoAt L k).unify _ _ _ _ _ _) h ho

/-- the same for `instantiate` and `applyT` -/
theorem C17t_use_oof_downward (L : Lang) (σ : Store) {n m : Nat} (h : n ≤ m) :
    (∀ s, instantiate L m σ s = .error .outOfFuel → instantiate L n σ s = .error .outOfFuel) ∧
    (∀ f x fixFlag, applyT L m σ f x fixFlag = .error .outOfFuel → applyT L n σ f x fixFlag = .error .outOfFuel) :=
  ⟨fun s ho => oof_of_le (fun k => instantiate L k σ s) (fun k => instantiate_le L k σ s) h ho,
   fun f x ff ho => oof_of_le (fun k => applyT L k σ f x ff) (fun k => applyT_le L k σ f x ff) h ho⟩

/-- non-vacuity: with fuel 0 every function is out of fuel (so the hypothesis of the downward closure is satisfiable),
and the stable result of the example above -/
example : unify exL 0 σC (.app 6 []) (.var 0) true false false = .error .outOfFuel ∧
    ∃ N, ∀ fuel, N ≤ fuel → unify exL fuel σC (.app 6 []) (.var 0) true false false = unify exL N σC (.app 6 []) (.var 0) true false false ∧
      unify exL fuel σC (.app 6 []) (.var 0) true false false ≠ .error .outOfFuel :=
  ⟨by rw [unify], C17t_unify_stable exL σC _ _ true false false (n := 11) (by rw [exC_unify]; simp)⟩

/-! ## unconditional termination fails in the model -/

/-- The model's occurs check is bounded by `termFuel σ = σ.vars.length + 64`: `unify(x, F^65(x))` on a store with the
one fresh variable `x` SUCCEEDS, binding `x` to `F^65(x)` (with nesting 64 it is `RecursiveTypeError`, as in Python). -/
theorem C17t_occurs_bounded (st : Bool) {n : Nat} (hn : 4 ≤ n) :
    unify loopL n loopS (.var 0) (nestF 65 (.var 0)) st false false = .ok loopC ∧
    occurs loopL loopS (termFuel loopS) (nestF 64 (.var 0)) (.var 0) = true :=
  ⟨loop_first st hn, loop_occurs_64⟩

/-- Counterexample to `∃ N, ∀ fuel ≥ N, unify … ≠ outOfFuel`: on the store with one fresh variable `x`, no bindings and
no constraints, `unify(G(x, x), G(F^65(x), x))` is out of fuel for EVERY fuel (the first components bind `x := F^65(x)`,
the second components then unify `x` with `x` through that binding, for ever). -/
theorem C17t_unify_loops (st : Bool) (n : Nat) :
    unify loopL n loopS (.app 6 [.var 0, .var 0]) (.app 6 [nestF 65 (.var 0), .var 0]) st false false
      = .error .outOfFuel :=
  loop_unify_all st n

/-- hence the unconditional statement is false, even for the constraint-free engine and a store without bindings -/
theorem C17t_unify_terminates_false :
    ¬ (∀ (L : Lang) (σ : Store) (a b : Term) (st : Bool), NoConstraints σ → (∀ w, (getVar σ w).bound = none) →
        ∃ N, ∀ fuel, N ≤ fuel → unify L fuel σ a b st false false ≠ .error .outOfFuel) :=
  loop_refutes

/-- No invariant of the engine theorems rules the loop out: a well-formed language, a store satisfying `OkStoreC` and
`FuelOk` without constraints, types well formed in the store. -/
theorem C17t_unify_terminates_false_wf :
    ¬ (∀ (L : Lang) (σ : Store) (a b : Term), WF L → OkStoreC L σ → FuelOk σ → NoConstraints σ →
        okTerm L σ a = true → okTerm L σ b = true →
        ∃ N, ∀ fuel, N ≤ fuel → unify L fuel σ a b true false false ≠ .error .outOfFuel) :=
  loop_refutes_wf

/-- The same through the public entry points, as the driver runs them: the schema `G(x, x) ** x` (no constraints)
instantiated in the empty store and applied to `G(F^66(_), _)` (one wildcard): the instantiation succeeds and the
application is out of fuel for EVERY fuel (`8 ≤ n` only serves the instantiation, which needs a little fuel itself;
`C17t_applyT_loops` has no bound), in particular for `engineFuel`. Python raises `RecursiveTypeError` on this input. -/
theorem C17t_use_loops (n : Nat) (hn : 8 ≤ n) :
    ∃ σ f, instantiate loopL n {} C17T.useSchema = .ok (σ, f) ∧
      applyT loopL n (allocVars σ 0 1) f (useArg.shift σ.vars.length) true = .error .outOfFuel :=
  use_loops_driver n hn

/-- on the store after the instantiation, for every fuel -/
theorem C17t_applyT_loops (n : Nat) : applyT loopL n useS useF useX true = .error .outOfFuel :=
  use_apply_loops n

/-! ## the constraint-free bound-tightening machine: constant fuel -/

/-- Without constraints `check_constraints` has nothing to do: fuel 2 suffices. -/
theorem C17t_checkConstraints_terminates_partial (L : Lang) {σ : Store} (nc : NoConstraints σ) {fuel : Nat}
    (hf : 2 ≤ fuel) (v : Nat) : checkConstraints L fuel σ v = .ok σ :=
  checkConstraints_nc_ne_oof L nc hf v

/-- Without constraints, binding a variable to a basic type needs fuel 3. -/
theorem C17t_bind_terminates_partial (L : Lang) {σ : Store} (nc : NoConstraints σ) {fuel : Nat} (hf : 3 ≤ fuel)
    (v o : Nat) (h0 : arityOf L o = 0) : bind L fuel σ v (.app o []) ≠ .error .outOfFuel :=
  bind_base_ne_oof L nc hf v o h0

/-- Without constraints, raising the lower bound of a variable (and closing it when the bounds meet) needs fuel 4. -/
theorem C17t_above_terminates_partial (L : Lang) {σ : Store} (nc : NoConstraints σ) {fuel : Nat} (hf : 4 ≤ fuel)
    (v new : Nat) (hv : v < σ.vars.length) (htop : arityOf L TOP = 0) (hnew : arityOf L new = 0)
    (hl : ∀ l, (getVar σ v).lower = some l → arityOf L l = 0) : above L fuel σ v new ≠ .error .outOfFuel :=
  above_ne_oof L nc hf v new hv htop hnew hl

/-- Without constraints, lowering the upper bound of a variable needs fuel 4. -/
theorem C17t_below_terminates_partial (L : Lang) {σ : Store} (nc : NoConstraints σ) {fuel : Nat} (hf : 4 ≤ fuel)
    (v new : Nat) (hv : v < σ.vars.length) (hbot : arityOf L BOT = 0) (hnew : arityOf L new = 0)
    (hl : ∀ u, (getVar σ v).upper = some u → arityOf L u = 0) : below L fuel σ v new ≠ .error .outOfFuel :=
  below_ne_oof L nc hf v new hv hbot hnew hl

/-- non-vacuity: the store with one fresh variable of `Tfv/Proofs/BoundsExamples.lean`, the bound `B` -/
example : above C05Ex.exL engineFuel C05Ex.exS 0 6 ≠ .error .outOfFuel ∧ below C05Ex.exL engineFuel C05Ex.exS 0 6 ≠ .error .outOfFuel :=
  ⟨C17t_above_terminates_partial C05Ex.exL C05Ex.exNC (by decide) 0 6 (by decide) (by decide) (by decide) (by intro l h; cases h),
   C17t_below_terminates_partial C05Ex.exL C05Ex.exNC (by decide) 0 6 (by decide) (by decide) (by decide) (by intro l h; cases h)⟩

/-! ## variable-free types: structural recursion, any store -/

/-- `unify` of two variable-free types ends: with fuel at least the number of nodes of both it is not out of fuel, in every
store (constraints, bindings, invariants are irrelevant) and with every flag. -/
theorem C17t_unify_ground_terminates_partial (L : Lang) (σ : Store) (a b : Term) (st sb sw : Bool)
    (ha : ground a = true) (hb : ground b = true) :
    ∃ N, N = tsize a + tsize b ∧ ∀ fuel, N ≤ fuel → unify L fuel σ a b st sb sw ≠ .error .outOfFuel :=
  ⟨_, rfl, fun _ hf => unify_ground_ne_oof L σ a b st sb sw ha hb hf⟩

/-- `fix` of a variable-free type ends within fuel twice its number of nodes. -/
theorem C17t_fix_ground_terminates_partial (L : Lang) (σ : Store) (t : Term) (pl : Bool) (ht : ground t = true) :
    ∃ N, N = 2 * tsize t ∧ ∀ fuel, N ≤ fuel → fix L fuel σ t pl ≠ .error .outOfFuel :=
  ⟨_, rfl, fun _ hf => fix_ground_ne_oof L σ t pl ht hf⟩

/-- Applying a variable-free function type `l ** r` (any binary operator in its place is rejected without recursion) to a
variable-free argument ends, in every store. -/
theorem C17t_applyT_ground_terminates_partial (L : Lang) (σ : Store) (o : Nat) (l r x : Term) (fixFlag : Bool)
    (hl : ground l = true) (hr : ground r = true) (hx : ground x = true) :
    ∃ N, N = max (tsize x + tsize l) (2 * tsize r) ∧
      ∀ fuel, N ≤ fuel → applyT L fuel σ (.app o [l, r]) x fixFlag ≠ .error .outOfFuel :=
  ⟨_, rfl, fun _ hf => applyT_ground_ne_oof L σ o l r x fixFlag hl hr hx (by omega) (by omega)⟩

/-- non-vacuity: `(A ** A) ** B` applied to `B ** A` in a store with a pending constraint; 8 nodes -/
example : ground (.app FUN [.app FUN [.app 5 [], .app 5 []], .app 6 []]) = true ∧ ground (.app FUN [.app 6 [], .app 5 []]) = true ∧
    tsize (.app FUN [.app 6 [], .app 5 []]) + tsize (.app FUN [.app 5 [], .app 5 []]) = 6 ∧
    applyT exL engineFuel σC (.app FUN [.app FUN [.app 5 [], .app 5 []], .app 6 []]) (.app FUN [.app 6 [], .app 5 []]) true
      ≠ .error .outOfFuel :=
  ⟨by decide, by decide, by decide,
   applyT_ground_ne_oof exL σC FUN _ _ _ true (by decide) (by decide) (by decide) (by decide) (by decide)⟩

end Tfv.C17
