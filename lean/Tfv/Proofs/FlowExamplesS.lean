import Tfv.Proofs.FlowGenS
import Tfv.Proofs.FlowExamples
/-!
# C08: concrete expressions of the class `HofS` (sources of function type passed as operations)
-/
namespace Tfv.C08P
open Tfv

/-- For an expression of the class added to the empty state, the layout `flowHOTop 0 [] e none` is what the
run of the graph code shows (through `addExpr_hofS_general`). -/
theorem layout_of_run {e : TExpr} {name : String} {ty : Term} (hof : HofS e) (hh : headOf e = .op name ty)
    {fr ints src : List (Nat × Nat)} {nb n : Nat}
    (hrun : summary (addExpr exG exCfg (.res "w") none {} e none false) = some (fr, ints, src, nb, n)) :
    (flowHOTop 0 [] e none).node = n ∧ (flowHOTop 0 [] e none).next = nb ∧ (flowHOTop 0 [] e none).memo = src ∧
    (flowHOTop 0 [] e none).ints = ints ∧ ∀ p, (flowHOTop 0 [] e none).edges p ↔ p ∈ fr := by
  obtain ⟨g', n', h⟩ := addExpr_total (G := exG) (c := exCfg) (root := .res "w") (origin := none) rfl {} e none false
  rw [h] at hrun
  simp only [summary, Option.some.injEq, Prod.mk.injEq] at hrun
  obtain ⟨h1, h2, h3, h4, h5⟩ := hrun
  obtain ⟨_, a2, a3, a4, _, a6, a7, _, _⟩ := addExpr_hofS_general rfl hof hh gfresh_empty srcNoInt_empty
    (by intro m hm; cases hm) h
  refine ⟨by rw [← h5]; exact a2.symm, by rw [← h4]; exact a3.symm, by rw [← h3]; exact a4.symm, ?_, ?_⟩
  · rw [← h2, a6]; rfl
  · intro p
    rw [← h1, a7 p]
    constructor
    · exact Or.inr
    · rintro (h' | h')
      · cases h'
      · exact h'

/-! ## `k s s` -/

theorem exRep_hofS : HofS exRep := hofS_sound _ (by decide)

/-- `k s s` is outside the class `Hof`: a passed operation is a source -/
theorem exRep_not_hof : ¬ Hof exRep := by
  intro h
  cases h with
  | spine _ name ty hh hheads _ =>
    obtain ⟨name', ty', h'⟩ := hheads exS (by simp [exRep, argsOf]) rfl
    cases h'

theorem isFun_s : exS.ty.isFunction = true := rfl

/-- the general layout of `k s s`, evaluated from its definition: node 0; both arguments have node 1 (the one
node of the source `s`; node 3 was reserved for the second `s` and is not used); internal nodes 2 and 4 -/
theorem exRep_layoutS :
    (flowHOTop 0 [] exRep none).node = 0 ∧ (flowHOTop 0 [] exRep none).next = 5 ∧
    (flowHOTop 0 [] exRep none).memo = [(3, 1)] ∧ (flowHOTop 0 [] exRep none).ints = [(0, 2), (0, 4)] := by
  have h1 : flowHO 3 [] exS 1 = { node := 1, next := 3, memo := [(3, 1)], ints := [], edges := fun _ => False } := by
    simp only [exS, flowHO_src]; rfl
  have h2 : flowHO 5 [(3, 1)] exS 3 = { node := 1, next := 5, memo := [(3, 1)], ints := [], edges := fun _ => False } := by
    simp only [exS, flowHO_src]; rfl
  simp only [flowHOTop, allocNode]
  rw [flowHO_spine _ _ _ _ "k" tFFA rfl]
  simp only [exRep, argsOf, List.nil_append, List.cons_append, List.foldl_cons, List.foldl_nil, hoArgStep, isFun_s,
    if_true, h1, h2]
  simp [spineInts]

/-- the argument list of the spine `k s s` as `spineEdges`/`hofEdges` see it: two positions, one node -/
theorem exRep_argInfos : spineArgInfos 1 [] exRep = [⟨1, some 2⟩, ⟨1, some 4⟩] := by
  unfold spineArgInfos
  have h1 : flowHO 3 [] exS 1 = { node := 1, next := 3, memo := [(3, 1)], ints := [], edges := fun _ => False } := by
    simp only [exS, flowHO_src]; rfl
  have h2 : flowHO 5 [(3, 1)] exS 3 = { node := 1, next := 5, memo := [(3, 1)], ints := [], edges := fun _ => False } := by
    simp only [exS, flowHO_src]; rfl
  simp only [exRep, argsOf, List.nil_append, List.cons_append, List.foldl_cons, List.foldl_nil, hoArgStep, isFun_s,
    if_true, h1, h2]
  rfl

/-- the edge set of the general layout of `k s s`: `0 → 1` (twice the same pair), `1 → 2`, `1 → 4`, `2 → 1`
(the first internal node receives the second argument) and `4 → 1` (the second internal node receives the
first argument, which is the node of its own argument) -/
theorem exRep_edgesS (p : Nat × Nat) :
    (flowHOTop 0 [] exRep none).edges p ↔ p ∈ [(4, 1), (2, 1), (0, 1), (1, 4), (0, 1), (1, 2)] :=
  (layout_of_run exRep_hofS (name := "k") (ty := tFFA) rfl exRep_run).2.2.2.2 p

/-! ## `h (u s) s`: nested, and the same source inside and outside -/

/-- `h (u s) s`: `u s : A ** A` is passed to `h`, the source `s : A ** A` is passed to `u` and, once more, to `h` -/
def exNestS : TExpr := .app (.app (.op "h" tFFA) (.app (.op "u" tFAA) exS tAA) tFA) exS tA

/-- nodes: 0 = `h …`, 1 = `u s` with internal node 2 (of `h`), 3 = `s` with internal node 4 (of `u`); the second
`s` is node 3 again (5 reserved, not used) with internal node 6 (of `h`). Edges: `3 → 4`, `1 → 3`, `1 → 2`,
`0 → 1`, `4 → 2` (nested rule), `3 → 6`, `0 → 3`, `2 → 3` and `6 → 1` (each internal node of `h` receives the other
argument). -/
theorem exNestS_run :
    summary (addExpr exG exCfg (.res "w") none {} exNestS none false) =
      some ([(6, 1), (2, 3), (0, 3), (3, 6), (4, 2), (0, 1), (1, 2), (1, 3), (3, 4)], [(0, 2), (1, 4), (0, 6)],
        [(3, 3)], 7, 0) := by
  decide +kernel

theorem exNestS_hofS : HofS exNestS := hofS_sound _ (by decide)

theorem exNestS_not_hof : ¬ Hof exNestS := by
  intro h
  cases h with
  | spine _ name ty hh hheads _ =>
    obtain ⟨name', ty', h'⟩ := hheads exS (by simp [exNestS, argsOf]) rfl
    cases h'

/-- the receiving step of `h (u s) s` sees `u s` (node 1, internal node 2) and `s` (node 3, internal node 6) -/
theorem exNestS_argInfos : spineArgInfos 1 [] exNestS = [⟨1, some 2⟩, ⟨3, some 6⟩] := by
  have hs1 : flowHO 5 [] exS 3 = { node := 3, next := 5, memo := [(3, 3)], ints := [], edges := fun _ => False } := by
    simp only [exS, flowHO_src]; rfl
  have hus : (flowHO 3 [] (.app (.op "u" tFAA) exS tAA) 1).next = 5 ∧
      (flowHO 3 [] (.app (.op "u" tFAA) exS tAA) 1).memo = [(3, 3)] ∧
      (flowHO 3 [] (.app (.op "u" tFAA) exS tAA) 1).node = 1 := by
    rw [flowHO_spine _ _ _ _ "u" tFAA rfl]
    simp only [argsOf, List.nil_append, List.foldl_cons, List.foldl_nil, hoArgStep, isFun_s, if_true, hs1]
    exact ⟨trivial, trivial, trivial⟩
  have hs2 : flowHO 7 [(3, 3)] exS 5 = { node := 3, next := 7, memo := [(3, 3)], ints := [], edges := fun _ => False } := by
    simp only [exS, flowHO_src]; rfl
  have hfun : (TExpr.app (.op "u" tFAA) exS tAA).ty.isFunction = true := rfl
  obtain ⟨u1, u2, u3⟩ := hus
  unfold spineArgInfos
  simp only [exNestS, argsOf, List.nil_append, List.cons_append, List.foldl_cons, List.foldl_nil, hoArgStep, hfun, isFun_s,
    if_true, u1, u2, hs2]
  simp [argInfos, u3]

theorem exNestS_layout :
    (flowHOTop 0 [] exNestS none).node = 0 ∧ (flowHOTop 0 [] exNestS none).next = 7 ∧
    (flowHOTop 0 [] exNestS none).memo = [(3, 3)] ∧
    (flowHOTop 0 [] exNestS none).ints = [(0, 2), (1, 4), (0, 6)] ∧
    ∀ p, (flowHOTop 0 [] exNestS none).edges p ↔
      p ∈ [(6, 1), (2, 3), (0, 3), (3, 6), (4, 2), (0, 1), (1, 2), (1, 3), (3, 4)] :=
  layout_of_run exNestS_hofS (name := "h") (ty := tFFA) rfl exNestS_run

/-! ## `f (k s s) (g s')`: the source id also used as data -/

/-- `f (k s s) (g s')` where `s'` is the source with the id of `s` read at the type `A`: a data argument -/
def exMix : TExpr := .app (.app (.op "f" tAAA) exRep tAA) (.app (.op "g" tAA) (.src 3 none tA) tA) tA

/-- nodes: 0 = `f …`, 1 = `k s s` with internal nodes 3 and 5, 2 = the source (three uses, one node), 6 = `g s'` -/
theorem exMix_run :
    summary (addExpr exG exCfg (.res "w") none {} exMix none false) =
      some ([(0, 6), (6, 2), (0, 1), (5, 2), (3, 2), (1, 2), (2, 5), (1, 2), (2, 3)], [(1, 3), (1, 5)], [(3, 2)], 8, 0) := by
  decide +kernel

theorem exMix_hofS : HofS exMix := hofS_sound _ (by decide)

theorem exMix_layout :
    (flowHOTop 0 [] exMix none).node = 0 ∧ (flowHOTop 0 [] exMix none).next = 8 ∧
    (flowHOTop 0 [] exMix none).memo = [(3, 2)] ∧
    (flowHOTop 0 [] exMix none).ints = [(1, 3), (1, 5)] ∧
    ∀ p, (flowHOTop 0 [] exMix none).edges p ↔
      p ∈ [(0, 6), (6, 2), (0, 1), (5, 2), (3, 2), (1, 2), (2, 5), (1, 2), (2, 3)] :=
  layout_of_run exMix_hofS (name := "f") (ty := tAAA) rfl exMix_run

/-! ## why `SrcNoInt` is needed -/

/-- a consistent state in which the internal node 5 hangs off the node 7 of the source `s` (such states arise from
expressions outside the class: a source at the head of a spine that is given an operation) -/
def exBadG : GState := { nextB := 8, srcNodes := [(3, 7)], internals := [(7, 5)] }
/-- `h s x`: the source `s : A ** A` is passed to `h` -/
def exHofS : TExpr := .app (.app (.op "h" tFAA) exS tAA) exX tA

/-- nodes: 8 = `h s x`, 7 = `s` (old) with the new internal node 10 in front of it, 11 = `x`. The edge `5 → 10`: the old
internal node 5 hangs off `s`'s node and is therefore fed by the new internal node (nested rule). -/
theorem exBad_run :
    summary (addExpr exG exCfg (.res "w") none exBadG exHofS none false) =
      some ([(10, 11), (8, 11), (5, 10), (8, 7), (7, 10)], [(7, 5), (8, 10)], [(3, 7), (0, 11)], 12, 8) := by
  decide +kernel

theorem exBad_fresh : GFresh exBadG ∧ ¬ SrcNoInt exBadG := by
  refine ⟨⟨?_, ?_, ?_⟩, ?_⟩
  · intro p hp
    have : p = (3, 7) := by simpa [exBadG] using hp
    subst this; decide
  · intro p hp
    have : p = (7, 5) := by simpa [exBadG] using hp
    subst this; decide
  · intro p hp; cases hp
  · intro h
    exact h (7, 5) (List.mem_singleton.2 rfl) (3, 7) (List.mem_singleton.2 rfl) rfl

theorem exBad_s : flowHO 11 [(3, 7)] exS 9 =
    { node := 7, next := 11, memo := [(3, 7)], ints := [], edges := fun _ => False } := by
  simp only [exS, flowHO_src]; rfl

theorem exBad_x : flowHO 12 [(3, 7)] exX 11 =
    { node := 11, next := 12, memo := [(3, 7), (0, 11)], ints := [], edges := fun _ => False } := by
  simp only [exX, flowHO_src]; rfl

/-- the layout has no edge `5 → 10`: in the layout no internal node hangs off a source -/
theorem exBad_not_edge : ¬ (flowHOTop 8 [(3, 7)] exHofS none).edges (5, 10) := by
  unfold flowHOTop
  have e := flowHO_spine (allocNode 8 none).2 [(3, 7)] exHofS (allocNode 8 none).1 "h" tFAA rfl
  rw [e]
  intro hE
  have a1 : (allocNode 8 none).2 = 9 := rfl
  have a2 : (allocNode 8 none).1 = 8 := rfl
  rw [a1, a2] at hE
  clear e a1 a2
  have hrs : (List.foldl hoArgStep { next := 9, memo := [(3, 7)], rs := [] } (argsOf exHofS)).rs =
      [({ node := 7, next := 11, memo := [(3, 7)], ints := [], edges := fun _ => False }, some 10),
       ({ node := 11, next := 12, memo := [(3, 7), (0, 11)], ints := [], edges := fun _ => False }, none)] := by
    simp only [exHofS, argsOf, List.nil_append, List.cons_append, List.foldl_cons, List.foldl_nil, hoArgStep, isFun_s,
      isFun_x, if_true, Bool.false_eq_true, if_false, Nat.reduceAdd, exBad_s, exBad_x]
  rw [hrs] at hE
  clear hrs
  rcases hE with ⟨q, hq, h⟩ | (⟨a, ha, h⟩ | ⟨a, ha, l, hl, h⟩ | ⟨i, j, hi, hj, _, l, hl, h⟩) | ⟨q, hq, l, μ, hl, hm, h⟩
  · simp only [List.mem_cons, List.not_mem_nil, or_false] at hq
    rcases hq with rfl | rfl <;> exact h
  · simp only [argInfos, List.map_cons, List.map_nil, List.mem_cons, List.not_mem_nil, or_false] at ha
    rcases ha with rfl | rfl <;> simp at h
  · simp only [argInfos, List.map_cons, List.map_nil, List.mem_cons, List.not_mem_nil, or_false] at ha
    rcases ha with rfl | rfl <;> simp at hl h
  · simp only [argInfos, List.map_cons, List.map_nil, List.length_cons, List.length_nil] at hi
    have : i = 0 ∨ i = 1 := by omega
    rcases this with rfl | rfl
    · simp [argInfos] at hl; subst hl; simp at h
    · simp [argInfos] at hl
  · simp only [List.mem_cons, List.not_mem_nil, or_false] at hq
    rcases hq with rfl | rfl <;> simp at hm

/-- without `SrcNoInt` the description of the edges is false: the graph has the edge `5 → 10`, which is neither old
nor an edge of the layout -/
theorem exBad_fails (g' : GState) (n : Nat)
    (h : addExpr exG exCfg (.res "w") none exBadG exHofS none false = .ok (g', n)) :
    (5, 10) ∈ g'.fd.frm ∧ (5, 10) ∉ exBadG.fd.frm ∧ ¬ (flowHOTop 8 [(3, 7)] exHofS none).edges (5, 10) := by
  have hr := exBad_run
  rw [h] at hr
  simp only [summary, Option.some.injEq, Prod.mk.injEq] at hr
  rw [hr.1]
  exact ⟨by decide, by decide, exBad_not_edge⟩

end Tfv.C08P
