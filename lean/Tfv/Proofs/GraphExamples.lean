import Tfv.Model.Graph
import Tfv.Model.Workflow
import Tfv.Proofs.GraphExpr
import Tfv.Proofs.GraphNorm
/-!
# Running example for the graph theorems

Language: builtins, `A` (5), `B < A` (6), `C < B` (7), covariant unary `F` (8); canon `{A, F(A), F(B), F(C), B, C}`
(= `mkCanon exL {} [A, F(A)]`, see `Tfv.C10Ex.canonA_eq`; written out so that the kernel evaluates quickly).

The graph's store is the default empty one and every type in the examples is variable-free. `normT` (well-founded
recursion) does not reduce in the kernel, so a run of `addExpr` is first brought into the factored form of
`Tfv/Proofs/GraphExpr.lean`, every `normT σ t` is rewritten to `t` by `GraphN.normT_closed`, and the rest is evaluated
by the kernel (tactic `graph_eval`).
-/
namespace Tfv.GraphEx
open Tfv

/-- evaluate a concrete run of `addExpr` over variable-free types -/
macro "graph_eval" : tactic => `(tactic| (
  simp only [addExpr_app, addExpr_op, addExpr_src, addExpr_shared, opBody, srcBody]
  simp (disch := decide) only [GraphN.normT_closed]
  decide +kernel))

def exL : Lang := builtinDecls ++
  [⟨"A", [], none⟩, ⟨"B", [], some 5⟩, ⟨"C", [], some 6⟩, ⟨"F", [true], none⟩]

def tA : Ty := .app 5 []
def tB : Ty := .app 6 []
def tC : Ty := .app 7 []
def tF (x : Ty) : Ty := .app 8 [x]

def exG : GLang := { types := exL, cfg := {}, canon := [tA, tF tA, tF tB, tF tC, tB, tC] }

def tmA : Term := .app 5 []
def tmB : Term := .app 6 []
def tmC : Term := .app 7 []
def tmFn (a b : Term) : Term := .app FUN [a, b]
def tmF (a : Term) : Term := .app 8 [a]

def root : Node := .res "root"

/-- `f x` with `f : A → B`, `x : A` -/
def ex1 : TExpr := .app (.op "f" (tmFn tmA tmB)) (.src 0 none tmA) tmB

/-- `map g y` with `map : (A → B) → F(A) → F(B)`, `g : A → B`, `y : F(A)`: the argument `g` is a function, so the
application gets an internal node -/
def ex2 : TExpr :=
  .app (.app (.op "map" (tmFn (tmFn tmA tmB) (tmFn (tmF tmA) (tmF tmB)))) (.op "g" (tmFn tmA tmB))
    (tmFn (tmF tmA) (tmF tmB))) (.src 0 none (tmF tmA)) (tmF tmB)

/-- the graph of `ex2`, from the initial graph, default configuration -/
def run2 : Except GErr (GState × Nat) := addExpr exG {} root none (initGraph exG {}) ex2 none false

theorem run2_fd : run2.toOption.map (fun p => (p.1.fd.frm, p.1.fd.dep, p.1.internals, p.2))
    = some ([(2, 3), (0, 3), (0, 1), (1, 2)], [(1, 2), (0, 1), (0, 2), (0, 3), (2, 3), (1, 3)], [(0, 2)], 0) := by
  unfold run2 ex2
  graph_eval

def run1 : Except GErr (GState × Nat) := addExpr exG {} root none (initGraph exG {}) ex1 none false

theorem run1_triples : run1.toOption.map (fun p => (p.1.triples, p.1.fd.frm, p.1.fd.dep, p.2))
    = some ([(.b 0, .tf "via", .ns "f"), (root, .tf "containsOperation", .ns "f"),
      (.b 0, .tf "type", .ns "B"), (.b 0, .tf "subtypeOf", .ns "B"), (root, .tf "containsType", .ns "B"),
      (root, .tf "containsType", .ns "A"), (.b 0, .tf "subtypeOf", .ns "A"),
      (.b 1, .tf "type", .ns "A"), (.b 1, .tf "subtypeOf", .ns "A")], [(0, 1)], [(0, 1)], 0) := by
  unfold run1 ex1
  graph_eval

/-- the same expression with `with_dependencies` off -/
def run2nd : Except GErr (GState × Nat) :=
  addExpr exG { withDependencies := false } root none (initGraph exG { withDependencies := false }) ex2 none false

theorem run2nd_fd : run2nd.toOption.map (fun p => (p.1.fd.frm, p.1.fd.dep))
    = some ([(2, 3), (0, 3), (0, 1), (1, 2)], []) := by
  unfold run2nd ex2
  graph_eval

/-! ### a workflow: source `r0 : A`, `r1 = f r0`, `r2 = g r1` with `f : A → B`, `g : B → C` -/

def wP : PLang := { types := exL }
def wops : List OperatorDecl :=
  [ ⟨"f", ⟨0, 0, .app FUN [.app 5 [], .app 6 []], []⟩⟩,
    ⟨"g", ⟨0, 0, .app FUN [.app 6 [], .app 7 []], []⟩⟩ ]
def wf1 : Wf :=
  { sources := [0], apps := [{ out := 1, toks := ["f", "1"], inputs := [0] }, { out := 2, toks := ["g", "1"], inputs := [1] }] }

/-- the expressions `add_workflow` computes for the three resources (passthrough) -/
def wf1exprs : List (Nat × TExpr) :=
  [(0, .src 0 none tmA),
   (1, .shared 1 (.app (.op "f" (tmFn tmA tmB)) (.src 0 none tmA) tmB)),
   (2, .shared 2 (.app (.op "g" (tmFn tmB tmC)) (.shared 1 (.app (.op "f" (tmFn tmA tmB)) (.src 0 none tmA) tmB)) tmC))]

def runWfNode : Except WErr (GState × Nat) :=
  wfNode exG {} wf1 (.res "workflow") wf1exprs 4 (initGraph exG {}) 2

theorem runWfNode_fd : runWfNode.toOption.map (fun p => (p.1.fd.frm, p.1.fd.dep, p.1.sharedNodes, p.2))
    = some ([(3, 1), (1, 0)], [(1, 0), (3, 1), (3, 0)], [(1, 1), (2, 3)], 3) := by
  unfold runWfNode
  simp only [wfNode, wf1exprs, wf1, Wf.app?, List.find?, Option.map, Nat.reduceBEq, List.contains, List.elem,
    List.foldlM]
  graph_eval

/-! ### annotating a node of type `C` (supertypes `B`, `A`) -/

theorem annC_triples : ((annotateType exG {} (initGraph exG {}) root 0 tmC false).toOption.map (·.triples))
    = some [(.b 0, .tf "type", .ns "C"), (.b 0, .tf "subtypeOf", .ns "C"), (root, .tf "containsType", .ns "C"),
      (root, .tf "containsType", .ns "B"), (.b 0, .tf "subtypeOf", .ns "B"),
      (root, .tf "containsType", .ns "A"), (.b 0, .tf "subtypeOf", .ns "A")] := by
  decide +kernel

/-! ### stale types: a stored type that still shows the variable `x0`, which the store has bound to `B` since -/

def staleStore : Store := { vars := [{ bound := some tmB }], csets := [[]] }

/-- the running example's language with the store in which `x0 := B` -/
def exGs : GLang := { exG with store := staleStore }

theorem normT_stale_var : normT exGs.store (.var 0) = tmB := by
  show normTerm staleStore (64 + 1) (.var 0) = tmB
  rw [normTerm]
  have hf : followT staleStore (.var 0) = .app 6 [] := by rfl
  rw [hf]
  simp only []
  rw [normTermL]
  rfl

theorem normT_stale_out : normT exGs.store (outputType 1000 (tmFn tmA (.var 0))) = tB.toTerm :=
  normT_stale_var

/-- an operator `h : A → x0`: `output()` walks the stored type and finds `x0`, `normalize()` follows it to `B`; the
node is annotated with `B` and its supertypes -/
theorem staleOp_triples :
    ((addExpr exGs {} root none (initGraph exGs {}) (.op "h" (tmFn tmA (.var 0))) (some 7) false).toOption.map
      (fun p => (p.2, p.1.triples)))
    = some (7, [(.b 7, .tf "via", .ns "h"), (root, .tf "containsOperation", .ns "h"),
        (.b 7, .tf "type", .ns "B"), (.b 7, .tf "subtypeOf", .ns "B"), (root, .tf "containsType", .ns "B"),
        (root, .tf "containsType", .ns "A"), (.b 7, .tf "subtypeOf", .ns "A")]) := by
  simp only [addExpr_op, opBody]
  rw [normT_stale_out]
  decide +kernel

/-- a source whose stored type is the variable `x0`, bound to `B` since the source was fixed: the type is followed first
(repair of defect D30), so the node is annotated like any source of type `B` -/
theorem staleSrc_triples :
    ((addExpr exGs {} root none (initGraph exGs {}) (.src 0 none (.var 0)) (some 7) false).toOption.map
      (fun p => (p.2, p.1.triples)))
    = some (7, [(.b 7, .tf "type", .ns "B"), (.b 7, .tf "subtypeOf", .ns "B"), (root, .tf "containsType", .ns "B"),
        (root, .tf "containsType", .ns "A"), (.b 7, .tf "subtypeOf", .ns "A")]) := by
  simp only [addExpr_src, srcBody]
  rw [normT_stale_var]
  decide +kernel

end Tfv.GraphEx
