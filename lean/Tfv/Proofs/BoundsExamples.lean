import Tfv.Proofs.BoundsApply
import Tfv.Proofs.BoundsFix
import Tfv.Proofs.BoundsTop
/-!
# C05: concrete instances — the running example, non-vacuity witnesses and counterexamples
(the model's mutual block does not reduce by `rfl`, so concrete runs are computed through the
proven per-variable forms `runRaw_eq`, `runSupply_eq`, `fix_var_unbound`)
-/
namespace Tfv.C05Ex
open Tfv Tfv.C05P

/-- `C < B < A` (operators 7, 6, 5) and an unrelated `D` (8) -/
def exL : Lang := builtinDecls ++ [⟨"A", [], none⟩, ⟨"B", [], some 5⟩, ⟨"C", [], some 6⟩, ⟨"D", [], none⟩]
/-- one fresh variable -/
def exS : Store := { vars := [{}], csets := [[]], constrs := [] }
theorem exWF : WF exL := wf_of_wfLangB exL (by decide)
theorem exNC : NoConstraints exS := noConstraints_of_all (by decide)
theorem exFresh : FreshI (getVar exS 0) := ⟨rfl, rfl, rfl⟩
theorem exChain : ChainOn exL (fun x => x ∈ [6, 7, 5]) := chainOn_of_chainB exWF (by decide)
theorem exInv : C05P.InvI exL (getVar exS 0) := freshI_inv exL exFresh

def exOps : List Op := [(true, 7), (false, 6), (true, 6), (false, 5)]
theorem exChainOps : ChainOn exL (fun x => ∃ op ∈ exOps, op.2 = x) := chainOn_ops_of_chainB exWF (by decide)
theorem exCompat : Compat exL exOps := (compat_iff_compatB exWF exChainOps).mpr (by decide)

def exOpsX : List Op := [(true, 5), (false, 6), (true, 7)]
theorem exChainOpsX : ChainOn exL (fun x => ∃ op ∈ exOpsX, op.2 = x) := chainOn_ops_of_chainB exWF (by decide)
theorem exCrossing : ¬ Compat exL exOpsX := fun h => by
  have := (compat_iff_compatB exWF exChainOpsX).mp h
  revert this; decide

def exOpsS : List Op := [(true, 7), (false, 5), (true, 6)]
theorem exChainOpsS : ChainOn exL (fun x => ∃ op ∈ exOpsS, op.2 = x) := chainOn_ops_of_chainB exWF (by decide)
theorem exStrict : StrictCompat exL exOpsS := by
  intro a b ha hb
  simp only [exOpsS, List.mem_cons, Prod.mk.injEq, List.not_mem_nil, or_false, true_and, false_and,
    Bool.true_eq_false, Bool.false_eq_true, or_false, false_or] at ha hb
  subst hb
  rcases ha with rfl | rfl
  · exact ⟨anc_of_opSub exWF (by decide) (by decide) (by decide), by decide⟩
  · exact ⟨anc_of_opSub exWF (by decide) (by decide) (by decide), by decide⟩

theorem exMixedStrict : ∀ a ∈ [7, 6], ∀ b ∈ [5], Anc exL a b ∧ a ≠ b := by
  intro a ha b hb
  simp only [List.mem_cons, List.not_mem_nil, or_false] at ha hb
  subst hb
  rcases ha with rfl | rfl
  · exact ⟨anc_of_opSub exWF (by decide) (by decide) (by decide), by decide⟩
  · exact ⟨anc_of_opSub exWF (by decide) (by decide) (by decide), by decide⟩

theorem exStrictPre : StrictCompat exL [(true, 7), (false, 5)] := by
  intro a b ha hb
  simp only [List.mem_cons, Prod.mk.injEq, List.not_mem_nil, or_false, true_and, false_and,
    Bool.true_eq_false, Bool.false_eq_true, or_false, false_or] at ha hb
  subst ha hb
  exact ⟨anc_of_opSub exWF (by decide) (by decide) (by decide), by decide⟩

theorem exChainMono : ChainOn exL (fun x => x = 7 ∨ ∃ o ∈ [((false, 5) : Op)] ++ (true, 5) :: [(true, 6)], o.2 = x) := by
  refine chainOn_congr (fun x hx => ?_) exChain
  rcases hx with hx | ⟨o, ho, e⟩
  · subst hx; decide
  · simp only [List.cons_append, List.nil_append, List.mem_cons, List.not_mem_nil, or_false] at ho
    rcases ho with rfl | rfl | rfl <;> (subst e; decide)

/-- `below A; above A; above B` binds the variable to `A` -/
theorem exMonoRun : runSupply exL 5 exS 0 ([(false, 5)] ++ (true, 5) :: [(true, 6)]) =
    .ok (setVar exS 0 (resultI (getVar exS 0) (some 5) (some 5) false)) := by
  rw [runSupply_eq exL exWF exNC 0 0 (by decide) _ (by decide) exInv]; rfl

/-- direct calls are order dependent once the bounds meet -/
theorem raw_order_dependent (n : Nat) :
    runRaw exL (n+4) exS 0 [(true, 6), (false, 5), (false, 6)] =
      .ok (setVar exS 0 { bound := some (.app 6 []), lower := some 6, upper := some 6 }) ∧
    runRaw exL (n+4) exS 0 [(true, 6), (false, 6), (false, 5)] =
      .error (.internal "below:assert not self.bound") ∧
    runSupply exL (n+5) exS 0 [(true, 6), (false, 6), (false, 5)] =
      .ok (setVar exS 0 { bound := some (.app 6 []), lower := some 6, upper := some 6 }) := by
  refine ⟨?_, ?_, ?_⟩
  · rw [runRaw_eq exL exWF exNC n 0 (by decide) _ (by decide) exInv]; rfl
  · rw [runRaw_eq exL exWF exNC n 0 (by decide) _ (by decide) exInv]; rfl
  · rw [runSupply_eq exL exWF exNC n 0 (by decide) _ (by decide) exInv]; rfl

/-- crossing supplies, direct calls: the error kind depends on the order -/
theorem raw_crossing_internal (n : Nat) :
    runRaw exL (n+4) exS 0 [(true, 6), (false, 6), (false, 7)] =
      .error (.internal "below:assert not self.bound") ∧
    runRaw exL (n+4) exS 0 [(true, 6), (false, 7), (false, 6)] = .error .subtypeMismatch ∧
    runSupply exL (n+5) exS 0 [(true, 6), (false, 6), (false, 7)] = .error .subtypeMismatch := by
  refine ⟨?_, ?_, ?_⟩
  · rw [runRaw_eq exL exWF exNC n 0 (by decide) _ (by decide) exInv]; rfl
  · rw [runRaw_eq exL exWF exNC n 0 (by decide) _ (by decide) exInv]; rfl
  · rw [runSupply_eq exL exWF exNC n 0 (by decide) _ (by decide) exInv]; rfl

/-- a variable with lower bound `B` -/
def exS1 : Store := { vars := [{ lower := some 6 }], csets := [[]], constrs := [] }
theorem exNC1 : NoConstraints exS1 := noConstraints_of_all (by decide)
theorem exS1_lower : ∀ l, (getVar exS1 0).lower = some l → l ≠ TOP ∧ arityOf exL l = 0 := fun l h => by
  have : l = 6 := by simpa [exS1, getVar] using h.symm
  subst this; decide

/-! ### `fix` on `x₀ ** x₁` with `x₀ ≤ A` and `C ≤ x₁` -/


def exS2 : Store := { vars := [{ upper := some 5 }, { lower := some 7 }], csets := [[], []], constrs := [] }
theorem exNC2 : NoConstraints exS2 := noConstraints_of_all (by decide)
def exS2a : Store := { vars := [{ upper := some 5, bound := some (.app 5 []) }, { lower := some 7 }], csets := [[], []], constrs := [] }
theorem exNC2a : NoConstraints exS2a := noConstraints_of_all (by decide)
def exS2' : Store := { vars := [{ upper := some 5, bound := some (.app 5 []) }, { lower := some 7, bound := some (.app 7 []) }], csets := [[], []], constrs := [] }

theorem exFix2 : fix exL 7 exS2 (.app FUN [.var 0, .var 1]) true = .ok (exS2', .app FUN [.var 0, .var 1]) := by
  rw [fix, C05P.followT_app]
  simp only
  rw [show varianceOf exL FUN = [false, true] from rfl]
  rw [fixList]
  simp only [Bool.false_eq_true, if_false, Bool.not_true]
  rw [fix_var_unbound exL exNC2 1 0 false rfl (by intro b hb; simp [exS2, getVar] at hb; subst hb; decide)]
  rw [show (if false = true then (getVar exS2 0).lower else (getVar exS2 0).upper) = some 5 from rfl]
  simp only
  rw [show liftI exS2 0 (bindBaseI exL (getVar exS2 0) 5) = .ok exS2a from rfl]
  simp only
  rw [fixList]
  simp only [if_true]
  rw [fix_var_unbound exL exNC2a 0 1 true rfl (by intro b hb; simp [exS2a, getVar] at hb; subst hb; decide)]
  rw [show (if true = true then (getVar exS2a 1).lower else (getVar exS2a 1).upper) = some 7 from rfl]
  simp only
  rw [show liftI exS2a 1 (bindBaseI exL (getVar exS2a 1) 7) = .ok exS2' from rfl]
  simp only
  rw [fixList]
  exact fun _ _ _ _ h => by cases h

def exRho : Val := fun _ => .app 6 []

theorem exSat2 : Sat exL exRho exS2 := by
  refine ⟨fun v => by show wfTy exL (.app 6 []) = true; decide, fun v t h => ?_, fun v l _ h => ?_, fun v u _ h => ?_⟩
  · rw [allUnbound_of_all (σ := exS2) (by decide) v] at h; cases h
  · match v with
    | 0 => cases h
    | 1 =>
      have : l = 7 := by simpa [exS2, getVar] using h.symm
      subst this
      exact Sub.base (by decide) (by decide) (anc_of_opSub exWF (by decide) (by decide) (by decide))
    | n+2 => simp [exS2, getVar] at h
  · match v with
    | 0 =>
      have : u = 5 := by simpa [exS2, getVar] using h.symm
      subst this
      exact Sub.base (by decide) (by decide) (anc_of_opSub exWF (by decide) (by decide) (by decide))
    | 1 => cases h
    | n+2 => simp [exS2, getVar] at h


/-- side conditions of the leastness theorems for `exS2`, `x₀ ** x₁` -/
theorem exUnb2 : ∀ x q, Occ exL (.app FUN [.var 0, .var 1]) true x q → (getVar exS2 x).bound = none :=
  fun x _ _ => allUnbound_of_all (σ := exS2) (by decide) x
theorem exOkb2 : ∀ w, okBound exL (getVar exS2 w).lower ∧ okBound exL (getVar exS2 w).upper :=
  okb_of_all (by decide)
theorem exSp2 : ∀ x, Occ exL (.app FUN [.var 0, .var 1]) true x true →
    Occ exL (.app FUN [.var 0, .var 1]) true x false →
    (getVar exS2 x).lower = none ∧ (getVar exS2 x).upper = none := fun x h1 h2 => by
  rcases occ_app2_inv (va := false) (vb := true) rfl h1 with ⟨e, q⟩ | ⟨e, _⟩
  · simp at q
  · rcases occ_app2_inv (va := false) (vb := true) rfl h2 with ⟨e', _⟩ | ⟨_, q⟩
    · rw [e] at e'; cases e'
    · simp at q
theorem exNoBind2 : ∀ w s, (getVar exS2 w).bound = some s → False := fun w s hs => by
  rw [allUnbound_of_all (σ := exS2) (by decide) w] at hs; cases hs


/-! ### counterexample 1: a binding that mentions the fixed variable -/

def exS3 : Store :=
  { vars := [{ lower := some 6 }, { bound := some (.app FUN [.var 0, .app UNIT []]) }], csets := [[], []], constrs := [] }
def exS3' : Store :=
  { vars := [{ lower := some 6, bound := some (.app 6 []) }, { bound := some (.app FUN [.var 0, .app UNIT []]) }],
    csets := [[], []], constrs := [] }
def exRho3 : Val := fun w => if w = 1 then .app FUN [.app 5 [], .app UNIT []] else .app 5 []

theorem exFix3 : fix exL 4 exS3 (.var 0) true = .ok (exS3', .app 6 []) := by
  rw [fix_var_unbound exL (noConstraints_of_all (by decide)) 0 0 true rfl
    (by intro b hb; simp [exS3, getVar] at hb; subst hb; decide)]
  rfl

theorem exSat3 : Sat exL exRho3 exS3 := by
  refine ⟨fun v => ?_, fun v t h => ?_, fun v l hb h => ?_, fun v u _ h => ?_⟩
  · unfold exRho3; split <;> decide
  · match v with
    | 0 => cases h
    | 1 =>
      have : t = .app FUN [.var 0, .app UNIT []] := by
        have : some (Term.app FUN [.var 0, .app UNIT []]) = some t := h
        injection this with this; exact this.symm
      subst this
      simp [exRho3, den, denL]
    | n+2 => simp [exS3, getVar] at h
  · match v with
    | 0 =>
      have : l = 6 := by simpa [exS3, getVar] using h.symm
      subst this
      exact Sub.base (by decide) (by decide) (anc_of_opSub exWF (by decide) (by decide) (by decide))
    | 1 => cases hb
    | n+2 => simp [exS3, getVar] at h
  · match v with
    | 0 => cases h
    | 1 => cases h
    | n+2 => simp [exS3, getVar] at h

/-- no solution of the new store agrees with `exRho3` on variable 1 -/
theorem exNo3 : ¬ ∃ ρ', Sat exL ρ' exS3' ∧
    (∀ w, (getVar exS3' w).bound = (getVar exS3 w).bound → ρ' w = exRho3 w) := by
  rintro ⟨ρ', sat, agree⟩
  have h1 : ρ' 1 = .app FUN [.app 5 [], .app UNIT []] := agree 1 rfl
  have h2 := sat.bound 1 (.app FUN [.var 0, .app UNIT []]) rfl
  have h0 := sat.bound 0 (.app 6 []) rfl
  simp only [den, denL] at h2 h0
  rw [h0, h1] at h2
  simp at h2

/-- side conditions of the acyclic leastness theorem for `exS3` (variable 1 bound to `x₀ ** Unit`), term `x₀` -/
theorem exUnb3 : ∀ x q, Occ exL (.var 0) true x q → (getVar exS3 x).bound = none := fun x q h => by
  obtain ⟨e, _⟩ := occ_var_inv h
  subst e; rfl
theorem exOkb3 : ∀ w, okBound exL (getVar exS3 w).lower ∧ okBound exL (getVar exS3 w).upper :=
  okb_of_all (by decide)
theorem exBind3 : ∀ w s, (getVar exS3 w).bound = some s → s = .app FUN [.var 0, .app UNIT []] ∧ w = 1 :=
  fun w s h => by
    match w with
    | 0 => cases h
    | 1 =>
      have : some (Term.app FUN [.var 0, .app UNIT []]) = some s := h
      injection this with this; exact ⟨this.symm, rfl⟩
    | n+2 => simp [exS3, getVar] at h
theorem exOkbind3 : ∀ w s, (getVar exS3 w).bound = some s → okTerm exL exS3 s = true := fun w s h => by
  rw [(exBind3 w s h).1]; decide
theorem exAcyc3 : ∀ w s x, (getVar exS3 w).bound = some s → HasVar s x → id x < id w := fun w s x h hx => by
  obtain ⟨e1, e2⟩ := exBind3 w s h
  subst e1 e2
  cases hx with
  | app hx =>
    cases hx with
    | head hx => cases hx; decide
    | tail hx =>
      cases hx with
      | head hx => cases hx with | app hx => cases hx
      | tail hx => cases hx
theorem exSp3 : ∀ x, Occ exL (.var 0) true x true → Occ exL (.var 0) true x false →
    (getVar exS3 x).lower = none ∧ (getVar exS3 x).upper = none := fun x _ h2 => by
  have := (occ_var_inv h2).2; cases this

/-! ### counterexample 2: both polarities -/

def exS4 : Store := { vars := [{ lower := some 6 }], csets := [[]], constrs := [] }
def exS4' : Store := { vars := [{ lower := some 6, bound := some (.app 6 []) }], csets := [[]], constrs := [] }
def exRho4 : Val := fun _ => .app 5 []

theorem exFix4 : fix exL 7 exS4 (.app FUN [.var 0, .var 0]) true = .ok (exS4', .app FUN [.var 0, .var 0]) := by
  rw [fix, C05P.followT_app]
  simp only
  rw [show varianceOf exL FUN = [false, true] from rfl]
  rw [fixList]
  simp only [Bool.false_eq_true, if_false, Bool.not_true]
  rw [fix_var_unbound exL (noConstraints_of_all (by decide)) 1 0 false rfl (by intro b hb; simp [exS4, getVar] at hb)]
  rw [show (if false = true then (getVar exS4 0).lower else (getVar exS4 0).upper) = none from rfl]
  simp only
  rw [fixList]
  simp only [if_true]
  rw [fix_var_unbound exL (noConstraints_of_all (by decide)) 0 0 true rfl
    (by intro b hb; simp [exS4, getVar] at hb; subst hb; decide)]
  rw [show (if true = true then (getVar exS4 0).lower else (getVar exS4 0).upper) = some 6 from rfl]
  simp only
  rw [show liftI exS4 0 (bindBaseI exL (getVar exS4 0) 6) = .ok exS4' from rfl]
  simp only
  rw [fixList]
  exact fun _ _ _ _ h => by cases h

theorem exSat4 : Sat exL exRho4 exS4 := by
  refine ⟨fun v => by show wfTy exL (.app 5 []) = true; decide, fun v t h => ?_, fun v l _ h => ?_, fun v u _ h => ?_⟩
  · rw [allUnbound_of_all (σ := exS4) (by decide) v] at h; cases h
  · match v with
    | 0 =>
      have : l = 6 := by simpa [exS4, getVar] using h.symm
      subst this
      exact Sub.base (by decide) (by decide) (anc_of_opSub exWF (by decide) (by decide) (by decide))
    | n+1 => simp [exS4, getVar] at h
  · match v with
    | 0 => cases h
    | n+1 => simp [exS4, getVar] at h

/-- `B ** B` is not below `A ** A` -/
theorem exNo4 : ¬ ∃ ρ', Sat exL ρ' exS4' ∧
    Sub exL (den ρ' (.app FUN [.var 0, .var 0])) (den exRho4 (.app FUN [.var 0, .var 0])) := by
  rintro ⟨ρ', sat, hsub⟩
  have h0 := sat.bound 0 (.app 6 []) rfl
  simp only [den, denL] at h0 hsub
  rw [h0] at hsub
  rcases sub_inv hsub with ⟨e, _⟩ | ⟨e, _⟩ | ⟨e, _⟩ | ⟨_, _, r⟩
  · cases e
  · cases e
  · cases e
  · rw [show varianceOf exL FUN = [false, true] from rfl] at r
    have h := (subArgs_cons_false.mp r).1
    rcases sub_inv h with ⟨e, _⟩ | ⟨e, _⟩ | ⟨_, _, _, _, a⟩ | ⟨e, _⟩
    · cases e
    · cases e
    · have := anc_le exWF a; omega
    · cases e

end Tfv.C05Ex
