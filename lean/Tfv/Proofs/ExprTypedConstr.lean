import Tfv.Proofs.ExprTyped
import Tfv.Proofs.InferConstrMain
/-!
# Every expression the typed builder makes is well typed at every application node (C04),
for operator tables whose signatures may carry constraints

The constrained counterpart of `ExprTyped.lean`: the store invariant is `OkStoreC` (pending constraints
allowed), the step relation between builder states is `StepA` (invariant kept, no variable and no constraint
lost, every solution of the later store is a solution of the earlier one). The four operations of
`typedBuilder` satisfy the premises of the generic invariant lemma of `ParseInv.lean` with `OkStoreC` and
`TypedIn`; hence so does everything `parse_expr` returns; `Expr.fix()` and `Expr.__call__` preserve it.
-/
namespace Tfv.C04C
open Tfv Tfv.C03P Tfv.C03C Tfv.C04P Tfv.ParseInv

/-! ## 1. the predicate along sound store steps -/

/-- operator declarations in scope, constraints allowed: the constraints and the body mention only the
schema's variables and respect arities -/
def OpsOkC (L : Lang) (ops : List OperatorDecl) : Prop :=
  ∀ d ∈ ops, (∀ c, c ∈ d.schema.constraints → okCAstN L (d.schema.nvars + d.schema.nwild) c = true) ∧
    okTermN L (d.schema.nvars + d.schema.nwild) d.schema.body = true

/-- the executable form -/
def opsOkCB (L : Lang) (ops : List OperatorDecl) : Bool :=
  ops.all fun d => d.schema.constraints.all (fun c => okCAstN L (d.schema.nvars + d.schema.nwild) c) &&
    okTermN L (d.schema.nvars + d.schema.nwild) d.schema.body

theorem opsOkCB_sound {L : Lang} {ops : List OperatorDecl} (h : opsOkCB L ops = true) : OpsOkC L ops := by
  intro d hd
  have := List.all_eq_true.mp h d hd
  rw [Bool.and_eq_true] at this
  exact ⟨fun c hc => List.all_eq_true.mp this.1 c hc, this.2⟩

/-- declarations without constraints (the scope of the constraint-free theorems) are a special case -/
theorem opsOkC_of_opsOk {L : Lang} {ops : List OperatorDecl} (h : OpsOk L ops) : OpsOkC L ops :=
  fun d hd => ⟨fun c hc => (by rw [(h d hd).1] at hc; cases hc), (h d hd).2⟩

theorem typedIn_monoA {L : Lang} {σ σ' : Store} {e : TExpr} (s : StepA L σ σ') (h : TypedIn L σ e) :
    TypedIn L σ' e :=
  ⟨okExpr_mono s.len e h.ok, fun ρ hρ => h.wt ρ (s.sat ρ hρ)⟩

/-- a step between builder states is a sound step between their stores -/
def XStepA (L : Lang) (s s' : XState) : Prop := StepA L s.store s'.store

/-! ## 2. the four builder operations -/

theorem mkSource_typedC {L : Lang} (s : XState) (g : OkStoreC L s.store) :
    OkStoreC L (mkSourceT s).1.store ∧ StepA L s.store (mkSourceT s).1.store ∧
    TypedIn L (mkSourceT s).1.store (mkSourceT s).2 := by
  rw [mkSourceT_eq]
  have st := stepA_newVar (L := L) g true
  refine ⟨st.ok, st, typedIn_src (okTerm_var.mpr ?_)⟩
  show s.store.vars.length < (newVar s.store true).1.vars.length
  rw [length_newVar]; omega

theorem mkOp_typedC {L : Lang} (wf : WF L) {ops : List OperatorDecl} (hops : OpsOkC L ops)
    {s s' : XState} {name : String} {e : TExpr} (g : OkStoreC L s.store)
    (h : mkOpT L ops s name = .ok (s', e)) :
    OkStoreC L s'.store ∧ StepA L s.store s'.store ∧ TypedIn L s'.store e := by
  obtain ⟨d, σ, t, hmem, _, hi, hs, he⟩ := mkOpT_decl h
  obtain ⟨st, _, h5, _⟩ := instantiate_soundC wf g (hops d hmem).1 (hops d hmem).2 hi
  rw [hs]
  refine ⟨st.ok, st, ?_⟩
  rcases he with rfl | rfl
  · exact typedIn_op h5
  · exact typedIn_src h5

theorem mkApp_typedC {L : Lang} (wf : WF L) {fixFlag : Bool} {s s' : XState} {f x e : TExpr}
    (g : OkStoreC L s.store) (hf : TypedIn L s.store f) (hx : TypedIn L s.store x)
    (h : mkAppT L fixFlag s f x = .ok (s', e)) :
    OkStoreC L s'.store ∧ StepA L s.store s'.store ∧ TypedIn L s'.store e := by
  unfold mkAppT at h
  split at h
  · cases h
  · rename_i σ t ha
    cases h
    obtain ⟨stC, h5, h6⟩ := applyT_soundC wf g hf.ty hx.ty ha
    have st : StepA L s.store σ := stC.toA
    refine ⟨st.ok, st, ?_, fun ρ hρ => ?_⟩
    · unfold okExpr
      simp only [Bool.and_eq_true]
      exact ⟨⟨(typedIn_monoA st hf).ok, (typedIn_monoA st hx).ok⟩, h5⟩
    · unfold WellTyped
      refine ⟨(typedIn_monoA st hf).wt ρ hρ, (typedIn_monoA st hx).wt ρ hρ, ?_⟩
      rcases h6 ρ hρ with hfun | ⟨htop, hr⟩
      · exact Or.inl hfun
      · exact Or.inr ⟨htop, by rw [hr, den_app, denL_nil]⟩

/-- `: T`: the state stays good, the annotated tree is typed in the new store, and its type is a
subtype of the annotation under every solution of the new store -/
theorem annotate_typedC {L : Lang} (wf : WF L) {s s' : XState} {previous e : TExpr} {t : Term}
    {nfresh : Nat} {prevDash : Bool} (g : OkStoreC L s.store) (hp : TypedIn L s.store previous)
    (ht : okTerm L (allocVars s.store nfresh 0) t = true)
    (h : annotateT L s previous t nfresh prevDash = .ok (s', e)) :
    OkStoreC L s'.store ∧ StepA L s.store s'.store ∧ TypedIn L s'.store e ∧
    e = annotated previous t prevDash ∧
    ∀ ρ, Sat L ρ s'.store → Sub L (den ρ e.ty) (den ρ t) := by
  rw [annotateT_eq] at h
  split at h
  · cases h
  · rename_i σ1 hu
    cases h
    obtain ⟨s0, _⟩ := stepA_allocVars (L := L) g nfresh 0
    have hp' := typedIn_annotated (prevDash := prevDash) (typedIn_monoA s0 hp) ht
    obtain ⟨s1C, hsub⟩ := (all_soundC wf exprFuel).1 _ _ _ false false σ1 s0.ok hp'.ty ht hu
    have s1 : StepA L (allocVars s.store nfresh 0) σ1 := s1C.toA
    exact ⟨s1.ok, s0.trans s1, typedIn_monoA s1 hp', rfl, fun ρ hρ => hsub rfl rfl ρ hρ⟩

/-- the typed builder satisfies the premises of the generic invariant lemma, constraints allowed -/
theorem typedBuilder_invC {P : PLang} (wf : WF P.types) (ha : AliasesOk P) {ops : List OperatorDecl}
    (hops : OpsOkC P.types ops) (fixFlag : Bool) :
    BuilderInv P (typedBuilder P.types ops fixFlag) (fun s => OkStoreC P.types s.store)
      (fun s e => TypedIn P.types s.store e) (XStepA P.types) where
  mono := fun _ _ _ hs hq => typedIn_monoA hs hq
  mkSource := fun s g => mkSource_typedC s g
  mkOp := fun _ _ _ _ g h => mkOp_typedC wf hops g h
  mkApp := fun _ _ _ _ _ g hf hx h => mkApp_typedC wf g hf hx h
  annotate := fun s prev t nfresh dash s' e toks toks' g hp hty h => by
    have hok := parseTypeLoop_init_ok wf ha hty
    have ht : okTerm P.types (allocVars s.store nfresh 0) t = true :=
      okTerm_of_okTermN (by rw [length_allocVars]; exact Nat.le_refl _) t hok
    obtain ⟨h1, h2, h3, _⟩ := annotate_typedC wf g hp ht h
    exact ⟨h1, h2, h3⟩

/-! ## 3. the parser -/

theorem mkInputs_typedC {L : Lang} : ∀ (n : Nat) (s s' : XState) (es : List TExpr),
    OkStoreC L s.store → mkInputs n s = (s', es) →
    OkStoreC L s'.store ∧ StepA L s.store s'.store ∧ ∀ e ∈ es, TypedIn L s'.store e
  | 0, s, s', es, g, h => by
    unfold mkInputs at h
    cases h
    exact ⟨g, StepA.refl g, fun _ he => by cases he⟩
  | n+1, s, s', es, g, h => by
    obtain ⟨g1, st1, t1⟩ := mkSource_typedC (L := L) s g
    have e : mkInputs (n+1) s = ((mkInputs n (mkSourceT s).1).1, (mkSourceT s).2 :: (mkInputs n (mkSourceT s).1).2) := rfl
    rw [e] at h
    cases h
    obtain ⟨g2, st2, t2⟩ := mkInputs_typedC n (mkSourceT s).1 _ _ g1 rfl
    refine ⟨g2, st1.trans st2, fun x hx => ?_⟩
    rcases List.mem_cons.mp hx with rfl | hx
    · exact typedIn_monoA st2 t1
    · exact t2 x hx

theorem empty_okC (L : Lang) : OkStoreC L {} :=
  ⟨empty_ok L, fun _ hx => (by cases hx), fun _ hcs => (by cases hcs)⟩

/-- main theorem: what the parser returns is typed in the final store -/
theorem parse_nodesC {P : PLang} (wf : WF P.types) (ha : AliasesOk P) {ops : List OperatorDecl}
    (hops : OpsOkC P.types ops) {fixFlag : Bool} {inputs : List TExpr} {s0 s : XState}
    {toks : List String} {e : TExpr} (g : OkStoreC P.types s0.store)
    (hin : ∀ x ∈ inputs, TypedIn P.types s0.store x)
    (h : parseExprToks P (typedBuilder P.types ops fixFlag) inputs s0 toks = .ok (s, e)) :
    OkStoreC P.types s.store ∧ (∀ x ∈ inputs, TypedIn P.types s.store x) ∧ TypedIn P.types s.store e :=
  parseExprToks_inv (typedBuilder_invC wf ha hops fixFlag) g hin h

theorem annotate_typed3C {L : Lang} (wf : WF L) {s s' : XState} {previous e : TExpr} {t : Term}
    {nfresh : Nat} {prevDash : Bool} (g : OkStoreC L s.store) (hp : TypedIn L s.store previous)
    (ht : okTerm L (allocVars s.store nfresh 0) t = true)
    (h : annotateT L s previous t nfresh prevDash = .ok (s', e)) :
    OkStoreC L s'.store ∧ StepA L s.store s'.store ∧ TypedIn L s'.store e := by
  obtain ⟨h1, h2, h3, _⟩ := annotate_typedC wf g hp ht h
  exact ⟨h1, h2, h3⟩

/-- the annotation stays a supertype in every later store -/
theorem annotation_laterC {L : Lang} (wf : WF L) {s s' : XState} {previous e : TExpr} {t : Term}
    {nfresh : Nat} {prevDash : Bool} (g : OkStoreC L s.store) (hp : TypedIn L s.store previous)
    (ht : okTerm L (allocVars s.store nfresh 0) t = true)
    (h : annotateT L s previous t nfresh prevDash = .ok (s', e)) :
    ∀ σ'' ρ, StepA L s'.store σ'' → Sat L ρ σ'' → Sub L (den ρ e.ty) (den ρ t) := by
  obtain ⟨_, _, _, _, h5⟩ := annotate_typedC wf g hp ht h
  exact fun σ'' ρ st hρ => h5 ρ (st.sat ρ hρ)

/-! ## 4. `Expr.fix()` -/

/-- `fix` as a step: the part of the simultaneous induction that is used here -/
theorem fix_stepA {L : Lang} (wf : WF L) {n : Nat} {σ σ' : Store} {t t' : Term} {pl : Bool}
    (okc : OkStoreC L σ) (ht : okTerm L σ t = true) (h : fix L n σ t pl = .ok (σ', t')) :
    StepA L σ σ' ∧ okTerm L σ' t' = true ∧ ∀ ρ, Sat L ρ σ' → den ρ t' = den ρ t := by
  obtain ⟨s, ht', hs⟩ := (all_soundC wf n).2.2.2.2.2.1 σ t pl σ' t' okc ht h
  exact ⟨s.toA, ht', hs⟩

theorem typedIn_app_parts {L : Lang} {σ : Store} {f x : TExpr} {t : Term} (ht : TypedIn L σ (.app f x t)) :
    TypedIn L σ f ∧ TypedIn L σ x ∧ okTerm L σ t = true := by
  have hok := ht.ok
  unfold okExpr at hok
  simp only [Bool.and_eq_true] at hok
  exact ⟨⟨hok.1.1, fun ρ hρ => by have := ht.wt ρ hρ; unfold WellTyped at this; exact this.1⟩,
    ⟨hok.1.2, fun ρ hρ => by have := ht.wt ρ hρ; unfold WellTyped at this; exact this.2.1⟩, hok.2⟩

/-- the fixing pass of `Expr.fix()` keeps the tree typed, only shrinks the solutions, and the type
of the root keeps its meaning -/
theorem fixExprCore_typedC {L : Lang} (wf : WF L) : ∀ (e : TExpr) (σ σ' : Store) (e' : TExpr),
    OkStoreC L σ → TypedIn L σ e → fixExprCore L σ e = .ok (σ', e') →
    StepA L σ σ' ∧ TypedIn L σ' e' ∧ ∀ ρ, Sat L ρ σ' → den ρ e'.ty = den ρ e.ty
  | .src i l t, σ, σ', e', g, ht, h => by
    unfold fixExprCore at h
    split at h
    · cases h
    · rename_i σ1 t1 hf
      cases h
      obtain ⟨st, h5, h6⟩ := fix_stepA wf g ht.ty hf
      exact ⟨st, typedIn_src h5, h6⟩
  | .op n t, σ, σ', e', g, ht, h => by
    unfold fixExprCore at h
    cases h
    exact ⟨StepA.refl g, ht, fun _ _ => rfl⟩
  | .app f x t, σ, σ', e', g, ht, h => by
    unfold fixExprCore at h
    split at h
    · cases h
    · rename_i σ1 f1 hf1
      split at h
      · cases h
      · rename_i σ2 x1 hx1
        split at h
        · cases h
        · rename_i σ3 t1 hfix
          cases h
          obtain ⟨tf, tx, hokt⟩ := typedIn_app_parts ht
          obtain ⟨st1, tf1, df1⟩ := fixExprCore_typedC wf f σ σ1 f1 g tf hf1
          obtain ⟨st2, tx1, dx1⟩ := fixExprCore_typedC wf x σ1 σ2 x1 st1.ok (typedIn_monoA st1 tx) hx1
          have st12 := st1.trans st2
          obtain ⟨st3, h5, hden⟩ := fix_stepA wf st2.ok (okTerm_mono st12.len t hokt) hfix
          refine ⟨st12.trans st3, ⟨?_, fun ρ hρ => ?_⟩, hden⟩
          · unfold okExpr
            simp only [Bool.and_eq_true]
            exact ⟨⟨(typedIn_monoA (st2.trans st3) tf1).ok, (typedIn_monoA st3 tx1).ok⟩, h5⟩
          · have hρ2 := st3.sat ρ hρ
            have hρ1 := st2.sat ρ hρ2
            have hρ0 := st1.sat ρ hρ1
            have hw := ht.wt ρ hρ0
            unfold WellTyped at hw ⊢
            refine ⟨(typedIn_monoA (st2.trans st3) tf1).wt ρ hρ, (typedIn_monoA st3 tx1).wt ρ hρ, ?_⟩
            rw [df1 ρ hρ1, dx1 ρ hρ2, hden ρ hρ]
            exact hw.2.2
  | .shared k e, σ, σ', e', g, ht, h => by
    unfold fixExprCore at h
    split at h
    · cases h
    · rename_i σ1 e1 he
      cases h
      obtain ⟨st, t1, d1⟩ := fixExprCore_typedC wf e σ σ' e1 g (typedIn_shared.mp ht) he
      exact ⟨st, typedIn_shared.mpr t1, d1⟩

/-- `Expr.fix()` (one recursion, in Python's order: children first, then the node's own type is fixed and
normalised against the store of that moment) keeps the tree typed in the final store; the type of the root
keeps its meaning. -/
theorem fixExpr_typedC {L : Lang} (wf : WF L) : ∀ (e : TExpr) (σ σ' : Store) (e' : TExpr),
    OkStoreC L σ → TypedIn L σ e → fixExpr L σ e = .ok (σ', e') →
    StepA L σ σ' ∧ TypedIn L σ' e' ∧ ∀ ρ, Sat L ρ σ' → den ρ e'.ty = den ρ e.ty
  | .src i l t, σ, σ', e', g, ht, h => by
    unfold fixExpr at h
    split at h
    · cases h
    · rename_i σ1 t1 hf
      cases h
      obtain ⟨st, h5, h6⟩ := fix_stepA wf g ht.ty hf
      exact ⟨st, typedIn_src (okTerm_normT st.ok.ok h5), fun ρ hρ => by
        show den ρ (normT σ' t1) = den ρ t
        rw [den_normT hρ]; exact h6 ρ hρ⟩
  | .op n t, σ, σ', e', g, ht, h => by
    unfold fixExpr at h
    cases h
    exact ⟨StepA.refl g, typedIn_op (okTerm_normT g.ok ht.ty), fun ρ hρ => by
      show den ρ (normT σ t) = den ρ t
      exact den_normT hρ t⟩
  | .app f x t, σ, σ', e', g, ht, h => by
    unfold fixExpr at h
    split at h
    · cases h
    · rename_i σ1 f1 hf1
      split at h
      · cases h
      · rename_i σ2 x1 hx1
        split at h
        · cases h
        · rename_i σ3 t1 hfix
          cases h
          obtain ⟨tf, tx, hokt⟩ := typedIn_app_parts ht
          obtain ⟨st1, tf1, df1⟩ := fixExpr_typedC wf f σ σ1 f1 g tf hf1
          obtain ⟨st2, tx1, dx1⟩ := fixExpr_typedC wf x σ1 σ2 x1 st1.ok (typedIn_monoA st1 tx) hx1
          have st12 := st1.trans st2
          obtain ⟨st3, h5, h6⟩ := fix_stepA wf st2.ok (okTerm_mono st12.len t hokt) hfix
          have hden : ∀ ρ, Sat L ρ σ' → den ρ (normT σ' t1) = den ρ t := fun ρ hρ => by
            rw [den_normT hρ]; exact h6 ρ hρ
          refine ⟨st12.trans st3, ⟨?_, fun ρ hρ => ?_⟩, hden⟩
          · unfold okExpr
            simp only [Bool.and_eq_true]
            exact ⟨⟨(typedIn_monoA (st2.trans st3) tf1).ok, (typedIn_monoA st3 tx1).ok⟩,
              okTerm_normT st3.ok.ok h5⟩
          · have hρ2 := st3.sat ρ hρ
            have hρ1 := st2.sat ρ hρ2
            have hρ0 := st1.sat ρ hρ1
            have hw := ht.wt ρ hρ0
            unfold WellTyped at hw ⊢
            refine ⟨(typedIn_monoA (st2.trans st3) tf1).wt ρ hρ, (typedIn_monoA st3 tx1).wt ρ hρ, ?_⟩
            rw [df1 ρ hρ1, dx1 ρ hρ2, hden ρ hρ]
            exact hw.2.2
  | .shared k e, σ, σ', e', g, ht, h => by
    unfold fixExpr at h
    split at h
    · cases h
    · rename_i σ1 e1 he
      cases h
      obtain ⟨st, t1, d1⟩ := fixExpr_typedC wf e σ σ' e1 g (typedIn_shared.mp ht) he
      exact ⟨st, typedIn_shared.mpr t1, d1⟩

/-- `Language.parse` followed by `Expr.fix()` -/
theorem parseTyped_nodesC {P : PLang} (wf : WF P.types) (ha : AliasesOk P) {ops : List OperatorDecl}
    (hops : OpsOkC P.types ops) {n : Nat} {toks : List String} {doFix : Bool} {s : XState} {e : TExpr}
    (h : parseTyped P ops n toks doFix = .ok (s, e)) :
    OkStoreC P.types s.store ∧ TypedIn P.types s.store e := by
  unfold parseTyped at h
  obtain ⟨g0, _, hin⟩ := mkInputs_typedC (L := P.types) n {} _ _ (empty_okC _) rfl
  generalize mkInputs n {} = r at h g0 hin
  obtain ⟨s0, inputs⟩ := r
  simp only at h g0 hin
  split at h
  · cases h
  · rename_i s1 e1 hp
    obtain ⟨g1, _, t1⟩ := parse_nodesC wf ha hops g0 hin hp
    split at h
    · split at h
      · cases h
      · rename_i σ e' hf
        cases h
        obtain ⟨st, t2, _⟩ := fixExpr_typedC wf e1 s1.store σ _ g1 t1 hf
        exact ⟨st.ok, t2⟩
    · cases h
      exact ⟨g1, t1⟩

/-! ## 5. programmatic construction -/

theorem callT_typedC {L : Lang} (wf : WF L) : ∀ (xs : List TExpr) (s s' : XState) (f e : TExpr),
    OkStoreC L s.store → TypedIn L s.store f → (∀ x ∈ xs, TypedIn L s.store x) →
    callT L s f xs = .ok (s', e) →
    OkStoreC L s'.store ∧ StepA L s.store s'.store ∧ TypedIn L s'.store e
  | [], s, s', f, e, g, hf, _, h => by
    unfold callT at h
    cases h
    exact ⟨g, StepA.refl g, hf⟩
  | x :: xs, s, s', f, e, g, hf, hxs, h => by
    unfold callT at h
    split at h
    · cases h
    · rename_i s1 e1 ha
      obtain ⟨g1, st1, t1⟩ := mkApp_typedC wf g hf (hxs x List.mem_cons_self) ha
      obtain ⟨g2, st2, t2⟩ := callT_typedC wf xs s1 s' e1 e g1 t1
        (fun y hy => typedIn_monoA st1 (hxs y (List.mem_cons_of_mem _ hy))) h
      exact ⟨g2, st1.trans st2, t2⟩

/-! ## 6. operator leaves are instances of the declared signature -/

theorem leaf_instanceC {L : Lang} (wf : WF L) {ops : List OperatorDecl} (hops : OpsOkC L ops)
    {s s' : XState} {name : String} {e : TExpr} (g : OkStoreC L s.store)
    (h : mkOpT L ops s name = .ok (s', e)) :
    ∃ d ∈ ops, d.name = name ∧
      (e = .op name e.ty ∨ e = .src s.nsrc (some name) e.ty) ∧
      ∀ σ'' ρ, StepA L s'.store σ'' → Sat L ρ σ'' →
        den ρ e.ty = den (fun v => ρ (v + s.store.vars.length)) d.schema.body := by
  obtain ⟨d, σ, t, hmem, hname, hi, hs, he⟩ := mkOpT_decl h
  obtain ⟨_, _, _, h6⟩ := instantiate_soundC wf g (hops d hmem).1 (hops d hmem).2 hi
  refine ⟨d, hmem, hname, ?_, fun σ'' ρ st hρ => ?_⟩
  · rcases he with rfl | rfl
    · exact Or.inl rfl
    · exact Or.inr rfl
  · have hρ' : Sat L ρ σ := hs ▸ st.sat ρ hρ
    have ety : e.ty = t := by rcases he with rfl | rfl <;> rfl
    rw [ety, h6 ρ hρ', den_shift]

end Tfv.C04C
