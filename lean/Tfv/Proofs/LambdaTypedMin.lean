import Tfv.Proofs.LambdaTyped
/-!
# minimal types in the applicative fragment of the typed lambda model

`mintype` (`Tfv/Spec/LambdaTyped.lean`) computes, with the library's subtype test `sub L`, a type of every
typable term without anonymous function; that type is below every other type of the term (`IsMinType`).
With subject reduction: the minimal type of an expansion is the same as or more specific than the minimal type
of the unexpanded expression. Anonymous functions have no minimal type in general (`lamId_no_minimal`).
-/
namespace Tfv.C15P
open Tfv Tfv.LamSpec Tfv.LamTyped

variable {L : Lang} {Sg : String → Option Ty} {S : Nat → Option Ty}

/-! ## 1. the Boolean subtype test on well-formed types -/

theorem sub_true_iff (wf : WF L) {s t : Ty} (hs : wfTy L s = true) (ht : wfTy L t = true) :
    sub L s t = true ↔ Sub L s t := by
  have h := matchC_true_iff wf true s t hs ht
  simp only [if_true] at h
  unfold sub; exact h

theorem length_ge_five (wf : WF L) : 5 ≤ L.length := by
  have h := congrArg List.length wf.builtins
  simp only [List.length_take, builtinDecls, List.length_cons, List.length_nil] at h
  omega

theorem wfTy_bot (wf : WF L) : wfTy L (.app BOT []) = true := by
  have h5 := length_ge_five wf
  unfold wfTy
  rw [arity_bot wf]
  simp only [wfTyL, List.length_nil, BEq.rfl, Bool.and_true, decide_eq_true_eq]
  unfold BOT; omega

theorem wfTy_fn {A B : Ty} (h : wfTy L (fn A B) = true) : wfTy L A = true ∧ wfTy L B = true := by
  unfold fn at h
  have h1 := (wfTy_app h).2
  have h2 := wfTyL_cons h1
  exact ⟨h2.1, (wfTyL_cons h2.2).1⟩

theorem wfTy_fn_mk (wf : WF L) {A B : Ty} (ha : wfTy L A = true) (hb : wfTy L B = true) :
    wfTy L (fn A B) = true := by
  have h5 := length_ge_five wf
  unfold fn wfTy
  rw [arity_fun wf]
  simp only [wfTyL, ha, hb, List.length_cons, List.length_nil, BEq.rfl, Bool.and_true, decide_eq_true_eq]
  unfold FUN; omega

/-! ## 2. `mintype`: equations -/

theorem mintype_app_fun {Γ : List Ty} {f x : LTerm} {A B X : Ty}
    (hf : mintype L Sg S Γ f = some (fn A B)) (hx : mintype L Sg S Γ x = some X) :
    mintype L Sg S Γ (.app f x) = if sub L X A then some B else none := by
  unfold fn at hf
  simp only [mintype, hf, hx, BEq.rfl, if_true]

theorem mintype_app_bot {Γ : List Ty} {f x : LTerm} {X : Ty}
    (hf : mintype L Sg S Γ f = some (.app BOT [])) (hx : mintype L Sg S Γ x = some X) :
    mintype L Sg S Γ (.app f x) = some (.app BOT []) := by
  simp only [mintype, hf, hx, BEq.rfl, if_true]

/-- the two ways in which `mintype` succeeds on an application -/
theorem mintype_app_inv {Γ : List Ty} {f x : LTerm} {M : Ty}
    (h : mintype L Sg S Γ (.app f x) = some M) :
    (∃ A X, mintype L Sg S Γ f = some (fn A M) ∧ mintype L Sg S Γ x = some X ∧ sub L X A = true) ∨
    (∃ X, mintype L Sg S Γ f = some (.app BOT []) ∧ mintype L Sg S Γ x = some X ∧ M = .app BOT []) := by
  simp only [mintype] at h
  split at h
  · rename_i o A B X hf hx
    split at h
    · rename_i ho
      have ho' : o = FUN := by simpa using ho
      subst ho'
      split at h
      · rename_i hsub
        injection h with h; subst h
        exact Or.inl ⟨A, X, hf, hx, hsub⟩
      · cases h
    · cases h
  · rename_i o X hf hx
    split at h
    · rename_i ho
      have ho' : o = BOT := by simpa using ho
      subst ho'
      injection h with h
      exact Or.inr ⟨X, hf, hx, h.symm⟩
    · cases h
  · cases h

theorem mintype_lamFree {Γ : List Ty} : ∀ (t : LTerm) {M : Ty}, mintype L Sg S Γ t = some M → lamFree t = true
  | .var _, _, _ => rfl
  | .src _, _, _ => rfl
  | .op _, _, _ => rfl
  | .lam _, _, h => by simp only [mintype] at h; cases h
  | .app f x, _, h => by
    simp only [lamFree, Bool.and_eq_true]
    rcases mintype_app_inv h with ⟨_, _, hf, hx, _⟩ | ⟨_, hf, hx, _⟩
    · exact ⟨mintype_lamFree f hf, mintype_lamFree x hx⟩
    · exact ⟨mintype_lamFree f hf, mintype_lamFree x hx⟩

/-! ## 3. `mintype` returns a well-formed type of the term -/

theorem mintype_wf (wf : WF L) (hSg : WfMap L Sg) (hS : WfMap L S) {Γ : List Ty} (hΓ : WfCtx L Γ) :
    ∀ (t : LTerm) {M : Ty}, mintype L Sg S Γ t = some M → wfTy L M = true
  | .var i, M, h => by
    simp only [mintype] at h
    exact hΓ M (List.mem_of_getElem? h)
  | .src k, M, h => hS k M (by simpa only [mintype] using h)
  | .op n, M, h => hSg n M (by simpa only [mintype] using h)
  | .lam _, _, h => by simp only [mintype] at h; cases h
  | .app f x, M, h => by
    rcases mintype_app_inv h with ⟨A, _, hf, _, _⟩ | ⟨_, _, _, hM⟩
    · exact (wfTy_fn (mintype_wf wf hSg hS hΓ f hf)).2
    · rw [hM]; exact wfTy_bot wf

theorem mintype_sound (wf : WF L) (hSg : WfMap L Sg) (hS : WfMap L S) {Γ : List Ty} (hΓ : WfCtx L Γ) :
    ∀ (t : LTerm) {M : Ty}, mintype L Sg S Γ t = some M → HasType L Sg S Γ t M
  | .var i, M, h => HasType.var (by simpa only [mintype] using h)
  | .src k, M, h => HasType.src (by simpa only [mintype] using h)
  | .op n, M, h => HasType.op (by simpa only [mintype] using h)
  | .lam _, _, h => by simp only [mintype] at h; cases h
  | .app f x, M, h => by
    rcases mintype_app_inv h with ⟨A, X, hf, hx, hsub⟩ | ⟨X, hf, hx, hM⟩
    · have hwA := (wfTy_fn (mintype_wf wf hSg hS hΓ f hf)).1
      have hwX := mintype_wf wf hSg hS hΓ x hx
      have hs : Sub L X A := (sub_true_iff wf hwX hwA).mp hsub
      exact HasType.app (mintype_sound wf hSg hS hΓ f hf)
        (HasType.sub (mintype_sound wf hSg hS hΓ x hx) hs)
    · rw [hM]
      exact HasType.app (HasType.sub (mintype_sound wf hSg hS hΓ f hf) (Sub.bot (fn X (.app BOT []))))
        (mintype_sound wf hSg hS hΓ x hx)

/-! ## 4. `mintype` is below every type of the term -/

theorem mintype_least (wf : WF L) (hSg : WfMap L Sg) (hS : WfMap L S) {Γ : List Ty} (hΓ : WfCtx L Γ)
    {t : LTerm} {T : Ty} (h : HasType L Sg S Γ t T) :
    lamFree t = true → ∃ M, mintype L Sg S Γ t = some M ∧ Le L M T := by
  induction h with
  | var hi => intro _; exact ⟨_, by simpa only [mintype] using hi, Le.refl _⟩
  | src hk => intro _; exact ⟨_, by simpa only [mintype] using hk, Le.refl _⟩
  | op hk => intro _; exact ⟨_, by simpa only [mintype] using hk, Le.refl _⟩
  | lam _ _ => intro hl; simp [lamFree] at hl
  | sub _ hs ih =>
    intro hl
    obtain ⟨M, h1, h2⟩ := ih hΓ hl
    exact ⟨M, h1, Le.trans wf h2 (Or.inr hs)⟩
  | @app Γ f x A B _ _ ihf ihx =>
    intro hl
    simp only [lamFree, Bool.and_eq_true] at hl
    obtain ⟨Mf, hf, hlef⟩ := ihf hΓ hl.1
    obtain ⟨Mx, hx, hlex⟩ := ihx hΓ hl.2
    have hwf := mintype_wf wf hSg hS hΓ f hf
    have hwx := mintype_wf wf hSg hS hΓ x hx
    have hsx : Sub L Mx A := Le.sub hwx hlex
    rcases hlef with rfl | hsf
    · have hwA := (wfTy_fn hwf).1
      refine ⟨B, ?_, Le.refl _⟩
      rw [mintype_app_fun hf hx, (sub_true_iff wf hwx hwA).mpr hsx]; rfl
    · rcases sub_fn_right_inv wf hsf with rfl | ⟨A', B', rfl, hA, hB⟩
      · exact ⟨_, mintype_app_bot hf hx, Or.inr (Sub.bot B)⟩
      · have hwA := (wfTy_fn hwf).1
        refine ⟨B', ?_, Or.inr hB⟩
        rw [mintype_app_fun hf hx, (sub_true_iff wf hwx hwA).mpr (sub_trans wf _ _ _ hsx hA)]; rfl

theorem mintype_isMin (wf : WF L) (hSg : WfMap L Sg) (hS : WfMap L S) {Γ : List Ty} (hΓ : WfCtx L Γ)
    {t : LTerm} {M : Ty} (h : mintype L Sg S Γ t = some M) : IsMinType L Sg S Γ t M := by
  refine ⟨mintype_sound wf hSg hS hΓ t h, fun T hT => ?_⟩
  obtain ⟨M', h1, h2⟩ := mintype_least wf hSg hS hΓ hT (mintype_lamFree t h)
  rw [h] at h1; injection h1 with h1
  rw [h1]; exact h2

/-- `mintype` decides typability in the applicative fragment -/
theorem mintype_complete (wf : WF L) (hSg : WfMap L Sg) (hS : WfMap L S) {Γ : List Ty} (hΓ : WfCtx L Γ)
    {t : LTerm} (hl : lamFree t = true) :
    (∃ T, HasType L Sg S Γ t T) ↔ ∃ M, mintype L Sg S Γ t = some M := by
  constructor
  · rintro ⟨T, hT⟩
    obtain ⟨M, h1, _⟩ := mintype_least wf hSg hS hΓ hT hl
    exact ⟨M, h1⟩
  · rintro ⟨M, hM⟩
    exact ⟨M, mintype_sound wf hSg hS hΓ t hM⟩

/-! ## 5. minimal types are unique and go down along reduction -/

theorem isMinType_unique (wf : WF L) {Γ : List Ty} {t : LTerm} {M M' : Ty}
    (h : IsMinType L Sg S Γ t M) (h' : IsMinType L Sg S Γ t M') : M = M' := by
  rcases h.2 M' h'.1 with e | h1
  · exact e
  · rcases h'.2 M h.1 with e | h2
    · exact e.symm
    · exact sub_antisymm wf _ _ h1 h2

/-- whatever preserves typing lowers minimal types -/
theorem isMinType_antitone {Γ : List Ty} {t r : LTerm} {Mt Mr : Ty}
    (hpres : ∀ T, HasType L Sg S Γ t T → HasType L Sg S Γ r T)
    (ht : IsMinType L Sg S Γ t Mt) (hr : IsMinType L Sg S Γ r Mr) : Le L Mr Mt :=
  hr.2 Mt (hpres Mt ht.1)

theorem primitive_minimal (wf : WF L) {defs : List LDef} (hd : DefsTyped L Sg S defs) {fuel : Nat}
    {Γ : List Ty} {t r : LTerm} {Mt Mr : Ty} (h : primitiveL defs fuel t = some r)
    (ht : IsMinType L Sg S Γ t Mt) (hr : IsMinType L Sg S Γ r Mr) : Le L Mr Mt :=
  isMinType_antitone (fun _ hT => primitive_preserves wf hd h hT) ht hr

/-- the computed form: if the unexpanded expression has the minimal type `Mt` and the expansion has no
anonymous function, then `mintype` succeeds on the expansion and its answer is below `Mt` -/
theorem primitive_mintype (wf : WF L) (hSg : WfMap L Sg) (hS : WfMap L S) {Γ : List Ty} (hΓ : WfCtx L Γ)
    {defs : List LDef} (hd : DefsTyped L Sg S defs) {fuel : Nat} {t r : LTerm} {Mt : Ty}
    (h : primitiveL defs fuel t = some r) (ht : mintype L Sg S Γ t = some Mt) (hl : lamFree r = true) :
    ∃ Mr, mintype L Sg S Γ r = some Mr ∧ Sub L Mr Mt := by
  have h1 := primitive_preserves wf hd h (mintype_sound wf hSg hS hΓ t ht)
  obtain ⟨Mr, h2, h3⟩ := mintype_least wf hSg hS hΓ h1 hl
  exact ⟨Mr, h2, Le.sub (mintype_wf wf hSg hS hΓ r h2) h3⟩

end Tfv.C15P
