import Tfv.Proofs.WorkflowIsoExpr
/-!
# `addExpr` is equivariant under a renaming of the blank-node supply — the theorem (types off)
-/
namespace Tfv

variable {ρ : Nat → Nat}

theorem srcBody_typesOff (G : GLang) (c : GCfg) (hT : c.withTypes = false) (root : Node) (origin : Option Node)
    (g0 : GState) (cur id : Nat) (ty : Term) :
    srcBody G c root origin g0 cur id ty
      = .ok (addOrigin c origin { g0 with srcNodes := g0.srcNodes ++ [(id, cur)] } cur, cur) := by
  unfold srcBody
  simp only [hT, Bool.false_and, Bool.false_eq_true, if_false]

theorem opBody_typesOff (G : GLang) (c : GCfg) (hT : c.withTypes = false) (root : Node) (origin : Option Node)
    (g0 : GState) (cur : Nat) (name : String) (ty : Term) (inter : Bool) :
    opBody G c root origin g0 cur name ty inter
      = .ok (addOrigin c origin (opTriples c root g0 cur name) cur, cur) := by
  unfold opBody
  simp only [hT, Bool.false_and, Bool.false_eq_true, if_false]

theorem find?_key_renV (ρ : Nat → Nat) (l : List (Nat × Nat)) (k : Nat) :
    (l.map (renV ρ)).find? (fun p => p.1 == k) = (l.find? (fun p => p.1 == k)).map (renV ρ) := by
  induction l with
  | nil => rfl
  | cons x xs ih =>
    rw [List.map_cons, List.find?_cons, List.find?_cons]
    show (match x.1 == k with | true => some (renV ρ x) | false => _) = _
    cases x.1 == k with
    | true => rfl
    | false => exact ih

/-- **`addExpr` is equivariant under a renaming of the blank-node supply** (`withTypes = false`): run on a renamed graph
state (with the renamed current node), a successful call succeeds, returns the renamed node and the renamed state. -/
theorem addExpr_equivariant (G : GLang) (c : GCfg) (hT : c.withTypes = false) (root : Node) (origin : Option Node)
    (hρ : Function.Injective ρ) (hr : renN ρ root = root) (ho : OriginFixed ρ origin) :
    ∀ (e : TExpr) (g g' : GState) (cur : Option Nat) (inter : Bool) (g2 : GState) (n : Nat), SRen ρ g g' →
      addExpr G c root origin g e cur inter = .ok (g2, n) →
      ∃ g2', addExpr G c root origin g' e (cur.map ρ) inter = .ok (g2', ρ n) ∧ SRen ρ g2 g2' := by
  intro e
  induction e with
  | src id l ty =>
    intro g g' cur inter g2 n h hrun
    rw [addExpr_src] at hrun ⊢
    rw [h.srcNodes, find?_key_renV]
    cases hfind : g.srcNodes.find? (fun p => p.1 == id) with
    | some p =>
      rw [hfind] at hrun
      simp only [Except.ok.injEq, Prod.mk.injEq] at hrun
      obtain ⟨rfl, rfl⟩ := hrun
      exact ⟨g', rfl, h⟩
    | none =>
      rw [hfind] at hrun
      simp only [Option.map_none]
      rw [srcBody_typesOff G c hT] at hrun ⊢
      simp only [Except.ok.injEq, Prod.mk.injEq] at hrun
      obtain ⟨rfl, rfl⟩ := hrun
      obtain ⟨hc, hn⟩ := h.stepCur cur
      refine ⟨_, by rw [hn], ?_⟩
      have h1 : SRen ρ { (curOrFresh g cur).1 with srcNodes := (curOrFresh g cur).1.srcNodes ++ [(id, (curOrFresh g cur).2)] }
          { (curOrFresh g' (cur.map ρ)).1 with
            srcNodes := (curOrFresh g' (cur.map ρ)).1.srcNodes ++ [(id, ρ (curOrFresh g cur).2)] } :=
        ⟨hc.triples, by simp [hc.srcNodes, renV], hc.sharedNodes, hc.internals, hc.fd, hc.supply, hc.typeNodes, hc.supertyped⟩
      exact h1.stepOrigin hρ c ho _
  | op name ty =>
    intro g g' cur inter g2 n h hrun
    rw [addExpr_op, opBody_typesOff G c hT] at hrun ⊢
    simp only [Except.ok.injEq, Prod.mk.injEq] at hrun
    obtain ⟨rfl, rfl⟩ := hrun
    obtain ⟨hc, hn⟩ := h.stepCur cur
    refine ⟨_, by rw [hn], ?_⟩
    exact (hc.stepOpTriples hρ c hr _ name).stepOrigin hρ c ho _
  | app f x ty ihf ihx =>
    intro g g' cur inter g2 n h hrun
    rw [addExpr_app] at hrun ⊢
    obtain ⟨hc, hn⟩ := h.stepCur cur
    cases hfr : addExpr G c root origin (curOrFresh g cur).1 f (some (curOrFresh g cur).2) inter with
    | error err => rw [hfr] at hrun; cases hrun
    | ok p1 =>
      obtain ⟨g1, fnode⟩ := p1
      rw [hfr] at hrun
      simp only at hrun
      obtain ⟨g1', hf', h1⟩ := ihf _ _ (some (curOrFresh g cur).2) inter g1 fnode hc hfr
      rw [Option.map_some, ← hn] at hf'
      rw [hf']
      simp only
      obtain ⟨hfre, hnb⟩ := h1.stepFresh
      obtain ⟨hpre, hci⟩ := hfre.stepAppPre hρ fnode x.ty.isFunction
      cases hxr : addExpr G c root origin (appPre g1.fresh.1 fnode x.ty.isFunction).1 x (some g1.nextB) true with
      | error err => rw [hxr] at hrun; cases hrun
      | ok p2 =>
        obtain ⟨g3, xnode⟩ := p2
        rw [hxr] at hrun
        simp only [Except.ok.injEq, Prod.mk.injEq] at hrun
        obtain ⟨rfl, rfl⟩ := hrun
        obtain ⟨g3', hx', h3⟩ := ihx _ _ (some g1.nextB) true g3 xnode hpre hxr
        have hnb' : g1'.nextB = ρ g1.nextB := hnb
        rw [Option.map_some, ← hnb'] at hx'
        rw [hx']
        simp only
        refine ⟨_, by rw [hn], ?_⟩
        rw [hci]
        exact h3.stepAppWire hρ c ho fnode xnode _ _
  | shared k e ih =>
    intro g g' cur inter g2 n h hrun
    rw [addExpr_shared] at hrun ⊢
    rw [h.sharedNodes, find?_key_renV]
    cases hfind : g.sharedNodes.find? (fun p => p.1 == k) with
    | some p =>
      rw [hfind] at hrun
      simp only [Except.ok.injEq, Prod.mk.injEq] at hrun
      obtain ⟨rfl, rfl⟩ := hrun
      exact ⟨g', rfl, h⟩
    | none =>
      rw [hfind] at hrun
      simp only [Option.map_none]
      cases her : addExpr G c root origin g e cur inter with
      | error err => rw [her] at hrun; cases hrun
      | ok p1 =>
        obtain ⟨g1, m⟩ := p1
        rw [her] at hrun
        simp only [Except.ok.injEq, Prod.mk.injEq] at hrun
        obtain ⟨rfl, rfl⟩ := hrun
        obtain ⟨g1', he', h1⟩ := ih _ _ cur inter g1 m h her
        rw [he']
        exact ⟨_, rfl, ⟨h1.triples, h1.srcNodes, by simp [h1.sharedNodes, renV], h1.internals, h1.fd, h1.supply, h1.typeNodes, h1.supertyped⟩⟩

end Tfv
