import Tfv.Props.C09
import Tfv.Proofs.GraphExpr
/-!
# C09 lifted from `addFrom` to the graphs built by `addExpr`
-/
namespace Tfv
open Tfv.C09

theorem GStep.closed {c : GCfg} {P : Triple → Prop} {Q : Term × Node → Prop} (hc : c.withDependencies = true)
    {g g' : GState} (h : GStep c P Q g g') (hg : Closed g.fd) : Closed g'.fd :=
  h.fd_inv hc Closed (fun fd a b r hfd => C09_step fd a b r hfd) hg

theorem closed_empty_fd : Closed ({} : FD) := Closed_iff.2 closed_empty

theorem initGraph_fd (G : GLang) (c : GCfg) : (initGraph G c).fd = {} := by
  unfold initGraph; split <;> rfl

theorem initGraph_closed (G : GLang) (c : GCfg) : Closed (initGraph G c).fd := by
  rw [initGraph_fd]; exact closed_empty_fd

theorem addExpr_closed (G : GLang) (c : GCfg) (hc : c.withDependencies = true) (root : Node)
    (origin : Option Node) (g : GState) (e : TExpr) (cur : Option Nat) (inter : Bool) (g' : GState) (n : Nat)
    (hg : Closed g.fd) (h : addExpr G c root origin g e cur inter = .ok (g', n)) : Closed g'.fd :=
  (addExpr_step G c root origin e g cur inter g' n h).closed hc hg

theorem addExprs_closed (G : GLang) (c : GCfg) (hc : c.withDependencies = true) (root : Node)
    (es : List (Option Node × TExpr)) (g g' : GState) (hg : Closed g.fd)
    (h : es.foldlM (fun g p => (addExpr G c root p.1 g p.2 none false).map (·.1)) g = .ok g') :
    Closed g'.fd := by
  refine (foldlM_rel (R := GStep c NotFD AnyQ) GStep.refl (fun _ _ _ => GStep.trans) _ _ ?_ g g' h).closed hc hg
  intro ga p gb _ hp
  cases hx : addExpr G c root p.1 ga p.2 none false with
  | error e => rw [hx] at hp; cases hp
  | ok r =>
    rw [hx] at hp
    simp only [Except.map, Except.ok.injEq] at hp
    rw [← hp]
    exact addExpr_step G c root p.1 p.2 ga none false r.1 r.2 hx

theorem GStep.no_dep {c : GCfg} {P : Triple → Prop} {Q : Term × Node → Prop} (hc : c.withDependencies = false)
    {g g' : GState} (h : GStep c P Q g g') : g.fd.dep = [] → g'.fd.dep = [] := by
  induction h with
  | refl g => exact fun h => h
  | trans _ _ ih1 ih2 => exact fun h => ih2 (ih1 h)
  | ty h => rw [h.fd_eq]; exact fun h => h
  | addFrom g a b r =>
    intro h
    unfold gAddFrom
    simp only [hc, Bool.false_eq_true, if_false]
    exact h
  | pushSrc g x => exact fun h => h
  | pushShared g x => exact fun h => h
  | pushInternal g x => exact fun h => h

theorem addExpr_no_dependencies (G : GLang) (c : GCfg) (hc : c.withDependencies = false) (root : Node)
    (origin : Option Node) (e : TExpr) (cur : Option Nat) (inter : Bool) (g' : GState) (n : Nat)
    (h : addExpr G c root origin (initGraph G c) e cur inter = .ok (g', n)) : g'.fd.dep = [] :=
  (addExpr_step G c root origin e _ cur inter g' n h).no_dep hc (by rw [initGraph_fd])

/-! ## the emitted `from` / `depends` triples -/

theorem GStep.notFD_inv {c : GCfg} {Q : Term × Node → Prop} {g g' : GState} (h : GStep c NotFD Q g g')
    (hg : ∀ t ∈ g.triples, NotFD t) : ∀ t ∈ g'.triples, NotFD t := by
  intro t ht
  rcases h.new_triples t ht with h | h
  · exact hg t h
  · exact h

theorem initGraph_triples (G : GLang) (c : GCfg) : (initGraph G c).triples = [] := by
  unfold initGraph; split <;> rfl

theorem mem_allTriples_from {g : GState} (hg : ∀ t ∈ g.triples, NotFD t) (a b : Nat) :
    (Node.b a, Node.tf "from", Node.b b) ∈ g.allTriples ↔ (a, b) ∈ g.fd.frm := by
  unfold GState.allTriples
  simp only [List.mem_append, List.mem_map, List.mem_eraseDups, Prod.mk.injEq, Node.b.injEq, Node.tf.injEq]
  constructor
  · rintro ((h | ⟨p, hp, h1, _, h2⟩) | ⟨p, _, _, h, _⟩)
    · exact absurd rfl (hg _ h).1
    · obtain ⟨p1, p2⟩ := p
      simp only at h1 h2
      subst h1; subst h2; exact hp
    · exact absurd h (by decide)
  · intro h
    exact .inl (.inr ⟨(a, b), h, rfl, trivial, rfl⟩)

theorem mem_allTriples_depends {g : GState} (hg : ∀ t ∈ g.triples, NotFD t) (a b : Nat) :
    (Node.b a, Node.tf "depends", Node.b b) ∈ g.allTriples ↔ (a, b) ∈ g.fd.dep := by
  unfold GState.allTriples
  simp only [List.mem_append, List.mem_map, List.mem_eraseDups, Prod.mk.injEq, Node.b.injEq, Node.tf.injEq]
  constructor
  · rintro ((h | ⟨p, _, _, h, _⟩) | ⟨p, hp, h1, _, h2⟩)
    · exact absurd rfl (hg _ h).2
    · exact absurd h (by decide)
    · obtain ⟨p1, p2⟩ := p
      simp only at h1 h2
      subst h1; subst h2; exact hp
  · intro h
    exact .inr ⟨(a, b), h, rfl, trivial, rfl⟩

/-- in the emitted triples of a graph reached from the initial graph: `depends` = transitive closure of `from` -/
theorem allTriples_closed {G : GLang} {c : GCfg} (hc : c.withDependencies = true) {Q : Term × Node → Prop}
    {g : GState} (h : GStep c NotFD Q (initGraph G c) g) (s t : Nat) :
    ((Node.b s, Node.tf "depends", Node.b t) ∈ g.allTriples ↔ TC g.fd.frm s t) ∧
      ((Node.b s, Node.tf "from", Node.b t) ∈ g.allTriples ↔ (s, t) ∈ g.fd.frm) := by
  have hn : ∀ t ∈ g.triples, NotFD t := h.notFD_inv (by rw [initGraph_triples]; simp)
  exact ⟨(mem_allTriples_depends hn s t).trans (h.closed hc (initGraph_closed G c) s t), mem_allTriples_from hn s t⟩

end Tfv
