import Tfv.Model
