import Tfv.Proofs.FrameMain
import Tfv.Spec.WellTyped
import Tfv.Proofs.ParseTypeOk
/-!
# The variables of a type annotation parsed in-line (`parse_type`)

Every variable of the term that `parseTypeLoop` returns was made for a `_` of the annotation: it lies in
`[varBase, varBase + nfresh)`. Needs only that alias bodies mention their parameters (from `AliasesOk`).
-/
namespace Tfv.C12P
open Tfv Tfv.C16P

/-- all variables of the term lie in `[lo, hi)` -/
def TermRange (lo hi : Nat) (t : Term) : Prop := ∀ v, VarIn v t → lo ≤ v ∧ v < hi

def TermsRange (lo hi : Nat) (ts : List Term) : Prop := ∀ t, t ∈ ts → TermRange lo hi t

theorem termRange_mono {lo hi hi' : Nat} (h : hi ≤ hi') {t : Term} (ht : TermRange lo hi t) : TermRange lo hi' t :=
  fun v hv => ⟨(ht v hv).1, Nat.lt_of_lt_of_le (ht v hv).2 h⟩

theorem termRange_app {lo hi o : Nat} {args : List Term} (h : TermsRange lo hi args) : TermRange lo hi (.app o args) := by
  intro v hv
  cases hv with
  | app hu hv => exact h _ hu v hv

theorem termsRange_nil {lo hi : Nat} : TermsRange lo hi [] := fun _ h => nomatch h

theorem termRange_closed {lo hi o : Nat} : TermRange lo hi (.app o []) := termRange_app termsRange_nil

mutual
theorem varIn_substArgs {args : List Term} {v : Nat} : ∀ (body : Term), (∀ w, VarIn w body → w < args.length) →
    VarIn v (body.substArgs args) → ∃ a, a ∈ args ∧ VarIn v a
  | .var w, hb, h => by
    have hw := hb w VarIn.var
    rw [Term.substArgs] at h
    have e : args.getD w (.var w) = args[w] := by
      rw [List.getD_eq_getElem?_getD, List.getElem?_eq_getElem hw]; rfl
    rw [e] at h
    exact ⟨_, List.getElem_mem hw, h⟩
  | .app o as, hb, h => by
    rw [Term.substArgs] at h
    cases h with
    | app hu hv => exact varIn_substArgsL as (fun w t ht hw => hb w (VarIn.app ht hw)) _ hu hv
theorem varIn_substArgsL {args : List Term} {v : Nat} : ∀ (ts : List Term),
    (∀ w t, t ∈ ts → VarIn w t → w < args.length) → ∀ u, u ∈ Term.substArgsL args ts → VarIn v u →
    ∃ a, a ∈ args ∧ VarIn v a
  | [], _, u, hu, _ => by rw [Term.substArgsL] at hu; cases hu
  | t :: ts, hb, u, hu, hv => by
    rw [Term.substArgsL] at hu
    rcases List.mem_cons.mp hu with e | e
    · subst e
      exact varIn_substArgs t (fun w hw => hb w t List.mem_cons_self hw) hv
    · exact varIn_substArgsL ts (fun w t' ht' hw => hb w t' (List.mem_cons_of_mem _ ht') hw) u e hv
end

/-- a stack item is fine: the variables of a type lie in the range -/
def itemR (lo hi : Nat) : TItem → Prop
  | .ty t => TermRange lo hi t
  | _ => True

def itemsR (lo hi : Nat) (st : List TItem) : Prop := ∀ it, it ∈ st → itemR lo hi it

theorem itemsR_cons {lo hi : Nat} {it : TItem} {st : List TItem} :
    itemsR lo hi (it :: st) ↔ itemR lo hi it ∧ itemsR lo hi st := by
  constructor
  · intro h; exact ⟨h it List.mem_cons_self, fun x hx => h x (List.mem_cons_of_mem _ hx)⟩
  · intro h x hx
    rcases List.mem_cons.mp hx with e | e
    · subst e; exact h.1
    · exact h.2 x e

theorem itemsR_mono {lo hi hi' : Nat} (h : hi ≤ hi') {st : List TItem} (hs : itemsR lo hi st) : itemsR lo hi' st := by
  intro it hit
  have := hs it hit
  cases it with
  | ty t => exact termRange_mono h this
  | mark => trivial
  | op o => trivial
  | «alias» k => trivial

theorem termsRange_append {lo hi : Nat} {ts : List Term} {t : Term} (h1 : TermsRange lo hi ts) (h2 : TermRange lo hi t) :
    TermsRange lo hi (ts ++ [t]) := by
  intro x hx
  rcases List.mem_append.mp hx with e | e
  · exact h1 x e
  · rw [List.mem_singleton] at e; subst e; exact h2

theorem applyItem_range {P : PLang} (ha : AliasesOk P) {lo hi : Nat} {it : TItem} {args : List Term} {t : Term}
    (hargs : TermsRange lo hi args) (h : applyItem P it args = .ok t) : TermRange lo hi t := by
  unfold applyItem at h
  split at h
  · split at h
    · cases h; exact termRange_app hargs
    · cases h
  · rename_i j
    split at h
    · rename_i a hj
      split at h
      · rename_i hlen
        cases h
        have hlen : args.length = a.arity := by simpa using hlen
        have hb := ha a (List.mem_of_getElem? hj)
        rw [← hlen] at hb
        intro v hv
        obtain ⟨x, hx, hvx⟩ := varIn_substArgs a.body (fun w hw => varIn_okTermN _ hb hw) hv
        exact hargs x hx v hvx
      · cases h
    · cases h
  · cases h

theorem backtrack_range {P : PLang} (ha : AliasesOk P) {lo hi : Nat} :
    ∀ (st : List TItem) (args : List Term) (st' : List TItem),
      itemsR lo hi st → TermsRange lo hi args → backtrack P st args = .ok st' → itemsR lo hi st' := by
  intro st args
  fun_induction backtrack P st args
  case case1 => intro st' _ _ h; cases h
  case case2 rest a =>
    intro st' hs hargs h
    cases h
    exact itemsR_cons.mpr ⟨hargs a (List.mem_singleton.mpr rfl), (itemsR_cons.mp hs).2⟩
  case case3 => intro st' _ _ h; cases h
  case case4 t rest args ih =>
    intro st' hs hargs h
    exact ih st' (itemsR_cons.mp hs).2 (termsRange_append hargs (itemsR_cons.mp hs).1) h
  case case5 => intro st' _ _ h; cases h
  case case6 it rest args _ _ t happ ih =>
    intro st' hs hargs h
    have ht := applyItem_range ha (fun x hx => hargs x (List.mem_reverse.mp hx)) happ
    exact ih st' (itemsR_cons.mp hs).2 (fun x hx => by rw [List.mem_singleton] at hx; subst hx; exact ht) h

theorem applyOperator_range {P : PLang} (ha : AliasesOk P) {lo hi : Nat} :
    ∀ (st : List TItem) (args : List Term) (st' : List TItem),
      itemsR lo hi st → TermsRange lo hi args → applyOperator P st args = .ok st' → itemsR lo hi st' := by
  intro st args
  fun_induction applyOperator P st args
  case case1 t rest args ih =>
    intro st' hs hargs h
    exact ih st' (itemsR_cons.mp hs).2 (termsRange_append hargs (itemsR_cons.mp hs).1) h
  case case2 => intro st' _ _ h; cases h
  case case3 it rest args _ _ t happ =>
    intro st' hs hargs h
    cases h
    have ht := applyItem_range ha (fun x hx => hargs x (List.mem_reverse.mp hx)) happ
    exact itemsR_cons.mpr ⟨ht, (itemsR_cons.mp hs).2⟩
  case case4 => intro st' _ _ h; cases h
  case case5 => intro st' _ _ h; cases h

theorem resolveTypeToken_range {P : PLang} (ha : AliasesOk P) {lo hi : Nat} {tok : String} {it : TItem}
    (h : resolveTypeToken P tok = .ok it) : itemR lo hi it := by
  unfold resolveTypeToken at h
  split at h
  · cases h; exact termRange_closed
  · split at h
    · cases h; exact termRange_closed
    · split at h
      · cases h
        split
        · exact termRange_closed
        · trivial
      · split at h
        · split at h
          · rename_i j a hj
            cases h
            split
            · rename_i h0
              have hb := ha a (List.mem_of_getElem? hj)
              rw [beq_iff_eq.mp h0] at hb
              intro v hv
              exact absurd (varIn_okTermN _ hb hv) (Nat.not_lt_zero _)
            · trivial
          · cases h
        · cases h

theorem typeStep_range {P : PLang} (ha : AliasesOk P) {vb : Nat} {s s' : TState} {tok : String}
    (hs : itemsR vb (vb + s.fresh) s.stack) (h : typeStep P vb s tok = .ok s') :
    itemsR vb (vb + s'.fresh) s'.stack := by
  unfold typeStep at h
  split at h
  · split at h
    · cases h; exact itemsR_cons.mpr ⟨trivial, hs⟩
    · cases h
  · split at h
    · split at h
      · cases h
      · rename_i st hbt
        have hst := backtrack_range ha _ _ _ hs termsRange_nil hbt
        split at h
        · split at h
          · split at h
            · cases h
            · rename_i st2 hap
              cases h
              exact applyOperator_range ha _ _ _ hst termsRange_nil hap
          · cases h; exact hst
          · cases h; exact hst
        · cases h; exact itemsR_cons.mpr ⟨trivial, hst⟩
    · split at h
      · cases h
        refine itemsR_cons.mpr ⟨?_, itemsR_mono (by simp only; omega) hs⟩
        intro v hv
        cases hv
        simp only
        omega
      · split at h
        · split at h
          · rename_i t1 rest hst
            cases h
            rw [hst] at hs
            exact itemsR_cons.mpr ⟨(itemsR_cons.mp hs).1, itemsR_cons.mpr ⟨trivial, (itemsR_cons.mp hs).2⟩⟩
          · cases h
          · cases h
        · split at h
          · cases h
          · rename_i it hit
            cases h
            exact itemsR_cons.mpr ⟨resolveTypeToken_range ha hit, hs⟩

theorem typeFinish_range {P : PLang} (ha : AliasesOk P) {vb : Nat} {s : TState} {t : Term} {k : Nat}
    (hs : itemsR vb (vb + s.fresh) s.stack) (h : typeFinish P s = .ok (t, k)) : TermRange vb (vb + k) t := by
  unfold typeFinish at h
  split at h
  · cases h
  · rename_i t' hbt
    cases h
    have := backtrack_range ha _ _ _ hs termsRange_nil hbt
    exact (itemsR_cons.mp this).1
  · cases h

theorem parseTypeLoop_range {P : PLang} (ha : AliasesOk P) (c : Bool) (vb : Nat) :
    ∀ (s : TState) (toks : List String) (t : Term) (k : Nat) (rest : List String),
      itemsR vb (vb + s.fresh) s.stack → parseTypeLoop P c vb s toks = .ok (t, k, rest) →
      TermRange vb (vb + k) t := by
  intro s toks
  fun_induction parseTypeLoop P c vb s toks
  case case1 => intro t k rest _ h; cases h
  case case2 s t' k' hf =>
    intro t k rest hs h
    cases h
    exact typeFinish_range ha hs hf
  case case3 ih => intro t k rest hs h; exact ih t k rest hs h
  case case4 ih => intro t k rest hs h; exact ih t k rest hs h
  case case5 ih => intro t k rest hs h; exact ih t k rest hs h
  case case6 => intro t k rest _ h; cases h
  case case7 s tok rest' _ _ _ s' hstep _ ih =>
    intro t k rest hs h; exact ih t k rest (typeStep_range ha hs hstep) h
  case case8 => intro t k rest _ h; cases h
  case case9 => intro t k rest _ h; cases h
  case case10 s tok rest' _ _ _ s' hstep _ _ t' k' hf =>
    intro t k rest hs h
    cases h
    exact typeFinish_range ha (typeStep_range ha hs hstep) hf
  case case11 s tok rest' _ _ _ s' hstep _ _ ih =>
    intro t k rest hs h; exact ih t k rest (typeStep_range ha hs hstep) h

/-- an annotation parsed from the initial parser state mentions only the variables made for its `_`s -/
theorem parseTypeLoop_init_range {P : PLang} (ha : AliasesOk P) {c : Bool} {vb : Nat}
    {toks rest : List String} {t : Term} {k : Nat}
    (h : parseTypeLoop P c vb {} toks = .ok (t, k, rest)) : TermRange vb (vb + k) t :=
  parseTypeLoop_range ha c vb {} toks t k rest
    (fun it hit => by rw [List.mem_singleton] at hit; subst hit; trivial) h

end Tfv.C12P
