import Tfv.Model.Expr
import Tfv.Model.Canon
import Tfv.Model.Uri
import Tfv.Model.Closure
import Tfv.Model.Text
/-!
# M8 — transformation graphs (graph.py: `add_type`, `add_expr`, `add_from`; labels are not modelled)

A graph is a list of triples read as a set. Concept nodes (sources, operator
applications, internal nodes) are blank nodes, numbered by a counter; the
`from`/`depends` edges between them live in the `FD` structure of
`Tfv.Model.Closure`, so that every change of `depends` goes through `addFrom`
(the function C09's theorems are about). Types are terms over the inference
store after `Expr.fix()`; a type that still contains variables gets the URI of
its `Top`-generalisation (`Language.uri` concretizes with `replace=True`).
-/
namespace Tfv

inductive Node where
  | tf (name : String)      -- https://github.com/quangis/transforge#
  | ns (name : String)      -- the language's namespace
  | rdf (name : String)
  | rdfs (name : String)
  | b (n : Nat)             -- blank node
  | res (name : String)     -- a workflow resource / the workflow itself
  deriving Repr, DecidableEq, Inhabited

abbrev Triple := Node × Node × Node

/-- the `with_*` switches of `TransformationGraph.__init__` that affect triples other than labels -/
structure GCfg where
  withOperators : Bool := true
  withTypes : Bool := true
  withSupertypes : Bool := true
  withIntermediateTypes : Bool := true
  withMembership : Bool := true
  withMembershipSupertypes : Bool := true
  withTypeParameters : Bool := true
  withClasses : Bool := true
  withCanonicalTypes : Bool := false
  withNoncanonicalTypes : Bool := true
  withSupertypeClasses : Bool := false
  withWorkflowOrigin : Bool := true
  withDependencies : Bool := true
  deriving Repr, Inhabited

/-- what the graph code needs to know of the `Language` -/
structure GLang where
  types : Lang
  cfg : CanonCfg := {}
  canon : List Ty := []
  /-- the inference store at the time the graph is built: node types are read through it wherever the Python code
  follows bindings (`normalize()`), and not where it does not (see `Tfv.fixExpr`) -/
  store : Store := {}
  deriving Repr, Inhabited

inductive GErr where
  | nonCanonical           -- NonCanonicalTypeError
  | unexpectedVariable     -- UnexpectedVariableError
  | internal (site : String)
  deriving Repr, Inhabited

structure GState where
  triples : List Triple := []
  nextB : Nat := 0
  typeNodes : List (Term × Node) := []
  srcNodes : List (Nat × Nat) := []        -- `expr_nodes` restricted to sources: source id ↦ concept node
  sharedNodes : List (Nat × Nat) := []     -- `expr_nodes` for shared expression objects (workflow resources): key ↦ concept node
  internals : List (Nat × Nat) := []       -- the `tf:internal` triples (also in `triples`)
  fd : FD := {}
  supertyped : List Ty := []
  deriving Repr, Inhabited

def GState.add (g : GState) (t : Triple) : GState :=
  if g.triples.contains t then g else { g with triples := g.triples ++ [t] }

def GState.fresh (g : GState) : GState × Nat := ({ g with nextB := g.nextB + 1 }, g.nextB)

mutual
def Term.beq : Term → Term → Bool
  | .var a, .var b => a == b
  | .app a as, .app b bs => a == b && Term.beqL as bs
  | _, _ => false
def Term.beqL : List Term → List Term → Bool
  | [], [] => true
  | s :: ss, t :: ts => Term.beq s t && Term.beqL ss ts
  | _, _ => false
end

mutual
/-- `concretize(replace=True, ignore_constraints=True)`: every variable becomes `Top` -/
def Term.generalize : Term → Ty
  | .var _ => .app TOP []
  | .app o args => .app o (Term.generalizeL args)
def Term.generalizeL : List Term → List Ty
  | [] => []
  | t :: ts => Term.generalize t :: Term.generalizeL ts
end

mutual
def Term.isClosed : Term → Bool
  | .var _ => false
  | .app _ args => Term.isClosedL args
def Term.isClosedL : List Term → Bool
  | [] => true
  | t :: ts => Term.isClosed t && Term.isClosedL ts
end

/-- `t in language.canon` for a normalised type: only variable-free types can be members -/
def inCanon (G : GLang) (t : Term) : Bool := t.isClosed && memTy t.generalize G.canon

/-- `Language.uri(t)` for a type -/
def typeUri (G : GLang) (t : Term) : Except GErr Node :=
  let c := t.generalize
  match c with
  | .app o args =>
    if arityOf G.types o == 0 && args.isEmpty then
      .ok (if o < 5 then .tf (nameOf G.types o) else .ns (nameOf G.types o))
    else if memTy c G.canon then .ok (.ns (uriLocal G.types c))
    else .error .nonCanonical

/-- `Language.uri(op)` for a type operator -/
def opUri (G : GLang) (o : Nat) : Node :=
  if o < 5 then .tf (nameOf G.types o) else .ns (nameOf G.types o)

def lookupType (m : List (Term × Node)) (t : Term) : Option Node :=
  (m.find? (fun p => Term.beq p.1 t)).map (·.2)

/-- `TransformationGraph.__init__`: unless `with_canonical_types`, canonical types are pre-registered with their URIs -/
def initGraph (G : GLang) (c : GCfg) : GState :=
  if c.withCanonicalTypes then {}
  else { typeNodes := G.canon.filterMap (fun t => match typeUri G t.toTerm with
      | .ok n => some (t.toTerm, n)
      | .error _ => none) }

/-- `add_supertypes(t, recursive=True)` (only used with `with_supertype_classes`) -/
def addSupertypesRec (G : GLang) : Nat → GState → Ty → Except GErr GState
  | 0, g, _ => .ok g
  | n+1, g, t =>
    if memTy t g.supertyped then .ok g else
    match typeUri G t.toTerm with
    | .error e => .error e
    | .ok ref =>
      let sups := dedupTy (langSucc G.types G.cfg G.canon (G.canon.length + 2) true t false)
      let r : Except GErr GState := sups.foldlM (fun (g : GState) s =>
        match typeUri G s.toTerm with
        | .error e => Except.error e
        | .ok sn => addSupertypesRec G n (g.add (ref, .rdfs "subClassOf", sn)) s) g
      match r with
      | .error e => .error e
      | .ok g' => .ok { g' with supertyped := g'.supertyped ++ [t] }

mutual
/-- `add_type(type)` -/
def addType (G : GLang) (c : GCfg) : Nat → GState → Term → Except GErr (GState × Node)
  | 0, _, _ => .error (.internal "fuel")
  | n+1, g, t =>
    match lookupType g.typeNodes t with
    | some node => .ok (g, node)
    | none =>
      let r : Except GErr (GState × Node) :=
        match typeUri G t with
        | .ok node => .ok (g, node)
        | .error .nonCanonical =>
          if c.withNoncanonicalTypes then
            let (g1, k) := g.fresh
            .ok (g1, .b k)
          else .error .nonCanonical
        | .error e => .error e
      match r with
      | .error e => .error e
      | .ok (g, node) =>
        let g := if c.withClasses then g.add (node, .rdf "type", .tf "Type") else g
        let r2 : Except GErr GState :=
          match t with
          | .app o args =>
            if arityOf G.types o > 0 && c.withTypeParameters then
              let g := g.add (node, .rdfs "subClassOf", opUri G o)
              addTypeParams G c n g node 1 args
            else .ok g
          | .var _ => .ok g
        match r2 with
        | .error e => .error e
        | .ok g =>
          let r3 : Except GErr GState :=
            if c.withSupertypeClasses && inCanon G t then addSupertypesRec G (G.canon.length + 2) g t.generalize else .ok g
          match r3 with
          | .error e => .error e
          | .ok g => .ok ({ g with typeNodes := g.typeNodes ++ [(t, node)] }, node)
def addTypeParams (G : GLang) (c : GCfg) : Nat → GState → Node → Nat → List Term → Except GErr GState
  | 0, _, _, _, _ => .error (.internal "fuel")
  | _+1, g, _, _, [] => .ok g
  | n+1, g, node, i, p :: ps =>
    match addType G c n g p with
    | .error e => .error e
    | .ok (g1, pn) => addTypeParams G c n (g1.add (node, .rdf ("_" ++ toString i), pn)) node (i + 1) ps
end

def typeFuel : Nat := 1000

/-- `add_from(a, b, recursive)` on concept nodes -/
def gAddFrom (c : GCfg) (g : GState) (a b : Nat) (recursive : Bool := false) : GState :=
  if c.withDependencies then { g with fd := addFrom g.fd a b recursive }
  else { g with fd := { g.fd with frm := (a, b) :: g.fd.frm } }

/-- `: type`, `subtypeOf`, `containsType` annotations of a source or an operation node (graph.py:254-272 / 291-312) -/
def annotateType (G : GLang) (c : GCfg) (g : GState) (root : Node) (current : Nat) (ty : Term) (membershipFirst : Bool)
    (canonicalOverride : Option Bool := none) : Except GErr GState :=
  match addType G c typeFuel g ty with
  | .error e => .error e
  | .ok (g, tn) =>
    let g := g.add (.b current, .tf "type", tn)
    -- for a source, `canonical` was decided on the stored (unfollowed) type object
    let canonical := canonicalOverride.getD (inCanon G ty)
    -- the two branches of `add_expr` emit the same triples in a different order; a set does not care
    let _ := membershipFirst
    let g := if c.withSupertypes && canonical then g.add (.b current, .tf "subtypeOf", tn) else g
    let g := if c.withMembership then g.add (root, .tf "containsType", tn) else g
    match ty with
    | .var _ => .ok g
    | .app _ _ =>
      if canonical then
        let sups := dedupTy (langSucc G.types G.cfg G.canon (G.canon.length + 2) true ty.generalize true)
        sups.foldlM (fun (g : GState) s =>
          match addType G c typeFuel g s.toTerm with
          | .error e => .error e
          | .ok (g, sn) =>
            let g := if c.withMembershipSupertypes then g.add (root, .tf "containsType", sn) else g
            let g := if c.withSupertypes then g.add (.b current, .tf "subtypeOf", sn) else g
            .ok g) g
      else .ok g

/-- `t.output()`: the final result type of a curried function type -/
def outputType : Nat → Term → Term
  | 0, t => t
  | n+1, .app o [a, r] => if o == FUN then outputType n r else .app o [a, r]
  | _, t => t

def Term.isFunction : Term → Bool
  | .app o _ => o == FUN
  | _ => false

/-- `add_expr(expr, root, current, intermediate, origin)` -/
def addExpr (G : GLang) (c : GCfg) (root : Node) (origin : Option Node) :
    GState → TExpr → Option Nat → Bool → Except GErr (GState × Nat)
  | g, .src id _ ty, current, _ =>
    match g.srcNodes.find? (fun p => p.1 == id) with
    | some p => .ok (g, p.2)
    | none =>
      let (g, cur) := match current with
        | some k => (g, k)
        | none => g.fresh
      let g := { g with srcNodes := g.srcNodes ++ [(id, cur)] }
      -- `expr.type.normalize() in canon`: the stored type object is followed first (a variable bound after the source was fixed)
      let canonical := inCanon G (normT G.store ty)
      let r : Except GErr GState :=
        if c.withTypes && (canonical || c.withNoncanonicalTypes) then
          annotateType G c g root cur (normT G.store ty) false (some canonical) else .ok g
      match r with
      | .error e => .error e
      | .ok g =>
        let g := match origin with
          | some o => if c.withWorkflowOrigin then g.add (.b cur, .tf "origin", o) else g
          | none => g
        .ok (g, cur)
  | g, .op name ty, current, intermediate =>
    let (g, cur) := match current with
      | some k => (g, k)
      | none => g.fresh
    -- `expr.type.output().normalize()`: `output()` walks the stored type object, then the result is followed
    let out := normT G.store (outputType 1000 ty)
    let canonical := c.withNoncanonicalTypes || inCanon G out
    let essential := c.withIntermediateTypes || !intermediate
    let g := if c.withOperators then
        let g := g.add (.b cur, .tf "via", .ns name)
        if c.withMembership then g.add (root, .tf "containsOperation", .ns name) else g
      else g
    let r : Except GErr GState :=
      if c.withTypes && canonical && essential then annotateType G c g root cur out true else .ok g
    match r with
    | .error e => .error e
    | .ok g =>
      let g := match origin with
        | some o => if c.withWorkflowOrigin then g.add (.b cur, .tf "origin", o) else g
        | none => g
      .ok (g, cur)
  | g, .app f x _, current, intermediate =>
    let (g, cur) := match current with
      | some k => (g, k)
      | none => g.fresh
    match addExpr G c root origin g f (some cur) intermediate with
    | .error e => .error e
    | .ok (g, fnode) =>
      -- the node for the argument is created before the recursive call (`BNode()` is an argument expression)
      let (g, xcur) := g.fresh
      let isFun := x.ty.isFunction
      let (g, currentInternal) :=
        if isFun then
          let (g, i) := g.fresh
          (({ g with internals := g.internals ++ [(fnode, i)] }).add (.b fnode, .tf "internal", .b i), some i)
        else (g, none)
      match addExpr G c root origin g x (some xcur) true with
      | .error e => .error e
      | .ok (g, xnode) =>
        let g := match currentInternal with
          | some i => gAddFrom c g xnode i
          | none => g
        -- `x` may already be an input of `f` (the same source passed, or returned by a passed function, a second time)
        let repeated := (objectsOf g.fd.frm fnode).contains xnode
        let g := gAddFrom c g fnode xnode
        -- inner internal operations of `x` are fed by the current internal operation
        let g := match currentInternal with
          | some i => ((g.internals.filter (fun (p : Nat × Nat) => p.1 == xnode)).map (fun (p : Nat × Nat) => p.2)).foldl (fun g j => gAddFrom c g j i) g
          | none => g
        -- every operation internal to `f` takes `x`'s output as input
        let g := ((g.internals.filter (fun (p : Nat × Nat) => p.1 == fnode)).map (fun (p : Nat × Nat) => p.2)).foldl
          (fun g j => if some j != currentInternal then gAddFrom c g j xnode else g) g
        -- every input of `f` is an input of the current internal operation
        let g := match currentInternal with
          | some i =>
            let g := (objectsOf g.fd.frm fnode).eraseDups.foldl (fun g fin => if xnode != fin || repeated then gAddFrom c g i fin else g) g
            match origin with
            | some o => if c.withWorkflowOrigin then g.add (.b i, .tf "origin", o) else g
            | none => g
          | none => g
        let g := match origin with
          | some o => if c.withWorkflowOrigin then g.add (.b cur, .tf "origin", o) else g
          | none => g
        .ok (g, cur)

  | g, .shared k e, current, intermediate =>
    match g.sharedNodes.find? (fun p => p.1 == k) with
    | some p => .ok (g, p.2)
    | none =>
      match addExpr G c root origin g e current intermediate with
      | .error err => .error err
      | .ok (g, n) => .ok ({ g with sharedNodes := g.sharedNodes ++ [(k, n)] }, n)

/-- all triples of the graph, `from`/`depends` included -/
def GState.allTriples (g : GState) : List Triple :=
  g.triples ++ (g.fd.frm.eraseDups.map (fun p => (Node.b p.1, Node.tf "from", Node.b p.2)))
    ++ (g.fd.dep.eraseDups.map (fun p => (Node.b p.1, Node.tf "depends", Node.b p.2)))

end Tfv
