import sys, random, itertools
sys.path.insert(0,'/repo')
from transforge.type import *
from transforge.expr import *
from transforge.lang import *
from transforge.graph import *
from rdflib import BNode, Graph, URIRef
from rdflib.compare import isomorphic
A=TypeOperator('A')
ops={}
def mk(name,t,body=None): ops[name]=Operator(type=t,name=name,body=body)
mk('u1',A**A); mk('u2',A**A); mk('b1',A**A**A)
mk('h1',(A**A)**A); mk('h2',(A**A)**A**A); mk('h3',(A**A)**(A**A)**A**A); mk('k2',(A**A**A)**A**A)
# composites (linear, to stay clear of D8)
mk('c1',A**A, lambda x: ops['u1'](ops['u2'](x)))
mk('c2',A**A**A, lambda x,y: ops['b1'](ops['u1'](y), x))
mk('cid',A**A, lambda x: x)
mk('cpart',A**A**A, lambda x: ops['b1'](ops['u1'](x)))     # returns a function: partial application
mk('ch',(A**A)**A**A, lambda f,x: ops['h2'](f, ops['u1'](x)))
lang=Language(dict(A=A,**ops), namespace=TEST)
FROM=TF['from']
def spec(expr):
    g=Graph(); nodes={}
    def spine(e):
        args=[]
        while isinstance(e, Application):
            args.append(e.x); e=e.f
        return e, list(reversed(args))
    def isfun(e):
        t=e.type.follow(); return isinstance(t, TypeOperation) and t.operator==Function
    def build(e):
        if isinstance(e,(Source,Variable)):
            if e not in nodes: nodes[e]=BNode()
            return nodes[e]
        head,args=spine(e)
        assert isinstance(head, Operation), head
        n=BNode(); g.add((n,TF.via,lang.namespace[head.operator.name]))
        argnodes=[]; internals=[]
        for a in args:
            if isfun(a):
                lam=BNode(); g.add((n,TF.internal,lam))
                if isinstance(a, Abstraction):
                    for p in a.params: nodes[p]=lam
                    an=build(a.body)
                else:
                    an=build(a); g.add((an,FROM,lam))
                for inner in list(g.objects(an,TF.internal)): g.add((inner,FROM,lam))
                argnodes.append(an); internals.append(lam)
            else:
                an=build(a); argnodes.append(an); internals.append(None)
            g.add((n,FROM,an))
        for i,lam in enumerate(internals):
            if lam is None: continue
            for j,an in enumerate(argnodes):
                if j!=i and an!=lam: g.add((lam,FROM,an))
        return n
    build(expr); return g
def actual(expr):
    g=TransformationGraph(lang, minimal=True, with_operators=True)
    g.add_expr(expr, BNode()); return g
rng=random.Random(int(sys.argv[1]) if len(sys.argv)>1 else 5)
def gen_data(d):
    r=rng.random()
    if d==0 or r<0.2: return rng.choice(SRC)
    c=rng.choice(['u1','b1','h1','h2','h3','k2','c1','c2','cid','cpart2','ch'])
    if c in('u1','c1','cid'): return ops[c](gen_data(d-1))
    if c in('b1','c2'): return ops[c](gen_data(d-1),gen_data(d-1))
    if c=='cpart2': return ops['cpart'](gen_data(d-1),gen_data(d-1))
    if c=='h1': return ops['h1'](gen_fun(d-1))
    if c in('h2','ch'): return ops[c](gen_fun(d-1),gen_data(d-1))
    if c=='h3': return ops['h3'](gen_fun(d-1),gen_fun(d-1),gen_data(d-1))
    if c=='k2': return ops['k2'](rng.choice([ops['b1'],ops['c2'],ops['cpart']]).instance(), gen_data(d-1))
def gen_fun(d):
    r=rng.random()
    if d<=0 or r<0.4: return rng.choice([ops['u1'],ops['c1'],ops['cid']]).instance()
    if r<0.7: return rng.choice([ops['b1'],ops['c2'],ops['cpart']])(gen_data(d-1))
    return rng.choice([ops['h2'],ops['ch']])(gen_fun(d-1))
bad=0; err={}
for it in range(400):
    SRC=[Source(A) for _ in range(3)]
    e=gen_data(3)
    try:
        p=e.primitive()
    except Exception as ex:
        err[type(ex).__name__]=err.get(type(ex).__name__,0)+1; continue
    try:
        ga=actual(p); gs=spec(p)
    except Exception as ex:
        err['graph:'+type(ex).__name__]=err.get('graph:'+type(ex).__name__,0)+1
        if err['graph:'+type(ex).__name__]<3: print('GERR', type(ex).__name__, ex, p)
        continue
    if not isomorphic(ga,gs):
        bad+=1
        if bad<4: print('DIFF', p, len(ga), len(gs))
print('bad',bad,'errors',err)
