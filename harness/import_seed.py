"""import_seed.py <worktree> <Sxx> <Cxx> : copy a sub-agent's seeded change into /verif/seeded/<Sxx>, remove the worktree, evaluate it"""
import json, os, shutil, subprocess, sys
wt, sid, prop = sys.argv[1:4]
VERIF = os.path.dirname(os.path.dirname(os.path.abspath(__file__)))
d = os.path.join(VERIF, "seeded", sid)
os.makedirs(d, exist_ok=True)
for f in ("patch.diff", "demo.py", "NOTES.md"):
    shutil.copy(os.path.join(wt, f), os.path.join(d, f))
meta = {"breaks_property": prop, "round": 2,
        "produced_by": "independent sub-agent given only the property text, a scratch worktree and the round-2 instruction to avoid the most obvious site",
        "checks_to_run": [prop] + sys.argv[4:]}
json.dump(meta, open(os.path.join(d, "meta.json"), "w"), indent=1)
subprocess.run(["git", "-C", "/repo", "worktree", "remove", "--force", wt])
shutil.rmtree(wt, ignore_errors=True)
sys.exit(subprocess.run([sys.executable, os.path.join(VERIF, "harness", "seedtest.py"), d]).returncode)
