import Tfv.Spec.Sat
/-!
# Specification: the fragment on which plain unification (`subtype=False`) is sound

No variable carries a base-type bound, and neither `Bottom` nor `Top` occurs.
-/
namespace Tfv

mutual
/-- neither `Bottom` nor `Top` occurs in the term -/
def noBT : Term → Bool
  | .var _ => true
  | .app o args => o != BOT && o != TOP && noBTL args
def noBTL : List Term → Bool
  | [] => true
  | t :: ts => noBT t && noBTL ts
end

/-- no bounds anywhere, no `Bottom`/`Top` in any binding -/
structure PlainStore (σ : Store) : Prop where
  lower : ∀ v, (getVar σ v).lower = none
  upper : ∀ v, (getVar σ v).upper = none
  noBT : ∀ v t, (getVar σ v).bound = some t → noBT t = true

end Tfv
