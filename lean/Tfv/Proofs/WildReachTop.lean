import Tfv.Proofs.WildReachMarks
import Tfv.Proofs.WildReachMain
/-!
# Chains of applications started with at most one flagged variable: every mark is right

`applyAll_tx`: the relation `TX` of WildReachMarks.lean for `applyT` / `applyAll`.
`reach_marks_strict`: after `instantiate` + `applyAll`, if the store after `instantiate` has at most one flagged variable
and passes the certificate (any fuel `k`), every subtype record marked in the final store passes the strict matcher with
fuel `k + matchFuel σ' + d` (`d`: depth of the bindings of the final store).
`reach_marks_hold`: hence it holds under every solution of the final store: the clause of C03, wildcards allowed.
-/
namespace Tfv.C03X
open Tfv Tfv.C03P Tfv.C03C Tfv.C03R Tfv.C16P Tfv.C17E

theorem applyPre_tx (L : Lang) (fuel : Nat) (σ : Store) (f0 : Term) (hw : WildLe1 σ) :
    TXP L σ (applyPre L fuel σ f0) := by
  cases f0 with
  | app o args => exact txP_refl L σ _
  | var fv =>
    simp only [applyPre]
    have s2 : TX L σ (newVar (newVar σ).1).1 :=
      tx_of_constrs ((ext_newVar σ false).trans (ext_newVar _ false))
        ((wildMono_newVar σ).trans (wildMono_newVar _)) rfl
    have hb := (all_marks L fuel).2.2.1 (newVar (newVar σ).1).1 fv
      (.app FUN [.var (newVar σ).2, .var (newVar (newVar σ).1).2]) (s2.wl hw)
    split
    · exact txP_err
    · next σ3 he => exact s2.trans (hb.step he)

theorem applyPost_tx (L : Lang) (fuel : Nat) (σ : Store) (x0 f1 : Term) (fixFlag : Bool) (hw : WildLe1 σ) :
    TXP L σ (applyPost L fuel σ x0 f1 fixFlag) := by
  unfold applyPost
  split
  · split
    · refine txRP_seq ((all_marks L fuel).1 σ _ _ _ _ _ hw) ?_
      intro σ1 _ s1
      split
      · exact (all_marks L fuel).2.2.2.2.2.1 σ1 _ true (s1.wl hw)
      · exact txP_refl L σ1 _
    · split
      · exact txP_refl L σ _
      · exact txP_err
  · split
    · exact txP_refl L σ _
    · exact txP_err
  · exact txP_err

theorem applyT_tx (L : Lang) (fuel : Nat) (σ : Store) (f x : Term) (fixFlag : Bool) (hw : WildLe1 σ) :
    TXP L σ (applyT L fuel σ f x fixFlag) := by
  rw [applyT_eq]
  have hp := applyPre_tx L fuel σ (followT σ f) hw
  split
  · exact txP_err
  · next σ1 f1 he =>
    exact TXP.trans (hp.step he) (applyPost_tx L fuel σ1 _ f1 fixFlag ((hp.step he).wl hw))

theorem applyAll_tx (L : Lang) (fuel : Nat) (fixFlag : Bool) : ∀ (xs : List Term) (σ : Store) (f : Term),
    WildLe1 σ → TXP L σ (applyAll L fuel fixFlag σ f xs)
  | [], σ, f, _ => by unfold applyAll; exact txP_refl L σ _
  | x :: xs, σ, f, hw => by
    unfold applyAll
    have ha := applyT_tx L fuel σ f x fixFlag hw
    split
    · exact txP_err
    · next σ1 r he =>
      exact TXP.trans (ha.step he) (applyAll_tx L fuel fixFlag xs σ1 r ((ha.step he).wl hw))

theorem matchFuel_mono {σ σ' : Store} (e : Ext σ σ') : matchFuel σ ≤ matchFuel σ' := by
  unfold matchFuel
  have := e.len
  omega

theorem getConstr_oor {σ : Store} {c : Nat} (h : σ.constrs.length ≤ c) :
    getConstr σ c = .sub (.var 0) (.var 0) false true := by
  unfold getConstr
  rw [List.getD_eq_getElem?_getD, List.getElem?_eq_none h]
  rfl

/-- every mark of the final store passes the strict matcher, given enough fuel -/
theorem applyAll_marks_strict {L : Lang} {n : Nat} {fixFlag : Bool} {xs : List Term} {σ σ' : Store}
    {f r : Term} {k d : Nat} (hc : Chains σ) (ha : applyAll L n fixFlag σ f xs = .ok (σ', r)) (hw : WildLe1 σ)
    (cert0 : subsStrictAt L σ k = true) (hr : ReflD L (dewild σ') true d) :
    subsStrictAt L σ' (k + matchFuel σ' + d) = true := by
  have tx : TX L σ σ' := (applyAll_tx L n fixFlag xs σ f hw).step ha
  have c2 : Chains σ' := ((applyAll_good L n fixFlag xs σ f hc).step ha).ch
  apply subsStrictAt_of
  intro c r0 t0 s0 _ hg
  rcases tx.marks c r0 t0 s0 hg with h0 | ⟨σm, em, hm⟩
  · by_cases hlt : c < σ.constrs.length
    · exact strict_stable tx.ext c2 hr (by omega) r0 t0 (subsStrictAt_get cert0 hlt h0)
    · rw [getConstr_oor (Nat.le_of_not_lt hlt)] at h0
      injection h0 with h1 h2
      subst h1; subst h2
      exact hr _ 0 (by unfold matchFuel; omega)
  · have := matchFuel_mono em
    exact strict_stable em c2 hr (by omega) r0 t0 hm

theorem subsStrictAt_sound {L : Lang} (wf : WF L) {σ : Store} (okc : OkStoreC L σ) {n : Nat}
    (h : subsStrictAt L σ n = true) : SubsHold L σ := by
  intro c r t s hc hg ρ hρ
  have hx := okc.cget hc
  rw [hg] at hx
  have hr : okTerm L σ r = true := by
    unfold constrTerms at hx; unfold okTermL at hx
    simp only [Bool.and_eq_true] at hx; exact hx.1
  have ht : okTerm L σ t = true := by
    unfold constrTerms at hx; unfold okTermL at hx; unfold okTermL at hx
    simp only [Bool.and_eq_true] at hx; exact hx.2.1
  exact match3_dewild_sound wf okc.ok n r t hr ht (subsStrictAt_get h hc hg) ρ hρ

/-- the clause of C03 with wildcards: every subtype constraint marked fulfilled in the final store holds under every
solution of the final store -/
theorem applyAll_marks_hold {L : Lang} (wf : WF L) {n : Nat} {fixFlag : Bool} {xs : List Term} {σ σ' : Store}
    {f r : Term} {k d : Nat} (okc : OkStoreC L σ) (hf : okTerm L σ f = true) (hxs : okTermL L σ xs = true)
    (hc : Chains σ) (ha : applyAll L n fixFlag σ f xs = .ok (σ', r)) (hw : WildLe1 σ)
    (cert0 : subsStrictAt L σ k = true) (hr : ReflD L (dewild σ') true d) :
    OkStoreC L σ' ∧ SubsHold L σ' := by
  have s := (applyAll_soundC wf n fixFlag xs σ σ' f r okc hf hxs ha).1
  exact ⟨s.ok, subsStrictAt_sound wf s.ok (applyAll_marks_strict hc ha hw cert0 hr)⟩

end Tfv.C03X
