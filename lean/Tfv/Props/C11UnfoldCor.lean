import Tfv.Props.C11Unfold
import Tfv.Proofs.QueryUnfoldCor
import Tfv.Proofs.QueryUnfoldCorGen
/-!
# C11 with `unfold_tree = True` — Part C: consequences of `MatchesUnfolded`
The counterparts of `C11_subtask`, `C11_drop_step`, `C11_generalise`, `C11_absent_operator`, `C11_absent_type`, `C11_self`
for the unfolded reading (same hypotheses), their forms for `unfoldTask` and for the generated queries, and the
monotonicity of both readings in the flags. Statements only; the proofs are in `Tfv/Proofs/QueryUnfoldCor.lean`.
-/
namespace Tfv.C11
open Tfv

/-- the hypothesis on the reduced bag of types, from an order on a domain of the task's types (as in `C11_query`) -/
theorem bagExact_of (G : GLang) (t : QTask) (g : List Triple) (wf : Node) (D : Ty → Prop)
    (po : C20.POrder (leTyB G.types) D) (hD : ∀ k, StepReach t k → ∀ T ∈ (t.step k).types, D T)
    (hup : C20.UpClosed (leTyB G.types) D (HasType G g wf)) : BagExact G t g wf := by
  intro reqs hreqs
  refine satBag_bagOf (leTyB G.types) D po.refl po.trans po.antisymm (HasType G g wf) hup reqs ?_
  intro r hr x hx
  obtain ⟨k, hk, rfl⟩ := hreqs r hr
  exact hD k hk x hx

/-! ## 1. sub-tasks and dropped steps -/

/-- A task that asks for a part of another task (fewer outputs, inputs or links, the same constraints on the steps it
keeps) matches, unfolded, whatever the other task matches unfolded — with the same assignment of paths to nodes. -/
theorem C11u_subtask (G : GLang) (t' t : QTask) (f : QFlags) (g : List Triple) (wf : Node)
    (h : SubTask t' t) (hm : MatchesUnfolded G t f g wf) : MatchesUnfolded G t' f g wf :=
  h.matchesUnfolded hm

/-- Dropping a step never loses an unfolded match: removing the link `c → j` (in every copy of `c`) preserves
`MatchesUnfolded`; also when `j` is shared by two branches and stays reachable through the other one. -/
theorem C11u_drop_step (G : GLang) (t : QTask) (f : QFlags) (g : List Triple) (wf : Node) (c j : Nat)
    (hm : MatchesUnfolded G t f g wf) : MatchesUnfolded G (t.dropLink c j) f g wf :=
  (dropLink_subTask t c j).matchesUnfolded hm

/-- A sub-task of an acyclic task is acyclic, so its unfolded query exists whenever the types have URIs. -/
theorem C11u_subtask_acyclic (t' t : QTask) (h : SubTask t' t) (hnc : NoCycle t) : NoCycle t' :=
  h.noCycle hnc

/-- The same for the unfolded tasks as tasks: `unfoldTask t'` matches whatever `unfoldTask t` matches. (`unfoldTask t'`
is in general NOT a `SubTask` of `unfoldTask t`: the copies are numbered in creation order — see the example below.) -/
theorem C11u_subtask_unfoldTask (G : GLang) (t' t : QTask) (f : QFlags) (g : List Triple) (wf : Node)
    (h : SubTask t' t) (hnc : NoCycle t) (hm : Matches G (unfoldTask t) f g wf) : Matches G (unfoldTask t') f g wf :=
  h.matches_unfoldTask hnc hm

/-- … in particular for a dropped link. -/
theorem C11u_drop_step_unfoldTask (G : GLang) (t : QTask) (f : QFlags) (g : List Triple) (wf : Node) (c j : Nat)
    (hnc : NoCycle t) (hm : Matches G (unfoldTask t) f g wf) : Matches G (unfoldTask (t.dropLink c j)) f g wf :=
  (dropLink_subTask t c j).matches_unfoldTask hnc hm

/-- For the generated queries: the unfolded query of a sub-task accepts whatever the unfolded query of the task accepts
(the hypotheses on the types are those of `C11u_query`, for the task only). -/
theorem C11u_subtask_query (G : GLang) (t' t : QTask) (f : QFlags) (q q' : Query) (h : SubTask t' t)
    (hf : f.unfoldTree = true) (hq : genQuery G t f = .ok q) (hq' : genQuery G t' f = .ok q')
    (g : List Triple) (wf : Node) (D : Ty → Prop) (po : C20.POrder (leTyB G.types) D)
    (hD : ∀ k, StepReach t k → ∀ T ∈ (t.step k).types, D T)
    (hup : C20.UpClosed (leTyB G.types) D (HasType G g wf))
    (he : evalQuery q g wf = true) : evalQuery q' g wf = true :=
  h.evalU hf hq hq' (fun _ => bagExact_of G t g wf D po hD hup) he

/-- … in particular the unfolded query of the task with a link dropped. -/
theorem C11u_drop_step_query (G : GLang) (t : QTask) (f : QFlags) (q q' : Query) (c j : Nat)
    (hf : f.unfoldTree = true) (hq : genQuery G t f = .ok q) (hq' : genQuery G (t.dropLink c j) f = .ok q')
    (g : List Triple) (wf : Node) (D : Ty → Prop) (po : C20.POrder (leTyB G.types) D)
    (hD : ∀ k, StepReach t k → ∀ T ∈ (t.step k).types, D T)
    (hup : C20.UpClosed (leTyB G.types) D (HasType G g wf))
    (he : evalQuery q g wf = true) : evalQuery q' g wf = true :=
  (dropLink_subTask t c j).evalU hf hq hq' (fun _ => bagExact_of G t g wf D po hD hup) he

/-! ## 2. generalising types -/

/-- Generalising types never loses an unfolded match (hypotheses exactly those of `C11_generalise`). -/
theorem C11u_generalise (G : GLang) (t t' : QTask) (f : QFlags) (g : List Triple) (wf : Node)
    (D : Ty → Prop) (po : C20.POrder (leTyB G.types) D)
    (h : GeneralisedTask (leTyB G.types) t t')
    (hD : ∀ k, ∀ T ∈ (t.step k).types, D T) (hD' : ∀ k, ∀ T ∈ (t'.step k).types, D T)
    (hup : UpClosedSubtypeOf G D g) (hupc : C20.UpClosed (leTyB G.types) D (HasType G g wf))
    (hm : MatchesUnfolded G t f g wf) : MatchesUnfolded G t' f g wf := by
  obtain ⟨hh, hm⟩ := hm
  exact ⟨hh, h.matchesUnfoldedBy G D po.refl po.trans po.antisymm hD hD' hup hupc hm⟩

/-- Generalising types does not change the shape of the task: same paths, and acyclic if the task is. -/
theorem C11u_generalise_paths (le : Ty → Ty → Bool) (t t' : QTask) (h : GeneralisedTask le t t') :
    (∀ p k, PathTo t' p k ↔ PathTo t p k) ∧ (NoCycle t → NoCycle t') :=
  ⟨h.pathTo, h.noCycle⟩

/-- … and the unfolded task of the generalised task matches whatever the unfolded task matches. -/
theorem C11u_generalise_unfoldTask (G : GLang) (t t' : QTask) (f : QFlags) (g : List Triple) (wf : Node)
    (D : Ty → Prop) (po : C20.POrder (leTyB G.types) D)
    (h : GeneralisedTask (leTyB G.types) t t')
    (hD : ∀ k, ∀ T ∈ (t.step k).types, D T) (hD' : ∀ k, ∀ T ∈ (t'.step k).types, D T)
    (hup : UpClosedSubtypeOf G D g) (hupc : C20.UpClosed (leTyB G.types) D (HasType G g wf))
    (hnc : NoCycle t) (hm : Matches G (unfoldTask t) f g wf) : Matches G (unfoldTask t') f g wf :=
  (C11u_unfoldTask G t' f g wf (h.noCycle hnc)).1
    (C11u_generalise G t t' f g wf D po h hD hD' hup hupc ((C11u_unfoldTask G t f g wf hnc).2 hm))

/-- `unfoldTask` commutes with generalising types: `assign_variables` only looks at the shape of a task, so (the two
tasks having equally many steps) the unfolded generalised task is the generalised unfolded task, copy by copy.
`C11u_generalise_unfoldTask` is then also an instance of `C11_generalise`. -/
theorem C11u_generalise_commutes (le : Ty → Ty → Bool) (t t' : QTask) (h : GeneralisedTask le t t')
    (hl : t'.steps.length = t.steps.length) : GeneralisedTask le (unfoldTask t) (unfoldTask t') :=
  h.unfoldTask hl

/-! ## 3. absent operators and types -/

/-- Requiring an absent operator never matches, unfolded neither (hypotheses of `C11_absent_operator`). -/
theorem C11u_absent_operator (G : GLang) (t : QTask) (f : QFlags) (g : List Triple) (wf : Node) (k : Nat) (o : String)
    (hk : StepReach t k) (hops : (t.step k).ops = [o])
    (habs : (f.byOperators = true ∧ (wf, Node.tf "containsOperation", Node.ns o) ∉ g) ∨
            (f.byChronology = true ∧ ∀ n, (n, Node.tf "via", Node.ns o) ∉ g)) :
    ¬ MatchesUnfolded G t f g wf :=
  not_matchesUnfolded_absent_operator hk hops habs

/-- Requiring an absent type never matches, unfolded neither (hypotheses of `C11_absent_type`). -/
theorem C11u_absent_type (G : GLang) (t : QTask) (f : QFlags) (g : List Triple) (wf : Node) (k : Nat)
    (hk : StepReach t k) (hne : (t.step k).types ≠ [])
    (habs : (f.byTypes = true ∧ ∀ T ∈ (t.step k).types, ¬ HasType G g wf T) ∨
            (f.byChronology = true ∧ ∀ n, ∀ T ∈ unionOf (leTyB G.types) false (t.step k).types, ∀ u,
              typeUri G T.toTerm = .ok u → (n, Node.tf "subtypeOf", u) ∉ g)) :
    ¬ MatchesUnfolded G t f g wf :=
  not_matchesUnfolded_absent_type hk hne habs

/-- Hence the unfolded query of a task that requires an absent operator rejects (no hypothesis on the types when the
operator is missing from the graph altogether: pre-filter and chronology do not involve the bag of types then). -/
theorem C11u_absent_operator_query (G : GLang) (t : QTask) (f : QFlags) (q : Query)
    (hf : f.unfoldTree = true) (hq : genQuery G t f = .ok q) (g : List Triple) (wf : Node)
    (D : Ty → Prop) (po : C20.POrder (leTyB G.types) D)
    (hD : ∀ k, StepReach t k → ∀ T ∈ (t.step k).types, D T)
    (hup : C20.UpClosed (leTyB G.types) D (HasType G g wf)) (k : Nat) (o : String)
    (hk : StepReach t k) (hops : (t.step k).ops = [o])
    (habs : (f.byOperators = true ∧ (wf, Node.tf "containsOperation", Node.ns o) ∉ g) ∨
            (f.byChronology = true ∧ ∀ n, (n, Node.tf "via", Node.ns o) ∉ g)) :
    evalQuery q g wf = false := by
  cases he : evalQuery q g wf with
  | false => rfl
  | true =>
    exact absurd ((C11u_query G t f q hf hq g wf D po hD hup).1 he)
      (C11u_absent_operator G t f g wf k o hk hops habs)

/-! ## 4. tasks read off a workflow's own graph -/

/-- A task read off a workflow's own graph (one node per step) matches it unfolded, under every choice of flags. -/
theorem C11u_self (G : GLang) (t : QTask) (f : QFlags) (g : List Triple) (wf : Node) (h : Nat → Node)
    (hr : ReadOff G t g wf h) : MatchesUnfolded G t f g wf :=
  ⟨_, hr.unfolded.matchesUnfoldedBy f⟩

/-- More generally, with one node per PATH (`ReadOffU`: the copies of a shared step may be different nodes of the
graph): the task read off that way matches unfolded, under every choice of flags. -/
theorem C11u_self_paths (G : GLang) (t : QTask) (f : QFlags) (g : List Triple) (wf : Node) (h : List Nat → Node)
    (hr : ReadOffU G t g wf h) : MatchesUnfolded G t f g wf :=
  ⟨h, hr.matchesUnfoldedBy f⟩

/-- `ReadOff` is the special case of `ReadOffU` in which all copies of a step are one node. -/
theorem C11u_readOff_paths (G : GLang) (t : QTask) (g : List Triple) (wf : Node) (h : Nat → Node)
    (hr : ReadOff G t g wf h) : ReadOffU G t g wf (fun p => h (lastStep p)) :=
  hr.unfolded

/-- Hence the unfolded query generated from a task read off the graph accepts the workflow. -/
theorem C11u_self_query (G : GLang) (t : QTask) (f : QFlags) (q : Query)
    (hf : f.unfoldTree = true) (hq : genQuery G t f = .ok q) (g : List Triple) (wf : Node)
    (D : Ty → Prop) (po : C20.POrder (leTyB G.types) D)
    (hD : ∀ k, StepReach t k → ∀ T ∈ (t.step k).types, D T)
    (hup : C20.UpClosed (leTyB G.types) D (HasType G g wf))
    (h : List Nat → Node) (hr : ReadOffU G t g wf h) : evalQuery q g wf = true :=
  (C11u_query G t f q hf hq g wf D po hD hup).2 (C11u_self_paths G t f g wf h hr)

/-! ## 5. monotone in the flags -/

/-- Asking less matches more, in both readings: if `f'` has some of the filters `by_io`, `by_types`, `by_operators`,
`by_chronology` switched OFF and/or some of the relaxations `by_penultimate_output`, `by_second_input` switched ON
(`FlagsWeaker f' f`), then whatever matches under `f` matches under `f'`, with the same assignment. -/
theorem C11u_monotone_in_flags (G : GLang) (t : QTask) (f' f : QFlags) (g : List Triple) (wf : Node)
    (hw : FlagsWeaker f' f) :
    (Matches G t f g wf → Matches G t f' g wf) ∧ (MatchesUnfolded G t f g wf → MatchesUnfolded G t f' g wf) :=
  ⟨hw.matches, hw.matchesUnfolded⟩

/-- Switching one of the four filters OFF is such a weakening … -/
theorem C11u_flag_off (f : QFlags) :
    FlagsWeaker { f with byIo := false } f ∧ FlagsWeaker { f with byTypes := false } f ∧
    FlagsWeaker { f with byOperators := false } f ∧ FlagsWeaker { f with byChronology := false } f :=
  ⟨⟨(fun h => by cases h), id, id, id, id, id⟩, ⟨id, (fun h => by cases h), id, id, id, id⟩,
   ⟨id, id, (fun h => by cases h), id, id, id⟩, ⟨id, id, id, (fun h => by cases h), id, id⟩⟩

/-- … and so is switching one of the two relaxations ON (for these two flags OFF is the stricter setting). -/
theorem C11u_flag_on (f : QFlags) :
    FlagsWeaker { f with byPenultimateOutput := true } f ∧ FlagsWeaker { f with bySecondInput := true } f :=
  ⟨⟨id, id, id, id, fun _ => rfl, id⟩, ⟨id, id, id, id, id, fun _ => rfl⟩⟩

/-- For the generated queries, in either mode (`f'` and `f` agree on `unfold_tree`): the query generated with the
weaker flags accepts whatever the query generated with `f` accepts. -/
theorem C11u_monotone_in_flags_query (G : GLang) (t : QTask) (f' f : QFlags) (q q' : Query)
    (hw : FlagsWeaker f' f) (hu : f'.unfoldTree = f.unfoldTree)
    (hq : genQuery G t f = .ok q) (hq' : genQuery G t f' = .ok q')
    (g : List Triple) (wf : Node) (D : Ty → Prop) (po : C20.POrder (leTyB G.types) D)
    (hD : ∀ k, StepReach t k → ∀ T ∈ (t.step k).types, D T)
    (hup : C20.UpClosed (leTyB G.types) D (HasType G g wf))
    (he : evalQuery q g wf = true) : evalQuery q' g wf = true :=
  hw.eval hu hq hq' (fun _ => bagExact_of G t g wf D po hD hup) he

/-! ## non-vacuity on the diamond task `dTask` over `dGraph` (two branches through different inputs) -/

theorem dMatchesU : MatchesUnfolded exG dTask {} dGraph w := C11u_converse_counterexample.1
theorem dNoCycle : NoCycle dTask := C11u_generates_only exG dTask {} dQuery dQuery_ok
theorem dPo : C20.POrder (leTyB exG.types) dD := C11_porder exL (C01.C01_wfLang exL (by decide)) (fun T => T = tA)

theorem dPaths : ∀ p k, PathTo dTask p k →
    (p = [0] ∧ k = 0) ∨ (p = [0, 1] ∧ k = 1) ∨ (p = [0, 2] ∧ k = 2) ∨ (p = [0, 1, 3] ∧ k = 3) ∨ (p = [0, 2, 3] ∧ k = 3) := by
  intro p k hp
  induction hp with
  | out ho => simp [dTask] at ho; exact Or.inl ⟨by rw [ho], ho⟩
  | step _ hb ih =>
    rcases ih with ⟨rfl, rfl⟩ | ⟨rfl, rfl⟩ | ⟨rfl, rfl⟩ | ⟨rfl, rfl⟩ | ⟨rfl, rfl⟩ <;> simp [dTask, QTask.step] at hb
    · rcases hb with rfl | rfl
      · exact Or.inr (Or.inl ⟨rfl, rfl⟩)
      · exact Or.inr (Or.inr (Or.inl ⟨rfl, rfl⟩))
    · subst hb; exact Or.inr (Or.inr (Or.inr (Or.inl ⟨rfl, rfl⟩)))
    · subst hb; exact Or.inr (Or.inr (Or.inr (Or.inr ⟨rfl, rfl⟩)))

/-- the shared step 3 is dropped from ONE branch (it stays reachable through step 2): still an unfolded match … -/
example : MatchesUnfolded exG (dTask.dropLink 1 3) {} dGraph w := C11u_drop_step exG dTask {} dGraph w 1 3 dMatchesU
example : StepReach (dTask.dropLink 1 3) 3 :=
  .step (c := 2) (.step (c := 0) (.out (by decide)) (by decide)) (by decide)

/-- … and the unfolded query of the smaller task accepts, as `C11u_drop_step_query` says and as evaluation confirms -/
def dDropQueryU : Query := okOr (genQuery exG (dTask.dropLink 1 3) { unfoldTree := true })
theorem dDropQueryU_ok : genQuery exG (dTask.dropLink 1 3) { unfoldTree := true } = .ok dDropQueryU :=
  okOr_ok _ (by decide +kernel)
example : evalQuery dDropQueryU dGraph w = true :=
  C11u_drop_step_query exG dTask { unfoldTree := true } dQueryU dDropQueryU 1 3 rfl dQueryU_ok dDropQueryU_ok dGraph w dD dPo
    (fun k _ => dTask_types k) dUp dEval.1
example : evalQuery dDropQueryU dGraph w = true := by decide +kernel

/-- the same on the unfolded tasks; the unfolded smaller task is NOT a `SubTask` of the unfolded diamond (copy 2 of the
smaller task is step 2, of the diamond a copy of step 3), which is why the proofs work on paths -/
example : Matches exG (unfoldTask (dTask.dropLink 1 3)) {} dGraph w :=
  C11u_drop_step_unfoldTask exG dTask {} dGraph w 1 3 dNoCycle
    ((C11u_unfoldTask exG dTask {} dGraph w dNoCycle).1 dMatchesU)
example : unfoldTask (dTask.dropLink 1 3) =
    { steps := [{ ops := ["out"], from_ := [1, 2] }, { ops := ["f"] }, { ops := ["g"], from_ := [3] },
                { types := [tA], ops := ["h"] }],
      outputs := [0], inputs := [3] } := by rfl
theorem C11u_unfoldTask_not_subTask : ¬ SubTask (unfoldTask (dTask.dropLink 1 3)) (unfoldTask dTask) := by
  intro h
  have h2 : 2 ∈ ((unfoldTask dTask).step 0).from_ := h.from_ 0 2 (by decide)
  revert h2
  decide

/-- a sub-task that is not a dropped link: the diamond without its input requirement -/
def dNoInputs : QTask := { dTask with inputs := [] }
theorem dNoInputs_sub : SubTask dNoInputs dTask :=
  ⟨fun _ h => h, (fun _ h => by cases h), fun _ _ h => h, fun _ _ => rfl, fun _ _ => rfl⟩
example : MatchesUnfolded exG dNoInputs {} dGraph w := C11u_subtask exG dNoInputs dTask {} dGraph w dNoInputs_sub dMatchesU
example : NoCycle dNoInputs := C11u_subtask_acyclic dNoInputs dTask dNoInputs_sub dNoCycle
example : Matches exG (unfoldTask dNoInputs) {} dGraph w :=
  C11u_subtask_unfoldTask exG dNoInputs dTask {} dGraph w dNoInputs_sub dNoCycle
    ((C11u_unfoldTask exG dTask {} dGraph w dNoCycle).1 dMatchesU)
def dNoInputsQueryU : Query := okOr (genQuery exG dNoInputs { unfoldTree := true })
theorem dNoInputsQueryU_ok : genQuery exG dNoInputs { unfoldTree := true } = .ok dNoInputsQueryU := okOr_ok _ (by decide +kernel)
example : evalQuery dNoInputsQueryU dGraph w = true :=
  C11u_subtask_query exG dNoInputs dTask { unfoldTree := true } dQueryU dNoInputsQueryU dNoInputs_sub rfl dQueryU_ok
    dNoInputsQueryU_ok dGraph w dD dPo (fun k _ => dTask_types k) dUp dEval.1

/-- generalising the shared step 3 from "`A`" to "`A` or `B`" -/
def dTaskGen : QTask :=
  { dTask with steps := [{ ops := ["out"], from_ := [1, 2] }, { ops := ["f"], from_ := [3] }, { ops := ["g"], from_ := [3] },
                         { types := [tA, tB], ops := ["h"] }] }

theorem dGeneralised : GeneralisedTask (leTyB exG.types) dTask dTaskGen := by
  refine ⟨rfl, rfl, ?_, ?_, ?_⟩
  · intro k
    rcases k with _ | _ | _ | _ | k <;> rfl
  · intro k
    rcases k with _ | _ | _ | _ | k <;> rfl
  · intro k
    rcases k with _ | _ | _ | _ | k <;> simp [GeneralisesTypes, dTask, dTaskGen, QTask.step]
    exact Or.inl leAA

theorem dTask_typesEx : ∀ k, ∀ T ∈ (dTask.step k).types, exD T :=
  fun k T hT => ⟨(dTask_types k T hT).1, Or.inl (dTask_types k T hT).2⟩

theorem dTaskGen_types : ∀ k, ∀ T ∈ (dTaskGen.step k).types, exD T := by
  intro k T hT
  have hA : exD tA := ⟨by decide, Or.inl rfl⟩
  have hB : exD tB := ⟨by decide, Or.inr rfl⟩
  rcases k with _ | _ | _ | _ | k <;> simp [dTaskGen, QTask.step] at hT
  rcases hT with rfl | rfl
  · exact hA
  · exact hB

theorem uriB {u : Node} (hu : typeUri exG tB.toTerm = .ok u) : u = .ns "B" := by
  have h2 : typeUri exG tB.toTerm = .ok (.ns "B") := rfl
  rw [h2] at hu
  simp only [Except.ok.injEq] at hu
  exact hu.symm

theorem dUpSub : UpClosedSubtypeOf exG exD dGraph := by
  intro n T T' u hT hT' hu hg hle
  rcases hT.2 with rfl | rfl <;> rcases hT'.2 with rfl | rfl
  · exact ⟨u, hu, hg⟩
  · rw [show exG.types = exL from rfl, leAB] at hle
    cases hle
  · have := uriB hu
    subst this
    simp [dGraph, b, w] at hg
  · exact ⟨u, hu, hg⟩

theorem dUpEx : C20.UpClosed (leTyB exG.types) exD (HasType exG dGraph w) := by
  intro x y hx hy hhas hle
  rcases hy.2 with rfl | rfl
  · exact ⟨.ns "A", rfl, by decide⟩
  · rcases hx.2 with rfl | rfl
    · rw [show exG.types = exL from rfl, leAB] at hle
      cases hle
    · exact hhas

example : MatchesUnfolded exG dTaskGen {} dGraph w :=
  C11u_generalise exG dTask dTaskGen {} dGraph w exD (C11_porder exL (C01.C01_wfLang exL (by decide)) _)
    dGeneralised dTask_typesEx dTaskGen_types dUpSub dUpEx dMatchesU
example : Matches exG (unfoldTask dTaskGen) {} dGraph w :=
  C11u_generalise_unfoldTask exG dTask dTaskGen {} dGraph w exD (C11_porder exL (C01.C01_wfLang exL (by decide)) _)
    dGeneralised dTask_typesEx dTaskGen_types dUpSub dUpEx dNoCycle
    ((C11u_unfoldTask exG dTask {} dGraph w dNoCycle).1 dMatchesU)
example : PathTo dTaskGen [0, 2, 3] 3 :=
  ((C11u_generalise_paths _ dTask dTaskGen dGeneralised).1 _ _).2
    (.step (p := [0, 2]) (.step (p := [0]) (.out (by decide)) (by decide)) (by decide))
example : (match genQuery exG dTaskGen { unfoldTree := true } with
    | .ok q => evalQuery q dGraph w
    | .error _ => false) = true := by decide +kernel

/-- the commutation on the diamond, and the plain `C11_generalise` applied to the two unfolded tasks -/
theorem dGeneralisedU : GeneralisedTask (leTyB exG.types) (unfoldTask dTask) (unfoldTask dTaskGen) :=
  C11u_generalise_commutes _ dTask dTaskGen dGeneralised rfl
example : unfoldTask dTaskGen =
    { steps := [{ ops := ["out"], from_ := [1, 3] }, { ops := ["f"], from_ := [2] }, { types := [tA, tB], ops := ["h"] },
                { ops := ["g"], from_ := [4] }, { types := [tA, tB], ops := ["h"] }],
      outputs := [0], inputs := [2, 4] } := by rfl
example : Matches exG (unfoldTask dTaskGen) {} dGraph w := by
  have hA : exD tA := ⟨by decide, Or.inl rfl⟩
  have hB : exD tB := ⟨by decide, Or.inr rfl⟩
  refine C11_generalise exG (unfoldTask dTask) (unfoldTask dTaskGen) {} dGraph w exD
    (C11_porder exL (C01.C01_wfLang exL (by decide)) _) dGeneralisedU ?_ ?_ dUpSub dUpEx
    ((C11u_unfoldTask exG dTask {} dGraph w dNoCycle).1 dMatchesU)
  · intro k T hT
    have e : unfoldTask dTask =
        { steps := [{ ops := ["out"], from_ := [1, 3] }, { ops := ["f"], from_ := [2] }, { types := [tA], ops := ["h"] },
                    { ops := ["g"], from_ := [4] }, { types := [tA], ops := ["h"] }],
          outputs := [0], inputs := [2, 4] } := rfl
    rw [e] at hT
    rcases k with _ | _ | _ | _ | _ | k <;> simp [QTask.step] at hT <;> subst hT <;> exact hA
  · intro k T hT
    have e : unfoldTask dTaskGen =
        { steps := [{ ops := ["out"], from_ := [1, 3] }, { ops := ["f"], from_ := [2] }, { types := [tA, tB], ops := ["h"] },
                    { ops := ["g"], from_ := [4] }, { types := [tA, tB], ops := ["h"] }],
          outputs := [0], inputs := [2, 4] } := rfl
    rw [e] at hT
    rcases k with _ | _ | _ | _ | _ | k <;> simp [QTask.step] at hT <;> rcases hT with rfl | rfl <;> first | exact hA | exact hB

/-- the diamond whose shared step requires the absent operator `k`: no unfolded match, and the unfolded query rejects -/
def dTaskK : QTask :=
  { dTask with steps := [{ ops := ["out"], from_ := [1, 2] }, { ops := ["f"], from_ := [3] }, { ops := ["g"], from_ := [3] },
                         { types := [tA], ops := ["k"] }] }
theorem dTaskK_reach3 : StepReach dTaskK 3 :=
  .step (c := 1) (.step (c := 0) (.out (by decide)) (by decide)) (by decide)
example : ¬ MatchesUnfolded exG dTaskK {} dGraph w :=
  C11u_absent_operator exG dTaskK {} dGraph w 3 "k" dTaskK_reach3 rfl (Or.inl ⟨rfl, by decide⟩)
example : ¬ MatchesUnfolded exG dTaskK { byOperators := false } dGraph w :=
  C11u_absent_operator exG dTaskK _ dGraph w 3 "k" dTaskK_reach3 rfl (Or.inr ⟨rfl, fun n => by simp [dGraph, b, w]⟩)
def dQueryK : Query := okOr (genQuery exG dTaskK { unfoldTree := true })
theorem dQueryK_ok : genQuery exG dTaskK { unfoldTree := true } = .ok dQueryK := okOr_ok _ (by decide +kernel)
theorem dTaskK_types : ∀ k, ∀ T ∈ (dTaskK.step k).types, dD T := by
  intro k T hT
  rcases k with _ | _ | _ | _ | k <;> simp [dTaskK, QTask.step] at hT
  subst hT
  exact ⟨by decide, rfl⟩
example : evalQuery dQueryK dGraph w = false :=
  C11u_absent_operator_query exG dTaskK { unfoldTree := true } dQueryK rfl dQueryK_ok dGraph w dD dPo
    (fun k _ => dTaskK_types k) dUp 3 "k" dTaskK_reach3 rfl (Or.inl ⟨rfl, by decide⟩)
example : evalQuery dQueryK dGraph w = false := by decide +kernel

/-- the diamond whose shared step requires the absent type `B` -/
def dTaskB : QTask :=
  { dTask with steps := [{ ops := ["out"], from_ := [1, 2] }, { ops := ["f"], from_ := [3] }, { ops := ["g"], from_ := [3] },
                         { types := [tB], ops := ["h"] }] }
example : ¬ MatchesUnfolded exG dTaskB {} dGraph w := by
  refine C11u_absent_type exG dTaskB {} dGraph w 3
    (.step (c := 1) (.step (c := 0) (.out (by decide)) (by decide)) (by decide)) (by decide) (Or.inl ⟨rfl, ?_⟩)
  intro T hT
  simp [dTaskB, QTask.step] at hT
  subst hT
  rintro ⟨u, hu, hg⟩
  have := uriB hu
  subst this
  revert hg
  decide
example : (match genQuery exG dTaskB { unfoldTree := true } with
    | .ok q => evalQuery q dGraph w
    | .error _ => true) = false := by decide +kernel

/-- the diamond is read off `dGraph` with one node per PATH (`b 3` for `[0, 1, 3]`, `b 4` for `[0, 2, 3]`) … -/
def dNodes (p : List Nat) : Node :=
  if p = [0] then b 0 else if p = [0, 1] then b 1 else if p = [0, 2] then b 2 else if p = [0, 1, 3] then b 3 else b 4

theorem dReadOffU : ReadOffU exG dTask dGraph w dNodes := by
  refine ⟨?_, ?_, ?_, ?_, ?_, ?_, ?_⟩
  · intro p o hp ho
    simp [dTask] at ho
    subst ho
    rcases dPaths p _ hp with ⟨rfl, _⟩ | ⟨_, h⟩ | ⟨_, h⟩ | ⟨_, h⟩ | ⟨_, h⟩ <;> first | decide | cases h
  · intro p i hp hi
    simp [dTask] at hi
    subst hi
    rcases dPaths p _ hp with ⟨_, h⟩ | ⟨_, h⟩ | ⟨_, h⟩ | ⟨rfl, _⟩ | ⟨rfl, _⟩ <;> first | decide | cases h
  · intro p k hp o ho
    rcases dPaths p k hp with ⟨rfl, rfl⟩ | ⟨rfl, rfl⟩ | ⟨rfl, rfl⟩ | ⟨rfl, rfl⟩ | ⟨rfl, rfl⟩ <;>
      simp [dTask, QTask.step] at ho <;> subst ho <;> decide
  · intro p k hp T hT
    rcases dPaths p k hp with ⟨rfl, rfl⟩ | ⟨rfl, rfl⟩ | ⟨rfl, rfl⟩ | ⟨rfl, rfl⟩ | ⟨rfl, rfl⟩ <;>
      simp [dTask, QTask.step] at hT <;> subst hT <;> exact ⟨.ns "A", rfl, by decide⟩
  · intro p c b' hp hb
    rcases dPaths p c hp with ⟨rfl, rfl⟩ | ⟨rfl, rfl⟩ | ⟨rfl, rfl⟩ | ⟨rfl, rfl⟩ | ⟨rfl, rfl⟩ <;>
      simp [dTask, QTask.step] at hb
    · rcases hb with rfl | rfl <;> decide
    · subst hb; decide
    · subst hb; decide
  · intro n o h
    simp [dGraph, b, w] at h
    rcases h with ⟨_, rfl⟩ | ⟨_, rfl⟩ | ⟨_, rfl⟩ | ⟨_, rfl⟩ | ⟨_, rfl⟩ <;> decide
  · intro n u h
    simp [dGraph, b, w] at h
    rcases h with ⟨_, rfl⟩ | ⟨_, rfl⟩ <;> decide

/-- … so it matches unfolded under every choice of flags, and its unfolded query accepts (`C11u_self_paths`,
`C11u_self_query`); it is NOT read off with one node per step (the diamond does not match `dGraph`) -/
example (f : QFlags) : MatchesUnfolded exG dTask f dGraph w := C11u_self_paths exG dTask f dGraph w dNodes dReadOffU
example : evalQuery dQueryU dGraph w = true :=
  C11u_self_query exG dTask { unfoldTree := true } dQueryU rfl dQueryU_ok dGraph w dD dPo (fun k _ => dTask_types k) dUp
    dNodes dReadOffU
example : ¬ ∃ h, ReadOff exG dTask dGraph w h :=
  fun ⟨h, hr⟩ => C11u_converse_counterexample.2 (C11_self exG dTask {} dGraph w h hr)

/-- `C11u_self` with one node per step: the chain of `Props/C11.lean` over its graph, and the diamond over the
workflow `dGraphS` in which both branches start from the SAME input `b 3` -/
example (f : QFlags) : MatchesUnfolded exG exTask f exGraph w := C11u_self exG exTask f exGraph w b exReadOff
example : ReadOffU exG exTask exGraph w (fun p => b (lastStep p)) := C11u_readOff_paths exG exTask exGraph w b exReadOff

def dGraphS : List Triple := [
  (w, .tf "output", b 0), (b 0, .tf "via", .ns "out"), (b 0, .tf "depends", b 1), (b 0, .tf "depends", b 2),
  (b 1, .tf "via", .ns "f"), (b 2, .tf "via", .ns "g"), (b 1, .tf "depends", b 3), (b 2, .tf "depends", b 3),
  (b 3, .tf "via", .ns "h"), (b 3, .tf "subtypeOf", .ns "A"), (w, .tf "input", b 3),
  (w, .tf "containsOperation", .ns "out"), (w, .tf "containsOperation", .ns "f"), (w, .tf "containsOperation", .ns "g"),
  (w, .tf "containsOperation", .ns "h"), (w, .tf "containsType", .ns "A")]

theorem dReach : ∀ k, StepReach dTask k → k = 0 ∨ k = 1 ∨ k = 2 ∨ k = 3 := by
  intro k hk
  obtain ⟨p, hp⟩ := (C11u_paths_reach dTask k).2 hk
  rcases dPaths p k hp with ⟨_, h⟩ | ⟨_, h⟩ | ⟨_, h⟩ | ⟨_, h⟩ | ⟨_, h⟩ <;> simp [h]

theorem dReadOffS : ReadOff exG dTask dGraphS w b := by
  refine ⟨?_, ?_, ?_, ?_, ?_, ?_, ?_⟩
  · intro o ho
    simp [dTask] at ho
    subst ho
    decide
  · intro i hi _
    simp [dTask] at hi
    subst hi
    decide
  · intro k hk o ho
    rcases dReach k hk with rfl | rfl | rfl | rfl <;> simp [dTask, QTask.step] at ho <;> subst ho <;> decide
  · intro k hk T hT
    rcases dReach k hk with rfl | rfl | rfl | rfl <;> simp [dTask, QTask.step] at hT
    subst hT
    exact ⟨.ns "A", rfl, by decide⟩
  · intro c b' hc hb
    rcases dReach c hc with rfl | rfl | rfl | rfl <;> simp [dTask, QTask.step] at hb
    · rcases hb with rfl | rfl <;> decide
    · subst hb; decide
    · subst hb; decide
  · intro n o h
    simp [dGraphS, b, w] at h
    rcases h with ⟨_, rfl⟩ | ⟨_, rfl⟩ | ⟨_, rfl⟩ | ⟨_, rfl⟩ <;> decide
  · intro n u h
    simp [dGraphS, b, w] at h
    rcases h with ⟨_, rfl⟩
    decide

theorem dMatchesS : Matches exG dTask {} dGraphS w := C11_self exG dTask {} dGraphS w b dReadOffS
example (f : QFlags) : MatchesUnfolded exG dTask f dGraphS w := C11u_self exG dTask f dGraphS w b dReadOffS
example : evalQuery dQueryU dGraphS w = true := by decide +kernel
example : evalQuery dQuery dGraphS w = true := by decide +kernel

/-- monotone in the flags, on the diamond: chronology and pre-filters off, second input on — in both readings -/
def fWeak : QFlags := { byChronology := false, byOperators := false, bySecondInput := true }
theorem fWeak_weaker : FlagsWeaker fWeak {} :=
  ⟨fun _ => rfl, fun _ => rfl, (fun h => by cases h), (fun h => by cases h), fun _ => rfl, fun h => by cases h⟩
example : MatchesUnfolded exG dTask fWeak dGraph w := (C11u_monotone_in_flags exG dTask fWeak {} dGraph w fWeak_weaker).2 dMatchesU
example : Matches exG dTask fWeak dGraphS w := (C11u_monotone_in_flags exG dTask fWeak {} dGraphS w fWeak_weaker).1 dMatchesS
example : MatchesUnfolded exG dTask { byChronology := false } dGraph w :=
  (C11u_monotone_in_flags exG dTask _ {} dGraph w (C11u_flag_off {}).2.2.2).2 dMatchesU
example : MatchesUnfolded exG dTask { bySecondInput := true } dGraph w :=
  (C11u_monotone_in_flags exG dTask _ {} dGraph w (C11u_flag_on {}).2).2 dMatchesU

def dQueryUW : Query := okOr (genQuery exG dTask { fWeak with unfoldTree := true })
theorem dQueryUW_ok : genQuery exG dTask { fWeak with unfoldTree := true } = .ok dQueryUW := okOr_ok _ (by decide +kernel)
example : evalQuery dQueryUW dGraph w = true :=
  C11u_monotone_in_flags_query exG dTask { fWeak with unfoldTree := true } { unfoldTree := true } dQueryU dQueryUW
    ⟨fun _ => rfl, fun _ => rfl, (fun h => by cases h), (fun h => by cases h), fun _ => rfl, fun h => by cases h⟩ rfl
    dQueryU_ok dQueryUW_ok dGraph w dD dPo (fun k _ => dTask_types k) dUp dEval.1
example : evalQuery dQueryUW dGraph w = true := by decide +kernel

/-- with chronology off even the plain diamond matches the two-input workflow `dGraph` (nothing ties the branches
together any more), which it does not with the default flags: the enlargement can be strict -/
example : (match genQuery exG dTask { byChronology := false } with
    | .ok q => evalQuery q dGraph w
    | .error _ => false) = true ∧ evalQuery dQuery dGraph w = false := ⟨by decide +kernel, dEval.2⟩

/-! ## the direction matters for `by_penultimate_output`: switching it OFF can LOSE a match -/

/-- one step, via `f` -/
def pTask : QTask := { steps := [{ ops := ["f"] }], outputs := [0] }
/-- the output `b 0` of the workflow is made from `b 1`, which is computed via `f` -/
def pGraph : List Triple := [(w, .tf "output", b 0), (b 0, .tf "from", b 1), (b 1, .tf "via", .ns "f"),
  (w, .tf "containsOperation", .ns "f")]

/-- **`by_penultimate_output` is a relaxation, not a filter**: with the flag ON (the default) `pTask` matches `pGraph`
(its step is the direct input `b 1` of the output), with the flag switched OFF it does not — in both readings. So
"switching a `by_*` flag off enlarges the set of matching workflows" holds for `by_io`, `by_types`, `by_operators`,
`by_chronology` only; for `by_penultimate_output` and `by_second_input` it is switching ON that enlarges. -/
theorem C11u_penultimate_off_counterexample :
    Matches exG pTask {} pGraph w ∧ MatchesUnfolded exG pTask {} pGraph w ∧
    ¬ Matches exG pTask { byPenultimateOutput := false } pGraph w ∧
    ¬ MatchesUnfolded exG pTask { byPenultimateOutput := false } pGraph w := by
  have hm : Matches exG pTask {} pGraph w := by
    refine ⟨fun _ => b 1, ?_, ?_, ?_, ?_, ?_, ?_⟩
    · intro o _
      exact ⟨Or.inr ⟨rfl, b 0, by decide, by decide⟩, Or.inl (by rcases o with _ | o <;> rfl)⟩
    · intro _ k _
      rcases k with _ | k
      · exact ⟨Or.inr ⟨"f", by decide, by decide⟩, Or.inl rfl⟩
      · exact ⟨Or.inl rfl, Or.inl rfl⟩
    · intro _ c b' _ hb
      rcases c with _ | c <;> simp [pTask, QTask.step] at hb
    · intro _ i hi
      cases hi
    · intro _ k o _ hops
      rcases k with _ | k <;> simp [pTask, QTask.step] at hops
      subst hops
      decide
    · intro _ k _ hne
      rcases k with _ | k <;> exact absurd rfl hne
  have hno : ¬ MatchesUnfolded exG pTask { byPenultimateOutput := false } pGraph w := by
    rintro ⟨h, hm⟩
    have hp : PathTo pTask [0] 0 := .out (by decide)
    have h1 := (hm.output [0] 0 hp (by decide)).1
    have h2 := (hm.step rfl [0] 0 hp).1
    rcases h1 with h1 | ⟨hf, _⟩
    · simp [pGraph, b, w] at h1
      rw [h1] at h2
      rcases h2 with h2 | ⟨o, _, h2⟩
      · cases h2
      · simp [pGraph, b, w] at h2
    · cases hf
  exact ⟨hm, C11u_of_matches _ _ _ _ _ hm, fun h => hno (C11u_of_matches _ _ _ _ _ h), hno⟩

/-- the generated queries agree (both modes): accepted with the flag on, rejected with the flag off -/
example : (match genQuery exG pTask {} with | .ok q => evalQuery q pGraph w | .error _ => false) = true ∧
    (match genQuery exG pTask { byPenultimateOutput := false } with | .ok q => evalQuery q pGraph w | .error _ => true) = false ∧
    (match genQuery exG pTask { unfoldTree := true } with | .ok q => evalQuery q pGraph w | .error _ => false) = true ∧
    (match genQuery exG pTask { byPenultimateOutput := false, unfoldTree := true } with
      | .ok q => evalQuery q pGraph w | .error _ => true) = false := by decide +kernel

/-- and `{ byPenultimateOutput := false }` is indeed not weaker than the default flags -/
example : ¬ FlagsWeaker { byPenultimateOutput := false } {} := fun h => by cases h.byPenultimateOutput rfl

end Tfv.C11
