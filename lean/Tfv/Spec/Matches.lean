import Tfv.Model.Query
/-!
# Specification: what it means for a clause list to be satisfiable over a graph

Declarative basic-graph-pattern semantics. An environment is an association list read as a
partial function (the first binding of a variable counts: `termVal` uses `find?`), hence it
gives at most one value per variable.
-/
namespace Tfv

/-- a triple pattern holds under `env`: both ends have a value and the pair satisfies the path -/
def SatTriple (g : List Triple) (wf : Node) (env : QEnv) (t : QTriple) : Prop :=
  ∃ a b, termVal wf env t.s = some a ∧ termVal wf env t.o = some b ∧ pathHolds g t.p a b = true

/-- a clause holds: its triple, or some alternative of the union -/
def SatClause (g : List Triple) (wf : Node) (env : QEnv) : QClause → Prop
  | .one t => SatTriple g wf env t
  | .union alts => ∃ t ∈ alts, SatTriple g wf env t

/-- every clause holds -/
def SatAll (g : List Triple) (wf : Node) (env : QEnv) (cs : List QClause) : Prop :=
  ∀ c ∈ cs, SatClause g wf env c

/-- some assignment of the variables satisfies every clause -/
def Satisfiable (g : List Triple) (wf : Node) (cs : List QClause) : Prop :=
  ∃ env : QEnv, SatAll g wf env cs

/-- the triples of a clause -/
def QClause.triples : QClause → List QTriple
  | .one t => [t]
  | .union alts => alts

/-- the values that `env` gives to variables in subject position of a `p?` triple lie in `U`
(SPARQL: a zero-length path between two unbound variables ranges over the nodes of the graph) -/
def OptSubjectsIn (U : List Node) (wf : Node) (env : QEnv) (cs : List QClause) : Prop :=
  ∀ c ∈ cs, ∀ t ∈ c.triples, ∀ n v a, t.p = .opt n → t.s = .var v → termVal wf env (.var v) = some a → a ∈ U

/-- satisfiable by an assignment whose `p?`-subjects are nodes of `U` -/
def SatisfiableIn (U : List Node) (g : List Triple) (wf : Node) (cs : List QClause) : Prop :=
  ∃ env : QEnv, SatAll g wf env cs ∧ OptSubjectsIn U wf env cs

/-- every variable of a `p?` triple also occurs, in the same clause list, at an end of a plain
`:p`, `:output/:from?` or `:input/^:from?` triple that stands alone (not in a union):
then every satisfying assignment takes graph nodes there -/
def Grounded (cs : List QClause) : Prop :=
  ∀ c ∈ cs, ∀ t ∈ c.triples, ∀ n v, t.p = .opt n → t.s = .var v →
    ∃ t', QClause.one t' ∈ cs ∧ (∀ m, t'.p ≠ .opt m) ∧ (t'.s = .var v ∨ t'.o = .var v)

/-! ## what a task asks of a workflow graph -/

/-- the steps reachable from an output step through `from_` (the steps the query talks about) -/
inductive StepReach (t : QTask) : Nat → Prop
  | out {o : Nat} : o ∈ t.outputs → StepReach t o
  | step {c b : Nat} : StepReach t c → b ∈ (t.step c).from_ → StepReach t b

/-- `j` is reachable from step `k` through `from_` (in zero or more steps) -/
inductive ReachFrom (t : QTask) : Nat → Nat → Prop
  | refl (k : Nat) : ReachFrom t k k
  | step {k b j : Nat} : b ∈ (t.step k).from_ → ReachFrom t b j → ReachFrom t k j

/-- step `k` lies on a cycle of `from_` links -/
def OnCycle (t : QTask) (k : Nat) : Prop := ∃ b ∈ (t.step k).from_, ReachFrom t b k

/-- no step that the query talks about lies on a cycle (otherwise `CyclicTransformationGraphError`) -/
def NoCycle (t : QTask) : Prop := ∀ k, StepReach t k → ¬ OnCycle t k

/-- node `n` is declared a subtype of one of the maximal alternatives (no constraint without alternatives) -/
def TypeOk (G : GLang) (g : List Triple) (n : Node) (types : List Ty) : Prop :=
  types = [] ∨ ∃ T ∈ unionOf (leTyB G.types) false types, ∃ u, typeUri G T.toTerm = .ok u ∧
    (n, Node.tf "subtypeOf", u) ∈ g

/-- node `n` is computed via one of the alternative operators (no constraint without alternatives) -/
def OpOk (g : List Triple) (n : Node) (ops : List String) : Prop :=
  ops = [] ∨ ∃ o ∈ ops, (n, Node.tf "via", Node.ns o) ∈ g

/-- the workflow is declared to contain type `T` -/
def HasType (G : GLang) (g : List Triple) (wf : Node) (T : Ty) : Prop :=
  ∃ u, typeUri G T.toTerm = .ok u ∧ (wf, Node.tf "containsType", u) ∈ g

/-- the assignment `h` of steps to nodes shows that workflow `wf` of graph `g` contains the flow that
task `t` describes (flags `f`, not unfolded) -/
structure MatchesBy (G : GLang) (t : QTask) (f : QFlags) (g : List Triple) (wf : Node) (h : Nat → Node) : Prop where
  /-- (i) an output step is the output of the workflow, or (by default) a direct input of the output; and has its type -/
  output : ∀ o ∈ t.outputs,
    ((wf, Node.tf "output", h o) ∈ g ∨
      (f.byPenultimateOutput = true ∧ ∃ m, (wf, Node.tf "output", m) ∈ g ∧ (m, Node.tf "from", h o) ∈ g)) ∧
    TypeOk G g (h o) (t.step o).types
  /-- (ii) operators and types of every step -/
  step : f.byChronology = true → ∀ k, StepReach t k →
    OpOk g (h k) (t.step k).ops ∧ TypeOk G g (h k) (t.step k).types
  /-- (iii) every precedes-link follows the dependencies (or, for an unconstrained step, may collapse) -/
  link : f.byChronology = true → ∀ c b, StepReach t c → b ∈ (t.step c).from_ →
    (h c, Node.tf "depends", h b) ∈ g ∨ (relaxedLink t c b = true ∧ h c = h b)
  /-- (iv) input steps are inputs of the workflow (or, with `by_second_input`, feed an input directly); and have their type -/
  input : f.byIo = true → ∀ i ∈ t.inputs, StepReach t i →
    ((wf, Node.tf "input", h i) ∈ g ∨
      (f.bySecondInput = true ∧ ∃ m, (wf, Node.tf "input", m) ∈ g ∧ (h i, Node.tf "from", m) ∈ g)) ∧
    TypeOk G g (h i) (t.step i).types
  /-- (v) pre-filter: operators that definitely occur -/
  preOps : f.byOperators = true → ∀ k o, StepReach t k → (t.step k).ops = [o] →
    (wf, Node.tf "containsOperation", Node.ns o) ∈ g
  /-- (v) pre-filter: every step's type requirement is met by some type the workflow contains -/
  preTypes : f.byTypes = true → ∀ k, StepReach t k → (t.step k).types ≠ [] →
    ∃ T ∈ (t.step k).types, HasType G g wf T

def Matches (G : GLang) (t : QTask) (f : QFlags) (g : List Triple) (wf : Node) : Prop :=
  ∃ h : Nat → Node, MatchesBy G t f g wf h

end Tfv
