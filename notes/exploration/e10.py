import sys, itertools
sys.path.insert(0,'/repo')
from transforge.type import *
from transforge.type import _
A=TypeOperator('A'); B=TypeOperator('B',supertype=A); C=TypeOperator('C',supertype=B); X=TypeOperator('X')
F=TypeOperator('F',params=1); K=TypeOperator('K',params=[Variance.CONTRA])
chain=[Bottom,C,B,A,Top]
def run(sig, args):
    try:
        t=sig.instance()
        for a in args: t=t.apply(a.instance() if not isinstance(a,TypeInstance) else a)
        return str(t)
    except Exception as e:
        return type(e).__name__
ctxs={
 'id': lambda x: x,
 'F': lambda x: F(x),
 'FF': lambda x: F(F(x)),
 'K': lambda x: K(x),
 'fnres': lambda x: X ** x,
 'fnarg': lambda x: x ** X,
 'KK': lambda x: K(K(x)),
}
res_ctx={'id':lambda x:x,'F':lambda x:F(x),'K':lambda x:K(x)}
import collections
issues=collections.Counter()
for cn,c in ctxs.items():
  for rn,r in res_ctx.items():
    for n in (2,3):
        sig=TypeSchema(lambda x: (tuple(c(x) for _ in range(n))) ** r(x))
        for args in itertools.product(chain, repeat=n):
            results=set()
            for perm in itertools.permutations(args):
                results.add(run(sig,[c(a()) for a in perm]))
            if len(results)>1:
                issues[(cn,rn,n)]+=1
                if issues[(cn,rn,n)]<=2: print('ORDER', cn, rn, [str(a) for a in args], results)
print(issues)
