import Tfv.Proofs.FitsApplyBaseOwn3
/-!
# C06 end to end, alternatives with their own variables, part 4: the whole run of `x ** r(x) [x << {F(b), G(c, d)}]`
on a compound argument
-/
namespace Tfv.C06B
open Tfv Tfv.C03P Tfv.C03C Tfv.C16P Tfv.C17E Tfv.C03R Tfv.C06A Tfv.C05P

/-! ## frame and lookup of `argStep` -/

/-- the record of `w` after its component `t` (variance `v`) has been unified with it -/
def argInfo (L : Lang) (v : Bool) (t : Ty) (w : Nat) : VarInfo :=
  if v then (if hd t == BOT then { cset := w } else infoCo L w t)
  else (if hd t == TOP then { cset := w } else infoContra L w t)

theorem getVar_argStep_same {L : Lang} {σ : Store} {w c : Nat} (v : Bool) (t : Ty) (hf : FreshAt σ w c) :
    getVar (argStep L σ v t w) w = argInfo L v t w := by
  unfold argStep argInfo
  split
  · split
    · exact hf.info
    · rw [getVar_setCset, C03P.getVar_setVar_eq _ hf.lt]
  · split
    · exact hf.info
    · rw [getVar_setCset, C03P.getVar_setVar_eq _ hf.lt]

theorem getVar_argStep_other {L : Lang} {σ : Store} {w u : Nat} (v : Bool) (t : Ty) (hne : w ≠ u) :
    getVar (argStep L σ v t w) u = getVar σ u := by
  unfold argStep
  split
  · split
    · rfl
    · rw [getVar_setCset, C03P.getVar_setVar_ne _ hne]
  · split
    · rfl
    · rw [getVar_setCset, C03P.getVar_setVar_ne _ hne]

theorem getCset_argStep_other {L : Lang} {σ : Store} {w u : Nat} (v : Bool) (t : Ty) (hne : w ≠ u) :
    getCset (argStep L σ v t w) u = getCset σ u := by
  unfold argStep
  split
  · split
    · rfl
    · rw [getCset_setCset_other _ hne, C03P.getCset_setVar]
  · split
    · rfl
    · rw [getCset_setCset_other _ hne, C03P.getCset_setVar]

theorem getConstr_argStep {L : Lang} {σ : Store} {w : Nat} (v : Bool) (t : Ty) (c : Nat) :
    getConstr (argStep L σ v t w) c = getConstr σ c := by
  unfold argStep
  split <;> split <;> rfl

theorem argSteps_frame (L : Lang) : ∀ (ts : List Ty) (vs : List Bool) (σ : Store) (w u : Nat), u < w →
    getVar (argSteps L σ vs ts w) u = getVar σ u ∧ getCset (argSteps L σ vs ts w) u = getCset σ u ∧
      ∀ c, getConstr (argSteps L σ vs ts w) c = getConstr σ c
  | [], vs, σ, w, u, _ => by cases vs <;> exact ⟨rfl, rfl, fun _ => rfl⟩
  | t :: ts, [], σ, w, u, _ => ⟨rfl, rfl, fun _ => rfl⟩
  | t :: ts, v :: vs, σ, w, u, h => by
    rw [argSteps]
    obtain ⟨h1, h2, h3⟩ := argSteps_frame L ts vs (argStep L σ v t w) (w+1) u (by omega)
    exact ⟨by rw [h1, getVar_argStep_other v t (by omega)], by rw [h2, getCset_argStep_other v t (by omega)],
      fun c => by rw [h3, getConstr_argStep]⟩

/-! ## the stores -/

/-- `x` bound to the argument, constraint not yet re-checked -/
def σIB (a : Ty) (o1 o2 : Nat) : Store :=
  { vars := [{ bound := some a.toTerm, cset := 0 }, { cset := 1 }, { cset := 2 }, { cset := 3 }],
    csets := [[0], [0], [0], [0]], constrs := [.elim (.var 0) [P1 o1, P2 o2] false] }

/-- `x` bound to the argument, the record narrowed to the matching alternative and marked fulfilled -/
def σK (a : Ty) (alts : List Term) : Store :=
  { vars := [{ bound := some a.toTerm, cset := 0 }, { cset := 1 }, { cset := 2 }, { cset := 3 }],
    csets := [[0], [0], [0], [0]], constrs := [.elim a.toTerm alts true] }

/-- the store after the application, by the head of the argument -/
def ownAfter (L : Lang) (o1 o2 : Nat) : Ty → Except Err Store
  | .app ao as =>
    if ao = o1 then .ok (setCset (argSteps L (σK (.app ao as) [P1 o1]) (varianceOf L o1) as 1) 0 [])
    else if ao = o2 then .ok (setCset (argSteps L (σK (.app ao as) [P2 o2]) (varianceOf L o2) as 2) 0 [])
    else .error .constraintViolation

theorem freshAt_σK (a : Ty) (alts : List Term) (w : Nat) (h1 : 1 ≤ w) (h3 : w ≤ 3) : FreshAt (σK a alts) w 0 := by
  match w, h1, h3 with
  | 1, _, _ => exact ⟨show 1 < 4 by omega, rfl, rfl, _, _, rfl⟩
  | 2, _, _ => exact ⟨show 2 < 4 by omega, rfl, rfl, _, _, rfl⟩
  | 3, _, _ => exact ⟨show 3 < 4 by omega, rfl, rfl, _, _, rfl⟩

theorem σIB_inert (a : Ty) (o1 o2 : Nat) : Inert (σIB a o1 o2) a := by
  intro v
  match v with
  | 0 => exact Or.inr rfl
  | 1 | 2 | 3 => exact Or.inl ⟨rfl, rfl, rfl⟩
  | v+4 => exact Or.inl ⟨rfl, rfl, rfl⟩

theorem fitsBs_varsFrom (L : Lang) (pol : Bool) : ∀ (k : Nat) (vs : List Bool) (xs : List Ty) (w : Nat),
    fitsBs L pol vs xs (varsFrom w k) = true
  | 0, vs, xs, w => by rw [varsFrom]; exact fitsBs_nil_p L pol vs xs
  | k+1, [], xs, w => fitsBs_nil_v L pol xs _
  | k+1, v :: vs, [], w => fitsBs_nil_x L pol _ _
  | k+1, v :: vs, x :: xs, w => by
    rw [varsFrom, fitsBs_cons, fitsBs_varsFrom L pol k vs xs (w+1), fitsB]; rfl

/-- a compound argument fits the flat pattern `o(w, w+1, …)` iff the heads agree -/
theorem fitsB_flat {L : Lang} (wf : WF L) (ao : Nat) (as : List Ty) (o w k : Nat) (h0 : arityOf L ao ≠ 0)
    (ho : arityOf L o ≠ 0) : fitsB L true (.app ao as) (.app o (varsFrom w k)) = (ao == o) := by
  have hb : (ao == BOT) = false := by simpa using compound_not_bot wf h0
  have ht : (o == TOP) = false := by simpa using compound_not_top wf ho
  have h0' : (arityOf L ao == 0) = false := by simpa using h0
  rw [fitsB_app]
  simp only [if_true, hb, ht, Bool.or_self, Bool.false_eq_true, if_false, h0', fitsBs_varsFrom]
  cases h : (ao == o)
  · have : ao ≠ o := by simpa using h
    simp [this]
  · have : ao = o := by simpa using h
    simp [this]


theorem P1_eq (o1 : Nat) : P1 o1 = .app o1 (varsFrom 1 1) := rfl
theorem P2_eq (o2 : Nat) : P2 o2 = .app o2 (varsFrom 2 2) := rfl

/-- the unique kept alternative `o(w, …)` is unified with the argument -/
theorem unify_own (L : Lang) (wf : WF L) (x : Nat) (ao : Nat) (as : List Ty) (w : Nat)
    (h0 : arityOf L ao ≠ 0) (hx : as.length + 4 ≤ x) (hw1 : 1 ≤ w) (hw3 : w + as.length ≤ 4) :
    unify L (x+4) (σK (.app ao as) [.app ao (varsFrom w as.length)]) (Ty.app ao as).toTerm
        (.app ao (varsFrom w as.length)) true false false =
      .ok (argSteps L (σK (.app ao as) [.app ao (varsFrom w as.length)]) (varianceOf L ao) as w) := by
  have hb : (ao == BOT) = false := by simpa using compound_not_bot wf h0
  have ht : (ao == TOP) = false := by simpa using compound_not_top wf h0
  have h0' : (arityOf L ao == 0) = false := by simpa using h0
  rw [Tfv.toTerm_app, C06A.unify_app_app]
  simp only [hb, ht, Bool.or_self, Bool.false_eq_true, if_false, h0', beq_self_eq_true, if_true]
  exact unifyList_fresh L 0 as (varianceOf L ao) _ w (x+3)
    (fun j hj => freshAt_σK _ _ (w+j) (by omega) (by omega)) (by omega)

/-- … then the outer `check_constraints` drops the fulfilled record from the constraint set of `x` -/
theorem own_drop (L : Lang) (ao : Nat) (as : List Ty) (p : Term) (w : Nat) (hw1 : 1 ≤ w) :
    setCset (argSteps L (σK (.app ao as) [p]) (varianceOf L ao) as w)
        (getVar (argSteps L (σK (.app ao as) [p]) (varianceOf L ao) as w) 0).cset
        ((getCset (argSteps L (σK (.app ao as) [p]) (varianceOf L ao) as w)
          (getVar (argSteps L (σK (.app ao as) [p]) (varianceOf L ao) as w) 0).cset).filter (· != 0)) =
      setCset (argSteps L (σK (.app ao as) [p]) (varianceOf L ao) as w) 0 [] := by
  obtain ⟨f1, f2, _⟩ := argSteps_frame L as (varianceOf L ao) (σK (.app ao as) [p]) w 0 (by omega)
  rw [f1]
  have e1 : (getVar (σK (.app ao as) [p]) 0).cset = 0 := rfl
  rw [e1, f2]
  rfl


/-- `x` bound to the argument, the record re-checked but not yet filtered -/
def σIB' (a : Ty) (o1 o2 : Nat) : Store :=
  { vars := [{ bound := some a.toTerm, cset := 0 }, { cset := 1 }, { cset := 2 }, { cset := 3 }],
    csets := [[0], [0], [0], [0]], constrs := [.elim a.toTerm [P1 o1, P2 o2] false] }

theorem patFree_σIB' (a : Ty) (o1 o2 : Nat) (p : Term) (hp : ∀ v ∈ p.vars, 1 ≤ v) : PatFree (σIB' a o1 o2) p := by
  intro v hv
  have := hp v hv
  match v, this with
  | 1, _ | 2, _ | 3, _ => exact ⟨rfl, rfl, rfl⟩
  | v+4, _ => exact ⟨rfl, rfl, rfl⟩

theorem check_σIB (L : Lang) (wf : WF L) (o1 o2 : Nat) (ops : OwnOps L o1 o2) (x ao : Nat) (as : List Ty)
    (h0 : arityOf L ao ≠ 0) (hw : wfTy L (.app ao as) = true) (hda : Ty.depth (.app ao as) < 64)
    (hx : 6 * Ty.size (.app ao as) ≤ x) :
    checkConstraints L (x+7) (σIB (.app ao as) o1 o2) 0 = ownAfter L o1 o2 (.app ao as) := by
  have hS := size_pos (.app ao as)
  have h1 : arityOf L o1 ≠ 0 := by rw [ops.a1]; decide
  have h2 : arityOf L o2 ≠ 0 := by rw [ops.a2]; decide
  rw [checkConstraints]
  have e1 : getCset (σIB (.app ao as) o1 o2) (getVar (σIB (.app ao as) o1 o2) 0).cset = [0] := rfl
  rw [e1, checkList, fulfill]
  have hg : getConstr (σIB (.app ao as) o1 o2) 0 = .elim (.var 0) [P1 o1, P2 o2] false := rfl
  simp only [hg]
  rw [minimize_own L wf _ (.app ao as) o1 o2 ops (σIB_inert _ o1 o2) x hx _ _ hg, followT_bound_toTerm rfl]
  have e2 : setConstr (σIB (.app ao as) o1 o2) 0 (.elim (Ty.app ao as).toTerm [P1 o1, P2 o2] false) =
      σIB' (.app ao as) o1 o2 := rfl
  rw [e2]
  have hg' : getConstr (σIB' (.app ao as) o1 o2) 0 = .elim (Ty.app ao as).toTerm [P1 o1, P2 o2] false := rfl
  simp only [hg']
  have e3 : matchFuel (σIB' (.app ao as) o1 o2) = 80 := rfl
  have k1 := match3_keep_iff L (σIB' (.app ao as) o1 o2) 80 (.app ao as) (P1 o1)
    (patFree_σIB' _ o1 o2 _ (by simp [P1, Term.vars, Term.varsL])) (by omega)
  have k2 := match3_keep_iff L (σIB' (.app ao as) o1 o2) 80 (.app ao as) (P2 o2)
    (patFree_σIB' _ o1 o2 _ (by simp [P2, Term.vars, Term.varsL])) (by omega)
  rw [P1_eq, fitsB_flat wf ao as o1 1 1 h0 h1, ← P1_eq] at k1
  rw [P2_eq, fitsB_flat wf ao as o2 2 2 h0 h2, ← P2_eq] at k2
  rw [e3]
  simp only [List.filter_cons, List.filter_nil, k1, k2]
  have hlen := (wfTy_app hw).1
  generalize hc : List.all [P1 o1, P2 o2] _ = cnd
  have hcnd : cnd = true := by rw [← hc]; rfl
  subst hcnd
  unfold ownAfter
  by_cases c1 : ao = o1
  · subst c1
    have c2 : (ao == o2) = false := by simpa using ops.ne
    rw [ops.a1] at hlen
    simp only [beq_self_eq_true, if_true, c2, Bool.false_eq_true, if_false]
    have e4 : setConstr (σIB' (.app ao as) ao o2) 0 (.elim (Ty.app ao as).toTerm [P1 ao] true) =
        σK (.app ao as) [P1 ao] := rfl
    have e5 : P1 ao = .app ao (varsFrom 1 as.length) := by rw [hlen]; rfl
    rw [e4, e5, unify_own L wf x ao as 1 h0 (by omega) (by omega) (by omega), Tfv.toTerm_app]
    simp only [Bool.and_self, Bool.not_true, Bool.false_eq_true, if_false, if_true]
    rw [own_drop L ao as _ 1 (by omega), checkList]
  · have c1' : (ao == o1) = false := by simpa using c1
    by_cases c2 : ao = o2
    · subst c2
      rw [ops.a2] at hlen
      simp only [c1', beq_self_eq_true, if_true, Bool.false_eq_true, if_false, c1]
      have e4 : setConstr (σIB' (.app ao as) o1 ao) 0 (.elim (Ty.app ao as).toTerm [P2 ao] true) =
          σK (.app ao as) [P2 ao] := rfl
      have e5 : P2 ao = .app ao (varsFrom 2 as.length) := by rw [hlen]; rfl
      rw [e4, e5, unify_own L wf x ao as 2 h0 (by omega) (by omega) (by omega), Tfv.toTerm_app]
      simp only [Bool.and_self, Bool.not_true, Bool.false_eq_true, if_false, if_true]
      rw [own_drop L ao as _ 2 (by omega), checkList]
    · have c2' : (ao == o2) = false := by simpa using c2
      simp only [c1', c2', Bool.false_eq_true, if_false, c1, c2]
      rw [Tfv.toTerm_app]
      rfl

end Tfv.C06B
