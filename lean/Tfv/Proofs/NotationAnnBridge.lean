import Tfv.Proofs.NotationAnnTree
/-!
# The annotation-free syntax of `Spec/Notation.lean` inside the syntax with annotations

`toA` embeds application trees, `embedS` spines; the renderings and their tokens coincide
(`atoks_renderA_toA`), so the theorems of `NotationAnn*` speak about the same token lists as `Props/C13.lean`.
-/
namespace Tfv.NotationAnn
open Tfv Tfv.Notation

def toA : Tree → ATree
  | .op n => .op n
  | .src => .src
  | .input k => .input k
  | .app f x => .app (toA f) (toA x)

mutual
def embed : Item → AItem
  | .op n => .op n
  | .src => .src
  | .input k => .input k
  | .group ss => .group (embedG ss)
def embedS : List Item → List AItem
  | [] => []
  | i :: is => embed i :: embedS is
def embedG : List (List Item) → List (List AItem)
  | [] => []
  | s :: ss => embedS s :: embedG ss
end

mutual
theorem atoks_embed (L : Lang) : ∀ it : Item, atoksItem L (embed it) = toksItem it
  | .op n => by simp only [embed, atoksItem, toksItem]
  | .src => by simp only [embed, atoksItem, toksItem]
  | .input k => by simp only [embed, atoksItem, toksItem]
  | .group ss => by simp only [embed, atoksItem, toksItem, atoksGroup_embedG L ss]
theorem atoks_embedS (L : Lang) : ∀ sp : List Item, atoks L (embedS sp) = toks sp
  | [] => by simp only [embedS, atoks, toks]
  | i :: is => by simp only [embedS, atoks, toks, atoks_embed L i, atoks_embedS L is]
theorem atoksGroup_embedG (L : Lang) : ∀ ss : List (List Item), atoksGroup L (embedG ss) = toksGroup ss
  | [] => by simp only [embedG, atoksGroup, toksGroup]
  | s :: ss => by simp only [embedG, atoksGroup, toksGroup, atoks_embedS L s, atoksSeps_embedG L ss]
theorem atoksSeps_embedG (L : Lang) : ∀ ss : List (List Item), atoksSeps L (embedG ss) = toksSeps ss
  | [] => by simp only [embedG, atoksSeps, toksSeps]
  | s :: ss => by simp only [embedG, atoksSeps, toksSeps, atoks_embedS L s, atoksSeps_embedG L ss]
end

theorem embedS_append (a b : List Item) : embedS (a ++ b) = embedS a ++ embedS b := by
  induction a with
  | nil => simp only [List.nil_append, embedS]
  | cons i a ih => simp only [List.cons_append, embedS, ih]

theorem embed_argItem (t : Tree) (s : List Item) : embed (argItem t s) = argA (toA t) (embedS s) := by
  cases t <;> simp only [argItem, toA, argA, embed, embedG]

theorem juxtaA_toA (t : Tree) : juxtaA (toA t) = embedS (juxta t) := by
  induction t with
  | op n => simp only [toA, juxtaA, juxta, embedS, embed]
  | src => simp only [toA, juxtaA, juxta, embedS, embed]
  | input k => simp only [toA, juxtaA, juxta, embedS, embed]
  | app f x ihf ihx => simp only [toA, juxtaA, juxta, embedS_append, embedS, embed_argItem, ihf, ihx]

theorem binaryA_toA (t : Tree) : binaryA (toA t) = embedS (binary t) := by
  induction t with
  | op n => simp only [toA, binaryA, binary, embedS, embed]
  | src => simp only [toA, binaryA, binary, embedS, embed]
  | input k => simp only [toA, binaryA, binary, embedS, embed]
  | app f x ihf ihx => simp only [toA, binaryA, binary, embedS, embed_argItem, ihf, ihx]

theorem parenA_toA (t : Tree) : parenA (toA t) = embedS (paren t) := by
  induction t with
  | op n => simp only [toA, parenA, paren, embedS, embed]
  | src => simp only [toA, parenA, paren, embedS, embed]
  | input k => simp only [toA, parenA, paren, embedS, embed]
  | app f x ihf ihx => simp only [toA, parenA, paren, embedS, embed, embedG, ihf, ihx]

theorem withArgs_embed (h : Item) (args : List (List Item)) :
    withArgs [embed h] (embedG args) = embedS (headWith h args) := by
  cases args with
  | nil => simp only [embedG, withArgs, headWith, embedS]
  | cons a as => simp only [embedG, withArgs, headWith, embedS, embed, List.cons_append, List.nil_append]

theorem callA_toA (t : Tree) : ∀ args : List (List Item), callA (toA t) (embedG args) = embedS (callAux t args) := by
  induction t with
  | op n => intro args; simp only [toA, callA, callAux]; exact withArgs_embed (.op n) args
  | src => intro args; simp only [toA, callA, callAux]; exact withArgs_embed .src args
  | input k => intro args; simp only [toA, callA, callAux]; exact withArgs_embed (.input k) args
  | app f x ihf ihx =>
    intro args
    simp only [toA, callA, callAux]
    have hx := ihx []
    simp only [embedG] at hx
    rw [hx]
    exact ihf (callAux x [] :: args)

theorem renderA_toA (s : Style) (t : Tree) : renderA s (toA t) = embedS (render s t) := by
  cases s with
  | juxta => exact juxtaA_toA t
  | binary => exact binaryA_toA t
  | paren => exact parenA_toA t
  | call => exact callA_toA t []

/-- the tokens are those of `Notation.render` -/
theorem atoks_renderA_toA (L : Lang) (s : Style) (t : Tree) : atoks L (renderA s (toA t)) = toks (render s t) := by
  rw [renderA_toA, atoks_embedS]

theorem aOkT_toA (t : Tree) (h : namesOkT t = true) : aOkT noTy (toA t) = true := by
  induction t with
  | op n => simpa only [toA, aOkT, namesOkT] using h
  | src => rfl
  | input k => rfl
  | app f x ihf ihx =>
    simp only [namesOkT, Bool.and_eq_true] at h
    simp only [toA, aOkT, ihf h.1, ihx h.2, Bool.and_self]

end Tfv.NotationAnn
