import Tfv.Model
import Tfv.Proofs.Closure
/-!
# C09 — depends is the transitive closure of from
Statements only.
-/
namespace Tfv.C09
open Tfv

/-- one or more `from` edges -/
inductive TC (r : Rel) : Nat → Nat → Prop
  | base {a b} : (a, b) ∈ r → TC r a b
  | step {a b c} : (a, b) ∈ r → TC r b c → TC r a c

/-- invariant: `depends` is exactly the transitive closure of `from` -/
def Closed (g : FD) : Prop := ∀ s t, (s, t) ∈ g.dep ↔ TC g.frm s t

/-- `TC` is the relation `Tfv.TC'` the helper lemmas of `Tfv.Proofs.Closure` are about -/
theorem TC_iff {r : Rel} {a b : Nat} : TC r a b ↔ TC' r a b := by
  constructor
  · intro h
    induction h with
    | base hm => exact .base hm
    | step hm _ ih => exact .step hm ih
  · intro h
    induction h with
    | base hm => exact .base hm
    | step hm _ ih => exact .step hm ih

theorem Closed_iff {g : FD} : Closed g ↔ Closed' g :=
  forall_congr' fun _ => forall_congr' fun _ => iff_congr Iff.rfl TC_iff

/-- `transitive_objects(b, from)` of rdflib: `b` itself and everything reachable from it -/
theorem C09_transitiveObjects (f : Rel) (b x : Nat) :
    x ∈ transitiveObjects f b ↔ (x = b ∨ TC f b x) := by
  rw [TC_iff]; exact mem_transitiveObjects f b x

/-- one `add_from` step keeps the invariant, in the plain and in the recursive branch,
whatever the graph looks like (cycles allowed) -/
theorem C09_step (g : FD) (a b : Nat) (recursive : Bool) (h : Closed g) :
    Closed (addFrom g a b recursive) :=
  Closed_iff.2 (addFrom_closed g a b recursive (Closed_iff.1 h))

/-- every graph reachable from the empty graph by any sequence of `add_from` calls,
in any order, satisfies `depends = TC(from)` -/
theorem C09_all (es : List (Nat × Nat × Bool)) :
    Closed (es.foldl (fun g e => addFrom g e.1 e.2.1 e.2.2) {}) :=
  Closed_iff.2 (foldl_closed es {} closed_empty)

example : (addFrom (addFrom {} 1 2 false) 2 3 false).dep = [(1, 2), (2, 3), (1, 3)] := by decide
example : (addFrom (addFrom {} 2 3 false) 1 2 true).dep = [(2, 3), (1, 2), (1, 3)] := by decide

end Tfv.C09
