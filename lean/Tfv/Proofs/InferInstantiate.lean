import Tfv.Proofs.InferMain
/-!
# `TypeSchema.instance()` for schemas without constraints (C03)
-/
namespace Tfv.C03P

theorem step_foldl_newVar {L : Lang} {α : Type} (wc : Bool) : ∀ (l : List α) (σ : Store),
    OkStore L σ → NoConstraints σ →
    Step L σ (l.foldl (fun σ _ => (newVar σ wc).1) σ) ∧
    (l.foldl (fun σ _ => (newVar σ wc).1) σ).vars.length = σ.vars.length + l.length
  | [], σ, ok, nc => ⟨Step.refl ok nc, rfl⟩
  | _ :: l, σ, ok, nc => by
    have s1 := step_newVar (L := L) ok nc wc
    obtain ⟨s2, hl⟩ := step_foldl_newVar wc l (newVar σ wc).1 s1.ok s1.nc
    refine ⟨s1.trans s2, ?_⟩
    simp only [List.foldl_cons, List.length_cons]
    rw [hl, length_newVar]; omega

theorem step_allocVars {L : Lang} {σ : Store} (ok : OkStore L σ) (nc : NoConstraints σ) (nvars nwild : Nat) :
    Step L σ (allocVars σ nvars nwild) ∧
    (allocVars σ nvars nwild).vars.length = σ.vars.length + nvars + nwild := by
  unfold allocVars
  simp only []
  obtain ⟨s1, h1⟩ := step_foldl_newVar (L := L) false (List.range nvars) σ ok nc
  obtain ⟨s2, h2⟩ := step_foldl_newVar (L := L) true (List.range nwild) _ s1.ok s1.nc
  refine ⟨s1.trans s2, ?_⟩
  rw [h2, h1, List.length_range, List.length_range]

mutual
theorem okTerm_shift {L : Lang} {σ : Store} {k base : Nat} (h : base + k ≤ σ.vars.length) :
    ∀ t, okTermN L k t = true → okTerm L σ (t.shift base) = true
  | .var v, ht => by
    unfold okTermN at ht
    rw [Term.shift]
    apply okTerm_var.mpr
    have : v < k := by simpa using ht
    omega
  | .app o args, ht => by
    unfold okTermN at ht
    simp only [Bool.and_eq_true, decide_eq_true_eq, beq_iff_eq] at ht
    rw [Term.shift]
    exact okTerm_app.mpr ⟨ht.1.1, by rw [length_shiftL]; exact ht.1.2, okTermL_shift h args ht.2⟩
theorem okTermL_shift {L : Lang} {σ : Store} {k base : Nat} (h : base + k ≤ σ.vars.length) :
    ∀ ts, okTermNL L k ts = true → okTermL L σ (Term.shiftL base ts) = true
  | [], _ => by rw [Term.shiftL]; exact okTermL_nil
  | t :: ts, ht => by
    rw [okTermNL, Bool.and_eq_true] at ht
    rw [Term.shiftL]
    exact okTermL_cons.mpr ⟨okTerm_shift h t ht.1, okTermL_shift h ts ht.2⟩
theorem length_shiftL {base : Nat} : ∀ ts, (Term.shiftL base ts).length = ts.length
  | [] => by rw [Term.shiftL]
  | t :: ts => by rw [Term.shiftL]; simp [length_shiftL ts]
end

/-! ## `spineFollow` keeps meaning and well-formedness -/

theorem den_spineFollow {L : Lang} {ρ : Val} {σ : Store} (h : Sat L ρ σ) (t : Term) :
    den ρ (spineFollow σ t) = den ρ t := by
  fun_induction spineFollow σ t with
  | case1 o l r ho ih =>
    have hl : den ρ (match l with | .var v => followT σ (.var v) | t => t) = den ρ l := by
      cases l with
      | var v => exact den_followT h _
      | app p args => rfl
    rw [den_app, den_app, denL_cons, denL_cons, denL_cons, denL_cons, ih]
    exact congrArg (fun x => Ty.app o [x, den ρ r]) hl
  | case2 => rfl
  | case3 v => exact den_followT h _
  | case4 => rfl

theorem okTerm_spineFollow {L : Lang} {σ : Store} (ok : OkStore L σ) (t : Term)
    (ht : okTerm L σ t = true) : okTerm L σ (spineFollow σ t) = true := by
  fun_induction spineFollow σ t with
  | case1 o l r ho ih =>
    obtain ⟨h1, h2, h3⟩ := okTerm_app.mp ht
    obtain ⟨hl, h4⟩ := okTermL_cons.mp h3
    obtain ⟨hr, h5⟩ := okTermL_cons.mp h4
    refine okTerm_app.mpr ⟨h1, h2, okTermL_cons.mpr ⟨?_, okTermL_cons.mpr ⟨ih hr, h5⟩⟩⟩
    cases l with
    | var v => exact okTerm_followT ok _ hl
    | app p args => exact hl
  | case2 => exact ht
  | case3 v => exact okTerm_followT ok _ ht
  | case4 => exact ht

theorem instantiate_sound {L : Lang} (wf : WF L) {n : Nat} {σ σ' : Store} {s : Schema} {f : Term}
    (ok : OkStore L σ) (nc : NoConstraints σ) (hc : s.constraints = [])
    (hbody : okTermN L (s.nvars + s.nwild) s.body = true)
    (h : instantiate L n σ s = .ok (σ', f)) :
    OkStore L σ' ∧ NoConstraints σ' ∧ σ.vars.length + s.nvars + s.nwild ≤ σ'.vars.length ∧
    (∀ t, okTerm L σ t = true → okTerm L σ' t = true) ∧ okTerm L σ' f = true ∧
    ∀ ρ, Sat L ρ σ' → Sat L ρ σ ∧ den ρ f = den ρ (s.body.shift σ.vars.length) := by
  have e : instantiate L n σ s =
      fix L n (allocVars σ s.nvars s.nwild)
        (spineFollow (allocVars σ s.nvars s.nwild) (s.body.shift σ.vars.length)) true := by
    unfold instantiate
    simp only [hc, addConstraints]
  rw [e] at h
  obtain ⟨s1, hlen⟩ := step_allocVars (L := L) ok nc s.nvars s.nwild
  obtain ⟨h1, h2, h3, _, h5, h6⟩ := fix_sound wf s1.ok s1.nc
    (okTerm_spineFollow s1.ok _ (okTerm_shift (by rw [hlen]; omega) s.body hbody)) h
  refine ⟨h1, h2, by omega, fun t ht => okTerm_mono (Nat.le_trans s1.len h3) t ht, h5, fun ρ hρ => ?_⟩
  exact ⟨s1.sat ρ (h6 ρ hρ).1, (h6 ρ hρ).2.trans (den_spineFollow (h6 ρ hρ).1 _)⟩

end Tfv.C03P
