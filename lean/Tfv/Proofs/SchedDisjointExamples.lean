import Tfv.Proofs.SchedDisjointReach
import Tfv.Proofs.FrameConstrExamples
/-!
# C18 — constraints over disjoint variables: kernel-checked examples

* `schemaDisj`: `x ** y ** G(x, y) [x << [A, F(w)], y << [B, F(u)]]` — two constraints over the disjoint variable sets
  `{x, w}` and `{y, u}`; run under both priority orders (same result, same error).
* `schemaId`: `x ** y ** y [x << [A, B], y <= A]` — disjoint as well, but applied to the NON-concrete argument `y` (its
  own second variable) the first application identifies `x` and `y`, their constraint sets are merged and the outcome
  depends on the order.
-/
namespace Tfv.C18D
open Tfv Tfv.C03P Tfv.C16P Tfv.C03C Tfv.C18P Tfv.C16C Tfv.C18S

/-! ## the canonical colouring of the schema variables -/

mutual
/-- the variable occurs in the term -/
def occB (v : Nat) : Term → Bool
  | .var w => w == v
  | .app _ args => occLB v args
def occLB (v : Nat) : List Term → Bool
  | [] => false
  | t :: ts => occB v t || occLB v ts
end

def cAstOccB (v : Nat) : CAst → Bool
  | .sub r t _ => occB v r || occB v t
  | .elim r alts => occB v r || occLB v alts

/-- the number of the first constraint that mentions the variable (the number of constraints if none does) -/
def firstCol (cs : List CAst) (v : Nat) : Nat := cs.findIdx (cAstOccB v)

/-- the constraints of the schema are pairwise variable-disjoint (alternatives included) and all its variables are
schema variables: `disjointByB` for the canonical colouring -/
def disjointSchemaB (s : Schema) : Bool := disjointByB (firstCol s.constraints) s

/-! ## a two-constraint schema inside the fragment -/

/-- `x ** y ** G(x, y) [x << [A, F(w)], y << [B, F(u)]]` (variables `x, y, w, u` = 0, 1, 2, 3) -/
def schemaDisj : Schema := ⟨4, 0, .app 4 [.var 0, .app 4 [.var 1, .app 8 [.var 0, .var 1]]],
  [.elim (.var 0) [.app 5 [], .app 7 [.var 2]], .elim (.var 1) [.app 6 [], .app 7 [.var 3]]]⟩

theorem schemaDisj_disjoint : disjointSchemaB schemaDisj = true := by decide

theorem schemaDisj_by_parity : disjointByB (fun v => v % 2) schemaDisj = true := by decide

/-- applied to `F(A)`, `F(B)`: the result is `G(F(A), F(B))` under both orders -/
theorem exDisj_ok_01 : resultIs (runS langAB (priorityOrd [0, 1]) 4000 schemaDisj
    [.app 7 [.app 5 []], .app 7 [.app 6 []]]) (.app 8 [.app 7 [.app 5 []], .app 7 [.app 6 []]]) = true := by
  rw [runS_eq_runK]; decide +kernel

theorem exDisj_ok_10 : resultIs (runS langAB (priorityOrd [1, 0]) 4000 schemaDisj
    [.app 7 [.app 5 []], .app 7 [.app 6 []]]) (.app 8 [.app 7 [.app 5 []], .app 7 [.app 6 []]]) = true := by
  rw [runS_eq_runK]; decide +kernel

/-- applied to `F(A)`, `A`: the second constraint is violated, under both orders -/
theorem exDisj_err_01 : errOf (runS langAB (priorityOrd [0, 1]) 4000 schemaDisj
    [.app 7 [.app 5 []], .app 5 []]) = some .constraintViolation := by
  rw [runS_eq_runK]; decide +kernel

theorem exDisj_err_10 : errOf (runS langAB (priorityOrd [1, 0]) 4000 schemaDisj
    [.app 7 [.app 5 []], .app 5 []]) = some .constraintViolation := by
  rw [runS_eq_runK]; decide +kernel

/-- both constraints are pending after the instantiation -/
theorem exDisj_inst_ok : isOk (instantiateS langAB (priorityOrd [1, 0]) 4000 {} schemaDisj) = true := by
  rw [instantiateS_eq_K]; decide +kernel

/-! ## just outside the fragment -/

/-- `x ** y ** y [x << [A, B], y <= A]`: two constraints over the disjoint variables `x` and `y` -/
def schemaId : Schema := ⟨2, 0, .app 4 [.var 0, .app 4 [.var 1, .var 1]],
  [.elim (.var 0) [.app 5 [], .app 6 []], .sub (.var 1) (.app 5 []) false]⟩

theorem schemaId_disjoint : disjointSchemaB schemaId = true := by decide

/-- the argument `y` (the schema's own second variable; not a concrete type), then `F(B)`: the first application binds
`y := x` and merges the two constraint sets, the second violates both constraints -/
theorem exId_01 : errOf (runS langAB (priorityOrd [0, 1]) 4000 schemaId [.var 1, .app 7 [.app 6 []]])
    = some .constraintViolation := by
  rw [runS_eq_runK]; decide +kernel

theorem exId_10 : errOf (runS langAB (priorityOrd [1, 0]) 4000 schemaId [.var 1, .app 7 [.app 6 []]])
    = some .typeMismatch := by
  rw [runS_eq_runK]; decide +kernel

/-- with concrete arguments `B`, `F(B)` the same schema gives the same error under both orders -/
theorem exId_closed : errOf (runS langAB (priorityOrd [0, 1]) 4000 schemaId [.app 6 [], .app 7 [.app 6 []]])
      = some .typeMismatch ∧
    errOf (runS langAB (priorityOrd [1, 0]) 4000 schemaId [.app 6 [], .app 7 [.app 6 []]])
      = some .typeMismatch := by
  constructor <;> (rw [runS_eq_runK]; decide +kernel)

/-- `schemaTwo` (`x ** x [x << [A, B], x <= A]`, the counterexample of `C18.lean`): both constraints mention `x` -/
theorem schemaTwo_not_disjoint : ∀ sc : Nat → Nat, disjointByB sc schemaTwo = false := by
  intro sc
  by_cases h : sc 0 = 0
  · simp [disjointByB, schemaTwo, constraintsColB, cAstColB, termColB, termsColB, h]
  · simp [disjointByB, schemaTwo, constraintsColB, cAstColB, termColB, termsColB, h]

/-! ## the store `σCC` of the C16 examples: two variables, each with its own pending constraint -/

theorem σCC_kAlloc : KAlloc σCC := by
  intro v hv
  match v, hv with
  | 0, _ => decide
  | 1, _ => decide

theorem σCC_one_reachable : ∀ c, ReachConstr σCC (.app 6 []) c ∨ ReachConstr σCC (.var 0) c → c = 0 := by
  have hB : ∀ v, ¬ ReachC σCC (.app 6 []) v := reachC_closed (by decide)
  intro c h
  rcases h with ⟨k, ⟨w, _, hr, _⟩, _⟩ | ⟨k, ⟨w, _, hr, e⟩, hm⟩
  · exact absurd hr (hB w)
  · have := reachC_σCC_var0 w hr
    subst this
    subst e
    simpa [σCC, getCset, getVar] using hm

/-! ## why "one UNFULFILLED constraint per set" gives no equality of stores -/

theorem checkConstraintsS_eq_K (L : Lang) (perm : List Nat) (n : Nat) (σ : Store) (v : Nat) :
    checkConstraintsS L (priorityOrd perm) n σ v =
      checkConstraintsP L (insOrd perm) (match3K L) (occursK L) n σ v := by
  rw [← (blockP L (priorityOrd perm) n).checkConstraints, match3K_funext, occursK_funext, priorityOrd_funext]

/-- `x0`, `x1`; the constraint set of `x0` holds the FULFILLED elimination constraint `0` (a no-op when re-checked) and the
pending constraint `1 : x0 <= x1` -/
def σLinger : Store :=
  { vars := [{ cset := 0 }, { cset := 1 }], csets := [[0, 1], []],
    constrs := [.elim (.app 5 []) [.app 5 []] true, .sub (.var 0) (.var 1) false false] }

def csetsOf : Except Err Store → Option (List (List Nat))
  | .ok σ => some σ.csets
  | .error _ => none

/-- re-checking the constraints of `x0`: constraint `1` binds `x0 := x1` and moves `x0` to the constraint set of `x1`; the
fulfilled constraint `0` is dropped from the set `x0` points to AT THAT MOMENT — its old set under the order (0, 1), its new
set under (1, 0). The old (now abandoned) set differs. -/
theorem exLinger_01 : csetsOf (checkConstraintsS langAB (priorityOrd [0, 1]) 100 σLinger 0) = some [[1], []] := by
  rw [checkConstraintsS_eq_K]; decide +kernel

theorem exLinger_10 : csetsOf (checkConstraintsS langAB (priorityOrd [1, 0]) 100 σLinger 0) = some [[0, 1], []] := by
  rw [checkConstraintsS_eq_K]; decide +kernel

end Tfv.C18D
