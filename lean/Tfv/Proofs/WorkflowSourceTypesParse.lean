import Tfv.Model.Parse
/-!
# A generic simulation lemma for the expression stack machine (`parse_expr`), two runs in lockstep

Two builders (or one builder on two states) whose four operations map related states and related
expressions to related outcomes — the same error, or related states and related expressions — make
`parse_expr` return related outcomes on the same token list. `strict = False` gives a forward simulation
(nothing is said when the first run fails).
-/
namespace Tfv.ParseSim
open Tfv

/-! ## one iteration of the loop, as a function -/

/-- `if token in "),"`: pop `y`; if there is an `x` below, push `Application(x, y)` -/
def closeStack {S E : Type} (B : Builder S E) (st : S) : List (Option E) → Except PErr (S × List (Option E))
  | [] => .error .bracketMismatch
  | none :: rest' => .ok (st, rest')
  | some _ :: [] => .error .bracketMismatch
  | some y :: none :: rest'' => .ok (st, some y :: rest'')
  | some y :: some x :: rest'' =>
    match B.mkApp st x y with
    | .error e => .error e
    | .ok (st', e) => .ok (st', some e :: rest'')

/-- the expression a token that is not punctuation stands for -/
def curExpr {S E : Type} (B : Builder S E) (inputs : List E) (defaults : Bool) (st : S) (tok : String) :
    Except PErr (S × E) :=
  if tok == "-" then .ok (B.mkSource st)
  else match parseDecimal tok with
    | some k =>
      (match lookupInput inputs k with
       | some e => .ok (st, e)
       | none => if defaults then .ok (B.mkSource st) else .error (.missingInput k))
    | none => B.mkOp st tok

/-- the current expression is pushed, or applied to by what is on top of the stack -/
def pushCur {S E : Type} (B : Builder S E) (st' : S) (current : E) : List (Option E) → Except PErr (S × List (Option E))
  | [] => .error .bracketMismatch
  | none :: below => .ok (st', some current :: below)
  | some previous :: below =>
    match B.mkApp st' previous current with
    | .error e => .error e
    | .ok (st'', e) => .ok (st'', some e :: below)

/-- `: T` -/
def annAct {S E : Type} (P : PLang) (B : Builder S E) (s : EState S E) (rest : List String) :
    Except PErr (S × List (Option E) × List String) :=
  match s.stack with
  | some previous :: below =>
    (match parseTypeLoop P false (B.varBase s.st) {} rest with
     | .error e => .error e
     | .ok (t, nfresh, rest') =>
       match B.annotate s.st previous t nfresh (s.prevTok == "-") with
       | .error e => .error e
       | .ok (st', previous') => .ok (st', some previous' :: below, rest'))
  | none :: _ => .error (.parseError "Type annotation without an expression")
  | [] => .error .bracketMismatch

/-- one iteration: the next loop state and the tokens left -/
def tokAct {S E : Type} (P : PLang) (B : Builder S E) (inputs : List E) (defaults : Bool)
    (s : EState S E) (tok : String) (rest : List String) : Except PErr (EState S E × List String) :=
  if tok == "#" then .ok ({ s with comment := true }, rest)
  else if tok == "\n" then .ok ({ s with comment := false }, rest)
  else if s.comment then .ok (s, rest)
  else if tok == "(" || tok == "," || tok == ")" then
    match (if tok == ")" || tok == "," then closeStack B s.st s.stack else .ok (s.st, s.stack)) with
    | .error e => .error e
    | .ok (st', stack') =>
      .ok ({ s with st := st', stack := if tok == "(" || tok == "," then none :: stack' else stack', prevTok := tok }, rest)
  else if tok == ":" then
    match annAct P B s rest with
    | .error e => .error e
    | .ok (st', stack', rest') => .ok ({ s with st := st', stack := stack', prevTok := tok }, rest')
  else if tok == ";" then .ok ({ s with stack := [none], prevTok := tok }, rest)
  else
    match curExpr B inputs defaults s.st tok with
    | .error e => .error e
    | .ok (st', current) =>
      match pushCur B st' current s.stack with
      | .error e => .error e
      | .ok (st'', stack'') => .ok ({ s with st := st'', stack := stack'', prevTok := tok }, rest)

theorem parseExprLoop_zero {S E : Type} (P : PLang) (B : Builder S E) (inputs : List E) (defaults : Bool)
    (s : EState S E) (toks : List String) :
    parseExprLoop P B inputs defaults 0 s toks = .error (.internal "fuel") := by
  rw [parseExprLoop]

theorem parseExprLoop_nil {S E : Type} (P : PLang) (B : Builder S E) (inputs : List E) (defaults : Bool)
    (n : Nat) (s : EState S E) : parseExprLoop P B inputs defaults (n+1) s [] = .ok s := by
  rw [parseExprLoop]
  intro h; cases h

theorem parseExprLoop_cons {S E : Type} (P : PLang) (B : Builder S E) (inputs : List E) (defaults : Bool)
    (n : Nat) (s : EState S E) (tok : String) (rest : List String) :
    parseExprLoop P B inputs defaults (n+1) s (tok :: rest) =
      match tokAct P B inputs defaults s tok rest with
      | .error e => .error e
      | .ok (s1, r1) => parseExprLoop P B inputs defaults n s1 r1 := by
  rw [parseExprLoop]
  unfold tokAct
  by_cases h1 : (tok == "#") = true
  · simp only [h1, if_true]
  simp only [h1, Bool.false_eq_true, if_false]
  by_cases h2 : (tok == "\n") = true
  · simp only [h2, if_true]
  simp only [h2, Bool.false_eq_true, if_false]
  by_cases h3 : s.comment = true
  · simp only [h3, if_true]
  simp only [h3, Bool.false_eq_true, if_false]
  by_cases h4 : (tok == "(" || tok == "," || tok == ")") = true
  · simp only [h4, if_true]
    by_cases h5 : (tok == ")" || tok == ",") = true
    · simp only [h5, if_true]
      cases hst : s.stack with
      | nil => simp only [closeStack]
      | cons y rest' =>
        cases y with
        | none => simp only [closeStack]
        | some y =>
          cases rest' with
          | nil => simp only [closeStack]
          | cons x rest'' =>
            cases x with
            | none => simp only [closeStack]
            | some x =>
              simp only [closeStack]
              cases B.mkApp s.st x y with
              | error e => rfl
              | ok p => rfl
    · simp only [h5, Bool.false_eq_true, if_false]
  simp only [h4, Bool.false_eq_true, if_false]
  by_cases h6 : (tok == ":") = true
  · simp only [h6, if_true]
    unfold annAct
    cases hst : s.stack with
    | nil => rfl
    | cons y below =>
      cases y with
      | none => rfl
      | some previous =>
        simp only []
        cases parseTypeLoop P false (B.varBase s.st) {} rest with
        | error e => rfl
        | ok r =>
          obtain ⟨t, nfresh, rest'⟩ := r
          simp only []
          cases B.annotate s.st previous t nfresh (s.prevTok == "-") with
          | error e => rfl
          | ok p => rfl
  simp only [h6, Bool.false_eq_true, if_false]
  by_cases h7 : (tok == ";") = true
  · simp only [h7, if_true]
  simp only [h7, Bool.false_eq_true, if_false]
  generalize hc : (if (tok == "-") = true then Except.ok (B.mkSource s.st) else _) = c
  have hcur : c = curExpr B inputs defaults s.st tok := hc.symm.trans rfl
  subst hcur
  clear hc
  cases curExpr B inputs defaults s.st tok with
  | error e => rfl
  | ok p =>
    obtain ⟨st', current⟩ := p
    simp only []
    cases hst : s.stack with
    | nil => simp only [pushCur]
    | cons y below =>
      cases y with
      | none => simp only [pushCur]
      | some previous =>
        simp only [pushCur]
        cases B.mkApp st' previous current with
        | error e => rfl
        | ok q => rfl

/-- a token other than `:` consumes nothing but itself -/
theorem tokAct_rest {S E : Type} {P : PLang} {B : Builder S E} {inputs : List E} {defaults : Bool}
    {s s1 : EState S E} {tok : String} {rest r1 : List String} (hne : tok ≠ ":")
    (h : tokAct P B inputs defaults s tok rest = .ok (s1, r1)) : r1 = rest := by
  have hc : (tok == ":") = false := by
    cases hb : tok == ":" with
    | false => rfl
    | true => exact absurd (beq_iff_eq.mp hb) hne
  unfold tokAct at h
  simp only [hc, Bool.false_eq_true, if_false] at h
  split at h
  · cases h; rfl
  split at h
  · cases h; rfl
  split at h
  · cases h; rfl
  split at h
  · split at h
    · cases h
    · cases h; rfl
  split at h
  · cases h; rfl
  · split at h
    · cases h
    · split at h
      · cases h
      · cases h; rfl

/-! ## related lists -/

inductive All2 {α β : Type} (R : α → β → Prop) : List α → List β → Prop
  | nil : All2 R [] []
  | cons {a : α} {b : β} {as : List α} {bs : List β} : R a b → All2 R as bs → All2 R (a :: as) (b :: bs)

theorem All2.imp {α β : Type} {R R' : α → β → Prop} (h : ∀ a b, R a b → R' a b) :
    ∀ {as : List α} {bs : List β}, All2 R as bs → All2 R' as bs
  | _, _, .nil => .nil
  | _, _, .cons hab t => .cons (h _ _ hab) (t.imp h)

theorem All2.length {α β : Type} {R : α → β → Prop} : ∀ {as : List α} {bs : List β}, All2 R as bs → as.length = bs.length
  | _, _, .nil => rfl
  | _, _, .cons _ t => by simp only [List.length_cons, t.length]

theorem All2.getElem? {α β : Type} {R : α → β → Prop} : ∀ {as : List α} {bs : List β}, All2 R as bs → ∀ (i : Nat),
    (as[i]? = none ∧ bs[i]? = none) ∨ ∃ a b, as[i]? = some a ∧ bs[i]? = some b ∧ R a b
  | _, _, .nil, i => Or.inl ⟨rfl, rfl⟩
  | _, _, .cons hab _, 0 => Or.inr ⟨_, _, rfl, rfl, hab⟩
  | _, _, .cons _ t, i+1 => by
    simp only [List.getElem?_cons_succ]
    exact t.getElem? i

theorem All2.getLast? {α β : Type} {R : α → β → Prop} {as : List α} {bs : List β} (h : All2 R as bs) :
    (as.getLast? = none ∧ bs.getLast? = none) ∨ ∃ a b, as.getLast? = some a ∧ bs.getLast? = some b ∧ R a b := by
  rw [List.getLast?_eq_getElem?, List.getLast?_eq_getElem?, h.length]
  exact h.getElem? _

/-- related optional stack entries -/
def OptRel {α β : Type} (R : α → β → Prop) : Option α → Option β → Prop
  | none, none => True
  | some a, some b => R a b
  | _, _ => False

/-! ## the premises -/

/-- related outcomes of a builder operation started in `s`: the same error (when `strict`), or related states and
related expressions, the new state being a `step` from `s` -/
def RelB {S S' E E' : Type} (strict : Prop) (Rs : S → S' → Prop) (Re : S → E → E' → Prop) (step : S → S → Prop)
    (s : S) : Except PErr (S × E) → Except PErr (S' × E') → Prop
  | .error e, r' => strict → r' = .error e
  | .ok (s1, e), r' => ∃ s1' e', r' = .ok (s1', e') ∧ Rs s1 s1' ∧ step s s1 ∧ Re s1 e e'

structure BuilderSim {S S' E E' : Type} (P : PLang) (B : Builder S E) (B' : Builder S' E') (strict ann : Prop)
    (Rs : S → S' → Prop) (Re : S → E → E' → Prop) (step : S → S → Prop) : Prop where
  refl : ∀ s, step s s
  trans : ∀ a b c, step a b → step b c → step a c
  mono : ∀ s s1 e e', step s s1 → Re s e e' → Re s1 e e'
  varBase : ann → ∀ s s', Rs s s' → B'.varBase s' = B.varBase s
  mkSource : ∀ s s', Rs s s' → Rs (B.mkSource s).1 (B'.mkSource s').1 ∧ step s (B.mkSource s).1 ∧
    Re (B.mkSource s).1 (B.mkSource s).2 (B'.mkSource s').2
  mkOp : ∀ s s' name, Rs s s' → RelB strict Rs Re step s (B.mkOp s name) (B'.mkOp s' name)
  mkApp : ∀ s s' f f' x x', Rs s s' → Re s f f' → Re s x x' →
    RelB strict Rs Re step s (B.mkApp s f x) (B'.mkApp s' f' x')
  annotate : ann → ∀ s s' prev prev' t nfresh dash toks toks', Rs s s' → Re s prev prev' →
    parseTypeLoop P false (B.varBase s) {} toks = .ok (t, nfresh, toks') →
    RelB strict Rs Re step s (B.annotate s prev t nfresh dash) (B'.annotate s' prev' t nfresh dash)

/-- related loop states -/
structure LoopSim {S S' E E' : Type} (Rs : S → S' → Prop) (Re : S → E → E' → Prop)
    (inputs : List E) (inputs' : List E') (s : EState S E) (s' : EState S' E') : Prop where
  st : Rs s.st s'.st
  stack : All2 (OptRel (Re s.st)) s.stack s'.stack
  comment : s'.comment = s.comment
  prevTok : s'.prevTok = s.prevTok
  inputs : All2 (Re s.st) inputs inputs'

/-- related outcomes with a stack -/
def RelK {S S' E E' : Type} (strict : Prop) (Rs : S → S' → Prop) (Re : S → E → E' → Prop) (step : S → S → Prop)
    (s : S) : Except PErr (S × List (Option E)) → Except PErr (S' × List (Option E')) → Prop
  | .error e, r' => strict → r' = .error e
  | .ok (s1, k), r' => ∃ s1' k', r' = .ok (s1', k') ∧ Rs s1 s1' ∧ step s s1 ∧ All2 (OptRel (Re s1)) k k'

section
variable {S S' E E' : Type} {P : PLang} {B : Builder S E} {B' : Builder S' E'} {strict ann : Prop}
  {Rs : S → S' → Prop} {Re : S → E → E' → Prop} {step : S → S → Prop}

theorem optRel_mono (H : BuilderSim P B B' strict ann Rs Re step) {s s1 : S} (hs : step s s1) :
    ∀ (a : Option E) (b : Option E'), OptRel (Re s) a b → OptRel (Re s1) a b
  | none, none, _ => trivial
  | some _, some _, h => H.mono _ _ _ _ hs h
  | none, some _, h => h.elim
  | some _, none, h => h.elim

theorem stack_mono (H : BuilderSim P B B' strict ann Rs Re step) {s s1 : S} (hs : step s s1)
    {k : List (Option E)} {k' : List (Option E')} (h : All2 (OptRel (Re s)) k k') : All2 (OptRel (Re s1)) k k' :=
  h.imp (optRel_mono H hs)

theorem inputs_mono (H : BuilderSim P B B' strict ann Rs Re step) {s s1 : S} (hs : step s s1)
    {k : List E} {k' : List E'} (h : All2 (Re s) k k') : All2 (Re s1) k k' :=
  h.imp (fun _ _ => H.mono _ _ _ _ hs)

theorem closeStack_sim (H : BuilderSim P B B' strict ann Rs Re step) {st : S} {st' : S'} (hst : Rs st st')
    {k : List (Option E)} {k' : List (Option E')} (hk : All2 (OptRel (Re st)) k k') :
    RelK strict Rs Re step st (closeStack B st k) (closeStack B' st' k') := by
  cases hk with
  | nil => intro _; rfl
  | @cons a b as bs hab t =>
    cases a with
    | none =>
      cases b with
      | some _ => exact hab.elim
      | none => exact ⟨st', bs, rfl, hst, H.refl _, t⟩
    | some y =>
      cases b with
      | none => exact hab.elim
      | some y' =>
        cases t with
        | nil => intro _; rfl
        | @cons a2 b2 as2 bs2 hab2 t2 =>
          cases a2 with
          | none =>
            cases b2 with
            | some _ => exact hab2.elim
            | none => exact ⟨st', some y' :: bs2, rfl, hst, H.refl _, .cons hab t2⟩
          | some x =>
            cases b2 with
            | none => exact hab2.elim
            | some x' =>
              have hm := H.mkApp st st' x x' y y' hst hab2 hab
              simp only [closeStack]
              cases h1 : B.mkApp st x y with
              | error e =>
                rw [h1] at hm
                intro hs
                rw [hm hs]
              | ok p =>
                obtain ⟨s1, e⟩ := p
                rw [h1] at hm
                obtain ⟨s1', e', h2, r1, r2, r3⟩ := hm
                rw [h2]
                exact ⟨s1', some e' :: bs2, rfl, r1, r2, .cons r3 (stack_mono H r2 t2)⟩

theorem lookupInput_sim {R : E → E' → Prop} {inputs : List E} {inputs' : List E'} (h : All2 R inputs inputs') (k : Nat) :
    (lookupInput inputs k = none ∧ lookupInput inputs' k = none) ∨
      ∃ a b, lookupInput inputs k = some a ∧ lookupInput inputs' k = some b ∧ R a b := by
  unfold lookupInput
  split
  · exact h.getLast?
  · exact h.getElem? _

theorem curExpr_sim (H : BuilderSim P B B' strict ann Rs Re step) {st : S} {st' : S'} (hst : Rs st st')
    {inputs : List E} {inputs' : List E'} (hin : All2 (Re st) inputs inputs') (defaults : Bool) (tok : String) :
    RelB strict Rs Re step st (curExpr B inputs defaults st tok) (curExpr B' inputs' defaults st' tok) := by
  have src : RelB strict Rs Re step st (.ok (B.mkSource st)) (.ok (B'.mkSource st')) := by
    obtain ⟨h1, h2, h3⟩ := H.mkSource st st' hst
    exact ⟨_, _, rfl, h1, h2, h3⟩
  unfold curExpr
  split
  · exact src
  · cases parseDecimal tok with
    | none => exact H.mkOp st st' tok hst
    | some k =>
      simp only []
      rcases lookupInput_sim hin k with ⟨h1, h2⟩ | ⟨a, b, h1, h2, h3⟩
      · rw [h1, h2]
        simp only []
        cases defaults with
        | true => exact src
        | false => intro _; rfl
      · rw [h1, h2]
        exact ⟨st', b, rfl, hst, H.refl _, h3⟩

theorem pushCur_sim (H : BuilderSim P B B' strict ann Rs Re step) {st : S} {st' : S'} (hst : Rs st st')
    {cur : E} {cur' : E'} (hc : Re st cur cur')
    {k : List (Option E)} {k' : List (Option E')} (hk : All2 (OptRel (Re st)) k k') :
    RelK strict Rs Re step st (pushCur B st cur k) (pushCur B' st' cur' k') := by
  cases hk with
  | nil => intro _; rfl
  | @cons a b as bs hab t =>
    cases a with
    | none =>
      cases b with
      | some _ => exact hab.elim
      | none => exact ⟨st', some cur' :: bs, rfl, hst, H.refl _, .cons hc t⟩
    | some p =>
      cases b with
      | none => exact hab.elim
      | some p' =>
        have hm := H.mkApp st st' p p' cur cur' hst hab hc
        simp only [pushCur]
        cases h1 : B.mkApp st p cur with
        | error e =>
          rw [h1] at hm
          intro hs
          rw [hm hs]
        | ok q =>
          obtain ⟨s1, e⟩ := q
          rw [h1] at hm
          obtain ⟨s1', e', h2, r1, r2, r3⟩ := hm
          rw [h2]
          exact ⟨s1', some e' :: bs, rfl, r1, r2, .cons r3 (stack_mono H r2 t)⟩

/-- related outcomes of one iteration -/
def RelA (strict : Prop) (Rs : S → S' → Prop) (Re : S → E → E' → Prop) (step : S → S → Prop)
    (inputs : List E) (inputs' : List E') (s : S) :
    Except PErr (EState S E × List String) → Except PErr (EState S' E' × List String) → Prop
  | .error e, r' => strict → r' = .error e
  | .ok (s1, r1), r' => ∃ s1', r' = .ok (s1', r1) ∧ LoopSim Rs Re inputs inputs' s1 s1' ∧ step s s1.st

theorem annAct_sim (H : BuilderSim P B B' strict ann Rs Re step) (hann : ann) {inputs : List E} {inputs' : List E'}
    {s : EState S E} {s' : EState S' E'} (h : LoopSim Rs Re inputs inputs' s s') (tok : String) (rest : List String) :
    RelA strict Rs Re step inputs inputs' s.st
      (match annAct P B s rest with
        | .error e => .error e
        | .ok (st', stack', rest') => .ok ({ s with st := st', stack := stack', prevTok := tok }, rest'))
      (match annAct P B' s' rest with
        | .error e => .error e
        | .ok (st', stack', rest') => .ok ({ s' with st := st', stack := stack', prevTok := tok }, rest')) := by
  obtain ⟨st, stack, comment, prevTok⟩ := s
  obtain ⟨st', stack', comment', prevTok'⟩ := s'
  obtain ⟨hst, hk, hcm, hpt, hin⟩ := h
  simp only [] at hst hk hcm hpt hin
  subst hcm; subst hpt
  unfold annAct
  simp only []
  rw [H.varBase hann _ _ hst]
  cases hk with
  | nil => intro _; rfl
  | @cons a b as bs hab t =>
    cases a with
    | none =>
      cases b with
      | some _ => exact hab.elim
      | none => intro _; rfl
    | some prev =>
      cases b with
      | none => exact hab.elim
      | some prev' =>
        simp only []
        cases hty : parseTypeLoop P false (B.varBase st) {} rest with
        | error e => intro _; rfl
        | ok r =>
          obtain ⟨ty, nfresh, rest'⟩ := r
          simp only []
          have hm := H.annotate hann st st' prev prev' ty nfresh (prevTok' == "-") rest rest' hst hab hty
          cases h1 : B.annotate st prev ty nfresh (prevTok' == "-") with
          | error e =>
            rw [h1] at hm
            intro hs
            rw [hm hs]
          | ok q =>
            obtain ⟨s1, e⟩ := q
            rw [h1] at hm
            obtain ⟨s1', e', h2, r1, r2, r3⟩ := hm
            rw [h2]
            exact ⟨_, rfl, ⟨r1, .cons r3 (stack_mono H r2 t), rfl, rfl, inputs_mono H r2 hin⟩, r2⟩

theorem tokAct_sim (H : BuilderSim P B B' strict ann Rs Re step) {inputs : List E} {inputs' : List E'} (defaults : Bool)
    {s : EState S E} {s' : EState S' E'} (h : LoopSim Rs Re inputs inputs' s s') (tok : String) (rest : List String)
    (hann : ann ∨ tok ≠ ":") :
    RelA strict Rs Re step inputs inputs' s.st (tokAct P B inputs defaults s tok rest)
      (tokAct P B' inputs' defaults s' tok rest) := by
  have hcm := h.comment
  unfold tokAct
  rw [hcm]
  split
  · exact ⟨_, rfl, ⟨h.st, h.stack, rfl, h.prevTok, h.inputs⟩, H.refl _⟩
  split
  · exact ⟨_, rfl, ⟨h.st, h.stack, rfl, h.prevTok, h.inputs⟩, H.refl _⟩
  split
  · exact ⟨_, rfl, ⟨h.st, h.stack, hcm, h.prevTok, h.inputs⟩, H.refl _⟩
  split
  · have hr : RelK strict Rs Re step s.st
        (if tok == ")" || tok == "," then closeStack B s.st s.stack else .ok (s.st, s.stack))
        (if tok == ")" || tok == "," then closeStack B' s'.st s'.stack else .ok (s'.st, s'.stack)) := by
      split
      · exact closeStack_sim H h.st h.stack
      · exact ⟨_, _, rfl, h.st, H.refl _, h.stack⟩
    cases h1 : (if tok == ")" || tok == "," then closeStack B s.st s.stack else .ok (s.st, s.stack)) with
    | error e =>
      rw [h1] at hr
      intro hs
      rw [hr hs]
    | ok q =>
      obtain ⟨s1, k⟩ := q
      rw [h1] at hr
      obtain ⟨s1', k', h2, r1, r2, r3⟩ := hr
      rw [h2]
      refine ⟨_, rfl, ⟨r1, ?_, rfl, rfl, inputs_mono H r2 h.inputs⟩, r2⟩
      show All2 (OptRel (Re s1)) (if tok == "(" || tok == "," then none :: k else k)
        (if tok == "(" || tok == "," then none :: k' else k')
      split
      · exact .cons trivial r3
      · exact r3
  split
  · rename_i hcolon
    have hann' : ann := hann.elim id (fun hne => absurd (beq_iff_eq.mp hcolon) hne)
    have := annAct_sim H hann' h tok rest
    rw [hcm] at this
    exact this
  split
  · exact ⟨_, rfl, ⟨h.st, .cons trivial .nil, rfl, rfl, h.inputs⟩, H.refl _⟩
  · have hc := curExpr_sim H h.st h.inputs defaults tok
    cases h1 : curExpr B inputs defaults s.st tok with
    | error e =>
      rw [h1] at hc
      intro hs
      rw [hc hs]
    | ok q =>
      obtain ⟨s1, cur⟩ := q
      rw [h1] at hc
      obtain ⟨s1', cur', h2, r1, r2, r3⟩ := hc
      rw [h2]
      simp only []
      have hp := pushCur_sim H r1 r3 (stack_mono H r2 h.stack)
      cases h3 : pushCur B s1 cur s.stack with
      | error e =>
        rw [h3] at hp
        intro hs
        rw [hp hs]
      | ok q2 =>
        obtain ⟨s2, k⟩ := q2
        rw [h3] at hp
        obtain ⟨s2', k', h4, t1, t2, t3⟩ := hp
        rw [h4]
        have st2 := H.trans _ _ _ r2 t2
        exact ⟨_, rfl, ⟨t1, t3, rfl, rfl, inputs_mono H st2 h.inputs⟩, st2⟩

/-- related outcomes of the loop -/
def RelL (strict : Prop) (Rs : S → S' → Prop) (Re : S → E → E' → Prop) (step : S → S → Prop)
    (inputs : List E) (inputs' : List E') (s : S) :
    Except PErr (EState S E) → Except PErr (EState S' E') → Prop
  | .error e, r' => strict → r' = .error e
  | .ok s1, r' => ∃ s1', r' = .ok s1' ∧ LoopSim Rs Re inputs inputs' s1 s1' ∧ step s s1.st

theorem parseExprLoop_sim (H : BuilderSim P B B' strict ann Rs Re step) {inputs : List E} {inputs' : List E'}
    (defaults : Bool) : ∀ (n : Nat) (toks : List String) (s : EState S E) (s' : EState S' E'),
    LoopSim Rs Re inputs inputs' s s' → (ann ∨ ":" ∉ toks) →
    RelL strict Rs Re step inputs inputs' s.st (parseExprLoop P B inputs defaults n s toks)
      (parseExprLoop P B' inputs' defaults n s' toks)
  | 0, toks, s, s', _, _ => by
    rw [parseExprLoop_zero, parseExprLoop_zero]
    intro _; rfl
  | n+1, [], s, s', h, _ => by
    rw [parseExprLoop_nil, parseExprLoop_nil]
    exact ⟨s', rfl, h, H.refl _⟩
  | n+1, tok :: rest, s, s', h, hann => by
    rw [parseExprLoop_cons, parseExprLoop_cons]
    have hann1 : ann ∨ tok ≠ ":" := hann.imp id (fun hn e => hn (e ▸ List.mem_cons_self))
    have ha := tokAct_sim H defaults h tok rest hann1
    cases h1 : tokAct P B inputs defaults s tok rest with
    | error e =>
      rw [h1] at ha
      intro hs
      rw [ha hs]
    | ok q =>
      obtain ⟨s1, r1⟩ := q
      rw [h1] at ha
      obtain ⟨s1', h2, l1, st1⟩ := ha
      rw [h2]
      simp only []
      have hann2 : ann ∨ ":" ∉ r1 := by
        rcases hann with ha | hn
        · exact Or.inl ha
        · have hne : tok ≠ ":" := fun e => hn (e ▸ List.mem_cons_self)
          rw [tokAct_rest hne h1]
          exact Or.inr (fun hm => hn (List.mem_cons_of_mem _ hm))
      have ih := parseExprLoop_sim H defaults n r1 s1 s1' l1 hann2
      cases h3 : parseExprLoop P B inputs defaults n s1 r1 with
      | error e =>
        rw [h3] at ih
        exact ih
      | ok s2 =>
        rw [h3] at ih
        obtain ⟨s2', h4, l2, st2⟩ := ih
        exact ⟨s2', h4, l2, H.trans _ _ _ st1 st2⟩

/-- **the simulation lemma for `parse_expr`** -/
theorem parseExprToks_sim (H : BuilderSim P B B' strict ann Rs Re step) {inputs : List E} {inputs' : List E'}
    {st0 : S} {st0' : S'} (hst : Rs st0 st0') (hin : All2 (Re st0) inputs inputs') (toks : List String)
    (hann : ann ∨ ":" ∉ toks) :
    RelB strict Rs Re step st0 (parseExprToks P B inputs st0 toks) (parseExprToks P B' inputs' st0' toks) := by
  unfold parseExprToks
  have hl := parseExprLoop_sim H false (toks.length + 1) toks { st := st0 } { st := st0' }
    ⟨hst, .cons trivial .nil, rfl, rfl, hin⟩ hann
  cases h1 : parseExprLoop P B inputs false (toks.length + 1) { st := st0 } toks with
  | error e =>
    rw [h1] at hl
    intro hs
    rw [hl hs]
  | ok s1 =>
    rw [h1] at hl
    obtain ⟨s1', h2, l1, st1⟩ := hl
    rw [h2]
    obtain ⟨q1, k1, c1, p1⟩ := s1
    obtain ⟨q1', k1', c1', p1'⟩ := s1'
    simp only []
    have hk : All2 (OptRel (Re q1)) k1 k1' := l1.stack
    have hq : Rs q1 q1' := l1.st
    have st1 : step st0 q1 := st1
    cases hk with
    | nil => intro _; rfl
    | @cons a b as bs hab t =>
      cases t with
      | nil =>
        cases a with
        | none =>
          cases b with
          | some _ => exact hab.elim
          | none => intro _; rfl
        | some e =>
          cases b with
          | none => exact hab.elim
          | some e' => exact ⟨_, _, rfl, hq, st1, hab⟩
      | cons _ _ =>
        cases a <;> cases b <;> first | exact hab.elim | (intro _; rfl)

end

end Tfv.ParseSim
