import Tfv.Model
import Tfv.Proofs.WildReachStable
import Tfv.Proofs.WildReachCert
import Tfv.Proofs.WildReachFulfill
import Tfv.Proofs.WildReachDeep
import Tfv.Proofs.WildReachMain
import Tfv.Proofs.WildReachExt
import Tfv.Proofs.WildReachMarks
import Tfv.Proofs.WildReachTop
import Tfv.Proofs.WildReachInst
import Tfv.Proofs.WildReachRun
import Tfv.Props.C03Wild
/-!
# C03 with wildcards: does every reachable store pass the certificate `subsStrictB`? (open part of C03Wild)

Settled here (proofs in `Tfv/Proofs/WildReach*.lean`, namespace `Tfv.C03X`):
* NO, not literally: `C03x_reach_cert_fails` is a run from the empty store, without any wildcard, whose final store fails
  the certificate. It is an artifact of the certificate's fuel (`matchFuel = 4·|vars| + 64`): `(x ** x)[x ≤ x]` applied to the
  closed type `F^70(A)`; the mark is right, the strict matcher runs out of fuel comparing `F^70(A)` with itself. Python's
  `match` has no such bound. Every statement below therefore carries a depth proviso (`ReflD`).
* stability (step 2 of the task): `C03x_strict_stable_partial`, with `C03x_strict_fuel_mono`;
* the test of `fulfill` IS the strict test when at most one variable is flagged as a wildcard (`C03x_engine_test_is_strict`),
  hence a `fulfill` that marks in such a store marks rightly (`C03x_fulfill_mark_strict_partial`): the part of step 1 that
  does not need an induction over `unify`;
* the inductive step and the end-to-end statement with their remaining hypotheses spelled out
  (`C03x_cert_step_partial`, `C03x_reach_cert_partial`).
* `Ext` (bindings are kept) through the whole engine on EVERY store (`C03x_unify_keeps_bindings`, …): in C03Resolved it is
  proved under `NoWild` only because `NoWild` sits in the precondition threaded through that induction;
* AT MOST ONE WILDCARD IN THE WHOLE RUN: closed. An induction over the whole engine (`Tfv/Proofs/WildReachMarks.lean`) shows
  that started with at most one flagged variable every mark was set when the STRICT matcher answered `some true`; with
  stability: `C03x_reach_marks_strict_partial` (the run of the task), `C03x_wrun_marks_strict_partial` (wildcard arguments as in
  `wrun`), and the clause of C03 itself, `C03x_reach_marks_hold_partial`. The only proviso left is the depth of the bindings.
Open: two or more wildcards (step 1 in general and step 3, the skeleton branch).
-/
namespace Tfv.C03
open Tfv Tfv.C03P Tfv.C03C Tfv.C03R Tfv.C03X Tfv.C17E

/-- The literal end-to-end statement FAILS in the model: instantiate `(x ** x)[x ≤ x]` (no wildcards) in the empty store,
apply it to the closed type `F^70(A)`; the run succeeds, the constraint is marked fulfilled (rightly), and the final store
does not pass `subsStrictB`: with one variable the matcher has fuel 68 and answers `none` on `F^70(A)` against itself.
(A finding about the model's fuel; with the argument `F^60(A)` the certificate holds: `run_refl_shallow`.) -/
theorem C03x_reach_cert_fails :
    ∃ σ1 f σ' r, instantiate exL 400 {} sRefl = .ok (σ1, f) ∧ okTermL exL σ1 [deepT 70 (.app 5 [])] = true ∧
      applyAll exL 400 true σ1 f [deepT 70 (.app 5 [])] = .ok (σ', r) ∧ subsStrictB exL σ' = false :=
  reach_cert_fails

/-- `match3 … = some true` is kept by more fuel (any store, any flags). FULL. -/
theorem C03x_strict_fuel_mono (L : Lang) (σ : Store) (st aw : Bool) (n m : Nat) (hnm : n ≤ m) (a b : Term)
    (h : match3 L σ n st aw a b = some true) : match3 L σ m st aw a b = some true :=
  match3_true_fuel_le L σ st aw hnm a b h

example : match3 exL σW 70 true false (.var 0) (.var 1) = some true :=
  C03x_strict_fuel_mono exL σW true false 68 70 (by decide) _ _
    ((C03w_match3_distinct_true_iff exL σW 67 true (.var 0) (.var 1) 0 1 rfl rfl (by decide)).mpr ⟨rfl, rfl⟩)

/-- Stability of the strict matcher: if it answers `some true` on `a`, `b` in `σ` with fuel `n`, it answers `some true` in
every later store `σ'` (`Ext`: bindings are kept; `Chains`: the fuel of `followT` suffices) with every fuel `m ≥ n + d`, where
`d` bounds the depth of the bindings of `σ'` (`ReflD`: every variable matches itself with every fuel above `d`).
PARTIAL: the depth proviso is necessary (`C03x_reach_cert_fails`); it is decidable (`reflDB`, `C03x_reflDB_sound`). -/
theorem C03x_strict_stable_partial (L : Lang) (σ σ' : Store) (st : Bool) (d n m : Nat) (e : Ext σ σ')
    (hc' : Chains σ') (hr : ReflD L (dewild σ') st d) (hfuel : n + d ≤ m) (a b : Term)
    (h : match3 L (dewild σ) n st false a b = some true) :
    match3 L (dewild σ') m st false a b = some true :=
  strict_stable e hc' hr hfuel a b h

/-- the executable form of the depth proviso is sound -/
theorem C03x_reflDB_sound (L : Lang) (σ : Store) (st : Bool) (d : Nat) (h : reflDB L σ st d = true) : ReflD L σ st d :=
  reflDB_sound h

/-- the same on wildcard-free stores, without `dewild` -/
theorem C03x_match3_true_ext_partial (L : Lang) (σ σ' : Store) (st : Bool) (d : Nat) (nw : NoWild σ) (e : Ext σ σ')
    (hc' : Chains σ') (hr : ReflD L σ' st d) (n : Nat) (a b : Term)
    (h : match3 L σ n st false a b = some true) : match3 L σ' (n+d) st false a b = some true :=
  match3_true_ext nw e hc' hr n a b h

example : NoWild {} ∧ Ext {} {} ∧ Chains {} ∧ ReflD exL {} true 0 ∧
    match3 exL {} 1 true false (.var 0) (.var 0) = some true :=
  ⟨noWild_empty, Ext.refl _, chains_empty, reflDK_sound (by decide +kernel),
   by rw [← Tfv.C18P.match3K_eq]; decide +kernel⟩

/-- When at most one variable of the store is flagged as a wildcard, the test `fulfill` makes and the strict test agree
(`C03w_strict_implies_engine_test` is the other direction, on every store). FULL. -/
theorem C03x_engine_test_is_strict (L : Lang) (σ : Store) (st : Bool) (hw : WildLe1 σ) (n : Nat) (a b : Term)
    (h : match3 L σ n st false a b = some true) : match3 L (dewild σ) n st false a b = some true :=
  match3_engine_imp_strict L σ st hw n a b h

theorem C03x_wildLe1B_sound (σ : Store) (h : wildLe1B' σ = true) : WildLe1 σ := wildLe1B'_sound h

/-- non-vacuity: one flagged variable, compared with itself -/
example : WildLe1 σ1w ∧ match3 exL σ1w 1 true false (.var 0) (.var 0) = some true ∧
    match3 exL (dewild σ1w) 1 true false (.var 0) (.var 0) = some true := by
  have hw : WildLe1 σ1w := C03x_wildLe1B_sound σ1w (by decide)
  have hm : match3 exL σ1w 1 true false (.var 0) (.var 0) = some true :=
    (C03w_match3_wild_pair_iff exL σ1w 0 true false (.var 0) (.var 0) 0 0 rfl rfl).mpr (Or.inl rfl)
  exact ⟨hw, hm, C03x_engine_test_is_strict exL σ1w true hw 1 _ _ hm⟩

/-- One successful `fulfill` of a subtype constraint whose resulting store has at most one flagged variable: either its own
test answered `some true` (it marks the record, answers `true`) and then the STRICT matcher answers `some true` on the
resulting store as well; or its test was undecided and the call is exactly the `unify` (a mark found afterwards was set by a
re-check nested in that `unify`). PARTIAL: `WildLe1 σ'`; with two or more live wildcards this needs the induction over
`unify` (open). -/
theorem C03x_fulfill_mark_strict_partial (L : Lang) (k : Nat) (σ σ' : Store) (c : Nat) (d : Bool) (ref tgt : Term)
    (s f : Bool) (hg : getConstr σ c = .sub ref tgt s f) (h : fulfill L (k+1) σ c = .ok (σ', d)) (hw : WildLe1 σ') :
    (match3 L (dewild σ') (matchFuel σ') true false ref tgt = some true ∧ d = true) ∨
    (∃ σ1, unify L k σ ref tgt true true false = .ok σ1 ∧ σ' = σ1 ∧
      match3 L σ1 (matchFuel σ1) true false ref tgt = none) :=
  fulfill_mark_strict hg h hw

/-- non-vacuity: the two wildcards of `σWs` with the pending constraint `x0 ≤ x1`: `fulfill` succeeds, answers `true`, and no
flagged variable is left -/
example : ∃ σ' d, getConstr σWs 0 = .sub (.var 0) (.var 1) false false ∧ fulfill exL (7+1) σWs 0 = .ok (σ', d) ∧
    WildLe1 σ' ∧ d = true := by
  have h := fulfill_σWs_one
  cases hr : fulfill exL 8 σWs 0 with
  | error e => rw [hr] at h; cases h
  | ok p =>
    rw [hr] at h
    unfold fulfillOneB at h
    simp only [Bool.and_eq_true] at h
    exact ⟨p.1, p.2, rfl, rfl, C03x_wildLe1B_sound p.1 h.1, h.2⟩

/-- The inductive step of "every reachable store passes the certificate": if every mark of `σ` passes the strict matcher
with fuel `n`, `σ'` is a later store, and every mark of `σ'` that is not a mark of `σ` passes the strict matcher in `σ'`,
then every mark of `σ'` passes it with fuel `m ≥ n + d`. PARTIAL: depth proviso, and the hypothesis on new marks. -/
theorem C03x_cert_step_partial (L : Lang) (σ σ' : Store) (n d m : Nat) (hs : subsStrictAt L σ n = true)
    (e : Ext σ σ') (hc' : Chains σ') (hr : ReflD L (dewild σ') true d) (hfuel : n + d ≤ m)
    (hnew : ∀ c r t s, c < σ'.constrs.length → getConstr σ' c = .sub r t s true →
      (c < σ.constrs.length ∧ getConstr σ c = .sub r t s true) ∨
      match3 L (dewild σ') m true false r t = some true) :
    subsStrictAt L σ' m = true :=
  cert_step hs e hc' hr hfuel hnew

/-- `subsStrictAt` with the fuel of the store is the certificate -/
theorem C03x_subsStrictAt_matchFuel (L : Lang) (σ : Store) : subsStrictAt L σ (matchFuel σ) = subsStrictB L σ := rfl

/-- non-vacuity of the step and of stability: the store `σWc` of C03Wild (two flagged variables, `x0 ≤ x0` marked) against itself -/
example : subsStrictAt exL σWc 1 = true ∧ Ext σWc σWc ∧ Chains σWc ∧ ReflD exL (dewild σWc) true 0 ∧
    subsStrictAt exL σWc 68 = true := by
  have h1 : subsStrictAt exL σWc 1 = true := by
    apply subsStrictAt_of
    intro c r t s hc hg
    have : c = 0 := by
      have : σWc.constrs.length = 1 := rfl
      omega
    subst this
    have e : Constr.sub (.var 0) (.var 0) false true = .sub r t s true := hg
    injection e with e1 e2 e3
    subst e1; subst e2
    rw [← Tfv.C18P.match3K_eq]; decide +kernel
  have hc : Chains σWc := chains_of_unbound (unboundB_sound (by decide))
  have hr : ReflD exL (dewild σWc) true 0 := reflDK_sound (by decide +kernel)
  exact ⟨h1, Ext.refl _, hc, hr,
    C03x_cert_step_partial exL σWc σWc 1 0 68 h1 (Ext.refl _) hc hr (by decide)
      (fun c r t s hc hg => Or.inl ⟨hc, hg⟩)⟩

/-- The end-to-end statement, as far as it is proved: for a run from the empty store the certificate of the final store
follows from (i) the certificate right after `instantiate` (with some fuel `k`), (ii) the depth proviso `k + d ≤ matchFuel σ'`,
and (iii) marks set during `applyAll` pass the strict matcher (steps 1 and 3 of the task: open in general,
`C03x_fulfill_mark_strict_partial` when at most one variable is flagged). `Chains σ'` and `Ext σ σ'` are discharged (they hold
for every run: `C03x_applyAll_keeps_bindings`). PARTIAL. -/
theorem C03x_reach_cert_partial (L : Lang) (n : Nat) (fixFlag : Bool) (s : Schema) (xs : List Term) (σ σ' : Store)
    (f r : Term) (k d : Nat) (hi : instantiate L n {} s = .ok (σ, f))
    (ha : applyAll L n fixFlag σ f xs = .ok (σ', r))
    (cert0 : subsStrictAt L σ k = true) (hr : ReflD L (dewild σ') true d)
    (hfuel : k + d ≤ matchFuel σ')
    (hnew : ∀ c r t s, c < σ'.constrs.length → getConstr σ' c = .sub r t s true →
      (c < σ.constrs.length ∧ getConstr σ c = .sub r t s true) ∨
      match3 L (dewild σ') (matchFuel σ') true false r t = some true) :
    subsStrictB L σ' = true :=
  reach_cert_partial hi ha cert0 hr hfuel hnew

/-- non-vacuity: `(x ** x)[x ≤ x]` applied to `F(F(F(A)))` (kernel-evaluated run): all hypotheses hold with `k = 1`, `d = 3` -/
example : ∃ σ f σ' r, instantiate exL 400 {} sRefl = .ok (σ, f) ∧
    applyAll exL 400 true σ f [deepT 3 (.app 5 [])] = .ok (σ', r) ∧ subsStrictAt exL σ 1 = true ∧
    ReflD exL (dewild σ') true 3 ∧ 1 + 3 ≤ matchFuel σ' ∧ subsStrictB exL σ' = true := by
  obtain ⟨σ, f, σ', r, hi, h1, _, ha, h2⟩ := Tfv.C03R.runChk2_elim run_refl_3
  simp only [Bool.and_eq_true, decide_eq_true_eq] at h1 h2
  obtain ⟨⟨⟨c1, u1⟩, l1⟩, _⟩ := h1
  obtain ⟨⟨c2, r2⟩, l2⟩ := h2
  have cert0 : subsStrictAt exL σ 1 = true := by rw [← certAtK_eq]; exact c1
  have hr := reflDK_sound r2
  have hfuel : 1 + 3 ≤ matchFuel σ' := by unfold matchFuel; omega
  have cert' : subsStrictB exL σ' = true := by rw [← certK_eq]; exact c2
  refine ⟨σ, f, σ', r, hi, ha, cert0, hr, hfuel, ?_⟩
  exact C03x_reach_cert_partial exL 400 true sRefl _ σ σ' f r 1 3 hi ha cert0 hr hfuel
    (fun c r t s hc hg => Or.inr (subsStrictAt_get (by rw [C03x_subsStrictAt_matchFuel]; exact cert') hc hg))

/-- Every operation of the engine keeps every binding (`Ext`), on EVERY store: no `NoWild`, no well-formedness. (In
`C03Resolved` this is a field of `StepR`, proved under the precondition `Pre` that contains `NoWild`.) FULL. -/
theorem C03x_unify_keeps_bindings (L : Lang) (n : Nat) (σ σ' : Store) (a b : Term) (st sb sw : Bool)
    (h : unify L n σ a b st sb sw = .ok σ') : Ext σ σ' := unify_ext h

example : Ext σWs (match fulfill exL 8 σWs 0 with | .ok (σ', _) => σ' | .error _ => σWs) := by
  cases h : fulfill exL 8 σWs 0 with
  | error e => exact Ext.refl _
  | ok p => exact fulfill_ext (σ' := p.1) (d := p.2) h

/-- … in particular `fulfill` and a chain of applications. FULL. -/
theorem C03x_fulfill_keeps_bindings (L : Lang) (n : Nat) (σ σ' : Store) (c : Nat) (d : Bool)
    (h : fulfill L n σ c = .ok (σ', d)) : Ext σ σ' := fulfill_ext h

theorem C03x_applyAll_keeps_bindings (L : Lang) (n : Nat) (fixFlag : Bool) (xs : List Term) (σ σ' : Store) (f r : Term)
    (h : applyAll L n fixFlag σ f xs = .ok (σ', r)) : Ext σ σ' := applyAll_keeps_bindings h

/-- Stability along a chain of applications, wildcards allowed: a pair of terms that passes the strict matcher before
passes it afterwards. PARTIAL: the depth proviso only. -/
theorem C03x_applyAll_strict_stable_partial (L : Lang) (fuel : Nat) (fixFlag : Bool) (xs : List Term) (σ σ' : Store)
    (f r : Term) (st : Bool) (d n m : Nat) (hc : Chains σ) (h : applyAll L fuel fixFlag σ f xs = .ok (σ', r))
    (hr : ReflD L (dewild σ') st d) (hfuel : n + d ≤ m) (a b : Term)
    (hm : match3 L (dewild σ) n st false a b = some true) :
    match3 L (dewild σ') m st false a b = some true :=
  applyAll_strict_stable hc h hr hfuel a b hm

example : Chains σWc ∧ applyAll exL 5 true σWc (.var 0) [] = .ok (σWc, .var 0) ∧ ReflD exL (dewild σWc) true 0 ∧
    match3 exL (dewild σWc) 1 true false (.var 0) (.var 0) = some true :=
  ⟨chains_of_unbound (unboundB_sound (by decide)), by unfold applyAll; rfl, reflDK_sound (by decide +kernel),
   by rw [← Tfv.C18P.match3K_eq]; decide +kernel⟩

/-- "at most one flagged variable" is inherited along the engine (flags are only cleared) -/
theorem C03x_wildLe1_mono (σ σ' : Store) (hw : WildMono σ σ') (h : WildLe1 σ) : WildLe1 σ' := wildLe1_mono hw h

/-- The skeleton-branch run of C03Wild (`x0 ** x1 ** A [x1 << [F(G(_)), A], F(G(_)) <= x1]` applied to `F(_)`, `F(G(_))`) ends with
exactly the situation `C03x_fulfill_mark_strict_partial` covers: a subtype constraint marked, a live wildcard, and at most one
flagged variable in the final store. Kernel-evaluated. -/
theorem C03x_run_skeleton_one_wild : oneWildLeft (wrun wL 60 wS1 [wArgF, wArgFG]) = true := wrun_ex1_oneWild


/-! ## At most one wildcard in the whole run: every mark is right -/

/-- A chain of applications started in a store with at most one flagged variable whose marks pass the strict matcher
(fuel `k`): every subtype record marked in the final store — before or during the chain — passes the strict matcher with fuel
`k + matchFuel σ' + d`, `d` the depth of the bindings of the final store. No well-formedness hypothesis.
PARTIAL: `WildLe1 σ`; depth proviso. -/
theorem C03x_applyAll_marks_strict_partial (L : Lang) (n : Nat) (fixFlag : Bool) (xs : List Term) (σ σ' : Store)
    (f r : Term) (k d : Nat) (hc : Chains σ) (ha : applyAll L n fixFlag σ f xs = .ok (σ', r)) (hw : WildLe1 σ)
    (cert0 : subsStrictAt L σ k = true) (hr : ReflD L (dewild σ') true d) :
    subsStrictAt L σ' (k + matchFuel σ' + d) = true :=
  applyAll_marks_strict hc ha hw cert0 hr

example : Chains σWs ∧ applyAll exL 5 true σWs (.var 0) [] = .ok (σWs, .var 0) ∧ subsStrictAt exL σWs 1 = true ∧
    ReflD exL (dewild σWs) true 0 :=
  ⟨chains_of_unbound (unboundB_sound (by decide)), by unfold applyAll; rfl,
   by rw [← certAtK_eq]; decide +kernel, reflDK_sound (by decide +kernel)⟩

/-- The run of the task for a schema with AT MOST ONE wildcard (arguments: terms over the instance's variables): instantiate
in the empty store, apply; every subtype record marked fulfilled in the final store passes the strict matcher run with `d`
more fuel than the certificate `subsStrictB` uses, `d` the depth of the bindings of the final store.
PARTIAL: `s.nwild ≤ 1`; the extra fuel `d` (necessary: `C03x_reach_cert_fails`). -/
theorem C03x_reach_marks_strict_partial (L : Lang) (n : Nat) (fixFlag : Bool) (s : Schema) (xs : List Term)
    (σ σ' : Store) (f r : Term) (d : Nat) (hs : s.nwild ≤ 1)
    (hi : instantiate L n {} s = .ok (σ, f)) (ha : applyAll L n fixFlag σ f xs = .ok (σ', r))
    (hr : ReflD L (dewild σ') true d) :
    subsStrictAt L σ' (matchFuel σ' + d) = true :=
  reach_marks_strict_nwild hs hi ha hr

example : ∃ σ f σ' r, sRefl.nwild ≤ 1 ∧ instantiate exL 400 {} sRefl = .ok (σ, f) ∧
    applyAll exL 400 true σ f [deepT 3 (.app 5 [])] = .ok (σ', r) ∧ ReflD exL (dewild σ') true 3 ∧
    subsStrictAt exL σ' (matchFuel σ' + 3) = true := by
  obtain ⟨σ, f, σ', r, hi, _, _, ha, h2⟩ := Tfv.C03R.runChk2_elim run_refl_3
  simp only [Bool.and_eq_true, decide_eq_true_eq] at h2
  have hr := reflDK_sound h2.1.2
  exact ⟨σ, f, σ', r, by decide, hi, ha, hr,
    C03x_reach_marks_strict_partial exL 400 true sRefl _ σ σ' f r 3 (by decide) hi ha hr⟩

/-- Runs with wildcard ARGUMENTS (`wrun`: the schema, then each argument schema, is instantiated in the same store, then the
applications): if the schema and the arguments have at most one wildcard IN TOTAL, every subtype record marked fulfilled in
the final store passes the strict matcher with fuel `matchFuel σ' + d`. PARTIAL: one wildcard; extra fuel `d`. -/
theorem C03x_wrun_marks_strict_partial (L : Lang) (fuel : Nat) (s : Schema) (as : List Schema) (σ' : Store) (r : Term)
    (d : Nat) (ht : s.nwild + wildTotal as ≤ 1) (h : wrun L fuel s as = .ok (σ', r))
    (hr : ReflD L (dewild σ') true d) : subsStrictAt L σ' (matchFuel σ' + d) = true :=
  wrun_marks_strict ht h hr

/-- non-vacuity: `x0 ** x1 ** A [x0 <= x1]` applied to `F(_)`, `F(A)`: one wildcard, the constraint gets marked -/
example : ∃ σ' r, wS2.nwild + wildTotal [wArgF, wArgFA] ≤ 1 ∧ wrun wL 60 wS2 [wArgF, wArgFA] = .ok (σ', r) ∧
    ReflD wL (dewild σ') true 3 ∧ 0 < fulSubs σ' ∧ subsStrictAt wL σ' (matchFuel σ' + 3) = true := by
  have h := wrun_one_wild
  cases hr : wrun wL 60 wS2 [wArgF, wArgFA] with
  | error e => rw [hr] at h; cases h
  | ok p =>
    rw [hr] at h
    unfold goodOne at h
    simp only [Bool.and_eq_true, decide_eq_true_eq] at h
    have hrefl := reflDK_sound h.1.2
    exact ⟨p.1, p.2, by decide, rfl, hrefl, h.2,
      C03x_wrun_marks_strict_partial wL 60 wS2 _ p.1 p.2 3 (by decide) hr hrefl⟩

/-- The clause of C03 itself, wildcards allowed (at most one): after `instantiate` in the empty store and a successful chain
of applications, every subtype constraint marked fulfilled holds under every solution of the final store, provided the
bindings of the final store resolve within SOME depth `d` (the conclusion does not mention `d`).
PARTIAL: `s.nwild ≤ 1` replaces `NoWild` of `C03c_fulfilled_sub_holds_partial`; finite depth of the bindings. -/
theorem C03x_reach_marks_hold_partial (L : Lang) (wf : WF L) (n : Nat) (fixFlag : Bool) (s : Schema) (xs : List Term)
    (σ σ' : Store) (f r : Term) (d : Nat) (hs : s.nwild ≤ 1)
    (hcs : ∀ c, c ∈ s.constraints → okCAstN L (s.nvars + s.nwild) c = true)
    (hbody : okTermN L (s.nvars + s.nwild) s.body = true)
    (hi : instantiate L n {} s = .ok (σ, f)) (hxs : okTermL L σ xs = true)
    (ha : applyAll L n fixFlag σ f xs = .ok (σ', r)) (hr : ReflD L (dewild σ') true d) :
    OkStoreC L σ' ∧ ∀ c ref tgt st, c < σ'.constrs.length → getConstr σ' c = .sub ref tgt st true →
      ∀ ρ, Sat L ρ σ' → Sub L (den ρ ref) (den ρ tgt) :=
  reach_marks_hold wf hs hcs hbody hi hxs ha hr

example : ∃ σ f σ' r, instantiate exL 400 {} sRefl = .ok (σ, f) ∧ okTermL exL σ [deepT 3 (.app 5 [])] = true ∧
    applyAll exL 400 true σ f [deepT 3 (.app 5 [])] = .ok (σ', r) ∧ ReflD exL (dewild σ') true 3 ∧ OkStoreC exL σ' := by
  obtain ⟨σ, f, σ', r, hi, _, hxs, ha, h2⟩ := Tfv.C03R.runChk2_elim run_refl_3
  simp only [Bool.and_eq_true, decide_eq_true_eq] at h2
  have hr := reflDK_sound h2.1.2
  exact ⟨σ, f, σ', r, hi, hxs, ha, hr,
    (C03x_reach_marks_hold_partial exL exL_wf 400 true sRefl _ σ σ' f r 3 (by decide) (by decide) (by decide)
      hi hxs ha hr).1⟩

/-- more fuel keeps `subsStrictAt`; with `n ≤ matchFuel σ` it gives the certificate `subsStrictB` -/
theorem C03x_subsStrictAt_mono (L : Lang) (σ : Store) (n m : Nat) (hnm : n ≤ m) (h : subsStrictAt L σ n = true) :
    subsStrictAt L σ m = true := subsStrictAt_mono hnm h

end Tfv.C03
