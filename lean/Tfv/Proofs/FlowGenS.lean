import Tfv.Proofs.FlowGen
/-!
# C08 proofs, part 10: operations *and sources of function type* passed as arguments at any depth

The class `HofS` drops the restriction of `Hof` that a passed operation has an operator at its head: an
argument of function type may be a source, the same one several times. The layout function is the same
`flowHO`. What changes against part 9 (`FlowGen.lean`):
* the node of an argument need not be the reserved one, it may be the node of a source made long ago;
  such a node now has outgoing edges (to the internal node in front of it), so "every new edge starts at a
  new node" becomes "… or at a source node" (`SPost.edges_rng`, `SInv.edges_rng`, `SInv.node_rng`);
* no internal node may hang off a source node, or the nested rule would feed it (`SrcInt`, threaded through
  context, invariant and postcondition).
-/
namespace Tfv.C08P
open Tfv

/-- no internal node is attached to a source node (`SrcNoInt` on the core) -/
def SrcInt (k : Core) : Prop := ∀ p ∈ k.ints, ∀ s ∈ k.src, p.1 ≠ s.2

structure SPost (x : Nat) (k : Core) (e : TExpr) (r : HoRes) (k' : Core) (m : Nat) : Prop where
  node_eq : m = r.node
  next_eq : k'.nextB = r.next
  src_eq : k'.src = r.memo
  shared_eq : k'.shared = k.shared
  ints_eq : k'.ints = k.ints ++ r.ints
  frm_iff : ∀ p, p ∈ k'.frm ↔ p ∈ k.frm ∨ r.edges p
  le : k.nextB ≤ r.next
  memo_mono : ∀ p ∈ k.src, p ∈ r.memo
  memo_rng : ∀ p ∈ r.memo, p ∈ k.src ∨ p.2 = x ∨ (k.nextB ≤ p.2 ∧ p.2 < r.next)
  node_rng : r.node = x ∨ ∃ p ∈ k.src, p.2 = r.node
  node_op : ∀ name ty, headOf e = .op name ty → r.node = x
  edges_rng : ∀ p, r.edges p → (x ≤ p.1 ∨ ∃ s ∈ r.memo, s.2 = p.1) ∧ p.1 < r.next ∧ p.2 < r.next
  ints_rng : ∀ q ∈ r.ints, x ≤ q.1 ∧ q.1 < r.next ∧ k.nextB ≤ q.2 ∧ q.2 < r.next
  ints_nodup : (r.ints.map Prod.snd).Nodup
  srcint : SrcInt k'

structure SInv (n : Nat) (k0 : Core) (l : List TExpr) (k : Core) (st : HoArgs) : Prop where
  next_eq : k.nextB = st.next
  src_eq : k.src = st.memo
  shared_eq : k.shared = k0.shared
  ints_eq : k.ints = k0.ints ++ spineInts n st.rs
  frm_iff : ∀ p, p ∈ k.frm ↔ p ∈ k0.frm ∨ spineEdges n st.rs p
  le : k0.nextB ≤ st.next
  memo_mono : ∀ p ∈ k0.src, p ∈ st.memo
  memo_rng : ∀ p ∈ st.memo, p ∈ k0.src ∨ (k0.nextB ≤ p.2 ∧ p.2 < st.next)
  edges_rng : ∀ q ∈ st.rs, ∀ p, q.1.edges p →
    (k0.nextB ≤ p.1 ∨ ∃ s ∈ st.memo, s.2 = p.1) ∧ p.1 < st.next ∧ p.2 < st.next
  ints_rng : ∀ q ∈ st.rs, ∀ i ∈ q.1.ints, k0.nextB ≤ i.1 ∧ i.1 < st.next ∧ k0.nextB ≤ i.2 ∧ i.2 < st.next
  lam_rng : ∀ q ∈ st.rs, ∀ i, q.2 = some i → k0.nextB ≤ i ∧ i < st.next
  node_rng : ∀ q ∈ st.rs, k0.nextB ≤ q.1.node ∨ ∃ s ∈ st.memo, s.2 = q.1.node
  node_lt : ∀ q ∈ st.rs, q.1.node < st.next ∧ q.1.node ≠ n
  lam_node : ∀ q ∈ st.rs, ∀ i, q.2 = some i → ∀ q' ∈ st.rs, q'.1.node ≠ i
  lam_memo : ∀ q ∈ st.rs, ∀ i, q.2 = some i → ∀ s ∈ st.memo, s.2 ≠ i
  shape : st.rs.map (fun q => q.2.isSome) = l.map (fun a => a.ty.isFunction)
  lams_nodup : (st.rs.filterMap (fun q => q.2)).Nodup
  ints_nodup : ((spineInts n st.rs).map Prod.snd).Nodup
  srcint : SrcInt k

theorem sInv_init {n : Nat} {k0 : Core} (hs : SrcInt k0) :
    SInv n k0 [] k0 { next := k0.nextB, memo := k0.src, rs := [] } := by
  refine ⟨rfl, rfl, rfl, by simp [spineInts], ?_, Nat.le_refl _, fun p hp => hp, fun p hp => Or.inl hp, by simp,
    by simp, by simp, by simp, by simp, by simp, by simp, rfl, by simp, by simp [spineInts], hs⟩
  intro p
  simp [spineEdges, hofEdges, argInfos]

/-- consequences of the invariant used by both kinds of step -/
theorem sInv_facts {n : Nat} {k0 k : Core} {l : List TExpr} {st : HoArgs} (hctx : GCtx n k0)
    (inv : SInv n k0 l k st) :
    (∀ p ∈ k.ints, p.1 < st.next ∧ (p.1 = n → ∃ q ∈ st.rs, q.2 = some p.2)) ∧
    (∀ p ∈ k.frm, p.1 < st.next) ∧
    (∀ p ∈ st.memo, p.2 < st.next ∧ p.2 ≠ n) := by
  have hn := hctx.x_lt
  have hle := inv.le
  refine ⟨?_, ?_, ?_⟩
  · intro p hp
    rw [inv.ints_eq, List.mem_append] at hp
    rcases hp with hp | hp
    · have := hctx.ints p hp
      exact ⟨by omega, fun h => absurd h this.2⟩
    · rcases (mem_spineInts n st.rs p).1 hp with ⟨q, hq, h1, h2⟩ | ⟨q, hq, h⟩
      · exact ⟨by omega, fun _ => ⟨q, hq, h1⟩⟩
      · have := inv.ints_rng q hq p h
        exact ⟨this.2.1, fun h' => by omega⟩
  · intro p hp
    rcases (inv.frm_iff p).1 hp with h | h | h | h
    · have := (hctx.frm p h).1; omega
    · obtain ⟨q, hq, h⟩ := h
      exact (inv.edges_rng q hq p h).2.1
    · rcases h with ⟨a, ha, h'⟩ | ⟨a, ha, i, hl, h'⟩ | ⟨i', j', hi', hj', _, i, hl, h'⟩
      · rw [h']; show n < _; omega
      · obtain ⟨q, hq, rfl⟩ := (mem_argInfos _ _).1 ha
        rw [h']; exact (inv.node_lt q hq).1
      · obtain ⟨q, hq, hq'⟩ := (mem_argInfos _ _).1 (List.getElem_mem hi')
        rw [hq'] at hl
        rw [h']; exact (inv.lam_rng q hq i hl).2
    · obtain ⟨q, hq, i, μ, _, hm, h'⟩ := h
      rw [h']; exact (inv.ints_rng q hq _ hm).2.2.2
  · intro p hp
    rcases inv.memo_rng p hp with h | h
    · have := hctx.src p h
      exact ⟨by omega, this.2⟩
    · exact ⟨h.2, by omega⟩

theorem sInv_ints_lt {n : Nat} {k0 k : Core} {l : List TExpr} {st : HoArgs} (inv : SInv n k0 l k st) :
    ∀ p ∈ spineInts n st.rs, p.2 < st.next := by
  intro p hp
  rcases (mem_spineInts n st.rs p).1 hp with ⟨q, hq, h1, _⟩ | ⟨q, hq, h⟩
  · exact (inv.lam_rng q hq _ h1).2
  · exact (inv.ints_rng q hq p h).2.2.2

/-! ## the steps -/

/-- the induction hypothesis for one argument -/
def ArgIHS (b : TExpr) : Prop :=
  ∀ (k : Core) (x : Nat), GCtx x k → SrcInt k →
    SPost x k b (flowHO k.nextB k.src b x) (addExprC k b (some x)).1 (addExprC k b (some x)).2

theorem sInv_step_data {n : Nat} {k0 k : Core} {l : List TExpr} {st : HoArgs} (hctx : GCtx n k0)
    (inv : SInv n k0 l k st) (b : TExpr) (ih : ArgIHS b) (hfun : b.ty.isFunction = false) :
    SInv n k0 (l ++ [b]) (argStepC n k b) (hoArgStep st b) := by
  obtain ⟨hI, hF, hM⟩ := sInv_facts hctx inv
  have hn := hctx.x_lt
  have hle := inv.le
  have hK1 : GCtx st.next k.fresh.1 := by
    refine ⟨?_, ?_, ?_, ?_⟩
    · show st.next < k.nextB + 1
      rw [inv.next_eq]; omega
    · intro p hp
      have := (hI p hp).1
      refine ⟨?_, by omega⟩
      show p.1 < k.nextB + 1
      rw [inv.next_eq]; omega
    · intro p hp
      have := hF p hp
      refine ⟨?_, by omega⟩
      show p.1 < k.nextB + 1
      rw [inv.next_eq]; omega
    · intro p hp
      have hp' : p ∈ st.memo := by rw [← inv.src_eq]; exact hp
      have := (hM p hp').1
      refine ⟨?_, by omega⟩
      show p.2 < k.nextB + 1
      rw [inv.next_eq]; omega
  have hS1 : SrcInt k.fresh.1 := inv.srcint
  have post := ih k.fresh.1 st.next hK1 hS1
  have e1 : k.fresh.1.nextB = st.next + 1 := by show k.nextB + 1 = _; rw [inv.next_eq]
  have e2 : k.fresh.1.src = st.memo := inv.src_eq
  have e3 : k.fresh.2 = st.next := inv.next_eq
  rw [e1, e2] at post
  unfold argStepC hoArgStep
  simp only [hfun, mkInternal, Bool.false_eq_true, if_false]
  rw [e3]
  generalize flowHO (st.next + 1) st.memo b st.next = r at post ⊢
  generalize addExprC k.fresh.1 b (some st.next) = km at post ⊢
  obtain ⟨K', m⟩ := km
  simp only [] at post ⊢
  have hm := post.node_eq
  subst hm
  have hr_le : st.next + 1 ≤ r.next := by have := post.le; rw [e1] at this; exact this
  have hmono : ∀ p ∈ st.memo, p ∈ r.memo := fun p hp => post.memo_mono p (by rw [e2]; exact hp)
  obtain ⟨w1, w2, w3, w4⟩ := wire_frame K' n r.node none
  have hrnode : r.node < r.next ∧ r.node ≠ n := by
    rcases post.node_rng with h | ⟨p, hp, h⟩
    · rw [h]; exact ⟨by omega, by omega⟩
    · have hp' : p ∈ st.memo := by rw [← e2]; exact hp
      have := hM p hp'
      rw [← h]; exact ⟨by omega, this.2⟩
  have hmr : ∀ p ∈ r.memo, p ∈ st.memo ∨ p.2 = st.next ∨ (st.next + 1 ≤ p.2 ∧ p.2 < r.next) := by
    intro p hp
    have := post.memo_rng p hp
    rw [e1, e2] at this
    exact this
  have hrn_i : ∀ q ∈ st.rs, ∀ i, q.2 = some i → r.node ≠ i := by
    intro q hq i hi
    rcases post.node_rng with h | ⟨s, hs, h⟩
    · have := (inv.lam_rng q hq i hi).2
      rw [h]; omega
    · rw [← h]
      exact inv.lam_memo q hq i hi s (by rw [← e2]; exact hs)
  refine ⟨by rw [w1]; exact post.next_eq, by rw [w2]; exact post.src_eq,
    by rw [w3, post.shared_eq]; exact inv.shared_eq, ?_, ?_, by show k0.nextB ≤ r.next; omega,
    fun p hp => hmono p (inv.memo_mono p hp), ?_, ?_, ?_, ?_, ?_, ?_, ?_, ?_, ?_, ?_, ?_, ?_⟩
  · rw [w4, post.ints_eq, spineInts_snoc]
    show k.ints ++ r.ints = _
    rw [inv.ints_eq]
    simp [lamPair]
  · intro p
    rw [wire_none_mem, spineEdges_snoc, post.frm_iff]
    show ((p ∈ k.frm ∨ r.edges p) ∨ p = (n, r.node) ∨ ∃ j, (n, j) ∈ K'.ints ∧ p = (j, r.node)) ↔ _
    rw [inv.frm_iff]
    constructor
    · rintro (((h | h) | h) | h | ⟨j, hj, h⟩)
      · exact Or.inl h
      · exact Or.inr (Or.inl h)
      · exact Or.inr (Or.inr (Or.inl h))
      · exact Or.inr (Or.inr (Or.inr (Or.inl h)))
      · rw [post.ints_eq, List.mem_append] at hj
        rcases hj with hj | hj
        · obtain ⟨q, hq, hl⟩ := (hI (n, j) hj).2 rfl
          exact Or.inr (Or.inr (Or.inr (Or.inr (Or.inr (Or.inl ⟨q, hq, j, hl, h⟩)))))
        · have := (post.ints_rng _ hj).1
          have : st.next ≤ n := this
          omega
    · rintro (h | h | h | h | ⟨i, hi, _⟩ | ⟨a, ha, i, hl, h⟩ | ⟨i, hi, _⟩ | ⟨i, μ, hi, _⟩)
      · exact Or.inl (Or.inl (Or.inl h))
      · exact Or.inl (Or.inl (Or.inr h))
      · exact Or.inl (Or.inr h)
      · exact Or.inr (Or.inl h)
      · cases hi
      · refine Or.inr (Or.inr ⟨i, ?_, h⟩)
        rw [post.ints_eq]
        apply List.mem_append_left
        show (n, i) ∈ k.ints
        rw [inv.ints_eq]
        exact List.mem_append_right _ ((mem_spineInts n st.rs (n, i)).2 (Or.inl ⟨a, ha, hl, rfl⟩))
      · cases hi
      · cases hi
  · intro p hp
    rcases hmr p hp with h | h | h
    · rcases inv.memo_rng p h with h' | h'
      · exact Or.inl h'
      · exact Or.inr ⟨h'.1, by show p.2 < r.next; omega⟩
    · exact Or.inr ⟨by omega, by show p.2 < r.next; omega⟩
    · exact Or.inr ⟨by omega, h.2⟩
  · intro q hq p hp
    show (k0.nextB ≤ p.1 ∨ ∃ s ∈ r.memo, s.2 = p.1) ∧ p.1 < r.next ∧ p.2 < r.next
    simp only [List.mem_append, List.mem_singleton] at hq
    rcases hq with hq | rfl
    · have := inv.edges_rng q hq p hp
      refine ⟨?_, by omega, by omega⟩
      rcases this.1 with h | ⟨s, hs, h⟩
      · exact Or.inl h
      · exact Or.inr ⟨s, hmono s hs, h⟩
    · have := post.edges_rng p hp
      refine ⟨?_, this.2.1, this.2.2⟩
      rcases this.1 with h | h
      · exact Or.inl (by omega)
      · exact Or.inr h
  · intro q hq i hi
    show k0.nextB ≤ i.1 ∧ i.1 < r.next ∧ k0.nextB ≤ i.2 ∧ i.2 < r.next
    simp only [List.mem_append, List.mem_singleton] at hq
    rcases hq with hq | rfl
    · have := inv.ints_rng q hq i hi
      exact ⟨this.1, by omega, this.2.2.1, by omega⟩
    · have := post.ints_rng i hi
      rw [e1] at this
      exact ⟨by omega, this.2.1, by omega, this.2.2.2⟩
  · intro q hq i hi
    show k0.nextB ≤ i ∧ i < r.next
    simp only [List.mem_append, List.mem_singleton] at hq
    rcases hq with hq | rfl
    · have := inv.lam_rng q hq i hi
      exact ⟨this.1, by omega⟩
    · cases hi
  · intro q hq
    show k0.nextB ≤ q.1.node ∨ ∃ s ∈ r.memo, s.2 = q.1.node
    simp only [List.mem_append, List.mem_singleton] at hq
    rcases hq with hq | rfl
    · rcases inv.node_rng q hq with h | ⟨s, hs, h⟩
      · exact Or.inl h
      · exact Or.inr ⟨s, hmono s hs, h⟩
    · rcases post.node_rng with h | ⟨s, hs, h⟩
      · exact Or.inl (by show k0.nextB ≤ r.node; omega)
      · exact Or.inr ⟨s, post.memo_mono s hs, h⟩
  · intro q hq
    show q.1.node < r.next ∧ q.1.node ≠ n
    simp only [List.mem_append, List.mem_singleton] at hq
    rcases hq with hq | rfl
    · have := inv.node_lt q hq
      exact ⟨by omega, this.2⟩
    · exact hrnode
  · intro q hq i hi q' hq'
    simp only [List.mem_append, List.mem_singleton] at hq hq'
    rcases hq with hq | rfl
    · rcases hq' with hq' | rfl
      · exact inv.lam_node q hq i hi q' hq'
      · exact hrn_i q hq i hi
    · cases hi
  · intro q hq i hi s hs
    show s.2 ≠ i
    simp only [List.mem_append, List.mem_singleton] at hq
    have hs' : s ∈ r.memo := hs
    rcases hq with hq | rfl
    · have hlt := (inv.lam_rng q hq i hi).2
      rcases hmr s hs' with h | h | h
      · exact inv.lam_memo q hq i hi s h
      · omega
      · omega
    · cases hi
  · show (st.rs ++ [(r, none)]).map (fun (q : HoRes × Option Nat) => q.2.isSome) = _
    rw [List.map_append, List.map_append, inv.shape]
    simp [hfun]
  · show ((st.rs ++ [(r, none)]).filterMap (fun (q : HoRes × Option Nat) => q.2)).Nodup
    rw [List.filterMap_append]
    simpa using inv.lams_nodup
  · show ((spineInts n (st.rs ++ [(r, none)])).map Prod.snd).Nodup
    rw [spineInts_snoc, List.map_append, List.nodup_append]
    refine ⟨inv.ints_nodup, by simpa [lamPair] using post.ints_nodup, ?_⟩
    intro y hy z hz hyz
    subst hyz
    obtain ⟨p1, hp1, h1⟩ := List.mem_map.1 hy
    obtain ⟨p2, hp2, h2⟩ := List.mem_map.1 hz
    have a1 := sInv_ints_lt inv p1 hp1
    simp only [lamPair, List.nil_append] at hp2
    have a2 := (post.ints_rng p2 hp2).2.2.1
    rw [e1] at a2
    omega
  · intro p hp s hs
    rw [w4] at hp
    rw [w2] at hs
    exact post.srcint p hp s hs

theorem sInv_step_fun {n : Nat} {k0 k : Core} {l : List TExpr} {st : HoArgs} (hctx : GCtx n k0)
    (inv : SInv n k0 l k st) (b : TExpr) (ih : ArgIHS b) (hfun : b.ty.isFunction = true) :
    SInv n k0 (l ++ [b]) (argStepC n k b) (hoArgStep st b) := by
  obtain ⟨hI, hF, hM⟩ := sInv_facts hctx inv
  have hn := hctx.x_lt
  have hle := inv.le
  have hkn : k.nextB = st.next := inv.next_eq
  have K1n : (funCore2 k n).nextB = st.next + 2 := by show k.nextB + 2 = _; rw [hkn]
  have K1s : (funCore2 k n).src = st.memo := inv.src_eq
  have K1i : (funCore2 k n).ints = k.ints ++ [(n, st.next + 1)] := by
    show k.ints ++ [(n, k.nextB + 1)] = _; rw [hkn]
  have K1f : (funCore2 k n).frm = k.frm := rfl
  have K1h : (funCore2 k n).shared = k.shared := rfl
  have hK1 : GCtx st.next (funCore2 k n) := by
    refine ⟨by rw [K1n]; omega, ?_, ?_, ?_⟩
    · intro p hp
      rw [K1i, List.mem_append, List.mem_singleton] at hp
      rw [K1n]
      rcases hp with hp | rfl
      · have := (hI p hp).1
        exact ⟨by omega, by omega⟩
      · exact ⟨by show n < _; omega, by show n ≠ _; omega⟩
    · intro p hp
      have := hF p hp
      rw [K1n]
      exact ⟨by omega, by omega⟩
    · intro p hp
      have hp' : p ∈ st.memo := by rw [← K1s]; exact hp
      have := (hM p hp').1
      rw [K1n]
      exact ⟨by omega, by omega⟩
  have hS1 : SrcInt (funCore2 k n) := by
    intro p hp s hs
    rw [K1i, List.mem_append, List.mem_singleton] at hp
    rcases hp with hp | rfl
    · exact inv.srcint p hp s hs
    · have hs' : s ∈ st.memo := by rw [← K1s]; exact hs
      exact fun h => (hM s hs').2 h.symm
  have post := ih (funCore2 k n) st.next hK1 hS1
  rw [K1n, K1s] at post
  have e3 : k.fresh.2 = st.next := hkn
  unfold argStepC hoArgStep
  simp only [hfun, if_true]
  rw [mkInternal_true, e3, hkn]
  simp only []
  generalize flowHO (st.next + 2) st.memo b st.next = r at post ⊢
  generalize addExprC (funCore2 k n) b (some st.next) = km at post ⊢
  obtain ⟨K', m⟩ := km
  simp only [] at post ⊢
  have hm := post.node_eq
  subst hm
  have hr_le : st.next + 2 ≤ r.next := by have := post.le; rw [K1n] at this; exact this
  have hmono : ∀ p ∈ st.memo, p ∈ r.memo := fun p hp => post.memo_mono p (by rw [K1s]; exact hp)
  have hKi : K'.ints = (k.ints ++ [(n, st.next + 1)]) ++ r.ints := by rw [post.ints_eq, K1i]
  have hKf : ∀ p, p ∈ K'.frm ↔ p ∈ k.frm ∨ r.edges p := by
    intro p; rw [post.frm_iff, K1f]
  have hri : ∀ q ∈ r.ints, st.next ≤ q.1 ∧ q.1 < r.next ∧ st.next + 2 ≤ q.2 ∧ q.2 < r.next := by
    intro q hq
    have := post.ints_rng q hq
    rw [K1n] at this
    exact this
  obtain ⟨w1, w2, w3, w4⟩ := wire_frame K' n r.node (some (st.next + 1))
  -- the node of the argument: the reserved one, or the node of a source
  have hrnode : r.node < r.next ∧ r.node ≠ n := by
    rcases post.node_rng with h | ⟨p, hp, h⟩
    · rw [h]; exact ⟨by omega, by omega⟩
    · have hp' : p ∈ st.memo := by rw [← K1s]; exact hp
      have := hM p hp'
      rw [← h]; exact ⟨by omega, this.2⟩
  -- no internal node made before this argument hangs off the argument's node
  have hNI : ∀ q ∈ k.ints, q.1 ≠ r.node := by
    intro q hq
    rcases post.node_rng with h | ⟨p, hp, h⟩
    · have := (hI q hq).1
      rw [h]; omega
    · rw [← h]
      exact inv.srcint q hq p hp
  have hmr : ∀ p ∈ r.memo, p ∈ st.memo ∨ p.2 = st.next ∨ (st.next + 2 ≤ p.2 ∧ p.2 < r.next) := by
    intro p hp
    have := post.memo_rng p hp
    rw [K1n, K1s] at this
    exact this
  have hrn_i : ∀ q ∈ st.rs, ∀ i, q.2 = some i → r.node ≠ i := by
    intro q hq i hi
    rcases post.node_rng with h | ⟨s, hs, h⟩
    · have := (inv.lam_rng q hq i hi).2
      rw [h]; omega
    · rw [← h]
      exact inv.lam_memo q hq i hi s (by rw [← K1s]; exact hs)
  have hrn_l : r.node ≠ st.next + 1 := by
    rcases post.node_rng with h | ⟨s, hs, h⟩
    · rw [h]; omega
    · have := (hM s (by rw [← K1s]; exact hs)).1
      rw [← h]; omega
  -- the memo after the argument has no node `n`
  have hMr : ∀ s ∈ r.memo, s.2 ≠ n := by
    intro s hs
    rcases hmr s hs with h | h | h
    · exact (hM s h).2
    · omega
    · omega
  -- side conditions of the wiring lemma
  have c2 : n ≠ r.node := fun h => hrnode.2 h.symm
  have c3 : (n, n) ∉ K'.ints := by
    intro hj
    rw [hKi, List.mem_append, List.mem_append, List.mem_singleton] at hj
    rcases hj with (hj | hj) | hj
    · obtain ⟨q, hq, hl⟩ := (hI _ hj).2 rfl
      have := (inv.lam_rng q hq n hl).1
      omega
    · have := (Prod.mk.inj hj).2; omega
    · have := (hri _ hj).1
      have : st.next ≤ n := this
      omega
  have c4 : (r.node, n) ∉ K'.ints := by
    intro hj
    rw [hKi, List.mem_append, List.mem_append, List.mem_singleton] at hj
    rcases hj with (hj | hj) | hj
    · exact hNI _ hj rfl
    · exact hrnode.2 (Prod.mk.inj hj).1
    · have := (hri _ hj).2.2.1
      have : st.next + 2 ≤ n := this
      omega
  have hA : ∀ p : Nat × Nat, (∃ j, (r.node, j) ∈ K'.ints ∧ p = (j, st.next + 1)) ↔
      (∃ μ, (r.node, μ) ∈ r.ints ∧ p = (μ, st.next + 1)) := by
    intro p
    constructor
    · rintro ⟨j, hj, h⟩
      rw [hKi, List.mem_append, List.mem_append, List.mem_singleton] at hj
      rcases hj with (hj | hj) | hj
      · exact absurd rfl (hNI _ hj)
      · exact absurd (Prod.mk.inj hj).1 hrnode.2
      · exact ⟨j, hj, h⟩
    · rintro ⟨μ, hμ, h⟩
      exact ⟨μ, by rw [hKi]; exact List.mem_append_right _ hμ, h⟩
  have hB : ∀ p : Nat × Nat, (∃ j, (n, j) ∈ K'.ints ∧ j ≠ st.next + 1 ∧ p = (j, r.node)) ↔
      (∃ a ∈ st.rs, ∃ i, a.2 = some i ∧ p = (i, r.node)) := by
    intro p
    constructor
    · rintro ⟨j, hj, hji, h⟩
      rw [hKi, List.mem_append, List.mem_append, List.mem_singleton] at hj
      rcases hj with (hj | hj) | hj
      · obtain ⟨q, hq, hl⟩ := (hI _ hj).2 rfl
        exact ⟨q, hq, j, hl, h⟩
      · exact absurd (Prod.mk.inj hj).2 hji
      · have := (hri _ hj).1
        have : st.next ≤ n := this
        omega
    · rintro ⟨a, ha, i, hl, h⟩
      refine ⟨i, ?_, ?_, h⟩
      · rw [hKi, inv.ints_eq]
        apply List.mem_append_left
        apply List.mem_append_left
        exact List.mem_append_right _ ((mem_spineInts n st.rs (n, i)).2 (Or.inl ⟨a, ha, hl, rfl⟩))
      · have := (inv.lam_rng a ha i hl).2
        omega
  have hC : ∀ p : Nat × Nat, (∃ fin, (n, fin) ∈ K'.frm ∧ p = (st.next + 1, fin)) ↔
      (∃ a ∈ st.rs, p = (st.next + 1, a.1.node)) := by
    intro p
    constructor
    · rintro ⟨fin, hfin, h⟩
      rw [hKf, inv.frm_iff] at hfin
      rcases hfin with (hfin | hfin) | hfin
      · exact absurd rfl (hctx.frm _ hfin).2
      · rcases hfin with ⟨q, hq, h'⟩ | h' | ⟨q, hq, i, μ, _, hm, h'⟩
        · rcases (inv.edges_rng q hq _ h').1 with h'' | ⟨s, hs, h''⟩
          · have : k0.nextB ≤ n := h''
            omega
          · exact absurd h'' (hM s hs).2
        · rcases h' with ⟨a, ha, h'⟩ | ⟨a, ha, i, _, h'⟩ | ⟨i', j', hi', hj', _, i, hl, h'⟩
          · obtain ⟨q, hq, rfl⟩ := (mem_argInfos _ _).1 ha
            exact ⟨q, hq, by rw [h, (Prod.mk.inj h').2]⟩
          · obtain ⟨q, hq, rfl⟩ := (mem_argInfos _ _).1 ha
            exact absurd (Prod.mk.inj h').1.symm (inv.node_lt q hq).2
          · obtain ⟨q, hq, hq'⟩ := (mem_argInfos _ _).1 (List.getElem_mem hi')
            rw [hq'] at hl
            have := (inv.lam_rng q hq i hl).1
            have h2 := (Prod.mk.inj h').1
            omega
        · have := (inv.ints_rng q hq _ hm).2.2.1
          have h2 := (Prod.mk.inj h').1
          have : k0.nextB ≤ μ := this
          omega
      · rcases (post.edges_rng _ hfin).1 with h'' | ⟨s, hs, h''⟩
        · have : st.next ≤ n := h''
          omega
        · exact absurd h'' (hMr s hs)
    · rintro ⟨a, ha, h⟩
      refine ⟨a.1.node, ?_, h⟩
      rw [hKf, inv.frm_iff]
      exact Or.inl (Or.inr (Or.inr (Or.inl (Or.inl ⟨_, (mem_argInfos _ _).2 ⟨a, ha, rfl⟩, rfl⟩))))
  refine ⟨by rw [w1]; exact post.next_eq, by rw [w2]; exact post.src_eq,
    by rw [w3, post.shared_eq, K1h]; exact inv.shared_eq, ?_, ?_, by show k0.nextB ≤ r.next; omega,
    fun p hp => hmono p (inv.memo_mono p hp), ?_, ?_, ?_, ?_, ?_, ?_, ?_, ?_, ?_, ?_, ?_, ?_⟩
  · rw [w4, hKi, spineInts_snoc, inv.ints_eq]
    simp [lamPair]
  · intro p
    rw [wire_some_mem_gen _ _ _ _ _ c2 c3 c4, spineEdges_snoc, hA, hB, hC, hKf, inv.frm_iff]
    constructor
    · rintro (((h | h) | h) | h | h | ⟨μ, hμ, h⟩ | h | h)
      · exact Or.inl h
      · exact Or.inr (Or.inl h)
      · exact Or.inr (Or.inr (Or.inl h))
      · exact Or.inr (Or.inr (Or.inr (Or.inr (Or.inl ⟨_, rfl, h⟩))))
      · exact Or.inr (Or.inr (Or.inr (Or.inl h)))
      · exact Or.inr (Or.inr (Or.inr (Or.inr (Or.inr (Or.inr (Or.inr ⟨_, μ, rfl, hμ, h⟩))))))
      · exact Or.inr (Or.inr (Or.inr (Or.inr (Or.inr (Or.inl h)))))
      · exact Or.inr (Or.inr (Or.inr (Or.inr (Or.inr (Or.inr (Or.inl ⟨_, rfl, h⟩))))))
    · rintro (h | h | h | h | ⟨i, hi, h⟩ | h | ⟨i, hi, h⟩ | ⟨i, μ, hi, hμ, h⟩)
      · exact Or.inl (Or.inl (Or.inl h))
      · exact Or.inl (Or.inl (Or.inr h))
      · exact Or.inl (Or.inr h)
      · exact Or.inr (Or.inr (Or.inl h))
      · cases hi; exact Or.inr (Or.inl h)
      · exact Or.inr (Or.inr (Or.inr (Or.inr (Or.inl h))))
      · cases hi; exact Or.inr (Or.inr (Or.inr (Or.inr (Or.inr h))))
      · cases hi; exact Or.inr (Or.inr (Or.inr (Or.inl ⟨μ, hμ, h⟩)))
  · intro p hp
    rcases hmr p hp with h | h | h
    · rcases inv.memo_rng p h with h' | h'
      · exact Or.inl h'
      · exact Or.inr ⟨h'.1, by show p.2 < r.next; omega⟩
    · exact Or.inr ⟨by omega, by show p.2 < r.next; omega⟩
    · exact Or.inr ⟨by omega, h.2⟩
  · intro q hq p hp
    show (k0.nextB ≤ p.1 ∨ ∃ s ∈ r.memo, s.2 = p.1) ∧ p.1 < r.next ∧ p.2 < r.next
    simp only [List.mem_append, List.mem_singleton] at hq
    rcases hq with hq | rfl
    · have := inv.edges_rng q hq p hp
      refine ⟨?_, by omega, by omega⟩
      rcases this.1 with h | ⟨s, hs, h⟩
      · exact Or.inl h
      · exact Or.inr ⟨s, hmono s hs, h⟩
    · have := post.edges_rng p hp
      refine ⟨?_, this.2.1, this.2.2⟩
      rcases this.1 with h | h
      · exact Or.inl (by omega)
      · exact Or.inr h
  · intro q hq i hi
    show k0.nextB ≤ i.1 ∧ i.1 < r.next ∧ k0.nextB ≤ i.2 ∧ i.2 < r.next
    simp only [List.mem_append, List.mem_singleton] at hq
    rcases hq with hq | rfl
    · have := inv.ints_rng q hq i hi
      exact ⟨this.1, by omega, this.2.2.1, by omega⟩
    · have := hri i hi
      exact ⟨by omega, this.2.1, by omega, this.2.2.2⟩
  · intro q hq i hi
    show k0.nextB ≤ i ∧ i < r.next
    simp only [List.mem_append, List.mem_singleton] at hq
    rcases hq with hq | rfl
    · have := inv.lam_rng q hq i hi
      exact ⟨this.1, by omega⟩
    · cases hi
      exact ⟨by omega, by omega⟩
  · intro q hq
    show k0.nextB ≤ q.1.node ∨ ∃ s ∈ r.memo, s.2 = q.1.node
    simp only [List.mem_append, List.mem_singleton] at hq
    rcases hq with hq | rfl
    · rcases inv.node_rng q hq with h | ⟨s, hs, h⟩
      · exact Or.inl h
      · exact Or.inr ⟨s, hmono s hs, h⟩
    · rcases post.node_rng with h | ⟨s, hs, h⟩
      · exact Or.inl (by show k0.nextB ≤ r.node; omega)
      · exact Or.inr ⟨s, post.memo_mono s hs, h⟩
  · intro q hq
    show q.1.node < r.next ∧ q.1.node ≠ n
    simp only [List.mem_append, List.mem_singleton] at hq
    rcases hq with hq | rfl
    · have := inv.node_lt q hq
      exact ⟨by omega, this.2⟩
    · exact hrnode
  · intro q hq i hi q' hq'
    simp only [List.mem_append, List.mem_singleton] at hq hq'
    rcases hq with hq | rfl
    · rcases hq' with hq' | rfl
      · exact inv.lam_node q hq i hi q' hq'
      · exact hrn_i q hq i hi
    · cases hi
      rcases hq' with hq' | rfl
      · have := (inv.node_lt q' hq').1
        omega
      · exact hrn_l
  · intro q hq i hi s hs
    show s.2 ≠ i
    simp only [List.mem_append, List.mem_singleton] at hq
    have hs' : s ∈ r.memo := hs
    rcases hq with hq | rfl
    · have hlt := (inv.lam_rng q hq i hi).2
      rcases hmr s hs' with h | h | h
      · exact inv.lam_memo q hq i hi s h
      · omega
      · omega
    · cases hi
      rcases hmr s hs' with h | h | h
      · have := (hM s h).1
        omega
      · omega
      · omega
  · show (st.rs ++ [(r, some (st.next + 1))]).map (fun (q : HoRes × Option Nat) => q.2.isSome) = _
    rw [List.map_append, List.map_append, inv.shape]
    simp [hfun]
  · show ((st.rs ++ [(r, some (st.next + 1))]).filterMap (fun (q : HoRes × Option Nat) => q.2)).Nodup
    rw [List.filterMap_append, List.nodup_append]
    refine ⟨inv.lams_nodup, by simp, ?_⟩
    intro y hy z hz hyz
    simp only [List.filterMap_cons, List.filterMap_nil, List.mem_singleton] at hz
    subst hz
    subst hyz
    obtain ⟨a, ha, hl⟩ := List.mem_filterMap.1 hy
    have := (inv.lam_rng a ha _ hl).2
    omega
  · show ((spineInts n (st.rs ++ [(r, some (st.next + 1))])).map Prod.snd).Nodup
    rw [spineInts_snoc, List.map_append, List.nodup_append]
    refine ⟨inv.ints_nodup, ?_, ?_⟩
    · simp only [lamPair, List.cons_append, List.nil_append, List.map_cons, List.nodup_cons]
      refine ⟨?_, post.ints_nodup⟩
      intro hmem
      obtain ⟨p2, hp2, h2⟩ := List.mem_map.1 hmem
      have := (hri p2 hp2).2.2.1
      omega
    · intro y hy z hz hyz
      subst hyz
      obtain ⟨p1, hp1, h1⟩ := List.mem_map.1 hy
      obtain ⟨p2, hp2, h2⟩ := List.mem_map.1 hz
      have a1 := sInv_ints_lt inv p1 hp1
      simp only [lamPair, List.cons_append, List.nil_append, List.mem_cons] at hp2
      rcases hp2 with rfl | hp2
      · have : y = st.next + 1 := h2.symm
        omega
      · have a2 := (hri p2 hp2).2.2.1
        omega
  · intro p hp s hs
    rw [w4] at hp
    rw [w2] at hs
    exact post.srcint p hp s hs

/-! ## the induction -/

theorem sInv_all {n : Nat} {k0 : Core} (hctx : GCtx n k0) (hs : SrcInt k0) :
    ∀ (l : List TExpr), (∀ a ∈ l, ArgIHS a) →
      SInv n k0 l (l.foldl (argStepC n) k0) (l.foldl hoArgStep { next := k0.nextB, memo := k0.src, rs := [] }) := by
  intro l
  induction l using snoc_induction with
  | nil => intro _; exact sInv_init hs
  | snoc l a ih =>
    intro h1
    have inv := ih (fun b hb => h1 b (List.mem_append_left _ hb))
    rw [List.foldl_append, List.foldl_append]
    simp only [List.foldl_cons, List.foldl_nil]
    cases hfun : a.ty.isFunction with
    | false => exact sInv_step_data hctx inv a (h1 a (by simp)) hfun
    | true => exact sInv_step_fun hctx inv a (h1 a (by simp)) hfun

theorem addExprC_flowHOS {e : TExpr} (hof : HofS e) : ArgIHS e := by
  induction hof with
  | src id l ty =>
    intro k x hctx hsi
    rw [addExprC, flowHO_src]
    cases hfind : List.find? (fun p => p.fst == id) k.src with
    | some p =>
      have hp := List.mem_of_find?_eq_some hfind
      simp only []
      refine ⟨rfl, rfl, rfl, rfl, by simp, by simp, Nat.le_refl _, fun q hq => hq, fun q hq => Or.inl hq,
        Or.inr ⟨p, hp, rfl⟩, ?_, by simp, by simp, by simp, hsi⟩
      intro name ty' h; cases h
    | none =>
      simp only [cur_some]
      have := hctx.x_lt
      refine ⟨rfl, rfl, rfl, rfl, by simp, by simp, Nat.le_refl _, fun q hq => List.mem_append_left _ hq, ?_,
        Or.inl rfl, fun _ _ _ => rfl, by simp, by simp, by simp, ?_⟩
      · intro q hq
        rw [List.mem_append, List.mem_singleton] at hq
        rcases hq with hq | rfl
        · exact Or.inl hq
        · exact Or.inr (Or.inl rfl)
      · intro q hq s hs
        have hs' : s ∈ k.src ++ [(id, x)] := hs
        rw [List.mem_append, List.mem_singleton] at hs'
        rcases hs' with hs' | rfl
        · exact hsi q hq s hs'
        · exact (hctx.ints q hq).2
  | spine e name ty hh _ ih =>
    intro k x hctx hsi
    rw [addExprC_spine e name ty k (some x) hh, flowHO_spine _ _ e x name ty hh]
    simp only [cur_some]
    have inv := sInv_all hctx hsi (argsOf e) ih
    generalize List.foldl (argStepC x) k (argsOf e) = k' at inv ⊢
    generalize List.foldl hoArgStep { next := k.nextB, memo := k.src, rs := [] } (argsOf e) = st at inv ⊢
    have hx := hctx.x_lt
    have hle := inv.le
    refine ⟨rfl, inv.next_eq, inv.src_eq, inv.shared_eq, inv.ints_eq, inv.frm_iff, hle, inv.memo_mono, ?_, Or.inl rfl,
      fun _ _ _ => rfl, ?_, ?_, inv.ints_nodup, inv.srcint⟩
    · intro p hp
      rcases inv.memo_rng p hp with h | h
      · exact Or.inl h
      · exact Or.inr (Or.inr h)
    · intro p hp
      show (x ≤ p.1 ∨ ∃ s ∈ st.memo, s.2 = p.1) ∧ p.1 < st.next ∧ p.2 < st.next
      rcases hp with ⟨q, hq, h⟩ | h | ⟨q, hq, i, μ, hl, hm, h⟩
      · have := inv.edges_rng q hq p h
        refine ⟨?_, this.2.1, this.2.2⟩
        rcases this.1 with h' | h'
        · exact Or.inl (by omega)
        · exact Or.inr h'
      · rcases h with ⟨a, ha, h'⟩ | ⟨a, ha, i, hl, h'⟩ | ⟨i', j', hi', hj', _, i, hl, h'⟩
        · obtain ⟨q, hq, rfl⟩ := (mem_argInfos _ _).1 ha
          rw [h']
          exact ⟨Or.inl (Nat.le_refl _), by show x < _; omega, (inv.node_lt q hq).1⟩
        · obtain ⟨q, hq, rfl⟩ := (mem_argInfos _ _).1 ha
          have := inv.lam_rng q hq i hl
          rw [h']
          refine ⟨?_, (inv.node_lt q hq).1, this.2⟩
          rcases inv.node_rng q hq with h'' | h''
          · exact Or.inl (by show x ≤ q.1.node; omega)
          · exact Or.inr h''
        · obtain ⟨q, hq, hq'⟩ := (mem_argInfos _ _).1 (List.getElem_mem hi')
          obtain ⟨q2, hq2, hq2'⟩ := (mem_argInfos _ _).1 (List.getElem_mem hj')
          rw [hq'] at hl
          have := inv.lam_rng q hq i hl
          rw [h', hq2']
          exact ⟨Or.inl (by show x ≤ i; omega), this.2, (inv.node_lt q2 hq2).1⟩
      · have h1 := inv.ints_rng q hq _ hm
        have h2 := inv.lam_rng q hq i hl
        rw [h]
        exact ⟨Or.inl (by show x ≤ μ; omega), h1.2.2.2, h2.2⟩
    · intro q hq
      show x ≤ q.1 ∧ q.1 < st.next ∧ k.nextB ≤ q.2 ∧ q.2 < st.next
      rcases (mem_spineInts x st.rs q).1 hq with ⟨a, ha, h1, h2⟩ | ⟨a, ha, h⟩
      · have := inv.lam_rng a ha _ h1
        exact ⟨by omega, by omega, this.1, this.2⟩
      · have := inv.ints_rng a ha q h
        exact ⟨by omega, this.2.1, this.2.2.1, this.2.2.2⟩

/-! ## back to the model -/

theorem srcInt_of_srcNoInt {g : GState} (hs : SrcNoInt g) (nb : Nat) : SrcInt { coreOf g with nextB := nb } := hs

/-- the postcondition on the graph -/
theorem addExpr_hofS_post {G : GLang} {c : GCfg} {root : Node} {origin : Option Node} (hc : c.withTypes = false)
    {g g' : GState} {e : TExpr} {cur : Option Nat} {im : Bool} {n : Nat} {name : String} {ty : Term}
    (hof : HofS e) (hh : headOf e = .op name ty)
    (hg : GFresh g) (hs : SrcNoInt g) (hcur : ∀ m, cur = some m → CurFree g m)
    (h : addExpr G c root origin g e cur im = .ok (g', n)) :
    SPost (allocNode g.nextB cur).1 { coreOf g with nextB := (allocNode g.nextB cur).2 } e
      (flowHOTop g.nextB g.srcNodes e cur) (coreOf g') n := by
  obtain ⟨g1, h1, h2⟩ := addExpr_core (G := G) (root := root) (origin := origin) hc e g cur im
  rw [h1] at h
  cases h
  have hctx := gCtx_of_fresh hg hcur
  have post := addExprC_flowHOS hof _ _ hctx (srcInt_of_srcNoInt hs _)
  rw [h2]
  cases cur with
  | none =>
    rw [addExprC_none_op hh]
    exact post
  | some m => exact post

/-- operations and sources of function type passed as arguments at any depth: the theorem on the graph -/
theorem addExpr_hofS_general {G : GLang} {c : GCfg} {root : Node} {origin : Option Node} (hc : c.withTypes = false)
    {g g' : GState} {e : TExpr} {cur : Option Nat} {im : Bool} {n : Nat} {name : String} {ty : Term}
    (hof : HofS e) (hh : headOf e = .op name ty)
    (hg : GFresh g) (hs : SrcNoInt g) (hcur : ∀ m, cur = some m → CurFree g m)
    (h : addExpr G c root origin g e cur im = .ok (g', n)) :
    n = (allocNode g.nextB cur).1 ∧
    n = (flowHOTop g.nextB g.srcNodes e cur).node ∧
    g'.nextB = (flowHOTop g.nextB g.srcNodes e cur).next ∧
    g'.srcNodes = (flowHOTop g.nextB g.srcNodes e cur).memo ∧
    g'.sharedNodes = g.sharedNodes ∧
    g'.internals = g.internals ++ (flowHOTop g.nextB g.srcNodes e cur).ints ∧
    (∀ p, p ∈ g'.fd.frm ↔ p ∈ g.fd.frm ∨ (flowHOTop g.nextB g.srcNodes e cur).edges p) ∧
    ((flowHOTop g.nextB g.srcNodes e cur).ints.map Prod.snd).Nodup ∧
    (∀ q ∈ (flowHOTop g.nextB g.srcNodes e cur).ints, g.nextB ≤ q.2 ∧ q.2 < g'.nextB) := by
  have post := addExpr_hofS_post hc hof hh hg hs hcur h
  have hn : n = (flowHOTop g.nextB g.srcNodes e cur).node := post.node_eq
  have hx := post.node_op name ty hh
  have hnext : g'.nextB = (flowHOTop g.nextB g.srcNodes e cur).next := post.next_eq
  refine ⟨by rw [hn, hx], hn, hnext, post.src_eq, post.shared_eq, post.ints_eq, post.frm_iff, post.ints_nodup, ?_⟩
  intro q hq
  have := post.ints_rng q hq
  rw [hnext]
  have hle : g.nextB ≤ (allocNode g.nextB cur).2 := by cases cur <;> simp [allocNode]
  exact ⟨Nat.le_trans hle this.2.2.1, this.2.2.2⟩

theorem addExpr_hofS_general_fresh {G : GLang} {c : GCfg} {root : Node} {origin : Option Node}
    (hc : c.withTypes = false)
    {g g' : GState} {e : TExpr} {cur : Option Nat} {im : Bool} {n : Nat} {name : String} {ty : Term}
    (hof : HofS e) (hh : headOf e = .op name ty)
    (hg : GFresh g) (hs : SrcNoInt g) (hcur : ∀ m, cur = some m → CurFree g m)
    (h : addExpr G c root origin g e cur im = .ok (g', n)) : GFresh g' ∧ SrcNoInt g' := by
  have post := addExpr_hofS_post hc hof hh hg hs hcur h
  have hnext : g'.nextB = (flowHOTop g.nextB g.srcNodes e cur).next := post.next_eq
  have hle : g.nextB ≤ (allocNode g.nextB cur).2 := by cases cur <;> simp [allocNode]
  have hle2 : (allocNode g.nextB cur).2 ≤ (flowHOTop g.nextB g.srcNodes e cur).next := post.le
  refine ⟨?_, post.srcint⟩
  generalize flowHOTop g.nextB g.srcNodes e cur = r at post hnext hle2
  refine ⟨?_, ?_, ?_⟩
  · intro p hp
    have hs' : g'.srcNodes = r.memo := post.src_eq
    rw [hs'] at hp
    rcases post.memo_rng p hp with h' | h' | h'
    · have := hg.src_lt p h'
      omega
    · have hlt : (allocNode g.nextB cur).1 < (allocNode g.nextB cur).2 ∨
          ∃ m, cur = some m := by cases cur <;> simp [allocNode]
      rcases hlt with hlt | ⟨m, rfl⟩
      · omega
      · have := (hcur m rfl).lt
        have h'' : p.2 = m := h'
        omega
    · have h'' : (allocNode g.nextB cur).2 ≤ p.2 ∧ p.2 < r.next := h'
      omega
  · intro p hp
    have hi : g'.internals = g.internals ++ r.ints := post.ints_eq
    rw [hi, List.mem_append] at hp
    rcases hp with hp | hp
    · have := hg.int_lt p hp
      omega
    · have := post.ints_rng p hp
      omega
  · intro p hp
    rcases (post.frm_iff p).1 hp with h' | h'
    · have := hg.frm_lt p h'
      omega
    · have := post.edges_rng p h'
      omega

/-! ## the class `HofS` -/

theorem hofS_args {e : TExpr} (h : HofS e) {name : String} {ty : Term} (hh : headOf e = .op name ty) :
    ∀ a ∈ argsOf e, HofS a := by
  cases h with
  | src id l t => cases hh
  | spine _ _ _ _ h2 => exact h2

/-- an expression of the class is a source or has an operator at its head -/
theorem hofS_head {e : TExpr} (h : HofS e) :
    (∃ id l t, e = .src id l t) ∨ ∃ name ty, headOf e = .op name ty := by
  cases h with
  | src id l t => exact Or.inl ⟨id, l, t, rfl⟩
  | spine _ name ty hh _ => exact Or.inr ⟨name, ty, hh⟩

theorem hofS_sound : ∀ (e : TExpr), hofS e = true → HofS e
  | .src id l ty, _ => .src id l ty
  | .op name ty, _ => .spine _ name ty rfl (by simp [argsOf])
  | .shared _ _, h => by cases h
  | .app f x t, h => by
    simp only [hofS, Bool.and_eq_true] at h
    obtain ⟨⟨h1, h2⟩, h3⟩ := h
    have ihf := hofS_sound f h2
    have ihx := hofS_sound x h3
    cases hh : headOf f with
    | op name ty =>
      have a2 := hofS_args ihf hh
      refine .spine _ name ty hh ?_
      intro a ha
      simp only [argsOf, List.mem_append, List.mem_singleton] at ha
      rcases ha with ha | rfl
      · exact a2 a ha
      · exact ihx
    | src _ _ _ => rw [hh] at h1; cases h1
    | app _ _ _ => rw [hh] at h1; cases h1
    | shared _ _ => rw [hh] at h1; cases h1

theorem hofS_complete : ∀ (e : TExpr), HofS e → hofS e = true
  | .src _ _ _, _ => rfl
  | .op _ _, _ => rfl
  | .shared _ _, h => by
    cases h with
    | spine _ _ _ hh _ => cases hh
  | .app f x t, h => by
    cases h with
    | spine _ name ty hh hargs =>
      have hhf : headOf f = .op name ty := hh
      have hx : HofS x := hargs x (by simp [argsOf])
      have hf : HofS f := .spine f name ty hhf (fun a ha => hargs a (by simp [argsOf, ha]))
      simp only [hofS, hhf, hofS_complete f hf, hofS_complete x hx, Bool.and_self]

/-- the class of part 9 is a subclass -/
theorem hofS_of_hof {e : TExpr} (h : Hof e) : HofS e := by
  induction h with
  | src id l ty => exact .src id l ty
  | spine e name ty hh _ _ ih => exact .spine e name ty hh ih

/-! ## the arguments of the top spine, and the reading of `hofEdges` for a repeated input -/

/-- the invariant of the argument fold, for the spine that is added to the graph -/
theorem addExpr_hofS_inv {G : GLang} {c : GCfg} {root : Node} {origin : Option Node} (hc : c.withTypes = false)
    {g g' : GState} {e : TExpr} {cur : Option Nat} {im : Bool} {n : Nat} {name : String} {ty : Term}
    (hof : HofS e) (hh : headOf e = .op name ty)
    (hg : GFresh g) (hs : SrcNoInt g) (hcur : ∀ m, cur = some m → CurFree g m)
    (h : addExpr G c root origin g e cur im = .ok (g', n)) :
    SInv (allocNode g.nextB cur).1 { coreOf g with nextB := (allocNode g.nextB cur).2 } (argsOf e) (coreOf g')
      ((argsOf e).foldl hoArgStep { next := (allocNode g.nextB cur).2, memo := g.srcNodes, rs := [] }) := by
  obtain ⟨g1, h1, h2⟩ := addExpr_core (G := G) (root := root) (origin := origin) hc e g cur im
  rw [h1] at h
  cases h
  have hctx := gCtx_of_fresh hg hcur
  have inv := sInv_all hctx (srcInt_of_srcNoInt hs _) (argsOf e)
    (fun a ha => addExprC_flowHOS (hofS_args hof hh a ha))
  rw [h2]
  cases cur with
  | none =>
    rw [addExprC_none_op hh, addExprC_spine e name ty _ _ hh]
    exact inv
  | some m =>
    rw [addExprC_spine e name ty _ _ hh]
    exact inv

/-- what the receiving step of the top spine knows of its arguments: which have an internal node; the internal
nodes are new, pairwise distinct, and different from the step's node and from every argument's node -/
theorem addExpr_hofS_spine_args {G : GLang} {c : GCfg} {root : Node} {origin : Option Node} (hc : c.withTypes = false)
    {g g' : GState} {e : TExpr} {cur : Option Nat} {im : Bool} {n : Nat} {name : String} {ty : Term}
    (hof : HofS e) (hh : headOf e = .op name ty)
    (hg : GFresh g) (hs : SrcNoInt g) (hcur : ∀ m, cur = some m → CurFree g m)
    (h : addExpr G c root origin g e cur im = .ok (g', n)) :
    (spineArgInfos (allocNode g.nextB cur).2 g.srcNodes e).map (fun a => a.lam.isSome) =
      (argsOf e).map (fun a => a.ty.isFunction) ∧
    ((spineArgInfos (allocNode g.nextB cur).2 g.srcNodes e).filterMap (fun a => a.lam)).Nodup ∧
    (∀ a ∈ spineArgInfos (allocNode g.nextB cur).2 g.srcNodes e, a.node ≠ n ∧ a.node < g'.nextB ∧
      ∀ l, a.lam = some l → g.nextB ≤ l ∧ l < g'.nextB ∧ l ≠ n ∧
        ∀ b ∈ spineArgInfos (allocNode g.nextB cur).2 g.srcNodes e, b.node ≠ l) := by
  have inv := addExpr_hofS_inv hc hof hh hg hs hcur h
  have hn : n = (allocNode g.nextB cur).1 := (addExpr_hofS_general hc hof hh hg hs hcur h).1
  have hlt : (allocNode g.nextB cur).1 < (allocNode g.nextB cur).2 ∧ g.nextB ≤ (allocNode g.nextB cur).2 := by
    cases cur with
    | none => simp [allocNode]
    | some m => exact ⟨(hcur m rfl).lt, Nat.le_refl _⟩
  have hnext : g'.nextB = ((argsOf e).foldl hoArgStep
      { next := (allocNode g.nextB cur).2, memo := g.srcNodes, rs := [] }).next := inv.next_eq
  unfold spineArgInfos
  generalize (argsOf e).foldl hoArgStep { next := (allocNode g.nextB cur).2, memo := g.srcNodes, rs := [] } = st
    at inv hnext
  refine ⟨?_, ?_, ?_⟩
  · rw [← inv.shape]
    simp [argInfos]
  · have : (argInfos st.rs).filterMap (fun a => a.lam) = st.rs.filterMap (fun q => q.2) := by
      simp [argInfos, List.filterMap_map, Function.comp_def]
    rw [this]
    exact inv.lams_nodup
  · intro a ha
    obtain ⟨q, hq, rfl⟩ := (mem_argInfos _ _).1 ha
    have h1 := inv.node_lt q hq
    refine ⟨by rw [hn]; exact h1.2, by rw [hnext]; exact h1.1, ?_⟩
    intro l hl
    have h2 := inv.lam_rng q hq l hl
    have h3 : (allocNode g.nextB cur).2 ≤ l := h2.1
    refine ⟨by omega, by rw [hnext]; exact h2.2, by omega, ?_⟩
    intro b hb
    obtain ⟨q', hq', rfl⟩ := (mem_argInfos _ _).1 hb
    exact inv.lam_node q hq l hl q' hq'

theorem filterMap_nodup_inj {α β : Type} (f : α → Option β) :
    ∀ (l : List α), (l.filterMap f).Nodup → ∀ (i j : Nat) (hi : i < l.length) (hj : j < l.length) (b : β),
      f l[i] = some b → f l[j] = some b → i = j
  | [], _, _, _, hi, _, _, _, _ => by cases hi
  | a :: t, h, i, j, hi, hj, b, h1, h2 => by
    have htail : (t.filterMap f).Nodup := by
      cases hfa : f a with
      | none => simpa only [List.filterMap_cons, hfa] using h
      | some c =>
        simp only [List.filterMap_cons, hfa, List.nodup_cons] at h
        exact h.2
    cases i with
    | zero =>
      cases j with
      | zero => rfl
      | succ j =>
        exfalso
        simp only [List.getElem_cons_zero] at h1
        simp only [List.getElem_cons_succ] at h2
        simp only [List.filterMap_cons, h1, List.nodup_cons] at h
        exact h.1 (List.mem_filterMap.2 ⟨_, List.getElem_mem _, h2⟩)
    | succ i =>
      cases j with
      | zero =>
        exfalso
        simp only [List.getElem_cons_zero] at h2
        simp only [List.getElem_cons_succ] at h1
        simp only [List.filterMap_cons, h2, List.nodup_cons] at h
        exact h.1 (List.mem_filterMap.2 ⟨_, List.getElem_mem _, h1⟩)
      | succ j =>
        simp only [List.getElem_cons_succ] at h1 h2
        have := filterMap_nodup_inj f t htail i j (Nat.lt_of_succ_lt_succ hi) (Nat.lt_of_succ_lt_succ hj) b h1 h2
        omega

/-- The edge from an internal node to the node of its own argument. When the internal nodes of a step are
pairwise distinct and different from the step's node and the arguments' nodes, the edge `λᵢ → node(aᵢ)` is in
`hofEdges` exactly when `node(aᵢ)` is also the node of the argument at another position. -/
theorem hofEdges_self_iff (n : Nat) (args : List ArgInfo) (i : Nat) (hi : i < args.length) (l : Nat)
    (hl : args[i].lam = some l) (hn : l ≠ n) (hnode : ∀ b ∈ args, b.node ≠ l)
    (hnd : (args.filterMap (fun a => a.lam)).Nodup) :
    hofEdges n args (l, args[i].node) ↔
      ∃ (j : Nat) (hj : j < args.length), j ≠ i ∧ args[j].node = args[i].node := by
  constructor
  · rintro (⟨a, _, h⟩ | ⟨a, ha, l', _, h⟩ | ⟨i', j', hi', hj', hne, l', hl', h⟩)
    · exact absurd (Prod.mk.inj h).1 hn
    · exact absurd (Prod.mk.inj h).1.symm (hnode a ha)
    · obtain ⟨e1, e2⟩ := Prod.mk.inj h
      subst e1
      have : i' = i := filterMap_nodup_inj (fun a => a.lam) args hnd i' i hi' hi l hl' hl
      subst this
      exact ⟨j', hj', fun h' => hne h'.symm, e2.symm⟩
  · rintro ⟨j, hj, hne, h⟩
    exact Or.inr (Or.inr ⟨i, j, hi, hj, fun h' => hne h'.symm, l, hl, by rw [h]⟩)

/-- the edges of the top spine's layout contain the edges at its receiving step -/
theorem flowHOTop_step_edges (next : Nat) (memo : List (Nat × Nat)) (e : TExpr) (cur : Option Nat) (name : String)
    (ty : Term) (hh : headOf e = .op name ty) (p : Nat × Nat)
    (hp : hofEdges (allocNode next cur).1 (spineArgInfos (allocNode next cur).2 memo e) p) :
    (flowHOTop next memo e cur).edges p := by
  unfold flowHOTop
  rw [flowHO_spine _ _ e _ name ty hh]
  exact Or.inr (Or.inl hp)

/-- the `repeated` rule read off the layout: the internal node in front of the argument at position `i` takes that
argument's own node as input exactly when the node is also the node of the argument at another position -/
theorem addExpr_hofS_repeated {G : GLang} {c : GCfg} {root : Node} {origin : Option Node} (hc : c.withTypes = false)
    {g g' : GState} {e : TExpr} {cur : Option Nat} {im : Bool} {n : Nat} {name : String} {ty : Term}
    (hof : HofS e) (hh : headOf e = .op name ty)
    (hg : GFresh g) (hs : SrcNoInt g) (hcur : ∀ m, cur = some m → CurFree g m)
    (h : addExpr G c root origin g e cur im = .ok (g', n))
    (i : Nat) (hi : i < (spineArgInfos (allocNode g.nextB cur).2 g.srcNodes e).length) (l : Nat)
    (hl : (spineArgInfos (allocNode g.nextB cur).2 g.srcNodes e)[i].lam = some l) :
    (hofEdges n (spineArgInfos (allocNode g.nextB cur).2 g.srcNodes e)
        (l, (spineArgInfos (allocNode g.nextB cur).2 g.srcNodes e)[i].node) ↔
      ∃ (j : Nat) (hj : j < (spineArgInfos (allocNode g.nextB cur).2 g.srcNodes e).length), j ≠ i ∧
        (spineArgInfos (allocNode g.nextB cur).2 g.srcNodes e)[j].node =
          (spineArgInfos (allocNode g.nextB cur).2 g.srcNodes e)[i].node) ∧
    (∀ p, hofEdges n (spineArgInfos (allocNode g.nextB cur).2 g.srcNodes e) p → p ∈ g'.fd.frm) := by
  obtain ⟨_, a2, a3⟩ := addExpr_hofS_spine_args hc hof hh hg hs hcur h
  have gen := addExpr_hofS_general hc hof hh hg hs hcur h
  have hmem := List.getElem_mem hi
  have h3 := (a3 _ hmem).2.2 l hl
  refine ⟨hofEdges_self_iff n _ i hi l hl h3.2.2.1 h3.2.2.2 a2, ?_⟩
  intro p hp
  rw [gen.2.2.2.2.2.2.1 p]
  right
  rw [gen.1] at hp
  exact flowHOTop_step_edges _ _ e cur name ty hh p hp

end Tfv.C08P
