import Tfv.Model
import Tfv.Spec.Sub
import Tfv.Spec.Fits
import Tfv.Proofs.SubOrder
import Tfv.Proofs.Fits
/-!
# C06 — an elimination constraint eliminates exactly the alternatives the argument does not fit

`fulfill` of `x << {alt1, alt2, …}` keeps `alts.filter (fun t => match3 … ref t != some false)`
and raises `constraintViolation` when nothing is left. For a concrete reference `x` and
alternatives whose variables are free in the store (plain or wildcard), `match3 … = some false`
is exactly `fitsB L true x alt = false` (`Tfv/Spec/Fits.lean`), and `fitsB` is the executable
form of "some instance of the alternative is a supertype of `x`" (`Fits`).
Statements only; proofs are one-liners calling lemmas of `Tfv/Proofs/Fits.lean`.
-/
namespace Tfv.C06
open Tfv

/-! ## the specification `fitsB` is what it claims to be -/

/-- on a variable-free pattern `fitsB` is the concrete matcher `matchC` (both polarities) -/
theorem C06_fits_concrete (L : Lang) (pol : Bool) (x t : Ty) :
    fitsB L pol x t.toTerm = matchC L true pol x t := fits_concrete L pol x t

/-- … hence a concrete alternative fits exactly when the argument is a declared subtype of it -/
theorem C06_fits_concrete_sub (L : Lang) (wf : WF L) (x t : Ty)
    (hx : wfTy L x = true) (ht : wfTy L t = true) :
    fitsB L true x t.toTerm = true ↔ Sub L x t := fits_concrete_sub wf x t hx ht

/-- for a linear, well-formed pattern: `fitsB L true x p` holds iff `x` is a subtype of some
well-formed instance of `p` -/
theorem C06_fits_iff (L : Lang) (wf : WF L) (x : Ty) (p : Term)
    (hx : wfTy L x = true) (hp : wfTm L p = true) (hl : linear p) :
    fitsB L true x p = true ↔ Fits L x p := fits_iff wf x p hx hp hl

/-- the contravariant reading: `fitsB L false x p` holds iff some instance of `p` is a subtype of `x` -/
theorem C06_fits_below_iff (L : Lang) (wf : WF L) (x : Ty) (p : Term)
    (hx : wfTy L x = true) (hp : wfTm L p = true) (hl : linear p) :
    fitsB L false x p = true ↔ FitsBelow L x p := fits_below_iff wf x p hx hp hl

/-- without linearity only one direction holds: whenever an instance is a supertype, `fitsB` says yes
(no hypothesis on the pattern's variables) -/
theorem C06_fits_of_instance (L : Lang) (wf : WF L) (x : Ty) (p : Term)
    (hx : wfTy L x = true) (hp : wfTm L p = true) (h : Fits L x p) : fitsB L true x p = true :=
  fits_of_instance wf x p hx hp h

/-- linearity cannot be dropped from `C06_fits_iff`: `b ** b` passes `fitsB` against `A ** C`
(`A`, `C` unrelated) but no instance of it is a supertype -/
theorem C06_fits_iff_needs_linear :
    fitsB FitsEx.exL true FitsEx.xAC FitsEx.pNonLinear = true ∧
      ¬ Fits FitsEx.exL FitsEx.xAC FitsEx.pNonLinear :=
  ⟨FitsEx.nonlinear_fitsB, FitsEx.nonlinear_not_fits⟩

/-! ## the model's matcher -/

/-- the argument loop of `match3` (started with `some true`) answers `some false` exactly when
some zipped argument position is decided `some false` -/
theorem C06_loop_some_false (L : Lang) (σ : Store) (n : Nat) (st aw : Bool)
    (vs : List Bool) (ss ts : List Term) :
    match3.loop L σ n st aw vs ss ts (some true) = some false ↔ anyFalse L σ n st aw vs ss ts :=
  loop_start_some_false L σ n st aw vs ss ts

/-- **Elimination.** `x` concrete, the variables of the alternative `p` free in the store (unbound,
no bounds, wildcard or not), fuel above the depth of `x`: the matcher answers `some false`
exactly when `x` does not fit `p`. -/
theorem C06_match3_eliminates (L : Lang) (σ : Store) (n : Nat) (x : Ty) (p : Term)
    (hf : PatFree σ p) (hn : Ty.depth x < n) :
    match3 L σ n true true x.toTerm p = some false ↔ fitsB L true x p = false :=
  match3_eliminates L σ n x p hf hn

/-- the symmetric statement used in contravariant positions (pattern on the left) -/
theorem C06_match3_eliminates_contra (L : Lang) (σ : Store) (n : Nat) (x : Ty) (p : Term)
    (hf : PatFree σ p) (hn : Ty.depth x < n) :
    match3 L σ n true true p x.toTerm = some false ↔ fitsB L false x p = false :=
  match3_eliminates_contra L σ n x p hf hn

/-- a definite yes is a fit -/
theorem C06_match3_true_fits (L : Lang) (σ : Store) (n : Nat) (x : Ty) (p : Term)
    (hf : PatFree σ p) (hn : Ty.depth x < n)
    (h : match3 L σ n true true x.toTerm p = some true) : fitsB L true x p = true :=
  match3_not_false_fits L σ n x p hf hn (by rw [h]; simp)

/-- "not enough information" is a fit as well (the alternative is kept) -/
theorem C06_match3_none_fits (L : Lang) (σ : Store) (n : Nat) (x : Ty) (p : Term)
    (hf : PatFree σ p) (hn : Ty.depth x < n)
    (h : match3 L σ n true true x.toTerm p = none) : fitsB L true x p = true :=
  match3_not_false_fits L σ n x p hf hn (by rw [h]; simp)

/-- **The filter of `fulfill`** keeps exactly the fitting alternatives. -/
theorem C06_filter_keeps_fitting (L : Lang) (σ : Store) (n : Nat) (x : Ty) (alts : List Term)
    (hf : ∀ t ∈ alts, PatFree σ t) (hn : Ty.depth x < n) :
    alts.filter (fun t => match3 L σ n true true x.toTerm t != some false) =
      alts.filter (fun t => fitsB L true x t) := filter_keeps_fitting L σ n x alts hf hn

/-- the same with the fuel `fulfill` really uses -/
theorem C06_fulfill_filter (L : Lang) (σ : Store) (x : Ty) (alts : List Term)
    (hf : ∀ t ∈ alts, PatFree σ t) (hn : Ty.depth x < 64) :
    alts.filter (fun t => match3 L σ (matchFuel σ) true true x.toTerm t != some false) =
      alts.filter (fun t => fitsB L true x t) :=
  filter_keeps_fitting L σ (matchFuel σ) x alts hf (by unfold matchFuel; omega)

/-- the filtered list is empty (the model raises `constraintViolation`) iff no alternative fits -/
theorem C06_accept_iff_fits_filter (L : Lang) (σ : Store) (n : Nat) (x : Ty) (alts : List Term)
    (hf : ∀ t ∈ alts, PatFree σ t) (hn : Ty.depth x < n) :
    alts.filter (fun t => match3 L σ n true true x.toTerm t != some false) = [] ↔
      ∀ t ∈ alts, fitsB L true x t = false := filter_empty_iff L σ n x alts hf hn

/-- … in declarative terms, for linear well-formed alternatives: violation iff the argument is a
subtype of no instance of any alternative -/
theorem C06_violation_iff_no_fit (L : Lang) (wf : WF L) (σ : Store) (n : Nat) (x : Ty) (alts : List Term)
    (hx : wfTy L x = true) (hp : ∀ t ∈ alts, wfTm L t = true) (hl : ∀ t ∈ alts, linear t)
    (hf : ∀ t ∈ alts, PatFree σ t) (hn : Ty.depth x < n) :
    alts.filter (fun t => match3 L σ n true true x.toTerm t != some false) = [] ↔
      ∀ t ∈ alts, ¬ Fits L x t := filter_empty_iff_no_fit wf σ n x alts hx hp hl hf hn

/-- concrete alternatives need no hypothesis on the store -/
theorem C06_concrete_alt_free (σ : Store) (t : Ty) : PatFree σ t.toTerm := patFree_concrete σ t

/-! ## the reference is a variable with a base-type bound -/

/-- unbound reference variable with lower bound `l` (no upper bound), base-type alternative `bo`:
eliminated exactly when the lower bound is not below the alternative -/
theorem C06_bounded_var (L : Lang) (σ : Store) (n : Nat) (a l bo : Nat) (hn : 0 < n)
    (hb : (getVar σ a).bound = none) (hl : (getVar σ a).lower = some l)
    (hu : (getVar σ a).upper = none) (h0 : arityOf L bo = 0) :
    match3 L σ n true true (.var a) (.app bo []) = some false ↔ (bo ≠ TOP ∧ opSub L l bo = false) :=
  bounded_var_base L σ n a l bo [] hn hb hl hu h0

/-- a compound alternative (other than Top) is always eliminated for a bounded reference variable -/
theorem C06_bounded_var_compound (L : Lang) (σ : Store) (n : Nat) (a l bo : Nat) (bs : List Term)
    (hn : 0 < n) (hb : (getVar σ a).bound = none) (hl : (getVar σ a).lower = some l)
    (h0 : arityOf L bo ≠ 0) (ht : bo ≠ TOP) :
    match3 L σ n true true (.var a) (.app bo bs) = some false :=
  bounded_var_compound L σ n a l bo bs hn hb hl h0 ht

/-- with an upper bound `u` only, a base-type alternative is never eliminated: the variable may still become
any subtype of `u` (this is the repaired `match`; before the repair an alternative strictly below the upper
bound was eliminated, which made the outcome depend on the re-check order, see C18) -/
theorem C06_bounded_var_upper (L : Lang) (σ : Store) (n : Nat) (a u bo : Nat) (hn : 0 < n)
    (hb : (getVar σ a).bound = none) (hl : (getVar σ a).lower = none)
    (hu : (getVar σ a).upper = some u) (h0 : arityOf L bo = 0) :
    match3 L σ n true true (.var a) (.app bo []) ≠ some false :=
  bounded_var_upper L σ n a u bo [] hn hb hl hu h0

/-! ## non-vacuity: `A > B`, unary `F`, binary `G`, unrelated `C` -/

open FitsEx

/-- variable 0 is a plain variable `b`, variable 1 the wildcard `_` -/
def exσ : Store := { vars := [{}, { wildcard := true }], csets := [[], []] }
/-- `G(b, _)` -/
def pG : Term := .app 8 [.var 0, .var 1]
/-- `G(B, A)` -/
def xG : Ty := .app 8 [.app 6 [], .app 5 []]
/-- the alternatives `F(b)`, `G(b, _)`, `G(A, B)`, `G(A, A)` -/
def exAlts : List Term :=
  [.app 7 [.var 0], pG, .app 8 [.app 5 [], .app 6 []], .app 8 [.app 5 [], .app 5 []]]

theorem ar8 : arityOf exL 8 = 2 := rfl
theorem va8 : varianceOf exL 8 = [true, true] := rfl
theorem ar7 : arityOf exL 7 = 1 := rfl
theorem ar6 : arityOf exL 6 = 0 := rfl
theorem ar5 : arityOf exL 5 = 0 := rfl
theorem ar4 : arityOf exL 4 = 2 := rfl
theorem va4 : varianceOf exL 4 = [false, true] := rfl

-- hypotheses of the theorems are satisfiable
example : WF exL := exL_wf
example : PatFree exσ pG := by decide
example : ∀ t ∈ exAlts, PatFree exσ t := by decide
example : ∀ t ∈ exAlts, linear t := by decide
example : ∀ t ∈ exAlts, wfTm exL t = true := by decide
example : wfTy exL xG = true := by decide
example : Ty.depth xG < matchFuel exσ := by decide
-- `G(B, A)` fits `G(b, _)`; the matcher says "not enough information" and keeps it
example : fitsB exL true xG pG = true := by decide
example : match3 exL exσ (matchFuel exσ) true true xG.toTerm pG = none := by
  simp [matchFuel, match3, match3.loop, xG, pG, Ty.toTerm, Ty.toTermL, followT, follow, getVar, exσ,
    ar8, va8, ar5, ar6, BOT, TOP]
example : Fits exL xG pG :=
  (C06_fits_iff exL exL_wf xG pG (by decide) (by decide) (by decide)).mp (by decide)
-- `G(B, A)` does not fit `F(b)` nor `G(A, B)`
example : fitsB exL true xG (.app 7 [.var 0]) = false := by decide
example : match3 exL exσ (matchFuel exσ) true true xG.toTerm (.app 7 [.var 0]) = some false := by
  simp [matchFuel, match3, xG, Ty.toTerm, Ty.toTermL, followT, follow, ar8, BOT, TOP]
example : match3 exL exσ (matchFuel exσ) true true xG.toTerm (.app 8 [.app 5 [], .app 6 []]) = some false :=
  (C06_match3_eliminates exL exσ _ xG _ (by decide) (by decide)).mpr (by decide)
-- the filter keeps `G(b, _)` and `G(A, A)`
example : exAlts.filter (fun t => match3 exL exσ (matchFuel exσ) true true xG.toTerm t != some false) =
    [pG, .app 8 [.app 5 [], .app 5 []]] := by
  rw [C06_fulfill_filter exL exσ xG exAlts (by decide) (by decide)]; rfl
-- and rejects everything for the argument `C`
example : exAlts.filter (fun t => match3 exL exσ (matchFuel exσ) true true (Ty.app 9 []).toTerm t != some false) = [] :=
  (C06_accept_iff_fits_filter exL exσ _ (.app 9 []) exAlts (by decide) (by decide)).mpr (by decide)
-- contravariance: `A ** F(B)` fits `b ** F(_)` and `B ** _`, but `B ** F(B)` does not fit `A ** _`
example : fitsB exL true (.app FUN [.app 5 [], .app 7 [.app 6 []]]) (.app FUN [.var 0, .app 7 [.var 1]]) = true := by decide
example : fitsB exL true (.app FUN [.app 5 [], .app 7 [.app 6 []]]) (.app FUN [.app 6 [], .var 1]) = true := by decide
example : fitsB exL true (.app FUN [.app 6 [], .app 7 [.app 6 []]]) (.app FUN [.app 5 [], .var 1]) = false := by decide
example : match3 exL exσ (matchFuel exσ) true true
    (Ty.app FUN [.app 6 [], .app 7 [.app 6 []]]).toTerm (.app FUN [.app 5 [], .var 1]) = some false :=
  (C06_match3_eliminates exL exσ _ _ _ (by decide) (by decide)).mpr (by decide)

/-- variable 0 has lower bound `B`, variable 1 has upper bound `A` -/
def exσ2 : Store := { vars := [{ lower := some 6 }, { upper := some 5 }], csets := [[], []] }

-- lower bound `B`: the alternative `A` stays, `C` and `F(_)` go
example : match3 exL exσ2 8 true true (.var 0) (.app 5 []) ≠ some false := by
  rw [Ne, C06_bounded_var exL exσ2 8 0 6 5 (by decide) rfl rfl rfl rfl]; decide
example : match3 exL exσ2 8 true true (.var 0) (.app 9 []) = some false :=
  (C06_bounded_var exL exσ2 8 0 6 9 (by decide) rfl rfl rfl rfl).mpr (by decide)
example : match3 exL exσ2 8 true true (.var 0) (.app 7 [.var 1]) = some false :=
  C06_bounded_var_compound exL exσ2 8 0 6 7 _ (by decide) rfl rfl (by decide) (by decide)
-- upper bound `A`: the alternative `B < A` is kept, the variable can still become `B`
example : match3 exL exσ2 8 true true (.var 1) (.app 6 []) ≠ some false :=
  C06_bounded_var_upper exL exσ2 8 1 5 6 (by decide) rfl rfl rfl rfl

end Tfv.C06
