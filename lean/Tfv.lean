import Tfv.Generated
import Tfv.Model
import Tfv.Spec.Sub
import Tfv.Props.C01
import Tfv.Props.C02
import Tfv.Props.C14
import Tfv.Props.C20
import Tfv.Props.C09
