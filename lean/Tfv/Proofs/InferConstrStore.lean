import Tfv.Proofs.InferUnify
import Tfv.Proofs.InferCheck
/-!
# The inference engine WITH deferred constraints (C03, type part): store invariant

`OkStoreC L σ` extends `OkStore` by: every registered constraint mentions only
well-formed terms, every constraint id in a constraint set is allocated.
`StepC L σ σ'`: `σ'` is a sound successor of `σ` (invariant holds, no variable and no
constraint is lost, every solution of `σ'` is a solution of `σ`).
-/
namespace Tfv.C03C
open Tfv Tfv.C03P

/-! ## 1. the invariant -/

/-- every constraint id in every constraint set is allocated -/
def CsR (σ : Store) : Prop := ∀ cs, cs ∈ σ.csets → ∀ c, c ∈ cs → c < σ.constrs.length

/-- every registered constraint mentions well-formed terms only -/
def CtOk (L : Lang) (σ : Store) : Prop := ∀ x, x ∈ σ.constrs → okTermL L σ (constrTerms x) = true

structure OkStoreC (L : Lang) (σ : Store) : Prop where
  ok : OkStore L σ
  cterms : CtOk L σ
  crange : CsR σ

theorem getCset_mem_or_nil (σ : Store) (k : Nat) : getCset σ k ∈ σ.csets ∨ getCset σ k = [] := by
  unfold getCset
  rw [List.getD_eq_getElem?_getD]
  by_cases hk : k < σ.csets.length
  · rw [List.getElem?_eq_getElem hk]; exact Or.inl (List.getElem_mem hk)
  · rw [List.getElem?_eq_none (by omega)]; exact Or.inr rfl

theorem CsR.get {σ : Store} (h : CsR σ) {k c : Nat} (hc : c ∈ getCset σ k) : c < σ.constrs.length := by
  rcases getCset_mem_or_nil σ k with hm | hn
  · exact h _ hm c hc
  · rw [hn] at hc; cases hc

theorem getConstr_mem {σ : Store} {c : Nat} (hc : c < σ.constrs.length) : getConstr σ c ∈ σ.constrs := by
  unfold getConstr
  rw [List.getD_eq_getElem?_getD, List.getElem?_eq_getElem hc]
  exact List.getElem_mem hc

theorem OkStoreC.cget {L : Lang} {σ : Store} (h : OkStoreC L σ) {c : Nat} (hc : c < σ.constrs.length) :
    okTermL L σ (constrTerms (getConstr σ c)) = true := h.cterms _ (getConstr_mem hc)

theorem getConstr_setConstr_eq {σ : Store} {c : Nat} (x : Constr) (hc : c < σ.constrs.length) :
    getConstr (setConstr σ c x) c = x := by
  unfold getConstr setConstr
  simp [List.getD_eq_getElem?_getD, hc]

@[simp] theorem length_setConstr (σ : Store) (c : Nat) (x : Constr) :
    (setConstr σ c x).constrs.length = σ.constrs.length := by
  unfold setConstr; simp

theorem csR_setVar {σ : Store} (h : CsR σ) (v : Nat) (i : VarInfo) : CsR (setVar σ v i) := h

theorem csR_setCset {σ : Store} (h : CsR σ) (k : Nat) {cs : List Nat}
    (hcs : ∀ c, c ∈ cs → c < σ.constrs.length) : CsR (setCset σ k cs) := by
  intro cs' hm c hc
  unfold setCset at hm
  rcases List.mem_or_eq_of_mem_set hm with h1 | h1
  · exact h _ h1 c hc
  · subst h1; exact hcs c hc

theorem csR_setConstr {σ : Store} (h : CsR σ) (c : Nat) (x : Constr) : CsR (setConstr σ c x) := by
  intro cs hm d hd
  rw [length_setConstr]
  exact h cs hm d hd

theorem ctOk_setConstr {L : Lang} {σ : Store} (h : CtOk L σ) (c : Nat) {x : Constr}
    (hx : okTermL L σ (constrTerms x) = true) : CtOk L (setConstr σ c x) := by
  intro y hy
  have hle : σ.vars.length ≤ (setConstr σ c x).vars.length := Nat.le_refl _
  unfold setConstr at hy
  rcases List.mem_or_eq_of_mem_set hy with h1 | h1
  · exact okTermL_mono hle _ (h y h1)
  · subst h1; exact okTermL_mono hle _ hx

theorem mem_insertSorted {c x : Nat} : ∀ {l : List Nat}, x ∈ insertSorted c l → x = c ∨ x ∈ l
  | [], h => by
    unfold insertSorted at h
    simp only [List.mem_singleton] at h
    exact Or.inl h
  | y :: ys, h => by
    unfold insertSorted at h
    split at h
    · rcases List.mem_cons.mp h with h1 | h1
      · exact Or.inl h1
      · exact Or.inr h1
    · split at h
      · exact Or.inr h
      · rcases List.mem_cons.mp h with h1 | h1
        · exact Or.inr (by rw [h1]; exact List.mem_cons_self)
        · rcases mem_insertSorted h1 with h2 | h2
          · exact Or.inl h2
          · exact Or.inr (List.mem_cons_of_mem _ h2)

theorem mem_unionSorted {x : Nat} : ∀ (b a : List Nat), x ∈ unionSorted a b → x ∈ a ∨ x ∈ b := by
  intro b
  induction b with
  | nil => intro a h; exact Or.inl h
  | cons y ys ih =>
    intro a h
    unfold unionSorted at h
    simp only [List.foldl_cons] at h
    rcases ih (insertSorted y a) h with h1 | h1
    · rcases mem_insertSorted h1 with h2 | h2
      · exact Or.inr (by rw [h2]; exact List.mem_cons_self)
      · exact Or.inl h2
    · exact Or.inr (List.mem_cons_of_mem _ h1)

/-- the merged constraint set `bind` computes for a compound binding -/
theorem merged_range {σ : Store} (P : Nat → Prop) (hP : ∀ k c, c ∈ getCset σ k → P c) (vars : List Nat) :
    ∀ (init : List Nat), (∀ c, c ∈ init → P c) →
    ∀ c, c ∈ vars.foldl (fun acc w => unionSorted acc (getCset σ (getVar σ w).cset)) init → P c := by
  induction vars with
  | nil => intro init h c hc; exact h c hc
  | cons w ws ih =>
    intro init h c hc
    simp only [List.foldl_cons] at hc
    refine ih _ ?_ c hc
    intro d hd
    rcases mem_unionSorted _ _ hd with h1 | h1
    · exact h d h1
    · exact hP _ d h1

theorem csets_foldl_cset (k : Nat) (vars : List Nat) : ∀ (σ : Store),
    (vars.foldl (fun σ w => setVar σ w { (getVar σ w) with cset := k }) σ).csets = σ.csets ∧
    (vars.foldl (fun σ w => setVar σ w { (getVar σ w) with cset := k }) σ).constrs = σ.constrs := by
  induction vars with
  | nil => intro σ; exact ⟨rfl, rfl⟩
  | cons w ws ih =>
    intro σ
    simp only [List.foldl_cons]
    exact ih _

/-- the invariant on a store with the same constraints and at least the same variables -/
theorem OkStoreC.transfer {L : Lang} {σ σ' : Store} (okc : OkStoreC L σ) (ok' : OkStore L σ')
    (hlen : σ.vars.length ≤ σ'.vars.length) (hc : σ'.constrs = σ.constrs) (hr : CsR σ') : OkStoreC L σ' :=
  ⟨ok', fun x hx => okTermL_mono hlen _ (okc.cterms x (hc ▸ hx)), hr⟩

/-! ## 1b. wildcard flags and the identity of subtype constraints -/

/-- no variable is a wildcard -/
def NoWild (σ : Store) : Prop := ∀ v, (getVar σ v).wildcard = false

/-- wildcard flags are only ever cleared -/
def WildMono (σ σ' : Store) : Prop := ∀ v, (getVar σ' v).wildcard = true → (getVar σ v).wildcard = true

theorem WildMono.refl (σ : Store) : WildMono σ σ := fun _ h => h

theorem WildMono.trans {a b c : Store} (h1 : WildMono a b) (h2 : WildMono b c) : WildMono a c :=
  fun v h => h1 v (h2 v h)

theorem WildMono.noWild {σ σ' : Store} (h : WildMono σ σ') (nw : NoWild σ) : NoWild σ' := by
  intro v
  cases e : (getVar σ' v).wildcard with
  | false => rfl
  | true =>
    have := h v e
    rw [nw v] at this
    cases this

theorem wildMono_setVar {σ : Store} {v : Nat} {i : VarInfo}
    (hi : i.wildcard = true → (getVar σ v).wildcard = true) : WildMono σ (setVar σ v i) := by
  intro w hw
  rw [getVar_setVar] at hw
  split at hw
  · next e => rw [← e.1]; exact hi hw
  · exact hw

theorem wildMono_setVar2 {σ : Store} {v : Nat} {i0 i1 : VarInfo} (h0 : i0.wildcard = false)
    (h1 : i1.wildcard = false) : WildMono σ (setVar (setVar σ v i0) v i1) :=
  WildMono.trans (b := setVar σ v i0) (wildMono_setVar (fun h => by rw [h0] at h; cases h))
    (wildMono_setVar (fun h => by rw [h1] at h; cases h))

theorem wildMono_setCset (σ : Store) (k : Nat) (cs : List Nat) : WildMono σ (setCset σ k cs) := fun _ h => h

theorem wildMono_setConstr (σ : Store) (c : Nat) (x : Constr) : WildMono σ (setConstr σ c x) := fun _ h => h

theorem wildMono_newVar (σ : Store) : WildMono σ (newVar σ false).1 := by
  intro w hw
  by_cases h1 : w < σ.vars.length
  · rw [getVar_newVar_lt h1] at hw; exact hw
  · exfalso
    by_cases h2 : w = σ.vars.length
    · subst h2
      unfold getVar newVar at hw
      simp at hw
    · have : ¬ w < (newVar σ false).1.vars.length := by rw [length_newVar]; omega
      rw [getVar_oor this] at hw
      cases hw

theorem wildMono_foldl_cset (k : Nat) (vars : List Nat) : ∀ (σ : Store),
    WildMono σ (vars.foldl (fun σ w => setVar σ w { (getVar σ w) with cset := k }) σ) := by
  induction vars with
  | nil => intro σ; exact WildMono.refl σ
  | cons w ws ih =>
    intro σ
    simp only [List.foldl_cons]
    exact WildMono.trans (b := setVar σ w { (getVar σ w) with cset := k })
      (wildMono_setVar (fun h => h)) (ih _)

theorem getConstr_congr {σ σ' : Store} (h : σ'.constrs = σ.constrs) (c : Nat) :
    getConstr σ' c = getConstr σ c := by
  unfold getConstr; rw [h]

theorem getConstr_setConstr_ne {σ : Store} {c d : Nat} (x : Constr) (h : c ≠ d) :
    getConstr (setConstr σ c x) d = getConstr σ d := by
  unfold getConstr setConstr
  simp [List.getD_eq_getElem?_getD, h]

/-! ## 2. sound successor stores -/

/-- the weak form: invariant kept, nothing lost, solutions only shrink (fresh wildcards allowed) -/
structure StepA (L : Lang) (σ σ' : Store) : Prop where
  ok : OkStoreC L σ'
  len : σ.vars.length ≤ σ'.vars.length
  clen : σ.constrs.length ≤ σ'.constrs.length
  sat : ∀ ρ, Sat L ρ σ' → Sat L ρ σ

theorem StepA.refl {L : Lang} {σ : Store} (ok : OkStoreC L σ) : StepA L σ σ :=
  ⟨ok, Nat.le_refl _, Nat.le_refl _, fun _ h => h⟩

theorem StepA.trans {L : Lang} {a b c : Store} (h1 : StepA L a b) (h2 : StepA L b c) : StepA L a c :=
  ⟨h2.ok, Nat.le_trans h1.len h2.len, Nat.le_trans h1.clen h2.clen, fun ρ h => h1.sat ρ (h2.sat ρ h)⟩

/-- a step of the engine proper: additionally wildcard flags are only cleared, subtype constraints keep
their terms, and (on wildcard-free stores) every subtype constraint newly marked fulfilled holds -/
structure StepC (L : Lang) (σ σ' : Store) : Prop where
  ok : OkStoreC L σ'
  len : σ.vars.length ≤ σ'.vars.length
  clen : σ.constrs.length ≤ σ'.constrs.length
  sat : ∀ ρ, Sat L ρ σ' → Sat L ρ σ
  wild : WildMono σ σ'
  subkeep : ∀ c r t s f, c < σ.constrs.length → getConstr σ c = .sub r t s f →
    ∃ f', getConstr σ' c = .sub r t s f'
  subful : NoWild σ → ∀ c r t s, c < σ'.constrs.length → getConstr σ' c = .sub r t s true →
    (c < σ.constrs.length ∧ getConstr σ c = .sub r t s true) ∨
    (∀ ρ, Sat L ρ σ' → Sub L (den ρ r) (den ρ t))

theorem StepC.toA {L : Lang} {σ σ' : Store} (s : StepC L σ σ') : StepA L σ σ' := ⟨s.ok, s.len, s.clen, s.sat⟩

/-- a step that leaves the list of constraints alone -/
theorem StepC.of_frame {L : Lang} {σ σ' : Store} (okc' : OkStoreC L σ') (hlen : σ.vars.length ≤ σ'.vars.length)
    (hc : σ'.constrs = σ.constrs) (hw : WildMono σ σ') (hsat : ∀ ρ, Sat L ρ σ' → Sat L ρ σ) : StepC L σ σ' :=
  ⟨okc', hlen, Nat.le_of_eq (congrArg List.length hc).symm, hsat, hw,
   fun c r t s f _ h => ⟨f, by rw [getConstr_congr hc]; exact h⟩,
   fun _ c r t s hlt h => Or.inl ⟨by rw [← hc]; exact hlt, by rw [← getConstr_congr hc]; exact h⟩⟩

/-- prefix a step by a change of the variables that is justified only afterwards -/
theorem StepC.of_pre {L : Lang} {σ0 σ σ' : Store} (s : StepC L σ σ') (hc : σ.constrs = σ0.constrs)
    (hw : WildMono σ0 σ) (hlen : σ0.vars.length ≤ σ'.vars.length) (hsat : ∀ ρ, Sat L ρ σ' → Sat L ρ σ0) :
    StepC L σ0 σ' :=
  ⟨s.ok, hlen, by rw [← hc]; exact s.clen, hsat, hw.trans s.wild,
   fun c r t s' f hlt h => s.subkeep c r t s' f (by rw [hc]; exact hlt) (by rw [getConstr_congr hc]; exact h),
   fun nw c r t s' hlt h => by
    rcases s.subful (hw.noWild nw) c r t s' hlt h with ⟨h1, h2⟩ | good
    · exact Or.inl ⟨by rw [← hc]; exact h1, by rw [← getConstr_congr hc]; exact h2⟩
    · exact Or.inr good⟩

theorem StepC.refl {L : Lang} {σ : Store} (ok : OkStoreC L σ) : StepC L σ σ :=
  StepC.of_frame ok (Nat.le_refl _) rfl (WildMono.refl σ) (fun _ h => h)

theorem StepC.trans {L : Lang} {a b c : Store} (h1 : StepC L a b) (h2 : StepC L b c) : StepC L a c :=
  ⟨h2.ok, Nat.le_trans h1.len h2.len, Nat.le_trans h1.clen h2.clen, fun ρ h => h1.sat ρ (h2.sat ρ h),
   h1.wild.trans h2.wild,
   fun d r t s f hd h => by
    obtain ⟨f1, e1⟩ := h1.subkeep d r t s f hd h
    exact h2.subkeep d r t s f1 (Nat.lt_of_lt_of_le hd h1.clen) e1,
   fun nw d r t s hd h => by
    rcases h2.subful (h1.wild.noWild nw) d r t s hd h with ⟨hd1, e1⟩ | good
    · rcases h1.subful nw d r t s hd1 e1 with inh | good
      · exact Or.inl inh
      · exact Or.inr (fun ρ hρ => good ρ (h2.sat ρ hρ))
    · exact Or.inr good⟩

theorem StepC.of_sameCore {L : Lang} {σ σ' : Store} (okc : OkStoreC L σ) (c : SameCore σ σ')
    (hc : σ'.constrs = σ.constrs) (hr : CsR σ') (hw : WildMono σ σ') : StepC L σ σ' :=
  StepC.of_frame (okc.transfer (c.okStore okc.ok) (Nat.le_of_eq c.len.symm) hc hr) (Nat.le_of_eq c.len.symm)
    hc hw (fun _ h => c.sat h)

/-- replacing a constraint by one over well-formed terms; a subtype constraint keeps its terms, and if it
is marked fulfilled it was so before or it holds -/
theorem stepC_setConstr {L : Lang} {σ : Store} (okc : OkStoreC L σ) {c : Nat} (hc : c < σ.constrs.length)
    {x : Constr} (hx : okTermL L σ (constrTerms x) = true)
    (hk : ∀ r t s f, getConstr σ c = .sub r t s f → ∃ f', x = .sub r t s f')
    (hf : NoWild σ → ∀ r t s, x = .sub r t s true → getConstr σ c = .sub r t s true ∨
      ∀ ρ, Sat L ρ σ → Sub L (den ρ r) (den ρ t)) : StepC L σ (setConstr σ c x) :=
  have sc : SameCore σ (setConstr σ c x) := ⟨rfl, fun _ => rfl, fun _ => rfl, fun _ => rfl⟩
  ⟨⟨sc.okStore okc.ok, ctOk_setConstr okc.cterms c hx, csR_setConstr okc.crange c x⟩,
   Nat.le_refl _, by rw [length_setConstr]; exact Nat.le_refl _, fun _ h => sc.sat h,
   wildMono_setConstr σ c x,
   fun d r t s f _ h => by
    by_cases e : c = d
    · subst e
      obtain ⟨f', e'⟩ := hk r t s f h
      exact ⟨f', by rw [getConstr_setConstr_eq x hc]; exact e'⟩
    · exact ⟨f, by rw [getConstr_setConstr_ne x e]; exact h⟩,
   fun nw d r t s hd h => by
    rw [length_setConstr] at hd
    by_cases e : c = d
    · subst e
      rw [getConstr_setConstr_eq x hc] at h
      rcases hf nw r t s h with inh | good
      · exact Or.inl ⟨hc, inh⟩
      · exact Or.inr (fun ρ hρ => good ρ (sc.sat hρ))
    · rw [getConstr_setConstr_ne x e] at h
      exact Or.inl ⟨hd, h⟩⟩

/-- replacing a constraint set by allocated ids -/
theorem stepC_setCset {L : Lang} {σ : Store} (okc : OkStoreC L σ) (k : Nat) {cs : List Nat}
    (hcs : ∀ c, c ∈ cs → c < σ.constrs.length) : StepC L σ (setCset σ k cs) :=
  StepC.of_sameCore okc (sameCore_setCset σ k cs) rfl (csR_setCset okc.crange k hcs) (wildMono_setCset σ k cs)

theorem StepC.okTerm {L : Lang} {σ σ' : Store} (s : StepC L σ σ') {t : Term}
    (h : okTerm L σ t = true) : okTerm L σ' t = true := okTerm_mono s.len t h

theorem StepC.okTermL {L : Lang} {σ σ' : Store} (s : StepC L σ σ') {ts : List Term}
    (h : okTermL L σ ts = true) : okTermL L σ' ts = true := okTermL_mono s.len ts h

/-! ## 3. fresh variables -/

theorem okStore_newVar {L : Lang} {σ : Store} (ok : OkStore L σ) (wc : Bool) : OkStore L (newVar σ wc).1 where
  bound := fun v t hb => by
    rw [(getVar_newVar_core σ wc v).1] at hb
    exact okTerm_mono (by rw [length_newVar]; omega) t (ok.bound v t hb)
  lower := fun v => by rw [(getVar_newVar_core σ wc v).2.1]; exact ok.lower v
  upper := fun v => by rw [(getVar_newVar_core σ wc v).2.2]; exact ok.upper v
  ordered := fun v l u hl hu => by
    rw [(getVar_newVar_core σ wc v).2.1] at hl
    rw [(getVar_newVar_core σ wc v).2.2] at hu
    exact ok.ordered v l u hl hu
  basic := fun v o args hb hx => by
    rw [(getVar_newVar_core σ wc v).1] at hb
    rw [(getVar_newVar_core σ wc v).2.1, (getVar_newVar_core σ wc v).2.2] at hx
    exact ok.basic v o args hb hx

theorem sat_newVar {L : Lang} {σ : Store} {ρ : Val} (wc : Bool) (h : Sat L ρ (newVar σ wc).1) : Sat L ρ σ :=
  ⟨h.wf,
   fun v t hb => h.bound v t (by rw [(getVar_newVar_core σ wc v).1]; exact hb),
   fun v l hb hl => h.lower v l (by rw [(getVar_newVar_core σ wc v).1]; exact hb)
     (by rw [(getVar_newVar_core σ wc v).2.1]; exact hl),
   fun v u hb hu => h.upper v u (by rw [(getVar_newVar_core σ wc v).1]; exact hb)
     (by rw [(getVar_newVar_core σ wc v).2.2]; exact hu)⟩

theorem csR_newVar {σ : Store} (h : CsR σ) (wc : Bool) : CsR (newVar σ wc).1 := by
  intro cs hm c hc
  unfold newVar at hm
  simp only [List.mem_append, List.mem_singleton] at hm
  rcases hm with h1 | h1
  · exact h cs h1 c hc
  · subst h1; cases hc

theorem stepA_newVar {L : Lang} {σ : Store} (okc : OkStoreC L σ) (wc : Bool) : StepA L σ (newVar σ wc).1 :=
  ⟨okc.transfer (okStore_newVar okc.ok wc) (by rw [length_newVar]; omega) rfl (csR_newVar okc.crange wc),
   by rw [length_newVar]; omega, Nat.le_refl _, fun _ h => sat_newVar wc h⟩

theorem stepC_newVar {L : Lang} {σ : Store} (okc : OkStoreC L σ) : StepC L σ (newVar σ false).1 :=
  StepC.of_frame (stepA_newVar okc false).ok (by rw [length_newVar]; omega) rfl (wildMono_newVar σ)
    (fun _ h => sat_newVar false h)

theorem stepC_newVars {L : Lang} : ∀ (n : Nat) {σ : Store}, OkStoreC L σ →
    StepC L σ (newVars σ n).1 ∧ okTermL L (newVars σ n).1 (newVars σ n).2 = true ∧
    (newVars σ n).2.length = n
  | 0, σ, okc => by
    unfold newVars
    exact ⟨StepC.refl okc, okTermL_nil, rfl⟩
  | n+1, σ, okc => by
    have s1 := stepC_newVar (L := L) okc
    obtain ⟨s2, h2, h3⟩ := stepC_newVars n s1.ok
    unfold newVars
    simp only []
    refine ⟨s1.trans s2, okTermL_cons.mpr ⟨okTerm_var.mpr ?_, h2⟩, by simp [h3]⟩
    have := s2.len
    rw [length_newVar] at this
    rw [snd_newVar]; omega

/-! ## 4. lists of well-formed terms -/

theorem okTermL_iff {L : Lang} {σ : Store} : ∀ {ts : List Term},
    okTermL L σ ts = true ↔ ∀ t, t ∈ ts → okTerm L σ t = true
  | [] => Iff.intro (fun _ _ h => nomatch h) (fun _ => okTermL_nil)
  | t :: ts => by
    rw [okTermL_cons, okTermL_iff (ts := ts)]
    constructor
    · intro h x hx
      rcases List.mem_cons.mp hx with h1 | h1
      · rw [h1]; exact h.1
      · exact h.2 x h1
    · intro h
      exact ⟨h t List.mem_cons_self, fun x hx => h x (List.mem_cons_of_mem _ hx)⟩

theorem okTermL_filter {L : Lang} {σ : Store} {ts : List Term} (p : Term → Bool)
    (h : okTermL L σ ts = true) : okTermL L σ (ts.filter p) = true :=
  okTermL_iff.mpr fun t ht => okTermL_iff.mp h t (List.mem_filter.mp ht).1

theorem okTermL_append {L : Lang} {σ : Store} {xs ys : List Term}
    (h1 : okTermL L σ xs = true) (h2 : okTermL L σ ys = true) : okTermL L σ (xs ++ ys) = true :=
  okTermL_iff.mpr fun t ht => by
    rcases List.mem_append.mp ht with h | h
    · exact okTermL_iff.mp h1 t h
    · exact okTermL_iff.mp h2 t h

theorem okTermL_map_followT {L : Lang} {σ : Store} (ok : OkStore L σ) {ts : List Term}
    (h : okTermL L σ ts = true) : okTermL L σ (ts.map (followT σ)) = true :=
  okTermL_iff.mpr fun t ht => by
    obtain ⟨x, hx, e⟩ := List.mem_map.mp ht
    subst e
    exact okTerm_followT ok x (okTermL_iff.mp h x hx)

theorem okTermL_single {L : Lang} {σ : Store} {t : Term} (h : okTerm L σ t = true) :
    okTermL L σ [t] = true := okTermL_cons.mpr ⟨h, okTermL_nil⟩

end Tfv.C03C
