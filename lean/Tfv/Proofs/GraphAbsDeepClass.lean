import Tfv.Proofs.GraphAbsDeepSpec
import Tfv.Proofs.GraphAbsEmbed
/-!
# C08 on expanded composite operators at any depth: the class `HofA` contains the class `HofS`
-/
namespace Tfv.C08P
open Tfv

theorem spineA_ofT : ∀ (e : TExpr) (name : String) (ty : Term), headOf e = .op name ty →
    headOfA (AExpr.ofT e) = .op name ty ∧ argsOfA (AExpr.ofT e) = (argsOf e).map AExpr.ofT
  | .src _ _ _, _, _, h => by cases h
  | .shared _ _, _, _, h => by cases h
  | .op _ _, _, _, h => by
    simp only [headOf, TExpr.op.injEq] at h
    obtain ⟨rfl, rfl⟩ := h
    exact ⟨rfl, rfl⟩
  | .app f x t, name, ty, h => by
    obtain ⟨h1, h2⟩ := spineA_ofT f name ty h
    refine ⟨h1, ?_⟩
    show argsOfA (AExpr.ofT f) ++ [AExpr.ofT x] = (argsOf f ++ [x]).map AExpr.ofT
    rw [h2]; simp

/-- an abstraction-free expression of the class `HofS` (operations and sources passed as arguments at any depth) is,
as an `AExpr`, in the class `HofA` -/
theorem hofA_of_hofS {e : TExpr} (h : HofS e) : HofA (AExpr.ofT e) := by
  induction h with
  | src id l ty => exact .src id l ty
  | spine e name ty hh _ ih =>
    obtain ⟨h1, h2⟩ := spineA_ofT e name ty hh
    refine .spine _ name ty h1 ?_
    intro a ha
    rw [h2, List.mem_map] at ha
    obtain ⟨b, hb, rfl⟩ := ha
    exact ih b hb

theorem headOfA_ofT_op {e : TExpr} {name : String} {ty : Term} (h : headOf e = .op name ty) :
    headOfA (AExpr.ofT e) = .op name ty := (spineA_ofT e name ty h).1

theorem hofA_args {e : AExpr} (h : HofA e) {name : String} {ty : Term} (hh : headOfA e = .op name ty) :
    ∀ a ∈ argsOfA e, HofA a := by
  cases h with
  | src id l t => cases hh
  | pvar id t => cases hh
  | lam ps b t => cases hh
  | spine _ _ _ _ h2 => exact h2

theorem hofA_body {qs : List Nat} {body : AExpr} {t : Term} (h : HofA (.lam qs body t)) : HofA body := by
  cases h with
  | lam _ _ _ hb => exact hb
  | spine _ _ _ hh _ => cases hh

/-- an expression of the class is a source, a parameter, an abstraction, or has an operator at its head -/
theorem hofA_head {e : AExpr} (h : HofA e) :
    (∃ id l t, e = .src id l t) ∨ (∃ id t, e = .pvar id t) ∨ (∃ qs b t, e = .lam qs b t) ∨
    ∃ name ty, headOfA e = .op name ty := by
  cases h with
  | src id l t => exact Or.inl ⟨id, l, t, rfl⟩
  | pvar id t => exact Or.inr (Or.inl ⟨id, t, rfl⟩)
  | lam ps b t => exact Or.inr (Or.inr (Or.inl ⟨ps, b, t, rfl⟩))
  | spine _ name ty hh _ => exact Or.inr (Or.inr (Or.inr ⟨name, ty, hh⟩))

end Tfv.C08P
