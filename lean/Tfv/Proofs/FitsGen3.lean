import Tfv.Proofs.FitsGen2
import Tfv.Proofs.InferConstrFulfilled
/-!
# C06 beyond linear alternatives, part 3: what `fulfill` does with the alternatives that are kept

The filter of `fulfill` decides `fitsB`. When exactly one alternative passes, `fulfill` unifies the reference
with it (`fulfill_elim_single`, Proofs/InferConstrFulfilled.lean). For a concrete reference `x` this gives:

* `fulfill_single_fits`: the constraint is marked fulfilled and every solution `ρ` of the resulting store is an
  instantiation with `x ≤ only[ρ]` (so `x` really `Fits` the alternative, also when the alternative repeats a
  variable in both polarities), and any result term `r` denotes the instance `r[ρ]`.
* `fulfill_between`: the reference is a variable `a` with lower bound `l` (the argument was a base type), the
  alternatives are concrete: if exactly one alternative is kept, afterwards `l ≤ ρ a ≤ only` under every solution.
* `filter_bounded_base`: for base-type alternatives the filter keeps exactly the alternatives above `l`.
-/
namespace Tfv
open Tfv.C03P Tfv.C03C

mutual
theorem den_eq_inst (ρ : Val) : ∀ (t : Term), den ρ t = t.inst ρ
  | .var v => by rw [den, Term.inst]
  | .app o ts => by rw [den, Term.inst, denL_eq_instL ρ ts]
theorem denL_eq_instL (ρ : Val) : ∀ (ts : List Term), denL ρ ts = Term.instL ρ ts
  | [] => by rw [denL, Term.instL]
  | t :: ts => by rw [denL, Term.instL, den_eq_inst ρ t, denL_eq_instL ρ ts]
end

mutual
theorem inst_toTerm (ρ : Val) : ∀ (x : Ty), x.toTerm.inst ρ = x
  | .app o xs => by rw [toTerm_app, Term.inst, instL_toTermL ρ xs]
theorem instL_toTermL (ρ : Val) : ∀ (xs : List Ty), Term.instL ρ (Ty.toTermL xs) = xs
  | [] => by rw [Ty.toTermL, Term.instL]
  | x :: xs => by rw [toTermL_cons, Term.instL, inst_toTerm ρ x, instL_toTermL ρ xs]
end

theorem den_toTerm' (ρ : Val) (x : Ty) : den ρ x.toTerm = x := by
  rw [den_eq_inst, inst_toTerm]

/-- **Uniqueness clause.** The reference of the elimination constraint `c` is the concrete type `x` (after
`minimize`), the variables of the alternatives are free, and exactly one alternative `only` passes the
matcher's test `fitsB`. Then a successful `fulfill` marks the constraint fulfilled, and every solution `ρ` of
the resulting store is a solution of the old one with `x ≤ only[ρ]`; any term `r` (the result type of the
signature) denotes its instance `r[ρ]`. -/
theorem fulfill_single_fits {L : Lang} (wf : WF L) {n : Nat} {σ σ1 σ' : Store} {c : Nat} {d ful : Bool}
    {r0 only : Term} {a0 alts : List Term} {x : Ty}
    (okc : OkStoreC L σ) (hc : c < σ.constrs.length)
    (h0 : getConstr σ c = .elim r0 a0 false)
    (hm : minimize L n σ c = .ok σ1)
    (h1 : getConstr σ1 c = .elim x.toTerm alts ful)
    (hpf : ∀ t ∈ alts, PatFree σ1 t) (hd : Ty.depth x < 64)
    (hu : alts.filter (fun t => fitsB L true x t) = [only])
    (h : fulfill L (n+1) σ c = .ok (σ', d)) :
    d = true ∧ ∀ ρ, Sat L ρ σ' →
      Sat L ρ σ ∧ Sub L x (only.inst ρ) ∧ ∀ r : Term, den ρ r = r.inst ρ := by
  have hf : alts.filter (fun t => match3 L σ1 (matchFuel σ1) true true x.toTerm t != some false) = [only] := by
    rw [filter_keeps_fitting L σ1 (matchFuel σ1) x alts hpf (by unfold matchFuel; omega)]
    exact hu
  obtain ⟨hd', hs⟩ := fulfill_elim_single wf okc hc h0 hm h1 hf h
  refine ⟨hd', fun ρ hρ => ?_⟩
  obtain ⟨h2, h3⟩ := hs ρ hρ
  rw [den_toTerm', den_eq_inst] at h3
  exact ⟨h2, h3, fun r => den_eq_inst ρ r⟩

/-- … hence, if the resulting store has a solution at all, the single surviving alternative really fits:
a non-fitting alternative that slipped through the filter cannot be the only survivor of a successful,
satisfiable `fulfill` -/
theorem fulfill_single_sound {L : Lang} (wf : WF L) {n : Nat} {σ σ1 σ' : Store} {c : Nat} {d ful : Bool}
    {r0 only : Term} {a0 alts : List Term} {x : Ty}
    (okc : OkStoreC L σ) (hc : c < σ.constrs.length)
    (h0 : getConstr σ c = .elim r0 a0 false)
    (hm : minimize L n σ c = .ok σ1)
    (h1 : getConstr σ1 c = .elim x.toTerm alts ful)
    (hpf : ∀ t ∈ alts, PatFree σ1 t) (hd : Ty.depth x < 64)
    (hu : alts.filter (fun t => fitsB L true x t) = [only])
    (h : fulfill L (n+1) σ c = .ok (σ', d)) (ρ : Val) (hρ : Sat L ρ σ') : Fits L x only :=
  ⟨ρ, hρ.wf, ((fulfill_single_fits wf okc hc h0 hm h1 hpf hd hu h).2 ρ hρ).2.1⟩

/-- concrete reference, the single survivor is a concrete alternative `t`: then `x ≤ t` (the result, which is bound to
the argument `x`, lies below the fitting alternative) -/
theorem fulfill_single_concrete {L : Lang} (wf : WF L) {n : Nat} {σ σ1 σ' : Store} {c : Nat} {d ful : Bool}
    {r0 : Term} {a0 alts : List Term} {x t : Ty}
    (okc : OkStoreC L σ) (hc : c < σ.constrs.length)
    (h0 : getConstr σ c = .elim r0 a0 false)
    (hm : minimize L n σ c = .ok σ1)
    (h1 : getConstr σ1 c = .elim x.toTerm alts ful)
    (hpf : ∀ p ∈ alts, PatFree σ1 p) (hd : Ty.depth x < 64)
    (hu : alts.filter (fun p => fitsB L true x p) = [t.toTerm])
    (h : fulfill L (n+1) σ c = .ok (σ', d)) (ρ : Val) (hρ : Sat L ρ σ') : Sub L x t := by
  have := ((fulfill_single_fits wf okc hc h0 hm h1 hpf hd hu h).2 ρ hρ).2.1
  rwa [inst_toTerm] at this

/-- for base-type alternatives and a reference variable with lower bound `l` only, the filter keeps exactly the
alternatives that are `Top` or above `l` -/
theorem filter_bounded_base (L : Lang) (σ : Store) (n : Nat) (a l : Nat) (hn : 0 < n)
    (hb : (getVar σ a).bound = none) (hl : (getVar σ a).lower = some l) (hu : (getVar σ a).upper = none) :
    ∀ (bos : List Nat), (∀ bo ∈ bos, arityOf L bo = 0) →
    (bos.map fun bo => Term.app bo []).filter (fun t => match3 L σ n true true (.var a) t != some false) =
      (bos.filter fun bo => bo == TOP || opSub L l bo).map fun bo => Term.app bo []
  | [], _ => rfl
  | bo :: bos, h0 => by
    have ih := filter_bounded_base L σ n a l hn hb hl hu bos (fun b hb' => h0 b (List.mem_cons_of_mem _ hb'))
    have key := bounded_var_base L σ n a l bo [] hn hb hl hu (h0 bo List.mem_cons_self)
    rw [List.map_cons, List.filter_cons, List.filter_cons]
    by_cases e : match3 L σ n true true (.var a) (.app bo []) = some false
    · have e2 := key.mp e
      have e3 : (bo == TOP || opSub L l bo) = false := by simp [e2.1, e2.2]
      simp only [e, bne_self_eq_false, Bool.false_eq_true, if_false, e3]
      exact ih
    · have e3 : (bo == TOP || opSub L l bo) = true := by
        cases h1 : (bo == TOP || opSub L l bo) with
        | true => rfl
        | false =>
          rw [Bool.or_eq_false_iff] at h1
          exact absurd (key.mpr ⟨by simpa using h1.1, h1.2⟩) e
      have e4 : (match3 L σ n true true (.var a) (.app bo []) != some false) = true := by simpa using e
      simp only [e4, e3, if_true, List.map_cons]
      rw [ih]

/-- **Between clause.** The reference of the elimination constraint `c` is the variable `a` (after `minimize`),
which carries the lower bound `l` in the store `fulfill` starts from; exactly one alternative is kept and it is the
concrete type `only`. Then a successful `fulfill` marks the constraint fulfilled and under every solution of the
resulting store the value of `a` lies between `l` and `only`. -/
theorem fulfill_between {L : Lang} (wf : WF L) {n : Nat} {σ σ1 σ' : Store} {c a l : Nat} {d ful : Bool}
    {r0 : Term} {only : Ty} {a0 alts : List Term}
    (okc : OkStoreC L σ) (hc : c < σ.constrs.length)
    (h0 : getConstr σ c = .elim r0 a0 false)
    (hm : minimize L n σ c = .ok σ1)
    (h1 : getConstr σ1 c = .elim (.var a) alts ful)
    (hf : alts.filter (fun t => match3 L σ1 (matchFuel σ1) true true (.var a) t != some false) = [only.toTerm])
    (hb : (getVar σ a).bound = none) (hl : (getVar σ a).lower = some l)
    (h : fulfill L (n+1) σ c = .ok (σ', d)) :
    d = true ∧ ∀ ρ, Sat L ρ σ' → Sub L (.app l []) (ρ a) ∧ Sub L (ρ a) only := by
  obtain ⟨hd', hs⟩ := fulfill_elim_single wf okc hc h0 hm h1 hf h
  refine ⟨hd', fun ρ hρ => ?_⟩
  obtain ⟨h2, h3⟩ := hs ρ hρ
  rw [den_toTerm', den] at h3
  exact ⟨h2.lower a l hb hl, h3⟩

end Tfv
