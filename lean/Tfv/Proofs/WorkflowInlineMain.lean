import Tfv.Proofs.WorkflowInlineTrace
/-!
# The graph of a workflow, end to end (passthrough): trace of the target, then the marks
-/
namespace Tfv

/-! ## with passthrough there are no stand-in sources -/

theorem foldRun_noInd {s s1 : WState} {is : List Nat} {es : List TExpr}
    (hr : FoldRun (fun s _ s' _ => s'.indirection = s.indirection) s is s1 es) : s1.indirection = s.indirection := by
  induction hr with
  | nil s => rfl
  | cons h1 _ ih => rw [ih, h1]

theorem wfExpr_true_indirection (P : PLang) (ops : List OperatorDecl) (w : Wf) :
    ∀ n s r s' e, wfExpr P ops w true n s r = .ok (s', e) → s'.indirection = s.indirection := by
  apply wfExpr_induction2 P ops w true (fun s _ s' _ => s'.indirection = s.indirection)
  · intro s r e _; rfl
  · intro s r a s1 ies s2 inputs xs3 e0 l1 hst hr _ _ _ _
    obtain ⟨rfl, _⟩ := wfStandIns_true P w a s1 ies s2 inputs hst.stand
    show s2.indirection = s.indirection
    exact foldRun_noInd hr

/-! ## the node of an application added without a given node is the next blank node -/

theorem addExpr_app_node (G : GLang) (c : GCfg) (root : Node) (origin : Option Node) (g : GState) (f x : TExpr) (t : Term)
    (inter : Bool) (g' : GState) (n : Nat) (h : addExpr G c root origin g (.app f x t) none inter = .ok (g', n)) :
    n = g.nextB := by
  rw [addExpr_app] at h
  split at h
  · cases h
  · split at h
    · cases h
    · simp only [Except.ok.injEq, Prod.mk.injEq] at h
      exact h.2.symm

theorem addExpr_shared_app_node (G : GLang) (c : GCfg) (root : Node) (origin : Option Node) (g : GState) (k : Nat)
    (f x : TExpr) (t : Term) (inter : Bool) (g' : GState) (n : Nat) (hk : alook g.sharedNodes k = none)
    (h : addExpr G c root origin g (.shared k (.app f x t)) none inter = .ok (g', n)) : n = g.nextB := by
  rw [addExpr_shared_miss G c root origin g k _ none inter hk] at h
  split at h
  · cases h
  · rename_i g1 n1 h1
    simp only [Except.ok.injEq, Prod.mk.injEq] at h
    rw [← h.2]
    exact addExpr_app_node G c root origin g f x t inter g1 n1 h1

/-! ## marking one source -/

/-- one source of the workflow is marked as an input: its `.src` expression is added (nothing happens if it has a
node already) and the `tf:input` triple points to its node -/
def srcMark (G : GLang) (c : GCfg) (w : Wf) (T : List (Nat × TExpr)) (g : GState) (r : Nat) : Except WErr GState :=
  match tlook T r with
  | none => .error (.internal "unknown resource")
  | some e =>
    match addExpr G c wfRoot (some (.res (w.resName r))) g e none false with
    | .error ge => .error (.graph ge)
    | .ok (g', k) => .ok (g'.add (wfRoot, .tf "input", .b k))

theorem wfMarkStep_source (G : GLang) (c : GCfg) (w : Wf) (tgt : Nat) (T : List (Nat × TExpr)) (hT : RunTable w tgt T)
    (n : Nat) (g : GState) (r : Nat) (hr : r ∈ w.sources) :
    wfMarkStep G c w T (n+1) g r = srcMark G c w T g r := by
  obtain ⟨e, he, hsrc⟩ := hT.srcs r hr
  obtain ⟨id, l, t, rfl⟩ := hsrc
  unfold wfMarkStep srcMark
  rw [wfNode_succ, tlook_eq, he]
  simp only []
  cases hk : nodeOf g (TExpr.src id l t) with
  | some k =>
    simp only []
    have hk' : alook g.srcNodes id = some k := hk
    rw [Wfl.addExpr_src]
    unfold alook at hk'
    cases hf : g.srcNodes.find? (fun p => p.1 == id) with
    | none => rw [hf] at hk'; cases hk'
    | some q =>
      rw [hf] at hk'
      simp only [Option.map_some, Option.some.injEq] at hk'
      simp only [hk']
  | none =>
    simp only []
    have : wfNodeInputs G c w wfRoot T n g r = .ok g := by
      unfold wfNodeInputs
      rw [if_pos (List.contains_iff_mem.2 hr)]
    rw [this]
    simp only []
    cases addExpr G c wfRoot (some (.res (w.resName r))) g (TExpr.src id l t) none false with
    | error ge => rfl
    | ok p => rfl

theorem foldlM_congr_mem {α β ε : Type} (f f' : β → α → Except ε β) :
    ∀ (l : List α) (b : β), (∀ a ∈ l, ∀ b, f b a = f' b a) → l.foldlM f b = l.foldlM f' b := by
  intro l
  induction l with
  | nil => intro b _; rfl
  | cons a l ih =>
    intro b h
    simp only [List.foldlM_cons]
    rw [h a List.mem_cons_self b]
    cases f' b a with
    | error e => rfl
    | ok b1 => exact ih b1 (fun a ha => h a (List.mem_cons_of_mem _ ha))

/-- a source that has a node: marking it only adds the `tf:input` triple -/
theorem srcMark_hit (G : GLang) (c : GCfg) (w : Wf) (T : List (Nat × TExpr)) (g : GState) (r : Nat) (e : TExpr) (k : Nat)
    (he : alook T r = some e) (hs : e.IsSrc) (hk : nodeOf g e = some k) :
    srcMark G c w T g r = .ok (g.add (wfRoot, .tf "input", .b k)) := by
  obtain ⟨id, l, t, rfl⟩ := hs
  unfold srcMark
  rw [tlook_eq, he]
  simp only []
  rw [Wfl.addExpr_src]
  have hk' : alook g.srcNodes id = some k := hk
  unfold alook at hk'
  cases hf : g.srcNodes.find? (fun p => p.1 == id) with
  | none => rw [hf] at hk'; cases hk'
  | some q =>
    rw [hf] at hk'
    simp only [Option.map_some, Option.some.injEq] at hk'
    simp only [hk']

section
variable {P : PLang} {G : GLang} {ops : List OperatorDecl} {c : GCfg} {pt : Bool} {w : Wf}
  {g : GState} {out : Nat} {m : List (Nat × Nat)} {xs0 : XState} {stypes : List (Nat × Term)} {tgt : Nat}
  {ws : WState} {te : TExpr} {σf : Store} {te' : TExpr} {g1 g3 : GState}

/-- with passthrough the link stage does nothing -/
theorem WfRun.no_links (run : WfRun P G ops c true w g out m xs0 stypes tgt ws te σf te' g1 g3) :
    ws.indirection = [] := by
  have := wfExpr_true_indirection P ops w _ _ _ _ _ run.expr
  exact this

/-- **The target stage as a trace** (any passthrough mode): the graph `g1` is obtained from the empty graph by adding,
one `addExpr` call each, the resources the target depends on, inputs before the tools that consume them; every call
adds the inlined expression of its resource, all of whose proper tagged sub-expressions have nodes at that moment. -/
theorem WfRun.trace (run : WfRun P G ops c pt w g out m xs0 stypes tgt ws te σf te' g1 g3) (hn : w.sources.Nodup)
    (hc : TyCoh (wfFinalExprs ws te')) (fuel : Nat) :
    ∃ l, WfTrace (wfGLang G σf) c w (wfFinalExprs ws te') fuel (initGraph (wfGLang G σf) c) l g1 ∧
      (∀ p ∈ l, p.1 = tgt ∨ SReach w tgt p.1) ∧ (∀ p ∈ l, p ∈ m) ∧ (tgt, out) ∈ l := by
  have hT := run.table hn
  obtain ⟨l, tl, rl, hmem⟩ := wfNode_trace (wfGLang G σf) c w tgt _ hT hc fuel _ _ _ _ _
    (initGraph_ginv (wfGLang G σf) c w _) run.node
  refine ⟨l, tl, rl, ?_, ?_⟩
  · intro p hp
    obtain ⟨e, he, hk⟩ := tl.nodes p hp
    rw [run.map]
    exact mem_wfNodeMap.2 ⟨e, alook_some_mem he, (run.tail_step hT).1.nodeOf_stable hk⟩
  · -- the target had no node in the empty graph
    obtain ⟨e, he⟩ := hT.target
    refine hmem e he ?_
    rcases hT.entry_shape he with hs | ⟨e0, rfl⟩
    · obtain ⟨id, ll, t, rfl⟩ := hs
      show alook (initGraph (wfGLang G σf) c).srcNodes id = none
      have : (initGraph (wfGLang G σf) c).srcNodes = [] := by unfold initGraph; split <;> rfl
      rw [this]; rfl
    · show alook (initGraph (wfGLang G σf) c).sharedNodes tgt = none
      rw [initGraph_sharedNodes]; rfl
/-- the marks stage (any mode): the stand-in sources are linked, then the sources are marked one by one -/
theorem WfRun.marks_eq' (run : WfRun P G ops c pt w g out m xs0 stypes tgt ws te σf te' g1 g3) (hn : w.sources.Nodup) :
    w.sources.foldlM (srcMark (wfGLang G σf) c w (wfFinalExprs ws te')) (ws.indirection.foldl (wfLinkStep c) g1)
      = .ok g3 := by
  have hT := run.table hn
  rw [← run.marks]
  symm
  exact foldlM_congr_mem _ _ _ _ (fun r hr b => wfMarkStep_source (wfGLang G σf) c w tgt _ hT _ b r hr)

/-- with passthrough, the marks stage starts from `g1` and marks the sources one by one -/
theorem WfRun.marks_eq (run : WfRun P G ops c true w g out m xs0 stypes tgt ws te σf te' g1 g3) (hn : w.sources.Nodup) :
    w.sources.foldlM (srcMark (wfGLang G σf) c w (wfFinalExprs ws te')) g1 = .ok g3 := by
  have h := run.marks_eq' hn
  rw [run.no_links] at h
  exact h

end

/-! ## the marks, when every source already has its node -/

theorem nodeOf_add_src (g : GState) (t : Triple) {e : TExpr} (hs : e.IsSrc) : nodeOf (g.add t) e = nodeOf g e := by
  obtain ⟨id, l, ty, rfl⟩ := hs
  show alook (g.add t).srcNodes id = alook g.srcNodes id
  rw [add_srcNodes]

theorem srcMarks_hit (G : GLang) (c : GCfg) (w : Wf) (T : List (Nat × TExpr)) :
    ∀ (l : List Nat) (g g3 : GState),
      (∀ r ∈ l, ∃ e k, alook T r = some e ∧ e.IsSrc ∧ nodeOf g e = some k) →
      l.foldlM (srcMark G c w T) g = .ok g3 →
      (g3.fd = g.fd ∧ g3.nextB = g.nextB ∧ g3.srcNodes = g.srcNodes ∧ g3.sharedNodes = g.sharedNodes ∧
        g3.typeNodes = g.typeNodes ∧ g3.internals = g.internals) ∧
      ∀ t, t ∈ g3.triples ↔ t ∈ g.triples ∨
        ∃ r ∈ l, ∃ e k, alook T r = some e ∧ nodeOf g e = some k ∧ t = (wfRoot, Node.tf "input", Node.b k) := by
  intro l
  induction l with
  | nil =>
    intro g g3 _ h
    rw [Wfl.foldlM_nil_ok] at h
    subst h
    exact ⟨⟨rfl, rfl, rfl, rfl, rfl, rfl⟩, fun t => ⟨.inl, fun h => h.elim id (fun ⟨_, hr, _⟩ => by cases hr)⟩⟩
  | cons r l ih =>
    intro g g3 hall h
    rw [Wfl.foldlM_cons_ok] at h
    obtain ⟨gm, h1, h2⟩ := h
    obtain ⟨e, k, he, hs, hk⟩ := hall r List.mem_cons_self
    rw [srcMark_hit G c w T g r e k he hs hk] at h1
    cases h1
    have hall' : ∀ r' ∈ l, ∃ e k', alook T r' = some e ∧ e.IsSrc ∧
        nodeOf (g.add (wfRoot, Node.tf "input", Node.b k)) e = some k' := by
      intro r' hr'
      obtain ⟨e', k', he', hs', hk'⟩ := hall r' (List.mem_cons_of_mem _ hr')
      exact ⟨e', k', he', hs', by rw [nodeOf_add_src _ _ hs']; exact hk'⟩
    obtain ⟨⟨f1, f2, f3, f4, f5, f6⟩, ht⟩ := ih _ g3 hall' h2
    refine ⟨⟨by rw [f1, add_fd], by rw [f2, add_nextB], by rw [f3, add_srcNodes], by rw [f4, add_sharedNodes],
      by rw [f5, add_typeNodes], by rw [f6, add_internals]⟩, ?_⟩
    intro t
    rw [ht t, mem_add]
    constructor
    · rintro ((h | h) | ⟨r', hr', e', k', he', hk', rfl⟩)
      · exact .inl h
      · exact .inr ⟨r, List.mem_cons_self, e, k, he, hk, h⟩
      · obtain ⟨_, _, he2, hs2, _⟩ := hall r' (List.mem_cons_of_mem _ hr')
        rw [he'] at he2
        cases he2
        rw [nodeOf_add_src _ _ hs2] at hk'
        exact .inr ⟨r', List.mem_cons_of_mem _ hr', e', k', he', hk', rfl⟩
    · rintro (h | ⟨r', hr', e', k', he', hk', rfl⟩)
      · exact .inl (.inl h)
      · rcases List.mem_cons.1 hr' with rfl | hr'
        · rw [he] at he'
          cases he'
          rw [hk] at hk'
          cases hk'
          exact .inl (.inr rfl)
        · obtain ⟨_, _, he2, hs2, _⟩ := hall r' (List.mem_cons_of_mem _ hr')
          rw [he'] at he2
          cases he2
          exact .inr ⟨r', hr', e', k', he', by rw [nodeOf_add_src _ _ hs2]; exact hk', rfl⟩

theorem mem_wfFinish (c : GCfg) (g3 : GState) (out : Nat) (t : Triple) :
    t ∈ (wfFinish c g3 out).triples ↔ t ∈ g3.triples ∨ t = (wfRoot, Node.tf "output", Node.b out) ∨
      (c.withClasses = true ∧ t = (wfRoot, Node.rdf "type", Node.tf "Transformation")) := by
  unfold wfFinish
  split
  · rename_i hc
    rw [mem_add, mem_add]
    constructor
    · rintro ((h | h) | h)
      · exact .inl h
      · exact .inr (.inl h)
      · exact .inr (.inr ⟨hc, h⟩)
    · rintro (h | h | ⟨_, h⟩)
      · exact .inl (.inl h)
      · exact .inl (.inr h)
      · exact .inr h
  · rename_i hc
    rw [mem_add]
    constructor
    · rintro (h | h)
      · exact .inl h
      · exact .inr (.inl h)
    · rintro (h | h | ⟨h', _⟩)
      · exact .inl h
      · exact .inr h
      · exact absurd h' hc

theorem wfFinish_fields (c : GCfg) (g3 : GState) (out : Nat) :
    (wfFinish c g3 out).fd = g3.fd ∧ (wfFinish c g3 out).nextB = g3.nextB ∧
      (wfFinish c g3 out).srcNodes = g3.srcNodes ∧ (wfFinish c g3 out).sharedNodes = g3.sharedNodes ∧
      (wfFinish c g3 out).typeNodes = g3.typeNodes ∧ (wfFinish c g3 out).internals = g3.internals := by
  unfold wfFinish
  split
  · exact ⟨by rw [add_fd, add_fd], by rw [add_nextB, add_nextB], by rw [add_srcNodes, add_srcNodes],
      by rw [add_sharedNodes, add_sharedNodes], by rw [add_typeNodes, add_typeNodes], by rw [add_internals, add_internals]⟩
  · exact ⟨add_fd _ _, add_nextB _ _, add_srcNodes _ _, add_sharedNodes _ _, add_typeNodes _ _, add_internals _ _⟩

section
variable {P : PLang} {G : GLang} {ops : List OperatorDecl} {c : GCfg} {w : Wf}
  {g : GState} {out : Nat} {m : List (Nat × Nat)} {xs0 : XState} {stypes : List (Nat × Term)} {tgt : Nat}
  {ws : WState} {te : TExpr} {σf : Store} {te' : TExpr} {g1 g3 : GState}

/-- **The markings, enumerated** (passthrough, every source is consumed by a tool the target depends on): the final
graph is `g1` (the graph after the target stage) plus one `tf:input` triple per source, the `tf:output` triple, and the
class of the workflow; nothing else changes (no node, no edge, no registration). -/
theorem WfRun.marks_enum (run : WfRun P G ops c true w g out m xs0 stypes tgt ws te σf te' g1 g3) (hn : w.sources.Nodup)
    (hreach : ∀ r ∈ w.sources, SReach w tgt r) :
    (g.fd = g1.fd ∧ g.nextB = g1.nextB ∧ g.srcNodes = g1.srcNodes ∧ g.sharedNodes = g1.sharedNodes ∧
      g.typeNodes = g1.typeNodes ∧ g.internals = g1.internals) ∧
    ∀ t, t ∈ g.triples ↔ t ∈ g1.triples ∨
      (∃ r ∈ w.sources, ∃ k, (r, k) ∈ m ∧ t = (wfRoot, Node.tf "input", Node.b k)) ∨
      t = (wfRoot, Node.tf "output", Node.b out) ∨
      (c.withClasses = true ∧ t = (wfRoot, Node.rdf "type", Node.tf "Transformation")) := by
  have hT := run.table hn
  have hall : ∀ r ∈ w.sources, ∃ e k, alook (wfFinalExprs ws te') r = some e ∧ e.IsSrc ∧ nodeOf g1 e = some k := by
    intro r hr
    obtain ⟨e, k, he, hk⟩ := (run.reach_hasNode hT).2 r (hreach r hr)
    obtain ⟨e', he', hs⟩ := hT.srcs r hr
    rw [he] at he'
    cases he'
    exact ⟨e, k, he, hs, hk⟩
  obtain ⟨⟨f1, f2, f3, f4, f5, f6⟩, ht⟩ := srcMarks_hit (wfGLang G σf) c w _ w.sources g1 g3 hall (run.marks_eq hn)
  obtain ⟨e1, e2, e3, e4, e5, e6⟩ := wfFinish_fields c g3 out
  rw [run.graph]
  refine ⟨⟨e1.trans f1, e2.trans f2, e3.trans f3, e4.trans f4, e5.trans f5, e6.trans f6⟩, ?_⟩
  intro t
  rw [mem_wfFinish, ht t]
  have hmap : ∀ r ∈ w.sources, ∀ k, (∃ e, alook (wfFinalExprs ws te') r = some e ∧ nodeOf g1 e = some k) ↔ (r, k) ∈ m := by
    intro r hr k
    rw [run.map]
    constructor
    · rintro ⟨e, he, hk⟩
      exact mem_wfNodeMap.2 ⟨e, alook_some_mem he, (run.tail_step hT).1.nodeOf_stable hk⟩
    · intro hm
      obtain ⟨e, he, hk⟩ := mem_wfNodeMap.1 hm
      have hl : alook (wfFinalExprs ws te') r = some e := alook_of_mem_nodup hT.inv.nodup he
      obtain ⟨e', k', he', _, hk'⟩ := hall r hr
      rw [hl] at he'
      cases he'
      have := (run.tail_step hT).1.nodeOf_stable hk'
      rw [this] at hk
      cases hk
      exact ⟨e, hl, hk'⟩
  constructor
  · rintro ((h | ⟨r, hr, e, k, he, hk, rfl⟩) | h)
    · exact .inl h
    · exact .inr (.inl ⟨r, hr, k, (hmap r hr k).1 ⟨e, he, hk⟩, rfl⟩)
    · exact .inr (.inr h)
  · rintro (h | ⟨r, hr, k, hm, rfl⟩ | h)
    · exact .inl (.inl h)
    · obtain ⟨e, he, hk⟩ := (hmap r hr k).2 hm
      exact .inl (.inr ⟨r, hr, e, k, he, hk, rfl⟩)
    · exact .inr h
end

/-! ## the link stage only adds `from` / `depends` edges -/

theorem wfLinkStep_fields (c : GCfg) (g : GState) (p : Nat × Nat) :
    (wfLinkStep c g p).triples = g.triples ∧ (wfLinkStep c g p).nextB = g.nextB ∧
      (wfLinkStep c g p).srcNodes = g.srcNodes ∧ (wfLinkStep c g p).sharedNodes = g.sharedNodes ∧
      (wfLinkStep c g p).typeNodes = g.typeNodes ∧ (wfLinkStep c g p).internals = g.internals := by
  unfold wfLinkStep
  split
  · unfold gAddFrom
    split <;> exact ⟨rfl, rfl, rfl, rfl, rfl, rfl⟩
  · exact ⟨rfl, rfl, rfl, rfl, rfl, rfl⟩

theorem wfLinks_fields (c : GCfg) : ∀ (l : List (Nat × Nat)) (g : GState),
    (l.foldl (wfLinkStep c) g).triples = g.triples ∧ (l.foldl (wfLinkStep c) g).nextB = g.nextB ∧
      (l.foldl (wfLinkStep c) g).srcNodes = g.srcNodes ∧ (l.foldl (wfLinkStep c) g).sharedNodes = g.sharedNodes ∧
      (l.foldl (wfLinkStep c) g).typeNodes = g.typeNodes ∧ (l.foldl (wfLinkStep c) g).internals = g.internals := by
  intro l
  induction l with
  | nil => intro g; exact ⟨rfl, rfl, rfl, rfl, rfl, rfl⟩
  | cons p l ih =>
    intro g
    obtain ⟨a1, a2, a3, a4, a5, a6⟩ := ih (wfLinkStep c g p)
    obtain ⟨b1, b2, b3, b4, b5, b6⟩ := wfLinkStep_fields c g p
    exact ⟨a1.trans b1, a2.trans b2, a3.trans b3, a4.trans b4, a5.trans b5, a6.trans b6⟩

end Tfv
