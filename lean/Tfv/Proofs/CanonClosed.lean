import Tfv.Model
import Tfv.Spec.Sub
import Tfv.Spec.Taxonomy
import Tfv.Proofs.SubOrder
import Tfv.Proofs.Canon
import Tfv.Proofs.CanonComplete
/-!
# Helper lemmas for C10, parts 3 and 4: the work-list closure, the canon contains all subtypes,
links between `Top`/`Bottom`-free canonical types are complete
-/
namespace Tfv.Tax
open Tfv

/-! ## 1. `expandRun` and `expandCanon` -/

theorem expandRun_zero (L : Lang) (c : CanonCfg) (stack canon : List Ty) :
    expandRun L c 0 stack canon = (stack, canon) := by
  rw [expandRun]

theorem expandRun_nil (L : Lang) (c : CanonCfg) (n : Nat) (canon : List Ty) :
    expandRun L c n [] canon = ([], canon) := by
  cases n <;> simp [expandRun]

theorem expandRun_step (L : Lang) (c : CanonCfg) (n : Nat) (rest : List Ty) (cur : Ty) (canon : List Ty) :
    expandRun L c (n+1) (rest ++ [cur]) canon =
      expandRun L c n
        (rest ++ (canonSucc L c cur).filter (fun s => !memTy s (insertTy cur canon)))
        (insertTy cur canon) := by
  cases h : rest ++ [cur] with
  | nil => simp at h
  | cons x xs =>
    rw [expandRun]
    · rw [← h]
      simp only [List.getLast?_concat, List.dropLast_concat]
    · simp

theorem expandCanon_step (L : Lang) (c : CanonCfg) (n : Nat) (rest : List Ty) (cur : Ty) (canon : List Ty) :
    expandCanon L c (n+1) (rest ++ [cur]) canon =
      expandCanon L c n
        (rest ++ (canonSucc L c cur).filter (fun s => !memTy s (insertTy cur canon)))
        (insertTy cur canon) := by
  cases h : rest ++ [cur] with
  | nil => simp at h
  | cons x xs =>
    rw [expandCanon]
    · rw [← h]
      simp only [List.getLast?_concat, List.dropLast_concat]
      rfl
    · simp

theorem stack_cases (stack : List Ty) : stack = [] ∨ ∃ rest cur, stack = rest ++ [cur] := by
  rcases List.eq_nil_or_concat stack with h | ⟨rest, cur, h⟩
  · exact Or.inl h
  · exact Or.inr ⟨rest, cur, by rw [h, List.concat_eq_append]⟩

theorem expandRun_snd (L : Lang) (c : CanonCfg) : ∀ (n : Nat) (stack canon : List Ty),
    (expandRun L c n stack canon).2 = expandCanon L c n stack canon
  | 0, stack, canon => by rw [expandRun, expandCanon]
  | n+1, stack, canon => by
    rcases stack_cases stack with rfl | ⟨rest, cur, rfl⟩
    · rw [expandRun_nil]; cases n <;> simp [expandCanon]
    · rw [expandRun_step, expandCanon_step]
      exact expandRun_snd L c n _ _

/-! ## 2. the work-list invariant -/

theorem workInv_step {L : Lang} {c : CanonCfg} {rest : List Ty} {cur : Ty} {canon : List Ty}
    (inv : WorkInv L c (rest ++ [cur]) canon) :
    WorkInv L c (rest ++ (canonSucc L c cur).filter (fun s => !memTy s (insertTy cur canon)))
      (insertTy cur canon) := by
  have hcur : ∀ s ∈ canonSucc L c cur, s ∈ insertTy cur canon ∨
      s ∈ rest ++ (canonSucc L c cur).filter (fun s => !memTy s (insertTy cur canon)) := by
    intro s hs
    by_cases hm : memTy s (insertTy cur canon) = true
    · exact Or.inl ((memTy_iff _ _).mp hm)
    · right
      simp only [List.mem_append, List.mem_filter, Bool.not_eq_true'] 
      exact Or.inr ⟨hs, by simpa using hm⟩
  intro t ht
  by_cases e : t = cur
  · subst e; exact Or.inr hcur
  · rcases (mem_insertTy _ _ _).mp ht with e' | ht'
    · exact absurd e' e
    · rcases inv t ht' with h | h
      · left
        simp only [List.mem_append, List.mem_singleton] at h
        rcases h with h | h
        · exact List.mem_append_left _ h
        · exact absurd h e
      · right
        intro s hs
        rcases h s hs with h' | h'
        · exact Or.inl ((mem_insertTy _ _ _).mpr (Or.inr h'))
        · simp only [List.mem_append, List.mem_singleton] at h'
          rcases h' with h' | h'
          · exact Or.inr (List.mem_append_left _ h')
          · exact Or.inl ((mem_insertTy _ _ _).mpr (Or.inl h'))

/-- a terminated run returns a closed superset of the start sets -/
theorem expandRun_closed {L : Lang} {c : CanonCfg} : ∀ (n : Nat) (stack canon R : List Ty),
    expandRun L c n stack canon = ([], R) → WorkInv L c stack canon →
    (∀ t ∈ canon, t ∈ R) ∧ (∀ t ∈ stack, t ∈ R) ∧ Closed L c R
  | 0, stack, canon, R, h, inv => by
    rw [expandRun_zero] at h
    injection h with h1 h2
    subst h1; subst h2
    refine ⟨fun t ht => ht, fun t ht => by simp at ht, ?_⟩
    intro t ht s hs
    rcases inv t ht with h | h
    · cases h
    · rcases h s hs with h | h
      · exact h
      · cases h
  | n+1, stack, canon, R, h, inv => by
    rcases stack_cases stack with rfl | ⟨rest, cur, rfl⟩
    · rw [expandRun_nil] at h
      injection h with _ h2
      subst h2
      refine ⟨fun t ht => ht, fun t ht => by simp at ht, ?_⟩
      intro t ht s hs
      rcases inv t ht with h | h
      · cases h
      · rcases h s hs with h | h
        · exact h
        · cases h
    · rw [expandRun_step] at h
      obtain ⟨i1, i2, i3⟩ := expandRun_closed n _ _ R h (workInv_step inv)
      refine ⟨fun t ht => i1 t ((mem_insertTy _ _ _).mpr (Or.inr ht)), ?_, i3⟩
      intro t ht
      simp only [List.mem_append, List.mem_singleton] at ht
      rcases ht with ht | rfl
      · exact i2 t (List.mem_append_left _ ht)
      · exact i1 t ((mem_insertTy _ _ _).mpr (Or.inl rfl))

/-- the result of any run (terminated or not) is contained in every closed set containing the start sets -/
theorem expandRun_least {L : Lang} {c : CanonCfg} (S : Ty → Prop)
    (hS : ∀ t, S t → ∀ s ∈ canonSucc L c t, S s) : ∀ (n : Nat) (stack canon : List Ty),
    (∀ t ∈ canon, S t) → (∀ t ∈ stack, S t) →
    (∀ t ∈ (expandRun L c n stack canon).2, S t) ∧ (∀ t ∈ (expandRun L c n stack canon).1, S t)
  | 0, stack, canon, h1, h2 => by
    rw [expandRun_zero]; exact ⟨h1, h2⟩
  | n+1, stack, canon, h1, h2 => by
    rcases stack_cases stack with rfl | ⟨rest, cur, rfl⟩
    · rw [expandRun_nil]; exact ⟨h1, h2⟩
    · rw [expandRun_step]
      have hcur : S cur := h2 cur (by simp)
      apply expandRun_least S hS n
      · intro t ht
        rcases (mem_insertTy _ _ _).mp ht with rfl | ht
        · exact hcur
        · exact h1 t ht
      · intro t ht
        simp only [List.mem_append, List.mem_filter] at ht
        rcases ht with ht | ⟨ht, _⟩
        · exact h2 t (List.mem_append_left _ ht)
        · exact hS cur hcur t ht

/-- once the work list has emptied, more fuel changes nothing -/
theorem expandRun_fuel_mono {L : Lang} {c : CanonCfg} (k : Nat) : ∀ (n : Nat) (stack canon R : List Ty),
    expandRun L c n stack canon = ([], R) → expandRun L c (n + k) stack canon = ([], R)
  | 0, stack, canon, R, h => by
    rw [expandRun_zero] at h
    injection h with h1 h2
    subst h1; subst h2
    exact expandRun_nil L c _ _
  | n+1, stack, canon, R, h => by
    rcases stack_cases stack with rfl | ⟨rest, cur, rfl⟩
    · rw [expandRun_nil] at h
      rw [expandRun_nil]; exact h
    · rw [expandRun_step] at h
      rw [show n + 1 + k = (n + k) + 1 by omega, expandRun_step]
      exact expandRun_fuel_mono k n _ _ R h

theorem mem_foldl_insertTy (s : Ty) : ∀ (listed acc : List Ty),
    s ∈ listed.foldl (fun acc t => insertTy t acc) acc ↔ (s ∈ acc ∨ s ∈ listed)
  | [], acc => by simp
  | t :: ts, acc => by
    rw [List.foldl_cons, mem_foldl_insertTy s ts, mem_insertTy, List.mem_cons]
    constructor
    · rintro ((h | h) | h)
      · exact Or.inr (Or.inl h)
      · exact Or.inl h
      · exact Or.inr (Or.inr h)
    · rintro (h | h | h)
      · exact Or.inl (Or.inr h)
      · exact Or.inl (Or.inl h)
      · exact Or.inr h

theorem workInv_self (L : Lang) (c : CanonCfg) (init : List Ty) : WorkInv L c init init :=
  fun _ ht => Or.inl ht

theorem workInv_nil_of_closed {L : Lang} {c : CanonCfg} {canon : List Ty} (h : Closed L c canon)
    (stack : List Ty) : WorkInv L c stack canon :=
  fun t ht => Or.inr (fun s hs => Or.inl (h t ht s hs))

/-! ## 3. a closed canon contains all `Top`/`Bottom`-free subtypes of its members -/

theorem canonOpts_univOK (L : Lang) (c : CanonCfg) (b : Bool) : UnivOK L (canonOpts c b) :=
  univOK_nil rfl

theorem closed_down {L : Lang} {c : CanonCfg} {R : List Ty} (h : Closed L c R) {t s : Ty} (ht : t ∈ R)
    (hs : s ∈ succT L (canonOpts c true) false t) : s ∈ R :=
  h t ht s (List.mem_append_right _ hs)

theorem closed_up {L : Lang} {c : CanonCfg} {R : List Ty} (h : Closed L c R) {t s : Ty} (ht : t ∈ R)
    (hs : s ∈ succT L (canonOpts c false) true t) : s ∈ R :=
  h t ht s (List.mem_append_left _ hs)

theorem reach_in_closed {L : Lang} {c : CanonCfg} {R : List Ty} (h : Closed L c R) {goal t x : Ty}
    (hr : Reach (StepTo L (canonOpts c true) false goal) t x) (ht : t ∈ R) : x ∈ R := by
  induction hr with
  | refl _ => exact ht
  | step hstep _ ih => exact ih (closed_down h ht hstep.1)

theorem closed_contains_subtypes {L : Lang} (wf : WF L) {c : CanonCfg} {R : List Ty} (h : Closed L c R)
    {t s : Ty} (ht : t ∈ R) (hw : wfTy L t = true) (htb : tbFree t = true) (hsb : tbFree s = true)
    (hsub : Sub L s t) : s ∈ R :=
  reach_in_closed h
    (reach_complete wf (canonOpts_univOK L c true) rfl false hw htb hsb (le_down.mpr hsub)) ht

end Tfv.Tax
