import Tfv.Model.Canon
import Tfv.Spec.Sub
/-!
# Specification vocabulary for the type taxonomy (C10)

* `tbFree t`: neither `Top` nor `Bottom` occurs anywhere in `t`; `avoids x t`: operator `x` does not occur in `t`;
* `Le L up x y`: `y` lies in direction `up` from `x` (`x ≤ y` for `up = true`, `y ≤ x` otherwise);
* `UnivOK L o`: the `univ` option only names operators of `L` other than `Top`/`Bottom`;
* `Reach R`: reflexive-transitive closure of a step relation `R`;
* `Link L c canon n up t s`: `s` is a reported direct successor of `t` (`Language.successors`, not transitive);
* `canonOpts c custom`: the successor options used by `expand_canon`;
* `Closed L c R`: `R` contains the direct successors `expand_canon` asks for, of each of its members;
* `expandRun`: `expandCanon` returning the remaining work list as well; `Terminates` = the work list emptied.
-/
namespace Tfv.Tax
open Tfv

mutual
/-- neither `Top` nor `Bottom` occurs in the type -/
def tbFree : Ty → Bool
  | .app o args => o != TOP && o != BOT && tbFreeL args
def tbFreeL : List Ty → Bool
  | [] => true
  | t :: ts => tbFree t && tbFreeL ts
end

mutual
/-- the operator `x` does not occur in the type -/
def avoids (x : Nat) : Ty → Bool
  | .app o args => o != x && avoidsL x args
def avoidsL (x : Nat) : List Ty → Bool
  | [] => true
  | t :: ts => avoids x t && avoidsL x ts
end

/-- `Le L up x y`: going from `x` in direction `up` one can arrive at `y`
(`Sub L x y` if `up`, `Sub L y x` otherwise). -/
def Le (L : Lang) (up : Bool) (x y : Ty) : Prop := if up then Sub L x y else Sub L y x

/-- position-wise `Le` on parameter lists (variance flips the direction) -/
def LeArgs (L : Lang) (up : Bool) (vs : List Bool) (xs ys : List Ty) : Prop :=
  if up then SubArgs L vs xs ys else SubArgs L vs ys xs

/-- the `univ` option names operators of the language other than `Top` and `Bottom` -/
def UnivOK (L : Lang) (o : SOpts) : Prop := ∀ u ∈ o.univ, u ≠ TOP ∧ u ≠ BOT ∧ u < L.length

/-- reflexive-transitive closure -/
inductive Reach (R : Ty → Ty → Prop) : Ty → Ty → Prop
  | refl (t : Ty) : Reach R t t
  | step {t u s : Ty} : R t u → Reach R u s → Reach R t s

/-- one step of `TypeOperation.successors` -/
def Step (L : Lang) (o : SOpts) (up : Bool) (t s : Ty) : Prop := s ∈ succT L o up t

/-- a step of `TypeOperation.successors` between `Top`/`Bottom`-free types that stays on the way to `goal` -/
def StepTo (L : Lang) (o : SOpts) (up : Bool) (goal : Ty) (t u : Ty) : Prop :=
  u ∈ succT L o up t ∧ u ≠ t ∧ Le L up t u ∧ Le L up u goal ∧ tbFree u = true ∧ wfTy L u = true

/-- `s` is reported as a direct successor of `t` by `Language.successors` (non-transitive call) -/
def Link (L : Lang) (c : CanonCfg) (canon : List Ty) (n : Nat) (up : Bool) (t s : Ty) : Prop :=
  s ∈ langSucc L c canon n up t false

/-- the options `expand_canon` passes to `successors` (`custom = false` upwards, `true` downwards) -/
def canonOpts (c : CanonCfg) (custom : Bool) : SOpts :=
  { custom := custom, top := c.includeTop, bottom := c.includeBottom }

/-- the types `expand_canon` pushes for `cur` -/
def canonSucc (L : Lang) (c : CanonCfg) (cur : Ty) : List Ty :=
  succT L (canonOpts c false) true cur ++ succT L (canonOpts c true) false cur

/-- `R` contains every successor that `expand_canon` would push for one of its members -/
def Closed (L : Lang) (c : CanonCfg) (R : List Ty) : Prop :=
  ∀ t ∈ R, ∀ s ∈ canonSucc L c t, s ∈ R

/-- `expandCanon` returning the remaining work list too -/
def expandRun (L : Lang) (c : CanonCfg) : Nat → List Ty → List Ty → List Ty × List Ty
  | 0, stack, canon => (stack, canon)
  | _, [], canon => ([], canon)
  | n+1, stack, canon =>
    match stack.getLast?, stack.dropLast with
    | none, _ => ([], canon)
    | some cur, rest =>
      let canon := insertTy cur canon
      let new := (canonSucc L c cur).filter (fun s => !memTy s canon)
      expandRun L c n (rest ++ new) canon

/-- the fuel sufficed: the work list is empty at the end -/
def Terminates (L : Lang) (c : CanonCfg) (n : Nat) (stack canon : List Ty) : Prop :=
  (expandRun L c n stack canon).1 = []

/-- work-list invariant of `expand_canon`: a member of `canon` is still on the stack, or all its
successors are already in `canon` or on the stack (holds trivially at the start, where `canon = stack`) -/
def WorkInv (L : Lang) (c : CanonCfg) (stack canon : List Ty) : Prop :=
  ∀ t ∈ canon, t ∈ stack ∨ ∀ s ∈ canonSucc L c t, s ∈ canon ∨ s ∈ stack

end Tfv.Tax
