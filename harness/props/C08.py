"""C08 - the from-edges reproduce the expression's data flow, including internal steps."""
from __future__ import annotations
import langgen as G
import infer as I
import exprgen as X
import graphgen as GG
import composites as CP

RULE = ("(a) well-typed first- and higher-order expressions over generated languages (operators as arguments, partial application, several function "
        "arguments, shared numbered sources) whose spines are headed by operators, each built once with the minimal switches and once with a random switch combination (mostly defaults: dependencies on): the tf:from / tf:internal / tf:via sub-graph of add_expr is compared with "
        "the model's and with an independently built data-flow graph (one node per operator application with an edge to each argument's node, one shared node "
        "per source object, one internal node per function-typed argument that feeds the passed operation, receives every other input and the outputs of "
        "sibling passed operations, nested internal nodes fed by the enclosing one); (b) languages with composite operators (compose, flip, const, identity, "
        "partial application, definitions nested in definitions): expressions are expanded with primitive() and the graph of the expansion (abstractions as "
        "arguments included) is compared with the independent data-flow graph; non-trivial = at least two operator applications; distinct by (language, expression)")
ASSUMPTIONS = ["spines headed by a source of function type (`- x`) or by a parameter of an abstraction (`λf. f s`) are outside the statement and are not generated here "
               "(the model shows what happens there: the node returned for such a spine gets no edge - C08_source_head_splits_spine, C08a_param_head_oddity)",

               "part (b): with the minimal switches the graph of the expansion is also compared with the model (Tfv/Model/GraphAbs.lean, abstractions in "
               "argument position); with the default switches it is implementation vs independent specification only"]
TRUSTED = ["the independent data-flow construction `flow_graph` below (oracle)", "harness/iso.py (exact graph isomorphism by individualisation-refinement; rdflib.compare is not used)"]


def flow_graph(expr, lang):
    """the data-flow graph the property describes, built independently of add_expr"""
    from rdflib import Graph, BNode
    from transforge.namespace import TF
    from transforge import expr as E
    from transforge import type as T
    g = Graph()
    nodes = {}
    FROM = TF["from"]

    def spine(e):
        args = []
        while isinstance(e, E.Application):
            args.append(e.x)
            e = e.f
        return e, list(reversed(args))

    def isfun(e):
        t = e.type.follow()
        return isinstance(t, T.TypeOperation) and t.operator == T.Function

    def build(e):
        if isinstance(e, (E.Source, E.Variable)):
            if e not in nodes:
                nodes[e] = BNode()
            return nodes[e]
        head, args = spine(e)
        if not isinstance(head, E.Operation):
            raise ValueError("spine not headed by an operation")
        n = BNode()
        g.add((n, TF.via, lang.namespace[head.operator.name]))
        argnodes, internals = [], []
        for a in args:
            if isfun(a):
                lam = BNode()
                g.add((n, TF.internal, lam))
                if isinstance(a, E.Abstraction):
                    for p in a.params:
                        nodes[p] = lam
                    an = build(a.body)
                else:
                    an = build(a)
                    g.add((an, FROM, lam))
                for inner in list(g.objects(an, TF.internal)):
                    g.add((inner, FROM, lam))
                argnodes.append(an)
                internals.append(lam)
            else:
                an = build(a)
                argnodes.append(an)
                internals.append(None)
            g.add((n, FROM, an))
        for i, lam in enumerate(internals):
            if lam is None:
                continue
            for j, an in enumerate(argnodes):
                if j != i and an != lam:
                    g.add((lam, FROM, an))
        return n
    out = build(expr)
    return g, out


def flow_part(g):
    """the from / internal / via triples of an implementation graph"""
    from rdflib import Graph
    from transforge.namespace import TF
    h = Graph()
    for p in (TF["from"], TF.internal, TF.via):
        for s, o in g.subject_objects(p):
            h.add((s, p, o))
    return h


def operator_headed(tree):
    if tree[0] == "ann":
        return operator_headed(tree[1])
    if tree[0] != "app":
        return True
    head, args = X.PG.spine(X.strip_ann(tree))
    return head[0] == "op" and all(operator_headed(a) for a in args)


def const_free(tree, consts):
    """non-function operators are sources in the graph: fine; nothing to exclude"""
    return True


def run(ctx):
    rng = ctx.rng
    nlang = 16 if ctx.tier == "quick" else 50
    for li in range(nlang):
        spec = G.gen_lang(rng, max_base=4, max_ops=2, max_arity=2)
        ops = spec.build()
        opdecls = X.gen_operators(rng, spec, p_constraints=0.15)
        try:
            lang, operators = X.build_typed_language(spec, ops, opdecls)
        except Exception:  # noqa
            ctx.count("language_rejected")
            continue
        ctx.setup(spec.sexp(), "ok T")
        ctx.setup("(aliases)", "ok")
        ctx.setup(X.operators_line(opdecls), "ok")
        ctx.setup("(canon F F " + " ".join(G.ty_sexp((b, ())) for b in spec.bases()) + ")", "ok")
        ninputs = rng.randint(0, 2)
        trees = X.gen_typed_trees(rng, lang, spec, opdecls, ninputs, rounds=4, per_round=12 if ctx.tier == "quick" else 30, p_ann=0.1, op_heads=True)
        for tree in trees:
            if not operator_headed(tree):
                ctx.count("skipped_source_headed")
                continue
            one_case(ctx, li, spec, ops, opdecls, lang, tree, ninputs)
    composite_cases(ctx)


# minimal switches: only the data-flow triples (and via)
FLOW_BITS = "TFFFFFFFFTFFF"


def one_case(ctx, li, spec, ops, opdecls, lang, tree, ninputs):
    from rdflib import BNode
    from iso import isomorphic
    text = X.tree_text(tree)
    # the data flow must not depend on the annotations that are switched on: once with the minimal switches, once with a random
    # combination (mostly the defaults: dependencies, types, membership ... on)
    for bits in (FLOW_BITS, GG.gen_bits(ctx.rng)):
        obs, ex, e, inputs = X.obs_typed(lang, text, ninputs, ops)
        if e is None:
            return
        g = GG.make_graph(lang, bits)
        root = BNode()
        try:
            out = g.add_expr(e, root)
            gtext = GG.graph_text(g, lang, root, out)
        except Exception as exn:  # noqa
            gtext = "E:X:" + type(exn).__name__
        case = {"lang": spec.to_json(), "text": text, "inputs": ninputs, "bits": bits}
        ctx.case(f"(gexpr {bits} {ninputs} {G.str_sexp(text)})", gtext, case, nontrivial=X.napps(tree) >= 2, key=(li, text, bits), cmp=GG.iso)
        ctx.count("hof" if " tf:internal " in gtext else "first_order")
        ctx.count("switches_minimal" if bits == FLOW_BITS else ("switches_dependencies_on" if bits[-1] == "T" else "switches_dependencies_off"))
        replay = dict(case, opdecls=[[n, s] for n, s in opdecls])
        if gtext.startswith("E:"):
            ctx.fail(f"add_expr of `{text}` raised {gtext}", {"check": "add_expr-error"}, replay)
            return
        want, wout = flow_graph(e, lang)
        if bits[0] == "F":      # with_operators off: no tf:via
            from transforge.namespace import TF
            want.remove((None, TF.via, None))
        if not isomorphic(flow_part(g), want):
            ctx.fail(f"`{text}` (switches {bits}): the from/internal/via sub-graph ({len(flow_part(g))} triples) is not the data-flow graph of the expression ({len(want)} triples)",
                {"check": "data-flow", "higher_order": " tf:internal " in gtext}, replay)


def dump_aexpr(e):
    """an expanded expression (abstractions in argument position) as the tree the model's `gexpra` command reads; types are
    rendered structurally only (function or not is all the data-flow wiring reads)"""
    from transforge import expr as E
    from transforge import type as T
    srcs, pvars = [], []

    def ty(t, depth=0):
        t = t.follow()
        if isinstance(t, T.TypeVariable) or depth > 6:
            return "(v 0)"
        if t.operator == T.Function:
            return "(4 " + ty(t.params[0], depth + 1) + " " + ty(t.params[1], depth + 1) + ")"
        return "(5)"

    def ident(x, table):
        for k, y in enumerate(table):
            if y is x:
                return k
        table.append(x)
        return len(table) - 1

    def go(x):
        if isinstance(x, E.Application):
            return f"(app {go(x.f)} {go(x.x)} {ty(x.type)})"
        if isinstance(x, E.Operation):
            return f"(op {x.operator.name} {ty(x.type)})"
        if isinstance(x, E.Source):
            return f"(src {ident(x, srcs)} {ty(x.type)})"
        if isinstance(x, E.Abstraction):
            ps = " ".join(str(ident(p, pvars)) for p in x.params)
            return f"(lam ({ps}) {go(x.body)} {ty(x.type)})"
        if isinstance(x, E.Variable):
            if x.bound:
                return go(x.bound)
            return f"(pvar {ident(x, pvars)} {ty(x.type)})"
        raise ValueError(type(x).__name__)
    return go(e)


def composite_cases(ctx):
    """(b) expanded composite operators"""
    from rdflib import BNode
    from iso import isomorphic
    from transforge.graph import TransformationGraph
    rng = ctx.rng
    for li in range(3 if ctx.tier == "quick" else 12):
        fam = CP.gen_family(rng)
        for k in range(40 if ctx.tier == "quick" else 200):
            text = CP.gen_expr_text(rng, fam, depth=rng.randint(1, 3), linear_only=rng.random() < 0.5)
            try:
                e = fam.lang.parse(text, *fam.sources())
                p = e.primitive()
                p.fix()
            except Exception as ex:  # noqa
                ctx.count("composite_skipped_" + type(ex).__name__)
                continue
            minimal = bool(k % 2)
            g = GG.make_graph(fam.lang, FLOW_BITS) if minimal else TransformationGraph(fam.lang)
            root = BNode()
            if minimal:
                # the model builds the graph of the same tree (abstractions included: Tfv/Model/GraphAbs.lean)
                try:
                    out = GG.make_graph(fam.lang, FLOW_BITS)
                    o2 = out.add_expr(p, root)
                    gtext = GG.graph_text(out, fam.lang, root, o2)
                except AssertionError:
                    gtext = "E:Internal(add_expr:assert Application)"
                except Exception as ex:  # noqa
                    gtext = "E:X:" + type(ex).__name__
                ctx.case(f"(gexpra {FLOW_BITS} {dump_aexpr(p)})", gtext, {"family": fam.to_json(), "text": text}, nontrivial=True, key=("comp", li, text), cmp=GG.iso)
                ctx.evaluations -= 1
            try:
                g.add_expr(p, root)
                want, _ = flow_graph(p, fam.lang)
            except Exception as ex:  # noqa
                ctx.fail(f"graph of the expansion of `{text}` raised {type(ex).__name__}: {ex}", {"check": "composite-graph-error", "exception": type(ex).__name__},
                    {"family": fam.to_json(), "text": text})
                continue
            ctx.evaluations += 1
            ctx.count("composite_graphs")
            if not isomorphic(flow_part(g), want):
                ctx.fail(f"expansion of `{text}` = `{p}`: from/internal/via sub-graph differs from the data-flow graph",
                    {"check": "data-flow-composite"}, {"family": fam.to_json(), "text": text})


def replay(ctx, payload):
    from props.C03 import fix_schema
    from rdflib import BNode
    from iso import isomorphic
    inp = payload["input"]
    if "family" in inp:
        fam = CP.family_from_json(inp["family"])
        e = fam.lang.parse(inp["text"], *fam.sources())
        p = e.primitive()
        p.fix()
        from transforge.graph import TransformationGraph
        ok = True
        for g in (TransformationGraph(fam.lang, minimal=True, with_operators=True), TransformationGraph(fam.lang)):
            g.add_expr(p, BNode())
            want, _ = flow_graph(p, fam.lang)
            ok = ok and isomorphic(flow_part(g), want)
        print(inp["text"], "->", p, "data-flow graph matches" if ok else "DIFFERS")
        return ok
    spec = G.LangSpec([(n, v, p) for n, v, p in inp["lang"]])
    ops = spec.build()
    opdecls = [(n, fix_schema(s)) for n, s in inp["opdecls"]]
    lang, operators = X.build_typed_language(spec, ops, opdecls)
    obs, ex, e, inputs = X.obs_typed(lang, inp["text"], inp["inputs"], ops)
    g = GG.make_graph(lang, inp.get("bits", FLOW_BITS))
    g.add_expr(e, BNode())
    want, _ = flow_graph(e, lang)
    if inp.get("bits", FLOW_BITS)[0] == "F":
        from transforge.namespace import TF
        want.remove((None, TF.via, None))
    ok = isomorphic(flow_part(g), want)
    print(inp["text"], inp.get("bits", FLOW_BITS), "data-flow graph matches" if ok else "DIFFERS")
    return ok
