import Tfv.Proofs.FitsApplyBaseOwn2
/-!
# C06 end to end, alternatives with their own variables, part 3: unifying the argument with the matching alternative;
`fix` of a result type that mentions `x` only
-/
namespace Tfv.C06B
open Tfv Tfv.C03P Tfv.C03C Tfv.C16P Tfv.C17E Tfv.C03R Tfv.C06A Tfv.C05P

/-- the variables `w, w+1, …` as terms -/
def varsFrom : Nat → Nat → List Term
  | _, 0 => []
  | w, k+1 => .var w :: varsFrom (w+1) k

/-- unify the components `ts` with the variables `w, w+1, …` in turn (`vs`: the variances) -/
def argSteps (L : Lang) : Store → List Bool → List Ty → Nat → Store
  | σ, v :: vs, t :: ts, w => argSteps L (argStep L σ v t w) vs ts (w+1)
  | σ, _, _, _ => σ

theorem freshAt_argStep {L : Lang} {σ : Store} {w w' c : Nat} (v : Bool) (t : Ty) (hne : w ≠ w')
    (hf : FreshAt σ w' c) : FreshAt (argStep L σ v t w) w' c := by
  have key : ∀ i : VarInfo, FreshAt (setCset (setVar σ w i) w []) w' c := fun i => by
    obtain ⟨hlt, hi, hcs, hful⟩ := hf
    refine ⟨by rw [length_setCset, length_setVar]; exact hlt, ?_, ?_, hful⟩
    · rw [getVar_setCset, C03P.getVar_setVar_ne _ hne]; exact hi
    · rw [getCset_setCset_other _ hne, C03P.getCset_setVar]; exact hcs
  unfold argStep
  split
  · split
    · exact hf
    · exact key _
  · split
    · exact hf
    · exact key _

theorem unifyList_fresh (L : Lang) (c : Nat) : ∀ (ts : List Ty) (vs : List Bool) (σ : Store) (w n : Nat),
    (∀ j, j < ts.length → FreshAt σ (w+j) c) → ts.length + 7 ≤ n →
    unifyList L n σ vs (Ty.toTermL ts) (varsFrom w ts.length) true false false = .ok (argSteps L σ vs ts w)
  | [], vs, σ, w, n, _, hn => by
    obtain ⟨m, rfl⟩ : ∃ m, n = m + 1 := ⟨n - 1, by omega⟩
    rw [Ty.toTermL, unifyList_nil_xs]
    cases vs <;> rfl
  | t :: ts, [], σ, w, n, _, hn => by
    obtain ⟨m, rfl⟩ : ∃ m, n = m + 1 := ⟨n - 1, by omega⟩
    rw [unifyList_nil_vs]; rfl
  | t :: ts, v :: vs, σ, w, n, hf, hn => by
    rw [List.length_cons] at hn
    obtain ⟨m, rfl⟩ : ∃ m, n = m + 7 := ⟨n - 7, by omega⟩
    have h0 : FreshAt σ w c := hf 0 (by simp)
    rw [Tfv.toTermL_cons, List.length_cons, varsFrom, unifyList_cons]
    have hstep : (if v then unify L (m+6) σ t.toTerm (.var w) true false false
        else unify L (m+6) σ (.var w) t.toTerm true false false) = .ok (argStep L σ v t w) := by
      cases v
      · exact unify_contra L m σ w c t h0
      · exact unify_co L m σ w c t h0
    rw [hstep]
    simp only []
    rw [unifyList_fresh L c ts vs _ (w+1) (m+6) (fun j hj => by
      have := hf (j+1) (by simp; omega)
      rw [show w + 1 + j = w + (j + 1) by omega]
      exact freshAt_argStep v t (by omega) this) (by omega), argSteps]

/-! ## `fix` of a term whose only variable is bound to a concrete type -/

theorem fix_fixList_bound0 (L : Lang) (σ : Store) (a : Ty) (hb : (getVar σ 0).bound = some a.toTerm) : ∀ (n : Nat),
    (∀ (t : Term) pl, (∀ v ∈ t.vars, v = 0) → 2 * (tsz t * Ty.size a) ≤ n →
      fix L n σ t pl = .ok (σ, resTerm σ t)) ∧
    (∀ vs (ts : List Term) pl, (∀ v ∈ Term.varsL ts, v = 0) → 2 * (tszL ts * Ty.size a) + 1 ≤ n →
      fixList L n σ vs ts pl = .ok σ)
  | 0 => by
    refine ⟨?_, ?_⟩
    · intro t pl _ h
      have h1 := tsz_pos t
      have h2 := size_pos a
      have : 1 ≤ tsz t * Ty.size a := Nat.mul_le_mul h1 h2
      omega
    · intro vs ts pl _ h; omega
  | n+1 => by
    obtain ⟨ih1, ih2⟩ := fix_fixList_bound0 L σ a hb n
    have hS := size_pos a
    refine ⟨?_, ?_⟩
    · intro t pl hv h
      cases t with
      | var v =>
        have : v = 0 := hv v (by rw [Term.vars]; exact List.mem_singleton.mpr rfl)
        subst this
        rw [tsz, Nat.one_mul] at h
        unfold fix
        rw [followT_bound_toTerm hb]
        cases a with
        | app ao as =>
          rw [Ty.size] at h
          rw [Tfv.toTerm_app]
          simp only []
          rw [(fix_fixList_toTerm L n).2 σ _ as pl (by omega)]
          simp only [resTerm]
          rw [followT_bound_toTerm hb, Tfv.toTerm_app]
      | app o args =>
        rw [tsz, Nat.add_mul, Nat.one_mul] at h
        rw [Term.vars] at hv
        unfold fix
        rw [Tfv.followT_app]
        simp only []
        rw [ih2 _ args pl hv (by omega)]
        rfl
    · intro vs ts pl hv h
      match vs, ts with
      | [], ts => exact fixList_nil_left L n σ _ pl
      | _ :: _, [] => exact fixList_nil_right L n σ _ pl
      | v :: vs, t :: ts =>
        rw [tszL, Nat.add_mul] at h
        rw [Term.varsL] at hv
        have h1 := tsz_pos t
        have : 1 ≤ tsz t * Ty.size a := Nat.mul_le_mul h1 hS
        rw [fixList_cons, ih1 t _ (fun v hv' => hv v (List.mem_append_left _ hv')) (by omega)]
        simp only []
        exact ih2 vs ts pl (fun v hv' => hv v (List.mem_append_right _ hv')) (by omega)

theorem fix_bound0 {L : Lang} {σ : Store} {a : Ty} (hb : (getVar σ 0).bound = some a.toTerm) (n : Nat) (t : Term)
    (pl : Bool) (hv : ∀ v ∈ t.vars, v = 0) (h : 2 * (tsz t * Ty.size a) ≤ n) :
    fix L n σ t pl = .ok (σ, resTerm σ t) := (fix_fixList_bound0 L σ a hb n).1 t pl hv h

end Tfv.C06B
