"""C15 - expanding composite operators is beta-reduction and preserves types."""
from __future__ import annotations
import composites as CP

RULE = ("families of languages with monomorphic primitives (first- and higher-order, a subtype B <= A), the polymorphic combinators compose / flip / const / "
        "ident / twice and 2-6 randomly generated composite operators whose bodies use earlier definitions (partial application included); type-directed "
        "expressions of depth <= 3 (data- and function-valued) over shared numbered sources, half of them using definitions that duplicate a parameter; observed: primitive() result tree, its type, a second expansion; "
        "oracle: an independent normaliser on de-Bruijn terms (unfold every composite, leftmost-outermost beta reduction to full normal form), absence of "
        "composite operators and redexes, type of the expansion <= type before, idempotence, and no typing error for a language that validates; "
        "non-trivial = the expression mentions at least one composite operator; distinct by (family, expression)")
ASSUMPTIONS = ["bound-variable names are compared up to renaming (de Bruijn indices)"]
TRUSTED = ["the independent normaliser in this file (oracle)"]


# -- independent lambda calculus -------------------------------------------------------------

def unfold(fam, t):
    """data term ('op', n) | ('p', i) [source i] | ('app', f, x) -> lambda term with composites replaced by their definitions"""
    if t[0] == "op":
        name = t[1]
        if name in fam.use_combinators:
            _, k, body, _, _ = CP.COMBINATORS[name]
            return lam_n(k, body_to_db(fam, body, k))
        for n, ps, r, body in fam.comps:
            if n == name:
                return lam_n(len(ps), body_to_db(fam, body, len(ps)))
        return ("op", name)
    if t[0] == "p":
        return ("src", t[1])
    return ("app", unfold(fam, t[1]), unfold(fam, t[2]))


def body_to_db(fam, b, k, depth=0):
    """operator body with parameters ('p', i) of a k-ary definition -> de Bruijn term (innermost binder = 0)"""
    if b[0] == "p":
        return ("var", k - 1 - b[1])
    if b[0] == "op":
        return shift(unfold(fam, b), 0, 0)
    return ("app", body_to_db(fam, b[1], k), body_to_db(fam, b[2], k))


def lam_n(k, body):
    for _ in range(k):
        body = ("lam", body)
    return body


def shift(t, d, c):
    if t[0] == "var":
        return ("var", t[1] + d) if t[1] >= c else t
    if t[0] == "lam":
        return ("lam", shift(t[1], d, c + 1))
    if t[0] == "app":
        return ("app", shift(t[1], d, c), shift(t[2], d, c))
    return t


def subst(t, j, s):
    if t[0] == "var":
        return s if t[1] == j else t
    if t[0] == "lam":
        return ("lam", subst(t[1], j + 1, shift(s, 1, 0)))
    if t[0] == "app":
        return ("app", subst(t[1], j, s), subst(t[2], j, s))
    return t


def nf(t, fuel=[0]):
    """full normal form, leftmost-outermost"""
    fuel[0] += 1
    if fuel[0] > 20000:
        raise RuntimeError("normaliser out of fuel")
    if t[0] == "app":
        f = whnf(t[1], fuel)
        if f[0] == "lam":
            return nf(shift(subst(f[1], 0, shift(t[2], 1, 0)), -1, 0), fuel)
        return ("app", nf(f, fuel), nf(t[2], fuel))
    if t[0] == "lam":
        return ("lam", nf(t[1], fuel))
    return t


def whnf(t, fuel):
    fuel[0] += 1
    if fuel[0] > 20000:
        raise RuntimeError("normaliser out of fuel")
    if t[0] == "app":
        f = whnf(t[1], fuel)
        if f[0] == "lam":
            return whnf(shift(subst(f[1], 0, shift(t[2], 1, 0)), -1, 0), fuel)
        return ("app", f, t[2])
    return t


# -- the implementation's result as a de Bruijn term -----------------------------------------------

def to_db(e, srcs, binders=()):
    from transforge import expr as E
    while isinstance(e, E.Variable) and e.bound:
        e = e.bound
    if isinstance(e, E.Variable):
        for i, b in enumerate(reversed(binders)):
            if b is e:
                return ("var", i)
        return ("freevar", id(e))
    if isinstance(e, E.Operation):
        return ("op", e.operator.name)
    if isinstance(e, E.Source):
        for k, s in enumerate(srcs):
            if s is e:
                return ("src", k)
        return ("src", "?")
    if isinstance(e, E.Application):
        return ("app", to_db(e.f, srcs, binders), to_db(e.x, srcs, binders))
    if isinstance(e, E.Abstraction):
        bs = tuple(binders) + tuple(e.params)
        return lam_n(len(e.params), to_db(e.body, srcs, bs))
    return ("?", type(e).__name__)


def has_redex_or_composite(fam, t):
    if t[0] == "op":
        return "composite operator " + t[1] if fam.is_composite(t[1]) else None
    if t[0] == "app":
        if t[1][0] == "lam":
            return "reducible application"
        return has_redex_or_composite(fam, t[1]) or has_redex_or_composite(fam, t[2])
    if t[0] == "lam":
        return has_redex_or_composite(fam, t[1])
    if t[0] in ("freevar", "?"):
        return "unbound variable or unknown node " + str(t)
    return None


def mentions_composite(fam, t):
    if t[0] == "op":
        return fam.is_composite(t[1])
    if t[0] == "app":
        return mentions_composite(fam, t[1]) or mentions_composite(fam, t[2])
    return False


def uses_nonlinear(fam, t):
    if t[0] == "op":
        return not CP.self_linear(fam, t[1])
    if t[0] == "app":
        return uses_nonlinear(fam, t[1]) or uses_nonlinear(fam, t[2])
    return False


def dup_param_with_composite_arg(fam, t):
    """feature of D8: a definition that uses a parameter twice is applied to a non-atomic argument"""
    return uses_nonlinear(fam, t)


def run(ctx):
    rng = ctx.rng
    nfam = 12 if ctx.tier == "quick" else 60
    nexpr = 120 if ctx.tier == "quick" else 400
    for fi in range(nfam):
        fam = CP.gen_family(rng)
        try:
            fam.lang.validate()
            valid = True
        except Exception as ex:  # noqa
            valid = False
            ctx.count("family_invalid_" + type(ex).__name__ + ":" + type(ex.__cause__).__name__)
        ctx.count("family_valid" if valid else "family_not_valid")
        for k in range(nexpr):
            target = CP.A if rng.random() < 0.8 else CP.fun(CP.A, CP.A)
            tree = CP.gen_expr_tree(rng, fam, depth=rng.randint(1, 3), linear_only=rng.random() < 0.5, target=target)
            one_case(ctx, fi, fam, tree, valid)


def one_case(ctx, fi, fam, tree, valid=True):
    from transforge import type as T
    from transforge.expr import ApplicationError
    from transforge.lang import ParseError
    text = CP.term_text(tree)
    replay = {"family": fam.to_json(), "text": text}
    feats = {"nonlinear_definition_used": uses_nonlinear(fam, tree)}
    srcs = fam.sources()
    try:
        e = fam.lang.parse(text, *srcs)
    except (T.TypingError, ApplicationError, ParseError) as ex:
        ctx.count("illtyped_" + type(ex).__name__)
        return
    ctx.evaluations += 1
    if mentions_composite(fam, tree):
        ctx.distinct.add((fi, text))
    before = str(e.type)
    tbefore = e.type
    try:
        p = e.primitive()
    except (T.TypingError, ApplicationError) as ex:
        ctx.count("expansion_typing_error")
        if valid:
            ctx.fail(f"`{text}` is well-typed in a language that validates, but primitive() raised {type(ex).__name__}: {ex}",
                dict(feats, check="expansion-type-error", exception=type(ex).__name__), replay)
        return
    except Exception as ex:  # noqa
        ctx.count("expansion_" + type(ex).__name__)
        ctx.fail(f"primitive() of `{text}` raised {type(ex).__name__}: {ex}",
            dict(feats, check="expansion-crash", exception=type(ex).__name__), replay)
        return
    got = to_db(p, srcs)
    if True:
        # the model (pure calculus) against the implementation - since the repair of D8 also for definitions that use a parameter more than once
        ctx.case(f"(prim {defs_sexp(fam)} {lterm_sexp(tree_to_l(tree))})", "ok " + show_l(got), {"family": fam.to_json(), "text": text},
            nontrivial=mentions_composite(fam, tree), key=(fi, text))
        ctx.evaluations -= 1
    bad = has_redex_or_composite(fam, got)
    if bad:
        ctx.fail(f"primitive() of `{text}` = `{p}` still contains a {bad}", dict(feats, check="not-normal"), replay)
        return
    try:
        want = nf(unfold(fam, tree), [0])
    except RuntimeError:
        ctx.count("normaliser_out_of_fuel")
        return
    ctx.count("expanded_ok")
    if got != want:
        ctx.fail(f"primitive() of `{text}` = `{p}` differs from the independently computed normal form {show(want)}",
            dict(feats, check="normal-form"), replay)
        return
    # type: same or more specific
    try:
        r = p.type.is_subtype(tbefore)
    except Exception as ex:  # noqa
        r = f"error {type(ex).__name__}"
    concrete_before = not any(True for _ in tbefore.variables())
    if r is None and concrete_before:
        # undetermined because the expansion's type still has variables: it must hold for every instantiation within their bounds
        r = True if subtype_at_all_corners(fam, p.type, tbefore) else False
    if r is not True and (r is not None or concrete_before):
        ctx.fail(f"primitive() of `{text}` has type {p.type}, not (known to be) a subtype of the unexpanded type {before}", dict(feats, check="type-preservation"), replay)
    # idempotence
    try:
        p2 = p.primitive()
        got2 = to_db(p2, srcs)
    except Exception as ex:  # noqa
        ctx.fail(f"expanding `{p}` (the expansion of `{text}`) again raised {type(ex).__name__}", dict(feats, check="idempotence-crash", exception=type(ex).__name__), replay)
        return
    if got2 != got:
        ctx.fail(f"expanding `{p}` again changes it to `{p2}`", dict(feats, check="idempotence"), replay)


def tree_to_l(t):
    if t[0] == "op":
        return ("op", t[1])
    if t[0] == "p":
        return ("src", t[1])
    return ("app", tree_to_l(t[1]), tree_to_l(t[2]))


def body_to_l(b, k):
    if b[0] == "p":
        return ("var", k - 1 - b[1])
    if b[0] == "op":
        return ("op", b[1])
    return ("app", body_to_l(b[1], k), body_to_l(b[2], k))


def lterm_sexp(t):
    if t[0] in ("op",):
        return f"(op {t[1]})"
    if t[0] in ("src", "var"):
        return f"({t[0]} {t[1]})"
    if t[0] == "lam":
        return "(lam " + lterm_sexp(t[1]) + ")"
    return "(app " + lterm_sexp(t[1]) + " " + lterm_sexp(t[2]) + ")"


def defs_sexp(fam):
    ds = []
    for n in fam.use_combinators:
        _, k, body, _, _ = CP.COMBINATORS[n]
        ds.append(f"({n} {k} {lterm_sexp(body_to_l(body, k))})")
    for n, ps, r, body in fam.comps:
        ds.append(f"({n} {len(ps)} {lterm_sexp(body_to_l(body, len(ps)))})")
    return "(defs " + " ".join(ds) + ")"


def show_l(t):
    """identical to the Lean driver's `LTerm.show`"""
    if t[0] == "lam":
        return "(L " + show_l(t[1]) + ")"
    if t[0] == "app":
        return "(" + show_l(t[1]) + " " + show_l(t[2]) + ")"
    if t[0] == "var":
        return f"#{t[1]}"
    if t[0] == "src":
        return f"s{t[1]}"
    return str(t[1])


def subtype_at_all_corners(fam, t, concrete):
    """t (may contain bounded variables) <= concrete for every corner instantiation of its variables"""
    import itertools
    import langgen as G
    from refsub import ref_sub
    from transforge import type as T
    spec = G.LangSpec(list(G.BUILTIN_DECLS) + [("A", [], None), ("B", [], 5)])
    ops = [T.Unit, T.Top, T.Bottom, T.Product, T.Function, fam.T["A"], fam.T["B"]]

    def idx(o):
        return next(i for i, x in enumerate(ops) if x is o)
    vs = []

    def collect(x):
        x = x.follow()
        if isinstance(x, T.TypeVariable):
            if not any(x is v for v in vs):
                vs.append(x)
        else:
            for p_ in x.params:
                collect(p_)
    collect(t)

    def inst(x, rho):
        x = x.follow()
        if isinstance(x, T.TypeVariable):
            return rho[id(x)]
        return (idx(x.operator), tuple(inst(p_, rho) for p_ in x.params))
    choices = []
    for v in vs:
        lo = (idx(v.lower), ()) if v.lower else (G.BOT, ())
        hi = (idx(v.upper), ()) if v.upper else (G.TOP, ())
        choices.append([lo, hi])
    want = inst(concrete, {})
    for combo in itertools.islice(itertools.product(*choices), 64):
        rho = {id(v): c for v, c in zip(vs, combo)}
        if not ref_sub(spec, inst(t, rho), want):
            return False
    return True


def show(t):
    if t[0] == "lam":
        return "(λ. " + show(t[1]) + ")"
    if t[0] == "app":
        return "(" + show(t[1]) + " " + show(t[2]) + ")"
    if t[0] == "var":
        return f"#{t[1]}"
    if t[0] == "src":
        return f"s{t[1]}"
    return str(t[1])


def replay(ctx, payload):
    inp = payload["input"]
    fam = CP.family_from_json(inp["family"])
    # re-derive the tree from the text by a tiny parser of the plain `f x (g y)` notation
    tree = parse_plain(inp["text"])
    c = type("C", (), {"failures": [], "stats": {}, "evaluations": 0, "distinct": set(), "count": lambda self, n, k=1: None,
        "fail": lambda self, d, f, r: self.failures.append((d, f))})()
    one_case(c, 0, fam, tree)
    for d, f in c.failures:
        print(d, f)
    print("oracle:", "holds" if not c.failures else "fails")
    return not c.failures


def parse_plain(text):
    toks = text.replace("(", " ( ").replace(")", " ) ").split()
    pos = [0]

    def item():
        t = toks[pos[0]]
        pos[0] += 1
        if t == "(":
            e = spine_()
            pos[0] += 1
            return e
        if t.isdigit():
            return ("p", int(t) - 1)
        return ("op", t)

    def spine_():
        e = item()
        while pos[0] < len(toks) and toks[pos[0]] != ")":
            e = ("app", e, item())
        return e
    return spine_()
