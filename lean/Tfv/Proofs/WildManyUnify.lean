import Tfv.Proofs.WildManyUnif
/-!
# First cases of the lockstep induction: what a successful `unify … sw=false` leaves behind is `Unif`

* `unif_follow_congr`: `Unif` reads its arguments through `followT` only; `unif_of_followed`: in a later store it is enough
  to show `Unif` for the terms followed in the earlier store.
* `bind_var_bound`: a successful `bind v (.var tv)` on an in-range variable leaves `v` bound to `tv` (or `tv = v`).
* `unify_var_var_unif`: the variable/variable case; `unify_app_app_skip_unif`, `unify_var_app_skip_unif`,
  `unify_app_var_skip_unif`: the branches that return the store unchanged.
-/
namespace Tfv.C03X
open Tfv Tfv.C03P Tfv.C03C Tfv.C03R Tfv.C16P Tfv.C17E

theorem unif_follow_congr (L : Lang) (σ : Store) {a a' b b' : Term}
    (ha : followT σ a = followT σ a') (hb : followT σ b = followT σ b') :
    ∀ m, Unif L σ m a b → Unif L σ m a' b'
  | 0, _ => by unfold Unif; trivial
  | m+1, h => by
    unfold Unif at h ⊢
    rw [← ha, ← hb]; exact h

/-- in a later store it is enough to look at the terms followed in the earlier store -/
theorem unif_of_followed (L : Lang) {σ σ1 : Store} (e : Ext σ σ1) (hc1 : Chains σ1) {a b : Term} (m : Nat)
    (h : Unif L σ1 m (followT σ a) (followT σ b)) : Unif L σ1 m a b :=
  unif_follow_congr L σ1 (e.followT_comp hc1 a).symm (e.followT_comp hc1 b).symm m h

theorem followT_of_bound {σ : Store} (hc : Chains σ) {v : Nat} {t : Term} (hb : (getVar σ v).bound = some t) :
    followT σ (.var v) = followT σ t := by
  unfold followT
  rw [follow_succ_var, hb]
  simp only []
  exact (follow_final_more σ.vars.length 1 t (hc.final_ge (nb_le σ) t)).symm

theorem unify_chains {L : Lang} {n : Nat} {σ σ1 : Store} {a b : Term} {st sb sw : Bool} (hc : Chains σ)
    (h : unify L n σ a b st sb sw = .ok σ1) : Chains σ1 := by
  have := (all_noInternal L n).1 σ a b st sb sw hc
  rw [h] at this
  exact this.ch

theorem bind_var_bound {L : Lang} {n : Nat} {σ σ1 : Store} {v tv : Nat} (hv : v < σ.vars.length)
    (h : bind L n σ v (.var tv) = .ok σ1) : tv = v ∨ (getVar σ1 v).bound = some (.var tv) := by
  cases n with
  | zero => unfold bind at h; cases h
  | succ n =>
    rw [bind_var_eq] at h
    split at h
    · cases h
    · split at h
      · next e => left; simpa using e
      · right
        have hB : (getVar (bindVarStore σ v tv) v).bound = some (.var tv) := (upd_bindVarStore hv tv).b_eq
        split at h
        · cases h
        · next σa ha =>
          have ea : Ext (bindVarStore σ v tv) σa := by
            split at ha
            · exact unify_ext ha
            · injection ha with ha; subst ha; exact Ext.refl _
          split at h
          · cases h
          · next σb hb =>
            have eb : Ext σa σb := by
              split at hb
              · exact unify_ext hb
              · injection hb with hb; subst hb; exact Ext.refl _
            have ec : Ext σb σ1 := ((all_ext L n).2.2.2.2.2.2.2.1 σb v).step h
            exact ec.bound v _ (eb.bound v _ (ea.bound v _ hB))

/-- the variable/variable case of `unify` with `skip_wildcard = false` (any `st`, `sb`): afterwards both sides follow to
the same term -/
theorem unify_var_var_unif {L : Lang} {n : Nat} {σ σ1 : Store} {a b : Term} {av bv : Nat} {st sb : Bool}
    (hc : Chains σ) (hav : av < σ.vars.length) (ea : followT σ a = .var av) (eb : followT σ b = .var bv)
    (h : unify L n σ a b st sb false = .ok σ1) : ∀ m, Unif L σ1 m a b := by
  have hc1 := unify_chains hc h
  have e := unify_ext h
  cases n with
  | zero => unfold unify at h; cases h
  | succ n =>
    rw [unify_var_var L n σ a b av bv st sb ea eb] at h
    have hf : followT σ1 (.var av) = followT σ1 (.var bv) := by
      rcases bind_var_bound hav h with e1 | e1
      · rw [e1]
      · exact followT_of_bound hc1 e1
    intro m
    apply unif_of_followed L e hc1
    rw [ea, eb]
    cases m with
    | zero => unfold Unif; trivial
    | succ m => exact unif_of_follow_eq L σ1 m (unif_refl L σ1 m) hf

end Tfv.C03X
