import sys, random, re, warnings
warnings.filterwarnings('ignore')
REPO=sys.argv[1]; sys.path.insert(0,REPO)
from transforge.type import *
from transforge.type import _
from transforge.expr import *
from transforge.lang import *
from transforge.graph import *
from transforge.query import *
from rdflib import BNode
def mk():
    A=TypeOperator('A'); B=TypeOperator('B',supertype=A); C=TypeOperator('C',supertype=B); D=TypeOperator('D')
    F=TypeOperator('F',params=1); G=TypeOperator('G',params=2)
    FA=TypeAlias(F(A)); GG=TypeAlias(lambda x: G(x, B))
    ops=dict(
     ab=Operator(type=A**B), g=Operator(type=lambda x: x**x), h=Operator(type=lambda x: x**x**x),
     w=Operator(type=lambda x: x**F(x)), u=Operator(type=lambda x: F(x)**x),
     k=Operator(type=lambda x,y: x**y**G(x,y) [x << [A, F(_)], y <= A]),
     keys=Operator(type=lambda a,b: a ** F(b) [a << [F(b), G(b, _)]]),
     m=Operator(type=(A**A)**A**A), wild=Operator(type=lambda: F(_)**A),
     comp=Operator(type=lambda a,b,c: (b**c)**(a**b)**(a**c), body=lambda f,g,x: f(g(x))),
     inc=Operator(type=lambda x: x**x, body=lambda x: g_(x)) if False else Operator(type=A**B, body=lambda x: ab_(x)) if False else Operator(type=A**A),
    )
    return Language(dict(A=A,B=B,C=C,D=D,F=F,G=G,FA=FA,GG=GG,**ops), namespace=TEST, canon={A,D,F(A),G(A,A)})
texts_ok=['g (-: B)','h (-: B) (-: C)','w (u (-: F(C)))','k (-: B) (-: C)','keys (-: G(C, D))','keys (-: FA)','m g (-: C)','wild (-: F(D))','comp g ab (-: A)','h (1: B) 2','- : GG(C)','m (comp g g) (-: B)', 'k (-: F(D)) (-: B)']
texts_bad=['g (','h (-: B) (-: D)','ab (-: D)','keys (-: A)','k (-: D) (-: B)','zzz','g (-: Q)',': A','m g g','u (-: A)','1','w : ']
def dump(e):
    e.fix()
    return re.sub(r'τ\d+', 'τ', e.tree())
def probe(lang, s):
    try:
        return dump(lang.parse(s, Source(), Source()))
    except Exception as ex:
        return type(ex).__name__
rng=random.Random(int(sys.argv[2])); bad=0; n=0
for it in range(150):
    lang=mk()
    for step in range(rng.randint(0,12)):
        r=rng.random()
        try:
            if r<0.4: lang.parse(rng.choice(texts_ok), Source(), Source())
            elif r<0.7: lang.parse(rng.choice(texts_bad), Source())
            elif r<0.8: lang.validate()
            elif r<0.9:
                g=TransformationGraph(lang); g.add_expr(lang.parse(rng.choice(texts_ok), Source(), Source()), BNode())
            else:
                g=TransformationGraph(lang, with_canonical_types=True); g.add_vocabulary()
        except Exception as ex: pass
    s=rng.choice(texts_ok+texts_bad)
    a=probe(lang,s); b=probe(mk(),s); n+=1
    if a!=b:
        bad+=1
        if bad<4: print('HISTORY-DEP', s, '\n', a, '\n', b)
print(REPO,'histories',n,'bad',bad)
