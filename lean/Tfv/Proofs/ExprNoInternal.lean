import Tfv.Model
import Tfv.Spec.History
import Tfv.Proofs.InferNoInternalTop
import Tfv.Proofs.InferNoInternalFuel
/-!
# The typed expression builder never fails with an internal error (C17, expression layer): the operations

The builder's error type is `PErr`. Three of its shapes stand for an escaped Python assertion / index
error: `.internal site` (the parsers' own sites), and the two constructors that carry an engine error,
`.typing e` and `.application e`, when `e` is `Err.internal site` (the driver prints them as
`Internal(site)` and `ApplicationError:Internal(site)`). `isIntP` collects the three.
`Err.outOfFuel` (engine fuel, an artefact of the model) is not internal.

Every operation of the typed builder (`mkSourceT`, `mkOpT`, `mkAppT`, `annotateT`), `mkInputs`,
`callT`, `fixExpr`, `fixExprCore`, started on a store satisfying `FuelOk`, returns a store satisfying
`FuelOk` again or an error that is not internal.
-/
namespace Tfv.C17X
open Tfv Tfv.C17E

/-! ## 1. internal errors of the builder's error type -/

/-- the error stands for an escaped assertion of the implementation -/
def isIntP : PErr → Bool
  | .internal _ => true
  | .typing e => isInt e
  | .application e => isInt e
  | _ => false

theorem isIntP_false_iff {e : PErr} : isIntP e = false ↔
    ∀ s, e ≠ .internal s ∧ e ≠ .typing (.internal s) ∧ e ≠ .application (.internal s) := by
  constructor
  · intro h s
    refine ⟨?_, ?_, ?_⟩ <;> (intro hs; rw [hs] at h; cases h)
  · intro h
    cases e with
    | internal s => exact absurd rfl (h s).1
    | typing e =>
      cases e with
      | internal s => exact absurd rfl (h s).2.1
      | _ => rfl
    | application e =>
      cases e with
      | internal s => exact absurd rfl (h s).2.2
      | _ => rfl
    | _ => rfl

/-- a builder state with a store satisfying the invariant, or an error that is not internal -/
def GoodX {α : Type} : Except PErr (XState × α) → Prop
  | .ok (s, _) => FuelOk s.store
  | .error e => isIntP e = false

theorem GoodX.not_internal {α : Type} {r : Except PErr (XState × α)} (h : GoodX r) (site : String) :
    r ≠ .error (.internal site) ∧ r ≠ .error (.typing (.internal site)) ∧
      r ≠ .error (.application (.internal site)) := by
  refine ⟨?_, ?_, ?_⟩ <;> (intro e; rw [e] at h; cases h)

theorem GoodX.keeps {α : Type} {r : Except PErr (XState × α)} {s : XState} {x : α} (h : GoodX r)
    (e : r = .ok (s, x)) : FuelOk s.store := by
  rw [e] at h; exact h

theorem GoodX.err_of {α : Type} {r : Except PErr (XState × α)} {e : PErr} (h : GoodX r)
    (he : r = .error e) : isIntP e = false := by
  rw [he] at h; exact h

/-- the same for the functions that return an engine error (`fixExpr`) -/
def GoodS {α : Type} : Except Err (Store × α) → Prop
  | .ok (σ, _) => FuelOk σ
  | .error e => isInt e = false

theorem GoodS.not_internal {α : Type} {r : Except Err (Store × α)} (h : GoodS r) (site : String) :
    r ≠ .error (.internal site) := by
  intro e; rw [e] at h; cases h

theorem GoodS.keeps {α : Type} {r : Except Err (Store × α)} {σ : Store} {x : α} (h : GoodS r)
    (e : r = .ok (σ, x)) : FuelOk σ := by
  rw [e] at h; exact h

theorem GoodS.err_of {α : Type} {r : Except Err (Store × α)} {e : Err} (h : GoodS r)
    (he : r = .error e) : isInt e = false := by
  rw [he] at h; exact h

theorem GoodTP.toS {α : Type} {r : Except Err (Store × α)} (h : GoodTP r) : GoodS r := by
  cases r with
  | error e => exact h
  | ok p => exact Chains.fuelOk h

/-! ## 2. allocation keeps the invariant -/

theorem fuelOk_newVar {σ : Store} (h : FuelOk σ) (wc : Bool) : FuelOk (newVar σ wc).1 :=
  ((boundEq_newVar σ wc).chains (chains_of_fuelOk h)).fuelOk

theorem fuelOk_allocVars {σ : Store} (h : FuelOk σ) (nvars nwild : Nat) : FuelOk (allocVars σ nvars nwild) :=
  ((boundEq_allocVars σ nvars nwild).chains (chains_of_fuelOk h)).fuelOk

/-! ## 3. the four operations of the typed builder -/

theorem mkSourceT_keeps {s : XState} (h : FuelOk s.store) : FuelOk (mkSourceT s).1.store :=
  fuelOk_newVar h true

theorem mkOpT_good (L : Lang) (ops : List OperatorDecl) {s : XState} (name : String) (h : FuelOk s.store) :
    GoodX (mkOpT L ops s name) := by
  unfold mkOpT
  split
  · exact (rfl : isIntP (.undefinedToken name) = false)
  · next d _ =>
    have hi := instantiate_good L exprFuel d.schema (chains_of_fuelOk h)
    split
    · next e he => exact (hi.err_of he : isInt e = false)
    · next σ t he =>
      have hσ : FuelOk σ := (hi.chains he).fuelOk
      split
      · exact hσ
      · exact hσ

theorem mkAppT_good (L : Lang) (fixFlag : Bool) {s : XState} (f x : TExpr) (h : FuelOk s.store) :
    GoodX (mkAppT L fixFlag s f x) := by
  unfold mkAppT
  have ha := applyT_good L exprFuel f.ty x.ty fixFlag (chains_of_fuelOk h)
  split
  · next e he => exact (ha.err_of he : isInt e = false)
  · next σ t he => exact ((ha.step he).ch).fuelOk

/-- the unification that `annotateT` runs (its error is replaced by `TypeAnnotationError`) -/
def annotateUnify (L : Lang) (s : XState) (previous : TExpr) (t : Term) (nfresh : Nat) (prevDash : Bool) : R :=
  unify L exprFuel (allocVars s.store nfresh 0)
    (if prevDash && previous.isSource then previous.setTy t else previous).ty t true false false

theorem annotateUnify_good (L : Lang) {s : XState} (previous : TExpr) (t : Term) (nfresh : Nat) (prevDash : Bool)
    (h : FuelOk s.store) : GoodT (annotateUnify L s previous t nfresh prevDash) :=
  ((all_noInternal L exprFuel).1 _ _ _ _ _ _ (chains_of_fuelOk (fuelOk_allocVars h nfresh 0))).toT

theorem annotateT_eq (L : Lang) (s : XState) (previous : TExpr) (t : Term) (nfresh : Nat) (prevDash : Bool) :
    annotateT L s previous t nfresh prevDash =
      match annotateUnify L s previous t nfresh prevDash with
      | .error _ => .error .typeAnnotation
      | .ok σ1 => .ok ({ s with store := σ1 },
          if prevDash && previous.isSource then previous.setTy t else previous) := rfl

theorem annotateT_good (L : Lang) {s : XState} (previous : TExpr) (t : Term) (nfresh : Nat) (prevDash : Bool)
    (h : FuelOk s.store) : GoodX (annotateT L s previous t nfresh prevDash) := by
  rw [annotateT_eq]
  have hu := annotateUnify_good L previous t nfresh prevDash h
  split
  · exact (rfl : isIntP .typeAnnotation = false)
  · next σ1 he => exact (hu.chains he).fuelOk

/-! ## 4. inputs, programmatic calls -/

theorem mkInputs_keeps : ∀ (n : Nat) {s : XState}, FuelOk s.store → FuelOk (mkInputs n s).1.store
  | 0, _, h => h
  | n+1, s, h => by
    simp only [mkInputs]
    exact mkInputs_keeps n (mkSourceT_keeps h)

theorem callT_good (L : Lang) : ∀ (xs : List TExpr) {s : XState} (f : TExpr), FuelOk s.store →
    GoodX (callT L s f xs)
  | [], _, _, h => h
  | x :: xs, s, f, h => by
    unfold callT
    have ha := mkAppT_good L true f x h
    split
    · next e he => exact ha.err_of he
    · next s1 e he => exact callT_good L xs e (ha.keeps he)

/-! ## 5. `Expr.fix()` -/

theorem fix_goodS (L : Lang) {σ : Store} (t : Term) (pl : Bool) (h : FuelOk σ) : GoodS (fix L exprFuel σ t pl) :=
  GoodTP.toS ((all_noInternal L exprFuel).2.2.2.2.2.1 σ t pl (chains_of_fuelOk h)).toTP

theorem fixExpr_good (L : Lang) : ∀ (e : TExpr) {σ : Store}, FuelOk σ → GoodS (fixExpr L σ e)
  | .src i l t, σ, h => by
    unfold fixExpr
    have hf := fix_goodS L t false h
    split
    · next e he => exact hf.err_of he
    · next σ1 t1 he => exact hf.keeps he
  | .op n t, σ, h => by
    unfold fixExpr
    exact h
  | .app f x t, σ, h => by
    unfold fixExpr
    have h1 := fixExpr_good L f h
    split
    · next e he => exact h1.err_of he
    · next σ1 f1 he =>
      have h2 := fixExpr_good L x (h1.keeps he)
      split
      · next e he2 => exact h2.err_of he2
      · next σ2 x1 he2 =>
        have hf := fix_goodS L t true (h2.keeps he2)
        split
        · next e he3 => exact hf.err_of he3
        · next σ3 t1 he3 => exact hf.keeps he3
  | .shared k e, σ, h => by
    unfold fixExpr
    have h1 := fixExpr_good L e h
    split
    · next err he => exact h1.err_of he
    · next σ1 e1 he => exact h1.keeps he

theorem fixExprCore_good (L : Lang) : ∀ (e : TExpr) {σ : Store}, FuelOk σ → GoodS (fixExprCore L σ e)
  | .src i l t, σ, h => by
    unfold fixExprCore
    have hf := fix_goodS L t false h
    split
    · next e he => exact hf.err_of he
    · next σ1 t1 he => exact hf.keeps he
  | .op n t, σ, h => by
    unfold fixExprCore
    exact h
  | .app f x t, σ, h => by
    unfold fixExprCore
    have h1 := fixExprCore_good L f h
    split
    · next e he => exact h1.err_of he
    · next σ1 f1 he =>
      have h2 := fixExprCore_good L x (h1.keeps he)
      split
      · next e he2 => exact h2.err_of he2
      · next σ2 x1 he2 =>
        have hf := fix_goodS L t true (h2.keeps he2)
        split
        · next e he3 => exact hf.err_of he3
        · next σ3 t1 he3 => exact hf.keeps he3
  | .shared k e, σ, h => by
    unfold fixExprCore
    have h1 := fixExprCore_good L e h
    split
    · next err he => exact h1.err_of he
    · next σ1 e1 he => exact h1.keeps he

end Tfv.C17X
