import Tfv.Model
import Tfv.Props.C09
import Tfv.Proofs.GraphAbsDeepStep
import Tfv.Proofs.GraphAbsDeepExamples
/-!
# C09 on expanded composite operators — `depends` is the transitive closure of `from` in every graph `addExprA` builds

`addExprA` (Model/GraphAbs.lean) is `add_expr` on expressions in which abstractions `λ ps. body` remain in argument
position. Every `from`/`depends` change it makes goes through `gAddFrom` (the abstraction branch itself only
extends the parameter table), so `C09_step` lifts to it exactly as it lifts to `addExpr` (`Props/C09Graph.lean`):
a successful run is a sequence of the primitive steps of `GStep` (`C09a_addExprA_steps`). Any expression,
abstractions at any depth, any language, configuration with dependencies on, any start state.
Statements only; proofs in `Tfv/Proofs/GraphAbsDeepStep.lean`.
-/
namespace Tfv.C09Abs
open Tfv Tfv.C09 Tfv.C08P

/-- **`addExprA` keeps `depends = TC(from)`.** With `with_dependencies` on, if the invariant holds in the graph
before, it holds in the graph after adding any expression with abstractions (any root, origin, reserved node,
flags, parameter table). -/
theorem C09a_addExprA_closed (G : GLang) (c : GCfg) (hc : c.withDependencies = true) (root : Node)
    (origin : Option Node) (s : AState) (e : AExpr) (cur : Option Nat) (im : Bool) (s' : AState) (n : Nat)
    (hg : Closed s.g.fd) (h : addExprA G c root origin s e cur im = .ok (s', n)) : Closed s'.g.fd :=
  addExprA_closed G c hc root origin s e cur im s' n hg h

/-- non-vacuity: `h (λx. k (λy. g y) x) s` (an abstraction inside the body of an abstraction) succeeds from the
empty graph, which satisfies the invariant; eight `from` edges (one twice) and their fifteen-element closure -/
example : exCfg.withDependencies = true ∧ Closed sA0.g.fd ∧
    (∃ s' n, addExprA exG exCfg (.res "w") none sA0 exLamNested none false = .ok (s', n)) ∧
    fdOfA (addExprA exG exCfg (.res "w") none sA0 exLamNested none false) =
      some ([(2, 7), (0, 7), (4, 2), (0, 1), (4, 2), (1, 2), (1, 3), (3, 4)],
        [(3, 4), (1, 3), (1, 4), (1, 2), (4, 2), (3, 2), (0, 1), (0, 3), (0, 4), (0, 2), (0, 7), (2, 7), (1, 7),
          (4, 7), (3, 7)], [(0, 2), (1, 4)], 0) :=
  ⟨rfl, closed_empty_fd, ok_of_fdOfA exLamNested_fd, exLamNested_fd⟩

/-- **The graph of an expression with abstractions.** Starting from the initial graph (any parameter table), the
graph satisfies `depends = TC(from)`: `a depends b` iff there is a path of one or more `from` edges from `a` to `b`. -/
theorem C09a_expression_graph (G : GLang) (c : GCfg) (hc : c.withDependencies = true) (root : Node)
    (origin : Option Node) (ps : List (Nat × Nat)) (e : AExpr) (cur : Option Nat) (im : Bool) (s' : AState) (n : Nat)
    (h : addExprA G c root origin { g := initGraph G c, params := ps } e cur im = .ok (s', n)) :
    ∀ a b, (a, b) ∈ s'.g.fd.dep ↔ TC s'.g.fd.frm a b :=
  addExprA_closed G c hc root origin _ e cur im s' n (initGraph_closed G c) h

/-- non-vacuity: `h (λx. g x) s` from the initial graph of the example language (no edges to begin with; `exLamG_fd` is stated for the empty graph, which it is) -/
example : (initGraph exG exCfg).fd = {} ∧
    fdOfA (addExprA exG exCfg (.res "w") none { g := initGraph exG exCfg, params := [] } exLamG none false) =
      some ([(2, 4), (0, 4), (0, 1), (1, 2)], [(1, 2), (0, 1), (0, 2), (0, 4), (2, 4), (1, 4)], [(0, 2)], 0) :=
  ⟨initGraph_fd exG exCfg, exLamG_fd⟩

/-- **In the emitted RDF graph** (`allTriples`) of an expression with abstractions: the `depends` triples are
exactly the transitive closure of the `from` triples, and the `from` triples are exactly the recorded edges. -/
theorem C09a_expression_triples (G : GLang) (c : GCfg) (hc : c.withDependencies = true) (root : Node)
    (origin : Option Node) (ps : List (Nat × Nat)) (e : AExpr) (cur : Option Nat) (im : Bool) (s' : AState) (n : Nat)
    (h : addExprA G c root origin { g := initGraph G c, params := ps } e cur im = .ok (s', n)) (a b : Nat) :
    ((Node.b a, Node.tf "depends", Node.b b) ∈ s'.g.allTriples ↔ TC s'.g.fd.frm a b) ∧
      ((Node.b a, Node.tf "from", Node.b b) ∈ s'.g.allTriples ↔ (a, b) ∈ s'.g.fd.frm) :=
  addExprA_triples G c hc root origin ps e cur im s' n h a b

/-- Without `with_dependencies` no `depends` edge is ever recorded by `addExprA`. -/
theorem C09a_no_dependencies (G : GLang) (c : GCfg) (hc : c.withDependencies = false) (root : Node)
    (origin : Option Node) (s : AState) (e : AExpr) (cur : Option Nat) (im : Bool) (s' : AState) (n : Nat)
    (hg : s.g.fd.dep = []) (h : addExprA G c root origin s e cur im = .ok (s', n)) : s'.g.fd.dep = [] :=
  addExprA_no_dependencies G c hc root origin s e cur im s' n hg h

example : exCfgOps.withDependencies = false ∧
    fdOfA (addExprA exG exCfgOps (.res "w") none sA0 exLamNested none false) =
      some ([(2, 7), (0, 7), (4, 2), (0, 1), (4, 2), (1, 2), (1, 3), (3, 4)], [], [(0, 2), (1, 4)], 0) :=
  ⟨rfl, exLamNested_fd_nodep⟩

/-- The reason for all of the above: a successful run of `addExprA` changes the graph state only by the primitive
steps of `GStep` (adding a triple that is not a `from`/`depends` triple, a fresh blank node, registering a type,
source, shared or internal node, `gAddFrom`). -/
theorem C09a_addExprA_steps (G : GLang) (c : GCfg) (root : Node) (origin : Option Node) (s : AState) (e : AExpr)
    (cur : Option Nat) (im : Bool) (s' : AState) (n : Nat) (h : addExprA G c root origin s e cur im = .ok (s', n)) :
    GStep c NotFD AnyQ s.g s'.g :=
  addExprA_step e origin s cur im s' n h

end Tfv.C09Abs
