import Tfv.Proofs.InferUnify
import Tfv.Spec.SatChain
/-!
# Soundness of `applyT` and of chains of applications (C03), part 3
-/
namespace Tfv.C03P

/-! ## 1. fresh variables -/

theorem step_newVar {L : Lang} {σ : Store} (ok : OkStore L σ) (nc : NoConstraints σ) (wc : Bool) :
    Step L σ (newVar σ wc).1 where
  ok :=
    { bound := fun v t hb => by
        rw [(getVar_newVar_core σ wc v).1] at hb
        exact okTerm_mono (by rw [length_newVar]; omega) t (ok.bound v t hb)
      lower := fun v => by rw [(getVar_newVar_core σ wc v).2.1]; exact ok.lower v
      upper := fun v => by rw [(getVar_newVar_core σ wc v).2.2]; exact ok.upper v
      ordered := fun v l u hl hu => by
        rw [(getVar_newVar_core σ wc v).2.1] at hl
        rw [(getVar_newVar_core σ wc v).2.2] at hu
        exact ok.ordered v l u hl hu
      basic := fun v o args hb hx => by
        rw [(getVar_newVar_core σ wc v).1] at hb
        rw [(getVar_newVar_core σ wc v).2.1, (getVar_newVar_core σ wc v).2.2] at hx
        exact ok.basic v o args hb hx }
  nc := nc_newVar nc wc
  len := by rw [length_newVar]; omega
  sat := fun ρ h =>
    ⟨h.wf,
     fun v t hb => h.bound v t (by rw [(getVar_newVar_core σ wc v).1]; exact hb),
     fun v l hb hl => h.lower v l (by rw [(getVar_newVar_core σ wc v).1]; exact hb)
       (by rw [(getVar_newVar_core σ wc v).2.1]; exact hl),
     fun v u hb hu => h.upper v u (by rw [(getVar_newVar_core σ wc v).1]; exact hb)
       (by rw [(getVar_newVar_core σ wc v).2.2]; exact hu)⟩

theorem arity_fun {L : Lang} (wf : WF L) : arityOf L FUN = 2 := by
  unfold arityOf varianceOf FUN
  rw [wf_get wf (by decide)]; rfl

theorem length_ge_five {L : Lang} (wf : WF L) : 5 ≤ L.length := by
  have h := congrArg List.length wf.builtins
  simp only [List.length_take] at h
  have : builtinDecls.length = 5 := rfl
  omega

/-! ## 2. `applyT` in two stages -/

/-- first stage of `applyT`: an unresolved function variable becomes `a ** b` with fresh `a`, `b` -/
def applyPre (L : Lang) (fuel : Nat) (σ : Store) (f0 : Term) : Except Err (Store × Term) :=
  match f0 with
  | .var fv =>
    let (σ1, a) := newVar σ
    let (σ2, b) := newVar σ1
    match bind L fuel σ2 fv (.app FUN [.var a, .var b]) with
    | .error e => .error e
    | .ok σ3 => .ok (σ3, followT σ3 (.var fv))
  | t => .ok (σ, t)

def isFunT : Term → Bool
  | .app o' _ => o' == FUN
  | _ => false

/-- second stage of `applyT` -/
def applyPost (L : Lang) (fuel : Nat) (σ : Store) (x0 f1 : Term) (fixFlag : Bool) :
    Except Err (Store × Term) :=
  match f1 with
  | .app o [l, r] =>
    if o == FUN then
      match unify L fuel σ x0 l true false false with
      | .error e => .error e
      | .ok σ1 =>
        if fixFlag && !isFunT r then fix L fuel σ1 r true else .ok (σ1, r)
    else if o == TOP then .ok (σ, .app TOP []) else .error .functionApplication
  | .app o _ => if o == TOP then .ok (σ, .app TOP []) else .error .functionApplication
  | .var _ => .error .functionApplication

theorem applyT_eq (L : Lang) (fuel : Nat) (σ : Store) (f x : Term) (fixFlag : Bool) :
    applyT L fuel σ f x fixFlag =
      match applyPre L fuel σ (followT σ f) with
      | .error e => .error e
      | .ok (σ1, f1) => applyPost L fuel σ1 (followT σ x) f1 fixFlag := rfl

theorem applyPre_sound {L : Lang} (wf : WF L) {n : Nat} {σ σ1 : Store} {f0 f1 : Term}
    (ok : OkStore L σ) (nc : NoConstraints σ) (hf : okTerm L σ f0 = true)
    (h : applyPre L n σ f0 = .ok (σ1, f1)) :
    Step L σ σ1 ∧ okTerm L σ1 f1 = true ∧ ∀ ρ, Sat L ρ σ1 → den ρ f1 = den ρ f0 := by
  cases f0 with
  | app o args =>
    simp only [applyPre] at h
    injection h with h
    injection h with h1 h2
    subst h1; subst h2
    exact ⟨Step.refl ok nc, hf, fun _ _ => rfl⟩
  | var fv =>
    simp only [applyPre] at h
    split at h
    · cases h
    · next σ3 hb =>
      injection h with h
      injection h with h1 h2
      subst h1; subst h2
      have sA := step_newVar (L := L) ok nc false
      have sB := step_newVar (L := L) sA.ok sA.nc false
      have sAB := sA.trans sB
      have hfv := okTerm_var.mp (sAB.okTerm hf)
      have hterm : okTerm L (newVar (newVar σ).1).1 (.app FUN [.var (newVar σ).2, .var (newVar (newVar σ).1).2]) = true := by
        refine okTerm_app.mpr ⟨?_, ?_, ?_⟩
        · have := length_ge_five wf; unfold FUN; omega
        · rw [arity_fun wf]; rfl
        · refine okTermL_cons.mpr ⟨okTerm_var.mpr ?_, okTermL_cons.mpr ⟨okTerm_var.mpr ?_, okTermL_nil⟩⟩
          · simp only [snd_newVar, length_newVar]; omega
          · simp only [snd_newVar, length_newVar]; omega
      obtain ⟨s, hs⟩ := (all_sound wf n).2.2.1 _ fv _ σ3 sAB.ok sAB.nc hfv hterm
        (bindPre_compound (by rw [arity_fun wf]; decide)) hb
      have sT := sAB.trans s
      refine ⟨sT, okTerm_followT s.ok _ (sT.okTerm hf), fun ρ hρ => ?_⟩
      rw [den_followT hρ]

theorem applyPost_sound {L : Lang} (wf : WF L) {n : Nat} {σ σ' : Store} {x0 f1 r : Term} {fixFlag : Bool}
    (ok : OkStore L σ) (nc : NoConstraints σ) (hf : okTerm L σ f1 = true) (hx : okTerm L σ x0 = true)
    (h : applyPost L n σ x0 f1 fixFlag = .ok (σ', r)) :
    Step L σ σ' ∧ okTerm L σ' r = true ∧ ∀ ρ, Sat L ρ σ' →
      ((∃ p, den ρ f1 = .app FUN [p, den ρ r] ∧ Sub L (den ρ x0) p) ∨
       (den ρ f1 = .app TOP [] ∧ r = .app TOP [])) := by
  have htop : okTerm L σ (.app TOP []) = true :=
    okTerm_base (by have := length_ge_five wf; unfold TOP; omega) (arity_top wf)
  unfold applyPost at h
  split at h
  · next o l r0 =>
    obtain ⟨ho, hlen, hargs⟩ := okTerm_app.mp hf
    split at h
    · next hfun =>
      have hfun : o = FUN := by simpa using hfun
      subst hfun
      obtain ⟨hl, hr0⟩ := okTermL_cons.mp hargs
      obtain ⟨hr0, _⟩ := okTermL_cons.mp hr0
      split at h
      · cases h
      · next σ1 hu =>
        obtain ⟨s1, hs1⟩ := (all_sound wf n).1 σ x0 l σ1 ok nc hx hl hu
        split at h
        · obtain ⟨s2, hr, hs2⟩ := (all_sound wf n).2.2.2.2.2.1 σ1 r0 true σ' r s1.ok s1.nc (s1.okTerm hr0) h
          refine ⟨s1.trans s2, hr, fun ρ hρ => Or.inl ⟨den ρ l, ?_, hs1 ρ (s2.sat ρ hρ)⟩⟩
          rw [den_app, denL_cons, denL_cons, denL_nil, hs2 ρ hρ]
        · injection h with h
          injection h with h1 h2
          subst h1; subst h2
          refine ⟨s1, s1.okTerm hr0, fun ρ hρ => Or.inl ⟨den ρ l, ?_, hs1 ρ hρ⟩⟩
          rw [den_app, denL_cons, denL_cons, denL_nil]
    · split at h
      · next _ htop' =>
        have htop' : o = TOP := by simpa using htop'
        subst htop'
        rw [arity_top wf] at hlen
        simp at hlen
      · cases h
  · next o args _ =>
    obtain ⟨ho, hlen, hargs⟩ := okTerm_app.mp hf
    split at h
    · next htop' =>
      have htop' : o = TOP := by simpa using htop'
      subst htop'
      injection h with h
      injection h with h1 h2
      subst h1; subst h2
      rw [arity_top wf] at hlen
      refine ⟨Step.refl ok nc, htop, fun ρ _ => Or.inr ⟨?_, rfl⟩⟩
      rw [den_app, List.eq_nil_of_length_eq_zero hlen, denL_nil]
    · cases h
  · cases h

theorem applyT_sound {L : Lang} (wf : WF L) {n : Nat} {σ σ' : Store} {f x r : Term} {fixFlag : Bool}
    (ok : OkStore L σ) (nc : NoConstraints σ) (hf : okTerm L σ f = true) (hx : okTerm L σ x = true)
    (h : applyT L n σ f x fixFlag = .ok (σ', r)) :
    Step L σ σ' ∧ okTerm L σ' r = true ∧ ∀ ρ, Sat L ρ σ' →
      ((∃ p, den ρ f = .app FUN [p, den ρ r] ∧ Sub L (den ρ x) p) ∨
       (den ρ f = .app TOP [] ∧ r = .app TOP [])) := by
  rw [applyT_eq] at h
  split at h
  · cases h
  · next σ1 f1 hpre =>
    obtain ⟨s1, hf1, hd1⟩ := applyPre_sound wf ok nc (okTerm_followT ok f hf) hpre
    obtain ⟨s2, hr, hd2⟩ := applyPost_sound wf s1.ok s1.nc hf1 (s1.okTerm (okTerm_followT ok x hx)) h
    refine ⟨s1.trans s2, hr, fun ρ hρ => ?_⟩
    have hρ1 := s2.sat ρ hρ
    have hρ0 := s1.sat ρ hρ1
    have e1 : den ρ f1 = den ρ f := by rw [hd1 ρ hρ1, den_followT hρ0]
    have e2 : den ρ (followT σ x) = den ρ x := den_followT hρ0 x
    have := hd2 ρ hρ
    rw [e1, e2] at this
    exact this

/-! ## 3. chains of applications -/

theorem applyAll_sound {L : Lang} (wf : WF L) (n : Nat) (fixFlag : Bool) :
    ∀ (xs : List Term) (σ σ' : Store) (f r : Term),
    OkStore L σ → NoConstraints σ → okTerm L σ f = true → okTermL L σ xs = true →
    applyAll L n fixFlag σ f xs = .ok (σ', r) →
    Step L σ σ' ∧ okTerm L σ' r = true ∧
      ∀ ρ, Sat L ρ σ' → Accepts L (den ρ f) (denL ρ xs) (den ρ r)
  | [], σ, σ', f, r, ok, nc, hf, _, h => by
    unfold applyAll at h
    injection h with h
    injection h with h1 h2
    subst h1; subst h2
    refine ⟨Step.refl ok nc, hf, fun ρ _ => ?_⟩
    rw [denL_nil]; unfold Accepts; rfl
  | x :: xs, σ, σ', f, r, ok, nc, hf, hxs, h => by
    unfold applyAll at h
    obtain ⟨hx, hxs'⟩ := okTermL_cons.mp hxs
    split at h
    · cases h
    · next σ1 r1 h1 =>
      obtain ⟨s1, hr1, hd1⟩ := applyT_sound wf ok nc hf hx h1
      obtain ⟨s2, hr, hd2⟩ := applyAll_sound wf n fixFlag xs σ1 σ' r1 r s1.ok s1.nc hr1 (s1.okTermL hxs') h
      refine ⟨s1.trans s2, hr, fun ρ hρ => ?_⟩
      rw [denL_cons]
      unfold Accepts
      rcases hd1 ρ (s2.sat ρ hρ) with ⟨p, e, hsub⟩ | ⟨e1, e2⟩
      · exact Or.inl ⟨p, den ρ r1, e, hsub, hd2 ρ hρ⟩
      · refine Or.inr ⟨e1, ?_⟩
        have := hd2 ρ hρ
        rw [e2, den_app, denL_nil] at this
        exact this

end Tfv.C03P
