import Tfv.Proofs.SchedDisjoint
/-!
# C18 — constraints over disjoint variables, part 2: the engine block inside a one-constraint region

`BlockOne L ord c0 n`: at fuel `n`, each of the twelve functions of the scheduled engine, run on arguments over a
closed region `R` whose constraint sets hold the constraint `c0` only, returns what the model returns, stays
inside `R` (`FrC`) and keeps `OnlyC c0 R`. Proved for every schedule that leaves constant lists alone.
The store may carry any number of other constraints outside `R`.
-/
namespace Tfv.C18D
open Tfv Tfv.C03P Tfv.C16P Tfv.C03C Tfv.C18P Tfv.C16C Tfv.C18S

theorem goodE_seqP_term {c0 : Nat} {R : Region} {σ : Store} {P : Store → Term → Prop}
    {r₁ r₂ : Except Err (Store × Term)} {k₁ k₂ : Store → Term → Except Err Store} :
    GoodEP c0 R σ P r₁ r₂ →
    (∀ σ1 x, FrC R σ σ1 → OnlyC c0 R σ1 → P σ1 x → GoodE c0 R σ1 (k₁ σ1 x) (k₂ σ1 x)) →
    GoodE c0 R σ (match r₁ with | .error e => .error e | .ok (σ, x) => k₁ σ x)
      (match r₂ with | .error e => .error e | .ok (σ, x) => k₂ σ x) := by
  intro h hk
  rw [h.1]
  split
  · exact goodE_error _
  · next σ1 x =>
    obtain ⟨f1, o1, p1⟩ := h.2 σ1 x rfl
    exact goodE_from f1 (hk σ1 x f1 o1 p1)

theorem goodE_seqP_bool {c0 : Nat} {R : Region} {σ : Store} {P : Store → Bool → Prop}
    {r₁ r₂ : Except Err (Store × Bool)} {k₁ k₂ : Store → Bool → Except Err Store} :
    GoodEP c0 R σ P r₁ r₂ →
    (∀ σ1 x, FrC R σ σ1 → OnlyC c0 R σ1 → P σ1 x → GoodE c0 R σ1 (k₁ σ1 x) (k₂ σ1 x)) →
    GoodE c0 R σ (match r₁ with | .error e => .error e | .ok (σ, x) => k₁ σ x)
      (match r₂ with | .error e => .error e | .ok (σ, x) => k₂ σ x) := by
  intro h hk
  rw [h.1]
  split
  · exact goodE_error _
  · next σ1 x =>
    obtain ⟨f1, o1, p1⟩ := h.2 σ1 x rfl
    exact goodE_from f1 (hk σ1 x f1 o1 p1)

theorem goodE_seqP_terms {c0 : Nat} {R : Region} {σ : Store} {P : Store → List Term → Prop}
    {r₁ r₂ : Except Err (Store × List Term)} {k₁ k₂ : Store → List Term → Except Err Store} :
    GoodEP c0 R σ P r₁ r₂ →
    (∀ σ1 x, FrC R σ σ1 → OnlyC c0 R σ1 → P σ1 x → GoodE c0 R σ1 (k₁ σ1 x) (k₂ σ1 x)) →
    GoodE c0 R σ (match r₁ with | .error e => .error e | .ok (σ, x) => k₁ σ x)
      (match r₂ with | .error e => .error e | .ok (σ, x) => k₂ σ x) := by
  intro h hk
  rw [h.1]
  split
  · exact goodE_error _
  · next σ1 x =>
    obtain ⟨f1, o1, p1⟩ := h.2 σ1 x rfl
    exact goodE_from f1 (hk σ1 x f1 o1 p1)

theorem goodEP_seqP_term {α : Type} {c0 : Nat} {R : Region} {σ : Store} {P : Store → Term → Prop}
    {Q : Store → α → Prop}
    {r₁ r₂ : Except Err (Store × Term)} {k₁ k₂ : Store → Term → Except Err (Store × α)} :
    GoodEP c0 R σ P r₁ r₂ →
    (∀ σ1 x, FrC R σ σ1 → OnlyC c0 R σ1 → P σ1 x → GoodEP c0 R σ1 Q (k₁ σ1 x) (k₂ σ1 x)) →
    GoodEP c0 R σ Q (match r₁ with | .error e => .error e | .ok (σ, x) => k₁ σ x)
      (match r₂ with | .error e => .error e | .ok (σ, x) => k₂ σ x) := by
  intro h hk
  rw [h.1]
  split
  · exact goodEP_error _
  · next σ1 x =>
    obtain ⟨f1, o1, p1⟩ := h.2 σ1 x rfl
    exact goodEP_from f1 (hk σ1 x f1 o1 p1)

/-- the twelve functions at fuel `n`, on a closed region whose constraint sets hold `c0` only -/
structure BlockOne (L : Lang) (ord : List Nat → List Nat) (c0 n : Nat) : Prop where
  unify : ∀ (R : Region) (σ : Store) (a b : Term) (st sb sw : Bool), ClosedC σ R → OnlyC c0 R σ →
    TermInR σ R.S a → TermInR σ R.S b →
    GoodE c0 R σ (unifyS L ord n σ a b st sb sw) (unify L n σ a b st sb sw)
  unifyList : ∀ (R : Region) (σ : Store) (vs : List Bool) (xs ys : List Term) (st sb sw : Bool),
    ClosedC σ R → OnlyC c0 R σ → TermsInR σ R.S xs → TermsInR σ R.S ys →
    GoodE c0 R σ (unifyListS L ord n σ vs xs ys st sb sw) (unifyList L n σ vs xs ys st sb sw)
  bind : ∀ (R : Region) (σ : Store) (v : Nat) (t : Term), ClosedC σ R → OnlyC c0 R σ →
    InStore σ R.S v → TermInR σ R.S t → GoodE c0 R σ (bindS L ord n σ v t) (bind L n σ v t)
  above : ∀ (R : Region) (σ : Store) (v o : Nat), ClosedC σ R → OnlyC c0 R σ → InStore σ R.S v →
    GoodE c0 R σ (aboveS L ord n σ v o) (above L n σ v o)
  below : ∀ (R : Region) (σ : Store) (v o : Nat), ClosedC σ R → OnlyC c0 R σ → InStore σ R.S v →
    GoodE c0 R σ (belowS L ord n σ v o) (below L n σ v o)
  check : ∀ (R : Region) (σ : Store) (v : Nat), ClosedC σ R → OnlyC c0 R σ → InStore σ R.S v →
    GoodE c0 R σ (checkConstraintsS L ord n σ v) (checkConstraints L n σ v)
  checkList : ∀ (R : Region) (σ : Store) (v : Nat) (cs : List Nat), ClosedC σ R → OnlyC c0 R σ →
    InStore σ R.S v → (∀ c, c ∈ cs → R.C c ∧ c < σ.constrs.length) →
    GoodE c0 R σ (checkListS L ord n σ v cs) (checkList L n σ v cs)
  fulfill : ∀ (R : Region) (σ : Store) (c : Nat), ClosedC σ R → OnlyC c0 R σ → R.C c → c < σ.constrs.length →
    GoodEP c0 R σ (fun _ _ => True) (fulfillS L ord n σ c) (fulfill L n σ c)
  minimize : ∀ (R : Region) (σ : Store) (c : Nat), ClosedC σ R → OnlyC c0 R σ → R.C c → c < σ.constrs.length →
    GoodE c0 R σ (minimizeS L ord n σ c) (minimize L n σ c)
  minLoop : ∀ (R : Region) (σ : Store) (alts mins : List Term), ClosedC σ R → OnlyC c0 R σ →
    TermsInR σ R.S alts → TermsInR σ R.S mins →
    GoodEP c0 R σ (fun σ' out => TermsInR σ' R.S out) (minLoopS L ord n σ alts mins) (minLoop L n σ alts mins)
  fix : ∀ (R : Region) (σ : Store) (t : Term) (pl : Bool), ClosedC σ R → OnlyC c0 R σ → TermInR σ R.S t →
    GoodEP c0 R σ (fun σ' t' => TermInR σ' R.S t') (fixS L ord n σ t pl) (fix L n σ t pl)
  fixList : ∀ (R : Region) (σ : Store) (vs : List Bool) (ps : List Term) (pl : Bool), ClosedC σ R →
    OnlyC c0 R σ → TermsInR σ R.S ps → GoodE c0 R σ (fixListS L ord n σ vs ps pl) (fixList L n σ vs ps pl)

theorem blockOne_zero (L : Lang) (ord : List Nat → List Nat) (c0 : Nat) : BlockOne L ord c0 0 where
  unify := by intros; simp only [unifyS, unify]; exact goodE_error _
  unifyList := by intros; simp only [unifyListS, unifyList]; exact goodE_error _
  bind := by intros; simp only [bindS, bind]; exact goodE_error _
  above := by intros; simp only [aboveS, above]; exact goodE_error _
  below := by intros; simp only [belowS, below]; exact goodE_error _
  check := by intros; simp only [checkConstraintsS, checkConstraints]; exact goodE_error _
  checkList := by intros; simp only [checkListS, checkList]; exact goodE_error _
  fulfill := by intros; simp only [fulfillS, fulfill]; exact goodEP_error _
  minimize := by intros; simp only [minimizeS, minimize]; exact goodE_error _
  minLoop := by intros; simp only [minLoopS, minLoop]; exact goodEP_error _
  fix := by intros; simp only [fixS, fix]; exact goodEP_error _
  fixList := by intros; simp only [fixListS, fixList]; exact goodE_error _

section step
variable {L : Lang} {ord : List Nat → List Nat} {c0 n : Nat} (ih : BlockOne L ord c0 n)
include ih

theorem check_succ (hord : OrdConst ord) (R : Region) (σ : Store) (v : Nat) (hc : ClosedC σ R)
    (ho : OnlyC c0 R σ) (hv : InStore σ R.S v) :
    GoodE c0 R σ (checkConstraintsS L ord (n+1) σ v) (checkConstraints L (n+1) σ v) := by
  simp only [checkConstraintsS, checkConstraints]
  have hk := hc.cs v hv.2 hv.1
  rw [hord c0 _ (ho.only _ hk)]
  exact ih.checkList R σ v _ hc ho hv (fun c hm => hc.mem _ c hk hm)

theorem checkList_succ (R : Region) (σ : Store) (v : Nat) (cs : List Nat) (hc : ClosedC σ R)
    (ho : OnlyC c0 R σ) (hv : InStore σ R.S v) (hcs : ∀ c, c ∈ cs → R.C c ∧ c < σ.constrs.length) :
    GoodE c0 R σ (checkListS L ord (n+1) σ v cs) (checkList L (n+1) σ v cs) := by
  cases cs with
  | nil => simp only [checkListS, checkList]; exact goodE_ok (FrC.refl hc) ho
  | cons c cs =>
    simp only [checkListS, checkList]
    have hcc := hcs c List.mem_cons_self
    refine goodE_seqP_bool (ih.fulfill R σ c hc ho hcc.1 hcc.2) (fun σ1 done f1 o1 _ => ?_)
    have hcs1 : ∀ d, d ∈ cs → R.C d ∧ d < σ1.constrs.length := fun d hd =>
      ⟨(hcs d (List.mem_cons_of_mem _ hd)).1,
       Nat.lt_of_lt_of_le (hcs d (List.mem_cons_of_mem _ hd)).2 f1.clen⟩
    have hv1 := f1.ins hv
    cases done with
    | false =>
      simp only [Bool.false_eq_true, if_false]
      exact ih.checkList R σ1 v cs f1.closed o1 hv1 hcs1
    | true =>
      simp only [if_true]
      have hk := f1.closed.cs v hv1.2 hv1.1
      have f2 : FrC R σ1 (setCset σ1 (getVar σ1 v).cset ((getCset σ1 (getVar σ1 v).cset).filter (· != c))) :=
        frC_setCset f1.closed hk (fun d hd => f1.closed.mem _ d hk (List.mem_filter.mp hd).1)
      exact goodE_from f2 (ih.checkList R _ v cs f2.closed
        (onlyC_setCset o1 _ (allEq_filter _ (o1.only _ hk))) ⟨hv1.1, hv1.2⟩ hcs1)

theorem unifyList_succ (R : Region) (σ : Store) (vs : List Bool) (xs ys : List Term) (st sb sw : Bool)
    (hc : ClosedC σ R) (ho : OnlyC c0 R σ) (hxs : TermsInR σ R.S xs) (hys : TermsInR σ R.S ys) :
    GoodE c0 R σ (unifyListS L ord (n+1) σ vs xs ys st sb sw) (unifyList L (n+1) σ vs xs ys st sb sw) := by
  cases vs <;> cases xs <;> cases ys <;> simp only [unifyListS, unifyList] <;>
    try exact goodE_ok (FrC.refl hc) ho
  next v vs x xs y ys =>
  obtain ⟨hx, hxs'⟩ := termsInR_cons.mp hxs
  obtain ⟨hy, hys'⟩ := termsInR_cons.mp hys
  refine goodE_seq ?_
    (fun σ1 f1 o1 => ih.unifyList R σ1 vs xs ys st sb sw f1.closed o1 (f1.tins hxs') (f1.tins hys'))
  cases v with
  | false => simp only [Bool.false_eq_true, if_false]; exact ih.unify R σ y x st sb sw hc ho hy hx
  | true => simp only [if_true]; exact ih.unify R σ x y st sb sw hc ho hx hy

theorem fixList_succ (R : Region) (σ : Store) (vs : List Bool) (ps : List Term) (pl : Bool)
    (hc : ClosedC σ R) (ho : OnlyC c0 R σ) (hps : TermsInR σ R.S ps) :
    GoodE c0 R σ (fixListS L ord (n+1) σ vs ps pl) (fixList L (n+1) σ vs ps pl) := by
  cases vs <;> cases ps <;> simp only [fixListS, fixList] <;> try exact goodE_ok (FrC.refl hc) ho
  next v vs p ps =>
  obtain ⟨hp, hps'⟩ := termsInR_cons.mp hps
  exact goodE_seqP_term (ih.fix R σ p _ hc ho hp)
    (fun σ1 _ f1 o1 _ => ih.fixList R σ1 vs ps pl f1.closed o1 (f1.tins hps'))

theorem fix_succ (R : Region) (σ : Store) (t : Term) (pl : Bool) (hc : ClosedC σ R) (ho : OnlyC c0 R σ)
    (ht : TermInR σ R.S t) :
    GoodEP c0 R σ (fun σ' t' => TermInR σ' R.S t') (fixS L ord (n+1) σ t pl) (fix L (n+1) σ t pl) := by
  have ht' := followT_inR hc ht
  cases e1 : followT σ t with
  | app o args =>
    rw [e1] at ht'
    simp only [fixS, fix, e1]
    exact goodEP_seq (ih.fixList R σ _ args pl hc ho (termInR_app.mp ht'))
      (fun σ1 f1 o1 => goodEP_ok (FrC.refl f1.closed) o1 (f1.tin ht'))
  | var v =>
    rw [e1] at ht'
    have hv := termInR_var.mp ht'
    simp only [fixS, fix, e1]
    refine goodEP_seq ?_
      (fun σ1 f1 o1 => goodEP_ok (FrC.refl f1.closed) o1 (followT_inR f1.closed (f1.tin ht')))
    refine goodE_ite (fun _ => ?_) (fun _ => goodE_ite (fun _ => ?_) (fun _ => goodE_ok (FrC.refl hc) ho))
    · cases (getVar σ v).lower with
      | none => exact goodE_ok (FrC.refl hc) ho
      | some l => exact ih.bind R σ v _ hc ho hv (termInR_base _)
    · cases (getVar σ v).upper with
      | none => exact goodE_ok (FrC.refl hc) ho
      | some u => exact ih.bind R σ v _ hc ho hv (termInR_base _)

theorem minLoop_succ (R : Region) (σ : Store) (alts mins : List Term) (hc : ClosedC σ R)
    (ho : OnlyC c0 R σ) (halts : TermsInR σ R.S alts) (hmins : TermsInR σ R.S mins) :
    GoodEP c0 R σ (fun σ' out => TermsInR σ' R.S out) (minLoopS L ord (n+1) σ alts mins)
      (minLoop L (n+1) σ alts mins) := by
  cases alts with
  | nil => simp only [minLoopS, minLoop]; exact goodEP_ok (FrC.refl hc) ho hmins
  | cons obj rest =>
    obtain ⟨hobj, hrest⟩ := termsInR_cons.mp halts
    have hobj' := followT_inR hc hobj
    simp only [minLoopS, minLoop]
    split
    · refine goodEP_seqP_term (ih.fix R σ _ true hc ho hobj') (fun σ1 t f1 o1 ht => ?_)
      exact ih.minLoop R σ1 rest _ f1.closed o1 (f1.tins hrest)
        (termsInR_append (f1.tins (minFold_in hobj' _ _ mins hmins)) (termsInR_single ht))
    · exact ih.minLoop R σ rest _ hc ho hrest (minFold_in hobj' _ _ mins hmins)

theorem minimize_succ (R : Region) (σ : Store) (c : Nat) (hc : ClosedC σ R) (ho : OnlyC c0 R σ)
    (hC : R.C c) (hlt : c < σ.constrs.length) :
    GoodE c0 R σ (minimizeS L ord (n+1) σ c) (minimize L (n+1) σ c) := by
  cases e0 : getConstr σ c with
  | sub r t s f => simp only [minimizeS, minimize, e0]; exact goodE_ok (FrC.refl hc) ho
  | elim ref alts f0 =>
    simp only [minimizeS, minimize, e0]
    obtain ⟨hr, halts⟩ := ctm_elim hc hC hlt e0
    refine goodE_seqP_terms (ih.minLoop R σ alts [] hc ho halts termsInR_nil) (fun σ1 mins f1 o1 hmin => ?_)
    cases getConstr σ1 c with
    | sub _ _ _ _ => exact goodE_ok (FrC.refl f1.closed) o1
    | elim _ _ ful =>
      exact goodE_ok (frC_setConstr f1.closed hC _
        (termsInR_elim _ (followT_inR f1.closed (f1.tin hr)) (termsInR_map_followT f1.closed hmin)))
        (onlyC_setConstr o1 _ _)

theorem fulfill_succ (R : Region) (σ : Store) (c : Nat) (hc : ClosedC σ R) (ho : OnlyC c0 R σ)
    (hC : R.C c) (hlt : c < σ.constrs.length) :
    GoodEP c0 R σ (fun _ _ => True) (fulfillS L ord (n+1) σ c) (fulfill L (n+1) σ c) := by
  cases e0 : getConstr σ c with
  | sub ref tgt s0 f0 =>
    simp only [fulfillS, fulfill, e0]
    obtain ⟨hr, htg⟩ := ctm_sub hc hC hlt e0
    refine goodEP_seq (ih.unify R σ ref tgt true true false hc ho hr htg) (fun σ1 f1 o1 => ?_)
    have hlt1 : c < σ1.constrs.length := Nat.lt_of_lt_of_le hlt f1.clen
    cases match3 L σ1 (matchFuel σ1) true false ref tgt with
    | none =>
      cases getConstr σ1 c with
      | sub _ _ _ _ => exact goodEP_ok (FrC.refl f1.closed) o1 trivial
      | elim _ _ _ => exact goodEP_ok (FrC.refl f1.closed) o1 trivial
    | some b =>
      cases b with
      | false => exact goodEP_error _
      | true =>
        cases e1 : getConstr σ1 c with
        | sub r t s f =>
          obtain ⟨hr1, ht1⟩ := ctm_sub f1.closed hC hlt1 e1
          exact goodEP_ok (frC_setConstr f1.closed hC _ (termsInR_sub s true hr1 ht1))
            (onlyC_setConstr o1 _ _) trivial
        | elim _ _ _ => exact goodEP_ok (FrC.refl f1.closed) o1 trivial
  | elim ref0 alts0 ful0 =>
    cases ful0 with
    | true =>
      simp only [fulfillS, fulfill, e0]
      exact goodEP_ok (FrC.refl hc) ho trivial
    | false =>
      simp only [fulfillS, fulfill, e0]
      refine goodEP_seq (ih.minimize R σ c hc ho hC hlt) (fun σ1 f1 o1 => ?_)
      have hlt1 : c < σ1.constrs.length := Nat.lt_of_lt_of_le hlt f1.clen
      cases e1 : getConstr σ1 c with
      | sub _ _ _ _ => exact goodEP_error _
      | elim ref alts ful =>
        obtain ⟨hr, halts⟩ := ctm_elim f1.closed hC hlt1 e1
        refine goodEP_ite (fun _ => goodEP_error _) (fun _ => ?_)
        cases e2 : alts.filter (fun t => match3 L σ1 (matchFuel σ1) true true ref t != some false) with
        | nil => exact goodEP_error _
        | cons only rest =>
          have honly : TermInR σ1 R.S only := by
            have hm : only ∈ only :: rest := List.mem_cons_self
            rw [← e2] at hm
            exact halts only (List.mem_filter.mp hm).1
          have hrest : TermsInR σ1 R.S (only :: rest) := by
            rw [← e2]; exact termsInR_filter _ halts
          cases rest with
          | nil =>
            have f2 : FrC R σ1 (setConstr σ1 c (.elim ref [only] true)) :=
              frC_setConstr f1.closed hC _ (termsInR_elim true hr (termsInR_single honly))
            exact goodEP_seq (goodE_from f2 (ih.unify R _ ref only true false false f2.closed
              (onlyC_setConstr o1 _ _) (f2.tin hr) (f2.tin honly)))
              (fun σ3 f3 o3 => goodEP_ok (FrC.refl f3.closed) o3 trivial)
          | cons x xs =>
            exact goodEP_ok (frC_setConstr f1.closed hC _ (termsInR_elim ful hr hrest))
              (onlyC_setConstr o1 _ _) trivial

theorem above_succ (R : Region) (σ : Store) (v o : Nat) (hc : ClosedC σ R) (ho : OnlyC c0 R σ)
    (hv : InStore σ R.S v) : GoodE c0 R σ (aboveS L ord (n+1) σ v o) (above L (n+1) σ v o) := by
  simp only [aboveS, above]
  refine goodE_ite (fun _ => ih.bind R σ v _ hc ho hv (termInR_base _)) (fun _ => ?_)
  refine goodE_ite (fun _ => goodE_error _) (fun _ => ?_)
  have f1 : FrC R σ (setVar σ v { (getVar σ v) with wildcard := false }) :=
    (FrC.refl hc).put_same hv _ rfl rfl
  have o1 : OnlyC c0 R (setVar σ v { (getVar σ v) with wildcard := false }) :=
    onlyC_setVar ho _ _ (fun h => ho.kal v h)
  have hv1 : InStore (setVar σ v { (getVar σ v) with wildcard := false }) R.S v := f1.ins hv
  refine goodE_seq ?_ (fun σr fr or => ?_)
  · refine goodE_ite (fun _ => goodE_error _) (fun _ => goodE_ite (fun _ => goodE_error _) (fun _ =>
      goodE_ite (fun _ => goodE_ok f1 o1) (fun _ => goodE_ite (fun _ => ?_) (fun _ => goodE_error _))))
    have f2 := f1.put hv1.1 { (getVar σ v) with wildcard := false, lower := some o }
      (fun b hb => f1.tin (hc.bnd v b hv.1 hb)) (hc.cs v hv.2 hv.1)
    exact goodE_from f2 (ih.check R _ v f2.closed (onlyC_setVar o1 _ _ (fun _ => ho.kal v hv.2))
      ⟨hv.1, by rw [length_setVar]; exact hv1.2⟩)
  · have hvr := fr.ins hv
    refine goodE_ite (fun _ => ?_) (fun _ => goodE_ok (FrC.refl fr.closed) or)
    cases (getVar σr v).lower with
    | none => exact goodE_ok (FrC.refl fr.closed) or
    | some l => exact ih.bind R σr v _ fr.closed or hvr (termInR_base _)

theorem below_succ (R : Region) (σ : Store) (v o : Nat) (hc : ClosedC σ R) (ho : OnlyC c0 R σ)
    (hv : InStore σ R.S v) : GoodE c0 R σ (belowS L ord (n+1) σ v o) (below L (n+1) σ v o) := by
  simp only [belowS, below]
  refine goodE_ite (fun _ => ih.bind R σ v _ hc ho hv (termInR_base _)) (fun _ => ?_)
  refine goodE_ite (fun _ => goodE_error _) (fun _ => ?_)
  have f1 : FrC R σ (setVar σ v { (getVar σ v) with wildcard := false }) :=
    (FrC.refl hc).put_same hv _ rfl rfl
  have o1 : OnlyC c0 R (setVar σ v { (getVar σ v) with wildcard := false }) :=
    onlyC_setVar ho _ _ (fun h => ho.kal v h)
  have hv1 : InStore (setVar σ v { (getVar σ v) with wildcard := false }) R.S v := f1.ins hv
  refine goodE_seq ?_ (fun σr fr or => ?_)
  · refine goodE_ite (fun _ => goodE_error _) (fun _ => goodE_ite (fun _ => goodE_error _) (fun _ =>
      goodE_ite (fun _ => goodE_ok f1 o1) (fun _ => goodE_ite (fun _ => ?_) (fun _ => goodE_error _))))
    have f2 := f1.put hv1.1 { (getVar σ v) with wildcard := false, upper := some o }
      (fun b hb => f1.tin (hc.bnd v b hv.1 hb)) (hc.cs v hv.2 hv.1)
    exact goodE_from f2 (ih.check R _ v f2.closed (onlyC_setVar o1 _ _ (fun _ => ho.kal v hv.2))
      ⟨hv.1, by rw [length_setVar]; exact hv1.2⟩)
  · have hvr := fr.ins hv
    refine goodE_ite (fun _ => ?_) (fun _ => goodE_ok (FrC.refl fr.closed) or)
    cases (getVar σr v).upper with
    | none => exact goodE_ok (FrC.refl fr.closed) or
    | some l => exact ih.bind R σr v _ fr.closed or hvr (termInR_base _)

theorem bind_succ (R : Region) (σ : Store) (v : Nat) (t : Term) (hc : ClosedC σ R) (ho : OnlyC c0 R σ)
    (hv : InStore σ R.S v) (ht : TermInR σ R.S t) :
    GoodE c0 R σ (bindS L ord (n+1) σ v t) (bind L (n+1) σ v t) := by
  cases t with
  | var tv =>
    have htv := termInR_var.mp ht
    rw [bindS_var_eq, bind_var_eq]
    refine goodE_ite (fun _ => goodE_error _) (fun _ => goodE_ite (fun _ =>
      goodE_ok ((FrC.refl hc).put_same hv _ rfl rfl) (onlyC_setVar ho _ _ (fun h => ho.kal v h))) (fun _ => ?_))
    have fB := frC_bindVarStore hc hv htv
    have oB := onlyC_bindVarStore hc ho hv htv
    refine goodE_seq ?_ (fun σ1 k1 o1 => goodE_seq ?_
      (fun σ2 k2 o2 => ih.check R σ2 v k2.closed o2 (k2.ins (k1.ins hv))))
    · cases (getVar σ v).lower with
      | none => exact goodE_ok fB oB
      | some l =>
        exact goodE_from fB (ih.unify R _ _ _ true false false fB.closed oB (termInR_base _) (fB.tin ht))
    · cases (getVar σ v).upper with
      | none => exact goodE_ok (FrC.refl k1.closed) o1
      | some u => exact ih.unify R σ1 _ _ true false false k1.closed o1 (k1.tin ht) (termInR_base _)
  | app o args =>
    rw [bindS_app_eq, bind_app_eq]
    refine goodE_ite (fun _ => goodE_error _) (fun _ => goodE_ite (fun _ => ?_) (fun _ => ?_))
    · refine goodE_ite (fun _ => goodE_error _) (fun _ => goodE_ite (fun _ => goodE_error _) (fun _ => ?_))
      have f := frC_bindBaseStore hc hv ht
      exact goodE_from f (ih.check R _ v f.closed (onlyC_bindBaseStore ho v _) (f.ins hv))
    · refine goodE_ite (fun _ => goodE_error _) (fun _ => ?_)
      have f := frC_bindAppStore hc hv ht
      exact goodE_from f (ih.check R _ v f.closed (onlyC_bindAppStore hc ho hv ht) (f.ins hv))

theorem unify_succ (R : Region) (σ : Store) (a b : Term) (st sb sw : Bool) (hc : ClosedC σ R)
    (ho : OnlyC c0 R σ) (ha : TermInR σ R.S a) (hb : TermInR σ R.S b) :
    GoodE c0 R σ (unifyS L ord (n+1) σ a b st sb sw) (unify L (n+1) σ a b st sb sw) := by
  have ha' := followT_inR hc ha
  have hb' := followT_inR hc hb
  cases e1 : followT σ a with
  | var av =>
    rw [e1] at ha'
    have hav := termInR_var.mp ha'
    cases e2 : followT σ b with
    | var bv =>
      rw [e2] at hb'
      simp only [unifyS, unify, e1, e2]
      exact goodE_ite (fun _ => ih.bind R σ av _ hc ho hav hb') (fun _ => goodE_ok (FrC.refl hc) ho)
    | app bo bs =>
      rw [e2] at hb'
      simp only [unifyS, unify, e1, e2]
      refine goodE_ite (fun _ => goodE_ok (FrC.refl hc) ho) (fun _ =>
        goodE_ite (fun _ => goodE_error _) (fun _ => goodE_ite (fun _ => ?_) (fun _ => ?_)))
      · exact goodE_ite (fun _ => goodE_ok (FrC.refl hc) ho) (fun _ =>
          goodE_ite (fun _ => ih.below R σ av bo hc ho hav) (fun _ => ih.bind R σ av _ hc ho hav hb'))
      · refine goodE_ite (fun _ => ?_) (fun _ => ih.bind R σ av _ hc ho hav hb')
        obtain ⟨f1, hfresh⟩ := frC_newVars (R := R) bs.length hc
        have o1 : OnlyC c0 R (newVars σ bs.length).1 := onlyC_newVars bs.length ho
        cases hnv : newVars σ bs.length with
        | mk σ1 fresh =>
          rw [hnv] at f1 hfresh o1
          simp only [] at f1 hfresh o1
          exact goodE_seq (goodE_from f1 (ih.bind R σ1 av _ f1.closed o1 (f1.ins hav)
            (termInR_app.mpr hfresh)))
            (fun σ2 f2 o2 => ih.unify R σ2 _ _ st sb sw f2.closed o2 (f2.tin ha') (f2.tin hb'))
  | app ao as =>
    rw [e1] at ha'
    cases e2 : followT σ b with
    | app bo bs =>
      rw [e2] at hb'
      simp only [unifyS, unify, e1, e2]
      refine goodE_ite (fun _ => goodE_ok (FrC.refl hc) ho) (fun _ => goodE_ite (fun _ => ?_) (fun _ =>
        goodE_ite (fun _ => ih.unifyList R σ _ as bs st sb sw hc ho (termInR_app.mp ha') (termInR_app.mp hb'))
          (fun _ => goodE_error _)))
      exact goodE_ite (fun _ => goodE_ok (FrC.refl hc) ho) (fun _ => goodE_ite (fun _ => goodE_error _)
        (fun _ => goodE_ite (fun _ => goodE_error _) (fun _ => goodE_ok (FrC.refl hc) ho)))
    | var bv =>
      rw [e2] at hb'
      have hbv := termInR_var.mp hb'
      simp only [unifyS, unify, e1, e2]
      refine goodE_ite (fun _ => goodE_ok (FrC.refl hc) ho) (fun _ =>
        goodE_ite (fun _ => goodE_error _) (fun _ => goodE_ite (fun _ => ?_) (fun _ => ?_)))
      · exact goodE_ite (fun _ => goodE_ok (FrC.refl hc) ho) (fun _ =>
          goodE_ite (fun _ => ih.above R σ bv ao hc ho hbv) (fun _ => ih.bind R σ bv _ hc ho hbv ha'))
      · refine goodE_ite (fun _ => ?_) (fun _ => ih.bind R σ bv _ hc ho hbv ha')
        obtain ⟨f1, hfresh⟩ := frC_newVars (R := R) as.length hc
        have o1 : OnlyC c0 R (newVars σ as.length).1 := onlyC_newVars as.length ho
        cases hnv : newVars σ as.length with
        | mk σ1 fresh =>
          rw [hnv] at f1 hfresh o1
          simp only [] at f1 hfresh o1
          exact goodE_seq (goodE_from f1 (ih.bind R σ1 bv _ f1.closed o1 (f1.ins hbv)
            (termInR_app.mpr hfresh)))
            (fun σ2 f2 o2 => ih.unify R σ2 _ _ st sb sw f2.closed o2 (f2.tin hb') (f2.tin hb'))

end step

theorem blockOne_succ {L : Lang} {ord : List Nat → List Nat} {c0 n : Nat} (hord : OrdConst ord)
    (ih : BlockOne L ord c0 n) : BlockOne L ord c0 (n+1) where
  unify := unify_succ ih
  unifyList := unifyList_succ ih
  bind := bind_succ ih
  above := above_succ ih
  below := below_succ ih
  check := check_succ ih hord
  checkList := checkList_succ ih
  fulfill := fulfill_succ ih
  minimize := minimize_succ ih
  minLoop := minLoop_succ ih
  fix := fix_succ ih
  fixList := fixList_succ ih

/-- THE BLOCK THEOREM: inside a closed region whose constraint sets hold one constraint only, the scheduled
engine under a schedule that leaves constant lists alone is the model, at every fuel -/
theorem blockOne {L : Lang} {ord : List Nat → List Nat} (hord : OrdConst ord) (c0 : Nat) :
    ∀ n, BlockOne L ord c0 n
  | 0 => blockOne_zero L ord c0
  | n+1 => blockOne_succ hord (blockOne hord c0 n)

end Tfv.C18D
