import Tfv.Model
import Tfv.Props.C14Text
import Tfv.Proofs.NotationAnnExamples
import Tfv.Proofs.NotationAnnBridge
import Tfv.Proofs.NotationTrivia
/-!
# C13, continued — notations with in-line annotations `e : T`, and the typed half

Statements only; proofs in `Tfv/Proofs/NotationAnn*.lean`:
`NotationAnnSpec` (abstract syntax `AItem`/`ATree` with annotations, rendering `atoks`, meaning `den`/`evalA` over an
arbitrary `Builder`), `NotationAnnType` (the in-line mode of the type parser), `NotationAnnParse` (the stack machine),
`NotationAnnTree` (four rendering styles), `NotationAnnCall` (programmatic construction), `NotationAnnExamples`.

Part A. For every builder (its errors propagate), parsing the rendering of a spine or tree with annotations
`: T` (`T` printable) yields `builder.annotate (value so far) T` exactly where the annotation stands.
An annotation is a postfix operation on the accumulator of its own bracket level:
`f x : T` annotates the application `f x`; `f (x : T)` and `f(x : T, y)` annotate the argument `x`;
`(f x) : T` annotates the bracketed expression; `f : T x` annotates `f` and then applies the result to `x`;
`e : T : U` annotates twice; `: T` with nothing before it in its bracket is a `ParseError`.
The flag "the previous token was `-`" that `annotate` receives is true exactly when the token before `:` is the
bare `-` (`- : T`, `f - : T`), not for `(-) : T`; comments and line breaks between `-` and `:` do not count
(Part D: they are neutral everywhere, `C13a_trivia_ann`).

Part B. With the typed builder, parsing any rendering of an annotation-free tree equals programmatic construction in
curried form with instantiated operator heads, `f()(x)(y)` — same expression, same store, same error.
It does NOT in general equal the n-ary Python call `f(x, y)`: Python evaluates all arguments before `Expr.__call__`
instantiates the operator `f` and makes the applications, the parser instantiates `f` first and applies argument
by argument. The results differ in the numbering of type variables (kernel-checked example below); they agree
when all arguments are supplied inputs (`_partial`).
-/
namespace Tfv.C13
open Tfv Tfv.NotationAnn Tfv.C14Text
open Tfv.Notation (Style)

/-! ## Part A: annotations, any builder -/

/-- After a `:` the expression parser calls the type parser in in-line mode. On the printed form of a printable type
followed by anything, it stops exactly at the end of the printed form, returns the type, creates no variables and
hands back the remaining tokens untouched. (The in-line counterpart of `C14_text_roundtrip`.) -/
theorem C13a_inline_type (P : PLang) (hL : TextLang P.types) (T : Ty) (hT : printable P.types T = true)
    (varBase : Nat) (rest : List String) :
    parseTypeLoop P false varBase {} (typeToks P.types T ++ rest) = .ok (T.toTerm, 0, rest) :=
  inline_typeToks P varBase ⟨hL.1, hL.2.1, hL.2.2⟩ T hT rest

/-- The stack machine with any builder `B`, started anywhere (any stack `k :: Sk`, any tokens `rest` behind, previous
token `p`), consumes the rendering of a spine with annotations and leaves exactly the spine's denotation from
accumulator `k` on top of the untouched stack — or stops with the denotation's error. -/
theorem C13a_parse_spine_ann {S E : Type} (P : PLang) (B : Builder S E) (inputs : List E) (hL : TextLang P.types)
    (sp : List AItem) (hok : aOkS (printable P.types) sp = true)
    (st : S) (k : Option E) (Sk : List (Option E)) (p : String) (rest : List String) :
    parseExprLoop P B inputs false ((atoks P.types sp ++ rest).length + 1)
      { st := st, stack := k :: Sk, comment := false, prevTok := p } (atoks P.types sp ++ rest)
    = match NotationAnn.den B inputs st k (p == "-") sp with
      | .error e => .error e
      | .ok (st', k') =>
        parseExprLoop P B inputs false (rest.length + 1)
          { st := st', stack := k' :: Sk, comment := false, prevTok := lastP p sp } rest :=
  (parse_items P B inputs (printable P.types) (fun T hT => inlineOk_printable P ⟨hL.1, hL.2.1, hL.2.2⟩ T hT)
    sp st k (p == "-") Sk p rest hok rfl).trans
    (by cases NotationAnn.den B inputs st k (p == "-") sp <;> rfl)

/-- Parsing the rendering of a spine with annotations gives its denotation: the fold of the builder's operations
in which every annotation item `: T` is `B.annotate (accumulator) T` at its place. Any builder; value, final builder
state, or error. -/
theorem C13a_parse_render_ann {S E : Type} (P : PLang) (B : Builder S E) (inputs : List E) (hL : TextLang P.types)
    (st0 : S) (sp : List AItem) (hok : aOkS (printable P.types) sp = true) :
    parseExprToks P B inputs st0 (atoks P.types sp) = NotationAnn.denote B inputs st0 sp :=
  parseExprToks_atoks P B inputs (printable P.types)
    (fun T hT => inlineOk_printable P ⟨hL.1, hL.2.1, hL.2.2⟩ T hT) st0 sp hok

/-- Every rendering style of a tree with annotation nodes parses to the fold `evalA` of the builder over the tree:
an annotation node evaluates its expression and then calls `B.annotate` with the type; the flag it passes is
`styleFlag s e`. -/
theorem C13a_render_tree_ann {S E : Type} (P : PLang) (B : Builder S E) (inputs : List E) (hL : TextLang P.types)
    (s : Style) (t : ATree) (ht : aOkT (printable P.types) t = true) (st0 : S) :
    parseExprToks P B inputs st0 (atoks P.types (renderA s t)) = evalA B inputs (styleFlag s) st0 t :=
  parse_render_tree P B inputs (printable P.types)
    (fun T hT => inlineOk_printable P ⟨hL.1, hL.2.1, hL.2.2⟩ T hT) s t ht st0

/-- Hence any two styles that pass the same flags are interchangeable (all four when no annotated expression ends in
a bare `-`; the flag only says whether the token before `:` is `-`). -/
theorem C13a_styles_ann {S E : Type} (P : PLang) (B : Builder S E) (inputs : List E) (hL : TextLang P.types)
    (s₁ s₂ : Style) (t : ATree) (ht : aOkT (printable P.types) t = true) (st0 : S)
    (hf : evalA B inputs (styleFlag s₁) st0 t = evalA B inputs (styleFlag s₂) st0 t) :
    parseExprToks P B inputs st0 (atoks P.types (renderA s₁ t))
    = parseExprToks P B inputs st0 (atoks P.types (renderA s₂ t)) := by
  rw [C13a_render_tree_ann P B inputs hL s₁ t ht st0, C13a_render_tree_ann P B inputs hL s₂ t ht st0, hf]

/-- An annotation at the root, `e : T` in any style: the value of `e`, then `annotate`. -/
theorem C13a_ann_root {S E : Type} (P : PLang) (B : Builder S E) (inputs : List E) (hL : TextLang P.types)
    (s : Style) (e : ATree) (T : Ty) (ht : aOkT (printable P.types) (.ann e T) = true) (st0 : S) :
    parseExprToks P B inputs st0 (atoks P.types (renderA s (.ann e T)))
    = match evalA B inputs (styleFlag s) st0 e with
      | .error err => .error err
      | .ok (st1, v) => B.annotate st1 v T.toTerm 0 (styleFlag s e) := by
  rw [C13a_render_tree_ann P B inputs hL s _ ht st0]
  simp only [evalA]
  cases evalA B inputs (styleFlag s) st0 e with
  | error err => rfl
  | ok r => rfl

/-- An annotation on an argument, `f (x : T)` / `f(x : T)`: `f`, then `x`, then `annotate x T`, then the application. -/
theorem C13a_ann_arg {S E : Type} (P : PLang) (B : Builder S E) (inputs : List E) (hL : TextLang P.types)
    (s : Style) (f x : ATree) (T : Ty) (ht : aOkT (printable P.types) (.app f (.ann x T)) = true) (st0 : S) :
    parseExprToks P B inputs st0 (atoks P.types (renderA s (.app f (.ann x T))))
    = match evalA B inputs (styleFlag s) st0 f with
      | .error err => .error err
      | .ok (st1, ef) =>
        match evalA B inputs (styleFlag s) st1 x with
        | .error err => .error err
        | .ok (st2, ex) =>
          match B.annotate st2 ex T.toTerm 0 (styleFlag s x) with
          | .error err => .error err
          | .ok (st3, ex') => B.mkApp st3 ef ex' := by
  rw [C13a_render_tree_ann P B inputs hL s _ ht st0]
  simp only [evalA]
  cases evalA B inputs (styleFlag s) st0 f with
  | error err => rfl
  | ok r =>
    obtain ⟨st1, ef⟩ := r
    simp only []
    cases evalA B inputs (styleFlag s) st1 x with
    | error err => rfl
    | ok r2 => rfl

/-- where the annotation is written, juxtaposition style: `f x : T` is the tree `ann (app f x) T` … -/
theorem C13a_toks_ann_whole (L : Lang) (f x : ATree) (T : Ty) :
    atoks L (renderA .juxta (.ann (.app f x) T))
    = atoks L (renderA .juxta (.app f x)) ++ ":" :: typeToks L T := by
  simp [renderA, juxtaA, atoks_append, atoks, atoksItem]

/-- … `f (x : T)` is the tree `app f (ann x T)` … -/
theorem C13a_toks_ann_arg (L : Lang) (f x : ATree) (T : Ty) :
    atoks L (renderA .juxta (.app f (.ann x T)))
    = atoks L (renderA .juxta f) ++ "(" :: (atoks L (renderA .juxta x) ++ ":" :: typeToks L T ++ [")"]) := by
  simp [renderA, juxtaA, argA, atoks_append, atoks, atoksItem, atoksGroup, atoksSeps]

/-- … and `f : T x` (no brackets) is the tree `app (ann f T) x`: the annotation takes what is to its left in its
bracket level, what follows is applied to the annotated expression. -/
theorem C13a_toks_ann_head (L : Lang) (f : ATree) (name : String) (T : Ty) :
    atoks L (renderA .juxta (.app (.ann f T) (.op name)))
    = atoks L (renderA .juxta f) ++ ":" :: (typeToks L T ++ [name]) := by
  simp [renderA, juxtaA, argA, atoks_append, atoks, atoksItem]

/-- `: T` with nothing before it in its bracket level is the declared parse error, for every builder. -/
theorem C13a_ann_without_expr {S E : Type} (P : PLang) (B : Builder S E) (inputs : List E) (hL : TextLang P.types)
    (T : Ty) (hT : printable P.types T = true) (sp : List AItem) (hok : aOkS (printable P.types) sp = true) (st0 : S) :
    parseExprToks P B inputs st0 (atoks P.types (.ann T :: sp))
    = .error (.parseError "Type annotation without an expression") := by
  rw [C13a_parse_render_ann P B inputs hL st0 _ (by simp only [aOkS, aOk, hT, hok, Bool.and_self])]
  simp only [NotationAnn.denote, NotationAnn.den, NotationAnn.denItem]

/-! ## Part B: the typed builder and programmatic construction -/

/-- With the typed builder, parsing any rendering (`f x y`, `(f x) y`, `((f)(x))(y)`, `f(x, y)`) of an
annotation-free tree returns exactly what programmatic construction in curried form returns: `curry t` is
`f()(x)(y)` — the operator head instantiated first, then one call per argument, evaluated by `callTree` in Python's
order (callee, arguments, then `Expr.__call__`). Same typed expression, same store and source counter, or the same
error; any initial state, any inputs. -/
theorem C13a_typed_parse_eq_call (P : PLang) (L : Lang) (ops : List OperatorDecl) (inputs : List TExpr)
    (s : Style) (t : ATree) (ht : aOkT noTy t = true) (st0 : XState) :
    parseExprToks P (typedBuilder L ops true) inputs st0 (atoks P.types (renderA s t))
    = callTree L ops inputs st0 (curry t) := by
  rw [parse_render_tree P (typedBuilder L ops true) inputs noTy (noTy_inline P) s t ht st0]
  exact (callTree_curry L ops inputs (styleFlag s) t (aOkT_noTy_noAnn t ht) st0).symm

/-- The same for the trees, renderings and token lists of `C13_render_tree` (`Notation.Tree`, `Notation.render`). -/
theorem C13a_typed_parse_eq_call_tree (P : PLang) (L : Lang) (ops : List OperatorDecl) (inputs : List TExpr)
    (s : Style) (t : Notation.Tree) (ht : Notation.namesOkT t = true) (st0 : XState) :
    parseExprToks P (typedBuilder L ops true) inputs st0 (Notation.toks (Notation.render s t))
    = callTree L ops inputs st0 (curry (toA t)) := by
  rw [← atoks_renderA_toA P.types s t]
  exact C13a_typed_parse_eq_call P L ops inputs s (toA t) (aOkT_toA t ht) st0

/-- Hence, with the typed builder too, call notation and juxtaposition (any two styles) give the same typed
expression, store and error. -/
theorem C13a_typed_call_eq_juxtaposition (P : PLang) (L : Lang) (ops : List OperatorDecl) (inputs : List TExpr)
    (s₁ s₂ : Style) (t : Notation.Tree) (ht : Notation.namesOkT t = true) (st0 : XState) :
    parseExprToks P (typedBuilder L ops true) inputs st0 (Notation.toks (Notation.render s₁ t))
    = parseExprToks P (typedBuilder L ops true) inputs st0 (Notation.toks (Notation.render s₂ t)) := by
  rw [C13a_typed_parse_eq_call_tree P L ops inputs s₁ t ht st0, C13a_typed_parse_eq_call_tree P L ops inputs s₂ t ht st0]

/-- The n-ary Python call `h(i₁, …, iₙ)` (`callC t []`) agrees with parsing when every argument is a supplied input
(`flatOk`): then evaluating the arguments first changes nothing. For other arguments the statement fails, see
`C13a_typed_call_order_counterexample`. -/
theorem C13a_typed_parse_eq_call_partial (P : PLang) (L : Lang) (ops : List OperatorDecl) (inputs : List TExpr)
    (s : Style) (t : ATree) (ht : aOkT noTy t = true) (hflat : flatOk inputs t = true) (st0 : XState) :
    parseExprToks P (typedBuilder L ops true) inputs st0 (atoks P.types (renderA s t))
    = callTree L ops inputs st0 (callC t []) := by
  rw [parse_render_tree P (typedBuilder L ops true) inputs noTy (noTy_inline P) s t ht st0]
  exact (callTree_flat L ops inputs (styleFlag s) t hflat st0).symm

/-- The full statement fails for the n-ary call. Language `A`, `B ≤ A`, operators `f : A ** B`, `g : x ** x`:
parsing `g (f -)` instantiates `g` first (its `x` is variable 0, the source's type variable 1); the Python call
`g(f(-))` evaluates `f(-)` first and instantiates `g` in `__call__` (the source's type is variable 0, `x` is
variable 1). Both succeed; the results are different values (equal up to renaming variables). -/
theorem C13a_typed_call_order_counterexample :
    aOkT noTy tGFS = true ∧ callC tGFS [] = pyGFS ∧
    parseExprToks C04P.c4P (typedBuilder C04P.c4L C04P.c4ops true) [] {} (atoks C04P.c4P.types (renderA .juxta tGFS))
      = .ok (C04P.s4, C04P.eGFS) ∧
    callTree C04P.c4L C04P.c4ops [] {} (callC tGFS []) = .ok (q4, ePy) ∧
    parseExprToks C04P.c4P (typedBuilder C04P.c4L C04P.c4ops true) [] {} (atoks C04P.c4P.types (renderA .juxta tGFS))
      ≠ callTree C04P.c4L C04P.c4ops [] {} (callC tGFS []) :=
  ⟨by decide, rfl, by rw [tGFS_toks_juxta]; exact C04P.ex_parse, py_call, parse_ne_call⟩

/-! ## Part C: annotations with the typed builder -/

/-- With the typed builder, parsing a rendering with annotations is the fold of `mkOpT`/`mkSourceT`/`mkAppT`/
`annotateT` over the tree (instance of `C13a_render_tree_ann`). -/
theorem C13a_typed_render_tree_ann (P : PLang) (hL : TextLang P.types) (L : Lang) (ops : List OperatorDecl)
    (fixFlag : Bool) (inputs : List TExpr) (s : Style) (t : ATree) (ht : aOkT (printable P.types) t = true)
    (st0 : XState) :
    parseExprToks P (typedBuilder L ops fixFlag) inputs st0 (atoks P.types (renderA s t))
    = evalA (typedBuilder L ops fixFlag) inputs (styleFlag s) st0 t :=
  C13a_render_tree_ann P (typedBuilder L ops fixFlag) inputs hL s t ht st0

/-- The typed builder looks at the flag only when the annotated expression is a source: `f - : T` and `(f -) : T`
mean the same; `- : T` (the source's type *becomes* `T`) and `(-) : T` (the source's wildcard type is unified with
`T`) are the one placement the typed builder treats differently. -/
theorem C13a_typed_flag_irrelevant (L : Lang) (s : XState) (e : TExpr) (t : Term) (n : Nat) (b : Bool)
    (he : e.isSource = false) :
    annotateT L s e t n b = annotateT L s e t n false := by
  simp [annotateT, he]

/-- … and it does treat them differently: `- : A` gives a source of type `A` whose variable is unconstrained,
`(-) : A` a source whose type is still its variable, now bounded by `A`. -/
theorem C13a_typed_dash_placement :
    parseExprToks C04P.c4P (typedBuilder C04P.c4L C04P.c4ops true) [] {} ["-", ":", "A"]
      = .ok (q1, .src 0 none (.app 5 [])) ∧
    parseExprToks C04P.c4P (typedBuilder C04P.c4L C04P.c4ops true) [] {} ["(", "-", ")", ":", "A"]
      = .ok (q2, .src 0 none (.var 0)) :=
  ⟨typed_dash_bare, typed_dash_paren⟩

/-- Layout IS neutral here too (defect D31 repaired): line breaks and comment tokens are not "the previous token",
so a line break or a comment between `-` and `:` does not change the result — `-⏎: A` and `- # c⏎: A` are `- : A`
(the source's type becomes `A`), not `(-) : A`. -/
theorem C13a_typed_dash_linebreak :
    parseExprToks C04P.c4P (typedBuilder C04P.c4L C04P.c4ops true) [] {} ["-", "\n", ":", "A"]
      = .ok (q1, .src 0 none (.app 5 [])) ∧
    parseExprToks C04P.c4P (typedBuilder C04P.c4L C04P.c4ops true) [] {} ["-", "#", "c", "\n", ":", "A"]
      = .ok (q1, .src 0 none (.app 5 [])) ∧
    parseExprToks C04P.c4P (typedBuilder C04P.c4L C04P.c4ops true) [] {} ["-", "\n", ":", "A"]
      = parseExprToks C04P.c4P (typedBuilder C04P.c4L C04P.c4ops true) [] {} ["-", ":", "A"] :=
  ⟨typed_dash_newline, typed_dash_comment, typed_dash_newline.trans typed_dash_bare.symm⟩

/-! ## Part D: comments and line breaks with annotations -/

/-- Comments and line breaks anywhere, annotations included (any builder, any token list, no side condition): a token
list parses like the list with every comment (`#` up to the line break) and every line break removed — same
expression, same final builder state, same error. This covers trivia before and after `:`, between `-` and `:`, and
even inside the annotation's type text (the type parser skips comments and line breaks by the same rule). -/
theorem C13a_trivia_ann {S E : Type} (P : PLang) (B : Builder S E) (inputs : List E) (st0 : S) (ts : List String) :
    parseExprToks P B inputs st0 ts = parseExprToks P B inputs st0 (Notation.stripTrivia false ts) :=
  Notation.parseExprToks_strip_all P B inputs st0 ts

/-- Hence any token list that is the rendering of a spine with annotations up to comments and line breaks parses to
the spine's denotation (the counterpart of `C13_trivia_render`). -/
theorem C13a_trivia_render_ann {S E : Type} (P : PLang) (B : Builder S E) (inputs : List E) (hL : TextLang P.types)
    (st0 : S) (ts : List String) (sp : List AItem) (hok : aOkS (printable P.types) sp = true)
    (hts : Notation.stripTrivia false ts = atoks P.types sp) :
    parseExprToks P B inputs st0 ts = NotationAnn.denote B inputs st0 sp := by
  rw [C13a_trivia_ann P B inputs st0 ts, hts]
  exact C13a_parse_render_ann P B inputs hL st0 sp hok

/-- … and of a tree with annotation nodes in any style. -/
theorem C13a_trivia_tree_ann {S E : Type} (P : PLang) (B : Builder S E) (inputs : List E) (hL : TextLang P.types)
    (s : Style) (t : ATree) (ht : aOkT (printable P.types) t = true) (st0 : S) (ts : List String)
    (hts : Notation.stripTrivia false ts = atoks P.types (renderA s t)) :
    parseExprToks P B inputs st0 ts = evalA B inputs (styleFlag s) st0 t := by
  rw [C13a_trivia_ann P B inputs st0 ts, hts]
  exact C13a_render_tree_ann P B inputs hL s t ht st0

/-- The type parser itself (both modes, any state): on a token list and on the list without comments and line breaks
it returns the same type and number of variables or the same error; what the second run leaves unconsumed is the
first run's unconsumed tokens, stripped. -/
theorem C13a_trivia_type (P : PLang) (consumeAll : Bool) (varBase : Nat) (s : TState) (ts : List String) :
    Notation.stripRest (parseTypeLoop P consumeAll varBase s ts)
    = parseTypeLoop P consumeAll varBase { s with comment := false } (Notation.stripTrivia s.comment ts) :=
  Notation.typeLoop_strip P consumeAll varBase ts s

/-! ## non-vacuity -/

/-- the language of `C14Text`: `A`, `B`, unary `F`, binary `G` -/
def annP : PLang := ⟨exL, []⟩
def annOps : List String := ["f", "g", "x"]
def annInputs : List PExpr := [.input 1, .input 2]
/-- `F(A)`, `(A * B)`, `G(B, Top)` -/
def tyFA : Ty := .app 7 [.app 5 []]
def tyAB : Ty := .app PROD [.app 5 [], .app 6 []]
def tyG : Ty := .app 8 [.app 6 [], .app TOP []]

/-- `f ( x : F(A) , - : (A * B) ) 2 : G(B, Top)` -/
def annSpine : List AItem :=
  [.op "f", .group [[.op "x", .ann tyFA], [.src, .ann tyAB]], .input 2, .ann tyG]

example : aOkS (printable annP.types) annSpine = true := by decide
example : atoks annP.types annSpine
    = ["f", "(", "x", ":", "F", "(", "A", ")", ",", "-", ":", "(", "A", "*", "B", ")", ")", "2",
       ":", "G", "(", "B", ",", "Top", ")"] := by decide
/-- the denotation with the free builder: three annotation nodes at their places, the types recorded in parse order -/
example : NotationAnn.denote (freeBuilder annOps) annInputs {} annSpine
    = .ok ({ nsrc := 1, anns := [tyFA.toTerm, tyAB.toTerm, tyG.toTerm] },
        .ann (.app (.app (.app (.op "f") (.ann (.op "x") tyFA.toTerm)) (.ann (.src 0) tyAB.toTerm)) (.input 2))
          tyG.toTerm) := by rfl
example : parseExprToks annP (freeBuilder annOps) annInputs {}
      ["f", "(", "x", ":", "F", "(", "A", ")", ",", "-", ":", "(", "A", "*", "B", ")", ")", "2",
       ":", "G", "(", "B", ",", "Top", ")"]
    = .ok ({ nsrc := 1, anns := [tyFA.toTerm, tyAB.toTerm, tyG.toTerm] },
        .ann (.app (.app (.app (.op "f") (.ann (.op "x") tyFA.toTerm)) (.ann (.src 0) tyAB.toTerm)) (.input 2))
          tyG.toTerm) :=
  C13a_parse_render_ann annP (freeBuilder annOps) annInputs exL_textLang {} annSpine (by decide)

/-- `annSpine` with a comment between `x` and its `:`, a line break between `-` and its `:`, a line break inside a
type text and a trailing comment: `f ( x # c : (` ⏎ `: F ⏎ (A) , - ⏎ : (A * B) ) 2 : G(B, Top) # end` -/
def annTrivia : List String :=
  ["f", "(", "x", "#", "c", ":", "(", "\n", ":", "F", "\n", "(", "A", ")", ",", "-", "\n", ":", "(", "A", "*", "B", ")", ")",
   "2", ":", "G", "(", "B", ",", "Top", ")", "#", "end"]
example : Notation.stripTrivia false annTrivia = atoks annP.types annSpine := by decide
example : parseExprToks annP (freeBuilder annOps) annInputs {} annTrivia
    = .ok ({ nsrc := 1, anns := [tyFA.toTerm, tyAB.toTerm, tyG.toTerm] },
        .ann (.app (.app (.app (.op "f") (.ann (.op "x") tyFA.toTerm)) (.ann (.src 0) tyAB.toTerm)) (.input 2))
          tyG.toTerm) :=
  C13a_trivia_render_ann annP (freeBuilder annOps) annInputs exL_textLang {} annTrivia annSpine (by decide) (by decide)

/-- a tree with annotations at the root, on an argument and on a function: `((f : F(A)) (x : (A * B)) -) : G(B, Top)` -/
def annTree : ATree := .ann (.app (.app (.ann (.op "f") tyFA) (.ann (.op "x") tyAB)) .src) tyG
example : aOkT (printable annP.types) annTree = true := by decide
example : atoks annP.types (renderA .juxta annTree)
    = ["f", ":", "F", "(", "A", ")", "(", "x", ":", "(", "A", "*", "B", ")", ")", "-", ":", "G", "(", "B", ",", "Top", ")"] := by
  decide
example : atoks annP.types (renderA .call annTree)
    = ["f", ":", "F", "(", "A", ")", "(", "x", ":", "(", "A", "*", "B", ")", ",", "-", ")", ":", "G", "(", "B", ",", "Top", ")"] := by
  decide
example : atoks annP.types (renderA .paren annTree)
    = ["(", "(", "(", "(", "f", ")", ":", "F", "(", "A", ")", ")", "(", "(", "x", ")", ":", "(", "A", "*", "B", ")", ")", ")",
       "(", "-", ")", ")", ":", "G", "(", "B", ",", "Top", ")"] := by
  decide
example : evalA (freeBuilder annOps) annInputs (styleFlag .juxta) {} annTree
    = .ok ({ nsrc := 1, anns := [tyFA.toTerm, tyAB.toTerm, tyG.toTerm] },
        .ann (.app (.app (.ann (.op "f") tyFA.toTerm) (.ann (.op "x") tyAB.toTerm)) (.src 0)) tyG.toTerm) := by rfl
/-- the flag: in juxtaposition the root annotation of `annTree` follows the bare `-`, in call notation it follows `)` -/
example : styleFlag .juxta (.app (.app (.ann (.op "f") tyFA) (.ann (.op "x") tyAB)) .src) = true := rfl
example : styleFlag .call (.app (.app (.ann (.op "f") tyFA) (.ann (.op "x") tyAB)) .src) = false := rfl

/-- the placements the parser distinguishes, with the free builder: `f x : A` annotates the application,
`f (x : A)` the argument, `f : A x` the function -/
example : parseExprToks annP (freeBuilder annOps) annInputs {} ["f", "x", ":", "A"]
    = .ok ({ anns := [.app 5 []] }, .ann (.app (.op "f") (.op "x")) (.app 5 [])) := by rfl
example : parseExprToks annP (freeBuilder annOps) annInputs {} ["f", "(", "x", ":", "A", ")"]
    = .ok ({ anns := [.app 5 []] }, .app (.op "f") (.ann (.op "x") (.app 5 []))) := by rfl
example : parseExprToks annP (freeBuilder annOps) annInputs {} ["f", ":", "A", "x"]
    = .ok ({ anns := [.app 5 []] }, .app (.ann (.op "f") (.app 5 [])) (.op "x")) := by rfl
example : parseExprToks annP (freeBuilder annOps) annInputs {} ["f", "(", ":", "A", ")"]
    = .error (.parseError "Type annotation without an expression") := by rfl

/-- outside the theorems: a product written without its brackets ends the annotation after the first factor
(`x : A * B` annotates `x` with `A`, then `*` is an undeclared operator) -/
example : parseExprToks annP (freeBuilder annOps) annInputs {} ["x", ":", "A", "*", "B"]
    = .error (.undefinedToken "*") := by rfl

/-- the tree version: `g (f -)` as a `Notation.Tree` -/
example : Notation.namesOkT (.app (.op "g") (.app (.op "f") .src)) = true ∧
    toA (.app (.op "g") (.app (.op "f") .src)) = tGFS ∧
    Notation.toks (Notation.render .call (.app (.op "g") (.app (.op "f") .src))) = ["g", "(", "f", "(", "-", ")", ")"] :=
  ⟨by decide, rfl, by decide⟩

/-- typed half: the hypotheses are satisfiable (`g (f -)`; `f 1` with one input) -/
example : aOkT noTy tGFS = true := by decide
example : curry tGFS = .call (.call (.op "g") []) [.call (.call (.op "f") []) [.src]] := rfl
example : aOkT noTy (.app (.op "f") (.input 1)) = true ∧
    flatOk [C04P.eS] (.app (.op "f") (.input 1)) = true ∧
    callC (.app (.op "f") (.input 1)) [] = .call (.op "f") [.input 1] := ⟨by decide, rfl, rfl⟩

end Tfv.C13
