import sys, random, itertools, warnings, re
warnings.filterwarnings('ignore')
REPO=sys.argv[1]; sys.path.insert(0,REPO)
exec(open('e16.py').read().split("rng=random.Random")[0].split("REPO=sys.argv[1]; sys.path.insert(0,REPO)")[1])
rng=random.Random(int(sys.argv[2]))
def gen(d):
    r=rng.random()
    if d==0 or r<0.2: return Source(rng.choice([A,B,C,D,F(A),F(C)]))
    o=rng.choice(list(ops))
    try:
        if o in('ab','bc','ad','g','w','u'): return ops[o](gen(d-1))
        if o in('h','dd'): return ops[o](gen(d-1),gen(d-1))
        if o=='m': return ops[o](ops[rng.choice(['ab','g'])].instance(), gen(d-1))
    except Exception: return gen(d)
def plain(sparql):
    return sparql.replace("{SELECT DISTINCT ?workflow WHERE {\n","").replace("} GROUP BY ?workflow}\n","")
stats={}
def bump(k): stats[k]=stats.get(k,0)+1
for it in range(120):
    e=gen(3); e.fix()
    g=TransformationGraph(lang); root=TEST.wf
    out=g.add_expr(e, root); g.add((root,RDF.type,TF.Transformation)); g.add((root,TF.output,out))
    ds=Dataset(); gg=ds.add_graph(root); gg+=g
    nodes=set(g.subjects(TF['from']))|set(g.objects(None,TF['from']))|{out}
    frm={n:list(g.objects(n,TF['from'])) for n in nodes}
    for variant in range(6):
        keep=set(nodes)
        # drop random non-output steps, reconnecting
        drop=set(n for n in nodes if n!=out and rng.random()<0.3)
        def preds(n, seen=()):
            res=[]
            for p in frm.get(n,[]):
                if p in seen: continue
                if p in drop: res+=preds(p, seen+(p,))
                else: res.append(p)
            return res
        t=TransformationGraph(lang); troot=BNode(); t.add((troot,RDF.type,TF.Task)); t.add((troot,TF.output,out))
        for n in nodes-drop:
            for p in preds(n): 
                if p!=n: t.add((n,TF['from'],p))
            mode=rng.random()
            ty=g.value(n,TF.type); via=g.value(n,TF.via)
            if ty is not None and isinstance(ty,URIRef) and mode<0.8:
                # maybe generalise
                tt=lang.parse_type_uri(ty)
                sups=[tt]+list(lang.supertypes(tt, transitive=True)) if tt in lang.canon else [tt]
                t.add((n,TF.type,lang.uri(rng.choice(sups))))
            if via is not None and rng.random()<0.6: t.add((n,TF.via,via))
        try:
            q=TransformationQuery(lang,t,root=troot); sp=q.sparql()
        except Exception as ex:
            bump('qerr:'+type(ex).__name__); continue
        r1=bool(list(ds.query(sp))); r2=bool(list(ds.query(plain(sp))))
        bump(f'rdflib={r1} plain={r2}')
        if not r2 and stats.get('shown',0)<3:
            bump('shown'); print('LOST', e, '\n', sp)
print(REPO, stats)
