import Tfv.Proofs.WildReachCert
import Tfv.Proofs.InferConstrExamples
/-!
# One `fulfill` call on a subtype constraint: when it marks, which test has answered

`fulfill_sub_cases`: a successful `fulfill` of a subtype constraint is a successful `unify` to a store `σ1` followed either
by the answer `some true` of the engine's test on `σ1` (then the record is marked in a store with the variables of `σ1`),
or by no change at all (`σ' = σ1`: a mark present afterwards was set by a re-check nested in the `unify`).
`fulfill_mark_strict`: in the first case the strict matcher answers `some true` too if at most one variable of `σ1` is
flagged as a wildcard.
-/
namespace Tfv.C03X
open Tfv Tfv.C03P Tfv.C03C Tfv.C03R Tfv.C16P Tfv.C17E

theorem match3_vars_congr (L : Lang) {τ τ' : Store} (hv : τ'.vars = τ.vars) (n : Nat) (st aw : Bool) (a b : Term) :
    match3 L τ' n st aw a b = match3 L τ n st aw a b :=
  match3_congr (S := fun _ => True) (fun _ _ _ _ _ _ => trivial)
    (fun v _ => by unfold getVar; rw [hv]) (by rw [hv]) n st aw a b (fun _ _ => trivial) (fun _ _ => trivial)

theorem dewild_vars_congr {τ τ' : Store} (hv : τ'.vars = τ.vars) : (dewild τ').vars = (dewild τ).vars := by
  unfold dewild; simp only [hv]

theorem wildLe1_vars_congr {τ τ' : Store} (hv : τ'.vars = τ.vars) (h : WildLe1 τ) : WildLe1 τ' := by
  intro u v hu hv'
  apply h u v
  · unfold getVar at hu ⊢; rw [← hv]; exact hu
  · unfold getVar at hv' ⊢; rw [← hv]; exact hv'

theorem fulfill_sub_cases {L : Lang} {k : Nat} {σ σ' : Store} {c : Nat} {d : Bool} {ref tgt : Term} {s f : Bool}
    (hg : getConstr σ c = .sub ref tgt s f) (h : fulfill L (k+1) σ c = .ok (σ', d)) :
    ∃ σ1, unify L k σ ref tgt true true false = .ok σ1 ∧
      ((match3 L σ1 (matchFuel σ1) true false ref tgt = some true ∧ σ'.vars = σ1.vars ∧ d = true) ∨
       (match3 L σ1 (matchFuel σ1) true false ref tgt = none ∧ σ' = σ1)) := by
  rw [fulfill_sub_eq L k σ c hg] at h
  split at h
  · cases h
  · next σ1 h1 =>
    refine ⟨σ1, h1, ?_⟩
    split at h
    · next hm =>
      left
      split at h
      · injection h with h; injection h with h2 h3
        subst h2; subst h3
        exact ⟨hm, rfl, rfl⟩
      · injection h with h; injection h with h2 h3
        subst h2; subst h3
        exact ⟨hm, rfl, rfl⟩
    · cases h
    · next hm =>
      right
      split at h
      · injection h with h; injection h with h2 h3
        exact ⟨hm, h2.symm⟩
      · injection h with h; injection h with h2 h3
        exact ⟨hm, h2.symm⟩

/-- if the outer test of this `fulfill` call answers `some true` and at most one variable is flagged in the resulting
store, the strict matcher answers `some true` on the resulting store -/
theorem fulfill_mark_strict {L : Lang} {k : Nat} {σ σ' : Store} {c : Nat} {d : Bool} {ref tgt : Term} {s f : Bool}
    (hg : getConstr σ c = .sub ref tgt s f) (h : fulfill L (k+1) σ c = .ok (σ', d)) (hw : WildLe1 σ') :
    (match3 L (dewild σ') (matchFuel σ') true false ref tgt = some true ∧ d = true) ∨
    (∃ σ1, unify L k σ ref tgt true true false = .ok σ1 ∧ σ' = σ1 ∧
      match3 L σ1 (matchFuel σ1) true false ref tgt = none) := by
  obtain ⟨σ1, h1, hc⟩ := fulfill_sub_cases hg h
  rcases hc with ⟨hm, hv, hd⟩ | ⟨hm, he⟩
  · left
    refine ⟨?_, hd⟩
    have hf : matchFuel σ' = matchFuel σ1 := by unfold matchFuel; rw [hv]
    have hm' : match3 L σ' (matchFuel σ') true false ref tgt = some true := by
      rw [hf, match3_vars_congr L hv]; exact hm
    exact match3_engine_imp_strict L σ' true hw _ ref tgt hm'
  · right
    exact ⟨σ1, h1, he, hm⟩

end Tfv.C03X
