"""Check runner: `vcheck <id> [--tier quick|thorough] [--replay file]`.

Steps (DESIGN.md section 9):
 1. regenerate lean/Tfv/Generated.lean from /repo's working tree;
 2. build Tfv.Props.<id> and the driver, grep for forbidden tokens, audit axioms;
 3. run the property module: corpus first, then generated cases; every case is
    run on the implementation (in-process) and on the Lean driver, canonical
    outputs are diffed; independently, the property's oracle is evaluated on
    the implementation's observations;
 4. classify oracle failures against known_findings.json;
 5. on a broken obligation / correspondence without a failing input, search
    further; report VIOLATION (with `no-failing-input-found` if none);
 6. write evidence/<id>.json.
Exit codes: 0 held, 1 violation, 2 infrastructure error / timeout.
"""
from __future__ import annotations
import argparse, hashlib, importlib, json, os, random, sys, time, traceback

HERE = os.path.dirname(os.path.abspath(__file__))
sys.path.insert(0, HERE)
import common  # noqa: E402
from common import VERIF, REPO, LEAN  # noqa: E402
import leanbuild  # noqa: E402
import gen_constants  # noqa: E402

TRUSTED_BASE = [
    "Lean 4.33.0 kernel (axioms per theorem listed under 'axioms'; only propext, Classical.choice, Quot.sound allowed)",
    "Lean compiler/runtime for the driver executable tfv-driver",
    "harness/gen_constants.py (translator for table-like constants)",
    "correspondence harness: generators, adapters, canonicalisation (harness/props/*.py)",
    "the reading of the property into the Lean statements in lean/Tfv/Props/<id>.lean",
]


class Ctx:
    def __init__(self, prop_id, tier, seed, search_mode=False):
        self.prop_id = prop_id
        self.tier = tier
        self.seed = seed
        self.rng = random.Random(seed)
        self.search_mode = search_mode
        self.lines: list[str] = []          # protocol lines
        self.expect: list = []              # (impl_obs | None for setup, case_json)
        self.failures: list[dict] = []      # oracle failures on the implementation
        self.stats: dict = {}
        self.samples: list = []
        self.distinct: set = set()
        self.evaluations = 0
        self.deadline = None
        self.constants = None

    # -- correspondence -----------------------------------------------------
    def setup(self, line: str, expect: str | None = "ok"):
        """protocol line whose answer must start with `expect`"""
        self.lines.append(line)
        self.expect.append(("setup", expect, None))

    def case(self, line: str, impl_obs: str, case_json, nontrivial: bool = True, key=None, cmp=None):
        """`cmp(model_output, impl_obs) -> bool` replaces string equality (e.g. graph isomorphism)"""
        self.lines.append(line)
        self.expect.append(("case", impl_obs, case_json) if cmp is None else ("case", impl_obs, case_json, cmp))
        self.evaluations += 1
        if nontrivial:
            self.distinct.add(key if key is not None else line)
        if len(self.samples) < 6 and nontrivial and self.rng.random() < 0.05:
            self.samples.append({"case": case_json, "impl": impl_obs[:2000]})

    def count(self, name: str, k: int = 1):
        self.stats[name] = self.stats.get(name, 0) + k

    # -- oracle ------------------------------------------------------------
    def fail(self, description: str, features: dict, replay: dict, lines=None):
        """the property itself fails on the implementation at a concrete input. `lines`: the protocol lines (cases) this observation was
        made on - a known finding whose defect the model reproduces excuses the failure only while model and implementation agree on them"""
        self.failures.append({"description": description, "features": features, "replay": replay, "lines": list(lines or [])})

    def out_of_time(self) -> bool:
        return self.deadline is not None and time.time() > self.deadline


def load_known():
    p = os.path.join(VERIF, "known_findings.json")
    if not os.path.exists(p):
        return []
    with open(p) as f:
        return json.load(f)["findings"]


def sig_matches(sig: dict, features: dict) -> bool:
    for k, v in sig.items():
        if k.endswith("_ge"):
            if not (k[:-3] in features and features[k[:-3]] >= v):
                return False
        elif k.endswith("_in"):
            if features.get(k[:-3]) not in v:
                return False
        elif features.get(k) != v:
            return False
    return True


def write_replay(prop_id, payload) -> str:
    d = os.path.join(VERIF, "replays", prop_id)
    os.makedirs(d, exist_ok=True)
    blob = json.dumps(payload, sort_keys=True, ensure_ascii=False, default=str)
    h = hashlib.sha1(blob.encode()).hexdigest()[:12]
    path = os.path.join(d, f"{h}.json")
    with open(path, "w") as f:
        f.write(json.dumps(payload, indent=1, ensure_ascii=False, default=str))
    return path


def run_corpus(mod, ctx: Ctx):
    """past failing inputs (minimised replays kept under corpus/<id>/) run first, on the implementation, through the module's own replay;
    an input that fails again is reported with the features it had (a module that reads its corpus itself - C18 - skips them here)"""
    import glob, io, contextlib
    if getattr(mod, "OWN_CORPUS", False) or not hasattr(mod, "replay"):
        return
    for f in sorted(glob.glob(os.path.join(VERIF, "corpus", ctx.prop_id, "*.json"))):
        try:
            with open(f) as fh:
                payload = json.load(fh)
            if payload.get("kind") != "failing-input":
                continue
            buf = io.StringIO()
            with contextlib.redirect_stdout(buf):
                ok = mod.replay(Ctx(ctx.prop_id, ctx.tier, ctx.seed), payload)
        except Exception as e:  # noqa
            ctx.fail(f"corpus input {os.path.basename(f)} could not be replayed: {type(e).__name__}: {e}", {"check": "corpus-replay-error"}, {"file": f})
            continue
        ctx.count("corpus_inputs")
        ctx.evaluations += 1
        if not ok:
            ctx.fail(f"corpus input {os.path.basename(f)} fails again: " + payload.get("description", "")[:400] + " | " + buf.getvalue()[-300:],
                payload.get("features", {"check": "corpus"}), payload.get("input", {}))


def run_module(mod, ctx: Ctx):
    """run the property module and the driver; returns list of diffs"""
    run_corpus(mod, ctx)
    mod.run(ctx)
    diffs = []
    if ctx.lines:
        outs = leanbuild.run_driver(ctx.lines)
        if len(outs) != len(ctx.lines):
            diffs.append({"kind": "driver-output-length", "expected": len(ctx.lines), "got": len(outs)})
        for line, ex, out in zip(ctx.lines, ctx.expect, outs):
            kind, exp, cj = ex[0], ex[1], ex[2]
            cmp = ex[3] if len(ex) > 3 else None
            if kind == "setup":
                if exp is not None and not out.startswith(exp):
                    diffs.append({"kind": "setup", "line": line, "model": out, "expected": exp})
            elif (not cmp(out, exp)) if cmp else (out != exp):
                diffs.append({"kind": "correspondence", "line": line, "case": cj, "impl": exp[:3000], "model": out[:3000]})
        if getattr(mod, "INVARIANTS", False):
            run_invariants(ctx)
    return diffs


def run_invariants(ctx: Ctx):
    """evaluate the (proved-sound) decidable checkers of the engine theorems' hypotheses - OkStoreC, Chains (FuelOk), Acyclic -
    on every intermediate store of the model's runs of this check's `infer` lines (lean/Driver/Inv.lean). Statistics only:
    the first two are invariants by theorem, the third says to how many of the compared runs the witness theorems applied."""
    exe = os.path.join(os.path.dirname(leanbuild.driver_path()), "tfv-inv")
    if not os.path.exists(exe):
        return
    try:
        outs = leanbuild.run_driver(ctx.lines, exe=exe)
    except Exception as e:
        ctx.stats["invariant_runs_error"] = str(e)[:200]
        return
    runs = stores = 0
    bad = {"OkStoreC": 0, "Chains": 0, "Acyclic": 0}
    infer_idx = [i for i, l in enumerate(ctx.lines) if l.startswith("(infer ")]
    for k, o in enumerate(outs):
        parts = o.split()
        if len(parts) == 5 and parts[0] == "inv":
            # the verified monitor of C03's last clause on the model's final store (exact on resolved records: C03e_monitor_exact_partial)
            ctx.stats["elim_records_resolved"] = ctx.stats.get("elim_records_resolved", 0) + int(parts[3])
            ctx.stats["elim_records_monitor_accepts"] = ctx.stats.get("elim_records_monitor_accepts", 0) + int(parts[4])
            if int(parts[4]) < int(parts[3]) and ctx.prop_id == "C03" and k < len(infer_idx):
                i = infer_idx[k]
                cj = ctx.expect[i][2] if len(ctx.expect[i]) > 2 else {}
                ctx.fail(f"the model's final store has a resolved elimination record none of whose alternatives is above the reference (monitor elimHoldsB): {ctx.lines[i][:300]}",
                    {"check": "elim-monitor"}, cj if isinstance(cj, dict) else {"line": ctx.lines[i]}, lines=[ctx.lines[i]])
            parts = parts[:3]
        if len(parts) == 3 and parts[0] == "inv":
            runs += 1
            stores += int(parts[1])
            for name, flag in zip(bad, parts[2]):
                if flag != "T":
                    bad[name] += 1
            if len(parts[2]) > 5:      # useSafe: the fresh run stays inside the model's fuels (C16d_history_independent_partial; the model's domain of fidelity)
                key = {"T": "fuel_safe_true", "F": "fuel_safe_false"}.get(parts[2][5], "fuel_safe_not_applicable")
                ctx.stats[key] = ctx.stats.get(key, 0) + 1
            if len(parts[2]) > 4:      # the certificate of C03w_certificate_sound on the last store (sufficient for marked constraints to hold with wildcards)
                key = "wildcard_certificate_true" if parts[2][4] == "T" else "wildcard_certificate_false"
                ctx.stats[key] = ctx.stats.get(key, 0) + 1
            if len(parts[2]) > 3:      # the decidable hypothesis of C16s_history_independent_partial (concrete arguments only)
                key = {"T": "history_independence_hypothesis_true", "F": "history_independence_hypothesis_false"}.get(parts[2][3], "history_independence_not_applicable")
                ctx.stats[key] = ctx.stats.get(key, 0) + 1
    ctx.stats["invariant_runs"] = runs
    ctx.stats["invariant_stores_checked"] = stores
    for name, n in bad.items():
        ctx.stats[f"invariant_runs_where_{name}_checker_false"] = n


def main():
    ap = argparse.ArgumentParser()
    ap.add_argument("prop")
    ap.add_argument("--tier", default=os.environ.get("VERIF_TIER", "quick"))
    ap.add_argument("--replay")
    ap.add_argument("--no-build", action="store_true")
    args = ap.parse_args()
    prop_id = args.prop
    tier = args.tier if args.tier in ("quick", "thorough") else "quick"
    seed = int(os.environ.get("VERIF_SEED", "0") or 0)
    t0 = time.time()
    evidence_path = os.path.join(VERIF, "evidence", f"{prop_id}.json")
    # watchdog: a check that does not come back is an infrastructure failure (exit 2), never a verdict
    import threading
    limit = float(os.environ.get("VERIF_TIMEOUT", "2400" if tier == "quick" else "14400"))

    def give_up():
        print(f"infrastructure error: {prop_id} {tier} exceeded VERIF_TIMEOUT={limit:.0f}s", file=sys.stderr, flush=True)
        os._exit(2)
    wd = threading.Timer(limit, give_up)
    wd.daemon = True
    wd.start()

    broken: list[str] = []
    # 1. constants
    constants = None
    try:
        constants = gen_constants.regenerate(REPO, LEAN)
    except Exception as e:  # broken tie
        broken.append(f"constants extraction failed: {type(e).__name__}: {e}")

    # 2. build + audit
    if args.no_build:
        b = {"ok": True, "broken": [], "theorems": {}, "obligations": 0, "discharged": 0, "log": ""}
    else:
        try:
            b = leanbuild.build_and_audit(prop_id, clean=(tier == "thorough" and os.environ.get("VERIF_CLEAN") == "1"),
                leanchecker=(tier == "thorough"))
        except Exception as e:
            print(f"infrastructure error during build: {e}", file=sys.stderr)
            traceback.print_exc()
            sys.exit(2)
    broken.extend(b["broken"])
    driver_ok = os.path.exists(leanbuild.driver_path())

    # 3. implementation + model
    try:
        common.import_impl()
    except Exception as e:
        broken.append(f"implementation does not import: {type(e).__name__}: {e}")
    mod = importlib.import_module(f"props.{prop_id}")
    if prop_id in ("C07", "C08", "C09", "C10", "C12", "C19"):
        import iso
        problem = iso.self_test(os.path.join(VERIF, "corpus", "iso"))
        if problem:      # the comparator itself is broken: infrastructure, not a verdict
            print("infrastructure error: " + problem, file=sys.stderr)
            sys.exit(2)
    ctx = Ctx(prop_id, tier, seed)
    ctx.constants = constants
    diffs = []
    if args.replay:
        with open(args.replay) as f:
            payload = json.load(f)
        ok = mod.replay(ctx, payload)
        print("replay:", "property holds on this input" if ok else "property FAILS on this input")
        sys.exit(0 if ok else 1)
    try:
        if driver_ok:
            diffs = run_module(mod, ctx)
        else:
            broken.append("driver executable missing")
            ctx.search_mode = True
            run_corpus(mod, ctx)
            mod.run(ctx)
    except Exception as e:
        traceback.print_exc()
        broken.append(f"harness/adapter error: {type(e).__name__}: {e}")
    if diffs:
        broken.append(f"correspondence: {len(diffs)} case(s) where model and implementation differ")
        d = os.path.join(VERIF, "replays", prop_id)
        os.makedirs(d, exist_ok=True)
        with open(os.path.join(d, "last_diffs.json"), "w") as f:
            json.dump(diffs[:20], f, indent=1, ensure_ascii=False, default=str)

    # 4. known findings
    known = [k for k in load_known() if k["property"] == prop_id and k.get("status") == "known"]
    seen_known: dict[str, int] = {}
    new_failures = []
    diff_lines = {d.get("line") for d in diffs}
    for fl in ctx.failures:
        hit = next((k for k in known if sig_matches(k["signature"], fl["features"])), None)
        if hit and hit.get("model_reproduces") and any(l in diff_lines for l in fl.get("lines", [])):
            # the model has the known defect too, yet here the implementation does something else: not the known finding
            fl["description"] += f" [matches the signature of {hit['id']}, but the model - which reproduces {hit['id']} - disagrees with the implementation here]"
            hit = None
        if hit:
            seen_known[hit["id"]] = seen_known.get(hit["id"], 0) + 1
        else:
            new_failures.append(fl)

    # 5. search when something is broken and no failing input is at hand
    searched = 0
    if broken and not new_failures:
        budget = 60 if tier == "quick" else 900
        deadline = time.time() + budget
        k = 0
        while time.time() < deadline and not new_failures:
            k += 1
            c2 = Ctx(prop_id, "thorough" if k > 2 else tier, seed * 1000 + 7919 * k + 1, search_mode=True)
            c2.constants = constants
            c2.deadline = deadline
            try:
                mod.run(c2)
            except Exception:
                traceback.print_exc()
                break
            searched += c2.evaluations
            for fl in c2.failures:
                if not any(sig_matches(kf["signature"], fl["features"]) for kf in known):
                    new_failures.append(fl)

    violations = 0
    lines_out = []
    for kid, n in sorted(seen_known.items()):
        kf = next(k for k in known if k["id"] == kid)
        lines_out.append(f"KNOWN-FINDING: property={prop_id} {kid}: {kf['description']} ({n} case(s) this run)")
    replay_paths = []
    if new_failures:
        # report the smallest failing inputs (at most 3)
        new_failures.sort(key=lambda f: len(json.dumps(f["replay"], default=str)))
        for fl in new_failures[:3]:
            path = write_replay(prop_id, {"property": prop_id, "kind": "failing-input",
                "description": fl["description"], "features": fl["features"], "input": fl["replay"],
                "broken_obligations": broken, "seed": seed, "tier": tier,
                "replay_cmd": f"./vcheck {prop_id} --replay <this file>"})
            replay_paths.append(path)
            lines_out.append(f"VIOLATION property={prop_id} replay={path}")
            violations += 1
    elif broken:
        path = write_replay(prop_id, {"property": prop_id, "kind": "broken-obligation",
            "broken": broken, "diffs": diffs[:5], "build_log_tail": b.get("log", "")[-3000:],
            "audit": b.get("theorems"), "searched_inputs": searched + ctx.evaluations,
            "seed": seed, "tier": tier})
        replay_paths.append(path)
        lines_out.append(f"VIOLATION property={prop_id} replay={path} no-failing-input-found")
        violations += 1

    wall = round(time.time() - t0, 2)
    samples = ctx.samples[:6]
    if not samples and ctx.expect:
        samples = [{"case": ex[2], "impl": ex[1][:2000]} for ex in ctx.expect if ex[0] == "case"][:3]
    if not samples:
        samples = [{"theorems": list(b["theorems"].keys())[:5]}]
    ev = {
        "property_id": prop_id,
        "tier": tier,
        "seed": seed,
        "level": "proof",
        "coverage": {
            "obligations": b.get("obligations", 0),
            "discharged": b.get("discharged", 0),
            "checker_cmd": "cd lean && lake build " + " ".join("Tfv.Props." + m for m in leanbuild.prop_modules(prop_id)) + f" tfv-driver && lake env lean .audit/{prop_id}.lean"
                + (f" && lake env leanchecker Tfv.Props.{prop_id}" if tier == "thorough" else ""),
            "trusted_base": TRUSTED_BASE + getattr(mod, "TRUSTED", []),
            "axioms": b.get("theorems", {}),
            "evaluations": ctx.evaluations,
            "distinct_nontrivial": len(ctx.distinct),
            "rule": getattr(mod, "RULE", ""),
            "samples": samples,
            "correspondence_diffs": len(diffs),
            "oracle_failures": len(ctx.failures),
            "known_findings_seen": seen_known,
            "distribution": ctx.stats,
            "broken_obligations": broken,
            "searched_inputs_after_break": searched,
            "generated_constants": constants,
            "build_s": b.get("build_s"),
            "leanchecker": b.get("leanchecker"),
        },
        "assumptions": getattr(mod, "ASSUMPTIONS", []),
        "wall_s": wall,
        "violations": violations,
    }
    if args.no_build:
        # a run that skipped the build and the audit proves nothing about the obligations: it must not replace the record of a full run
        evidence_path = os.path.join(VERIF, "replays", prop_id, "evidence_nobuild.json")
    os.makedirs(os.path.dirname(evidence_path), exist_ok=True)
    with open(evidence_path, "w") as f:
        json.dump(ev, f, indent=1, ensure_ascii=False, default=str)
    for l in lines_out:
        print(l)
    print(f"{prop_id} {tier} seed={seed}: obligations {b.get('discharged',0)}/{b.get('obligations',0)}, "
          f"cases {ctx.evaluations} ({len(ctx.distinct)} distinct non-trivial), diffs {len(diffs)}, "
          f"oracle failures {len(ctx.failures)} (known {sum(seen_known.values())}), {wall}s")
    sys.exit(1 if violations else 0)


if __name__ == "__main__":
    main()
