import Tfv.Proofs.QueryAssign
import Tfv.Generated
/-!
# `genQuery` taken apart: its pieces by name, the shape of every generated triple, the predicates used
-/
namespace Tfv

/-! ## generic: `mapM` and accumulating `foldlM` in `Except` -/

/-- element-wise related lists -/
inductive All₂ {α β : Type} (R : α → β → Prop) : List α → List β → Prop
  | nil : All₂ R [] []
  | cons {x y xs ys} : R x y → All₂ R xs ys → All₂ R (x :: xs) (y :: ys)

theorem mapM_ok {α β ε : Type} (f : α → Except ε β) :
    ∀ (l : List α) (r : List β), l.mapM f = .ok r → All₂ (fun x y => f x = .ok y) l r := by
  intro l
  induction l with
  | nil =>
    intro r h
    simp only [List.mapM_nil, pure, Except.pure, Except.ok.injEq] at h
    subst h
    exact .nil
  | cons x xs ih =>
    intro r h
    rw [List.mapM_cons] at h
    cases hx : f x with
    | error e => rw [hx] at h; cases h
    | ok y =>
      rw [hx] at h
      cases hxs : xs.mapM f with
      | error e => rw [hxs] at h; cases h
      | ok ys =>
        rw [hxs] at h
        have h : Except.ok (y :: ys) = Except.ok (ε := ε) r := h
        simp only [Except.ok.injEq] at h
        subst h
        exact .cons hx (ih ys hxs)

/-- append the piece for `p`, or fail -/
def accStep {α β ε : Type} (piece : α → Except ε (List β)) (acc : List β) (p : α) : Except ε (List β) :=
  match piece p with
  | .error e => Except.error e
  | .ok cs => .ok (acc ++ cs)

theorem foldlM_pieces {α β ε : Type} (piece : α → Except ε (List β)) :
    ∀ (l : List α) (acc r : List β),
      l.foldlM (accStep piece) acc = .ok r →
      ∃ ps, All₂ (fun p cs => piece p = .ok cs) l ps ∧ r = acc ++ ps.flatten := by
  intro l
  induction l with
  | nil =>
    intro acc r h
    simp only [List.foldlM_nil, pure, Except.pure, Except.ok.injEq] at h
    subst h
    exact ⟨[], .nil, by simp⟩
  | cons x xs ih =>
    intro acc r h
    simp only [List.foldlM_cons, accStep] at h
    cases hx : piece x with
    | error e => rw [hx] at h; cases h
    | ok cs =>
      rw [hx] at h
      obtain ⟨ps, h1, h2⟩ := ih (acc ++ cs) r h
      exact ⟨cs :: ps, .cons hx h1, by rw [h2]; simp⟩

theorem forall₂_left {α β : Type} {R : α → β → Prop} {l : List α} {r : List β} (h : All₂ R l r) :
    ∀ x ∈ l, ∃ y ∈ r, R x y := by
  induction h with
  | nil => intro x hx; cases hx
  | cons h1 _ ih =>
    intro x hx
    rcases List.mem_cons.1 hx with rfl | hx
    · exact ⟨_, List.mem_cons_self, h1⟩
    · obtain ⟨y, hy, hr⟩ := ih x hx
      exact ⟨y, List.mem_cons_of_mem _ hy, hr⟩

theorem forall₂_right {α β : Type} {R : α → β → Prop} {l : List α} {r : List β} (h : All₂ R l r) :
    ∀ y ∈ r, ∃ x ∈ l, R x y := by
  induction h with
  | nil => intro x hx; cases hx
  | cons h1 _ ih =>
    intro y hy
    rcases List.mem_cons.1 hy with rfl | hy
    · exact ⟨_, List.mem_cons_self, h1⟩
    · obtain ⟨x, hx, hr⟩ := ih y hy
      exact ⟨x, List.mem_cons_of_mem _ hx, hr⟩

theorem forall₂_nil_iff {α β : Type} {R : α → β → Prop} {l : List α} {r : List β} (h : All₂ R l r) :
    r = [] ↔ l = [] := by
  cases h <;> simp

/-! ## the pieces of `genQuery` -/

def outPath (f : QFlags) : QPath := if f.byPenultimateOutput then .outputFrom else .pred "output"
def inPath (f : QFlags) : QPath := if f.bySecondInput then .inputFromInv else .pred "input"

def outClause (G : GLang) (t : QTask) (f : QFlags) (a : QAssign) (v : QVar) : Except QErr (List QClause) :=
  match subtypeOfClauses G v (t.step (stepOf a v)).types with
  | .error e => Except.error e
  | .ok cs => .ok (QClause.one ⟨.workflow, outPath f, .var v⟩ :: cs)

def inClause (G : GLang) (t : QTask) (f : QFlags) (a : QAssign) (v : QVar) : Except QErr (List QClause) :=
  match subtypeOfClauses G v (t.step (stepOf a v)).types with
  | .error e => Except.error e
  | .ok cs => .ok (QClause.one ⟨.workflow, inPath f, .var v⟩ :: cs)

def aftersOf (a : QAssign) (v : QVar) : List QVar := (a.links.filter (fun l => l.2 == v)).map (·.1)

def depClauses (t : QTask) (a : QAssign) (p : QVar × Nat) : List QClause :=
  (aftersOf a p.1).eraseDups.map (fun c =>
    QClause.one ⟨.var c, (if relaxedLink t (stepOf a c) p.2 then .opt "depends" else .pred "depends"), .var p.1⟩)

/-- the clauses that `chronology()` adds for one variable -/
def chronPiece (G : GLang) (t : QTask) (a : QAssign) (p : QVar × Nat) : Except QErr (List QClause) :=
  if (aftersOf a p.1).isEmpty then .ok (viaClauses p.1 (t.step p.2).ops)
  else
    match subtypeOfClauses G p.1 (t.step p.2).types with
    | .error e => Except.error e
    | .ok cs => .ok (depClauses t a p ++ viaClauses p.1 (t.step p.2).ops ++ cs)

def chronOf (G : GLang) (t : QTask) (f : QFlags) (a : QAssign) : Except QErr (List QClause) :=
  if !f.byChronology then .ok [] else
  a.vars.foldlM (accStep (chronPiece G t a)) []

def genFrom (G : GLang) (t : QTask) (f : QFlags) (a : QAssign) : Except QErr Query :=
  match (if f.byTypes then typesClauses G t a else .ok []) with
  | .error e => .error e
  | .ok pre2 =>
    match a.outs.mapM (outClause G t f a) with
    | .error e => .error e
    | .ok outs =>
      match (if f.byIo then a.ins.mapM (inClause G t f a) else .ok []) with
      | .error e => .error e
      | .ok ins =>
        match chronOf G t f a with
        | .error e => .error e
        | .ok chron =>
          .ok { prefilter := (if f.byOperators then operatorsClauses t a else []) ++ pre2,
                body := outs.flatten ++ ins.flatten ++ chron }

theorem chronStep_eq (G : GLang) (t : QTask) (a : QAssign) (acc : List QClause) (p : QVar × Nat) :
    (let v := p.1
     let st := t.step p.2
     let afters := (a.links.filter (fun l => l.2 == v)).map (·.1)
     if afters.isEmpty then (Except.ok (acc ++ viaClauses v st.ops) : Except QErr (List QClause))
     else
       let deps := afters.eraseDups.map (fun c =>
         QClause.one ⟨.var c, (if relaxedLink t (stepOf a c) p.2 then .opt "depends" else .pred "depends"), .var v⟩)
       match subtypeOfClauses G v st.types with
       | .error e => Except.error e
       | .ok cs => .ok (acc ++ deps ++ viaClauses v st.ops ++ cs)) =
    accStep (chronPiece G t a) acc p := by
  show (if (aftersOf a p.1).isEmpty then (Except.ok (acc ++ viaClauses p.1 (t.step p.2).ops) : Except QErr (List QClause)) else
       match subtypeOfClauses G p.1 (t.step p.2).types with
       | .error e => Except.error e
       | .ok cs => .ok (acc ++ depClauses t a p ++ viaClauses p.1 (t.step p.2).ops ++ cs)) = _
  unfold accStep chronPiece
  by_cases h : (aftersOf a p.1).isEmpty = true
  · rw [if_pos h, if_pos h]
  · rw [if_neg h, if_neg h]
    cases subtypeOfClauses G p.1 (t.step p.2).types with
    | error e => rfl
    | ok cs => simp only [List.append_assoc]

theorem genQuery_eq (G : GLang) (t : QTask) (f : QFlags) :
    genQuery G t f = (match assignAll t f with
      | .error e => .error e
      | .ok a => genFrom G t f a) := by
  have hl : ∀ a : QAssign, accStep (chronPiece G t a) = (fun (acc : List QClause) (p : QVar × Nat) =>
     let v := p.1
     let st := t.step p.2
     let afters := (a.links.filter (fun l => l.2 == v)).map (·.1)
     if afters.isEmpty then (Except.ok (acc ++ viaClauses v st.ops) : Except QErr (List QClause))
     else
       let deps := afters.eraseDups.map (fun c =>
         QClause.one ⟨.var c, (if relaxedLink t (stepOf a c) p.2 then .opt "depends" else .pred "depends"), .var v⟩)
       match subtypeOfClauses G v st.types with
       | .error e => Except.error e
       | .ok cs => .ok (acc ++ deps ++ viaClauses v st.ops ++ cs)) := by
    intro a
    funext acc p
    exact (chronStep_eq G t a acc p).symm
  unfold genQuery assignAll genFrom chronOf outClause inClause outPath inPath
  simp only [hl]
  rfl

theorem genFrom_ok {G : GLang} {t : QTask} {f : QFlags} {a : QAssign} {q : Query} (h : genFrom G t f a = .ok q) :
    ∃ pre2 outs ins chron,
      (if f.byTypes then typesClauses G t a else .ok []) = .ok pre2 ∧
      a.outs.mapM (outClause G t f a) = .ok outs ∧
      (if f.byIo then a.ins.mapM (inClause G t f a) else .ok []) = .ok ins ∧
      chronOf G t f a = .ok chron ∧
      q = { prefilter := (if f.byOperators then operatorsClauses t a else []) ++ pre2,
            body := outs.flatten ++ ins.flatten ++ chron } := by
  unfold genFrom at h
  split at h
  · cases h
  · rename_i pre2 h1
    split at h
    · cases h
    · rename_i outs h2
      split at h
      · cases h
      · rename_i ins h3
        split at h
        · cases h
        · rename_i chron h4
          simp only [Except.ok.injEq] at h
          exact ⟨pre2, outs, ins, chron, h1, h2, h3, h4, h.symm⟩

theorem genQuery_ok {G : GLang} {t : QTask} {f : QFlags} {q : Query} (h : genQuery G t f = .ok q) :
    ∃ a, assignAll t f = .ok a ∧ genFrom G t f a = .ok q := by
  rw [genQuery_eq] at h
  split at h
  · cases h
  · rename_i a ha
    exact ⟨a, ha, h⟩

/-! ## the shape of the generated triples -/

/-- the triples that `genQuery` can emit -/
inductive GenTriple (f : QFlags) (a : QAssign) : QTriple → Prop
  | containsOperation (o : String) : GenTriple f a ⟨.workflow, .pred "containsOperation", .node (.ns o)⟩
  | containsType (u : Node) : GenTriple f a ⟨.workflow, .pred "containsType", .node u⟩
  | outputFrom (v : QVar) : GenTriple f a ⟨.workflow, .outputFrom, .var v⟩
  | output (v : QVar) : GenTriple f a ⟨.workflow, .pred "output", .var v⟩
  | inputFromInv (v : QVar) : GenTriple f a ⟨.workflow, .inputFromInv, .var v⟩
  | input (v : QVar) : GenTriple f a ⟨.workflow, .pred "input", .var v⟩
  | subtypeOf (v : QVar) (u : Node) : GenTriple f a ⟨.var v, .pred "subtypeOf", .node u⟩
  | via (v : QVar) (o : String) : GenTriple f a ⟨.var v, .pred "via", .node (.ns o)⟩
  | dependsOpt (l : QVar × QVar) : f.byChronology = true → l ∈ a.links → GenTriple f a ⟨.var l.1, .opt "depends", .var l.2⟩
  | depends (l : QVar × QVar) : f.byChronology = true → l ∈ a.links → GenTriple f a ⟨.var l.1, .pred "depends", .var l.2⟩

theorem unionClause_triples {ts : List QTriple} {c : QClause} (hc : c ∈ unionClause ts) :
    ∀ tr ∈ c.triples, tr ∈ ts := by
  unfold unionClause at hc
  split at hc
  · cases hc
  · simp only [List.mem_singleton] at hc
    subst hc
    exact fun tr h => h
  · simp only [List.mem_singleton] at hc
    subst hc
    exact fun tr h => h

theorem subtypeOfClauses_shape {G : GLang} {v : QVar} {types : List Ty} {cs : List QClause}
    (h : subtypeOfClauses G v types = .ok cs) :
    ∀ c ∈ cs, ∀ tr ∈ c.triples, ∃ u, tr = ⟨.var v, .pred "subtypeOf", .node u⟩ := by
  unfold subtypeOfClauses at h
  simp only at h
  split at h
  · cases h
  · simp only [Except.ok.injEq] at h
    subst h
    intro c hc tr htr
    have := unionClause_triples hc tr htr
    simp only [List.mem_map] at this
    obtain ⟨u, _, rfl⟩ := this
    exact ⟨u, rfl⟩

theorem viaClauses_shape {v : QVar} {ops : List String} :
    ∀ c ∈ viaClauses v ops, ∀ tr ∈ c.triples, ∃ o, tr = ⟨.var v, .pred "via", .node (.ns o)⟩ := by
  intro c hc tr htr
  have := unionClause_triples hc tr htr
  simp only [List.mem_map] at this
  obtain ⟨o, _, rfl⟩ := this
  exact ⟨o, rfl⟩

theorem outClause_shape {G : GLang} {t : QTask} {f : QFlags} {a : QAssign} {v : QVar} {cs : List QClause}
    (h : outClause G t f a v = .ok cs) : ∀ c ∈ cs, ∀ tr ∈ c.triples, GenTriple f a tr := by
  unfold outClause at h
  split at h
  · cases h
  · rename_i cs' h1
    simp only [Except.ok.injEq] at h
    subst h
    intro c hc tr htr
    rcases List.mem_cons.1 hc with rfl | hc
    · simp only [QClause.triples, List.mem_singleton] at htr
      subst htr
      unfold outPath
      split
      · exact .outputFrom v
      · exact .output v
    · obtain ⟨u, rfl⟩ := subtypeOfClauses_shape h1 c hc tr htr
      exact .subtypeOf v u

theorem inClause_shape {G : GLang} {t : QTask} {f : QFlags} {a : QAssign} {v : QVar} {cs : List QClause}
    (h : inClause G t f a v = .ok cs) : ∀ c ∈ cs, ∀ tr ∈ c.triples, GenTriple f a tr := by
  unfold inClause at h
  split at h
  · cases h
  · rename_i cs' h1
    simp only [Except.ok.injEq] at h
    subst h
    intro c hc tr htr
    rcases List.mem_cons.1 hc with rfl | hc
    · simp only [QClause.triples, List.mem_singleton] at htr
      subst htr
      unfold inPath
      split
      · exact .inputFromInv v
      · exact .input v
    · obtain ⟨u, rfl⟩ := subtypeOfClauses_shape h1 c hc tr htr
      exact .subtypeOf v u

theorem mem_aftersOf {a : QAssign} {v c : QVar} : c ∈ aftersOf a v ↔ (c, v) ∈ a.links := by
  unfold aftersOf
  simp only [List.mem_map, List.mem_filter, beq_iff_eq]
  constructor
  · rintro ⟨⟨c', v'⟩, ⟨hl, hv⟩, rfl⟩
    simp only at hv
    subst hv
    exact hl
  · intro h
    exact ⟨(c, v), ⟨h, rfl⟩, rfl⟩

theorem depClauses_shape {f : QFlags} (hch : f.byChronology = true) {t : QTask} {a : QAssign} {p : QVar × Nat} :
    ∀ c ∈ depClauses t a p, ∀ tr ∈ c.triples, GenTriple f a tr := by
  intro c hc tr htr
  unfold depClauses at hc
  simp only [List.mem_map, List.mem_eraseDups, mem_aftersOf] at hc
  obtain ⟨c', hl, rfl⟩ := hc
  simp only [QClause.triples, List.mem_singleton] at htr
  subst htr
  split
  · exact .dependsOpt (c', p.1) hch hl
  · exact .depends (c', p.1) hch hl

theorem chronPiece_shape {f : QFlags} (hch : f.byChronology = true) {G : GLang} {t : QTask} {a : QAssign}
    {p : QVar × Nat} {cs : List QClause} (h : chronPiece G t a p = .ok cs) : ∀ c ∈ cs, ∀ tr ∈ c.triples, GenTriple f a tr := by
  unfold chronPiece at h
  split at h
  · simp only [Except.ok.injEq] at h
    subst h
    intro c hc tr htr
    obtain ⟨o, rfl⟩ := viaClauses_shape c hc tr htr
    exact .via _ o
  · split at h
    · cases h
    · rename_i cs' h1
      simp only [Except.ok.injEq] at h
      subst h
      intro c hc tr htr
      simp only [List.mem_append] at hc
      rcases hc with (hc | hc) | hc
      · exact depClauses_shape hch c hc tr htr
      · obtain ⟨o, rfl⟩ := viaClauses_shape c hc tr htr
        exact .via _ o
      · obtain ⟨u, rfl⟩ := subtypeOfClauses_shape h1 c hc tr htr
        exact .subtypeOf _ u

theorem operatorsClauses_shape {f : QFlags} {t : QTask} {a : QAssign} :
    ∀ c ∈ operatorsClauses t a, ∀ tr ∈ c.triples, GenTriple f a tr := by
  intro c hc tr htr
  unfold operatorsClauses at hc
  simp only [List.mem_map] at hc
  obtain ⟨o, _, rfl⟩ := hc
  simp only [QClause.triples, List.mem_singleton] at htr
  subst htr
  exact .containsOperation o

/-- one clause of `types()` -/
def typeClause (G : GLang) (ts : List Ty) : Except QErr QClause :=
  match ts.mapM (fun ty => typeUri G ty.toTerm) with
  | .error _ => Except.error QErr.nonCanonical
  | .ok [u] => .ok (.one ⟨.workflow, .pred "containsType", .node u⟩)
  | .ok us => .ok (.union (us.map (fun u => ⟨.workflow, .pred "containsType", .node u⟩)))

theorem typesClauses_eq (G : GLang) (t : QTask) (a : QAssign) :
    typesClauses G t a =
      (bagOf (leTyB G.types) (a.vars.map (fun p => (t.step p.2).types))).mapM (typeClause G) := rfl

theorem typeClause_shape {G : GLang} {ts : List Ty} {c : QClause} (h : typeClause G ts = .ok c) :
    ∀ tr ∈ c.triples, ∃ u, tr = ⟨.workflow, .pred "containsType", .node u⟩ := by
  unfold typeClause at h
  split at h
  · cases h
  · simp only [Except.ok.injEq] at h
    subst h
    intro tr htr
    simp only [QClause.triples, List.mem_singleton] at htr
    exact ⟨_, htr⟩
  · simp only [Except.ok.injEq] at h
    subst h
    intro tr htr
    simp only [QClause.triples, List.mem_map] at htr
    obtain ⟨u, _, rfl⟩ := htr
    exact ⟨u, rfl⟩

theorem genFrom_shape {G : GLang} {t : QTask} {f : QFlags} {a : QAssign} {q : Query}
    (h : genFrom G t f a = .ok q) : ∀ c ∈ q.prefilter ++ q.body, ∀ tr ∈ c.triples, GenTriple f a tr := by
  obtain ⟨pre2, outs, ins, chron, h1, h2, h3, h4, rfl⟩ := genFrom_ok h
  intro c hc tr htr
  simp only [List.mem_append, List.mem_flatten] at hc
  rcases hc with (hc | hc) | ((⟨cs, hcs, hc⟩ | ⟨cs, hcs, hc⟩) | hc)
  · split at hc
    · exact operatorsClauses_shape c hc tr htr
    · cases hc
  · split at h1
    · rw [typesClauses_eq] at h1
      obtain ⟨ts, _, hts⟩ := forall₂_right (mapM_ok _ _ _ h1) c hc
      obtain ⟨u, rfl⟩ := typeClause_shape hts tr htr
      exact .containsType u
    · simp only [Except.ok.injEq] at h1
      subst h1
      cases hc
  · obtain ⟨v, _, hv⟩ := forall₂_right (mapM_ok _ _ _ h2) cs hcs
    exact outClause_shape hv c hc tr htr
  · split at h3
    · obtain ⟨v, _, hv⟩ := forall₂_right (mapM_ok _ _ _ h3) cs hcs
      exact inClause_shape hv c hc tr htr
    · simp only [Except.ok.injEq] at h3
      subst h3
      cases hcs
  · unfold chronOf at h4
    split at h4
    · simp only [Except.ok.injEq] at h4
      subst h4
      cases hc
    · rename_i hch
      simp only [Bool.not_eq_true', Bool.not_eq_false] at hch
      obtain ⟨ps, hps, rfl⟩ := foldlM_pieces (chronPiece G t a) _ _ _ h4
      simp only [List.nil_append, List.mem_flatten] at hc
      obtain ⟨cs, hcs, hc⟩ := hc
      obtain ⟨p, _, hp⟩ := forall₂_right hps cs hcs
      exact chronPiece_shape hch hp c hc tr htr

/-! ## predicates -/

def QPath.preds : QPath → List String
  | .pred n => [n]
  | .opt n => [n]
  | .outputFrom => ["output", "from"]
  | .inputFromInv => ["input", "from"]

/-- the predicate names a query tests -/
def Query.preds (q : Query) : List String :=
  (q.prefilter ++ q.body).flatMap (fun c => c.triples.flatMap (fun tr => tr.p.preds))

theorem genTriple_preds {f : QFlags} {a : QAssign} {tr : QTriple} (h : GenTriple f a tr) :
    ∀ n ∈ tr.p.preds, n ∈ Generated.queriedPredicates := by
  cases h <;> simp [QPath.preds, Generated.queriedPredicates]

theorem queried_subset_emitted : ∀ n ∈ Generated.queriedPredicates, n ∈ Generated.emittedPredicates := by
  decide

theorem genQuery_preds {G : GLang} {t : QTask} {f : QFlags} {q : Query} (h : genQuery G t f = .ok q) :
    ∀ n ∈ q.preds, n ∈ Generated.queriedPredicates ∧ n ∈ Generated.emittedPredicates := by
  obtain ⟨a, _, hq⟩ := genQuery_ok h
  intro n hn
  unfold Query.preds at hn
  simp only [List.mem_flatMap] at hn
  obtain ⟨c, hc, tr, htr, hn⟩ := hn
  have := genTriple_preds (genFrom_shape hq c hc tr htr) n hn
  exact ⟨this, queried_subset_emitted n this⟩

end Tfv
