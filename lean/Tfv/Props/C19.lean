import Tfv.Model
import Tfv.Props.C10
import Tfv.Proofs.GraphOrder
import Tfv.Proofs.GraphExamples
/-!
# C19 — the result does not depend on iteration order (the model side)

Python iterates sets in two places that matter for the graph: the loop over the canonical supertypes of a
node's type in `add_expr` (`Language.supertypes` returns a set) and the work list of `expand_canon`. A graph
is a set of triples, so what has to be shown is that the *set* of triples — and the node table — does not
depend on the order in which the triples are emitted. Hash seeds, `id()`-based ordering and memory
allocation are outside the model: the model is a function (`C19_model_deterministic`), and the order in
which a Python set is iterated appears in it as the order of a list, which the theorems below quantify over.

`SameBut g g'` (`Tfv/Proofs/GraphAnnotate.lean`): `g'` is `g` with another list of triples, every other
component (type-node table, blank-node counter, `from`/`depends`, …) is equal.
`annotateTypeWith … sups` is `annotateType` iterating the list `sups` instead of `supsOf G ty`
(`annotateType_eq : annotateType … = annotateTypeWith … (supsOf G ty)` by `rfl`).
`annotateType` and `annotateTypeWith` have an optional last argument `ov : Option Bool` by which the caller overrides
the decision "the type is canonical" (`addExpr` uses it for a source, whose stored type may be stale: see
`Tfv/Props/C07Graph.lean`); the statements below are about the default, `C19_emission_perm_canonical_ov` is the same
statement for every override. Nothing here depends on `G.store`.
-/
namespace Tfv.C19
open Tfv Tfv.Tax Tfv.GraphEx

/-- **Emitting two triples in either order gives the same set of triples.** -/
theorem C19_add_comm (g : GState) (t1 t2 t : Triple) :
    t ∈ ((g.add t1).add t2).triples ↔ t ∈ ((g.add t2).add t1).triples :=
  add_comm_mem g t1 t2 t

example : ((({} : GState).add (.b 0, .tf "via", .ns "f")).add (.b 0, .tf "type", .ns "A")).triples
    ≠ ((({} : GState).add (.b 0, .tf "type", .ns "A")).add (.b 0, .tf "via", .ns "f")).triples := by decide

/-- the set of triples after emitting a list of triples: the old ones and the members of the list -/
theorem C19_mem_foldl_add (l : List Triple) (g : GState) (t : Triple) :
    t ∈ (l.foldl GState.add g).triples ↔ (t ∈ g.triples ∨ t ∈ l) :=
  mem_foldl_add l g t

/-- **Emitting a list of triples in another order** (any permutation) gives the same set of triples … -/
theorem C19_foldl_add_perm (l1 l2 : List Triple) (h : l1.Perm l2) (g : GState) (t : Triple) :
    t ∈ (l1.foldl GState.add g).triples ↔ t ∈ (l2.foldl GState.add g).triples :=
  foldl_add_same l1 l2 (fun _ => h.mem_iff) g t

/-- … and indeed only the *set* of emitted triples matters (repetitions are irrelevant as well); nothing but
the triple list changes -/
theorem C19_foldl_add_set (l1 l2 : List Triple) (h : ∀ t, t ∈ l1 ↔ t ∈ l2) (g : GState) :
    (∀ t, t ∈ (l1.foldl GState.add g).triples ↔ t ∈ (l2.foldl GState.add g).triples) ∧
      SameBut g (l1.foldl GState.add g) ∧ SameBut g (l2.foldl GState.add g) :=
  ⟨foldl_add_same l1 l2 h g, foldl_add_sameBut l1 g, foldl_add_sameBut l2 g⟩

example : [((.b 0 : Node), Node.tf "via", Node.ns "f"), (.b 0, .tf "type", .ns "A")].Perm
    [(.b 0, .tf "type", .ns "A"), (.b 0, .tf "via", .ns "f")] := List.Perm.swap _ _ _

/-- **The supertype loop of `add_expr` is order independent.** If every supertype in the list is registered in
the type-node table before the call (so that `add_type` is a pure lookup), then iterating any list with the same
members succeeds as well, yields the same set of triples and leaves every other component of the graph equal
(in particular the same type-node table). -/
theorem C19_emission_perm (G : GLang) (c : GCfg) (g : GState) (root : Node) (cur : Nat) (ty : Term)
    (sups1 sups2 : List Ty) (hp : sups1.Perm sups2)
    (hreg : ∀ s ∈ sups1, ∃ n, lookupType g.typeNodes s.toTerm = some n) (g1 : GState)
    (h : annotateTypeWith G c g root cur ty sups1 = .ok g1) :
    ∃ g2, annotateTypeWith G c g root cur ty sups2 = .ok g2 ∧ SameBut g1 g2 ∧
      ∀ t, t ∈ g1.triples ↔ t ∈ g2.triples :=
  annotateTypeWith_perm G c g root cur ty sups1 sups2 (fun _ => hp.mem_iff) hreg g1 h

/-- **… and the proviso holds in the default configuration**: without `with_canonical_types` the canonical
types are registered by `TransformationGraph.__init__`, every supertype the loop visits is canonical, and the
table only grows. So in every graph whose type-node table extends the initial one, `annotateType` gives the
same set of triples (and the same graph otherwise) whatever the order in which Python's set of supertypes is
iterated. -/
theorem C19_emission_perm_canonical (G : GLang) (c : GCfg) (hc : c.withCanonicalTypes = false) (g : GState)
    (l : List (Term × Node)) (hg : g.typeNodes = (initGraph G c).typeNodes ++ l) (root : Node) (cur : Nat)
    (ty : Term) (mf : Bool) (sups : List Ty) (hp : sups.Perm (supsOf G ty)) (g1 : GState)
    (h : annotateType G c g root cur ty mf = .ok g1) :
    ∃ g2, annotateTypeWith G c g root cur ty sups = .ok g2 ∧ SameBut g1 g2 ∧
      ∀ t, t ∈ g1.triples ↔ t ∈ g2.triples :=
  annotateType_perm_canonical G c hc g l hg root cur ty mf sups hp g1 h

/-- the same for every way `addExpr` calls `annotateType` (with the caller's `canonical` decision `ov`) -/
theorem C19_emission_perm_canonical_ov (G : GLang) (c : GCfg) (hc : c.withCanonicalTypes = false) (g : GState)
    (l : List (Term × Node)) (hg : g.typeNodes = (initGraph G c).typeNodes ++ l) (root : Node) (cur : Nat)
    (ty : Term) (mf : Bool) (ov : Option Bool) (sups : List Ty) (hp : sups.Perm (supsOf G ty)) (g1 : GState)
    (h : annotateType G c g root cur ty mf ov = .ok g1) :
    ∃ g2, annotateTypeWith G c g root cur ty sups ov = .ok g2 ∧ SameBut g1 g2 ∧
      ∀ t, t ∈ g1.triples ↔ t ∈ g2.triples :=
  annotateType_perm_canonical_ov G c hc g l hg root cur ty mf ov sups hp g1 h

/-- non-vacuity: a node of type `C` has the supertypes `[B, A]`; iterating `[A, B]` emits the triples in another
order -/
example : supsOf exG tmC = [tB, tA] ∧ [tA, tB].Perm (supsOf exG tmC) ∧
    ((annotateType exG {} (initGraph exG {}) GraphEx.root 0 tmC false).toOption.map (·.triples))
      = some [(.b 0, .tf "type", .ns "C"), (.b 0, .tf "subtypeOf", .ns "C"),
        (GraphEx.root, .tf "containsType", .ns "C"),
        (GraphEx.root, .tf "containsType", .ns "B"), (.b 0, .tf "subtypeOf", .ns "B"),
        (GraphEx.root, .tf "containsType", .ns "A"), (.b 0, .tf "subtypeOf", .ns "A")] ∧
    ((annotateTypeWith exG {} (initGraph exG {}) GraphEx.root 0 tmC [tA, tB]).toOption.map (·.triples))
      = some [(.b 0, .tf "type", .ns "C"), (.b 0, .tf "subtypeOf", .ns "C"),
        (GraphEx.root, .tf "containsType", .ns "C"),
        (GraphEx.root, .tf "containsType", .ns "A"), (.b 0, .tf "subtypeOf", .ns "A"),
        (GraphEx.root, .tf "containsType", .ns "B"), (.b 0, .tf "subtypeOf", .ns "B")] :=
  ⟨rfl, List.Perm.swap _ _ _, annC_triples, by decide +kernel⟩

/-- **The proviso matters for the node table as a list**: with `with_canonical_types` nothing is pre-registered,
the supertypes are registered in the order of the loop, and the two orders give different type-node tables
(here the same entries in another order; the triples are the same set). -/
theorem C19_registration_order_visible :
    ((annotateTypeWith exG { withCanonicalTypes := true } (initGraph exG { withCanonicalTypes := true })
        GraphEx.root 0 tmC [tB, tA]).toOption.map (fun g => g.typeNodes.map (·.2)))
      = some [.ns "C", .ns "B", .ns "A"] ∧
    ((annotateTypeWith exG { withCanonicalTypes := true } (initGraph exG { withCanonicalTypes := true })
        GraphEx.root 0 tmC [tA, tB]).toOption.map (fun g => g.typeNodes.map (·.2)))
      = some [.ns "C", .ns "A", .ns "B"] :=
  ⟨by decide +kernel, by decide +kernel⟩

/-- **The canon does not depend on the order in which the work list is processed**: two terminated runs of
`expand_canon` whose start sets have the same members return sets with the same members. -/
theorem C19_worklist {L : Lang} {c : CanonCfg} {n1 n2 : Nat} {stack1 canon1 stack2 canon2 : List Ty}
    (t1 : Terminates L c n1 stack1 canon1) (t2 : Terminates L c n2 stack2 canon2)
    (i1 : WorkInv L c stack1 canon1) (i2 : WorkInv L c stack2 canon2)
    (hsame : ∀ t, (t ∈ stack1 ∨ t ∈ canon1) ↔ (t ∈ stack2 ∨ t ∈ canon2)) (t : Ty) :
    t ∈ expandCanon L c n1 stack1 canon1 ↔ t ∈ expandCanon L c n2 stack2 canon2 :=
  C10.C10_expandCanon_order_irrelevant t1 t2 i1 i2 hsame t

/-- for `Language.__init__`: the order (and multiplicity) of the listed canonical types is irrelevant -/
theorem C19_worklist_mkCanon {L : Lang} {c : CanonCfg} {l1 l2 : List Ty}
    (t1 : Terminates L c canonFuel (initOf l1) (initOf l1))
    (t2 : Terminates L c canonFuel (initOf l2) (initOf l2))
    (hsame : ∀ t, t ∈ l1 ↔ t ∈ l2) (t : Ty) : t ∈ mkCanon L c l1 ↔ t ∈ mkCanon L c l2 :=
  C10.C10_mkCanon_order_irrelevant t1 t2 hsame t

example : Terminates C10Ex.exL C10Ex.cfg0 canonFuel (initOf [C10Ex.tA, C10Ex.tF C10Ex.tA])
      (initOf [C10Ex.tA, C10Ex.tF C10Ex.tA]) ∧
    Terminates C10Ex.exL C10Ex.cfg0 canonFuel (initOf [C10Ex.tF C10Ex.tA, C10Ex.tA])
      (initOf [C10Ex.tF C10Ex.tA, C10Ex.tA]) := ⟨C10Ex.termA, C10Ex.termA'⟩

/-- **The model is a function**: two runs of `addExpr` on equal inputs give equal outputs. Whatever makes two
Python runs differ (hash seed, allocation addresses used by `id()`, dictionary history) is therefore not an input
of the model; its only effect on the modelled computation is an iteration order, covered by the theorems above. -/
theorem C19_model_deterministic (G : GLang) (c : GCfg) (root : Node) (origin : Option Node) (g1 g2 : GState)
    (e1 e2 : TExpr) (cur : Option Nat) (inter : Bool) (hg : g1 = g2) (he : e1 = e2) :
    addExpr G c root origin g1 e1 cur inter = addExpr G c root origin g2 e2 cur inter := by
  rw [hg, he]

end Tfv.C19
