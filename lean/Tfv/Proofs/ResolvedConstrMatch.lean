import Tfv.Proofs.ResolvedConstrDefs
import Tfv.Proofs.Fits
/-!
# `match3` on resolved terms is exact

If both terms resolve to closed types (no deeper than the fuel), `match3` answers `some` of what `matchC`
says about the two closed types, whatever the wildcard flags are.
-/
namespace Tfv.C03R
open Tfv Tfv.C03P Tfv.C03C Tfv.C16P Tfv.C17E

theorem bool_not_beq (p v : Bool) : ((!p) == v) = !(p == v) := by cases p <;> cases v <;> rfl

mutual
theorem matchC_swap (L : Lang) (st : Bool) : ∀ (pol : Bool) (x y : Ty),
    matchC L st pol x y = matchC L st (!pol) y x
  | pol, .app a as, .app b bs => by
    rw [matchC, matchC]
    cases pol
    · simp only [Bool.false_eq_true, if_false, Bool.not_false, if_true]
      rw [matchCs_swap L st false (varianceOf L b) as bs]
      rfl
    · simp only [Bool.false_eq_true, if_false, Bool.not_true, if_true]
      rw [matchCs_swap L st true (varianceOf L a) as bs]
      rfl
theorem matchCs_swap (L : Lang) (st : Bool) : ∀ (pol : Bool) (vs : List Bool) (xs ys : List Ty),
    matchCs L st pol vs xs ys = matchCs L st (!pol) vs ys xs
  | pol, [], xs, ys => by simp [matchCs]
  | pol, _ :: _, [], ys => by cases ys <;> simp [matchCs]
  | pol, _ :: _, _ :: _, [] => by simp [matchCs]
  | pol, v :: vs, x :: xs, y :: ys => by
    rw [matchCs, matchCs, matchC_swap L st (pol == v) x y, matchCs_swap L st pol vs xs ys, bool_not_beq]
end

theorem loop_res (L : Lang) (σ : Store) (n : Nat) (st aw : Bool)
    (ih : ∀ a b τa τb, Res σ a τa → Res σ b τb → Ty.depth τa < n → Ty.depth τb < n →
      match3 L σ n st aw a b = some (matchC L st true τa τb)) :
    ∀ (vs : List Bool) (ss ts : List Term) (τss τts : List Ty) (acc : Bool),
      ResL σ ss τss → ResL σ ts τts → Ty.depthL τss ≤ n → Ty.depthL τts ≤ n →
      match3.loop L σ n st aw vs ss ts (some acc) = some (matchCs L st true vs τss τts && acc)
  | [], ss, ts, τss, τts, acc, _, _, _, _ => by
    rw [loop_not_cons]
    · simp [matchCs]
    · rintro ⟨_, _, _, _, _, _, h, _, _⟩; cases h
  | v :: vs, [], ts, τss, τts, acc, hs, _, _, _ => by
    rw [resL_nil_left] at hs; subst hs
    rw [loop_not_cons]
    · simp [matchCs]
    · rintro ⟨_, _, _, _, _, _, _, h, _⟩; cases h
  | v :: vs, s :: ss, [], τss, τts, acc, _, ht, _, _ => by
    rw [resL_nil_left] at ht; subst ht
    rw [loop_not_cons]
    · cases τss <;> simp [matchCs]
    · rintro ⟨_, _, _, _, _, _, _, _, h⟩; cases h
  | v :: vs, s :: ss, t :: ts, [], τts, acc, hs, _, _, _ => by
    rw [resL_nil_right] at hs; cases hs
  | v :: vs, s :: ss, t :: ts, τs :: τss, [], acc, _, ht, _, _ => by
    rw [resL_nil_right] at ht; cases ht
  | v :: vs, s :: ss, t :: ts, τs :: τss, τt :: τts, acc, hs, ht, ds, dt => by
    rw [resL_cons] at hs ht
    obtain ⟨ds1, ds2⟩ := depthL_cons_le ds
    obtain ⟨dt1, dt2⟩ := depthL_cons_le dt
    have rest := loop_res L σ n st aw ih vs ss ts τss τts acc hs.2 ht.2 ds2 dt2
    rw [match3.loop.eq_1, matchCs_cons]
    cases v with
    | true =>
      simp only [if_true]
      rw [ih s t τs τt hs.1 ht.1 ds1 dt1]
      cases hm : matchC L st true τs τt with
      | false => simp [hm]
      | true => simp [hm, rest]
    | false =>
      simp only [Bool.false_eq_true, if_false]
      rw [ih t s τt τs ht.1 hs.1 dt1 ds1]
      have hsw : matchC L st (true == false) τs τt = matchC L st true τt τs := by
        rw [matchC_swap]; rfl
      rw [hsw]
      cases hm : matchC L st true τt τs with
      | false => simp
      | true => simp [rest]

/-- `match3` on two resolved terms: the exact answer -/
theorem match3_res (L : Lang) (σ : Store) : ∀ (n : Nat) (st aw : Bool) (a b : Term) (τa τb : Ty),
    Res σ a τa → Res σ b τb → Ty.depth τa < n → Ty.depth τb < n →
    match3 L σ n st aw a b = some (matchC L st true τa τb)
  | 0, _, _, _, _, _, _, _, _, h, _ => by cases h
  | n+1, st, aw, a, b, .app ao τas, .app bo τbs, ha, hb, da, db => by
    rw [res_app] at ha hb
    obtain ⟨as, ea, hal⟩ := ha
    obtain ⟨bs, eb, hbl⟩ := hb
    rw [Ty.depth] at da db
    have hloop := loop_res L σ n st aw (fun a b τa τb => match3_res L σ n st aw a b τa τb)
      (varianceOf L ao) as bs τas τbs true hal hbl (by omega) (by omega)
    rw [match3, ea, eb]
    simp only []
    rw [matchC]
    simp only [if_true]
    split
    · rfl
    · split
      · rfl
      · split
        · rfl
        · rw [hloop, Bool.and_true]

end Tfv.C03R
