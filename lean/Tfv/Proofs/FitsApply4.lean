import Tfv.Proofs.FitsApply3
/-!
# C06 end to end, part 4: a second argument for the same variable (`x ** x ** r(x) [x << alts]`), kernel-evaluated runs
-/
namespace Tfv.C06A
open Tfv Tfv.C03P Tfv.C03C Tfv.C16P Tfv.C17E Tfv.C03R

theorem runAll_cons (L : Lang) (n : Nat) (fixFlag : Bool) (s : Schema) (x : Term) (xs : List Term) :
    runAll L n fixFlag s (x :: xs) =
      (match runAll L n fixFlag s [x] with
       | .error e => .error e
       | .ok (σ1, f1) => applyAll L n fixFlag σ1 f1 xs) := by
  unfold runAll
  cases instantiate L n {} s with
  | error e => rfl
  | ok p =>
    simp only []
    rw [applyAll, applyAll]
    cases applyT L n p.1 p.2 x fixFlag with
    | error e => rfl
    | ok q => simp only []; rw [applyAll]

theorem unify_var_bound (L : Lang) (m : Nat) (σ : Store) (ao : Nat) (as : List Term) (v bo : Nat) (bs : List Term)
    (st sb sw : Bool) (hb : (getVar σ v).bound = some (.app bo bs)) :
    unify L (m+1) σ (.app ao as) (.var v) st sb sw = unify L (m+1) σ (.app ao as) (.app bo bs) st sb sw := by
  have hf : followT σ (.var v) = .app bo bs := by
    unfold followT
    rw [follow]
    simp only [hb]
    cases σ.vars.length <;> rw [follow] <;> intros <;> contradiction
  rw [unify, unify, hf, Tfv.followT_app, Tfv.followT_app]

/-- the second application: `x` is already bound to `a1`; a concrete argument `a2 ≤ a1` is accepted, nothing changes -/
theorem applyT_second (L : Lang) (N : Nat) (σ1 : Store) (r : Term) (a1 a2 : Ty) (fixFlag : Bool)
    (hb : (getVar σ1 0).bound = some a1.toTerm) (hs : sub L a2 a1 = true) (hN : 2 * Ty.size a2 ≤ N) :
    applyT L N σ1 (.app FUN [.var 0, r]) a2.toTerm fixFlag =
      (if fixFlag && !isFunT r then fix L N σ1 r true else .ok (σ1, r)) := by
  have hS := size_pos a2
  obtain ⟨m, rfl⟩ : ∃ m, N = m + 1 := ⟨N - 1, by omega⟩
  have hu : unify L (m+1) σ1 a2.toTerm (.var 0) true false false = .ok σ1 := by
    have := unify_toTerm_ok (L := L) (n := m+1) σ1 a2 a1 hN hs
    cases a1 with
    | app bo bs =>
    cases a2 with
    | app ao as =>
      rw [Tfv.toTerm_app] at hb this ⊢
      rw [Tfv.toTerm_app] at this
      rw [unify_var_bound L m σ1 ao _ 0 bo _ true false false hb]
      exact this
  unfold applyT
  rw [Tfv.followT_app, followT_toTerm]
  simp only [beq_self_eq_true, if_true]
  rw [hu]
  simp only []
  cases r <;> rfl

/-- **two arguments for the same constrained variable**, compound arguments: if the first argument fits some alternative
and the second is a subtype of the FIRST ARGUMENT, the application is accepted and the store is the one after the first
argument -/
theorem runAll_two_compound (L : Lang) (wf : WF L) (N : Nat) (r : Term) (ts : List Ty) (ao : Nat) (as : List Ty)
    (a2 : Ty) (fixFlag : Bool) (h0 : arityOf L ao ≠ 0) (ha : antichain L ts = true) (h2 : 2 ≤ ts.length)
    (hd : ∀ t ∈ ts, Ty.depth t < 64) (hda : Ty.depth (.app ao as) < 64)
    (hs : sub L a2 (.app ao as) = true)
    (hN : fuelFor (.app FUN [.var 0, r]) ts (.app ao as) + 2 * (tsz r * Ty.size (.app ao as)) + 2 * Ty.size a2 ≤ N) :
    runAll L N fixFlag (elimSchema (.app FUN [.var 0, r]) ts) [(Ty.app ao as).toTerm, a2.toTerm] =
      (match afterC (.app ao as) (ts.filter (fun t => sub L (.app ao as) t)) with
       | .error e => .error e
       | .ok σ1 => .ok (σ1, if fixFlag && !isFunT r then resTerm σ1 r else r)) := by
  rw [runAll_cons, runAll_compound L wf N _ ts ao as fixFlag h0 ha h2 hd hda (by omega)]
  cases hc : afterC (.app ao as) (ts.filter (fun t => sub L (.app ao as) t)) with
  | error e => rfl
  | ok σ1 =>
    have hb : (getVar σ1 0).bound = some (Ty.app ao as).toTerm := by
      match hk : ts.filter (fun t => sub L (.app ao as) t), hc with
      | [t], hc => injection hc with hc; subst hc; rfl
      | t1 :: t2 :: rest, hc => injection hc with hc; subst hc; rfl
      | [], hc => cases hc
    have e1 : isFunT (.app FUN [.var 0, r]) = true := rfl
    simp only [e1, Bool.not_true, Bool.and_false, Bool.false_eq_true, if_false]
    rw [applyAll, applyT_second L N σ1 r _ a2 fixFlag hb hs (by omega)]
    cases hfx : (fixFlag && !isFunT r)
    · simp only [Bool.false_eq_true, if_false]; rw [applyAll]
    · simp only [if_true]
      rw [fix_inert (afterC_inert hc) _ r true (by omega)]
      simp only []
      rw [applyAll]

/-! ## kernel evaluation of whole runs -/

def runAllK (L : Lang) (n : Nat) (fixFlag : Bool) (s : Schema) (xs : List Term) : Except Err (Store × Term) :=
  match instK L n {} s with
  | .error e => .error e
  | .ok (σ, f) => applyAllK L n fixFlag σ f xs

theorem runAll_eq_K (L : Lang) (n : Nat) (fixFlag : Bool) (s : Schema) (xs : List Term) :
    runAll L n fixFlag s xs = runAllK L n fixFlag s xs := by
  unfold runAll runAllK
  rw [instantiate_eq_K]
  cases instK L n {} s with
  | error e => rfl
  | ok p => exact applyAll_eq_K L n fixFlag xs p.1 p.2

/-- the run fails with exactly this error -/
def failsWith (r : Except Err (Store × Term)) (e : Err) : Bool :=
  match r with
  | .error e' => e' == e
  | .ok _ => false

theorem failsWith_iff {r : Except Err (Store × Term)} {e : Err} : failsWith r e = true ↔ r = .error e := by
  unfold failsWith
  cases r with
  | error e' => simp
  | ok p => simp

/-- the run succeeds and the final store and result pass the test -/
def succeedsWith (r : Except Err (Store × Term)) (f : Store → Term → Bool) : Bool :=
  match r with
  | .error _ => false
  | .ok (σ, t) => f σ t

theorem succeedsWith_iff {r : Except Err (Store × Term)} {f : Store → Term → Bool} :
    succeedsWith r f = true ↔ ∃ σ t, r = .ok (σ, t) ∧ f σ t = true := by
  unfold succeedsWith
  cases r with
  | error e => simp
  | ok p =>
    obtain ⟨σ, t⟩ := p
    constructor
    · intro h; exact ⟨σ, t, rfl, h⟩
    · rintro ⟨σ', t', e, h⟩
      injection e with e
      injection e with e1 e2
      subst e1; subst e2; exact h

end Tfv.C06A
