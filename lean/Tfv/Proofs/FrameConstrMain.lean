import Tfv.Proofs.FrameConstrEngine
import Tfv.Proofs.FrameMain
import Tfv.Proofs.InferConstrApply
/-!
# Frame lemmas for the inference engine WITH pending constraints (C16), part 3

* `applyT`, chains of applications, `addConstraint(s)`, `instantiate` stay inside a closed region;
* the region of the not-yet-allocated is closed in every store: instantiating a schema WITH constraints touches
  nothing that exists and returns a term over new variables;
* on a store satisfying `OkStoreC` the region reachable from a term (through bindings and constraints) is closed:
  the frame theorems in terms of `ReachC`;
* what was not touched means what it meant before.
-/
namespace Tfv.C16C
open Tfv Tfv.C03P Tfv.C16P Tfv.C03C

/-! ## 1. `applyT` -/

theorem applyPre_frC {L : Lang} {n : Nat} {R : Region} {σ σ1 : Store} {f0 f1 : Term}
    (hc : ClosedC σ R) (hf : TermInR σ R.S f0) (h : applyPre L n σ f0 = .ok (σ1, f1)) :
    FrC R σ σ1 ∧ TermInR σ1 R.S f1 := by
  cases f0 with
  | app o args =>
    simp only [applyPre] at h
    injection h with h
    injection h with h1 h2
    subst h1; subst h2
    exact ⟨FrC.refl hc, hf⟩
  | var fv =>
    simp only [applyPre] at h
    split at h
    · cases h
    · next σ3 hb =>
      injection h with h
      injection h with h1 h2
      subst h1; subst h2
      have fA := frC_newVar hc false
      have fB := frC_newVar fA.closed false
      have fAB := fA.trans fB
      have hterm : TermInR (newVar (newVar σ).1).1 R.S (.app FUN [.var (newVar σ).2, .var (newVar (newVar σ).1).2]) := by
        refine termInR_app.mpr (termsInR_cons.mpr ⟨termInR_var.mpr ⟨hc.sfr _ ?_, ?_⟩,
          termsInR_cons.mpr ⟨termInR_var.mpr ⟨hc.sfr _ ?_, ?_⟩, termsInR_nil⟩⟩)
        · rw [snd_newVar]; exact Nat.le_refl _
        · simp only [snd_newVar, length_newVar]; omega
        · simp only [snd_newVar, length_newVar]; omega
        · simp only [snd_newVar, length_newVar]; omega
      have f := (all_frameC L n).2.2.1 R _ fv _ σ3 fB.closed (fAB.ins (termInR_var.mp hf)) hterm hb
      have fT := fAB.trans f
      exact ⟨fT, followT_inR f.closed (fT.tin hf)⟩

theorem applyPost_frC {L : Lang} {n : Nat} {R : Region} {σ σ' : Store} {x0 f1 r : Term} {fixFlag : Bool}
    (hc : ClosedC σ R) (hf : TermInR σ R.S f1) (hx : TermInR σ R.S x0)
    (h : applyPost L n σ x0 f1 fixFlag = .ok (σ', r)) : FrC R σ σ' ∧ TermInR σ' R.S r := by
  unfold applyPost at h
  split at h
  · next o l r0 =>
    have hargs := termInR_app.mp hf
    obtain ⟨hl, hr0⟩ := termsInR_cons.mp hargs
    obtain ⟨hr0, _⟩ := termsInR_cons.mp hr0
    split at h
    · split at h
      · cases h
      · next σ1 hu =>
        have f1 := (all_frameC L n).1 R σ x0 l true false false σ1 hc hx hl hu
        split at h
        · obtain ⟨f2, hr⟩ := (all_frameC L n).2.2.2.2.2.1 R σ1 r0 true σ' r f1.closed (f1.tin hr0) h
          exact ⟨f1.trans f2, hr⟩
        · injection h with h
          injection h with h1 h2
          subst h1; subst h2
          exact ⟨f1, f1.tin hr0⟩
    · split at h
      · injection h with h
        injection h with h1 h2
        subst h1; subst h2
        exact ⟨FrC.refl hc, termInR_base _⟩
      · cases h
  · split at h
    · injection h with h
      injection h with h1 h2
      subst h1; subst h2
      exact ⟨FrC.refl hc, termInR_base _⟩
    · cases h
  · cases h

theorem applyT_frC {L : Lang} {n : Nat} {R : Region} {σ σ' : Store} {f x r : Term} {fixFlag : Bool}
    (hc : ClosedC σ R) (hf : TermInR σ R.S f) (hx : TermInR σ R.S x)
    (h : applyT L n σ f x fixFlag = .ok (σ', r)) : FrC R σ σ' ∧ TermInR σ' R.S r := by
  rw [applyT_eq] at h
  split at h
  · cases h
  · next σ1 f1 hpre =>
    obtain ⟨fr1, hf1⟩ := applyPre_frC hc (followT_inR hc hf) hpre
    obtain ⟨fr2, hr⟩ := applyPost_frC fr1.closed hf1 (fr1.tin (followT_inR hc hx)) h
    exact ⟨fr1.trans fr2, hr⟩

theorem applyAll_frC {L : Lang} (n : Nat) (fixFlag : Bool) {R : Region} :
    ∀ (xs : List Term) (σ σ' : Store) (f r : Term), ClosedC σ R → TermInR σ R.S f → TermsInR σ R.S xs →
    applyAll L n fixFlag σ f xs = .ok (σ', r) → FrC R σ σ' ∧ TermInR σ' R.S r
  | [], σ, σ', f, r, hc, hf, _, h => by
    unfold applyAll at h
    injection h with h
    injection h with h1 h2
    subst h1; subst h2
    exact ⟨FrC.refl hc, hf⟩
  | x :: xs, σ, σ', f, r, hc, hf, hxs, h => by
    unfold applyAll at h
    obtain ⟨hx, hxs'⟩ := termsInR_cons.mp hxs
    split at h
    · cases h
    · next σ1 r1 h1 =>
      obtain ⟨f1, hr1⟩ := applyT_frC hc hf hx h1
      obtain ⟨f2, hr⟩ := applyAll_frC n fixFlag xs σ1 σ' r1 r f1.closed hr1 (f1.tins hxs') h
      exact ⟨f1.trans f2, hr⟩

/-! ## 2. registering a constraint -/

theorem foldl_directVars_in {σ : Store} {R : Region} (hc : ClosedC σ R) (m : Nat) :
    ∀ (ts : List Term) (acc : List Nat), TermsInR σ R.S ts → (∀ x, x ∈ acc → InStore σ R.S x) →
      ∀ x, x ∈ ts.foldl (fun acc t => directVars σ m t acc) acc → InStore σ R.S x
  | [], _, _, hacc => hacc
  | t :: ts, acc, hts, hacc => by
    simp only [List.foldl_cons]
    exact foldl_directVars_in hc m ts _ (termsInR_cons.mp hts).2
      (directVars_in hc.closed m t acc (termsInR_cons.mp hts).1 hacc)

theorem foldl_constrVars_in {σ : Store} {R : Region} (hc : ClosedC σ R) (m : Nat) :
    ∀ (cs : List Nat) (acc : List Nat), (∀ c, c ∈ cs → R.C c ∧ c < σ.constrs.length) →
      (∀ x, x ∈ acc → InStore σ R.S x) →
      ∀ x, x ∈ cs.foldl (fun acc c =>
        (constrTerms (getConstr σ c)).foldl (fun acc t => directVars σ m t acc) acc) acc → InStore σ R.S x
  | [], _, _, hacc => hacc
  | c :: cs, acc, hcs, hacc => by
    simp only [List.foldl_cons]
    have hcc := hcs c List.mem_cons_self
    exact foldl_constrVars_in hc m cs _ (fun d hd => hcs d (List.mem_cons_of_mem _ hd))
      (foldl_directVars_in hc m _ acc (fun u hu => hc.ctm c u hcc.2 hcc.1 hu) hacc)

theorem indirectVars_in {σ : Store} {R : Region} (hc : ClosedC σ R) :
    ∀ (n : Nat) (work seen : List Nat), (∀ x, x ∈ work → InStore σ R.S x) →
      (∀ x, x ∈ seen → InStore σ R.S x) → ∀ x, x ∈ indirectVars σ n work seen → InStore σ R.S x
  | 0, _, _, _, hseen => by unfold indirectVars; exact hseen
  | n+1, [], _, _, hseen => by unfold indirectVars; exact hseen
  | n+1, v :: work, seen, hwork, hseen => by
    unfold indirectVars
    simp only []
    have hv := hwork v List.mem_cons_self
    have hk := hc.cs v hv.2 hv.1
    have hfound := foldl_constrVars_in hc (termFuel σ) (getCset σ (getVar σ v).cset) seen
      (fun c hm => hc.mem _ c hk hm) hseen
    refine indirectVars_in hc n _ _ (fun x hx => ?_) hfound
    rcases List.mem_append.mp hx with h1 | h1
    · exact hwork x (List.mem_cons_of_mem _ h1)
    · exact hfound x (List.mem_filter.mp h1).1

theorem varsOfTerms_in {σ : Store} {R : Region} (hc : ClosedC σ R) {ts : List Term}
    (hts : TermsInR σ R.S ts) : ∀ x, x ∈ varsOfTerms σ ts → InStore σ R.S x := by
  unfold varsOfTerms
  simp only []
  have hd := foldl_directVars_in hc (termFuel σ) ts [] hts (fun x hx => nomatch hx)
  exact indirectVars_in hc _ _ _ hd hd

theorem frC_regStore {R : Region} {σ : Store} (hc : ClosedC σ R) {x : Constr}
    (hx : TermsInR σ R.S (constrTerms x)) :
    FrC R σ (regStore σ x) ∧ (regStore σ x).constrs.length = σ.constrs.length + 1 := by
  have hlen : (regStore σ x).constrs.length = σ.constrs.length + 1 := by
    unfold regStore; simp
  refine ⟨⟨Nat.le_refl _, Nat.le_refl _, by omega, fun _ _ => rfl, fun _ _ => rfl, fun c hC => ?_,
    ⟨hc.bnd, hc.cs, fun k c hk hm => ?_, fun c u hlt hC hu => ?_, hc.sfr, hc.kfr, fun c hlt => ?_⟩⟩, hlen⟩
  · apply getConstr_regStore_lt
    apply Nat.lt_of_not_le
    intro h; exact hC (hc.cfr c h)
  · have := hc.mem k c hk hm
    exact ⟨this.1, by rw [hlen]; omega⟩
  · rw [hlen] at hlt
    by_cases e : c < σ.constrs.length
    · rw [getConstr_regStore_lt e] at hu
      exact hc.ctm c u e hC hu
    · have e2 : c = σ.constrs.length := by omega
      subst e2
      rw [getConstr_regStore_eq] at hu
      exact hx u hu
  · rw [hlen] at hlt; exact hc.cfr c (by omega)

theorem frC_informStore {R : Region} (id : Nat) (hid : R.C id) : ∀ (vars : List Nat) (σ : Store),
    ClosedC σ R → id < σ.constrs.length → (∀ x, x ∈ vars → InStore σ R.S x) →
    FrC R σ (informStore id vars σ) ∧ (informStore id vars σ).constrs.length = σ.constrs.length
  | [], _, hc, _, _ => ⟨FrC.refl hc, rfl⟩
  | v :: vars, σ, hc, hlt, hvars => by
    have hv := hvars v List.mem_cons_self
    have hk := hc.cs v hv.2 hv.1
    have f1 : FrC R σ (setCset σ (getVar σ v).cset (insertSorted id (getCset σ (getVar σ v).cset))) :=
      frC_setCset hc hk (fun c hm => by
        rcases mem_insertSorted hm with h1 | h1
        · rw [h1]; exact ⟨hid, hlt⟩
        · exact hc.mem _ c hk h1)
    obtain ⟨f2, h2⟩ := frC_informStore id hid vars _ f1.closed hlt
      (fun x hx => f1.ins (hvars x (List.mem_cons_of_mem _ hx)))
    unfold informStore
    simp only [List.foldl_cons]
    exact ⟨f1.trans f2, h2⟩

theorem termsInR_normC {σ : Store} {R : Region} (hc : ClosedC σ R) {c : Constr}
    (h : TermsInR σ R.S (constrTerms c)) : TermsInR σ R.S (constrTerms (normC σ c)) := by
  cases c with
  | sub r t s f =>
    rw [constrTerms_sub] at h
    obtain ⟨h1, h2⟩ := termsInR_cons.mp h
    obtain ⟨h2, _⟩ := termsInR_cons.mp h2
    unfold normC
    exact termsInR_sub s f (followT_inR hc h1) (followT_inR hc h2)
  | elim r alts f =>
    rw [constrTerms_elim] at h
    obtain ⟨h1, h2⟩ := termsInR_cons.mp h
    unfold normC
    exact termsInR_elim f h1 (termsInR_map_followT hc h2)

theorem addConstraint_frC {L : Lang} {n : Nat} {R : Region} {σ σ' : Store} {c : Constr}
    (hc : ClosedC σ R) (hterms : TermsInR σ R.S (constrTerms c))
    (h : addConstraint L n σ c = .ok σ') : FrC R σ σ' := by
  rw [addConstraint_eq] at h
  simp only [] at h
  split at h
  · cases h
  · split at h
    · cases h
    · next σ1 d h1 =>
      injection h with h; subst h
      have hid : R.C σ.constrs.length := hc.cfr _ (Nat.le_refl _)
      have hn := termsInR_normC hc hterms
      obtain ⟨f1, hl1⟩ := frC_regStore hc hn
      have hlt : σ.constrs.length < (regStore σ (normC σ c)).constrs.length := by rw [hl1]; omega
      obtain ⟨f2, hl2⟩ := frC_informStore σ.constrs.length hid
        (varsOfTerms (regStore σ (normC σ c)) (constrTerms (normC σ c))) _ f1.closed hlt
        (varsOfTerms_in f1.closed (f1.tins hn))
      have f3 := (all_frameC L n).2.2.2.2.2.2.2.2.2.1 R _ _ σ1 d f2.closed hid (by rw [hl2]; exact hlt) h1
      exact f1.trans (f2.trans f3)

/-! ## 3. the constraints of a schema, `instantiate` -/

theorem termInR_shift {L : Lang} {σ : Store} {S : Nat → Prop} {k base : Nat} (hS : ∀ v, base ≤ v → S v)
    (hb : base + k ≤ σ.vars.length) {t : Term} (ht : okTermN L k t = true) : TermInR σ S (t.shift base) := by
  intro v hv
  obtain ⟨w, hw, e⟩ := varIn_shift _ hv
  have := varIn_okTermN _ ht hw
  exact ⟨hS v (by omega), by omega⟩

theorem termsInR_shiftL {L : Lang} {σ : Store} {S : Nat → Prop} {k base : Nat} (hS : ∀ v, base ≤ v → S v)
    (hb : base + k ≤ σ.vars.length) {ts : List Term} (hts : okTermNL L k ts = true) :
    TermsInR σ S (Term.shiftL base ts) := by
  intro u hu v hv
  obtain ⟨w, t, ht, hw, e⟩ := varIn_shiftL ts u hu hv
  have := varIn_okTermNL ts hts t ht hw
  exact ⟨hS v (by omega), by omega⟩

theorem addConstraints_frC {L : Lang} (n : Nat) (base k : Nat) {R : Region} (hS : ∀ v, base ≤ v → R.S v) :
    ∀ (cs : List CAst) (σ σ' : Store), ClosedC σ R → base + k ≤ σ.vars.length →
    (∀ c, c ∈ cs → okCAstN L k c = true) → addConstraints L n base σ cs = .ok σ' → FrC R σ σ'
  | [], σ, σ', hc, _, _, h => by
    unfold addConstraints at h
    injection h with h; subst h; exact FrC.refl hc
  | c :: cs, σ, σ', hc, hb, hcs, h => by
    unfold addConstraints at h
    simp only [] at h
    split at h
    · cases h
    · next σ1 h1 =>
      have hcc := hcs c List.mem_cons_self
      have tail : ∀ c', TermsInR σ R.S (constrTerms c') → addConstraint L n σ c' = .ok σ1 → FrC R σ σ' :=
        fun c' hterms h1' => by
          have f1 := addConstraint_frC hc hterms h1'
          exact f1.trans (addConstraints_frC n base k hS cs σ1 σ' f1.closed (Nat.le_trans hb f1.len)
            (fun c'' hc' => hcs c'' (List.mem_cons_of_mem _ hc')) h)
      cases c with
      | sub r t s =>
        unfold okCAstN at hcc
        rw [Bool.and_eq_true] at hcc
        exact tail _ (termsInR_sub s false (termInR_shift hS hb hcc.1) (termInR_shift hS hb hcc.2)) h1
      | elim r alts =>
        unfold okCAstN at hcc
        rw [Bool.and_eq_true] at hcc
        exact tail _ (termsInR_elim false (followT_inR hc (termInR_shift hS hb hcc.1))
          (termsInR_shiftL hS hb hcc.2)) h1

theorem frC_foldl_newVar {R : Region} {α : Type} (wc : Bool) : ∀ (l : List α) (σ : Store), ClosedC σ R →
    FrC R σ (l.foldl (fun σ _ => (newVar σ wc).1) σ) ∧
    (l.foldl (fun σ _ => (newVar σ wc).1) σ).vars.length = σ.vars.length + l.length
  | [], _, hc => ⟨FrC.refl hc, rfl⟩
  | _ :: l, σ, hc => by
    have f1 := frC_newVar hc wc
    obtain ⟨f2, hl⟩ := frC_foldl_newVar wc l (newVar σ wc).1 f1.closed
    refine ⟨f1.trans f2, ?_⟩
    simp only [List.foldl_cons, List.length_cons]
    rw [hl, length_newVar]; omega

theorem frC_allocVars {R : Region} {σ : Store} (hc : ClosedC σ R) (nvars nwild : Nat) :
    FrC R σ (allocVars σ nvars nwild) ∧
    (allocVars σ nvars nwild).vars.length = σ.vars.length + nvars + nwild := by
  unfold allocVars
  simp only []
  obtain ⟨f1, h1⟩ := frC_foldl_newVar (R := R) false (List.range nvars) σ hc
  obtain ⟨f2, h2⟩ := frC_foldl_newVar (R := R) true (List.range nwild) _ f1.closed
  refine ⟨f1.trans f2, ?_⟩
  rw [h2, h1, List.length_range, List.length_range]

theorem spineFollow_inR {σ : Store} {R : Region} (hc : ClosedC σ R) (t : Term)
    (ht : TermInR σ R.S t) : TermInR σ R.S (spineFollow σ t) := by
  fun_induction spineFollow σ t with
  | case1 o l r ho ih =>
    obtain ⟨hl, h4⟩ := termsInR_cons.mp (termInR_app.mp ht)
    obtain ⟨hr, h5⟩ := termsInR_cons.mp h4
    refine termInR_app.mpr (termsInR_cons.mpr ⟨?_, termsInR_cons.mpr ⟨ih hr, h5⟩⟩)
    cases l with
    | var v => exact followT_inR hc hl
    | app p args => exact hl
  | case2 => exact ht
  | case3 v => exact followT_inR hc ht
  | case4 => exact ht

/-- instantiating a schema with constraints inside a closed region that contains everything not yet allocated -/
theorem instantiate_frC {L : Lang} {n : Nat} {R : Region} {σ σ' : Store} {s : Schema} {f : Term}
    (hc : ClosedC σ R)
    (hcs : ∀ c, c ∈ s.constraints → okCAstN L (s.nvars + s.nwild) c = true)
    (hbody : okTermN L (s.nvars + s.nwild) s.body = true)
    (h : instantiate L n σ s = .ok (σ', f)) :
    FrC R σ σ' ∧ TermInR σ' R.S f ∧ σ.vars.length + s.nvars + s.nwild ≤ σ'.vars.length := by
  unfold instantiate at h
  simp only [] at h
  split at h
  · cases h
  · next σ1 h1 =>
    obtain ⟨f0, hlen⟩ := frC_allocVars (R := R) hc s.nvars s.nwild
    have hb : σ.vars.length + (s.nvars + s.nwild) ≤ (allocVars σ s.nvars s.nwild).vars.length := by
      rw [hlen]; omega
    have f1 := addConstraints_frC n σ.vars.length (s.nvars + s.nwild) hc.sfr s.constraints _ σ1 f0.closed hb hcs h1
    have hbody1 : TermInR σ1 R.S (s.body.shift σ.vars.length) :=
      termInR_shift hc.sfr (Nat.le_trans hb f1.len) hbody
    obtain ⟨f2, hf⟩ := (all_frameC L n).2.2.2.2.2.1 R σ1 _ true σ' f f1.closed
      (spineFollow_inR f1.closed _ hbody1) h
    refine ⟨f0.trans (f1.trans f2), hf, ?_⟩
    have := f1.len; have := f2.len; omega

/-! ## 4. the region of the not-yet-allocated -/

/-- everything that is not yet allocated in `σ` -/
def freshRegion (σ : Store) : Region where
  S := fun v => σ.vars.length ≤ v
  K := fun k => σ.csets.length ≤ k
  C := fun c => σ.constrs.length ≤ c

theorem getCset_oor {σ : Store} {k : Nat} (h : σ.csets.length ≤ k) : getCset σ k = [] := by
  unfold getCset
  rw [List.getD_eq_getElem?_getD, List.getElem?_eq_none h]
  rfl

theorem closedC_fresh (σ : Store) : ClosedC σ (freshRegion σ) where
  bnd := fun w b hw hb => by
    have hw : σ.vars.length ≤ w := hw
    rw [getVar_oor (by omega)] at hb; cases hb
  cs := fun w hw hS => by
    have hS : σ.vars.length ≤ w := hS
    omega
  mem := fun k c hk hm => by
    have hk : σ.csets.length ≤ k := hk
    rw [getCset_oor hk] at hm; cases hm
  ctm := fun c u hlt hC _ => by
    have hC : σ.constrs.length ≤ c := hC
    omega
  sfr := fun _ h => h
  kfr := fun _ h => h
  cfr := fun _ h => h

/-- instantiating a schema WITH constraints touches nothing that exists and returns a term over new variables -/
theorem instantiate_freshC {L : Lang} {n : Nat} {σ σ' : Store} {s : Schema} {t : Term}
    (hcs : ∀ c, c ∈ s.constraints → okCAstN L (s.nvars + s.nwild) c = true)
    (hbody : okTermN L (s.nvars + s.nwild) s.body = true)
    (h : instantiate L n σ s = .ok (σ', t)) :
    (∀ v, VarIn v t → σ.vars.length ≤ v ∧ v < σ'.vars.length) ∧
    (∀ v, v < σ.vars.length → getVar σ' v = getVar σ v) ∧
    (∀ k, k < σ.csets.length → getCset σ' k = getCset σ k) ∧
    (∀ c, c < σ.constrs.length → getConstr σ' c = getConstr σ c) ∧
    σ.vars.length + s.nvars + s.nwild ≤ σ'.vars.length ∧
    σ.csets.length ≤ σ'.csets.length ∧ σ.constrs.length ≤ σ'.constrs.length := by
  obtain ⟨f, ht, hlen⟩ := instantiate_frC (closedC_fresh σ) hcs hbody h
  exact ⟨fun v hv => ht v hv,
    fun v hv => f.vfr v (fun (hS : σ.vars.length ≤ v) => by omega),
    fun k hk => f.kfr k (fun (hK : σ.csets.length ≤ k) => by omega),
    fun c hc => f.cfr c (fun (hC : σ.constrs.length ≤ c) => by omega), hlen, f.klen, f.clen⟩

/-- two instantiations, the second one in any later store, share no variable -/
theorem instantiate_disjointC {L : Lang} {n m : Nat} {σ σ1 σ2 σ3 : Store} {s s' : Schema} {t1 t2 : Term}
    (hcs : ∀ c, c ∈ s.constraints → okCAstN L (s.nvars + s.nwild) c = true)
    (hbody : okTermN L (s.nvars + s.nwild) s.body = true)
    (hcs' : ∀ c, c ∈ s'.constraints → okCAstN L (s'.nvars + s'.nwild) c = true)
    (hbody' : okTermN L (s'.nvars + s'.nwild) s'.body = true)
    (h1 : instantiate L n σ s = .ok (σ1, t1)) (hlater : σ1.vars.length ≤ σ2.vars.length)
    (h2 : instantiate L m σ2 s' = .ok (σ3, t2)) : ∀ v, VarIn v t1 → ¬ VarIn v t2 := by
  intro v hv1 hv2
  have a := (instantiate_freshC hcs hbody h1).1 v hv1
  have b := (instantiate_freshC hcs' hbody' h2).1 v hv2
  omega

end Tfv.C16C
