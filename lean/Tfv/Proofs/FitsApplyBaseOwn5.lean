import Tfv.Proofs.FitsApplyBaseOwn4
/-!
# C06 end to end, alternatives with their own variables, part 5: `applyT`, the run, the clauses
-/
namespace Tfv.C06B
open Tfv Tfv.C03P Tfv.C03C Tfv.C16P Tfv.C17E Tfv.C03R Tfv.C06A Tfv.C05P

theorem bind_own (L : Lang) (wf : WF L) (o1 o2 : Nat) (ops : OwnOps L o1 o2) (x ao : Nat) (as : List Ty)
    (h0 : arityOf L ao ≠ 0) (hw : wfTy L (.app ao as) = true) (hda : Ty.depth (.app ao as) < 64)
    (hx : 6 * Ty.size (.app ao as) ≤ x) :
    bind L (x+8) (σI o1 o2) 0 (Ty.app ao as).toTerm = ownAfter L o1 o2 (.app ao as) := by
  rw [← check_σIB L wf o1 o2 ops x ao as h0 hw hda hx]
  rw [Tfv.toTerm_app, bind]
  have hdv : directVars (setVar (setVar (σI o1 o2) 0 { cset := 0 }) 0
      { bound := some (.app ao (Ty.toTermL as)), cset := 0 })
      (termFuel (setVar (setVar (σI o1 o2) 0 { cset := 0 }) 0
      { bound := some (.app ao (Ty.toTermL as)), cset := 0 })) (.app ao (Ty.toTermL as)) [] = [] :=
    directVars_closed _ _ _ _ (by rw [closed_app]; exact closedL_toTermL as)
  simp [σI, getVar, h0, setVar] at hdv ⊢
  rw [hdv]
  simp [getCset, setCset, σIB, Tfv.toTerm_app]

theorem unify_own0 (L : Lang) (wf : WF L) (m o1 o2 : Nat) (ao : Nat) (as : List Ty) (h0 : arityOf L ao ≠ 0) :
    unify L (m+1) (σI o1 o2) (Ty.app ao as).toTerm (.var 0) true false false =
      bind L m (σI o1 o2) 0 (Ty.app ao as).toTerm := by
  have hb : ao ≠ BOT := compound_not_bot wf h0
  have hocc := occurs_closed_var (L := L) (σ := σI o1 o2) (w := 0) rfl (termFuel (σI o1 o2)) _
    (closed_toTerm (.app ao as))
  rw [Tfv.toTerm_app] at hocc ⊢
  rw [unify, Tfv.followT_app, C16P.followT_unbound rfl]
  simp [hb, hocc, h0]

theorem applyT_own (L : Lang) (wf : WF L) (o1 o2 : Nat) (ops : OwnOps L o1 o2) (x : Nat) (r : Term) (ao : Nat)
    (as : List Ty) (fixFlag : Bool) (h0 : arityOf L ao ≠ 0) (hw : wfTy L (.app ao as) = true)
    (hda : Ty.depth (.app ao as) < 64) (hx : 6 * Ty.size (.app ao as) ≤ x) :
    applyT L (x+9) (σI o1 o2) (.app FUN [.var 0, r]) (Ty.app ao as).toTerm fixFlag =
      (match ownAfter L o1 o2 (.app ao as) with
       | .error e => .error e
       | .ok σ1 => if fixFlag && !C06A.isFunT r then fix L (x+9) σ1 r true else .ok (σ1, r)) := by
  unfold applyT
  rw [Tfv.followT_app, followT_toTerm]
  simp only [beq_self_eq_true, if_true]
  rw [unify_own0 L wf _ o1 o2 ao as h0, bind_own L wf o1 o2 ops x ao as h0 hw hda hx]
  cases ownAfter L o1 o2 (.app ao as) with
  | error e => rfl
  | ok σ1 =>
    simp only []
    cases r <;> rfl

/-- in every accepted store `x` is bound to the argument -/
theorem ownAfter_bound {L : Lang} {o1 o2 : Nat} {a : Ty} {σ1 : Store} (h : ownAfter L o1 o2 a = .ok σ1) :
    (getVar σ1 0).bound = some a.toTerm := by
  cases a with
  | app ao as =>
    rw [ownAfter] at h
    split at h
    · injection h with h; subst h
      rw [getVar_setCset, (argSteps_frame L as _ _ 1 0 (by omega)).1]; rfl
    · split at h
      · injection h with h; subst h
        rw [getVar_setCset, (argSteps_frame L as _ _ 2 0 (by omega)).1]; rfl
      · cases h

/-- a fuel that suffices for one application of `ownSchema` to `a` -/
def ownFuel (r : Term) (a : Ty) : Nat := 2 * ((tsz r + 3) * Ty.size a) + 2 * tsz r + 16

theorem runAll_own (L : Lang) (wf : WF L) (o1 o2 : Nat) (ops : OwnOps L o1 o2) (N : Nat) (r : Term) (ao : Nat)
    (as : List Ty) (fixFlag : Bool) (h0 : arityOf L ao ≠ 0) (hw : wfTy L (.app ao as) = true)
    (hda : Ty.depth (.app ao as) < 64) (hr : ∀ v ∈ r.vars, v = 0) (hN : ownFuel r (.app ao as) ≤ N) :
    runAll L N fixFlag (ownSchema r o1 o2) [(Ty.app ao as).toTerm] =
      (match ownAfter L o1 o2 (.app ao as) with
       | .error e => .error e
       | .ok σ1 => .ok (σ1, if fixFlag && !C06A.isFunT r then resTerm σ1 r else r)) := by
  have hS := size_pos (.app ao as)
  unfold ownFuel at hN
  have hm : tsz r + 3 ≤ (tsz r + 3) * Ty.size (.app ao as) := Nat.le_mul_of_pos_right _ hS
  have hm2 : 3 * Ty.size (.app ao as) ≤ (tsz r + 3) * Ty.size (.app ao as) := Nat.mul_le_mul_right _ (by omega)
  have hm3 : tsz r * Ty.size (.app ao as) ≤ (tsz r + 3) * Ty.size (.app ao as) := Nat.mul_le_mul_right _ (by omega)
  obtain ⟨x, rfl⟩ : ∃ x, N = x + 9 := ⟨N - 9, by omega⟩
  unfold runAll
  rw [show x + 9 = (x + 4) + 5 from rfl, instantiate_ownSchema L wf o1 o2 ops r (x+4) (by omega)]
  simp only []
  rw [applyAll]
  rw [show x + 4 + 5 = x + 9 from rfl, applyT_own L wf o1 o2 ops x r ao as fixFlag h0 hw hda (by omega)]
  cases hc : ownAfter L o1 o2 (.app ao as) with
  | error e => rfl
  | ok σ1 =>
    simp only []
    cases hb : (fixFlag && !C06A.isFunT r)
    · simp only [Bool.false_eq_true, if_false]
      rw [applyAll]
    · simp only [if_true]
      rw [fix_bound0 (ownAfter_bound hc) _ r true hr (by omega)]
      simp only []
      rw [applyAll]

end Tfv.C06B
