import Tfv.Model.Parse
/-!
# M5a — typed expressions (expr.py: Operator, Operation, Source, Application, Expr.fix)
and the typed builder for `parse_expr` (lang.py:242-330 with `unify=True`)

An expression is a tree whose nodes carry their type as a `Term` over the
inference store of M2. Python's `Expr` objects are shared only in two ways
that matter: an input expression may be referred to several times by its
number, and a `Source` has identity (one graph node per source object).
Sources therefore carry an id; shared inputs are the same tree value (their
types live in the store, so both occurrences see the same bindings).
-/
namespace Tfv

/-- an operator of the language: `Operator(type=…, name=…)`; `composite` says it has a body (M5b) -/
structure OperatorDecl where
  name : String
  schema : Schema
  deriving Repr, Inhabited

inductive TExpr where
  | src (id : Nat) (label : Option String) (ty : Term)   -- `Source`; `label` = name of a non-function operator
  | op (name : String) (ty : Term)                        -- `Operation`
  | app (f x : TExpr) (ty : Term)                         -- `Application`
  /-- the same expression *object* wherever it occurs (a workflow resource consumed by several tools): `key` identifies the object -/
  | shared (key : Nat) (e : TExpr)
  deriving Repr, Inhabited

def TExpr.ty : TExpr → Term
  | .src _ _ t => t
  | .op _ t => t
  | .app _ _ t => t
  | .shared _ e => e.ty

def TExpr.isSource : TExpr → Bool
  | .src _ _ _ => true
  | _ => false

def TExpr.setTy (t : Term) : TExpr → TExpr
  | .src i l _ => .src i l t
  | .op n _ => .op n t
  | .app f x _ => .app f x t
  | .shared k e => .shared k (e.setTy t)

structure XState where
  store : Store := {}
  nsrc : Nat := 0
  deriving Repr, Inhabited

def exprFuel : Nat := 4000

/-- `Operator.__init__`: `t = self.type.instance(); is_function = t is a Function operation`
(evaluated in a scratch store, as the Python code instantiates the schema once at definition time) -/
def isFunctionOp (L : Lang) (d : OperatorDecl) : Bool :=
  match instantiate L exprFuel {} d.schema with
  | .ok (σ, t) => (match followT σ t with
      | .app o _ => o == FUN
      | _ => false)
  | .error _ => false

/-- `Source()`: the type is an instance of the wildcard schema `_` -/
def mkSourceT (s : XState) : XState × TExpr :=
  let (σ, v) := newVar s.store true
  ({ store := σ, nsrc := s.nsrc + 1 }, .src s.nsrc none (.var v))

/-- `Operator.instance()` -/
def mkOpT (L : Lang) (ops : List OperatorDecl) (s : XState) (name : String) : Except PErr (XState × TExpr) :=
  match ops.find? (fun d => d.name == name) with
  | none => .error (.undefinedToken name)
  | some d =>
    match instantiate L exprFuel s.store d.schema with
    | .error e => .error (.typing e)
    | .ok (σ, t) =>
      if isFunctionOp L d then .ok ({ s with store := σ }, .op name t)
      else .ok ({ store := σ, nsrc := s.nsrc + 1 }, .src s.nsrc (some name) t)

/-- `Application(f, x, fix, unify=True)` -/
def mkAppT (L : Lang) (fixFlag : Bool) (s : XState) (f x : TExpr) : Except PErr (XState × TExpr) :=
  match applyT L exprFuel s.store f.ty x.ty fixFlag with
  | .error e => .error (.application e)
  | .ok (σ, t) => .ok ({ s with store := σ }, .app f x t)

/-- `: T` after `previous` (lang.py:279-298, `unify=True`) -/
def annotateT (L : Lang) (s : XState) (previous : TExpr) (t : Term) (nfresh : Nat) (prevDash : Bool) :
    Except PErr (XState × TExpr) :=
  -- the variables that `_` created in the annotation are ordinary (non-wildcard) variables
  let σ := allocVars s.store nfresh 0
  let previous := if prevDash && previous.isSource then previous.setTy t else previous
  match unify L exprFuel σ previous.ty t true false false with
  | .error _ => .error .typeAnnotation
  | .ok σ1 => .ok ({ s with store := σ1 }, previous)

def typedBuilder (L : Lang) (ops : List OperatorDecl) (fixFlag : Bool) : Builder XState TExpr where
  mkSource := mkSourceT
  mkOp := mkOpT L ops
  mkApp := mkAppT L fixFlag
  annotate := annotateT L
  varBase s := s.store.vars.length

mutual
/-- `normalize()` of a type: follow every variable to its binding -/
def normTerm (σ : Store) : Nat → Term → Term
  | 0, t => t
  | n+1, t =>
    match followT σ t with
    | .app o args => .app o (normTermL σ n args)
    | .var v => .var v
def normTermL (σ : Store) : Nat → List Term → List Term
  | _, [] => []
  | n, t :: ts => normTerm σ n t :: normTermL σ n ts
end

def normT (σ : Store) (t : Term) : Term := normTerm σ (σ.vars.length + 64) t

/-- the fixing pass of `Expr.fix()` (expr.py:240-258): sources get their most general type, applications their most
specific one -/
def fixExprCore (L : Lang) : Store → TExpr → Except Err (Store × TExpr)
  | σ, .src i l t =>
    match fix L exprFuel σ t false with
    | .error e => .error e
    | .ok (σ1, t1) => .ok (σ1, .src i l t1)
  | σ, .op n t => .ok (σ, .op n t)
  | σ, .app f x t =>
    match fixExprCore L σ f with
    | .error e => .error e
    | .ok (σ1, f1) =>
      match fixExprCore L σ1 x with
      | .error e => .error e
      | .ok (σ2, x1) =>
        match fix L exprFuel σ2 t true with
        | .error e => .error e
        | .ok (σ3, t1) => .ok (σ3, .app f1 x1 t1)
  | σ, .shared k e =>
    match fixExprCore L σ e with
    | .error err => .error err
    | .ok (σ1, e1) => .ok (σ1, .shared k e1)

/-- every node's type followed to its bindings in the given store -/
def normExpr (σ : Store) : TExpr → TExpr
  | .src i l t => .src i l (normT σ t)
  | .op n t => .op n (normT σ t)
  | .app f x t => .app (normExpr σ f) (normExpr σ x) (normT σ t)
  | .shared k e => .shared k (normExpr σ e)

/-- `Expr.fix()` (expr.py:240-258), in Python's order: children first, then the node's own type is fixed and
*normalised at that moment* (`self.type = self.type.normalize()`). A variable that is still unbound at that
moment stays in the stored type as a variable object; if a later step binds it, code that reads the stored type
without following it (`Type.output()`, `isinstance(x.type, TypeOperation)`, hashing for `in canon`) still sees
the variable. The graph model therefore receives these *stale* types together with the final store. -/
def fixExpr (L : Lang) : Store → TExpr → Except Err (Store × TExpr)
  | σ, .src i l t =>
    match fix L exprFuel σ t false with
    | .error e => .error e
    | .ok (σ1, t1) => .ok (σ1, .src i l (normT σ1 t1))
  | σ, .op n t => .ok (σ, .op n (normT σ t))
  | σ, .app f x t =>
    match fixExpr L σ f with
    | .error e => .error e
    | .ok (σ1, f1) =>
      match fixExpr L σ1 x with
      | .error e => .error e
      | .ok (σ2, x1) =>
        match fix L exprFuel σ2 t true with
        | .error e => .error e
        | .ok (σ3, t1) => .ok (σ3, .app f1 x1 (normT σ3 t1))
  | σ, .shared k e =>
    match fixExpr L σ e with
    | .error err => .error err
    | .ok (σ1, e1) => .ok (σ1, .shared k e1)

/-- input expressions `Source()` supplied to the parser: fresh wildcard-typed sources with ids `0 … n-1` -/
def mkInputs : Nat → XState → XState × List TExpr
  | 0, s => (s, [])
  | n+1, s =>
    let (s1, e) := mkSourceT s
    let (s2, es) := mkInputs n s1
    (s2, e :: es)

/-- `Language.parse(text, *inputs)` followed by `Expr.fix()` when `doFix` -/
def parseTyped (P : PLang) (ops : List OperatorDecl) (ninputs : Nat) (toks : List String) (doFix : Bool) :
    Except PErr (XState × TExpr) :=
  let (s0, inputs) := mkInputs ninputs {}
  match parseExprToks P (typedBuilder P.types ops true) inputs s0 toks with
  | .error e => .error e
  | .ok (s, e) =>
    if doFix then
      match fixExpr P.types s.store e with
      | .error err => .error (.typing err)
      | .ok (σ, e') => .ok ({ s with store := σ }, e')
    else .ok (s, e)

/-- `Expr.__call__` : programmatic construction `f(x, y, …)`, one `Application` per argument -/
def callT (L : Lang) (s : XState) (f : TExpr) : List TExpr → Except PErr (XState × TExpr)
  | [] => .ok (s, f)
  | x :: xs =>
    match mkAppT L true s f x with
    | .error e => .error e
    | .ok (s1, e) => callT L s1 e xs

end Tfv
