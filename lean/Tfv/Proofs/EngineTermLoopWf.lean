import Tfv.Proofs.EngineTermLoop
import Tfv.Proofs.InferConstrMain
import Tfv.Proofs.InferNoInternalTop
import Tfv.Proofs.SubOrder
/-!
# The looping input satisfies every invariant of the engine theorems

The language is well formed, the store satisfies `OkStoreC` and `FuelOk`, the two types are well formed in it.
-/
namespace Tfv.C17T
open Tfv Tfv.C03P Tfv.C03C Tfv.C17E

theorem loopL_wf : WF loopL := wf_of_wfLangB loopL (by decide)
theorem loopS_okc : OkStoreC loopL loopS := okStoreCB_sound (by decide)
theorem loopS_fuelOk : FuelOk loopS := fuelOk_of_chainsB (by decide)
theorem loop_okTerms : okTerm loopL loopS (.app 6 [.var 0, .var 0]) = true ∧
    okTerm loopL loopS (.app 6 [nestF 65 (.var 0), .var 0]) = true := ⟨by decide +kernel, by decide +kernel⟩

/-- no invariant of the engine theorems rules the loop out -/
theorem loop_refutes_wf :
    ¬ (∀ (L : Lang) (σ : Store) (a b : Term), WF L → OkStoreC L σ → FuelOk σ → NoConstraints σ →
        okTerm L σ a = true → okTerm L σ b = true →
        ∃ N, ∀ fuel, N ≤ fuel → unify L fuel σ a b true false false ≠ .error .outOfFuel) := by
  intro h
  obtain ⟨N, hN⟩ := h loopL loopS (.app 6 [.var 0, .var 0]) (.app 6 [nestF 65 (.var 0), .var 0]) loopL_wf loopS_okc
    loopS_fuelOk loopS_nc loop_okTerms.1 loop_okTerms.2
  exact hN N (Nat.le_refl N) (loop_unify_all true N)

end Tfv.C17T
