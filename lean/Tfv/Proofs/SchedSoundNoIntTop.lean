import Tfv.Proofs.SchedSoundNoInt
import Tfv.Proofs.InferNoInternalTop
/-!
# C18 (no internal error under every schedule): the entry points

Port of `InferNoInternalTop.lean` to the scheduled engine: `addConstraintS`, `addConstraintsS`,
`instantiateS`, `applyTS`, chains of applications and the use of a schema.
-/
namespace Tfv.C18S
open Tfv Tfv.C03P Tfv.C03C Tfv.C16P Tfv.C17E

variable {ord : List Nat → List Nat}

theorem addConstraint_goodO (L : Lang) (ord : List Nat → List Nat) (fuel : Nat) {σ : Store} (c : Constr) (hc : Chains σ) :
    GoodT (addConstraintS L ord fuel σ c) := by
  rw [addConstraintS_eq]
  have hca : Chains (regStore σ (normC σ c)) := (boundEq_regStore σ _).chains hc
  simp only []
  split
  · next hany =>
    exfalso
    obtain ⟨v, hv, hb⟩ := List.any_eq_true.mp hany
    rw [varsOfTerms_unb hca _ v hv] at hb
    cases hb
  · have hci := (boundEq_informStore σ.constrs.length
      (varsOfTerms (regStore σ (normC σ c)) (constrTerms (normC σ c))) _).chains hca
    have hf := (all_noInternalO L ord fuel).2.2.2.2.2.2.2.2.2.1 _ σ.constrs.length hci
    split
    · next e he => exact hf.err_of he
    · next σ1 d he => exact (hf.step he).ch

theorem addConstraints_goodO (L : Lang) (ord : List Nat → List Nat) (fuel base : Nat) : ∀ (cs : List CAst) (σ : Store), Chains σ →
    GoodT (addConstraintsS L ord fuel base σ cs)
  | [], σ, hc => by unfold addConstraintsS; exact hc
  | c :: cs, σ, hc => by
    unfold addConstraintsS
    simp only []
    split
    · next e he => exact (addConstraint_goodO L ord fuel _ hc).err_of he
    · next σ1 he =>
      exact addConstraints_goodO L ord fuel base cs σ1 ((addConstraint_goodO L ord fuel _ hc).chains he)

theorem instantiate_goodO (L : Lang) (ord : List Nat → List Nat) (fuel : Nat) {σ : Store} (s : Schema) (hc : Chains σ) :
    GoodTP (instantiateS L ord fuel σ s) := by
  unfold instantiateS
  simp only []
  have hca := (boundEq_allocVars σ s.nvars s.nwild).chains hc
  have ha := addConstraints_goodO L ord fuel σ.vars.length s.constraints _ hca
  split
  · next e he => exact ha.err_of he
  · next σ1 he =>
    exact ((all_noInternalO L ord fuel).2.2.2.2.2.1 σ1 _ true (ha.chains he)).toTP

theorem applyPre_goodO (L : Lang) (ord : List Nat → List Nat) (fuel : Nat) {σ : Store} {f0 : Term} (hc : Chains σ) (hf : Final σ f0) :
    GoodP σ (applyPreS L ord fuel σ f0) := by
  cases f0 with
  | app o args => exact goodP_ok.mpr (StepN.refl hc)
  | var fv =>
    simp only [applyPreS]
    have b2 : BoundEq σ (newVar (newVar σ).1).1 := (boundEq_newVar σ false).trans (boundEq_newVar _ false)
    have s2 : StepN σ (newVar (newVar σ).1).1 := StepN.of_boundEq hc b2 rfl
    have hb := (all_noInternalO L ord fuel).2.2.1 (newVar (newVar σ).1).1 fv
      (.app FUN [.var (newVar σ).2, .var (newVar (newVar σ).1).2]) s2.ch ((b2.bound fv).trans hf) trivial
    split
    · next e he => exact goodP_err (hb.err_of he)
    · next σ3 he => exact goodP_ok.mpr (s2.trans (hb.step he))

theorem applyPost_goodO (L : Lang) (ord : List Nat → List Nat) (fuel : Nat) {σ : Store} (x0 f1 : Term) (fixFlag : Bool) (hc : Chains σ) :
    GoodP σ (applyPostS L ord fuel σ x0 f1 fixFlag) := by
  unfold applyPostS
  split
  · split
    · refine goodRP_seq ((all_noInternalO L ord fuel).1 σ _ _ _ _ _ hc) ?_
      intro σ1 _ s1
      split
      · exact (all_noInternalO L ord fuel).2.2.2.2.2.1 σ1 _ true s1.ch
      · exact goodP_ok.mpr (StepN.refl s1.ch)
    · split
      · exact goodP_ok.mpr (StepN.refl hc)
      · exact goodP_err rfl
  · split
    · exact goodP_ok.mpr (StepN.refl hc)
    · exact goodP_err rfl
  · exact goodP_err rfl

theorem applyT_goodO (L : Lang) (ord : List Nat → List Nat) (fuel : Nat) {σ : Store} (f x : Term) (fixFlag : Bool) (hc : Chains σ) :
    GoodP σ (applyTS L ord fuel σ f x fixFlag) := by
  rw [applyTS_eq]
  have hp := applyPre_goodO L ord fuel hc (hc.finalT f)
  split
  · next e he => exact goodP_err (hp.err_of he)
  · next σ1 f1 he =>
    have s1 := hp.step he
    exact GoodP.trans s1 (applyPost_goodO L ord fuel _ f1 fixFlag s1.ch)

theorem applyAll_goodO (L : Lang) (ord : List Nat → List Nat) (fuel : Nat) (fixFlag : Bool) : ∀ (xs : List Term) (σ : Store) (f : Term),
    Chains σ → GoodP σ (applyAllS L ord fuel fixFlag σ f xs)
  | [], σ, f, hc => by unfold applyAllS; exact goodP_ok.mpr (StepN.refl hc)
  | x :: xs, σ, f, hc => by
    unfold applyAllS
    have ha := applyT_goodO L ord fuel f x fixFlag hc
    split
    · next e he => exact goodP_err (ha.err_of he)
    · next σ1 r he =>
      have s1 := ha.step he
      exact GoodP.trans s1 (applyAll_goodO L ord fuel fixFlag xs σ1 r s1.ch)

theorem useSchema_goodO (L : Lang) (ord : List Nat → List Nat) (fuel : Nat) (fixFlag : Bool) {σ : Store} (s : Schema) (xs : List Term)
    (hc : Chains σ) : GoodTP (useSchemaS L ord fuel fixFlag σ s xs) := by
  unfold useSchemaS
  have hi := instantiate_goodO L ord fuel s hc
  split
  · next e he => exact hi.err_of he
  · next σ1 f he => exact (applyAll_goodO L ord fuel fixFlag xs σ1 f (hi.chains he)).toTP

end Tfv.C18S
