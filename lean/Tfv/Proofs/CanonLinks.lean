import Tfv.Model
import Tfv.Spec.Sub
import Tfv.Spec.Taxonomy
import Tfv.Proofs.SubOrder
import Tfv.Proofs.Canon
import Tfv.Proofs.CanonComplete
import Tfv.Proofs.CanonClosed
/-!
# Helper lemmas for C10, part 4: links between `Top`/`Bottom`-free members of a closed canon are complete;
order irrelevance of the work list
-/
namespace Tfv.Tax
open Tfv

/-! ## 1. on `Top`/`Bottom`-free types the `univ` option is irrelevant -/

theorem baseSucc_univ {L : Lang} {o o' : SOpts} (h1 : o.custom = o'.custom) (h2 : o.top = o'.top)
    (h3 : o.bottom = o'.bottom) (up : Bool) {op : Nat} (hT : op ≠ TOP) (hB : op ≠ BOT) :
    baseSucc L o up op = baseSucc L o' up op := by
  have hTb : (op == TOP) = false := by simpa using hT
  have hBb : (op == BOT) = false := by simpa using hB
  unfold baseSucc
  simp only [hTb, hBb, h1, h2, h3, Bool.false_eq_true, if_false]

mutual
theorem succT_univ {L : Lang} {o o' : SOpts} (h1 : o.custom = o'.custom) (h2 : o.top = o'.top)
    (h3 : o.bottom = o'.bottom) : ∀ (up : Bool) (t : Ty), tbFree t = true → succT L o up t = succT L o' up t
  | up, .app op args, ht => by
    obtain ⟨hT, hB, hargs⟩ := tbFree_app.mp ht
    simp only [succT, baseSucc_univ h1 h2 h3 up hT hB,
      succArgs_univ h1 h2 h3 up (varianceOf L op) args hargs, h2, h3]
theorem succArgs_univ {L : Lang} {o o' : SOpts} (h1 : o.custom = o'.custom) (h2 : o.top = o'.top)
    (h3 : o.bottom = o'.bottom) : ∀ (up : Bool) (vs : List Bool) (ts : List Ty), tbFreeL ts = true →
    succArgs L o up vs ts = succArgs L o' up vs ts
  | _, [], _, _ => by simp only [succArgs]
  | _, _ :: _, [], _ => by simp only [succArgs]
  | up, v :: vs, p :: ps, ht => by
    obtain ⟨t1, t2⟩ := tbFreeL_cons.mp ht
    simp only [succArgs, succT_univ h1 h2 h3 (up == v) p t1, succArgs_univ h1 h2 h3 up vs ps t2]
end

theorem succT_langOpts {L : Lang} (c : CanonCfg) (up : Bool) {t : Ty} (ht : tbFree t = true) :
    succT L (langOpts L c) up t = succT L (canonOpts c true) up t :=
  succT_univ (o := langOpts L c) (o' := canonOpts c true) rfl rfl rfl up t ht

/-! ## 2. links -/

theorem link_of_succ {L : Lang} {c : CanonCfg} {canon : List Ty} (n : Nat) {up : Bool} {t u : Ty}
    (h : u ∈ succT L (langOpts L c) up t) (hm : u ∈ canon) : Link L c canon (n+1) up t u := by
  unfold Link
  simp only [langSucc, List.mem_flatMap]
  refine ⟨u, h, ?_⟩
  simp [(memTy_iff u canon).mpr hm]

/-- the fuel of a non-transitive call is irrelevant -/
theorem langSucc_fuel (L : Lang) (c : CanonCfg) (canon : List Ty) (n : Nat) (up : Bool) (t : Ty) :
    langSucc L c canon (n+1) up t false = langSucc L c canon 1 up t false := by
  simp only [langSucc, Bool.false_eq_true, if_false]

theorem links_of_reach {L : Lang} {c : CanonCfg} {R : List Ty} (h : Closed L c R) (n : Nat)
    {goal t x : Ty} (hr : Reach (StepTo L (canonOpts c true) false goal) t x) (ht : t ∈ R)
    (htb : tbFree t = true) : Reach (Link L c R (n+1) false) t x := by
  induction hr with
  | refl _ => exact Reach.refl _
  | @step a b d hstep _ ih =>
    have hb : b ∈ R := closed_down h ht hstep.1
    refine Reach.step (link_of_succ n ?_ hb) (ih hb hstep.2.2.2.2.1)
    rw [succT_langOpts c false htb]
    exact hstep.1

theorem complete_tbfree {L : Lang} (wf : WF L) {c : CanonCfg} {R : List Ty} (h : Closed L c R) (n : Nat)
    {t s : Ty} (ht : t ∈ R) (hw : wfTy L t = true) (htb : tbFree t = true) (hsb : tbFree s = true)
    (hsub : Sub L s t) : Reach (Link L c R (n+1) false) t s :=
  links_of_reach h n
    (reach_complete wf (canonOpts_univOK L c true) rfl false hw htb hsb (le_down.mpr hsub)) ht htb

/-! ## 3. the order of the work list is irrelevant -/

theorem terminates_eq {L : Lang} {c : CanonCfg} {n : Nat} {stack canon : List Ty}
    (h : Terminates L c n stack canon) :
    expandRun L c n stack canon = ([], expandCanon L c n stack canon) := by
  unfold Terminates at h
  rw [← expandRun_snd, ← h]

theorem expandCanon_closed {L : Lang} {c : CanonCfg} {n : Nat} {stack canon : List Ty}
    (h : Terminates L c n stack canon) (inv : WorkInv L c stack canon) :
    (∀ t ∈ canon, t ∈ expandCanon L c n stack canon) ∧ (∀ t ∈ stack, t ∈ expandCanon L c n stack canon) ∧
      Closed L c (expandCanon L c n stack canon) :=
  expandRun_closed n stack canon _ (terminates_eq h) inv

theorem expandCanon_least {L : Lang} {c : CanonCfg} (S : Ty → Prop)
    (hS : ∀ t, S t → ∀ s ∈ canonSucc L c t, S s) (n : Nat) (stack canon : List Ty)
    (h1 : ∀ t ∈ canon, S t) (h2 : ∀ t ∈ stack, S t) : ∀ t ∈ expandCanon L c n stack canon, S t := by
  rw [← expandRun_snd]
  exact (expandRun_least S hS n stack canon h1 h2).1

theorem expandCanon_order_irrelevant {L : Lang} {c : CanonCfg} {n1 n2 : Nat} {stack1 canon1 stack2 canon2 : List Ty}
    (t1 : Terminates L c n1 stack1 canon1) (t2 : Terminates L c n2 stack2 canon2)
    (i1 : WorkInv L c stack1 canon1) (i2 : WorkInv L c stack2 canon2)
    (hsame : ∀ t, (t ∈ stack1 ∨ t ∈ canon1) ↔ (t ∈ stack2 ∨ t ∈ canon2)) (t : Ty) :
    t ∈ expandCanon L c n1 stack1 canon1 ↔ t ∈ expandCanon L c n2 stack2 canon2 := by
  obtain ⟨a1, a2, a3⟩ := expandCanon_closed t1 i1
  obtain ⟨b1, b2, b3⟩ := expandCanon_closed t2 i2
  constructor
  · refine expandCanon_least (fun x => x ∈ expandCanon L c n2 stack2 canon2) b3 n1 stack1 canon1 ?_ ?_ t
    · intro x hx
      rcases (hsame x).mp (Or.inr hx) with h | h
      · exact b2 x h
      · exact b1 x h
    · intro x hx
      rcases (hsame x).mp (Or.inl hx) with h | h
      · exact b2 x h
      · exact b1 x h
  · refine expandCanon_least (fun x => x ∈ expandCanon L c n1 stack1 canon1) a3 n2 stack2 canon2 ?_ ?_ t
    · intro x hx
      rcases (hsame x).mpr (Or.inr hx) with h | h
      · exact a2 x h
      · exact a1 x h
    · intro x hx
      rcases (hsame x).mpr (Or.inl hx) with h | h
      · exact a2 x h
      · exact a1 x h

/-! ## 4. `mkCanon` -/

/-- the start set of `mkCanon` -/
def initOf (listed : List Ty) : List Ty := listed.foldl (fun acc t => insertTy t acc) []

theorem mem_initOf (listed : List Ty) (t : Ty) : t ∈ initOf listed ↔ t ∈ listed := by
  unfold initOf
  rw [mem_foldl_insertTy]
  simp

theorem mkCanon_eq (L : Lang) (c : CanonCfg) (listed : List Ty) :
    mkCanon L c listed = expandCanon L c canonFuel (initOf listed) (initOf listed) := rfl

theorem mkCanon_closed {L : Lang} {c : CanonCfg} {listed : List Ty}
    (h : Terminates L c canonFuel (initOf listed) (initOf listed)) :
    (∀ t ∈ listed, t ∈ mkCanon L c listed) ∧ Closed L c (mkCanon L c listed) := by
  obtain ⟨a1, _, a3⟩ := expandCanon_closed h (workInv_self L c _)
  exact ⟨fun t ht => a1 t ((mem_initOf listed t).mpr ht), a3⟩

theorem mkCanon_order_irrelevant {L : Lang} {c : CanonCfg} {l1 l2 : List Ty}
    (t1 : Terminates L c canonFuel (initOf l1) (initOf l1))
    (t2 : Terminates L c canonFuel (initOf l2) (initOf l2))
    (hsame : ∀ t, t ∈ l1 ↔ t ∈ l2) (t : Ty) : t ∈ mkCanon L c l1 ↔ t ∈ mkCanon L c l2 := by
  rw [mkCanon_eq, mkCanon_eq]
  apply expandCanon_order_irrelevant t1 t2 (workInv_self L c _) (workInv_self L c _)
  intro x
  simp only [mem_initOf, or_self]
  exact hsame x

end Tfv.Tax
