import Scratch.Exp
open Tfv

def poolT (nv : Nat) : List Term :=
  (List.range nv).map Term.var ++ [A, B, C, D] ++ (List.range nv).map (fun v => F (.var v)) ++ [F A, F B, .app TOP [], .app BOT []]

def poolArg : List Term := [A, B, C, D, F A, F B, F D, .app TOP [], .app BOT []]

def subC (nv : Nat) : List CAst :=
  (poolT nv).flatMap fun r => (poolT nv).map fun t => CAst.sub r t false

def elimC (nv : Nat) : List CAst :=
  ((List.range nv).map Term.var ++ (List.range nv).map (fun v => F (.var v))).flatMap fun r =>
  (poolT nv).flatMap fun a1 => (poolT nv).map fun a2 => CAst.elim r [a1, a2]

def bodies (nv : Nat) : List Term :=
  ((List.range nv).map Term.var ++ (List.range nv).map (fun v => F (.var v))).flatMap fun p1 =>
  ((List.range nv).map Term.var).flatMap fun p2 =>
  [fn p1 (fn p2 (.var 0)), fn p2 (fn p1 (.var (nv-1)))]


def staleElim (σ : Store) : Bool :=
  σ.constrs.any fun c => match c with
    | .elim _ alts true => alts.length != 1
    | _ => false

def search1 (tag : String) (cs : List (List CAst)) (nv nw : Nat) (bs : List Term) (args : List (List Term)) : IO Unit := do
  let mut cnt := 0
  let mut okc := 0
  let mut stale := 0
  for c in cs do
    for b in bs do
      for xs in args do
          cnt := cnt + 1
          let s : Schema := ⟨nv, nw, b, c⟩
          match run L0 s xs with
          | .ok (σ, _) =>
            okc := okc + 1
            if staleElim σ then
              stale := stale + 1
              if stale < 4 then IO.println s!"STALE {repr s} args {repr xs} : {repr σ}"
            let v := checkFinal L0 σ ++ checkInv σ
            if !v.isEmpty then
              IO.println s!"VIOLATION {repr s} args {repr xs} : {v}"
          | .error (.internal m) => IO.println s!"INTERNAL {m} {repr s} args {repr xs}"
          | .error .outOfFuel => IO.println s!"FUEL {repr s} args {repr xs}"
          | .error _ => pure ()
  IO.println s!"{tag} done {cnt} ok {okc} stale {stale}"

def args2 : List (List Term) := poolArg.flatMap fun a => poolArg.map fun b => [a, b]


def pool3 : List Term := [.var 0, .var 1, .var 2, A, B, D, F (.var 1), F (.var 2), F B]
def elimC3 : List CAst :=
  ([Term.var 0, .var 1, F (.var 0)]).flatMap fun r =>
  pool3.flatMap fun a1 => pool3.flatMap fun a2 => (CAst.elim r [a1, a2]) :: pool3.map fun a3 => CAst.elim r [a1, a2, a3]
def subC3 : List CAst :=
  pool3.flatMap fun r => pool3.map fun t => CAst.sub r t false
def bodies3 : List Term :=
  [fn (.var 0) (fn (.var 1) (fn (.var 2) (.var 0))), fn (.var 2) (fn (.var 1) (fn (.var 0) (.var 0))),
   fn (.var 1) (fn (.var 2) (fn (.var 0) (.var 2))), fn (F (.var 1)) (fn (.var 0) (fn (.var 2) (.var 0)))]
def poolArg3 : List Term := [A, B, D, F A, F B, F D, .app TOP [], .app BOT []]
def args3 : List (List Term) := poolArg3.flatMap fun a => poolArg3.flatMap fun b => poolArg3.map fun c => [a, b, c]

def main (a : List String) : IO Unit := do
  match a with
  | ["e3"] => search1 "elim3" (elimC3.map (fun c => [c])) 3 0 bodies3 args3
  | ["es3"] => search1 "elim3+sub" (elimC3.flatMap (fun c => (subC3.take 40).map fun d => [c, d])) 3 0 bodies3 args3
  | ["w"] => search1 "wild-sub" ((subC 3).map (fun c => [c])) 1 2 (bodies 3) args2
  | ["s2"] => search1 "sub2" ((subC 2).flatMap (fun c => (subC 2).map fun d => [c, d])) 2 0 (bodies 2) args2
  | _ => pure ()
