import Tfv.Proofs.BoundsConstr
import Tfv.Proofs.BoundsExamples
/-!
# Concrete stores for C05 with a pending subtype constraint (non-vacuity)

Language `C05Ex.exL`: the chain `C < B < A` (operators 7, 6, 5). `exSP`: an instance of `(x ** x ** x)[x ≤ A]`:
one fresh variable whose constraint set holds the pending constraint `x0 ≤ A`. `exSPB`: the same with `x0 ≤ B`.
-/
namespace Tfv.C05Ex
open Tfv Tfv.C05P Tfv.C05C

def exSP : Store := { vars := [{}], csets := [[0]], constrs := [.sub (.var 0) (.app 5 []) false false] }
def exSPB : Store := { vars := [{}], csets := [[0]], constrs := [.sub (.var 0) (.app 6 []) false false] }

theorem exSP_pend : Pend exL exSP 0 0 5 false := ⟨rfl, rfl, by decide, by decide⟩
theorem exSPB_pend : Pend exL exSPB 0 0 6 false := ⟨rfl, rfl, by decide, by decide⟩
theorem exSP_fresh : FreshI (getVar exSP 0) := ⟨rfl, rfl, rfl⟩
theorem exSPB_fresh : FreshI (getVar exSPB 0) := ⟨rfl, rfl, rfl⟩

theorem exChainU : ChainOn exL (fun x => x = 5 ∨ x ∈ [6, 7]) := by
  refine chainOn_congr (fun x hx => ?_) exChain
  rcases hx with rfl | hx
  · decide
  · simp only [List.mem_cons, List.not_mem_nil, or_false] at hx ⊢
    rcases hx with rfl | rfl
    · exact Or.inl rfl
    · exact Or.inr (Or.inl rfl)

theorem exBelowU : ∀ a ∈ [6, 7], Anc exL a 5 := by
  intro a ha
  have h5 : (fun x => x ∈ [6, 7, 5]) 5 := by decide
  have hx : (fun x => x ∈ [6, 7, 5]) a := by
    simp only [List.mem_cons, List.not_mem_nil, or_false] at ha ⊢
    rcases ha with rfl | rfl
    · exact Or.inl rfl
    · exact Or.inr (Or.inl rfl)
  refine (anc_chain_iff exWF exChain hx h5).mpr ?_
  simp only [List.mem_cons, List.not_mem_nil, or_false] at ha
  rcases ha with rfl | rfl <;> decide

/-- the store after the two supplies `B`, `C`: lower bound `B` -/
def exSP1 : Store := setVar exSP 0 { getVar exSP 0 with wildcard := false, lower := some 6 }

/-- `A` is not below `B` -/
theorem exNotBelow : opSub exL 5 6 = false := by decide

end Tfv.C05Ex
