import Tfv.Proofs.EngineTermMonoMain
import Tfv.Proofs.SchedMatchK
import Tfv.Spec.Sat
/-!
# The model's `occurs` check is bounded: a constraint-free input on which the engine loops

`occurs` runs on the fuel `termFuel σ = σ.vars.length + 64` and answers `false` when it is used up. On a term
nested deeper than that the occurs check of `unify` misses the variable, the variable is bound to a term
containing itself, and the next visit of the variable recurses for ever: `outOfFuel` for EVERY fuel, from a store
without bindings and without constraints. (The occurs check of the Python code has no bound: it raises
`RecursiveTypeError` there.)
-/
namespace Tfv.C17T
open Tfv

/-- builtins, a unary `F` (5) and a binary `G` (6) -/
def loopL : Lang := builtinDecls ++ [⟨"F", [true], none⟩, ⟨"G", [true, true], none⟩]

/-- `F` nested `n` times around `t` -/
def nestF : Nat → Term → Term
  | 0, t => t
  | n+1, t => .app 5 [nestF n t]

/-- one fresh variable, no constraints -/
def loopS : Store := { vars := [{}], csets := [[]], constrs := [] }

/-- the store after `x := F^65(x)` -/
def loopC : Store := { vars := [{ bound := some (nestF 65 (.var 0)) }], csets := [[]], constrs := [] }

theorem followT_app' (σ : Store) (o : Nat) (args : List Term) : followT σ (.app o args) = .app o args := by
  unfold followT follow
  rfl

theorem loopC_follow : followT loopC (.var 0) = .app 5 [nestF 64 (.var 0)] := by
  with_unfolding_all rfl

theorem loopS_follow : followT loopS (.var 0) = .var 0 := by
  with_unfolding_all rfl

/-- on the cyclic store, unifying `F^k(x)` with itself never ends -/
theorem loop_unify : ∀ (n k : Nat) (st sb sw : Bool),
    unify loopL n loopC (nestF k (.var 0)) (nestF k (.var 0)) st sb sw = .error .outOfFuel
  | 0, _, _, _, _ => by rw [unify]
  | 1, k, st, sb, sw => by
    have step : ∀ t, unify loopL 1 loopC (.app 5 [t]) (.app 5 [t]) st sb sw = .error .outOfFuel := by
      intro t
      rw [unify, followT_app']
      simp only []
      rw [if_neg (by decide), if_neg (by decide), if_pos (by decide), unifyList]
    cases k with
    | zero =>
      show unify loopL 1 loopC (.var 0) (.var 0) st sb sw = _
      rw [unify, loopC_follow]
      simp only []
      rw [if_neg (by decide), if_neg (by decide), if_pos (by decide), unifyList]
    | succ k => exact step _
  | n+2, k, st, sb, sw => by
    have step : ∀ j, unify loopL (n+2) loopC (.app 5 [nestF j (.var 0)]) (.app 5 [nestF j (.var 0)]) st sb sw
        = .error .outOfFuel := by
      intro j
      rw [unify, followT_app']
      simp only []
      rw [if_neg (by decide), if_neg (by decide), if_pos (by decide)]
      show unifyList loopL (n+1) loopC [true] [nestF j (.var 0)] [nestF j (.var 0)] st sb sw = _
      rw [unifyList]
      simp only [if_true]
      rw [loop_unify n j st sb sw]
    cases k with
    | zero =>
      show unify loopL (n+2) loopC (.var 0) (.var 0) st sb sw = _
      rw [unify, loopC_follow]
      simp only []
      rw [if_neg (by decide), if_neg (by decide), if_pos (by decide)]
      show unifyList loopL (n+1) loopC [true] [nestF 64 (.var 0)] [nestF 64 (.var 0)] st sb sw = _
      rw [unifyList]
      simp only [if_true]
      rw [loop_unify n 64 st sb sw]
    | succ k => exact step k



/-- the occurs check misses `x` in `F^65(x)`: its fuel `termFuel loopS = 65` is used up one level above the variable -/
theorem loop_occurs : occurs loopL loopS (termFuel loopS) (.app 5 [nestF 64 (.var 0)]) (.var 0) = false := by
  rw [← C18P.occursK_eq]
  decide +kernel

/-- one level less and the variable is found -/
theorem loop_occurs_64 : occurs loopL loopS (termFuel loopS) (.app 5 [nestF 63 (.var 0)]) (.var 0) = true := by
  rw [← C18P.occursK_eq]
  decide +kernel

theorem loop_bind : bind loopL 3 loopS 0 (.app 5 [nestF 64 (.var 0)]) = .ok loopC := by
  with_unfolding_all rfl

/-- `unify(x, F^65(x))` SUCCEEDS in the model, binding `x` to a term that contains `x` -/
theorem loop_first (st : Bool) {n : Nat} (hn : 4 ≤ n) :
    unify loopL n loopS (.var 0) (nestF 65 (.var 0)) st false false = .ok loopC := by
  have h4 : unify loopL 4 loopS (.var 0) (nestF 65 (.var 0)) st false false = .ok loopC := by
    show unify loopL 4 loopS (.var 0) (.app 5 [nestF 64 (.var 0)]) st false false = _
    rw [unify, loopS_follow, followT_app']
    simp only []
    rw [if_neg (by decide), loop_occurs]
    simp only [Bool.false_eq_true, if_false]
    rw [if_neg (by decide)]
    simp only [Bool.or_self, Bool.false_eq_true, if_false]
    exact loop_bind
  rw [unify_fuel_mono loopL hn _ _ _ _ _ _ (by rw [h4]; simp), h4]

/-- the counterexample to unconditional termination: from a store with one fresh variable and no constraints,
`unify(G(x, x), G(F^65(x), x))` is out of fuel for EVERY fuel -/
theorem loop_unify_all (st : Bool) (n : Nat) :
    unify loopL n loopS (.app 6 [.var 0, .var 0]) (.app 6 [nestF 65 (.var 0), .var 0]) st false false
      = .error .outOfFuel := by
  refine oof_of_le (fun k => unify loopL k loopS (.app 6 [.var 0, .var 0]) (.app 6 [nestF 65 (.var 0), .var 0]) st false false)
    (fun k => (monoAt loopL k).unify _ _ _ _ _ _) (Nat.le_add_right n 6) ?_
  show unify loopL (n+6) loopS (.app 6 [.var 0, .var 0]) (.app 6 [nestF 65 (.var 0), .var 0]) st false false = _
  rw [unify, followT_app', followT_app']
  simp only []
  rw [if_neg (by decide), if_neg (by decide), if_pos (by decide)]
  show unifyList loopL (n+5) loopS [true, true] [.var 0, .var 0] [nestF 65 (.var 0), .var 0] st false false = _
  rw [unifyList]
  simp only [if_true]
  rw [loop_first st (by omega : 4 ≤ n + 4)]
  simp only []
  rw [unifyList]
  simp only [if_true]
  rw [show (Term.var 0) = nestF 0 (.var 0) from rfl, loop_unify]

theorem loopS_nc : NoConstraints loopS := by
  intro k
  cases k with
  | zero => rfl
  | succ k => rfl

theorem loopS_unbound (w : Nat) : (getVar loopS w).bound = none := by
  cases w with
  | zero => rfl
  | succ w => rfl

theorem loop_refutes :
    ¬ (∀ (L : Lang) (σ : Store) (a b : Term) (st : Bool), NoConstraints σ → (∀ w, (getVar σ w).bound = none) →
        ∃ N, ∀ fuel, N ≤ fuel → unify L fuel σ a b st false false ≠ .error .outOfFuel) := by
  intro h
  obtain ⟨N, hN⟩ := h loopL loopS (.app 6 [.var 0, .var 0]) (.app 6 [nestF 65 (.var 0), .var 0]) false loopS_nc loopS_unbound
  exact hN N (Nat.le_refl N) (loop_unify_all false N)

end Tfv.C17T
