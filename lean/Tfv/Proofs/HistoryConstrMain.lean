import Tfv.Proofs.HistoryConstrEngine2
/-!
# History independence in the shift form WITH constraints (C16), part 7: constraints of a schema, `instantiate`,
`applyT`, whole uses
-/
namespace Tfv.C16H
open Tfv Tfv.C03P Tfv.C16P Tfv.C03C Tfv.C16C Tfv.C18P

/-! ## 1. registering a constraint -/

theorem normC_appendC (σ₀ σ : Store) (c : Constr) :
    normC (σ₀.appendC σ) (c.shift σ₀.vars.length) = (normCE σ₀.vars.length σ c).shift σ₀.vars.length := by
  cases c with
  | sub r t s f =>
    simp only [Constr.shift, normC, normCE, followT_appendC]
  | elim r alts f =>
    simp only [Constr.shift, normC, normCE]
    rw [map_shiftL (fun t => followT_appendC σ₀ σ t) alts]

theorem any_shiftIds {m : Nat} {f g : Nat → Bool} (h : ∀ x, f (x + m) = g x) :
    ∀ l : List Nat, (shiftIds m l).any f = l.any g
  | [] => rfl
  | x :: xs => by rw [shiftIds_cons, List.any_cons, List.any_cons, h x, any_shiftIds h xs]

theorem informStore_appendC {σ₀ : Store} (id : Nat) : ∀ (vars : List Nat) (σ : Store),
    (∀ x, x ∈ vars → x < σ.vars.length) →
    informStore (id + σ₀.constrs.length) (shiftIds σ₀.vars.length vars) (σ₀.appendC σ) =
      σ₀.appendC (informStore id vars σ)
  | [], _, _ => rfl
  | v :: vars, σ, h => by
    have hv := h v List.mem_cons_self
    unfold informStore
    rw [shiftIds_cons]
    simp only [List.foldl_cons]
    rw [getVar_appendC_ge hv, shiftI_cset, getCset_appendC, insertSorted_shift, setCset_appendC]
    exact informStore_appendC id vars _ (fun x hx => h x (List.mem_cons_of_mem _ hx))

theorem addConstraint_historyC {L : Lang} {σ₀ σ : Store} {n : Nat} {c : Constr} (hc : Behind σ₀ σ)
    (hterms : ∀ u, u ∈ constrTerms c → TermScoped σ u) :
    addConstraint L n (σ₀.appendC σ) (c.shift σ₀.vars.length) =
      shR σ₀ (addConstraintE L σ₀.vars.length σ₀.constrs.length n σ c) := by
  have hid : (beyond σ₀).C (σ₀.appendC σ).constrs.length := hc.cfr _ (Nat.le_refl _)
  have hterms' : TermsInR (σ₀.appendC σ) (beyond σ₀).S (constrTerms (c.shift σ₀.vars.length)) := by
    rw [constrTerms_shift]; exact termsInB_iff.mpr hterms
  have hn := termsInR_normC hc hterms'
  obtain ⟨f1, hl1⟩ := frC_regStore hc hn
  rw [normC_appendC, regStore_appendC] at f1 hl1
  obtain ⟨hcR, gR⟩ := behind_of_frC f1
  rw [normC_appendC, constrTerms_shift] at hn
  have hnσ : ∀ u, u ∈ constrTerms (normCE σ₀.vars.length σ c) → TermScoped (regStore σ (normCE σ₀.vars.length σ c)) u :=
    gR.tss (termsInB_iff.mp hn)
  have hvars := varsOfTerms_in hcR (termsInB_iff.mpr hnσ)
  rw [varsOfTerms_appendC hcR hnσ] at hvars
  have hvarsσ : ∀ x, x ∈ varsOfTermsE σ₀.vars.length σ₀.constrs.length (regStore σ (normCE σ₀.vars.length σ c))
      (constrTerms (normCE σ₀.vars.length σ c)) → x < (regStore σ (normCE σ₀.vars.length σ c)).vars.length :=
    fun x hx => inB_iff.mp (hvars _ (mem_shiftIds.mpr ⟨x, hx, rfl⟩))
  have hlenR : (regStore σ (normCE σ₀.vars.length σ c)).constrs.length = σ.constrs.length + 1 := by
    unfold regStore; simp
  have hlt : σ.constrs.length < (regStore σ (normCE σ₀.vars.length σ c)).constrs.length := by omega
  rw [addConstraint_eq, addConstraintE_eq]
  simp only [normC_appendC, regStore_appendC, constrTerms_shift, varsOfTerms_appendC hcR hnσ]
  rw [any_shiftIds (fun x => by rw [(getVar_appendC_core σ₀ _ x).1, Option.isSome_map])]
  split
  · rfl
  · have e : (σ₀.appendC σ).constrs.length = σ.constrs.length + σ₀.constrs.length := by
      rw [clen_appendC, Nat.add_comm]
    rw [e, informStore_appendC _ _ _ hvarsσ]
    obtain ⟨f2, hl2⟩ := frC_informStore (σ.constrs.length + σ₀.constrs.length) (Nat.le_add_left _ _)
      (shiftIds σ₀.vars.length (varsOfTermsE σ₀.vars.length σ₀.constrs.length
        (regStore σ (normCE σ₀.vars.length σ c)) (constrTerms (normCE σ₀.vars.length σ c))))
      _ hcR (by rw [clen_appendC]; omega) hvars
    rw [informStore_appendC _ _ _ hvarsσ] at f2 hl2
    obtain ⟨hcI, gI⟩ := behind_of_frC f2
    have hltI : σ.constrs.length < (informStore σ.constrs.length _ (regStore σ (normCE σ₀.vars.length σ c))).constrs.length :=
      Nat.lt_of_lt_of_le hlt gI.clen
    rw [(all_historyC L σ₀ n).2.2.2.2.2.2.2.2.2.1 _ _ hcI hltI]
    cases fulfillE L σ₀.vars.length n _ σ.constrs.length with
    | error e => rfl
    | ok p => obtain ⟨σ1, d⟩ := p; rfl

theorem addConstraint_historyC_frame {L : Lang} {σ₀ σ σ1 : Store} {n : Nat} {c : Constr} (hc : Behind σ₀ σ)
    (hterms : ∀ u, u ∈ constrTerms c → TermScoped σ u)
    (h : addConstraintE L σ₀.vars.length σ₀.constrs.length n σ c = .ok σ1) : Behind σ₀ σ1 ∧ Grow σ σ1 := by
  have h1 := addConstraint_historyC (L := L) (n := n) hc hterms
  rw [h] at h1
  have hterms' : TermsInR (σ₀.appendC σ) (beyond σ₀).S (constrTerms (c.shift σ₀.vars.length)) := by
    rw [constrTerms_shift]; exact termsInB_iff.mpr hterms
  exact behind_of_frC (addConstraint_frC hc hterms' h1)

theorem termScoped_shift {L : Lang} {σ : Store} {kk base : Nat} (hb : base + kk ≤ σ.vars.length) {t : Term}
    (ht : okTermN L kk t = true) : TermScoped σ (t.shift base) := by
  intro v hv
  obtain ⟨w, hw, e⟩ := varIn_shift _ hv
  have := varIn_okTermN _ ht hw
  omega

theorem termsScoped_shiftL {L : Lang} {σ : Store} {kk base : Nat} (hb : base + kk ≤ σ.vars.length)
    {ts : List Term} (hts : okTermNL L kk ts = true) : ∀ u, u ∈ Term.shiftL base ts → TermScoped σ u := by
  intro u hu v hv
  obtain ⟨w, t, ht, hw, e⟩ := varIn_shiftL ts u hu hv
  have := varIn_okTermNL ts hts t ht hw
  omega

theorem addConstraints_historyC {L : Lang} {σ₀ : Store} (n base kk : Nat) : ∀ (cs : List CAst) (σ : Store),
    Behind σ₀ σ → base + kk ≤ σ.vars.length → (∀ c, c ∈ cs → okCAstN L kk c = true) →
    addConstraints L n (base + σ₀.vars.length) (σ₀.appendC σ) cs =
      shR σ₀ (addConstraintsE L σ₀.vars.length σ₀.constrs.length n base σ cs) ∧
    ∀ σ1, addConstraintsE L σ₀.vars.length σ₀.constrs.length n base σ cs = .ok σ1 → Behind σ₀ σ1 ∧ Grow σ σ1
  | [], σ, hc, _, _ => by
    unfold addConstraints addConstraintsE
    refine ⟨rfl, fun σ1 h => ?_⟩
    injection h with h; subst h; exact ⟨hc, Grow.refl _⟩
  | c :: cs, σ, hc, hb, hcs => by
    have hcc := hcs c List.mem_cons_self
    have tail : ∀ c', (∀ u, u ∈ constrTerms c' → TermScoped σ u) →
        ((match addConstraint L n (σ₀.appendC σ) (c'.shift σ₀.vars.length) with
          | .error e => .error e
          | .ok σ1 => addConstraints L n (base + σ₀.vars.length) σ1 cs) : R) =
        shR σ₀ (match addConstraintE L σ₀.vars.length σ₀.constrs.length n σ c' with
          | .error e => .error e
          | .ok σ1 => addConstraintsE L σ₀.vars.length σ₀.constrs.length n base σ1 cs) ∧
        ∀ σ2, ((match addConstraintE L σ₀.vars.length σ₀.constrs.length n σ c' with
          | .error e => .error e
          | .ok σ1 => addConstraintsE L σ₀.vars.length σ₀.constrs.length n base σ1 cs) : R) = .ok σ2 →
          Behind σ₀ σ2 ∧ Grow σ σ2 := by
      intro c' hterms
      rw [addConstraint_historyC hc hterms]
      cases e1 : addConstraintE L σ₀.vars.length σ₀.constrs.length n σ c' with
      | error e => exact ⟨rfl, fun σ2 h => nomatch h⟩
      | ok σ1 =>
        obtain ⟨hc1, g1⟩ := addConstraint_historyC_frame hc hterms e1
        obtain ⟨h2, h3⟩ := addConstraints_historyC n base kk cs σ1 hc1 (Nat.le_trans hb g1.vlen)
          (fun c'' hc' => hcs c'' (List.mem_cons_of_mem _ hc'))
        simp only [shR_ok]
        refine ⟨h2, fun σ2 h => ?_⟩
        obtain ⟨hc2, g2⟩ := h3 σ2 h
        exact ⟨hc2, g1.trans g2⟩
    cases c with
    | sub r t s =>
      unfold okCAstN at hcc
      rw [Bool.and_eq_true] at hcc
      unfold addConstraints addConstraintsE
      simp only []
      have hr := termScoped_shift hb hcc.1
      have ht := termScoped_shift hb hcc.2
      have := tail (.sub (r.shift base) (t.shift base) s false) (fun u hu => by
        rw [constrTerms_sub] at hu
        rcases List.mem_cons.mp hu with e | e
        · rw [e]; exact hr
        · rw [List.mem_singleton.mp e]; exact ht)
      simp only [Constr.shift, shift_shift] at this
      exact this
    | elim r alts =>
      unfold okCAstN at hcc
      rw [Bool.and_eq_true] at hcc
      unfold addConstraints addConstraintsE
      simp only []
      have hr := termScoped_shift hb hcc.1
      have halts := termsScoped_shiftL hb hcc.2
      have := tail (.elim (followTE σ₀.vars.length σ (r.shift base)) (Term.shiftL base alts) false) (fun u hu => by
        rw [constrTerms_elim] at hu
        rcases List.mem_cons.mp hu with e | e
        · rw [e]; exact followTE_scoped hc hr
        · exact halts u e)
      simp only [Constr.shift, shiftL_shiftL, ← followT_appendC, shift_shift] at this
      exact this

/-! ## 2. `instantiate` -/

theorem foldl_newVar_appendC {α : Type} (σ₀ : Store) (wc : Bool) : ∀ (l : List α) (σ : Store),
    l.foldl (fun σ _ => (newVar σ wc).1) (σ₀.appendC σ) = σ₀.appendC (l.foldl (fun σ _ => (newVar σ wc).1) σ)
  | [], _ => rfl
  | _ :: l, σ => by
    simp only [List.foldl_cons, newVar_appendC]
    exact foldl_newVar_appendC σ₀ wc l _

theorem allocVars_appendC (σ₀ σ : Store) (a b : Nat) :
    allocVars (σ₀.appendC σ) a b = σ₀.appendC (allocVars σ a b) := by
  unfold allocVars
  simp only [foldl_newVar_appendC]

theorem spineFollow_appendC (σ₀ σ : Store) (t : Term) :
    spineFollow (σ₀.appendC σ) (t.shift σ₀.vars.length) =
      (spineFollowE σ₀.vars.length σ t).shift σ₀.vars.length := by
  fun_induction spineFollowE σ₀.vars.length σ t with
  | case1 o l r ho ih =>
    rw [shift_app, shiftL_cons, shiftL_cons, shiftL_nil, spineFollow.eq_def]
    simp only [ho, ↓reduceIte, ih, shift_app, shiftL_cons, shiftL_nil]
    cases l with
    | var v =>
      simp only [shift_var]
      rw [← shift_var, followT_appendC]
    | app p args => simp only [shift_app]
  | case2 o l r ho =>
    rw [shift_app, shiftL_cons, shiftL_cons, shiftL_nil, spineFollow.eq_def]
    simp only [ho]
    rfl
  | case3 v =>
    rw [shift_var, spineFollow.eq_def]
    simp only []
    rw [← shift_var, followT_appendC]
  | case4 t h1 h2 =>
    cases t with
    | var v => exact absurd rfl (h2 v)
    | app o args =>
      rw [shift_app, spineFollow.eq_def]
      split
      · next o' l' r' he =>
        injection he with he1 he2
        exfalso
        cases args with
        | nil => rw [shiftL_nil] at he2; cases he2
        | cons a1 as1 =>
          cases as1 with
          | nil => rw [shiftL_cons, shiftL_nil] at he2; cases he2
          | cons a2 as2 =>
            cases as2 with
            | nil => exact h1 o a1 a2 rfl
            | cons a3 as3 => rw [shiftL_cons, shiftL_cons, shiftL_cons] at he2; cases he2
      · next v he => cases he
      · rfl

theorem instantiate_historyC {L : Lang} {σ₀ σ : Store} {n : Nat} {s : Schema} (hc : Behind σ₀ σ)
    (hcs : ∀ c, c ∈ s.constraints → okCAstN L (s.nvars + s.nwild) c = true)
    (hbody : okTermN L (s.nvars + s.nwild) s.body = true) :
    instantiate L n (σ₀.appendC σ) s =
      afterHistoryC σ₀ (instantiateE L σ₀.vars.length σ₀.constrs.length n σ s) ∧
    ∀ σ1 f, instantiateE L σ₀.vars.length σ₀.constrs.length n σ s = .ok (σ1, f) →
      Behind σ₀ σ1 ∧ Grow σ σ1 ∧ TermScoped σ1 f := by
  obtain ⟨f0, hlen⟩ := frC_allocVars (R := beyond σ₀) hc s.nvars s.nwild
  rw [allocVars_appendC] at f0 hlen
  obtain ⟨hc0, g0⟩ := behind_of_frC f0
  have hb : σ.vars.length + (s.nvars + s.nwild) ≤ (allocVars σ s.nvars s.nwild).vars.length := by
    rw [vlen_appendC, vlen_appendC] at hlen; omega
  obtain ⟨h1, h1f⟩ := addConstraints_historyC (L := L) (σ₀ := σ₀) n σ.vars.length (s.nvars + s.nwild)
    s.constraints _ hc0 hb hcs
  have e : (σ₀.appendC σ).vars.length = σ.vars.length + σ₀.vars.length := by rw [vlen_appendC, Nat.add_comm]
  unfold instantiate instantiateE
  simp only []
  rw [e, allocVars_appendC, h1]
  cases e1 : addConstraintsE L σ₀.vars.length σ₀.constrs.length n σ.vars.length
      (allocVars σ s.nvars s.nwild) s.constraints with
  | error e => exact ⟨rfl, fun σ1 f h => nomatch h⟩
  | ok σ1 =>
    obtain ⟨hc1, g1⟩ := h1f σ1 e1
    have hbody1 : TermScoped σ1 (s.body.shift σ.vars.length) := termScoped_shift (Nat.le_trans hb g1.vlen) hbody
    have hsp : TermScoped σ1 (spineFollowE σ₀.vars.length σ1 (s.body.shift σ.vars.length)) := by
      have := spineFollow_inR hc1 _ (hc1.tin hbody1)
      rw [spineFollow_appendC] at this
      exact termInB_iff.mp this
    simp only [shR_ok]
    have h2 := (all_historyC L σ₀ n).2.2.2.2.2.1 σ1 _ true hc1 hsp
    rw [← spineFollow_appendC, shift_shift] at h2
    refine ⟨h2, fun σ2 f h => ?_⟩
    rw [h] at h2
    obtain ⟨f2, hf⟩ := (all_frameC L n).2.2.2.2.2.1 _ _ _ _ _ _ hc1
      (by rw [← shift_shift, spineFollow_appendC]; exact hc1.tin hsp) h2
    obtain ⟨hc2, g2⟩ := behind_of_frC f2
    exact ⟨hc2, g0.trans (g1.trans g2), termInB_iff.mp hf⟩

/-! ## 3. `applyT`, chains of applications -/

theorem isFunT_shift (k : Nat) (t : Term) : isFunT (t.shift k) = isFunT t := by
  cases t with
  | var v => rw [shift_var]; rfl
  | app o args => rw [shift_app]; rfl

theorem applyPre_historyC {L : Lang} {σ₀ σ : Store} {n : Nat} {f0 : Term} (hc : Behind σ₀ σ)
    (hf : TermScoped σ f0) :
    applyPre L n (σ₀.appendC σ) (f0.shift σ₀.vars.length) = afterHistoryC σ₀ (applyPreE L σ₀.vars.length n σ f0) := by
  cases f0 with
  | app o args =>
    rw [shift_app]
    simp only [applyPre, applyPreE, shP_ok, shift_app]
  | var fv =>
    have hfv := termScoped_var.mp hf
    rw [shift_var]
    simp only [applyPre, applyPreE, newVar_appendC]
    have fA := frC_newVar hc false
    rw [newVar_appendC] at fA
    simp only [] at fA
    obtain ⟨hcA, gA⟩ := behind_of_frC fA
    have fB := frC_newVar hcA false
    rw [newVar_appendC] at fB
    simp only [] at fB
    obtain ⟨hcB, gB⟩ := behind_of_frC fB
    have gAB := gA.trans gB
    have hterm : TermScoped (newVar (newVar σ).1).1 (.app FUN [.var (newVar σ).2, .var (newVar (newVar σ).1).2]) := by
      apply termScoped_app.mpr
      intro t ht
      rcases List.mem_cons.mp ht with e | e
      · rw [e]; apply termScoped_var.mpr
        simp only [snd_newVar, length_newVar]; omega
      · rw [List.mem_singleton.mp e]; apply termScoped_var.mpr
        simp only [snd_newVar, length_newVar]; omega
    have hb := (all_historyC L σ₀ n).2.2.1 _ fv _ hcB (Nat.lt_of_lt_of_le hfv gAB.vlen) hterm
    simp only [shift_app, shiftL_cons, shiftL_nil, shift_var] at hb
    rw [hb]
    cases bindE L σ₀.vars.length n (newVar (newVar σ).1).1 fv
        (.app FUN [.var (newVar σ).2, .var (newVar (newVar σ).1).2]) with
    | error e => rfl
    | ok σ3 =>
      simp only [shR_ok, shP_ok]
      rw [← followT_appendC, shift_var]

theorem applyPre_historyC_frame {L : Lang} {σ₀ σ σ1 : Store} {n : Nat} {f0 f1 : Term} (hc : Behind σ₀ σ)
    (hf : TermScoped σ f0) (h : applyPreE L σ₀.vars.length n σ f0 = .ok (σ1, f1)) :
    Behind σ₀ σ1 ∧ Grow σ σ1 ∧ TermScoped σ1 f1 := by
  have h1 := applyPre_historyC (L := L) (n := n) hc hf
  rw [h] at h1
  obtain ⟨fr, hf1⟩ := applyPre_frC hc (hc.tin hf) h1
  obtain ⟨hc1, g1⟩ := behind_of_frC fr
  exact ⟨hc1, g1, termInB_iff.mp hf1⟩

theorem applyPost_historyC {L : Lang} {σ₀ σ : Store} {n : Nat} {x0 f1 : Term} {fixFlag : Bool}
    (hc : Behind σ₀ σ) (hf : TermScoped σ f1) (hx : TermScoped σ x0) :
    applyPost L n (σ₀.appendC σ) (x0.shift σ₀.vars.length) (f1.shift σ₀.vars.length) fixFlag =
      afterHistoryC σ₀ (applyPostE L σ₀.vars.length n σ x0 f1 fixFlag) := by
  cases f1 with
  | var v => rw [shift_var]; rfl
  | app o args =>
    have hargs := termScoped_app.mp hf
    rw [shift_app]
    by_cases hcase : ∃ l r, args = [l, r]
    · obtain ⟨l, r, rfl⟩ := hcase
      have hl := hargs l List.mem_cons_self
      have hr := hargs r (List.mem_cons_of_mem _ List.mem_cons_self)
      simp only [shiftL_cons, shiftL_nil, applyPost, applyPostE, isFunT_shift]
      split
      · have h1 := (all_historyC L σ₀ n).1 σ x0 l true false false hc hx hl
        rw [h1]
        cases e1 : unifyE L σ₀.vars.length n σ x0 l true false false with
        | error e => rfl
        | ok σ1 =>
          simp only [shR_ok]
          rw [e1] at h1
          have f1 := (all_frameC L n).1 _ _ _ _ _ _ _ _ hc (hc.tin hx) (hc.tin hl) h1
          obtain ⟨hc1, g1⟩ := behind_of_frC f1
          split
          · exact (all_historyC L σ₀ n).2.2.2.2.2.1 σ1 r true hc1 (g1.ts hr)
          · rfl
      · split
        · rfl
        · rfl
    · have e1 : applyPost L n (σ₀.appendC σ) (x0.shift σ₀.vars.length)
          (.app o (Term.shiftL σ₀.vars.length args)) fixFlag =
          if o == TOP then .ok (σ₀.appendC σ, .app TOP []) else .error .functionApplication := by
        unfold applyPost
        split
        · next o' l' r' he =>
          injection he with he1 he2
          exfalso
          apply hcase
          cases args with
          | nil => rw [shiftL_nil] at he2; cases he2
          | cons a1 as1 =>
            cases as1 with
            | nil => rw [shiftL_cons, shiftL_nil] at he2; cases he2
            | cons a2 as2 =>
              cases as2 with
              | nil => exact ⟨a1, a2, rfl⟩
              | cons a3 as3 => rw [shiftL_cons, shiftL_cons, shiftL_cons] at he2; cases he2
        · next he => injection he with he1 he2; subst he1; rfl
        · next he => cases he
      have e2 : applyPostE L σ₀.vars.length n σ x0 (.app o args) fixFlag =
          if o == TOP then .ok (σ, .app TOP []) else .error .functionApplication := by
        unfold applyPostE
        split
        · next o' l' r' he =>
          injection he with he1 he2
          exact absurd ⟨l', r', he2⟩ hcase
        · next he => injection he with he1 he2; subst he1; rfl
        · next he => cases he
      rw [e1, e2]
      split
      · rfl
      · rfl

theorem applyT_historyC {L : Lang} {σ₀ σ : Store} {n : Nat} {f x : Term} {fixFlag : Bool}
    (hc : Behind σ₀ σ) (hf : TermScoped σ f) (hx : TermScoped σ x) :
    applyT L n (σ₀.appendC σ) (f.shift σ₀.vars.length) (x.shift σ₀.vars.length) fixFlag =
      afterHistoryC σ₀ (applyTE L σ₀.vars.length n σ f x fixFlag) := by
  rw [applyT_eq, applyTE_eq, followT_appendC, followT_appendC,
    applyPre_historyC hc (followTE_scoped hc hf)]
  cases e1 : applyPreE L σ₀.vars.length n σ (followTE σ₀.vars.length σ f) with
  | error e => rfl
  | ok p =>
    obtain ⟨σ1, f1⟩ := p
    simp only [shP_ok]
    obtain ⟨hc1, g1, hf1⟩ := applyPre_historyC_frame hc (followTE_scoped hc hf) e1
    exact applyPost_historyC hc1 hf1 (g1.ts (followTE_scoped hc hx))

theorem applyT_historyC_frame {L : Lang} {σ₀ σ σ1 : Store} {n : Nat} {f x r : Term} {fixFlag : Bool}
    (hc : Behind σ₀ σ) (hf : TermScoped σ f) (hx : TermScoped σ x)
    (h : applyTE L σ₀.vars.length n σ f x fixFlag = .ok (σ1, r)) :
    Behind σ₀ σ1 ∧ Grow σ σ1 ∧ TermScoped σ1 r := by
  have h1 := applyT_historyC (L := L) (n := n) (fixFlag := fixFlag) hc hf hx
  rw [h] at h1
  obtain ⟨fr, hr⟩ := applyT_frC hc (hc.tin hf) (hc.tin hx) h1
  obtain ⟨hc1, g1⟩ := behind_of_frC fr
  exact ⟨hc1, g1, termInB_iff.mp hr⟩

theorem applyAll_historyC {L : Lang} {σ₀ : Store} (n : Nat) (fixFlag : Bool) :
    ∀ (xs : List Term) (σ : Store) (f : Term), Behind σ₀ σ → TermScoped σ f → (∀ x, x ∈ xs → TermScoped σ x) →
    applyAll L n fixFlag (σ₀.appendC σ) (f.shift σ₀.vars.length) (Term.shiftL σ₀.vars.length xs) =
      afterHistoryC σ₀ (applyAllE L σ₀.vars.length n fixFlag σ f xs)
  | [], σ, f, _, _, _ => by
    rw [shiftL_nil, applyAll, applyAllE]; rfl
  | x :: xs, σ, f, hc, hf, hxs => by
    have hx := hxs x List.mem_cons_self
    rw [shiftL_cons, applyAll, applyAllE, applyT_historyC hc hf hx]
    cases e1 : applyTE L σ₀.vars.length n σ f x fixFlag with
    | error e => rfl
    | ok p =>
      obtain ⟨σ1, r⟩ := p
      simp only [shP_ok]
      obtain ⟨hc1, g1, hr⟩ := applyT_historyC_frame hc hf hx e1
      exact applyAll_historyC n fixFlag xs σ1 r hc1 hr (g1.tss (fun t ht => hxs t (List.mem_cons_of_mem _ ht)))

/-! ## 4. one whole use -/

/-- one use of a schema WITH constraints behind ANY history, started in a store whose part behind the history is
closed, with arguments over allocated variables: the shifted outcome of the use with fuel offsets -/
theorem useSchema_historyC {L : Lang} {σ₀ σ : Store} {n : Nat} {fixFlag : Bool} {s : Schema} {xs : List Term}
    (hc : Behind σ₀ σ)
    (hcs : ∀ c, c ∈ s.constraints → okCAstN L (s.nvars + s.nwild) c = true)
    (hbody : okTermN L (s.nvars + s.nwild) s.body = true) (hxs : ∀ x, x ∈ xs → TermScoped σ x) :
    useSchema L n fixFlag (σ₀.appendC σ) s (Term.shiftL σ₀.vars.length xs) =
      afterHistoryC σ₀ (useSchemaE L σ₀.vars.length σ₀.constrs.length n fixFlag σ s xs) := by
  obtain ⟨h1, h1f⟩ := instantiate_historyC (L := L) (n := n) hc hcs hbody
  unfold useSchema useSchemaE
  rw [h1]
  cases e1 : instantiateE L σ₀.vars.length σ₀.constrs.length n σ s with
  | error e => rfl
  | ok p =>
    obtain ⟨σ1, f⟩ := p
    simp only [shP_ok]
    obtain ⟨hc1, g1, hf⟩ := h1f σ1 f e1
    exact applyAll_historyC n fixFlag xs σ1 f hc1 hf (g1.tss hxs)

end Tfv.C16H
