import Tfv.Proofs.ResolvedConstrEngineA
/-!
# The attachment invariant through the engine: `bind`, `above`, `below`
-/
namespace Tfv.C03R
open Tfv Tfv.C03P Tfv.C03C Tfv.C16P Tfv.C17E

theorem and_swap' {a b : Prop} (h : a ∧ b) : b ∧ a := ⟨h.2, h.1⟩

/-- after the store update of `bind`, re-checking the constraints of `v` discharges what the update made pending -/
theorem check_after {L : Lang} {n : Nat} (hcheck : CheckR L n) {σm σ2 σ' : Store} {v : Nat} {P : Pend}
    (pm : Pre L σm) (hvm : v < σm.vars.length) (p2 : Pre L σ2) (r12 : StepR L σm σ2)
    (i2 : Inv L σ2 (P.addP (fun c => c ∈ cs σm v))) (h : checkConstraints L n σ2 v = .ok σ') :
    StepR L σ2 σ' ∧ Inv L σ' P := by
  refine hcheck σ2 v σ' P p2 (Inv.mono ?_ i2) h
  intro c hc (hq : P.p c ∨ c ∈ cs σm v)
  rcases hq with hp | hm
  · exact Or.inl hp
  · exact Or.inr (r12.keep v c hvm (pm.okc.crange.get hm) hm hc)

theorem bind_stepR {L : Lang} (wf : WF L) {n : Nat} (hunify : UnifyR L n) (hcheck : CheckR L n) :
    BindR L (n+1) := by
  intro σ v t σ' P p hv ht hpre hnb hfin inv h
  have okc := p.okc
  have ok := okc.ok
  cases t with
  | var tv =>
    rw [bind_var_eq] at h
    split at h
    · cases h
    · split at h
      · injection h with h
        subst h
        exact and_swap' (inv_setVar (i := clearW σ v) okc rfl rfl (fun _ hρ => (sameCore_clearW σ v).sat hρ) inv)
      · next hne0 =>
        have hne : tv ≠ v := by simpa using hne0
        have htv : tv < σ.vars.length := okTerm_var.mp ht
        have hf : (getVar σ tv).bound = none := hfin
        obtain ⟨im0, rm⟩ := inv_bindVarStore okc p.ch hv htv hne hnb hf inv
        have im : Inv L (bindVarStore σ v tv)
            ((P.addG (boundsOf L σ v)).addP (fun c => c ∈ cs (bindVarStore σ v tv) v)) := im0
        have U := upd_bindVarStore hv tv
        have okB : OkStore L (bindVarStore σ v tv) := U.okStore ok
          (fun t' e => by injection e with e; subst e; exact ht)
          (ok.lower v) (ok.upper v) (ok.ordered v) (fun o args e => by cases e)
        have okcB : OkStoreC L (bindVarStore σ v tv) :=
          okc.transfer okB (Nat.le_of_eq U.len.symm) rfl (csR_bindVarStore okc.crange v tv)
        have pm : Pre L (bindVarStore σ v tv) :=
          ⟨okcB, (stepN_bindVarStore p.ch hnb hfin hne).ch, (wildMono_bindVarStore σ v tv).noWild p.nw⟩
        have hvm : v < (bindVarStore σ v tv).vars.length := by rw [U.len]; exact hv
        have htvm : tv < (bindVarStore σ v tv).vars.length := by rw [U.len]; exact htv
        split at h
        · cases h
        · next σ1 h1 =>
          have k1 : Pre L σ1 ∧ StepC L (bindVarStore σ v tv) σ1 ∧ StepR L (bindVarStore σ v tv) σ1 ∧
              Inv L σ1 ((P.addG (boundsOf L σ v)).addP (fun c => c ∈ cs (bindVarStore σ v tv) v)) ∧
              ∀ ρ, Sat L ρ σ1 → ∀ l, (getVar σ v).lower = some l → Sub L (.app l []) (ρ tv) := by
            split at h1
            · next l hl =>
              have h1a := okTerm_base (σ := bindVarStore σ v tv) (ok.lower v l hl).1 (ok.lower v l hl).2
              have h1b : okTerm L (bindVarStore σ v tv) (.var tv) = true := okTerm_var.mpr htvm
              obtain ⟨r, i⟩ := hunify _ (.app l []) (.var tv) false false σ1 _ pm h1a h1b im h1
              obtain ⟨p1, s1⟩ := unify_pre wf pm h1a h1b h1
              obtain ⟨_, hs⟩ := (all_soundC wf n).1 _ (.app l []) (.var tv) false false σ1 okcB h1a h1b h1
              refine ⟨p1, s1, r, i, fun ρ hρ l' hl' => ?_⟩
              rw [hl] at hl'; injection hl' with hl'; subst hl'
              have := hs rfl rfl ρ hρ
              rw [den_app, denL_nil, den_var] at this
              exact this
            · next hl =>
              injection h1 with h1; subst h1
              exact ⟨pm, StepC.refl okcB, StepR.refl L _, im, fun ρ _ l' hl' => by rw [hl] at hl'; cases hl'⟩
          obtain ⟨p1, s1, r1, i1, hlow⟩ := k1
          split at h
          · cases h
          · next σ2 h2 =>
            have k2 : Pre L σ2 ∧ StepC L σ1 σ2 ∧ StepR L σ1 σ2 ∧
                Inv L σ2 ((P.addG (boundsOf L σ v)).addP (fun c => c ∈ cs (bindVarStore σ v tv) v)) ∧
                ∀ ρ, Sat L ρ σ2 → ∀ u, (getVar σ v).upper = some u → Sub L (ρ tv) (.app u []) := by
              split at h2
              · next u hu =>
                have h2a : okTerm L σ1 (.var tv) = true := okTerm_var.mpr (Nat.lt_of_lt_of_le htvm s1.len)
                have h2b := okTerm_base (σ := σ1) (ok.upper v u hu).1 (ok.upper v u hu).2
                obtain ⟨r, i⟩ := hunify _ (.var tv) (.app u []) false false σ2 _ p1 h2a h2b i1 h2
                obtain ⟨p2, s2⟩ := unify_pre wf p1 h2a h2b h2
                obtain ⟨_, hs⟩ := (all_soundC wf n).1 _ (.var tv) (.app u []) false false σ2 p1.okc h2a h2b h2
                refine ⟨p2, s2, r, i, fun ρ hρ u' hu' => ?_⟩
                rw [hu] at hu'; injection hu' with hu'; subst hu'
                have := hs rfl rfl ρ hρ
                rw [den_app, denL_nil, den_var] at this
                exact this
              · next hu =>
                injection h2 with h2; subst h2
                exact ⟨p1, StepC.refl p1.okc, StepR.refl L _, i1, fun ρ _ u' hu' => by rw [hu] at hu'; cases hu'⟩
            obtain ⟨p2, s2, r2, i2, hupp⟩ := k2
            obtain ⟨r3, i3⟩ := check_after hcheck pm hvm p2 (r1.trans r2) i2 h
            obtain ⟨_, s3⟩ := check_pre wf p2 h
            have sB := s1.trans (s2.trans s3)
            have i3' : Inv L σ' P := by
              refine i3.dropG ?_
              intro ρ hρ _
              have heq : ρ v = ρ tv := by
                have := (sB.sat ρ hρ).bound v (.var tv) U.b_eq
                rw [den_var] at this; exact this
              refine ⟨fun x hx => ?_, fun x hx => ?_⟩
              · rw [heq]; exact hlow ρ (s2.sat ρ (s3.sat ρ hρ)) x hx
              · rw [heq]; exact hupp ρ (s3.sat ρ hρ) x hx
            exact ⟨rm.trans (r1.trans (r2.trans r3)), i3'⟩
  | app o args =>
    obtain ⟨ho, hlen, hargs⟩ := okTerm_app.mp ht
    rw [bind_app_eq] at h
    split at h
    · cases h
    · split at h
      · next h0 =>
        have h0 : arityOf L o = 0 := by simpa using h0
        have hnil : args = [] := List.eq_nil_of_length_eq_zero (hlen.trans h0)
        subst hnil
        split at h
        · cases h
        · next hl1 =>
          split at h
          · cases h
          · next hu1 =>
            have U := upd_bindBaseStore hv (.app o [])
            have ok' : OkStore L (bindBaseStore σ v (.app o [])) := U.okStore ok
              (fun t' e => by injection e with e; subst e; exact ht)
              (ok.lower v) (ok.upper v) (ok.ordered v)
              (fun o' args' e _ => by injection e with e; injection e with e1 e2; subst e1; exact h0)
            have okc' : OkStoreC L (bindBaseStore σ v (.app o [])) :=
              okc.transfer ok' (Nat.le_of_eq U.len.symm) rfl (csR_bindBaseStore okc.crange v _)
            have pm : Pre L (bindBaseStore σ v (.app o [])) :=
              ⟨okc', (stepN_bindBaseStore (t := .app o []) p.ch hnb trivial (fun e => Term.noConfusion e)).ch,
                (wildMono_bindBaseStore σ v _).noWild p.nw⟩
            have hvm : v < (bindBaseStore σ v (.app o [])).vars.length := by rw [U.len]; exact hv
            have heq : ∀ ρ, Sat L ρ (bindBaseStore σ v (.app o [])) → ρ v = .app o [] := fun ρ hρ => by
              have := hρ.bound v _ U.b_eq
              rw [den_app, denL_nil] at this; exact this
            have hsat : ∀ ρ, Sat L ρ (bindBaseStore σ v (.app o [])) → Sat L ρ σ := fun ρ hρ => by
              refine U.sat_back hρ (fun t' e => by rw [hnb] at e; cases e) ?_ ?_
              · intro x _ hx
                rw [heq ρ hρ]
                rcases (hpre o [] rfl h0).1 x hx with hh | hh
                · exact sub_base_of_opSub wf (ok.lower v x hx).2 h0 hh
                · rw [hx] at hl1; simp only [Option.any_some] at hl1; exact absurd hh hl1
              · intro x _ hx
                rw [heq ρ hρ]
                rcases (hpre o [] rfl h0).2 x hx with hh | hh
                · exact sub_base_of_opSub wf h0 (ok.upper v x hx).2 hh
                · rw [hx] at hu1; simp only [Option.any_some] at hu1; exact absurd hh hu1
            obtain ⟨im, rm⟩ := inv_bindBaseStore (o := o) okc p.ch hv hnb hsat inv
            obtain ⟨r3, i3⟩ := check_after hcheck pm hvm pm (StepR.refl L _) im h
            exact ⟨rm.trans r3, i3⟩
      · split at h
        · cases h
        · next hb =>
          simp only [Bool.or_eq_true, not_or, Bool.not_eq_true, Option.isSome_eq_false_iff,
            Option.isNone_iff_eq_none] at hb
          have U := upd_bindAppStore hv (.app o args)
          have Ub := upd_bindBaseStore hv (.app o args)
          have okb : OkStore L (bindBaseStore σ v (.app o args)) := Ub.okStore ok
            (fun t' e => by injection e with e; subst e; exact ht)
            (ok.lower v) (ok.upper v) (ok.ordered v)
            (fun o' args' _ hx => by rw [hb.1, hb.2] at hx; simp at hx)
          have ok' : OkStore L (bindAppStore σ v (.app o args)) := U.okStore ok
            (fun t' e => by injection e with e; subst e; exact ht)
            (ok.lower v) (ok.upper v) (ok.ordered v)
            (fun o' args' _ hx => by rw [hb.1, hb.2] at hx; simp at hx)
          have okc' : OkStoreC L (bindAppStore σ v (.app o args)) :=
            okc.transfer ok' (Nat.le_of_eq U.len.symm) (constrs_bindAppStore σ v _)
              (csR_bindAppStore okc.crange v _)
          have pm : Pre L (bindAppStore σ v (.app o args)) :=
            ⟨okc', (stepN_bindAppStore p.ch hnb).ch, (wildMono_bindAppStore σ v _).noWild p.nw⟩
          have hvm : v < (bindAppStore σ v (.app o args)).vars.length := by rw [U.len]; exact hv
          have hsat : ∀ ρ, Sat L ρ (bindAppStore σ v (.app o args)) → Sat L ρ σ := fun ρ hρ => by
            refine U.sat_back hρ (fun t' e => by rw [hnb] at e; cases e) ?_ ?_
            · intro x _ hx; rw [hb.1] at hx; cases hx
            · intro x _ hx; rw [hb.2] at hx; cases hx
          obtain ⟨im, rm⟩ := inv_bindAppStore okc p.ch hv hnb okb ht hsat inv
          obtain ⟨r3, i3⟩ := check_after hcheck pm hvm pm (StepR.refl L _) im h
          exact ⟨rm.trans r3, i3⟩

/-! ## `above` -/

theorem above_stepR {L : Lang} (wf : WF L) {n : Nat} (hbind : BindR L n) (hcheck : CheckR L n) :
    AboveR L (n+1) := by
  intro σ v new σ' P p hv hnew hnew0 hnb0 inv h
  have okc := p.okc
  have ok := okc.ok
  unfold above at h
  split at h
  · next htop =>
    have htop : new = TOP := by simpa using htop
    subst htop
    refine hbind σ v _ σ' P p hv (okTerm_base hnew hnew0) ?_ hnb0 trivial inv h
    intro o args e _
    injection e with e1 _
    subst e1
    refine ⟨fun l _ => Or.inl ?_, fun u _ => Or.inr ?_⟩
    · unfold opSub; simp
    · unfold opSub; simp
  · simp only [] at h
    split at h
    · cases h
    · next hnb =>
      have hnb : (getVar σ v).bound = none := by simpa using hnb
      split at h
      · cases h
      · next σr hr =>
        have c1 : SameCore σ (setVar σ v { (getVar σ v) with wildcard := false }) :=
          sameCore_setVar rfl rfl rfl
        have s0 : StepC L σ (setVar σ v { (getVar σ v) with wildcard := false }) :=
          StepC.of_sameCore okc c1 rfl okc.crange (wildMono_setVar (fun h => Bool.noConfusion h))
        have p0 : Pre L (setVar σ v { (getVar σ v) with wildcard := false }) :=
          ⟨s0.ok, (boundEq_setVar (σ := σ) (v := v) (i := { (getVar σ v) with wildcard := false }) rfl).chains p.ch,
            s0.wild.noWild p.nw⟩
        obtain ⟨i0, r0⟩ := inv_setVar (i := { (getVar σ v) with wildcard := false }) okc rfl rfl
          (fun _ hρ => c1.sat hρ) inv
        have key : Pre L σr ∧ StepR L σ σr ∧ Inv L σr P := by
          split at hr
          · cases hr
          · split at hr
            · cases hr
            · next hu1 hu2 =>
              split at hr
              · injection hr with hr
                subst hr
                exact ⟨p0, r0, i0⟩
              · split at hr
                · next hl2 =>
                  have U : Upd σ _ v _ _ _ :=
                    Upd.sameCore_left c1 (upd_setVar (by rw [length_setVar]; exact hv)
                      { bound := (getVar σ v).bound, lower := some new, upper := (getVar σ v).upper,
                        cset := (getVar σ v).cset })
                  have ok' : OkStore L _ := U.okStore ok
                    (fun t ht => by rw [hnb] at ht; cases ht)
                    (fun o ho => by injection ho with ho; subst ho; exact ⟨hnew, hnew0⟩)
                    (ok.upper v)
                    (fun x y hx hy => by
                      injection hx with hx; subst hx
                      rw [hy] at hu2
                      simpa using hu2)
                    (fun o args ht => by rw [hnb] at ht; cases ht)
                  have okc' : OkStoreC L _ :=
                    okc.transfer ok' (Nat.le_of_eq U.len.symm) rfl okc.crange
                  have hg : getVar (setVar σ v { (getVar σ v) with wildcard := false }) v =
                      { (getVar σ v) with wildcard := false } := getVar_setVar_eq _ hv
                  have pu : Pre L _ :=
                    ⟨okc', (boundEq_setVar (by rw [hg])).chains p0.ch,
                      (wildMono_setVar2 (σ := σ) (v := v) rfl rfl).noWild p.nw⟩
                  obtain ⟨iu, ru⟩ := inv_setVar (σ := setVar σ v { (getVar σ v) with wildcard := false }) (v := v)
                    (i := { bound := (getVar σ v).bound, lower := some new, upper := (getVar σ v).upper, cset := (getVar σ v).cset })
                    s0.ok (by rw [hg]) (by rw [hg])
                    (fun ρ hρ => c1.symm.sat (by
                      refine U.sat_back hρ (fun t ht => by rw [hnb] at ht; cases ht) ?_ ?_
                      · intro x _ hx
                        rw [hx] at hl2
                        simp only [Option.all_some] at hl2
                        exact sub_trans wf _ _ _ (sub_base_of_opSub wf (ok.lower v x hx).2 hnew0 hl2)
                          (hρ.lower v new (U.b_eq.trans hnb) U.l_eq)
                      · intro x _ hx
                        exact hρ.upper v x (U.b_eq.trans hnb) (U.u_eq.trans hx))) i0
                  obtain ⟨rc, ic⟩ := hcheck _ v σr P pu (iu.addP _) hr
                  obtain ⟨pr, _⟩ := check_pre wf pu hr
                  exact ⟨pr, r0.trans (ru.trans rc), ic⟩
                · cases hr
        obtain ⟨pr, rr, ir⟩ := key
        split at h
        · next hc =>
          split at h
          · next l hl =>
            have hl0 := pr.okc.ok.lower v l hl
            simp only [Bool.and_eq_true, beq_iff_eq] at hc
            have hvr : v < σr.vars.length := Nat.lt_of_lt_of_le hv rr.ext.len
            obtain ⟨r2, i2⟩ := hbind σr v _ σ' P pr hvr (okTerm_base hl0.1 hl0.2)
              (by
                intro o args e _
                injection e with e1 _
                subst e1
                refine ⟨fun l' hl' => Or.inl ?_, fun u hu => Or.inl ?_⟩
                · rw [hl] at hl'; injection hl' with hl'; subst hl'; exact opSub_self L _
                · rw [← hc.2, hl] at hu; injection hu with hu; subst hu; exact opSub_self L _)
              (by simpa using hc.1.1) trivial ir h
            exact ⟨rr.trans r2, i2⟩
          · injection h with h; subst h
            exact ⟨rr, ir⟩
        · injection h with h; subst h
          exact ⟨rr, ir⟩

/-! ## `below` -/

theorem below_stepR {L : Lang} (wf : WF L) {n : Nat} (hbind : BindR L n) (hcheck : CheckR L n) :
    BelowR L (n+1) := by
  intro σ v new σ' P p hv hnew hnew0 hnb0 inv h
  have okc := p.okc
  have ok := okc.ok
  unfold below at h
  split at h
  · next hbot =>
    have hbot : new = BOT := by simpa using hbot
    subst hbot
    refine hbind σ v _ σ' P p hv (okTerm_base hnew hnew0) ?_ hnb0 trivial inv h
    intro o args e _
    injection e with e1 _
    subst e1
    refine ⟨fun l _ => Or.inr ?_, fun u _ => Or.inl ?_⟩
    · unfold opSub; simp
    · unfold opSub; simp
  · simp only [] at h
    split at h
    · cases h
    · next hnb =>
      have hnb : (getVar σ v).bound = none := by simpa using hnb
      split at h
      · cases h
      · next σr hr =>
        have c1 : SameCore σ (setVar σ v { (getVar σ v) with wildcard := false }) :=
          sameCore_setVar rfl rfl rfl
        have s0 : StepC L σ (setVar σ v { (getVar σ v) with wildcard := false }) :=
          StepC.of_sameCore okc c1 rfl okc.crange (wildMono_setVar (fun h => Bool.noConfusion h))
        have p0 : Pre L (setVar σ v { (getVar σ v) with wildcard := false }) :=
          ⟨s0.ok, (boundEq_setVar (σ := σ) (v := v) (i := { (getVar σ v) with wildcard := false }) rfl).chains p.ch,
            s0.wild.noWild p.nw⟩
        obtain ⟨i0, r0⟩ := inv_setVar (i := { (getVar σ v) with wildcard := false }) okc rfl rfl
          (fun _ hρ => c1.sat hρ) inv
        have key : Pre L σr ∧ StepR L σ σr ∧ Inv L σr P := by
          split at hr
          · cases hr
          · split at hr
            · cases hr
            · next hl1 hl2 =>
              split at hr
              · injection hr with hr
                subst hr
                exact ⟨p0, r0, i0⟩
              · split at hr
                · next hu2 =>
                  have U : Upd σ _ v _ _ _ :=
                    Upd.sameCore_left c1 (upd_setVar (by rw [length_setVar]; exact hv)
                      { bound := (getVar σ v).bound, lower := (getVar σ v).lower, upper := some new,
                        cset := (getVar σ v).cset })
                  have ok' : OkStore L _ := U.okStore ok
                    (fun t ht => by rw [hnb] at ht; cases ht)
                    (ok.lower v)
                    (fun o ho => by injection ho with ho; subst ho; exact ⟨hnew, hnew0⟩)
                    (fun x y hx hy => by
                      injection hy with hy; subst hy
                      rw [hx] at hl2
                      simpa using hl2)
                    (fun o args ht => by rw [hnb] at ht; cases ht)
                  have okc' : OkStoreC L _ :=
                    okc.transfer ok' (Nat.le_of_eq U.len.symm) rfl okc.crange
                  have hg : getVar (setVar σ v { (getVar σ v) with wildcard := false }) v =
                      { (getVar σ v) with wildcard := false } := getVar_setVar_eq _ hv
                  have pu : Pre L _ :=
                    ⟨okc', (boundEq_setVar (by rw [hg])).chains p0.ch,
                      (wildMono_setVar2 (σ := σ) (v := v) rfl rfl).noWild p.nw⟩
                  obtain ⟨iu, ru⟩ := inv_setVar (σ := setVar σ v { (getVar σ v) with wildcard := false }) (v := v)
                    (i := { bound := (getVar σ v).bound, lower := (getVar σ v).lower, upper := some new, cset := (getVar σ v).cset })
                    s0.ok (by rw [hg]) (by rw [hg])
                    (fun ρ hρ => c1.symm.sat (by
                      refine U.sat_back hρ (fun t ht => by rw [hnb] at ht; cases ht) ?_ ?_
                      · intro x _ hx
                        exact hρ.lower v x (U.b_eq.trans hnb) (U.l_eq.trans hx)
                      · intro x _ hx
                        rw [hx] at hu2
                        simp only [Option.all_some] at hu2
                        exact sub_trans wf _ _ _ (hρ.upper v new (U.b_eq.trans hnb) U.u_eq)
                          (sub_base_of_opSub wf hnew0 (ok.upper v x hx).2 hu2))) i0
                  obtain ⟨rc, ic⟩ := hcheck _ v σr P pu (iu.addP _) hr
                  obtain ⟨pr, _⟩ := check_pre wf pu hr
                  exact ⟨pr, r0.trans (ru.trans rc), ic⟩
                · cases hr
        obtain ⟨pr, rr, ir⟩ := key
        split at h
        · next hc =>
          split at h
          · next u hu =>
            have hu0 := pr.okc.ok.upper v u hu
            simp only [Bool.and_eq_true, beq_iff_eq] at hc
            have hvr : v < σr.vars.length := Nat.lt_of_lt_of_le hv rr.ext.len
            obtain ⟨r2, i2⟩ := hbind σr v _ σ' P pr hvr (okTerm_base hu0.1 hu0.2)
              (by
                intro o args e _
                injection e with e1 _
                subst e1
                refine ⟨fun l hl => Or.inl ?_, fun u' hu' => Or.inl ?_⟩
                · rw [← hc.2, hu] at hl; injection hl with hl; subst hl; exact opSub_self L _
                · rw [hu] at hu'; injection hu' with hu'; subst hu'; exact opSub_self L _)
              (by simpa using hc.1.1) trivial ir h
            exact ⟨rr.trans r2, i2⟩
          · injection h with h; subst h
            exact ⟨rr, ir⟩
        · injection h with h; subst h
          exact ⟨rr, ir⟩

end Tfv.C03R
