"""Writes MANIFEST.json from the table below (kept valid at all times)."""
import json, os
HERE = os.path.dirname(os.path.dirname(os.path.abspath(__file__)))

NOTE = ("Trusted base: Lean 4.33 kernel; axioms per theorem audited on every run with #print axioms (subset of propext, "
        "Classical.choice, Quot.sound; no native_decide/bv_decide/sorry); gen_constants.py translator; correspondence harness "
        "(generators, adapters, canonicalisation) tying the hand-written model to /repo's current source; independent Python oracle per property.")

CLAIMED = {
 "C01": dict(text="Full: Lean theorems C01_decides/refl/trans/antisymm/strict/opSub prove for every well-formed language and all concrete types "
        "(no bound) that the model of is_subtype is exactly the declared order; the model is tied to type.py by differential testing on generated "
        "languages and related type pairs, plus an independent oracle of the declared order and order axioms on the implementation.",
        technique="Lean 4 proof (mutual structural induction over the nested type) + model/implementation correspondence check",
        ref="6/C01"),
 "C02": dict(text="Full: C02_apply_accepts/rejects/top/nonfunction and C02_unify_iff_sub prove for all well-formed languages and concrete (a, b, x) that the "
        "model of Type.apply accepts exactly the declared subtypes of the input and fails only with a type mismatch; tied to type.py by "
        "differential testing on generated triples incl. function-typed arguments, Top/Bottom, non-functions; independent oracle.",
        technique="Lean 4 proof (mutual structural induction, reuse of the C01 order theorems) + model/implementation correspondence check",
        ref="6/C02"),
 "C09": dict(text="Full for the repaired add_from: C09_step proves that one add_from call (plain and recursive branch, cycles allowed) keeps "
        "depends = transitive closure of from, C09_all lifts it to every call sequence in every order, C09_transitiveObjects proves the modelled "
        "rdflib transitive_objects (fuelled BFS) correct. Tie: recorded add_from call sequences of the real graph (random sequences and the calls made "
        "by add_expr/add_workflow) are replayed on the model and the depends sets compared; oracle recomputes the closure of the real from-triples.",
        technique="Lean 4 proof (invariant by induction over the operation sequence; path-splitting lemma) + model/implementation correspondence check",
        ref="6/C09"),
 "C14": dict(text="Full on the model: URI half - C14_uri_roundtrip_toks (decode . encode = id on every well-formed type), C14_uri_injective, C14_decode_sound, "
        "C14_resolve; text half - C14_text_roundtrip (parse_type's stack machine applied to the printed tokens of any printable concrete non-function type "
        "returns the type, via the generalised invariant C14_text_invariant), C14_text_injective, C14_alias_plain / C14_alias_param (an alias in type text "
        "denotes its definition), for every language, arity and nesting depth. Tie: uri / parse_type_uri / str(t) / parse_type / aliases of the implementation "
        "against the model on generated languages; the printed string is tied to the token list by tokenizing it on both sides.",
        technique="Lean 4 proof (generalised work-list and stack-machine invariants, mutual structural induction) + model/implementation correspondence check",
        ref="6/C14"),
 "C13": dict(text="Structure full on the model (annotation-free renderings): C13_parse_spine (the stack machine started on any stack consumes the rendering of a "
        "spine and leaves its denotation), C13_parse_render, C13_redundant_parens, C13_paren_prefix, C13_call_atoms, C13_render_tree / C13_call_eq_juxtaposition "
        "(f x y = (f x) y = f(x, y) = ((f)(x))(y)), C13_inputs, C13_source(_fresh), C13_tokens (tokenizer on any layout), C13_comments, C13_trivia, C13_text(_trivia). "
        "Partial: annotations `e : T`, the typed half (same types as programmatic construction) and Expr.match are covered by correspondence (typed builder model vs "
        "implementation on every notation and on Python construction) and by the oracle, not by a theorem.",
        technique="Lean 4 proof (stack-machine invariant generalised over the stack, induction over nested spines) + model/implementation correspondence check",
        ref="6/C13"),
 "C17": dict(text="Parsers full on the model: C17_parseType_no_internal / C17_parseExpr_no_internal (for every token list neither stack machine reaches an "
        "assertion/index/value error site, for any total expression builder), C17_parseType_consumes, C17_parseExpr_fuel_irrelevant (termination: the model's fuel "
        "never runs out, one token at least is consumed per step). Engine partial: instantiate/apply/unify/fix with constraints are tied by correspondence on "
        "constraint-heavy schemas and checked by the oracle (exception class in the declared families, 5 s bound per case); the interpreter recursion limit is outside "
        "the model (known finding D11).",
        technique="Lean 4 proof (loop invariants on the parser stacks, suffix/fuel argument) + model/implementation correspondence check + declared-error oracle",
        ref="6/C17"),
 "C20": dict(text="Full for the repaired Bag.add: over any decidable partial order C20_union_specific/general (kept = minimal/maximal elements), "
        "C20_union_perm, C20_union_nodup, C20_bag (reduced bag satisfied by an up-closed set iff every requirement is) and C20_bag_perm, for all "
        "insertion sequences of any length. Tie: TypeUnion/Bag of bag.py run on all permutations of generated sequences against the model; "
        "oracle evaluates both sides of the bag equivalence on up-sets generated by <=3 present types.",
        technique="Lean 4 proof (invariants by induction over insertions, abstract partial order) + model/implementation correspondence check",
        ref="6/C20"),
}

NOT_YET = {
}

ALL = [f"C{i:02d}" for i in range(1, 21)]


def main():
    checks = []
    for pid in ALL:
        if pid not in CLAIMED:
            continue
        c = CLAIMED[pid]
        checks.append({
            "property_id": pid,
            "quick_cmd": f"./vcheck {pid} --tier quick",
            "thorough_cmd": f"./vcheck {pid} --tier thorough",
            "evidence_file": f"evidence/{pid}.json",
            "replay_cmd_template": f"./vcheck {pid} --replay {{path}}",
            "engine": "tfv",
            "level_claimed": {"category": "proof", "text": c["text"], "design_ref": "DESIGN.md section " + c["ref"]},
            "level_note": c.get("note", NOTE),
            "technique": c["technique"],
        })
    na = [{"property_id": pid, "reason": NOT_YET.get(pid, "check not built yet in this snapshot; the technique applies (see DESIGN.md section 6) and the property will be claimed once its model, theorems and correspondence are registered")}
          for pid in ALL if pid not in CLAIMED]
    m = {
        "version": 1,
        "setup_cmd": "./setup.sh",
        "hooks": {
            "guard": "TRANSFORGE_VERIF",
            "enable": "environment variable TRANSFORGE_VERIF=1 (set by ./vcheck); pure Python, no build step",
            "baseline_off_cmd": "cd /repo && env -u TRANSFORGE_VERIF /venv/bin/python -m pytest -ra -q -p no:cacheprovider --timeout=900 --continue-on-collection-errors",
            "source_commits": HOOK_COMMITS,
            "add_only": True,
        },
        "engines": [{"name": "tfv", "path": "lean/ + harness/", "serves_properties": sorted(CLAIMED),
            "kind_free_text": "Lean 4 model + theorems (lean/Tfv), compiled line-protocol driver (tfv-driver), Python correspondence harness and oracles (harness/)"}],
        "checks": checks,
        "not_applicable": na,
        "notes": "All checks: ./vcheck <id> --tier quick|thorough; honours VERIF_SEED, VERIF_TIER, VERIF_REPO. known_findings.json lists fixed/known defects.",
    }
    with open(os.path.join(HERE, "MANIFEST.json"), "w") as f:
        json.dump(m, f, indent=1)


HOOK_COMMITS: list = ["2255141"]

if __name__ == "__main__":
    main()
