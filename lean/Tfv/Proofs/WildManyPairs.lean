import Tfv.Proofs.WildReachMarks
/-!
# Any number of wildcards: a LOCAL criterion under which the engine's test is the strict test

* `newVars_not_wild`, `newVars_fresh`: the variables of a skeleton (`newVars`) are never flagged as wildcards.
* `PairsOK σ n a b`: walking `a` and `b` in lockstep the way `match3` does, every pair of variables met at corresponding
  positions is the same variable or not two wildcards. (`WildLe1 σ` implies it for all terms: `pairsOK_of_wildLe1`.)
* `match3_engine_imp_strict_of_pairs`: under `PairsOK` the engine's `some true` is the strict matcher's `some true`.
* `fulfill_mark_strict_of_pairs`: a `fulfill` that marks, marks rightly if `PairsOK` holds in the resulting store.
-/
namespace Tfv.C03X
open Tfv Tfv.C03P Tfv.C03C Tfv.C03R Tfv.C16P Tfv.C17E

/-! ## skeleton variables are not wildcards -/

theorem newVars_fresh : ∀ (n : Nat) (σ : Store) (t : Term), t ∈ (newVars σ n).2 →
    ∃ v, t = .var v ∧ σ.vars.length ≤ v ∧ (getVar (newVars σ n).1 v).wildcard = false
  | 0, σ, t, h => by unfold newVars at h; cases h
  | n+1, σ, t, h => by
    unfold newVars at h ⊢
    simp only [List.mem_cons] at h ⊢
    have hlen : (newVar σ).1.vars.length = σ.vars.length + 1 := by unfold newVar; simp
    rcases h with h | h
    · refine ⟨σ.vars.length, ?_, Nat.le_refl _, ?_⟩
      · rw [h]; rfl
      · cases hw : (getVar (newVars (newVar σ).1 n).1 σ.vars.length).wildcard with
        | false => rfl
        | true =>
          have := wildMono_newVars n (newVar σ).1 _ hw
          unfold newVar getVar at this
          simp at this
    · obtain ⟨v, e, hl, hw⟩ := newVars_fresh n (newVar σ).1 t h
      exact ⟨v, e, by omega, hw⟩

/-! ## the local criterion -/

/-- lockstep walk of `a` and `b` as `match3` does it: no two DISTINCT wildcards at corresponding positions -/
def PairsOK (L : Lang) (σ : Store) : Nat → Term → Term → Prop
  | 0, _, _ => True
  | n+1, a, b =>
    match followT σ a, followT σ b with
    | .var av, .var bv => (getVar σ av).wildcard = true → (getVar σ bv).wildcard = true → av = bv
    | .app ao as, .app bo bs =>
      ao = bo → arityOf L ao ≠ 0 → ao ≠ BOT → bo ≠ TOP →
        ∀ v s t, (v, s, t) ∈ (varianceOf L ao).zip (as.zip bs) →
          (v = true → PairsOK L σ n s t) ∧ (v = false → PairsOK L σ n t s)
    | _, _ => True

theorem pairsOK_of_wildLe1 (L : Lang) {σ : Store} (hw : WildLe1 σ) : ∀ (n : Nat) (a b : Term), PairsOK L σ n a b
  | 0, _, _ => by unfold PairsOK; trivial
  | n+1, a, b => by
    unfold PairsOK
    split
    · intro h1 h2; exact hw _ _ h1 h2
    · intro _ _ _ _ _ s t _; exact ⟨fun _ => pairsOK_of_wildLe1 L hw n s t, fun _ => pairsOK_of_wildLe1 L hw n t s⟩
    · trivial

theorem loop_true_transfer_mem {L : Lang} {σ σ' : Store} {n m : Nat} {st aw : Bool} :
    ∀ (vs : List Bool) (ss ts : List Term) (acc : Option Bool),
      (∀ v s t, (v, s, t) ∈ vs.zip (ss.zip ts) →
        (v = true → match3 L σ n st aw s t = some true → match3 L σ' m st aw s t = some true) ∧
        (v = false → match3 L σ n st aw t s = some true → match3 L σ' m st aw t s = some true)) →
      match3.loop L σ n st aw vs ss ts acc = some true →
      match3.loop L σ' m st aw vs ss ts acc = some true := by
  intro vs
  induction vs with
  | nil =>
    intro ss ts acc _ h
    rw [loop_not_cons _ _ _ _ _ _ _ _ _ (by rintro ⟨_, _, _, _, _, _, h, _, _⟩; cases h)] at h ⊢
    exact h
  | cons v vs ihv =>
    intro ss ts acc ih h
    cases ss with
    | nil =>
      rw [loop_not_cons _ _ _ _ _ _ _ _ _ (by rintro ⟨_, _, _, _, _, _, _, h, _⟩; cases h)] at h ⊢
      exact h
    | cons s ss =>
      cases ts with
      | nil =>
        rw [loop_not_cons _ _ _ _ _ _ _ _ _ (by rintro ⟨_, _, _, _, _, _, _, _, h⟩; cases h)] at h ⊢
        exact h
      | cons t ts =>
        rw [match3.loop.eq_1] at h
        have ih0 := ih v s t (by simp)
        have ih' : ∀ v' s' t', (v', s', t') ∈ vs.zip (ss.zip ts) →
            (v' = true → match3 L σ n st aw s' t' = some true → match3 L σ' m st aw s' t' = some true) ∧
            (v' = false → match3 L σ n st aw t' s' = some true → match3 L σ' m st aw t' s' = some true) :=
          fun v' s' t' hm => ih v' s' t' (by simp [hm])
        split at h
        · cases h
        · exact absurd h (loop_none_ne_true L σ n st aw vs ss ts)
        · next hm =>
          have hl : (if v = true then match3 L σ' m st aw s t else match3 L σ' m st aw t s) = some true := by
            cases v with
            | true => simpa using ih0.1 rfl (by simpa using hm)
            | false => simpa using ih0.2 rfl (by simpa using hm)
          rw [match3.loop.eq_1, hl]
          exact ihv ss ts acc ih' h

/-- under `PairsOK` the test `fulfill` makes is the strict test (any number of wildcards in the store) -/
theorem match3_engine_imp_strict_of_pairs (L : Lang) (σ : Store) : ∀ (n : Nat) (a b : Term),
    PairsOK L σ n a b →
    match3 L σ n true false a b = some true → match3 L (dewild σ) n true false a b = some true
  | 0, a, b, _, h => by rw [match3_zero] at h; cases h
  | n+1, a, b, hp, h => by
    unfold PairsOK at hp
    rw [match3.eq_2] at h ⊢
    rw [followT_dewild, followT_dewild]
    cases ea : followT σ a with
    | var av =>
      cases eb : followT σ b with
      | var bv =>
        rw [ea, eb] at h hp
        simp only [getVar_dewild, Bool.and_self, Bool.or_false, Bool.false_eq_true, if_false]
        simp only [Bool.false_and, Bool.false_eq_true, if_false] at h
        split at h
        · next e1 =>
          have : av = bv := by
            simp only [Bool.or_eq_true, Bool.and_eq_true, beq_iff_eq] at e1
            rcases e1 with e1 | ⟨w1, w2⟩
            · exact e1
            · exact hp w1 w2
          simp only [this, beq_self_eq_true, if_true]
        · split at h <;> first | cases h | (split at h <;> cases h)
      | app bo bs =>
        rw [ea, eb] at h
        simp only [getVar_dewild, Bool.false_and]
        simp only [Bool.false_and] at h
        exact h
    | app ao as =>
      cases eb : followT σ b with
      | var bv =>
        rw [ea, eb] at h
        simp only [getVar_dewild, Bool.false_and]
        simp only [Bool.false_and] at h
        exact h
      | app bo bs =>
        rw [ea, eb] at h hp
        simp only [] at h hp ⊢
        split at h
        · next e => rw [if_pos e]
        · next e =>
          rw [if_neg e]
          split at h
          · next e2 => rw [if_pos e2]; exact h
          · next e2 =>
            rw [if_neg e2]
            split at h
            · cases h
            · next e3 =>
              rw [if_neg e3]
              have eo : ao = bo := by simpa using e3
              have ea0 : arityOf L ao ≠ 0 := by simpa using e2
              have eb1 : ao ≠ BOT ∧ bo ≠ TOP := by simpa using e
              refine loop_true_transfer_mem _ _ _ _ ?_ h
              intro v s t hm
              have := hp eo ea0 eb1.1 eb1.2 v s t hm
              exact ⟨fun hv => match3_engine_imp_strict_of_pairs L σ n s t (this.1 hv),
                     fun hv => match3_engine_imp_strict_of_pairs L σ n t s (this.2 hv)⟩

theorem pairsOK_vars_congr (L : Lang) {τ τ' : Store} (hv : τ'.vars = τ.vars) :
    ∀ (n : Nat) (a b : Term), PairsOK L τ n a b → PairsOK L τ' n a b
  | 0, _, _, _ => by unfold PairsOK; trivial
  | n+1, a, b, h => by
    have hf : ∀ t, followT τ' t = followT τ t := fun t => by
      unfold followT; rw [hv]
      exact follow_congr_bound (fun w => by unfold getVar; rw [hv]) _ _
    have hg : ∀ v, getVar τ' v = getVar τ v := fun v => by unfold getVar; rw [hv]
    unfold PairsOK at h ⊢
    rw [hf, hf]
    split at h
    · simpa only [hg] using h
    · intro eo e1 e2 e3 v s t hm
      exact ⟨fun hv' => pairsOK_vars_congr L hv n s t ((h eo e1 e2 e3 v s t hm).1 hv'),
             fun hv' => pairsOK_vars_congr L hv n t s ((h eo e1 e2 e3 v s t hm).2 hv')⟩
    · trivial

/-- a `fulfill` on a subtype record (ANY number of wildcards): if the outer test answers `some true` and the lockstep walk of
the two terms in the store after the `unify` meets no two distinct wildcards, the strict matcher answers `some true` on the
resulting store; otherwise the call changes nothing after its `unify`. -/
theorem fulfill_mark_strict_of_pairs {L : Lang} {k : Nat} {σ σ' : Store} {c : Nat} {d : Bool} {ref tgt : Term} {s f : Bool}
    (hg : getConstr σ c = .sub ref tgt s f) (h : fulfill L (k+1) σ c = .ok (σ', d))
    (hp : ∀ σ1, unify L k σ ref tgt true true false = .ok σ1 → PairsOK L σ1 (matchFuel σ1) ref tgt) :
    (match3 L (dewild σ') (matchFuel σ') true false ref tgt = some true ∧ d = true) ∨
    (∃ σ1, unify L k σ ref tgt true true false = .ok σ1 ∧ σ' = σ1 ∧
      match3 L σ1 (matchFuel σ1) true false ref tgt = none) := by
  obtain ⟨σ1, h1, hc⟩ := fulfill_sub_cases hg h
  rcases hc with ⟨hm, hv, hd⟩ | ⟨hm, he⟩
  · left
    refine ⟨?_, hd⟩
    have hf : matchFuel σ' = matchFuel σ1 := by unfold matchFuel; rw [hv]
    have hm' : match3 L σ' (matchFuel σ') true false ref tgt = some true := by
      rw [hf, match3_vars_congr L hv]; exact hm
    have hp' : PairsOK L σ' (matchFuel σ') ref tgt := by
      rw [hf]; exact pairsOK_vars_congr L hv _ _ _ (hp σ1 h1)
    exact match3_engine_imp_strict_of_pairs L σ' _ ref tgt hp' hm'
  · right
    exact ⟨σ1, h1, he, hm⟩

end Tfv.C03X
