"""Schemas as data, their rendering to real transforge objects and to protocol
lines, the canonical form of inference results, and generators.

Terms: ('v', i) for variable i, or (o, (args...)) for operator index o.
Schema: dict(nvars, nwild, body, constraints) where variables nvars..nvars+nwild-1
are wildcards, each occurring once; constraints are ('sub', ref, tgt, strict)
or ('elim', ref, [alts]).
"""
from __future__ import annotations
import itertools
import langgen as G

FUN, TOP, BOT, PROD, UNIT = G.FUN, G.TOP, G.BOT, G.PROD, G.UNIT


def is_var(t):
    return t[0] == 'v'


def term_sexp(t):
    if is_var(t):
        return f"(v {t[1]})"
    o, args = t
    if not args:
        return f"({o})"
    return "(" + str(o) + " " + " ".join(term_sexp(a) for a in args) + ")"


def constraint_sexp(c):
    if c[0] == 'sub':
        return f"(sub {term_sexp(c[1])} {term_sexp(c[2])} {'S' if c[3] else 'N'})"
    return "(elim " + term_sexp(c[1]) + " " + " ".join(term_sexp(a) for a in c[2]) + ")"


def schema_sexp(s):
    return (f"(schema {s['nvars']} {s['nwild']} {term_sexp(s['body'])} ("
            + " ".join(constraint_sexp(c) for c in s['constraints']) + "))")


def arg_sexp(a):
    nw, t = a
    return f"(arg {nw} {term_sexp(t)})"


VARNAMES = "xyzuvw"


def term_src(t, spec, nvars, spine=False):
    """Python source of a term inside a schema lambda"""
    if is_var(t):
        return VARNAMES[t[1]] if t[1] < nvars else "_"
    o, args = t
    if o == FUN and spine:
        a, b = args
        left = term_src(a, spec, nvars)
        if not is_var(a) and a[0] == FUN:
            left = "(" + left + ")"
        return left + " ** " + term_src(b, spec, nvars, spine=True)
    name = "OPS[%d]" % o
    if not args:
        return name
    return name + "(" + ", ".join(term_src(a, spec, nvars) for a in args) + ")"


def schema_src(s, spec):
    nv = s['nvars']
    body = s['body']
    # constraints attach to the last component of the spine, as in `a ** b ** r [cs]`
    cs = []
    for c in s['constraints']:
        if c[0] == 'sub':
            cs.append(f"{term_src(c[1], spec, nv)} {'<' if c[3] else '<='} {term_src(c[2], spec, nv)}")
        else:
            cs.append(f"{term_src(c[1], spec, nv)} << [{', '.join(term_src(a, spec, nv) for a in c[2])}]")
    spine = []
    t = body
    while not is_var(t) and t[0] == FUN:
        spine.append(t[1][0])
        t = t[1][1]
    parts = []
    for p in spine:
        src = term_src(p, spec, nv)
        parts.append(src)
    last = term_src(t, spec, nv)
    if cs:
        last = last + " [" + ", ".join(cs) + "]"
    src = " ** ".join(parts + [last])
    return "lambda " + ", ".join(VARNAMES[:nv]) + ": " + src


def build_schema(s, spec, ops):
    from transforge import type as T
    src = schema_src(s, spec)
    fn = eval(src, {"OPS": ops, "_": T._})
    return T.TypeSchema(fn) if s['nvars'] > 0 else _Thunk(fn), src


class _Thunk:
    """a schema without variables is evaluated on each use, like TypeSchema does"""
    def __init__(self, fn):
        self.fn = fn

    def instance(self):
        return self.fn().instance().fix(prefer_lower=True)


def arg_py(a, ops):
    from transforge import type as T
    nw, t = a

    def go(t):
        if is_var(t):
            return T._.instance()
        o, args = t
        return ops[o](*(go(x) for x in args))
    return go(t)


# -- the hook: re-check constraints in creation order -------------------------

_installed = False
_NEXT_ID = [0]          # creation number the next constraint will get


def peek_id():
    return _NEXT_ID[0]


def install_order_hook():
    global _installed
    from transforge import type as T
    if _installed and getattr(T.Constraint.__init__, "_verif", False):
        return
    orig = T.Constraint.__init__

    def init(self):
        self._verif_id = _NEXT_ID[0]
        _NEXT_ID[0] += 1
        orig(self)
    init._verif = True
    T.Constraint.__init__ = init
    T._verif_order = lambda cs: sorted(cs, key=lambda c: getattr(c, "_verif_id", 0))
    if not getattr(T, "_VERIF", False) or not hasattr(T.TypeVariable, "_verif_check_constraints"):
        # tree without the hook (or with the guard off): impose the order from outside
        def check_constraints(self):
            for c in T._verif_order(list(self._constraints)):
                if c.fulfill():
                    try:
                        self._constraints.remove(c)
                    except KeyError:
                        pass
        T.TypeVariable.check_constraints = check_constraints
    _installed = True


def set_order(fn):
    """fn(list of constraints) -> list; None restores creation order"""
    from transforge import type as T
    T._verif_order = fn or (lambda cs: sorted(cs, key=lambda c: getattr(c, "_verif_id", 0)))


# -- canonical rendering, identical to Tfv.renderResult ------------------------

def op_index(op, ops):
    for i, o in enumerate(ops):
        if o is op:
            return i
    raise KeyError(op)


def canon(result, ops):
    from transforge import type as T
    names = []

    def collect(t):
        t = t.follow()
        if isinstance(t, T.TypeVariable):
            if not any(t is n for n in names):
                names.append(t)
        else:
            for p in t.params:
                collect(p)

    def on(o):
        return "-" if o is None else str(op_index(o, ops))

    def render(t):
        t = t.follow()
        if isinstance(t, T.TypeVariable):
            for k, n in enumerate(names):
                if n is t:
                    return f"(v {k})"
            return f"(u {on(t.lower)} {on(t.upper)} {'W' if t.wildcard else '-'})"
        o = op_index(t.operator, ops)
        if not t.params:
            return f"({o})"
        return "(" + str(o) + " " + " ".join(render(p) for p in t.params) + ")"

    collect(result)
    body = render(result)
    bounds = "".join(f"[{on(v.lower)} {on(v.upper)} {'W' if v.wildcard else '-'}]" for v in names)
    cs = []
    for c in result.constraints():
        if isinstance(c, T.SubtypeConstraint):
            cs.append(f"(sub {render(c.reference)} {render(c.target)} {'S' if c.strict else 'N'} {'F' if c.fulfilled else 'P'})")
        else:
            cs.append("(elim " + render(c.reference) + " [" + " ".join(render(a) for a in c.alternatives) + "] " + ('F' if c.fulfilled else 'P') + ")")
    cs.sort()
    return body + " " + bounds + " {" + " ".join(cs) + "}"


ERRNAMES = {"TypeMismatch", "SubtypeMismatch", "FunctionApplicationError", "RecursiveTypeError", "ConstraintViolation"}


def run_chain(s, args, spec, ops):
    """instantiate and apply on the implementation: returns (observation string, list of results or None, error)"""
    from transforge import type as T
    install_order_hook()
    schema, src = build_schema(s, spec, ops)
    outs = []
    results = []
    try:
        f = schema.instance()
    except T.TypingError as e:
        return f"E@0:{type(e).__name__}", results, e
    except AssertionError as e:
        return f"E@0:Internal({assert_site(e)})", results, e
    except RecursionError as e:
        return "E@0:X:RecursionError", results, e
    except Exception as e:  # noqa
        return f"E@0:X:{type(e).__name__}", results, e
    outs.append(canon(f, ops))
    results.append(f)
    r = f
    for k, a in enumerate(args, start=1):
        try:
            r = r.apply(arg_py(a, ops))
        except T.TypingError as e:
            outs.append(f"E@{k}:{type(e).__name__}")
            return " | ".join(outs), results, e
        except AssertionError as e:
            outs.append(f"E@{k}:Internal({assert_site(e)})")
            return " | ".join(outs), results, e
        except RecursionError as e:
            outs.append(f"E@{k}:X:RecursionError")
            return " | ".join(outs), results, e
        except Exception as e:  # noqa
            outs.append(f"E@{k}:X:{type(e).__name__}")
            return " | ".join(outs), results, e
        outs.append(canon(r, ops))
        results.append(r)
    return " | ".join(outs), results, None


def assert_site(e):
    """map an AssertionError of type.py to the model's site name"""
    import traceback
    tb = traceback.extract_tb(e.__traceback__)
    fr = tb[-1]
    line = (fr.line or "").strip()
    if fr.name == "bind":
        return "bind:variable cannot be unified twice"
    if fr.name == "above":
        return "above:assert not self.bound"
    if fr.name == "below":
        return "below:assert not self.bound"
    if fr.name == "fulfill":
        return "fulfill:assert normalized"
    if fr.name == "inform":
        return "inform:assert not v.bound"
    return f"{fr.name}:{line[:40]}"


def infer_line(s, args):
    return "(infer " + schema_sexp(s) + "".join(" " + arg_sexp(a) for a in args) + ")"


# -- generators -----------------------------------------------------------------

def conc(t):
    """concrete data type -> term"""
    return (t[0], tuple(conc(a) for a in t[1]))


def gen_param(rng, spec, nvars, wild, depth=2):
    """a parameter/result type over the schema variables; `wild` is a list collecting wildcard ids"""
    r = rng.random()
    comps = [c for c in spec.compounds(builtin=False)]
    if r < 0.35 or depth == 0:
        return ('v', rng.randrange(nvars))
    if r < 0.45:
        b = spec.bases()
        return (rng.choice(b), ()) if b else (UNIT, ())
    if r < 0.8 and comps:
        o = rng.choice(comps)
        args = []
        for _ in range(spec.arity(o)):
            q = rng.random()
            if q < 0.15:
                wild.append(None)
                args.append(('w', None))
            else:
                args.append(gen_param(rng, spec, nvars, wild, depth - 1))
        return (o, tuple(args))
    if r < 0.92:
        return (FUN, (gen_param(rng, spec, nvars, wild, depth - 1), gen_param(rng, spec, nvars, wild, depth - 1)))
    return (PROD, (gen_param(rng, spec, nvars, wild, depth - 1), gen_param(rng, spec, nvars, wild, depth - 1)))


def number_wildcards(t, nvars, counter):
    if t[0] == 'w':
        k = counter[0]
        counter[0] += 1
        return ('v', nvars + k)
    if is_var(t):
        return t
    return (t[0], tuple(number_wildcards(a, nvars, counter) for a in t[1]))


def gen_alt(rng, spec, nvars, wild):
    """alternatives of the kinds in C06: concrete, F(b), G(b, _), G(_, b), nested; sometimes a bare variable"""
    comps = [c for c in spec.compounds(builtin=False)]
    r = rng.random()
    if r < 0.07:
        return ('v', rng.randrange(nvars))          # a bare variable as an alternative: x << [A, y]
    if r < 0.4 or not comps:
        return conc(G.gen_ty(rng, spec, rng.randint(0, 1), p_special=0.03, allow_fun=False))
    o = rng.choice(comps)
    args = []
    for _ in range(spec.arity(o)):
        q = rng.random()
        if q < 0.4:
            args.append(('v', rng.randrange(nvars)))
        elif q < 0.65:
            args.append(('w', None))
        elif q < 0.8 and comps:
            o2 = rng.choice(comps)
            args.append((o2, tuple(('v', rng.randrange(nvars)) if rng.random() < 0.5 else ('w', None) for _ in range(spec.arity(o2)))))
        else:
            args.append(conc(G.gen_ty(rng, spec, 0, p_special=0.03)))
    return (o, tuple(args))


def gen_schema(rng, spec, max_vars=3, max_params=3, p_constraints=0.6, kinds=("sub", "elim")):
    nvars = rng.randint(1, max_vars)
    wild = []
    params = [gen_param(rng, spec, nvars, wild) for _ in range(rng.randint(1, max_params))]
    result = gen_param(rng, spec, nvars, wild)
    body = result
    for p in reversed(params):
        body = (FUN, (p, body))
    constraints = []
    if rng.random() < p_constraints:
        for _ in range(rng.randint(1, 3)):
            kind = rng.choice(kinds)
            if kind == "sub":
                ref = ('v', rng.randrange(nvars)) if rng.random() < 0.8 else gen_param(rng, spec, nvars, wild, 1)
                q = rng.random()
                if q < 0.6:
                    b = spec.bases()
                    tgt = (rng.choice(b), ()) if b else (UNIT, ())
                elif q < 0.8:
                    tgt = ('v', rng.randrange(nvars))
                else:
                    tgt = gen_alt(rng, spec, nvars, wild)
                constraints.append(('sub', ref, tgt, rng.random() < 0.2))
            else:
                ref = ('v', rng.randrange(nvars)) if rng.random() < 0.85 else gen_param(rng, spec, nvars, wild, 1)
                alts = [gen_alt(rng, spec, nvars, wild) for _ in range(rng.randint(1, 4))]
                constraints.append(('elim', ref, alts))
    counter = [0]
    body = number_wildcards(body, nvars, counter)
    cs = []
    for c in constraints:
        if c[0] == 'sub':
            cs.append(('sub', number_wildcards(c[1], nvars, counter), number_wildcards(c[2], nvars, counter), c[3]))
        else:
            cs.append(('elim', number_wildcards(c[1], nvars, counter), [number_wildcards(a, nvars, counter) for a in c[2]]))
    # NOTE: evaluation order in Python: body subterms (and their wildcards) are created first, then constraints
    return {"nvars": nvars, "nwild": counter[0], "body": body, "constraints": cs}


def subst(t, theta, rng, spec):
    """instantiate a schema term with concrete types (wildcards -> random concrete)"""
    if is_var(t):
        if t[1] in theta:
            return theta[t[1]]
        return conc(G.gen_ty(rng, spec, 1, allow_fun=False))
    return (t[0], tuple(subst(a, theta, rng, spec) for a in t[1]))


def to_data(t):
    return (t[0], tuple(to_data(a) for a in t[1]))


def gen_args(rng, spec, s, p_valid=0.75, p_wild=0.1):
    """argument sequence: mostly instances of the parameters under a random assignment, walked down the hierarchy"""
    theta = {}
    chain_base = None
    bases = spec.bases()
    for i in range(s['nvars']):
        r = rng.random()
        if r < 0.6 and bases:
            if chain_base is None or rng.random() < 0.5:
                chain_base = rng.choice(bases)
            fam = [chain_base] + spec.ancestors(chain_base) + spec.descendants(chain_base)
            theta[i] = (rng.choice(fam), ())
        else:
            theta[i] = conc(G.gen_ty(rng, spec, 1, p_special=0.05, allow_fun=False))
    params = []
    t = s['body']
    while not is_var(t) and t[0] == FUN:
        params.append(t[1][0])
        t = t[1][1]
    n = rng.randint(1, len(params)) if params else 0
    if rng.random() < 0.08:
        n = len(params) + 1  # over-application
    args = []
    for i in range(n):
        if i < len(params) and rng.random() < p_valid:
            inst = to_data(subst(params[i], theta, rng, spec))
            a = G.perturb(rng, spec, inst, up=False, p=0.5, wrong=0.08)
        else:
            a = G.gen_ty(rng, spec, rng.randint(0, 2), p_special=0.1)
        a = conc(a)
        nw = 0
        if rng.random() < p_wild:
            a, nw = sprinkle_wildcards(rng, a)
        args.append((nw, a))
    return args


def sprinkle_wildcards(rng, t):
    counter = [0]

    def go(t, top):
        if not top and rng.random() < 0.3:
            k = counter[0]
            counter[0] += 1
            return ('v', k)
        return (t[0], tuple(go(a, False) for a in t[1]))
    r = go(t, True)
    return r, counter[0]
