"""C12 - a workflow's graph is the graph of its tools plugged together."""
from __future__ import annotations
import itertools
import langgen as G
import infer as I
import exprgen as X
import graphgen as GG
import wfgen as W

RULE = ("acyclic workflows of 1-5 tool applications over generated typed languages, with shared sources and shared intermediate results, tool expressions with "
        "annotated and un-annotated numbered inputs; built as WorkflowDict in every listing order of the applications (<= 4 applications, sampled beyond) and as "
        "RDF in the Workflow vocabulary, passthrough on and off; the graph of add_workflow is compared with the model's graph (blank-node isomorphism) and, by the "
        "oracle, with the implementation's own add_expr on the inlined expression (origin triples and the workflow's input/output/class triples removed); the "
        "returned resource->node map must be total, and shared exactly as resources are; inputs and output marked; all listing orders and the RDF form give "
        "isomorphic graphs or the same error; without passthrough the type every workflow source carries must be acceptable to every tool that uses it and above the type the source gets in an independently computed valid typing; plus a deferred-typing family (polymorphic tools x ** x, x ** x ** x on un-annotated sources that a later monomorphic tool constrains, mostly without passthrough); non-trivial = at least two applications; distinct by (language, workflow, switches)")
ASSUMPTIONS = ["listing order is imposed through an ordered set of tool outputs (what a Python set could produce)",
               "workflows in which the type of a workflow source is, contains, or is later given, a function type (a polymorphic operator over-applied through it) are not generated: "
               "the type node such an operator's step gets depends on the in-place normalisation of a type object shared through the source, which the "
               "value-based model does not have"]
TRUSTED = ["harness/wfgen.py", "harness/graphgen.py", "harness/iso.py (exact graph isomorphism by individualisation-refinement; rdflib.compare is not used)"]


def build(lang, wfobj, bits, passthrough):
    """add_workflow on the implementation; returns (text form | error string, graph, node map)"""
    from transforge.graph import WorkflowCompositionError
    g = GG.make_graph(lang, bits, passthrough=passthrough)
    I.install_order_hook()
    try:
        m = g.add_workflow(wfobj)
    except WorkflowCompositionError as ex:
        c = ex.__cause__
        return "E:WorkflowCompositionError:" + type(c).__name__, None, None
    except Exception as ex:  # noqa
        from transforge.expr import ApplicationError
        from transforge import type as T
        if isinstance(ex, ApplicationError):
            return "E:ApplicationError", None, None      # not a TypingError: add_workflow does not wrap it
        if isinstance(ex, T.TypingError):
            return "E:" + type(ex).__name__, None, None
        return "E:X:" + type(ex).__name__, None, None
    out = next(iter(g.objects(wfobj.root, __import__("transforge.namespace", fromlist=["TF"]).TF.output)), None)
    return GG.graph_text(g, lang, wfobj.root, out), g, m


def strip_wf(g, root, keep_io=False):
    """remove origin triples and the workflow-level triples"""
    from rdflib import Graph, RDF
    from transforge.namespace import TF
    h = Graph()
    for s, p, o in g:
        if p == TF.origin:
            continue
        if s == root and p in (TF.input, TF.output, RDF.type) and not keep_io:
            continue
        h.add((s, p, o))
    return h


def inlined(lang, wf, bits, source_types):
    """the single expression in which every tool input is replaced by the expression of the tool that produced it"""
    from transforge import expr as E
    from rdflib import BNode
    exprs = {}
    from transforge import type as T
    for s in wf["sources"]:
        st = source_types.get(s)
        # (a source whose uses determine no type is unconstrained: a source of its own, whatever variable object source_types handed out)
        exprs[s] = E.Source(st) if st is not None and not isinstance(st.follow(), T.TypeVariable) else E.Source()
    for out, text, ins in wf["apps"]:
        exprs[out] = lang.parse_expr(text, *[exprs[x] for x in ins])
    consumed = {x for _, _, ins in wf["apps"] for x in ins}
    final = [o for o, _, _ in wf["apps"] if o not in consumed][0]
    e = exprs[final]
    e.fix()
    g = GG.make_graph(lang, bits)
    root = W.res("workflow")
    # a resource consumed more than once is ONE expression object in the inlined expression; like add_workflow,
    # give every expression object one node (add_expr itself only memoises sources)
    from transforge.graph import TransformationGraph
    orig = TransformationGraph.add_expr

    def add_expr(self, expr, root, current=None, intermediate=False, origin=None):
        n = orig(self, expr, root, current, intermediate, origin)
        self.expr_nodes[expr] = n
        return n
    TransformationGraph.add_expr = add_expr
    try:
        g.add_expr(e, root)
    finally:
        TransformationGraph.add_expr = orig
    return g, exprs


def run(ctx):
    rng = ctx.rng
    nlang = 10 if ctx.tier == "quick" else 40
    for li in range(nlang):
        spec = G.gen_lang(rng, max_base=4, max_ops=2, max_arity=2)
        ops = spec.build()
        opdecls = X.gen_operators(rng, spec, p_constraints=0.15)
        listed = [(b, ()) for b in spec.bases()] + (G.gen_canon(rng, spec, max_items=2, depth=1) if rng.random() < 0.5 else [])
        try:
            lang, operators = X.build_typed_language(spec, ops, opdecls, canon=listed)
        except Exception:  # noqa
            ctx.count("language_rejected")
            continue
        ctx.setup(spec.sexp(), "ok T")
        ctx.setup("(aliases)", "ok")
        ctx.setup(X.operators_line(opdecls), "ok")
        ctx.setup("(canon F F " + " ".join(G.ty_sexp(t) for t in listed) + ")", "ok")
        for k in range(30 if ctx.tier == "quick" else 80):
            wf = None
            for _ in range(6):
                wf = wf or W.gen_workflow(rng, lang, spec, opdecls)
            if wf is None:
                ctx.count("workflow_generation_failed")
                continue
            bits = GG.gen_bits(rng)
            passthrough = rng.random() < 0.7
            one_workflow(ctx, li, spec, ops, opdecls, lang, listed, wf, bits, passthrough)
    deferred_typing_family(ctx)
    head_input_family(ctx)


def head_input_family(ctx):
    """a function-valued resource applied by a later tool (`1 2`: input 1 in head position). Found by the C12Iso proof
    (C12i_function_resource_breaks) and replayed: the consumer's application node is a fresh node that is never wired - known finding D32"""
    rng = ctx.rng
    decls = list(G.BUILTIN_DECLS) + [("A", [], None), ("B", [], None)]
    spec = G.LangSpec(decls)
    ops = spec.build()
    a, b = (spec.bases()[0], ()), (spec.bases()[1], ())
    opdecls = [("f", {"nvars": 0, "nwild": 0, "body": X.fun(a, b), "constraints": []}),
               ("g", {"nvars": 0, "nwild": 0, "body": X.fun(b, a), "constraints": []})]
    listed = [a, b]
    lang, operators = X.build_typed_language(spec, ops, opdecls, canon=listed)
    ctx.setup(spec.sexp(), "ok T")
    ctx.setup("(aliases)", "ok")
    ctx.setup(X.operators_line(opdecls), "ok")
    ctx.setup("(canon F F " + " ".join(G.ty_sexp(t) for t in listed) + ")", "ok")
    wf = {"sources": ["s0"], "apps": [("t0", "f", []), ("t1", "1 2", ["t0", "s0"]), ("t2", "g 1", ["t1"])]}
    bits = "".join("T" if n in ("with_types", "with_intermediate_types", "with_noncanonical_types", "with_operators") else "F" for n in GG.SWITCHES)
    ctx.count("head_input_workflows")
    one_workflow(ctx, ("hi", 0), spec, ops, opdecls, lang, listed, wf, bits, True)


def deferred_typing_family(ctx):
    """sources whose type is settled late: polymorphic tools (x ** x, x ** x ** x) used early on un-annotated sources that a later,
    monomorphic tool constrains - mostly without passthrough, where producers are fixed before all tools are known"""
    rng = ctx.rng
    FUN = G.FUN
    for li in range(3 if ctx.tier == "quick" else 10):
        decls = list(G.BUILTIN_DECLS) + [("A", [], None), ("B", [], None), ("C", [], None)]
        if rng.random() < 0.6:
            decls.append(("A1", [], 5))
        if rng.random() < 0.4:
            decls.append(("B1", [], 6))
        spec = G.LangSpec(decls)
        bases = spec.bases()
        ops = spec.build()
        x = ('v', 0)
        a, b = (bases[0], ()), (bases[1], ())
        c = (rng.choice(bases), ())
        opdecls = [("f", {"nvars": 1, "nwild": 0, "body": X.fun(x, x), "constraints": []}),
                   ("g", {"nvars": 0, "nwild": 0, "body": X.fun(a, a, b), "constraints": []}),
                   ("h", {"nvars": 1, "nwild": 0, "body": X.fun(x, x, x), "constraints": []}),
                   ("k", {"nvars": 0, "nwild": 0, "body": X.fun(b, c), "constraints": []}),
                   ("m", {"nvars": 0, "nwild": 0, "body": X.fun(c, a), "constraints": []})]
        listed = [(t, ()) for t in bases]
        try:
            lang, operators = X.build_typed_language(spec, ops, opdecls, canon=listed)
        except Exception:  # noqa
            ctx.count("language_rejected")
            continue
        ctx.setup(spec.sexp(), "ok T")
        ctx.setup("(aliases)", "ok")
        ctx.setup(X.operators_line(opdecls), "ok")
        ctx.setup("(canon F F " + " ".join(G.ty_sexp(t) for t in listed) + ")", "ok")
        # a source that an early, polymorphic tool leaves open and a later tool constrains (the producer is fixed before the later tool is parsed)
        for wf in ({"sources": ["s0"], "apps": [("t0", "f 1", ["s0"]), ("t1", "f 1", ["t0"]), ("t2", "g 1 2", ["t1", "s0"])]},
                   {"sources": ["s0", "s1"], "apps": [("t0", "h 1 2", ["s0", "s1"]), ("t1", "f 1", ["t0"]), ("t2", "g 2 1", ["t1", "s1"])]},
                   {"sources": ["s0"], "apps": [("t0", "f 1", ["s0"]), ("t1", "f 1", ["t0"]), ("t2", "f 1", ["t1"]), ("t3", "g 2 1", ["s0", "t2"])]}):
            ctx.count("deferred_typing_workflows")
            one_workflow(ctx, ("dt", li), spec, ops, opdecls, lang, listed, wf, GG.gen_bits(rng), False)
        for k in range(40 if ctx.tier == "quick" else 120):
            wf = None
            for _ in range(6):
                wf = wf or W.gen_workflow(rng, lang, spec, opdecls, max_apps=5, p_ann=0.05)
            if wf is None:
                ctx.count("workflow_generation_failed")
                continue
            ctx.count("deferred_typing_workflows")
            one_workflow(ctx, ("dt", li), spec, ops, opdecls, lang, listed, wf, GG.gen_bits(rng), rng.random() < 0.3)


def wf_line(wf, bits, passthrough, order):
    apps = " ".join("(" + wf["apps"][i][0] + " (" + " ".join(wf["apps"][i][2]) + ") " + G.str_sexp(wf["apps"][i][1]) + ")" for i in order)
    return f"(gworkflow {bits} {'T' if passthrough else 'F'} (" + " ".join(wf["sources"]) + ") " + apps + ")"


def one_workflow(ctx, li, spec, ops, opdecls, lang, listed, wf, bits, passthrough):
    from iso import isomorphic
    from transforge.namespace import TF
    n = len(wf["apps"])
    orders = list(itertools.permutations(range(n)))
    if len(orders) > 24:
        orders = [tuple(range(n))] + ctx.rng.sample(orders, 11)
    case = {"lang": spec.to_json(), "workflow": wf, "bits": bits, "passthrough": passthrough, "listed": listed, "opdecls": [[nm, s] for nm, s in opdecls]}
    replay = dict(case)
    results = {}
    first = None
    for order in orders:
        text, g, m = build(lang, W.make_dict(wf, list(order)), bits, passthrough)
        results[order] = text
        if first is None:
            first = (text, g, m)
            ctx.case(wf_line(wf, bits, passthrough, order), text, case, nontrivial=n >= 2, key=(li, bits, passthrough, str(wf)), cmp=GG.iso)
        else:
            ctx.evaluations += 1
    ctx.count("workflow_" + (first[0].split(" ")[0] if first[0].startswith("ok") else first[0]))
    ctx.count(f"apps_{n}")
    # order independence
    base = results[orders[0]]
    for order, text in results.items():
        if not GG.iso(text, base):
            ctx.fail(f"workflow {wf}: listing order {order} gives {summary(text)}, order {orders[0]} gives {summary(base)}",
                {"check": "order-dependence", "both_fail": text.startswith("E:") and base.startswith("E:")}, replay)
            break
    # RDF form
    try:
        rtext, rg, rm = build(lang, W.make_rdf(wf, lang), bits, passthrough)
    except Exception as ex:  # noqa
        rtext = "E:X:" + type(ex).__name__
    ctx.evaluations += 1
    if not GG.iso(rtext, base):
        ctx.fail(f"workflow {wf}: given as RDF it yields {summary(rtext)}, as an in-memory description {summary(base)}",
            {"check": "rdf-vs-dict", "both_fail": rtext.startswith("E:") and base.startswith("E:")}, replay)
    text, g, m = first
    if g is None:
        return
    root = W.res("workflow")
    # node map: total on resources, a function, shared exactly as resources are
    names = wf["sources"] + [a[0] for a in wf["apps"]]
    used = set(x for a in wf["apps"] for x in a[2]) | {a[0] for a in wf["apps"]}
    for nm in names:
        if nm in used and W.res(nm) not in m:
            ctx.fail(f"workflow {wf}: resource {nm} has no concept node in the returned map", {"check": "node-map-total"}, replay)
    if g is not None:
        if set(g.objects(root, TF.output)) != {m[W.res(final_of(wf))]} and bits[GG.SWITCHES.index("with_workflow_origin")] in "TF":
            ctx.fail(f"workflow {wf}: tf:output is {list(g.objects(root, TF.output))}, final resource's node {m[W.res(final_of(wf))]}", {"check": "output-mark"}, replay)
        want_inputs = {m[W.res(s)] for s in wf["sources"] if W.res(s) in m}
        if set(g.objects(root, TF.input)) != want_inputs:
            ctx.fail(f"workflow {wf}: tf:input nodes differ from the source nodes", {"check": "input-mark"}, replay)
    # inlined expression
    if passthrough and bits[GG.SWITCHES.index("with_intermediate_types")] == "T":
        # (with intermediate types off, add_workflow still types every tool's output - "inter-tool types" - while
        # the single inlined expression has no tool boundaries: the comparison is made with the switch on)
        try:
            stypes = {str(k)[len(W.NS):]: t for k, t in W.make_dict(wf).source_types(lang)}
            g2, exprs = inlined(lang, wf, bits, stypes)
            same = isomorphic(strip_wf(g, root), strip_wf(g2, root))
        except Exception as ex:  # noqa
            ctx.count("inline_failed_" + type(ex).__name__)
            same = True
        if not same:
            ctx.fail(f"workflow {wf} (switches {bits}): graph of add_workflow differs from the graph of add_expr on the inlined expression: "
                     + GG.diff_summary(GG.graph_text(strip_wf(g, root), lang, root, None), GG.graph_text(strip_wf(g2, root), lang, root, None)),
                {"check": "inline", "input_in_head_position": any(a[1].lstrip("( ")[:1].isdigit() for a in wf["apps"])}, replay)
    elif not passthrough:
        no_passthrough_oracle(ctx, wf, g, m, lang, replay)
        source_type_oracle(ctx, wf, g, m, lang, bits, replay)
    if passthrough:
        source_type_oracle(ctx, wf, g, m, lang, bits, replay, passthrough=True)


def no_passthrough_oracle(ctx, wf, g, m, lang, replay):
    """with passthrough off every consumption of a tool output is its OWN source node, fed by the producer's output node:
    a resource consumed k times (by tools whose expression mentions that input) has k distinct non-operation nodes taking it as input"""
    import re
    from transforge.namespace import TF
    srcs = set(wf["sources"])
    uses = {}
    for out, text, ins in wf["apps"]:
        mentioned = set(int(t) for t in re.findall(r"(?<![A-Za-z_])(\d+)", text))
        for i, x in enumerate(ins, start=1):
            if x not in srcs and i in mentioned:
                uses[x] = uses.get(x, 0) + 1
    for x, k in uses.items():
        producer = m[W.res(x)]
        feeders = set(g.subjects(TF["from"], producer))
        plain = [n for n in feeders if not list(g.objects(n, TF.via))]
        if len(plain) < k:
            ctx.fail(f"workflow {wf} without passthrough: the output of {x} is consumed {k} time(s) but only {len(plain)} stand-in source node(s) are fed by its node",
                {"check": "no-passthrough-link", "consumptions": k, "linked": len(plain)}, replay)
            return


def source_type_oracle(ctx, wf, g, m, lang, bits, replay, passthrough=False):
    """each source gets the most general type acceptable to all of its uses. Two necessary conditions are checked against
    types computed independently of add_workflow: (acceptable) every tool's expression still type-checks when each workflow source is given
    the type its node carries (a source whose node has no type, or Top, counts as Top) and every tool-output input is the producer's expression
    re-parsed in the same way (passthrough) resp. a fresh source (no passthrough);
    (most general) the type of each source in ONE valid typing - all tools parsed over shared, unfixed source objects, then fixed - is a
    subtype of the type its node carries"""
    from transforge import expr as E
    from transforge import type as T
    from transforge.namespace import TF
    if bits[GG.SWITCHES.index("with_types")] != "T" or bits[GG.SWITCHES.index("with_noncanonical_types")] != "T":
        return
    canon_uris = {}
    for c in lang.canon:
        try:
            canon_uris[lang.uri(c)] = c
        except Exception:  # noqa
            pass
    carried = {}
    for s_ in wf["sources"]:
        if W.res(s_) not in m:
            continue
        actual = [a for a in g.objects(m[W.res(s_)], TF.type)]
        if not actual:
            carried[s_] = T.Top()
        elif len(actual) == 1 and actual[0] in canon_uris:
            carried[s_] = canon_uris[actual[0]]
        elif len(actual) == 1 and actual[0] == TF.Top:
            carried[s_] = T.Top()
        else:
            return          # a non-canonical (blank node) type: not compared here
    try:
        stypes = {str(k)[len(W.NS):]: t for k, t in W.make_dict(wf).source_types(lang)}
        src = {s_: (E.Source(stypes[s_]) if stypes.get(s_) is not None and not isinstance(stypes[s_].follow(), T.TypeVariable) else E.Source())
               for s_ in wf["sources"]}
        exprs = []
        made = {}
        for out, text, ins in wf["apps"]:
            # with passthrough the producer's expression itself is the input; without, a fresh stand-in source
            e = lang.parse_expr(text, *[src[x] if x in src else (made[x] if passthrough else E.Source()) for x in ins])
            made[out] = e
            exprs.append(e)
        for e in exprs:
            e.fix()
    except Exception as ex:  # noqa
        ctx.count("source_type_oracle_skipped_" + type(ex).__name__)
        return
    ctx.count("source_type_oracle_workflows")
    # (acceptable)
    # (a source whose node has no type or Top is unconstrained: a fresh source; whether that is right is the second check)
    fixed = {s_: (E.Source(t) if t.operator != T.Top else E.Source()) for s_, t in carried.items()}
    made2 = {}
    for out, text, ins in wf["apps"]:
        if not all(x in fixed or x not in src for x in ins):
            continue
        if passthrough and not all(x in fixed or x in made2 for x in ins):
            continue
        try:
            # tool outputs: with passthrough the producer's expression (re-parsed over the carried source types) IS the input - its type may be
            # more specific than what the consumer's annotation says (a producer returning Bottom under `(1 : C * B)` is accepted where a fresh
            # source, which takes the annotated type, is not: thorough seed 71); without passthrough a fresh stand-in source, as in the code
            made2[out] = lang.parse_expr(text, *[fixed[x] if x in fixed else (made2[x] if passthrough else E.Source()) for x in ins])
        except Exception as ex:  # noqa
            ctx.fail(f"workflow {wf} ({'with' if passthrough else 'without'} passthrough): the sources carry the types { {k: str(v) for k, v in carried.items()} }, but tool {out} = `{text}` over "
                     f"{ins} does not accept them ({type(ex).__name__}): not a type acceptable to all uses",
                {"check": "source-type-acceptable"}, replay)
            return
    # (most general)
    for s_ in carried:
        t = src[s_].type.follow()
        if isinstance(t, T.TypeOperation):
            t = t.normalize()
            if any(isinstance(x, T.TypeVariable) for x in t):
                continue
            if carried[s_].operator == T.Top and t.operator != T.Top:
                ctx.fail(f"workflow {wf} ({'with' if passthrough else 'without'} passthrough): source {s_} carries no type, but its uses bound it: {t} is what one valid typing gives it",
                    {"check": "source-type-lost"}, replay)
                return
            if t.is_subtype(carried[s_]) is not True:
                ctx.fail(f"workflow {wf} ({'with' if passthrough else 'without'} passthrough): source {s_} carries type {carried[s_]}, but {t} is acceptable to all its uses and is not a subtype of it",
                    {"check": "source-most-general-type"}, replay)
                return


def final_of(wf):
    consumed = {x for _, _, ins in wf["apps"] for x in ins}
    return [o for o, _, _ in wf["apps"] if o not in consumed][0]


def summary(text):
    if text.startswith("E:"):
        return text
    return f"a graph of {text.count('(')} triples"


def replay(ctx, payload):
    from props.C03 import fix_schema
    inp = payload["input"]
    spec = G.LangSpec([(n, v, p) for n, v, p in inp["lang"]])
    ops = spec.build()
    opdecls = [(n, fix_schema(s)) for n, s in inp["opdecls"]]
    listed = [tt(t) for t in inp["listed"]]
    lang, operators = X.build_typed_language(spec, ops, opdecls, canon=listed)
    wf = inp["workflow"]
    wf = {"sources": wf["sources"], "apps": [(a[0], a[1], a[2]) for a in wf["apps"]]}
    c = type("C", (), {"failures": [], "stats": {}, "evaluations": 0, "rng": __import__("random").Random(0), "tier": "quick",
        "count": lambda self, n, k=1: None, "case": lambda self, *a, **k: None,
        "fail": lambda self, d, f, r: self.failures.append((d, f))})()
    one_workflow(c, 0, spec, ops, opdecls, lang, listed, wf, inp["bits"], inp["passthrough"])
    for d, f in c.failures:
        print(d[:600], f)
    print("oracle:", "holds" if not c.failures else "fails")
    return not c.failures


def tt(x):
    return (x[0], tuple(tt(a) for a in x[1]))
