import Tfv.Proofs.FrameConstr
import Tfv.Proofs.InferConstrCheck
/-!
# Frame lemmas for the inference engine WITH pending constraints (C16), part 2: the engine block

The whole mutual block (`unify`, `unifyList`, `bind`, `above`, `below`, `fix`, `fixList`, `checkConstraints`,
`checkList`, `fulfill`, `minimize`, `minLoop`), run on terms over a closed region, reads and writes the region
only (`FrC`). Arbitrary flags `subtype` / `skip_basic` / `skip_wildcard`. No well-formedness of the store.
-/
namespace Tfv.C16C
open Tfv Tfv.C03P Tfv.C16P Tfv.C03C

/-! ## 1. the statements proved by induction on the fuel -/

def UnifyF (L : Lang) (n : Nat) : Prop :=
  ∀ (R : Region) σ a b st sb sw σ', ClosedC σ R → TermInR σ R.S a → TermInR σ R.S b →
    unify L n σ a b st sb sw = .ok σ' → FrC R σ σ'

def UnifyListF (L : Lang) (n : Nat) : Prop :=
  ∀ (R : Region) σ vs xs ys st sb sw σ', ClosedC σ R → TermsInR σ R.S xs → TermsInR σ R.S ys →
    unifyList L n σ vs xs ys st sb sw = .ok σ' → FrC R σ σ'

def BindF (L : Lang) (n : Nat) : Prop :=
  ∀ (R : Region) σ v t σ', ClosedC σ R → InStore σ R.S v → TermInR σ R.S t →
    bind L n σ v t = .ok σ' → FrC R σ σ'

def AboveF (L : Lang) (n : Nat) : Prop :=
  ∀ (R : Region) σ v new σ', ClosedC σ R → InStore σ R.S v → above L n σ v new = .ok σ' → FrC R σ σ'

def BelowF (L : Lang) (n : Nat) : Prop :=
  ∀ (R : Region) σ v new σ', ClosedC σ R → InStore σ R.S v → below L n σ v new = .ok σ' → FrC R σ σ'

def FixF (L : Lang) (n : Nat) : Prop :=
  ∀ (R : Region) σ t pl σ' t', ClosedC σ R → TermInR σ R.S t →
    fix L n σ t pl = .ok (σ', t') → FrC R σ σ' ∧ TermInR σ' R.S t'

def FixListF (L : Lang) (n : Nat) : Prop :=
  ∀ (R : Region) σ vs ps pl σ', ClosedC σ R → TermsInR σ R.S ps →
    fixList L n σ vs ps pl = .ok σ' → FrC R σ σ'

def CheckF (L : Lang) (n : Nat) : Prop :=
  ∀ (R : Region) σ v σ', ClosedC σ R → InStore σ R.S v → checkConstraints L n σ v = .ok σ' → FrC R σ σ'

def CheckListF (L : Lang) (n : Nat) : Prop :=
  ∀ (R : Region) σ v cs σ', ClosedC σ R → InStore σ R.S v →
    (∀ c, c ∈ cs → R.C c ∧ c < σ.constrs.length) → checkList L n σ v cs = .ok σ' → FrC R σ σ'

def FulfillF (L : Lang) (n : Nat) : Prop :=
  ∀ (R : Region) σ c σ' d, ClosedC σ R → R.C c → c < σ.constrs.length →
    fulfill L n σ c = .ok (σ', d) → FrC R σ σ'

def MinimizeF (L : Lang) (n : Nat) : Prop :=
  ∀ (R : Region) σ c σ', ClosedC σ R → R.C c → c < σ.constrs.length →
    minimize L n σ c = .ok σ' → FrC R σ σ'

def MinLoopF (L : Lang) (n : Nat) : Prop :=
  ∀ (R : Region) σ alts mins σ' out, ClosedC σ R → TermsInR σ R.S alts → TermsInR σ R.S mins →
    minLoop L n σ alts mins = .ok (σ', out) → FrC R σ σ' ∧ TermsInR σ' R.S out

/-! ## 2. `above`, `below` -/

/-- re-checking the constraints of a member after an update of its record -/
theorem check_after_put {L : Lang} {n : Nat} (hcheck : CheckF L n) {R : Region} {σ σ1 σ' : Store}
    (f : FrC R σ σ1) {v : Nat} (hv : InStore σ1 R.S v) (i : VarInfo)
    (hb : ∀ b, i.bound = some b → TermInR σ1 R.S b) (hk : R.K i.cset)
    (h : checkConstraints L n (setVar σ1 v i) v = .ok σ') : FrC R σ σ' := by
  have f2 := f.put hv.1 i hb hk
  exact f2.trans (hcheck R _ v σ' f2.closed ⟨hv.1, by rw [length_setVar]; exact hv.2⟩ h)

theorem above_stepF {L : Lang} {n : Nat} (hbind : BindF L n) (hcheck : CheckF L n) : AboveF L (n+1) := by
  intro R σ v new σ' hc hv h
  unfold above at h
  split at h
  · exact hbind R σ v _ σ' hc hv (termInR_base _) h
  · simp only [] at h
    split at h
    · cases h
    · split at h
      · cases h
      · next σr hr =>
        have f1 : FrC R σ (setVar σ v { (getVar σ v) with wildcard := false }) :=
          (FrC.refl hc).put_same hv _ rfl rfl
        have hv1 : InStore (setVar σ v { (getVar σ v) with wildcard := false }) R.S v := f1.ins hv
        have key : FrC R σ σr := by
          split at hr
          · cases hr
          · split at hr
            · cases hr
            · split at hr
              · injection hr with hr; subst hr; exact f1
              · split at hr
                · refine check_after_put hcheck f1 hv1 _ ?_ ?_ hr
                  · exact fun b hb => f1.tin (hc.bnd v b hv.1 hb)
                  · exact hc.cs v hv.2 hv.1
                · cases hr
        split at h
        · split at h
          · exact key.trans (hbind R σr v _ σ' key.closed (key.ins hv) (termInR_base _) h)
          · injection h with h; subst h; exact key
        · injection h with h; subst h; exact key

theorem below_stepF {L : Lang} {n : Nat} (hbind : BindF L n) (hcheck : CheckF L n) : BelowF L (n+1) := by
  intro R σ v new σ' hc hv h
  unfold below at h
  split at h
  · exact hbind R σ v _ σ' hc hv (termInR_base _) h
  · simp only [] at h
    split at h
    · cases h
    · split at h
      · cases h
      · next σr hr =>
        have f1 : FrC R σ (setVar σ v { (getVar σ v) with wildcard := false }) :=
          (FrC.refl hc).put_same hv _ rfl rfl
        have hv1 : InStore (setVar σ v { (getVar σ v) with wildcard := false }) R.S v := f1.ins hv
        have key : FrC R σ σr := by
          split at hr
          · cases hr
          · split at hr
            · cases hr
            · split at hr
              · injection hr with hr; subst hr; exact f1
              · split at hr
                · refine check_after_put hcheck f1 hv1 _ ?_ ?_ hr
                  · exact fun b hb => f1.tin (hc.bnd v b hv.1 hb)
                  · exact hc.cs v hv.2 hv.1
                · cases hr
        split at h
        · split at h
          · exact key.trans (hbind R σr v _ σ' key.closed (key.ins hv) (termInR_base _) h)
          · injection h with h; subst h; exact key
        · injection h with h; subst h; exact key

/-! ## 3. `bind` -/

theorem bind_stepF {L : Lang} {n : Nat} (hunify : UnifyF L n) (hcheck : CheckF L n) : BindF L (n+1) := by
  intro R σ v t σ' hc hv ht h
  cases t with
  | var tv =>
    have htv := termInR_var.mp ht
    rw [bind_var_eq] at h
    split at h
    · cases h
    · split at h
      · injection h with h; subst h
        exact (FrC.refl hc).put_same hv _ rfl rfl
      · have fB := frC_bindVarStore hc hv htv
        split at h
        · cases h
        · next σ1 h1 =>
          have k1 : FrC R σ σ1 := by
            split at h1
            · exact fB.trans (hunify R _ _ _ _ _ _ σ1 fB.closed (termInR_base _) (fB.tin ht) h1)
            · injection h1 with h1; subst h1; exact fB
          split at h
          · cases h
          · next σ2 h2 =>
            have k2 : FrC R σ σ2 := by
              split at h2
              · exact k1.trans (hunify R _ _ _ _ _ _ σ2 k1.closed (k1.tin ht) (termInR_base _) h2)
              · injection h2 with h2; subst h2; exact k1
            exact k2.trans (hcheck R σ2 v σ' k2.closed (k2.ins hv) h)
  | app o args =>
    rw [bind_app_eq] at h
    split at h
    · cases h
    · split at h
      · split at h
        · cases h
        · split at h
          · cases h
          · have f := frC_bindBaseStore hc hv ht
            exact f.trans (hcheck R _ v σ' f.closed (f.ins hv) h)
      · split at h
        · cases h
        · have f := frC_bindAppStore hc hv ht
          exact f.trans (hcheck R _ v σ' f.closed (f.ins hv) h)

/-! ## 4. `unify`, `unifyList` -/

theorem unify_stepF {L : Lang} {n : Nat} (hunify : UnifyF L n) (hlist : UnifyListF L n) (hbind : BindF L n)
    (habove : AboveF L n) (hbelow : BelowF L n) : UnifyF L (n+1) := by
  intro R σ a b st sb sw σ' hc ha hb h
  have ha' := followT_inR hc ha
  have hb' := followT_inR hc hb
  unfold unify at h
  split at h
  · next av bv e1 e2 =>
    rw [e1] at ha'; rw [e2] at hb'
    split at h
    · exact hbind R σ av _ σ' hc (termInR_var.mp ha') hb' h
    · injection h with h; subst h; exact FrC.refl hc
  · next ao as bo bs e1 e2 =>
    rw [e1] at ha'; rw [e2] at hb'
    split at h
    · injection h with h; subst h; exact FrC.refl hc
    · split at h
      · split at h
        · injection h with h; subst h; exact FrC.refl hc
        · split at h
          · cases h
          · split at h
            · cases h
            · injection h with h; subst h; exact FrC.refl hc
      · split at h
        · exact hlist R σ _ as bs st sb sw σ' hc (termInR_app.mp ha') (termInR_app.mp hb') h
        · cases h
  · next av bo bs e1 e2 =>
    rw [e1] at ha'; rw [e2] at hb'
    have hav := termInR_var.mp ha'
    split at h
    · injection h with h; subst h; exact FrC.refl hc
    · split at h
      · cases h
      · split at h
        · split at h
          · injection h with h; subst h; exact FrC.refl hc
          · split at h
            · exact hbelow R σ av bo σ' hc hav h
            · exact hbind R σ av _ σ' hc hav hb' h
        · split at h
          · split at h
            next σ1 fresh hnv =>
            obtain ⟨f1, hfresh⟩ := frC_newVars (R := R) bs.length hc
            rw [hnv] at f1 hfresh
            simp only [] at f1 hfresh
            split at h
            · cases h
            · next σ2 hb2 =>
              have f2 := hbind R σ1 av _ σ2 f1.closed (f1.ins hav) (termInR_app.mpr hfresh) hb2
              have f12 := f1.trans f2
              exact f12.trans (hunify R σ2 _ _ st sb sw σ' f2.closed (f12.tin ha') (f12.tin hb') h)
          · exact hbind R σ av _ σ' hc hav hb' h
  · next ao as bv e1 e2 =>
    rw [e1] at ha'; rw [e2] at hb'
    have hbv := termInR_var.mp hb'
    split at h
    · injection h with h; subst h; exact FrC.refl hc
    · split at h
      · cases h
      · split at h
        · split at h
          · injection h with h; subst h; exact FrC.refl hc
          · split at h
            · exact habove R σ bv ao σ' hc hbv h
            · exact hbind R σ bv _ σ' hc hbv ha' h
        · split at h
          · split at h
            next σ1 fresh hnv =>
            obtain ⟨f1, hfresh⟩ := frC_newVars (R := R) as.length hc
            rw [hnv] at f1 hfresh
            simp only [] at f1 hfresh
            split at h
            · cases h
            · next σ2 hb2 =>
              have f2 := hbind R σ1 bv _ σ2 f1.closed (f1.ins hbv) (termInR_app.mpr hfresh) hb2
              have f12 := f1.trans f2
              exact f12.trans (hunify R σ2 _ _ st sb sw σ' f2.closed (f12.tin hb') (f12.tin hb') h)
          · exact hbind R σ bv _ σ' hc hbv ha' h

theorem unifyList_stepF {L : Lang} {n : Nat} (hunify : UnifyF L n) (hlist : UnifyListF L n) :
    UnifyListF L (n+1) := by
  intro R σ vs xs ys st sb sw σ' hc hxs hys h
  rcases unifyList_cases L n σ vs xs ys st sb sw with ⟨v, vs, x, xs, y, ys, rfl, rfl, rfl⟩ | e
  · rw [unifyList_cons] at h
    obtain ⟨hx, hxs'⟩ := termsInR_cons.mp hxs
    obtain ⟨hy, hys'⟩ := termsInR_cons.mp hys
    split at h
    · cases h
    · next σ1 h1 =>
      have f1 : FrC R σ σ1 := by
        cases v with
        | true => exact hunify R σ x y st sb sw σ1 hc hx hy (by simpa using h1)
        | false => exact hunify R σ y x st sb sw σ1 hc hy hx (by simpa using h1)
      exact f1.trans (hlist R σ1 vs xs ys st sb sw σ' f1.closed (f1.tins hxs') (f1.tins hys') h)
  · rw [e] at h
    injection h with h; subst h; exact FrC.refl hc

/-! ## 5. `fix`, `fixList` -/

theorem fix_stepF {L : Lang} {n : Nat} (hbind : BindF L n) (hlist : FixListF L n) : FixF L (n+1) := by
  intro R σ t pl σ' t' hc ht h
  have ht' := followT_inR hc ht
  unfold fix at h
  split at h
  · next o args e1 =>
    rw [e1] at ht'
    split at h
    · cases h
    · next σ1 h1 =>
      injection h with h
      injection h with h2 h3
      subst h2; subst h3
      have f := hlist R σ _ args pl σ1 hc (termInR_app.mp ht') h1
      exact ⟨f, f.tin ht'⟩
  · next v e1 =>
    rw [e1] at ht'
    have hv := termInR_var.mp ht'
    simp only [] at h
    split at h
    · cases h
    · next σ1 h1 =>
      injection h with h
      injection h with h2 h3
      subst h2; subst h3
      have f : FrC R σ σ1 := by
        split at h1
        · split at h1
          · exact hbind R σ v _ σ1 hc hv (termInR_base _) h1
          · injection h1 with h1; subst h1; exact FrC.refl hc
        · split at h1
          · split at h1
            · exact hbind R σ v _ σ1 hc hv (termInR_base _) h1
            · injection h1 with h1; subst h1; exact FrC.refl hc
          · injection h1 with h1; subst h1; exact FrC.refl hc
      exact ⟨f, followT_inR f.closed (f.tin ht')⟩

theorem fixList_stepF {L : Lang} {n : Nat} (hfix : FixF L n) (hlist : FixListF L n) :
    FixListF L (n+1) := by
  intro R σ vs ps pl σ' hc hps h
  match vs, ps with
  | [], ps =>
    rw [fixList_nil_left] at h
    injection h with h; subst h; exact FrC.refl hc
  | vs, [] =>
    rw [fixList_nil_right] at h
    injection h with h; subst h; exact FrC.refl hc
  | v :: vs, p :: ps =>
    rw [fixList_cons] at h
    obtain ⟨hp, hps'⟩ := termsInR_cons.mp hps
    split at h
    · cases h
    · next σ1 t1 h1 =>
      obtain ⟨f1, _⟩ := hfix R σ p _ σ1 t1 hc hp h1
      exact f1.trans (hlist R σ1 vs ps pl σ' f1.closed (f1.tins hps') h)

/-! ## 6. `checkConstraints`, `checkList` -/

theorem check_stepF {L : Lang} {n : Nat} (hlist : CheckListF L n) : CheckF L (n+1) := by
  intro R σ v σ' hc hv h
  unfold checkConstraints at h
  exact hlist R σ v _ σ' hc hv (fun c hm => hc.mem _ c (hc.cs v hv.2 hv.1) hm) h

theorem checkList_stepF {L : Lang} {n : Nat} (hful : FulfillF L n) (hlist : CheckListF L n) :
    CheckListF L (n+1) := by
  intro R σ v cs σ' hc hv hcs h
  cases cs with
  | nil =>
    unfold checkList at h
    injection h with h; subst h; exact FrC.refl hc
  | cons c cs =>
    unfold checkList at h
    split at h
    · cases h
    · next σ1 done h1 =>
      have hcc := hcs c List.mem_cons_self
      have f1 := hful R σ c σ1 done hc hcc.1 hcc.2 h1
      have hcs1 : ∀ d, d ∈ cs → R.C d ∧ d < σ1.constrs.length := fun d hd =>
        ⟨(hcs d (List.mem_cons_of_mem _ hd)).1,
         Nat.lt_of_lt_of_le (hcs d (List.mem_cons_of_mem _ hd)).2 f1.clen⟩
      simp only [] at h
      cases done with
      | false =>
        simp only [Bool.false_eq_true, if_false] at h
        exact f1.trans (hlist R σ1 v cs σ' f1.closed (f1.ins hv) hcs1 h)
      | true =>
        simp only [if_true] at h
        have hv1 := f1.ins hv
        have hk := f1.closed.cs v hv1.2 hv1.1
        have f2 : FrC R σ (setCset σ1 (getVar σ1 v).cset ((getCset σ1 (getVar σ1 v).cset).filter (· != c))) :=
          f1.set_cs hk (fun d hd => f1.closed.mem _ d hk (List.mem_filter.mp hd).1)
        exact f2.trans (hlist R _ v cs σ' f2.closed ⟨hv1.1, hv1.2⟩ hcs1 h)

/-! ## 7. `fulfill` -/

theorem ctm_sub {R : Region} {σ : Store} (hc : ClosedC σ R) {c : Nat} (hC : R.C c) (hlt : c < σ.constrs.length)
    {r t : Term} {s f : Bool} (e : getConstr σ c = .sub r t s f) : TermInR σ R.S r ∧ TermInR σ R.S t := by
  have h := hc.ctm c
  rw [e, constrTerms_sub] at h
  exact ⟨h r hlt hC List.mem_cons_self, h t hlt hC (List.mem_cons_of_mem _ List.mem_cons_self)⟩

theorem ctm_elim {R : Region} {σ : Store} (hc : ClosedC σ R) {c : Nat} (hC : R.C c) (hlt : c < σ.constrs.length)
    {r : Term} {alts : List Term} {f : Bool} (e : getConstr σ c = .elim r alts f) :
    TermInR σ R.S r ∧ TermsInR σ R.S alts := by
  have h := hc.ctm c
  rw [e, constrTerms_elim] at h
  exact ⟨h r hlt hC List.mem_cons_self, fun u hu => h u hlt hC (List.mem_cons_of_mem _ hu)⟩

theorem termsInR_sub {σ : Store} {S : Nat → Prop} {r t : Term} (s f : Bool) (hr : TermInR σ S r)
    (ht : TermInR σ S t) : TermsInR σ S (constrTerms (.sub r t s f)) := by
  rw [constrTerms_sub]
  exact termsInR_cons.mpr ⟨hr, termsInR_single ht⟩

theorem termsInR_elim {σ : Store} {S : Nat → Prop} {r : Term} {alts : List Term} (f : Bool)
    (hr : TermInR σ S r) (ha : TermsInR σ S alts) : TermsInR σ S (constrTerms (.elim r alts f)) := by
  rw [constrTerms_elim]
  exact termsInR_cons.mpr ⟨hr, ha⟩

theorem fulfill_stepF {L : Lang} {n : Nat} (hunify : UnifyF L n) (hmin : MinimizeF L n) :
    FulfillF L (n+1) := by
  intro R σ c σ' d hc hC hlt h
  unfold fulfill at h
  split at h
  · next ref tgt s0 f0 e0 =>
    obtain ⟨hr, htg⟩ := ctm_sub hc hC hlt e0
    split at h
    · cases h
    · next σ1 h1 =>
      have f1 := hunify R σ ref tgt true true false σ1 hc hr htg h1
      have hlt1 : c < σ1.constrs.length := Nat.lt_of_lt_of_le hlt f1.clen
      split at h
      · split at h
        · next r t s f e1 =>
          injection h with h
          injection h with h2 h3
          subst h2
          obtain ⟨hr1, ht1⟩ := ctm_sub f1.closed hC hlt1 e1
          exact f1.trans (frC_setConstr f1.closed hC _ (termsInR_sub s true hr1 ht1))
        · injection h with h
          injection h with h2 h3
          subst h2; exact f1
      · cases h
      · split at h
        · injection h with h
          injection h with h2 h3
          subst h2; exact f1
        · injection h with h
          injection h with h2 h3
          subst h2; exact f1
  · injection h with h
    injection h with h2 h3
    subst h2; exact FrC.refl hc
  · split at h
    · cases h
    · next σ1 h1 =>
      have f1 := hmin R σ c σ1 hc hC hlt h1
      have hlt1 : c < σ1.constrs.length := Nat.lt_of_lt_of_le hlt f1.clen
      split at h
      · next ref alts ful e1 =>
        obtain ⟨hr, halts⟩ := ctm_elim f1.closed hC hlt1 e1
        simp only [] at h
        have h := ite_error_inv h
        · split at h
          · cases h
          · next only e2 =>
            have honly : TermInR σ1 R.S only := by
              have hm : only ∈ [only] := List.mem_cons_self
              rw [← e2] at hm
              exact halts only (List.mem_filter.mp hm).1
            have f2 : FrC R σ1 (setConstr σ1 c (.elim ref [only] true)) :=
              frC_setConstr f1.closed hC _ (termsInR_elim true hr (termsInR_single honly))
            rw [e2] at h
            split at h
            · cases h
            · next σ3 h3 =>
              injection h with h
              injection h with h4 h5
              subst h4
              have f3 := hunify R _ ref only true false false σ3 f2.closed (f2.tin hr) (f2.tin honly) h3
              exact f1.trans (f2.trans f3)
          · injection h with h
            injection h with h4 h5
            subst h4
            exact f1.trans (frC_setConstr f1.closed hC _ (termsInR_elim ful hr (termsInR_filter _ halts)))
      · cases h

/-! ## 8. `minimize`, `minLoop` -/

theorem minimize_stepF {L : Lang} {n : Nat} (hloop : MinLoopF L n) : MinimizeF L (n+1) := by
  intro R σ c σ' hc hC hlt h
  unfold minimize at h
  split at h
  · next ref alts f0 e0 =>
    obtain ⟨hr, halts⟩ := ctm_elim hc hC hlt e0
    split at h
    · cases h
    · next σ1 minimized h1 =>
      obtain ⟨f1, hmin⟩ := hloop R σ alts [] σ1 minimized hc halts termsInR_nil h1
      split at h
      · next r1 a1 ful e1 =>
        injection h with h; subst h
        exact f1.trans (frC_setConstr f1.closed hC _
          (termsInR_elim ful (followT_inR f1.closed (f1.tin hr)) (termsInR_map_followT f1.closed hmin)))
      · injection h with h; subst h; exact f1
  · injection h with h; subst h; exact FrC.refl hc

theorem foldl_termsInR {σ : Store} {S : Nat → Prop} (f : List Term × Bool → Term → List Term × Bool)
    (hf : ∀ acc m, TermsInR σ S acc.1 → TermInR σ S m → TermsInR σ S (f acc m).1) :
    ∀ (ms : List Term) (acc : List Term × Bool), TermsInR σ S acc.1 → TermsInR σ S ms →
      TermsInR σ S (ms.foldl f acc).1
  | [], _, h, _ => h
  | m :: ms, acc, h, hms => by
    obtain ⟨h1, h2⟩ := termsInR_cons.mp hms
    simp only [List.foldl_cons]
    exact foldl_termsInR f hf ms _ (hf acc m h h1) h2

/-- the inner loop of `minLoop` keeps the kept alternatives inside the region -/
theorem minFold_in {σ : Store} {S : Nat → Prop} {obj : Term} (hobj' : TermInR σ S (followT σ obj))
    (c : Term → Bool) (d : List Term × Bool → Term → Bool)
    (mins : List Term) (hmins : TermsInR σ S mins) :
    TermsInR σ S (List.foldl (fun acc m => (acc.fst ++ [if c m = true then followT σ obj else m], d acc m))
      ([], true) mins).1 := by
  apply foldl_termsInR _ _ mins _ termsInR_nil hmins
  intro acc m h1 h2
  simp only []
  apply termsInR_append h1 (termsInR_single _)
  split
  · exact hobj'
  · exact h2

theorem minLoop_stepF {L : Lang} {n : Nat} (hfix : FixF L n) (hloop : MinLoopF L n) :
    MinLoopF L (n+1) := by
  intro R σ alts mins σ' out hc halts hmins h
  cases alts with
  | nil =>
    unfold minLoop at h
    injection h with h
    injection h with h1 h2
    subst h1; subst h2
    exact ⟨FrC.refl hc, hmins⟩
  | cons obj rest =>
    obtain ⟨hobj, hrest⟩ := termsInR_cons.mp halts
    have hobj' := followT_inR hc hobj
    unfold minLoop at h
    simp only [] at h
    split at h
    · split at h
      · cases h
      · next σ1 t h1 =>
        obtain ⟨f1, ht⟩ := hfix R σ _ true σ1 t hc hobj' h1
        obtain ⟨f2, hout⟩ := hloop R σ1 rest _ σ' out f1.closed (f1.tins hrest)
          (termsInR_append (f1.tins (minFold_in hobj' _ _ mins hmins)) (termsInR_single ht)) h
        exact ⟨f1.trans f2, hout⟩
    · refine hloop R σ rest _ σ' out hc hrest ?_ h
      exact minFold_in hobj' _ _ mins hmins

/-! ## 9. the induction on the fuel -/

theorem all_frameC (L : Lang) : ∀ n,
    UnifyF L n ∧ UnifyListF L n ∧ BindF L n ∧ AboveF L n ∧ BelowF L n ∧ FixF L n ∧ FixListF L n ∧
    CheckF L n ∧ CheckListF L n ∧ FulfillF L n ∧ MinimizeF L n ∧ MinLoopF L n
  | 0 => by
    refine ⟨?_, ?_, ?_, ?_, ?_, ?_, ?_, ?_, ?_, ?_, ?_, ?_⟩
    · intro R σ a b st sb sw σ' _ _ _ h; unfold unify at h; cases h
    · intro R σ vs xs ys st sb sw σ' _ _ _ h; unfold unifyList at h; cases h
    · intro R σ v t σ' _ _ _ h; unfold bind at h; cases h
    · intro R σ v new σ' _ _ h; unfold above at h; cases h
    · intro R σ v new σ' _ _ h; unfold below at h; cases h
    · intro R σ t pl σ' t' _ _ h; unfold fix at h; cases h
    · intro R σ vs ps pl σ' _ _ h; unfold fixList at h; cases h
    · intro R σ v σ' _ _ h; unfold checkConstraints at h; cases h
    · intro R σ v cs σ' _ _ _ h; unfold checkList at h; cases h
    · intro R σ c σ' d _ _ _ h; unfold fulfill at h; cases h
    · intro R σ c σ' _ _ _ h; unfold minimize at h; cases h
    · intro R σ alts mins σ' out _ _ _ h; unfold minLoop at h; cases h
  | n+1 => by
    obtain ⟨h1, h2, h3, h4, h5, h6, h7, h8, h9, h10, h11, h12⟩ := all_frameC L n
    exact ⟨unify_stepF h1 h2 h3 h4 h5, unifyList_stepF h1 h2, bind_stepF h1 h8,
      above_stepF h3 h8, below_stepF h3 h8, fix_stepF h3 h7, fixList_stepF h6 h7,
      check_stepF h9, checkList_stepF h10 h9, fulfill_stepF h1 h11, minimize_stepF h12,
      minLoop_stepF h6 h12⟩

end Tfv.C16C
