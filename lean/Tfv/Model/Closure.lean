/-!
# `add_from` and the `depends` relation (graph.py, as repaired:
"fix: add_from keeps tf:depends the transitive closure of tf:from")

Nodes are numbers; `from` and `depends` are lists of pairs read as sets.
-/
namespace Tfv

abbrev Rel := List (Nat × Nat)

/-- `objects(b, p)` -/
def objectsOf (r : Rel) (b : Nat) : List Nat := (r.filter (fun p => p.1 == b)).map (·.2)
/-- `subjects(p, a)` -/
def subjectsOf (r : Rel) (a : Nat) : List Nat := (r.filter (fun p => p.2 == a)).map (·.1)

/-- nodes reachable from the frontier in at most `fuel` rounds (rdflib's
`transitive_objects(b, from)` yields `b` itself and everything reachable) -/
def reachFrom (f : Rel) : Nat → List Nat → List Nat → List Nat
  | 0, _, seen => seen
  | fuel+1, frontier, seen =>
    let next := (frontier.flatMap (objectsOf f)).eraseDups.filter (fun x => !seen.contains x)
    if next.isEmpty then seen else reachFrom f fuel next (seen ++ next)

def transitiveObjects (f : Rel) (b : Nat) : List Nat := reachFrom f (f.length + 1) [b] [b]

structure FD where
  frm : Rel := []
  dep : Rel := []
  deriving Repr, Inhabited

/-- the cross product added to `depends` (a set: pairs already present are not repeated) -/
def crossAdd (d : Rel) (srcs tgts : List Nat) : Rel :=
  d ++ ((srcs.flatMap (fun s => tgts.map (fun t => (s, t)))).eraseDups.filter (fun p => !d.contains p))

/-- `add_from(a, b, recursive)` with `with_dependencies` on; `tobj` is the
result of `transitive_objects(b, from)` on the graph that already contains the
new edge (only used when `recursive`). -/
def addFromWith (g : FD) (a b : Nat) (recursive : Bool) (tobj : List Nat) : FD :=
  let f' := (a, b) :: g.frm
  let tgts := b :: (if recursive then tobj else objectsOf g.dep b)
  let srcs := a :: subjectsOf g.dep a
  { frm := f', dep := crossAdd g.dep srcs tgts }

def addFrom (g : FD) (a b : Nat) (recursive : Bool) : FD :=
  addFromWith g a b recursive (transitiveObjects ((a, b) :: g.frm) b)

end Tfv
