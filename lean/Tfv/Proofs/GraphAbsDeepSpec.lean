import Tfv.Model.GraphAbs
import Tfv.Proofs.FlowGenS
/-!
# C08 on expanded composite operators at any depth: the class `HofA` and the declarative layout `flowHA`

The spine view of an `AExpr`, the class of expressions all of whose application spines have an operator at their
head (abstractions in argument position, at any depth, bodies again in the class), and the layout: which node every
sub-expression gets, which internal nodes are made, and the `from` edges, as *computable lists* (so that a layout can
be evaluated by `decide`). The layout is `flowHO` (Spec/Flow.lean) extended by the parameter table and by one more
kind of argument: an abstraction `λ ps. body` contributes an internal node `λ` like a passed operation; its
parameters denote `λ` inside the body; the node of the argument is the node of the body; and the body's node is
*not* fed by `λ` (no edge `node(body) → λ` is added for the argument; `fed = false`).
-/
namespace Tfv.C08P
open Tfv

/-- the head of the spine: `h` in `h a₁ … aₙ` -/
def headOfA : AExpr → AExpr
  | .app f _ _ => headOfA f
  | e => e

/-- the arguments of the spine, left to right -/
def argsOfA : AExpr → List AExpr
  | .app f x _ => argsOfA f ++ [x]
  | _ => []

/-- Every application spine, at any depth (inside arguments and inside the bodies of abstractions), has an operator
at its head. Leaves are sources and parameters (of any type: as data, or passed as operations). An abstraction is
in the class when its body is; the theorems are about expressions of the class with an operator at the head, so an
abstraction is only ever met as an argument. -/
inductive HofA : AExpr → Prop
  | src (id : Nat) (l : Option String) (ty : Term) : HofA (.src id l ty)
  | pvar (id : Nat) (ty : Term) : HofA (.pvar id ty)
  | lam (ps : List Nat) (body : AExpr) (ty : Term) : HofA body → HofA (.lam ps body ty)
  | spine (e : AExpr) (name : String) (ty : Term) :
      headOfA e = .op name ty → (∀ a ∈ argsOfA e, HofA a) → HofA e

/-- executable check of `HofA` (`hofA_iff`) -/
def hofA : AExpr → Bool
  | .src _ _ _ => true
  | .pvar _ _ => true
  | .op _ _ => true
  | .lam _ body _ => hofA body
  | .app f x _ => (match headOfA f with | .op _ _ => true | _ => false) && hofA f && hofA x

/-! ## the layout -/

/-- one argument of a spine as the receiving step sees it -/
structure HaArg where
  /-- the node of the argument (for an abstraction: the node of its body) -/
  node : Nat
  /-- the internal node in front of it (function type) -/
  lam : Option Nat
  /-- a passed operation is fed by its internal node (`node → lam`); the body of an abstraction is not -/
  fed : Bool
  /-- the internal pairs made inside the argument -/
  ints : List (Nat × Nat)
  /-- the edges made inside the argument -/
  edges : List (Nat × Nat)
  deriving Repr, DecidableEq

/-- layout of an expression -/
structure HaRes where
  node : Nat
  next : Nat
  /-- source id ↦ node -/
  memo : List (Nat × Nat)
  /-- parameter id ↦ node (the internal node of its abstraction) -/
  params : List (Nat × Nat)
  /-- the new `internal` pairs (step node, internal node), in the order they are made -/
  ints : List (Nat × Nat)
  /-- the new `from` edges -/
  edges : List (Nat × Nat)
  deriving Repr, DecidableEq

/-- the arguments of a spine laid out so far -/
structure HaArgs where
  next : Nat
  memo : List (Nat × Nat)
  params : List (Nat × Nat)
  rs : List HaArg
  deriving Repr, DecidableEq

/-- the internal pairs of a spine with node `n`: per argument, its own internal node (if any), then the pairs made
inside the argument -/
def spineIntsA (n : Nat) (rs : List HaArg) : List (Nat × Nat) :=
  rs.flatMap (fun q => lamPair n q.lam ++ q.ints)

/-- The edges of a spine with node `n`, as a list:
1. the edges inside the arguments;
2. `n → node(a)` for every argument;
3. `node(a) → λ` for every passed operation `a` (not for an abstraction);
4. `λ → node(b)` for every argument `a` with internal node `λ` and every other argument `b` (one that has another
   internal node or none);
5. `μ → λ` for every internal node `μ` attached to `node(a)` inside `a` (nesting). -/
def spineEdgesA (n : Nat) (rs : List HaArg) : List (Nat × Nat) :=
  rs.flatMap (fun a => a.edges) ++ rs.map (fun a => (n, a.node)) ++
  rs.flatMap (fun a => match a.lam with
    | some l => if a.fed then [(a.node, l)] else []
    | none => []) ++
  rs.flatMap (fun a => match a.lam with
    | some l => (rs.filter (fun b => b.lam != some l)).map (fun b => (l, b.node))
    | none => []) ++
  rs.flatMap (fun a => match a.lam with
    | some l => (a.ints.filter (fun q => q.1 == a.node)).map (fun q => (q.2, l))
    | none => [])

/-- the same as a predicate -/
def SpineEdgesA (n : Nat) (rs : List HaArg) (p : Nat × Nat) : Prop :=
  (∃ q ∈ rs, p ∈ q.edges) ∨ (∃ a ∈ rs, p = (n, a.node)) ∨
  (∃ a ∈ rs, ∃ l, a.lam = some l ∧ a.fed = true ∧ p = (a.node, l)) ∨
  (∃ a ∈ rs, ∃ b ∈ rs, ∃ l, a.lam = some l ∧ b.lam ≠ some l ∧ p = (l, b.node)) ∨
  (∃ q ∈ rs, ∃ l μ, q.lam = some l ∧ (q.node, μ) ∈ q.ints ∧ p = (μ, l))

/-- a leaf, or the spine whose arguments have been laid out as `st` -/
def finishA (next : Nat) (memo params : List (Nat × Nat)) (e : AExpr) (cur : Nat) (st : HaArgs) : HaRes :=
  match e with
  | .src id _ _ =>
    match memo.find? (fun p => p.1 == id) with
    | some p => ⟨p.2, next, memo, params, [], []⟩
    | none => ⟨cur, next, memo ++ [(id, cur)], params, [], []⟩
  | .pvar id _ =>
    match params.find? (fun p => p.1 == id) with
    | some p => ⟨p.2, next, memo, params, [], []⟩
    | none => ⟨cur, next, memo, params, [], []⟩
  | .lam _ _ _ => ⟨cur, next, memo, params, [], []⟩
  | _ => ⟨cur, st.next, st.memo, st.params, spineIntsA cur st.rs, spineEdgesA cur st.rs⟩

/-- one argument more -/
def pushArg (st : HaArgs) (r : HaRes) (lam : Option Nat) (fed : Bool) : HaArgs :=
  { next := r.next, memo := r.memo, params := r.params, rs := st.rs ++ [⟨r.node, lam, fed, r.ints, r.edges⟩] }

/-- the arguments of the spine `e`, laid out left to right: reserve the argument's node, reserve its internal node
if it has a function type, lay the argument out. For an abstraction the parameters are registered for the
internal node and the body is laid out with the reserved node. -/
def flowArgsA (next : Nat) (memo params : List (Nat × Nat)) : AExpr → HaArgs
  | .app f (.lam qs body _) _ =>
    let st := flowArgsA next memo params f
    let ps1 := st.params ++ qs.map (fun q => (q, st.next + 1))
    pushArg st (finishA (st.next + 2) st.memo ps1 body st.next (flowArgsA (st.next + 2) st.memo ps1 body))
      (some (st.next + 1)) false
  | .app f x _ =>
    let st := flowArgsA next memo params f
    if x.ty.isFunction then
      pushArg st (finishA (st.next + 2) st.memo st.params x st.next (flowArgsA (st.next + 2) st.memo st.params x))
        (some (st.next + 1)) true
    else
      pushArg st (finishA (st.next + 1) st.memo st.params x st.next (flowArgsA (st.next + 1) st.memo st.params x))
        none false
  | _ => { next := next, memo := memo, params := params, rs := [] }

/-- The layout of an expression whose node `cur` has been reserved. -/
def flowHA (next : Nat) (memo params : List (Nat × Nat)) (e : AExpr) (cur : Nat) : HaRes :=
  finishA next memo params e cur (flowArgsA next memo params e)

/-- the layout when no node has been reserved: the next unused one is taken -/
def flowHATop (next : Nat) (memo params : List (Nat × Nat)) (e : AExpr) (cur : Option Nat) : HaRes :=
  flowHA (allocNode next cur).2 memo params e (allocNode next cur).1

/-- one argument more, in terms of `flowHA` -/
def haStep (st : HaArgs) (x : AExpr) : HaArgs :=
  match x with
  | .lam qs body _ =>
    pushArg st (flowHA (st.next + 2) st.memo (st.params ++ qs.map (fun q => (q, st.next + 1))) body st.next)
      (some (st.next + 1)) false
  | x =>
    if x.ty.isFunction then pushArg st (flowHA (st.next + 2) st.memo st.params x st.next) (some (st.next + 1)) true
    else pushArg st (flowHA (st.next + 1) st.memo st.params x st.next) none false

theorem flowArgsA_app (next : Nat) (memo params : List (Nat × Nat)) (f x : AExpr) (ty : Term) :
    flowArgsA next memo params (.app f x ty) = haStep (flowArgsA next memo params f) x := by
  cases x <;> rfl

theorem flowArgsA_eq (next : Nat) (memo params : List (Nat × Nat)) : ∀ e : AExpr,
    flowArgsA next memo params e = (argsOfA e).foldl haStep { next := next, memo := memo, params := params, rs := [] }
  | .src _ _ _ => rfl
  | .op _ _ => rfl
  | .pvar _ _ => rfl
  | .lam _ _ _ => rfl
  | .app f x ty => by
    rw [flowArgsA_app, flowArgsA_eq next memo params f]
    simp only [argsOfA, List.foldl_append, List.foldl_cons, List.foldl_nil]

/-- the spine case of the layout, spelled out -/
theorem flowHA_spine (next : Nat) (memo params : List (Nat × Nat)) (e : AExpr) (cur : Nat) (name : String) (ty : Term)
    (h : headOfA e = .op name ty) :
    flowHA next memo params e cur =
      { node := cur,
        next := ((argsOfA e).foldl haStep { next := next, memo := memo, params := params, rs := [] }).next,
        memo := ((argsOfA e).foldl haStep { next := next, memo := memo, params := params, rs := [] }).memo,
        params := ((argsOfA e).foldl haStep { next := next, memo := memo, params := params, rs := [] }).params,
        ints := spineIntsA cur ((argsOfA e).foldl haStep { next := next, memo := memo, params := params, rs := [] }).rs,
        edges := spineEdgesA cur ((argsOfA e).foldl haStep { next := next, memo := memo, params := params, rs := [] }).rs } := by
  unfold flowHA
  rw [flowArgsA_eq]
  cases e with
  | src id l t => cases h
  | pvar id t => cases h
  | lam ps b t => cases h
  | op n t => rfl
  | app f x t => rfl

theorem flowHA_src (next : Nat) (memo params : List (Nat × Nat)) (id : Nat) (l : Option String) (ty : Term) (cur : Nat) :
    flowHA next memo params (.src id l ty) cur =
      match memo.find? (fun p => p.1 == id) with
      | some p => ⟨p.2, next, memo, params, [], []⟩
      | none => ⟨cur, next, memo ++ [(id, cur)], params, [], []⟩ := rfl

theorem flowHA_pvar (next : Nat) (memo params : List (Nat × Nat)) (id : Nat) (ty : Term) (cur : Nat) :
    flowHA next memo params (.pvar id ty) cur =
      match params.find? (fun p => p.1 == id) with
      | some p => ⟨p.2, next, memo, params, [], []⟩
      | none => ⟨cur, next, memo, params, [], []⟩ := rfl

/-! ## the edge list as a predicate -/

theorem mem_spineEdgesA (n : Nat) (rs : List HaArg) (p : Nat × Nat) :
    p ∈ spineEdgesA n rs ↔ SpineEdgesA n rs p := by
  unfold spineEdgesA SpineEdgesA
  simp only [List.mem_append, List.mem_flatMap, List.mem_map, or_assoc]
  refine or_congr Iff.rfl (or_congr ?_ (or_congr ?_ (or_congr ?_ ?_)))
  · constructor
    · rintro ⟨a, ha, h⟩; exact ⟨a, ha, h.symm⟩
    · rintro ⟨a, ha, h⟩; exact ⟨a, ha, h.symm⟩
  · constructor
    · rintro ⟨a, ha, h⟩
      cases hl : a.lam with
      | none => rw [hl] at h; cases h
      | some l =>
        rw [hl] at h
        cases hf : a.fed with
        | false => rw [hf] at h; simp at h
        | true =>
          rw [hf] at h
          simp only [if_true, List.mem_singleton] at h
          exact ⟨a, ha, l, hl, hf, h⟩
    · rintro ⟨a, ha, l, hl, hf, h⟩
      refine ⟨a, ha, ?_⟩
      rw [hl, hf]
      simp only [if_true, List.mem_singleton]
      exact h
  · constructor
    · rintro ⟨a, ha, h⟩
      cases hl : a.lam with
      | none => rw [hl] at h; cases h
      | some l =>
        rw [hl] at h
        simp only [List.mem_map, List.mem_filter] at h
        obtain ⟨b, ⟨hb, hbl⟩, h⟩ := h
        exact ⟨a, ha, b, hb, l, hl, by simpa using hbl, h.symm⟩
    · rintro ⟨a, ha, b, hb, l, hl, hbl, h⟩
      refine ⟨a, ha, ?_⟩
      rw [hl]
      simp only [List.mem_map, List.mem_filter]
      exact ⟨b, ⟨hb, by simpa using hbl⟩, h.symm⟩
  · constructor
    · rintro ⟨a, ha, h⟩
      cases hl : a.lam with
      | none => rw [hl] at h; cases h
      | some l =>
        rw [hl] at h
        simp only [List.mem_map, List.mem_filter] at h
        obtain ⟨q, ⟨hq, hq1⟩, h⟩ := h
        refine ⟨a, ha, l, q.2, hl, ?_, h.symm⟩
        have : q.1 = a.node := by simpa using hq1
        rw [← this]; exact hq
    · rintro ⟨a, ha, l, μ, hl, hm, h⟩
      refine ⟨a, ha, ?_⟩
      rw [hl]
      simp only [List.mem_map, List.mem_filter]
      exact ⟨(a.node, μ), ⟨hm, by simp⟩, h.symm⟩

/-! ## the class -/

theorem hofA_sound : ∀ (e : AExpr), hofA e = true → HofA e
  | .src id l ty, _ => .src id l ty
  | .pvar id ty, _ => .pvar id ty
  | .op name ty, _ => .spine _ name ty rfl (by simp [argsOfA])
  | .lam ps body ty, h => .lam ps body ty (hofA_sound body h)
  | .app f x t, h => by
    simp only [hofA, Bool.and_eq_true] at h
    obtain ⟨⟨h1, h2⟩, h3⟩ := h
    have hf := hofA_sound f h2
    have hx := hofA_sound x h3
    cases hh : headOfA f with
    | op name ty =>
      refine .spine _ name ty (by simpa [headOfA] using hh) ?_
      intro a ha
      simp only [argsOfA, List.mem_append, List.mem_singleton] at ha
      rcases ha with ha | rfl
      · cases hf with
        | src id l ty' => simp [argsOfA] at ha
        | pvar id ty' => simp [argsOfA] at ha
        | lam ps body ty' => simp [argsOfA] at ha
        | spine _ _ _ _ h2 => exact h2 a ha
      · exact hx
    | src id l ty => rw [hh] at h1; cases h1
    | pvar id ty => rw [hh] at h1; cases h1
    | lam ps b ty => rw [hh] at h1; cases h1
    | app f' x' ty => rw [hh] at h1; cases h1

theorem headOfA_not_app : ∀ (e f x : AExpr) (t : Term), headOfA e ≠ .app f x t
  | .app g y s, f, x, t => by simpa [headOfA] using headOfA_not_app g f x t
  | .src _ _ _, _, _, _ => by simp [headOfA]
  | .op _ _, _, _, _ => by simp [headOfA]
  | .pvar _ _, _, _, _ => by simp [headOfA]
  | .lam _ _ _, _, _, _ => by simp [headOfA]

theorem hofA_complete : ∀ (e : AExpr), HofA e → hofA e = true
  | .src _ _ _, _ => rfl
  | .pvar _ _, _ => rfl
  | .op _ _, _ => rfl
  | .lam ps body ty, h => by
    cases h with
    | lam _ _ _ hb => exact hofA_complete body hb
    | spine _ name ty' hh _ => cases hh
  | .app f x t, h => by
    cases h with
    | spine _ name ty hh hargs =>
      have hh' : headOfA f = .op name ty := hh
      have hx : HofA x := hargs x (by simp [argsOfA])
      have hf : HofA f := .spine f name ty hh' (fun a ha => hargs a (by simp [argsOfA, ha]))
      simp only [hofA, hh', hofA_complete f hf, hofA_complete x hx, Bool.and_self]

theorem hofA_iff (e : AExpr) : hofA e = true ↔ HofA e := ⟨hofA_sound e, hofA_complete e⟩

end Tfv.C08P
